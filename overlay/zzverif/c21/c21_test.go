// C21 Schema changes keep metadata consistent.
// Black-box monitor: generated sequences of valid and invalid admin requests over tables
// with data and (self-)foreign keys; after EVERY request the metadata invariants are
// checked on what the exported API shows, the state is compared with a plain-Go model, and a
// rejected request must have changed nothing.
package c21

import (
	"fmt"
	"os"
	"strings"
	"testing"
	"time"

	vk "github.com/apmckinlay/gsuneido/util/verifkit"
	"github.com/apmckinlay/gsuneido/zzverif/dbhist"
)

var rawRequests = []string{
	"create t0", "create t0 (a,b)", "create t9 (a,b) index(a)", "alter t0 create key(zz)", "alter t0 drop (zz)", "rename t0",
	"drop", "ensure t0 (a) key(a) extra", "create tables (a) key(a)", "alter t0 rename a to", "create t9 (a,b) key(a) index(b) in nosuch",
	"create t9 (a) key(a) index(a) in t9(zz)", "create t9 (a,a) key(a)", "alter t1 create (a) index unique()", "create t9 (a,b) key(a) index(b) in t9(b)",
	"rename columns to t9", "drop views", "alter indexes drop (a)", "create t9 (a,b) key(a) key(a)", "view = t0", "alter t1 rename a to b to c",
	"create t9 (a_lower!) key(a_lower!)", "alter t0 drop key()", "ensure t9", "create t9 (A) key(A)",
}

func kindOf(msg string) string {
	if i := strings.Index(msg, ":"); i > 0 && i < 30 {
		return msg[:i]
	}
	return "other"
}

type tracker struct {
	selfFkDropped map[string]bool // tables on which an index with a self-referencing fk was dropped
}

func TestVerifC21(t *testing.T) {
	rep := vk.NewReport("C21",
		"a case is one generated history of ~30 admin requests (create/ensure/alter create|drop|rename/rename/view/drop, about a quarter invalid, "+
			"plus malformed request texts) interleaved with transactions that fill the tables, on tables with foreign keys in all three modes incl. "+
			"self references; non-trivial = >= 10 accepted requests, >= 1 foreign key and rows present when checked; distinct by the text of the history",
		"the model follows the accept/reject outcome of the database; packing of values is trusted (C13)")
	defer rep.Finish()
	dbhist.Setup()
	n := vk.N(1200, 20000)
	only := -1
	if s := os.Getenv("VERIF_ONLY_CASE"); s != "" {
		fmt.Sscan(s, &only)
	}
	for i := 0; i < n; i++ {
		if only >= 0 && i != only {
			continue
		}
		rep.Case("history %d (seed %d shard %d)", i, vk.Seed(), vk.Shard())
		runHistory(rep, i)
	}
}

func runHistory(rep *vk.Report, idx int) {
	r := vk.RandFor(21, idx)
	real := dbhist.CreateHeapReal(time.Hour)
	h := dbhist.NewHist(r, real)
	h.G.MaxRows = 25
	key := fmt.Sprintf("seed=%d shard=%d history=%d", vk.Seed(), vk.Shard(), idx)
	accepted, fks, rowsSeen := 0, 0, 0
	tr := &tracker{selfFkDropped: map[string]bool{}}
	defer func() {
		dbhist.Catch(func() { real.DB.Close() })
		rep.Eval(vk.Hash64(strings.Join(h.Log, "\n")), accepted >= 10 && fks > 0 && rowsSeen > 0)
		for k, v := range h.Counts {
			rep.Count(k, v)
		}
		for k, v := range h.Notes {
			rep.Seen("notes", k+" e.g. "+vk.Trunc(v, 1500))
		}
		if rep.WantSample() {
			rep.Sample(map[string]any{"history": idx, "tail": h.Tail(10)})
		}
	}()
	prev := dbhist.TakeSnap(real.DB)
	nreq := 24 + r.IntN(14)
	for step := 0; step < nreq; step++ {
		// data between the requests
		for k := r.IntN(3); k > 0 && len(h.M.Tables) > 0; k-- {
			h.DoTxn(h.G.NextTxn(5), "commit")
			if h.Abandoned != "" {
				rep.Count("histories_abandoned_model_divergence", 1)
				return
			}
			prev = nil
		}
		if prev == nil {
			prev = dbhist.TakeSnap(real.DB)
			if d := prev.DiffModel(h.M); len(d) > 0 {
				rep.Violate("C21/data-differs-from-model-after-transaction/"+kindOf2(d[0]), key, map[string]any{"diff": d, "history": h.Tail(300)})
				return
			}
		}
		if idx%2 == 1 && r.IntN(5) == 0 {
			// in every second history the metadata is persisted now and then (a persisted schema takes other paths:
			// tombstones, the metadata clock), which must not change anything the exported API shows
			h.Persist()
			rep.Count("persists_between_requests", 1)
			after := dbhist.TakeSnap(real.DB)
			if d := prev.Diff(after); len(d) > 0 {
				rep.Violate("C21/persist-changed-state", key, map[string]any{"diff": d, "history": h.Tail(300)})
				return
			}
		}
		var q *dbhist.Req
		if r.IntN(12) == 0 {
			q = &dbhist.Req{Kind: "raw", Def: rawRequests[r.IntN(len(rawRequests))]}
		} else {
			q = h.G.NextAdmin()
		}
		before := h.M.Clone()
		ok, merr, rerr := h.DoAdmin(q)
		snap := dbhist.TakeSnap(real.DB)
		rep.Count("requests_checked", 1)
		if !ok {
			// a rejected request changes nothing
			rep.Count("rejected_requests_checked", 1)
			if d := prev.Diff(snap); len(d) > 0 {
				rep.Violate("C21/rejected-request-changed-state/"+q.Kind, key, map[string]any{"request": q.Text(), "error": fmt.Sprint(rerr), "diff": d, "history": h.Tail(300)})
				return
			}
		} else {
			accepted++
			track(tr, before, q)
		}
		if inv := snap.Invariants(); len(inv) > 0 {
			rep.Violate("C21/"+kindOf(inv[0])+cause(tr, h.M, inv[0]), key, map[string]any{"request": q.Text(), "accepted": ok, "violations": inv, "history": h.Tail(300)})
			return
		}
		if h.Abandoned != "" {
			// accepted although the model calls it invalid: the invariants above still held
			rep.Count("histories_abandoned_model_divergence", 1)
			rep.Seen("accepted_but_invalid_for_model", q.Kind+": "+fmt.Sprint(merr))
			return
		}
		if d := snap.DiffModel(h.M); len(d) > 0 {
			rep.Violate("C21/differs-from-model/"+kindOf2(d[0])+cause(tr, h.M, d[0]), key, map[string]any{"request": q.Text(), "accepted": ok, "diff": d, "history": h.Tail(300)})
			return
		}
		nf := 0
		for _, t := range h.M.Tables {
			for i := range t.Idx {
				if t.Idx[i].FkTable != "" {
					nf++
					if t.Idx[i].FkTable == t.Name {
						rep.Count("checks_with_self_reference", 1)
					}
				}
			}
		}
		fks += nf
		rowsSeen += h.M.NRows()
		rep.Count("foreign_keys_checked", nf)
		rep.Count("rows_checked", h.M.NRows())
		prev = snap
	}
}

func kindOf2(line string) string {
	switch {
	case strings.Contains(line, "FkToHere"):
		return "fktohere"
	case strings.Contains(line, "Fk.IIndex"):
		return "fk-iindex"
	case strings.Contains(line, "BestKey"):
		return "bestkey"
	case strings.Contains(line, "seen") || strings.Contains(line, "rows"):
		return "rows"
	case strings.HasPrefix(line, "view"):
		return "view"
	case strings.Contains(line, "columns") || strings.Contains(line, "derived"):
		return "columns"
	case strings.Contains(line, "index"):
		return "indexes"
	case strings.Contains(line, "missing") || strings.Contains(line, "not in model"):
		return "tables"
	}
	return "other"
}

// track remembers the triggers of the known findings
func track(tr *tracker, before *dbhist.Model, q *dbhist.Req) {
	switch q.Kind {
	case "alterdrop":
		if t := before.Tables[q.Table]; t != nil {
			for i := range q.Idx {
				if j := t.FindIndex(q.Idx[i].Cols); j >= 0 && t.Idx[j].FkTable == t.Name {
					tr.selfFkDropped[q.Table] = true
				}
			}
		}
	case "rename":
		if tr.selfFkDropped[q.Table] {
			delete(tr.selfFkDropped, q.Table)
			tr.selfFkDropped[q.NewName] = true
		}
	case "drop":
		delete(tr.selfFkDropped, q.Table)
	}
}

func twoFksToOneKey(t *dbhist.Table) bool {
	for i := range t.Idx {
		for j := 0; j < i; j++ {
			if t.Idx[i].FkTable != "" && t.Idx[i].FkTable == t.Idx[j].FkTable && fmt.Sprint(t.Idx[i].FkCols) == fmt.Sprint(t.Idx[j].FkCols) {
				return true
			}
		}
	}
	return false
}

// cause refines the class when the failing table shows the trigger of a known finding.
func cause(tr *tracker, m *dbhist.Model, msg string) string {
	f := strings.Fields(msg)
	// messages look like "<kind>: table <name> ..." or "table <name> ..."
	name := ""
	for i := range f {
		if f[i] == "table" && i+1 < len(f) {
			name = f[i+1]
			break
		}
	}
	if strings.Contains(msg, "FkToHere") || strings.Contains(msg, "fktohere-mirror") {
		if tr.selfFkDropped[name] {
			return "/after-drop-of-self-referencing-fk-index"
		}
	}
	if strings.Contains(msg, "FkToHere") || strings.Contains(msg, "fk-mirror") || strings.Contains(msg, "fktohere-mirror") {
		// the entries that are wrong belong to a table with two foreign keys to one key
		for _, t := range m.Tables {
			if twoFksToOneKey(t) && (t.Name == name || strings.Contains(msg, t.Name+"(")) {
				return "/two-foreign-keys-to-one-key"
			}
		}
	}
	return ""
}
