// C18 Concurrent storage allocations never overlap.
//
// Black-box monitor of db19/stor.Stor.Alloc (lock-free size increment + extend under lock), race build.
// Many goroutines allocate concurrently from one Stor with a tiny chunk size so that chunk boundaries are crossed
// all the time; every returned (offset, slice) is recorded and the complete set is judged afterwards by an
// interval model: pairwise disjoint, inside one chunk, inside Size(), len==cap==n, contents private.
package c18

import (
	"bytes"
	"encoding/binary"
	"fmt"
	"math/rand/v2"
	"runtime"
	"slices"
	"strings"
	"sync"
	"sync/atomic"
	"testing"

	"github.com/apmckinlay/gsuneido/db19/stor"
	vk "github.com/apmckinlay/gsuneido/util/verifkit"
)

type rec struct {
	off uint64
	n   int
	g   int
	seq int
	b   []byte
}

// slowImpl is a storage implementation whose Get (mapping a new chunk) yields, like a slow mmap call:
// it widens the window in which other allocators run while one goroutine extends the storage.
type slowImpl struct {
	chunksize int
	yields    int
	gets      atomic.Int64
	repeats   atomic.Int64
	mu        sync.Mutex
	seen      map[int]bool
}

func (s *slowImpl) Get(chunk int) []byte {
	s.gets.Add(1)
	s.mu.Lock()
	if s.seen[chunk] {
		s.repeats.Add(1)
	}
	s.seen[chunk] = true
	s.mu.Unlock()
	for i := 0; i < s.yields; i++ {
		runtime.Gosched()
	}
	return make([]byte, s.chunksize)
}
func (s *slowImpl) Flush([]byte)      {}
func (s *slowImpl) Close(int64, bool) {}

func tag(g, seq int) uint64 {
	return (uint64(g+1)<<40 | uint64(seq+1)) * 0x9e3779b97f4a7c15
}

// fill writes the allocation's private pattern: the 8 tag bytes repeated.
func fill(b []byte, t uint64) {
	var tb [8]byte
	binary.LittleEndian.PutUint64(tb[:], t)
	k := copy(b, tb[:])
	for k < len(b) {
		k += copy(b[k:], b[:k])
	}
}

func intact(b []byte, t uint64) bool {
	var tb [8]byte
	binary.LittleEndian.PutUint64(tb[:], t)
	if len(b) <= 8 {
		return bytes.Equal(b, tb[:len(b)])
	}
	return bytes.Equal(b[:8], tb[:]) && bytes.Equal(b[8:], b[:len(b)-8])
}

func TestVerifC18(t *testing.T) {
	rep := vk.NewReport("C18",
		"a case is one run: a fresh Stor (heap storage or a storage whose chunk mapping yields) with chunk size 64..4096, 2-32 goroutines each making its share of "+
			"the run's 8000 allocations (or until 256 KiB are used) (sizes 1..chunk: small, chunk fractions, exactly/one more/one less than the remainder of the current chunk, the whole chunk; in a third of the runs almost all sizes exceed half a chunk so that every allocation needs a new chunk), "+
			"with random yields (a third of the runs instead run nothing but Alloc in the loop and check afterwards), under GOMAXPROCS 1..64 (more than the cores, so that the OS preempts allocators at arbitrary points). Non-trivial = at least 2 goroutines got allocations in the same chunk and at least 10 chunk boundaries were crossed. "+
			"Distinct by (chunk size, goroutines, storage kind, hash of the sorted allocation table)",
		"every allocation that returned is recorded by the goroutine that made it; the judgement is made after all goroutines have finished",
		"a panic out of Alloc (e.g. 'too many retries') is the loud failure the statement allows: counted, not a violation")
	defer rep.Finish()
	runs := vk.N(400, 16000)
	perRun := 8000           // allocations per run, or
	const volume = 256 << 10 // bytes of storage per run, whichever comes first (race-build memory is slow)
	oldProcs := runtime.GOMAXPROCS(0)
	defer runtime.GOMAXPROCS(oldProcs)
	// buffers are reused between runs: touching fresh memory is what is slow in a race build
	bufs := make([][]rec, 32)
	for i := range bufs {
		bufs[i] = make([]rec, 0, perRun/2)
	}
	var unsorted, all []rec
	var keys []uint64
	chunkSizes := []int{64, 64, 128, 128, 256, 256, 512, 512, 1024, 4096}
	for run := 0; run < runs; run++ {
		r := vk.RandFor(18, run)
		cs := chunkSizes[r.IntN(len(chunkSizes))]
		ng := 2 + r.IntN(15)
		if r.IntN(4) == 0 {
			ng = 17 + r.IntN(16)
		}
		// more Ps than cores is deliberate: the OS then preempts allocating threads at arbitrary instructions
		procs := []int{1, 2, 3, 4, 8, 8, 16, 16, 32, 64}[r.IntN(10)]
		runtime.GOMAXPROCS(procs)
		kind := "heap"
		var st *stor.Stor
		var slow *slowImpl
		if r.IntN(3) == 0 {
			kind = "slowmap"
			slow = &slowImpl{chunksize: cs, yields: r.IntN(6), seen: map[int]bool{}}
			st = stor.NewStor(slow, uint64(cs), 0, nil)
		} else {
			st = stor.HeapStor(cs)
		}
		yieldEvery := []int{0, 2, 8, 64}[r.IntN(4)]
		storm := r.IntN(3) == 0 // every allocation is larger than half a chunk: each one needs a new chunk
		if storm {
			kind += "+storm"
		}
		tight := r.IntN(3) == 0
		if tight {
			kind += "+tight"
		}
		rep.Case("run %d seed=%d shard=%d chunk=%d goroutines=%d procs=%d kind=%s yield=%d", run, vk.Seed(), vk.Shard(), cs, ng, procs, kind, yieldEvery)
		key := fmt.Sprintf("seed=%d shard=%d/%d run=%d chunk=%d goroutines=%d procs=%d kind=%s", vk.Seed(), vk.Shard(), vk.NShards(), run, cs, ng, procs, kind)
		recs := make([][]rec, ng)
		var wg sync.WaitGroup
		start := make(chan struct{})
		var retryPanics, otherPanics, arrived atomic.Int64
		var otherPanicMsg atomic.Value
		seeds := make([]uint64, ng)
		for g := range seeds {
			seeds[g] = r.Uint64()
		}
		for g := 0; g < ng; g++ {
			wg.Add(1)
			go func(g int) {
				defer wg.Done()
				lr := rand.New(rand.NewPCG(seeds[g], 18))
				k := perRun / ng
				mine := bufs[g][:0]
				<-start
				// (spin barrier below: begin only when every goroutine is actually running or has been scheduled once,
				// otherwise the first ones finish before the last ones wake up)
				if tight {
					// nothing but Alloc in the loop, so that most of each thread's time is inside Alloc:
					// sizes are drawn beforehand, results are checked and filled afterwards
					sizes := make([]int, k)
					for i := range sizes {
						switch c := lr.IntN(20); {
						case storm && c < 18:
							sizes[i] = cs/2 + 1 + lr.IntN(cs/2)
						case c < 12:
							sizes[i] = 1 + lr.IntN(min(32, cs))
						case c < 16:
							sizes[i] = 1 + lr.IntN(max(1, cs/4))
						case c < 19:
							sizes[i] = 1 + lr.IntN(cs)
						default:
							sizes[i] = cs
						}
					}
					arrived.Add(1)
					for i := 0; arrived.Load() < int64(ng) && i < 100000; i++ {
						runtime.Gosched()
					}
					seq, stop := 0, false
					for seq < k && !stop {
						p, _ := vk.Catch(func() {
							for ; seq < k; seq++ {
								if seq&31 == 0 && st.Size() >= volume {
									stop = true
									return
								}
								off, b := st.Alloc(sizes[seq])
								mine = append(mine, rec{off, sizes[seq], g, seq, b})
							}
						})
						if p != nil {
							if strings.Contains(fmt.Sprint(p), "too many retries") {
								retryPanics.Add(1)
							} else {
								otherPanics.Add(1)
								otherPanicMsg.Store(fmt.Sprint(p))
							}
							seq++
						}
					}
					size := st.Size()
					for i := range mine {
						m := &mine[i]
						if len(m.b) != m.n || cap(m.b) != m.n {
							rep.Violate("C18/slice-len-cap-wrong", key, map[string]any{"n": m.n, "len": len(m.b), "cap": cap(m.b), "off": m.off})
						}
						if m.off+uint64(m.n) > size {
							rep.Violate("C18/beyond-size", key, map[string]any{"off": m.off, "n": m.n, "size_after": size})
						}
						fill(m.b, tag(g, m.seq))
					}
					recs[g] = mine
					bufs[g] = mine
					return
				}
				arrived.Add(1)
				for i := 0; arrived.Load() < int64(ng) && i < 100000; i++ {
					runtime.Gosched()
				}
				for seq := 0; seq < k && st.Size() < volume; seq++ {
					var n int
					switch c := lr.IntN(20); {
					case storm && c < 18:
						n = cs/2 + 1 + lr.IntN(cs/2)
					case c < 9:
						n = 1 + lr.IntN(min(32, cs))
					case c < 13:
						n = 1 + lr.IntN(max(1, cs/4))
					case c < 16: // aim at the boundary of the current chunk
						rem := cs - int(st.Size()%uint64(cs))
						n = rem + lr.IntN(3) - 1
					case c < 18:
						n = 1 + lr.IntN(cs)
					case c < 19:
						n = cs - lr.IntN(2)
					default:
						n = 8
					}
					if n < 1 {
						n = 1
					}
					if n > cs {
						n = cs
					}
					var off uint64
					var b []byte
					p, _ := vk.Catch(func() { off, b = st.Alloc(n) })
					if p != nil {
						if strings.Contains(fmt.Sprint(p), "too many retries") {
							retryPanics.Add(1)
						} else {
							otherPanics.Add(1)
							otherPanicMsg.Store(fmt.Sprint(p))
						}
						continue
					}
					size := st.Size()
					if len(b) != n || cap(b) != n {
						rep.Violate("C18/slice-len-cap-wrong", key, map[string]any{"n": n, "len": len(b), "cap": cap(b), "off": off})
					}
					if off+uint64(n) > size {
						rep.Violate("C18/beyond-size", key, map[string]any{"off": off, "n": n, "size_after": size})
					}
					fill(b, tag(g, seq))
					mine = append(mine, rec{off, n, g, seq, b})
					if yieldEvery > 0 && lr.IntN(yieldEvery) == 0 {
						runtime.Gosched()
					}
				}
				recs[g] = mine
				bufs[g] = mine
			}(g)
		}
		close(start)
		wg.Wait()

		// sort by offset (keys = offset<<24 | index: sorting plain integers is fast in a race build)
		unsorted = unsorted[:0]
		for _, l := range recs {
			unsorted = append(unsorted, l...)
		}
		keys = keys[:0]
		for i := range unsorted {
			keys = append(keys, unsorted[i].off<<24|uint64(i))
		}
		slices.Sort(keys)
		all = all[:0]
		for _, k := range keys {
			all = append(all, unsorted[k&(1<<24-1)])
		}
		finalSize := st.Size()
		h := uint64(cs)*31 + uint64(ng)
		crossings, sharedChunks, interleaved, holesAtStart, exactFill := 0, 0, 0, 0, 0
		curChunk := int64(-1)
		gInChunk := map[int]bool{}
		var end uint64 // max end so far
		var endRec *rec
		bad := 0
		for i := range all {
			a := &all[i]
			h = h*1099511628211 ^ (a.off<<20 + uint64(a.n)<<5 + uint64(a.g))
			first := a.off / uint64(cs)
			last := (a.off + uint64(a.n) - 1) / uint64(cs)
			if first != last && bad < 5 {
				bad++
				rep.Violate("C18/straddles-chunk", key, map[string]any{"off": a.off, "n": a.n, "chunk": cs, "goroutine": a.g, "seq": a.seq})
			}
			if a.off+uint64(a.n) > finalSize && bad < 5 {
				bad++
				rep.Violate("C18/beyond-size", key, map[string]any{"off": a.off, "n": a.n, "final_size": finalSize})
			}
			if endRec != nil && a.off < end && bad < 5 {
				bad++
				rep.Violate("C18/overlap", key, map[string]any{
					"a": fmt.Sprintf("goroutine %d alloc #%d: off=%d n=%d", endRec.g, endRec.seq, endRec.off, endRec.n),
					"b": fmt.Sprintf("goroutine %d alloc #%d: off=%d n=%d", a.g, a.seq, a.off, a.n), "chunk": cs})
			}
			if endRec != nil && endRec.g != a.g {
				interleaved++
			}
			if int64(first) != curChunk {
				if curChunk >= 0 {
					crossings++
					if len(gInChunk) >= 2 {
						sharedChunks++
					}
				}
				curChunk = int64(first)
				gInChunk = map[int]bool{}
				if a.off%uint64(cs) != 0 {
					holesAtStart++ // an increment was wasted after the extend: allocators really raced with extend
				}
			}
			if (a.off+uint64(a.n))%uint64(cs) == 0 {
				exactFill++
			}
			gInChunk[a.g] = true
			if a.off+uint64(a.n) > end || endRec == nil {
				end = a.off + uint64(a.n)
				endRec = a
			}
			// contents: through the slice that was returned and through Data(off)
			tg := tag(a.g, a.seq)
			if !intact(a.b, tg) && bad < 5 {
				bad++
				rep.Violate("C18/contents-clobbered", key, map[string]any{"off": a.off, "n": a.n, "goroutine": a.g, "seq": a.seq})
			}
			if first == last {
				var d []byte
				p, _ := vk.Catch(func() { d = st.Data(a.off) })
				if p != nil || len(d) < a.n || !intact(d[:a.n], tg) {
					if bad < 5 {
						bad++
						rep.Violate("C18/data-does-not-show-allocation", key, map[string]any{"off": a.off, "n": a.n, "panic": fmt.Sprint(p), "len_data": len(d)})
					}
				}
			}
		}
		rep.Eval(h, sharedChunks >= 1 && crossings >= 10)
		rep.Count("runs", 1)
		rep.Count("allocations", len(all))
		rep.Count("chunk_crossings", crossings)
		rep.Count("chunks_shared_by_2plus_goroutines", sharedChunks)
		rep.Count("adjacent_allocations_of_different_goroutines", interleaved)
		rep.Count("chunks_with_wasted_start", holesAtStart)
		rep.Count("allocations_ending_exactly_at_chunk_end", exactFill)
		rep.Count("loud_failures_too_many_retries", int(retryPanics.Load()))
		rep.Count("loud_failures_other_panic", int(otherPanics.Load()))
		if m, ok := otherPanicMsg.Load().(string); ok {
			rep.Seen("other_panic", vk.Trunc(m, 80))
		}
		if slow != nil {
			rep.Count("slowmap_runs", 1)
			rep.Count("slowmap_chunk_mapped_again", int(slow.repeats.Load()))
		}
		rep.Seen("chunk_size", fmt.Sprint(cs))
		rep.Seen("gomaxprocs", fmt.Sprint(procs))
		rep.Seen("goroutines", fmt.Sprint(ng))
		if rep.WantSample() && run < 3 {
			rep.Sample(map[string]any{"run": run, "chunk": cs, "goroutines": ng, "procs": procs, "kind": kind, "allocations": len(all), "crossings": crossings,
				"shared_chunks": sharedChunks, "final_size": finalSize})
		}
	}
}
