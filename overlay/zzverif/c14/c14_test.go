// C14 Stored records and binary encodings round-trip.
//
// Black-box monitor over core.RecordBuilder/Record, db19/stor Writer/Reader and
// small offsets, the dbms/mux client-server encodings (driven through a real
// ClientConn/ServerConn pair on an in-memory pipe, echoing every item) and
// util/varint. The oracle is the written data itself (Go slices); for varint
// lengths the reference is encoding/binary.
package c14

import (
	"encoding/binary"
	"fmt"
	"math"
	"math/rand/v2"
	"net"
	"testing"

	. "github.com/apmckinlay/gsuneido/core"
	"github.com/apmckinlay/gsuneido/db19/stor"
	"github.com/apmckinlay/gsuneido/dbms/mux"
	"github.com/apmckinlay/gsuneido/util/dnum"
	"github.com/apmckinlay/gsuneido/util/varint"
	vk "github.com/apmckinlay/gsuneido/util/verifkit"
)

// ---------------------------------------------------------------- generators

func randBytes(r *rand.Rand, n int) string {
	b := make([]byte, n)
	switch r.IntN(4) {
	case 0: // full range
		for i := range b {
			b[i] = byte(r.IntN(256))
		}
	case 1: // header-like bytes
		a := "\x00\x01\x02\x03\x04\x05\x06\x07\x40\x80\xc0\xff"
		for i := range b {
			b[i] = a[r.IntN(len(a))]
		}
	case 2:
		c := byte(r.IntN(256))
		for i := range b {
			b[i] = c
		}
	default:
		a := "abcXYZ 019"
		for i := range b {
			b[i] = a[r.IntN(len(a))]
		}
	}
	return string(b)
}

// a field size distribution with many empties and small fields
func fieldSize(r *rand.Rand) int {
	switch r.IntN(10) {
	case 0, 1:
		return 0
	case 2:
		return 1
	case 3:
		return r.IntN(300)
	default:
		return r.IntN(12)
	}
}

// genFields builds a field list; kind selects the shape
func genFields(r *rand.Rand, kind int) []string {
	var f []string
	addN := func(n int) {
		for i := 0; i < n; i++ {
			f = append(f, randBytes(r, fieldSize(r)))
		}
	}
	total := func() int {
		t := 0
		for _, s := range f {
			t += len(s)
		}
		return t
	}
	// pad the LAST/FIRST/a random field so that the data size becomes d
	padTo := func(d int) {
		if len(f) == 0 || total() > d {
			return
		}
		i := []int{0, len(f) - 1, r.IntN(len(f))}[r.IntN(3)]
		f[i] += randBytes(r, d-total())
	}
	switch kind {
	case 0: // small
		addN(r.IntN(12))
	case 1: // around the 8 bit / 16 bit length class border
		n := 1 + r.IntN(40)
		if r.IntN(4) == 0 {
			n = []int{1, 2, 100, 125, 126, 127, 200, 250, 251, 252, 253}[r.IntN(11)]
		}
		for i := 0; i < n; i++ {
			f = append(f, randBytes(r, r.IntN(4)))
		}
		target := 250 + r.IntN(12) // record length in the 8 bit layout
		padTo(target - 2 - (1 + n))
	case 2: // around the 16 bit / 32 bit border
		n := 1 + r.IntN(60)
		if r.IntN(4) == 0 {
			n = []int{1, 2, 1000, 8000, 16383}[r.IntN(5)]
		}
		for i := 0; i < n; i++ {
			f = append(f, randBytes(r, r.IntN(3)))
		}
		target := 65530 + r.IntN(12) // record length in the 16 bit layout
		padTo(target - 2 - 2*(1+n))
	case 3: // many fields
		n := []int{255, 256, 1000, 4095, 4096, 16382, 16383}[r.IntN(7)]
		for i := 0; i < n; i++ {
			f = append(f, randBytes(r, r.IntN(3)))
		}
	case 4: // large (32 bit layout)
		n := 1 + r.IntN(8)
		for i := 0; i < n; i++ {
			f = append(f, randBytes(r, r.IntN(110000)))
		}
	case 5: // close to the maximum record length
		n := 1 + r.IntN(5)
		for i := 0; i < n; i++ {
			f = append(f, randBytes(r, r.IntN(10)))
		}
		target := 1000000 - r.IntN(3)
		padTo(target - 2 - 4*(1+n))
	default: // trailing empties (Truncate trims them)
		addN(1 + r.IntN(6))
		for k := 1 + r.IntN(4); k > 0; k-- {
			f = append(f, "")
		}
		if r.IntN(2) == 0 {
			addN(1)
		}
	}
	return f
}

func genValue(r *rand.Rand) PackableValue {
	switch r.IntN(8) {
	case 0:
		return SuBool(r.IntN(2) == 0)
	case 1:
		return IntVal(r.IntN(70000) - 35000)
	case 2:
		return IntVal(int(r.Uint64()))
	case 3:
		return SuDnum{Dnum: dnum.New(int8(1-2*r.IntN(2)), r.Uint64N(9999999999999999)+1, r.IntN(40)-20)}
	case 4:
		return SuStr(randBytes(r, r.IntN(40)))
	case 5:
		return NewDate(1700+r.IntN(1300), 1+r.IntN(12), 1+r.IntN(28), r.IntN(24), r.IntN(60), r.IntN(60), r.IntN(1000))
	case 6:
		ob := &SuObject{}
		for k := r.IntN(4); k > 0; k-- {
			ob.Add(IntVal(r.IntN(1000)))
		}
		if r.IntN(2) == 0 {
			ob.Set(SuStr("k"), SuStr(randBytes(r, r.IntN(200))))
		}
		return ob
	default:
		return EmptyStr.(PackableValue)
	}
}

var int64Boundary []int64

func init() {
	add := func(n int64) {
		for d := int64(-2); d <= 2; d++ {
			m := n + d
			if (d > 0 && m < n) || (d < 0 && m > n) {
				continue
			}
			int64Boundary = append(int64Boundary, m)
		}
	}
	add(0)
	for k := 1; k < 63; k++ {
		add(int64(1) << k)
		add(-(int64(1) << k))
	}
	add(math.MaxInt64)
	add(math.MinInt64)
}

func genInt64(r *rand.Rand) int64 {
	switch r.IntN(4) {
	case 0:
		return int64Boundary[r.IntN(len(int64Boundary))]
	case 1:
		return int64(r.IntN(300) - 150)
	case 2:
		return int64(r.Uint64() >> uint(r.IntN(64)))
	default:
		return -int64(r.Uint64() >> uint(r.IntN(64)))
	}
}

// ---------------------------------------------------------------- mux echo

// item kinds of the echo protocol (the kind byte itself travels through PutByte/GetByte)
type item struct {
	kind byte // i int64, n int, s string, S strings, r record, v value, b bool, I ints, c byte
	i    int64
	s    string
	ss   []string
	v    Value
	b    bool
	ints []int
}

func putItem(wb *mux.WriteBuf, it item) {
	wb.PutByte(it.kind)
	switch it.kind {
	case 'i':
		wb.PutInt64(it.i)
	case 'n':
		wb.PutInt(int(it.i))
	case 's':
		wb.PutStr(it.s)
	case 'S':
		wb.PutStrs(it.ss)
	case 'r':
		wb.PutRec(Record(it.s))
	case 'v':
		wb.PutVal(it.v)
	case 'b':
		wb.PutBool(it.b)
	case 'I':
		wb.PutInts(it.ints)
	case 'c':
		wb.PutByte(byte(it.i))
	}
}

func getItem(rb *mux.ReadBuf) item {
	it := item{kind: rb.GetByte()}
	switch it.kind {
	case 'i':
		it.i = rb.GetInt64()
	case 'n':
		it.i = int64(rb.GetInt())
	case 's':
		it.s = rb.GetStr()
	case 'S':
		it.ss = rb.GetStrs()
	case 'r':
		it.s = string(rb.GetRec())
	case 'v':
		it.v = rb.GetVal()
	case 'b':
		it.b = rb.GetBool()
	case 'I':
		n := rb.GetInt()
		for ; n > 0; n-- {
			it.ints = append(it.ints, rb.GetInt())
		}
	case 'c':
		it.i = int64(rb.GetByte())
	default:
		panic(fmt.Sprintf("echo: bad kind byte %d", it.kind))
	}
	return it
}

func sameItem(a, b item) string {
	if a.kind != b.kind {
		return fmt.Sprintf("kind %c came back as %c", a.kind, b.kind)
	}
	switch a.kind {
	case 'i', 'n', 'c':
		if a.i != b.i {
			return fmt.Sprintf("integer %d came back as %d", a.i, b.i)
		}
	case 's', 'r':
		if a.s != b.s {
			return fmt.Sprintf("string of %d bytes came back different (%d bytes)", len(a.s), len(b.s))
		}
	case 'S':
		if len(a.ss) != len(b.ss) {
			return fmt.Sprintf("%d strings came back as %d", len(a.ss), len(b.ss))
		}
		for i := range a.ss {
			if a.ss[i] != b.ss[i] {
				return fmt.Sprintf("string %d of the list differs", i)
			}
		}
	case 'v':
		if PackValue(a.v) != PackValue(b.v) {
			return fmt.Sprintf("value %s came back as %s", vk.Trunc(a.v.String(), 80), vk.Trunc(b.v.String(), 80))
		}
	case 'b':
		if a.b != b.b {
			return "boolean differs"
		}
	case 'I':
		if len(a.ints) != len(b.ints) {
			return fmt.Sprintf("%d ints came back as %d", len(a.ints), len(b.ints))
		}
		for i := range a.ints {
			if a.ints[i] != b.ints[i] {
				return fmt.Sprintf("int %d of the list: %d came back as %d", i, a.ints[i], b.ints[i])
			}
		}
	}
	return ""
}

func (it item) String() string {
	switch it.kind {
	case 'i', 'n', 'c':
		return fmt.Sprintf("%c %d", it.kind, it.i)
	case 's', 'r':
		return fmt.Sprintf("%c len %d", it.kind, len(it.s))
	case 'S':
		return fmt.Sprintf("S %d strings", len(it.ss))
	case 'v':
		return "v " + vk.Trunc(it.v.String(), 60)
	case 'b':
		return fmt.Sprint("b ", it.b)
	case 'I':
		return fmt.Sprintf("I %d ints", len(it.ints))
	}
	return "?"
}

func itemSize(it item) int {
	n := 12 + len(it.s) + 10*len(it.ints)
	for _, s := range it.ss {
		n += len(s) + 5
	}
	if it.kind == 'v' {
		n += len(PackValue(it.v))
	}
	return n
}

func genItem(r *rand.Rand) item {
	switch r.IntN(12) {
	case 0, 1, 2:
		return item{kind: 'i', i: genInt64(r)}
	case 3:
		return item{kind: 'n', i: genInt64(r)}
	case 4, 5:
		n := r.IntN(50)
		switch r.IntN(8) {
		case 0:
			n = []int{0, 1, 63, 64, 127, 128, 129, 4000, 4086, 4087, 4088, 4095, 4096, 4097, 8191, 8192, 8193, 16383, 16384, 65535, 65536}[r.IntN(21)]
		case 1:
			n = r.IntN(300000)
		}
		return item{kind: 's', s: randBytes(r, n)}
	case 6:
		var ss []string
		for k := r.IntN(6); k > 0; k-- {
			ss = append(ss, randBytes(r, r.IntN(30)))
		}
		if r.IntN(10) == 0 {
			for k := 200 + r.IntN(200); k > 0; k-- {
				ss = append(ss, randBytes(r, r.IntN(60)))
			}
		}
		return item{kind: 'S', ss: ss}
	case 7:
		var rb RecordBuilder
		for _, f := range genFields(r, []int{0, 0, 1, 2, 6}[r.IntN(5)]) {
			rb.AddRaw(f)
		}
		rec := Record("\x00")
		vk.Catch(func() { rec = rb.Build() }) // building records is judged in the record phase
		return item{kind: 'r', s: string(rec)}
	case 8:
		return item{kind: 'v', v: genValue(r)}
	case 9:
		return item{kind: 'b', b: r.IntN(2) == 0}
	case 10:
		var ints []int
		for k := r.IntN(10); k > 0; k-- {
			ints = append(ints, int(genInt64(r)))
		}
		return item{kind: 'I', ints: ints}
	default:
		return item{kind: 'c', i: int64(r.IntN(256))}
	}
}

// ---------------------------------------------------------------- the check

func TestVerifC14(t *testing.T) {
	rep := vk.NewReport("C14",
		"records: field lists of 0..16383 raw or packed fields in shapes that put the record length on both sides of the 8/16 and 16/32 bit layout borders, at the 1 000 000 byte maximum, "+
			"with many/large/empty/trailing-empty fields; stor: sequences of Put1..Put5/PutStr/PutStrs over boundary and PRNG values, small offsets; "+
			"mux: messages of 1..40 items (zig-zag ints over all int64 boundaries, strings around the 4096 byte buffer border and up to 300 KB, string lists, records, packed values, "+
			"booleans, bytes, int lists) echoed through a real client/server connection pair on an in-memory pipe; varint lengths against encoding/binary; "+
			"a case = one record, one stor sequence, one echoed message or one integer; non-trivial = at least one field/item; distinct by content hash",
		"the oracle is the written data itself; encoding/binary is the reference for varint lengths", "Pack/Unpack of values is C13's job (fields added as values are compared with Pack of the value)")
	defer rep.Finish()
	reported := map[string]bool{}
	violate := func(class, key string, detail any) {
		if id := class + "|" + key; !reported[id] {
			if len(reported) < 100000 {
				reported[id] = true
			}
			rep.Violate(class, key, detail)
		} else {
			rep.Count("violations_repeated", 1)
		}
	}

	// ---- 1. records
	checkRecord := func(ci int, fields []string, asValues []PackableValue) {
		key := fmt.Sprintf("record case %d (seed %d shard %d/%d): %d fields", ci, vk.Seed(), vk.Shard(), vk.NShards(), len(fields))
		rep.Case("%s", key)
		var rec Record
		p, _ := vk.Catch(func() {
			var rb RecordBuilder
			for i, f := range fields {
				if asValues != nil && asValues[i] != nil {
					rb.Add(asValues[i])
				} else {
					rb.AddRaw(f)
				}
			}
			rec = rb.Build()
		})
		h := vk.Hash64("rec", len(fields))
		for _, f := range fields {
			h = h*1099511628211 ^ vk.Hash64(f)
		}
		rep.Eval(h, len(fields) > 0)
		if p != nil {
			violate("C14/record-build-panic", key, fmt.Sprint(p))
			return
		}
		rep.Count("records", 1)
		rep.Max("max_record_bytes", len(rec))
		rep.Max("max_record_fields", len(fields))
		if len(fields) > 0 {
			rep.Count(fmt.Sprintf("records_layout_%d", rec[0]>>6), 1)
		} else {
			rep.Count("records_empty", 1)
		}
		bad := func(class string, detail any) { violate("C14/"+class, key, detail) }
		p, _ = vk.Catch(func() {
			if rec.Count() != len(fields) {
				bad("record-count-wrong", map[string]any{"count": rec.Count(), "want": len(fields)})
				return
			}
			if rec.Len() != len(rec) || RecLen([]byte(rec)) != len(rec) {
				bad("record-length-wrong", map[string]any{"Len": rec.Len(), "RecLen": RecLen([]byte(rec)), "bytes": len(rec)})
			}
			for i, f := range fields {
				if got := rec.GetRaw(i); got != f {
					bad("record-field-differs", map[string]any{"field": i, "want_len": len(f), "got_len": len(got), "record_bytes": len(rec)})
					return
				}
			}
			rep.Count("record_fields_read", len(fields))
			if rec.GetRaw(-1) != "" || rec.GetRaw(len(fields)) != "" || rec.GetRaw(len(fields)+1000) != "" {
				bad("record-field-beyond-count-not-empty", nil)
			}
		})
		if p != nil {
			bad("record-read-panic", fmt.Sprint(p))
			return
		}
		// truncation keeps exactly the leading fields
		n := len(fields)
		for _, k := range []int{0, 1, n / 2, n - 1, n, n + 1} {
			if k < 0 {
				continue
			}
			var tr Record
			p, _ := vk.Catch(func() { tr = rec.Truncate(k) })
			if p != nil {
				bad("record-truncate-panic", map[string]any{"n": k, "panic": fmt.Sprint(p)})
				continue
			}
			rep.Count("truncates", 1)
			p, _ = vk.Catch(func() {
				if tr.Count() > k && k < n || tr.Count() > n {
					bad("record-truncate-keeps-too-many", map[string]any{"n": k, "count": tr.Count()})
				}
				if tr.Len() != len(tr) {
					bad("record-truncate-length-wrong", map[string]any{"n": k, "Len": tr.Len(), "bytes": len(tr)})
				}
				lim := k
				if lim > n {
					lim = n
				}
				for i := 0; i < lim; i++ {
					if tr.GetRaw(i) != fields[i] {
						bad("record-truncate-field-differs", map[string]any{"n": k, "field": i})
						return
					}
				}
				for i := lim; i < lim+3; i++ {
					if i >= k && tr.GetRaw(i) != "" {
						bad("record-truncate-keeps-too-many", map[string]any{"n": k, "field": i})
					}
				}
			})
			if p != nil {
				bad("record-truncate-panic", map[string]any{"n": k, "panic": fmt.Sprint(p)})
			}
		}
	}

	nrec := vk.N(20000, 1000000)
	for i := 0; i < nrec; i++ {
		r := vk.RandFor(1401, i)
		kind := 0
		switch x := r.IntN(100); {
		case x < 40:
			kind = 0
		case x < 60:
			kind = 1
		case x < 72:
			kind = 2
		case x < 76:
			kind = 3
		case x < 79:
			kind = 4
		case x < 80:
			kind = 5
		default:
			kind = 6
		}
		fields := genFields(r, kind)
		var vals []PackableValue
		if kind == 0 && r.IntN(2) == 0 { // fields given as values
			vals = make([]PackableValue, len(fields))
			for j := range fields {
				if r.IntN(3) != 0 {
					vals[j] = genValue(r)
					fields[j] = PackValue(vals[j])
				}
			}
			rep.Count("records_from_values", 1)
		}
		checkRecord(i, fields, vals)
		if rep.WantSample() && vk.Shard() == 0 && len(fields) > 0 && len(fields) < 6 {
			sizes := []int{}
			for _, f := range fields {
				sizes = append(sizes, len(f))
			}
			rep.Sample(map[string]any{"record_field_sizes": sizes})
		}
	}
	// the empty record and the maximum field count (fixed cases)
	if vk.Shard() == 0 {
		checkRecord(-1, nil, nil)
		checkRecord(-2, make([]string, MaxValues), nil)
		f := make([]string, MaxValues)
		for i := range f {
			f[i] = string(rune('a' + i%26))
		}
		checkRecord(-3, f, nil)
	}

	// ---- 2. stor writers / readers
	type put struct {
		kind int // 1..5 ints, 6 string, 7 strings
		n    int64
		s    string
		ss   []string
	}
	limits := []int64{0, 1 << 8, 1 << 16, 1 << 24, 1 << 32, 1 << 40}
	genPutInt := func(r *rand.Rand, width int) int64 {
		lim := limits[width]
		switch r.IntN(4) {
		case 0:
			return lim - 1 - int64(r.IntN(3))
		case 1:
			return int64(r.IntN(3))
		case 2:
			k := r.IntN(8 * width)
			v := int64(1)<<k + int64(r.IntN(3)) - 1
			if v < 0 || v >= lim {
				v = lim - 1
			}
			return v
		default:
			return r.Int64N(lim)
		}
	}
	nstor := vk.N(20000, 1000000)
	for i := 0; i < nstor; i++ {
		r := vk.RandFor(1402, i)
		var puts []put
		size := 0
		for k := 1 + r.IntN(30); k > 0; k-- {
			kind := 1 + r.IntN(7)
			pt := put{kind: kind}
			switch {
			case kind <= 5:
				pt.n = genPutInt(r, kind)
				size += kind
			case kind == 6:
				n := r.IntN(40)
				if r.IntN(20) == 0 {
					n = []int{255, 256, 65534, 65535}[r.IntN(4)]
				}
				pt.s = randBytes(r, n)
				size += 2 + n
			default:
				for j := r.IntN(5); j > 0; j-- {
					pt.ss = append(pt.ss, randBytes(r, r.IntN(20)))
				}
				size += 2
				for _, s := range pt.ss {
					size += 2 + len(s)
				}
			}
			puts = append(puts, pt)
		}
		key := fmt.Sprintf("stor case %d (seed %d shard %d/%d)", i, vk.Seed(), vk.Shard(), vk.NShards())
		rep.Case("%s", key)
		rep.Eval(vk.Hash64("stor", fmt.Sprint(puts)), true)
		rep.Count("stor_sequences", 1)
		p, _ := vk.Catch(func() {
			buf := make([]byte, size+r.IntN(8))
			w := stor.NewWriter(buf)
			lens := 0
			for _, pt := range puts {
				switch pt.kind {
				case 1:
					w.Put1(int(pt.n))
				case 2:
					w.Put2(int(pt.n))
				case 3:
					w.Put3(int(pt.n))
				case 4:
					w.Put4(int(pt.n))
				case 5:
					w.Put5(pt.n)
				case 6:
					w.PutStr(pt.s)
					lens += stor.LenStr(pt.s) - 2 - len(pt.s)
				case 7:
					w.PutStrs(pt.ss)
					want := 2
					for _, s := range pt.ss {
						want += 2 + len(s)
					}
					lens += stor.LenStrs(pt.ss) - want
				}
			}
			if w.Len() != size || lens != 0 {
				violate("C14/stor-length-wrong", key, map[string]any{"Len": w.Len(), "want": size, "lenstr_error": lens})
			}
			rd := stor.NewReader(buf[:size])
			for j, pt := range puts {
				var got int64
				switch pt.kind {
				case 1:
					got = int64(rd.Get1())
				case 2:
					got = int64(rd.Get2())
				case 3:
					got = int64(rd.Get3())
				case 4:
					got = int64(rd.Get4())
				case 5:
					got = rd.Get5()
				case 6:
					rep.Count("stor_strings", 1)
					if s := rd.GetStr(); s != pt.s {
						violate("C14/stor-string-differs", key, map[string]any{"op": j, "want_len": len(pt.s), "got_len": len(s)})
					}
					continue
				case 7:
					ss := rd.GetStrs()
					if fmt.Sprint(ss) != fmt.Sprint(pt.ss) || len(ss) != len(pt.ss) {
						violate("C14/stor-strings-differ", key, map[string]any{"op": j})
					}
					continue
				}
				rep.Count(fmt.Sprintf("stor_ints_%d", pt.kind), 1)
				if got != pt.n {
					violate(fmt.Sprintf("C14/stor-int-differs/put%d", pt.kind), fmt.Sprintf("Put%d(%d)", pt.kind, pt.n), map[string]any{"got": got, "in": key})
				}
			}
			if rd.Remaining() != 0 {
				violate("C14/stor-remaining-wrong", key, rd.Remaining())
			}
		})
		if p != nil {
			violate("C14/stor-panic", key, fmt.Sprint(p))
		}
		// small offsets
		off := uint64(genPutInt(r, 5))
		b5 := make([]byte, stor.SmallOffsetLen)
		stor.WriteSmallOffset(b5, off)
		ap := stor.AppendSmallOffset([]byte{1, 2, 3}, off)
		rep.Count("small_offsets", 1)
		if stor.ReadSmallOffset(b5) != off || len(ap) != 3+stor.SmallOffsetLen || stor.ReadSmallOffset(ap[3:]) != off || ap[0] != 1 || ap[2] != 3 {
			violate("C14/small-offset-differs", fmt.Sprint(off), map[string]any{"write_read": stor.ReadSmallOffset(b5), "append_read": stor.ReadSmallOffset(ap[3:])})
		}
	}
	// every 1 and 2 byte value (fixed)
	if vk.Shard() == 0 {
		buf := make([]byte, 3*65536+256)
		w := stor.NewWriter(buf)
		for n := 0; n < 256; n++ {
			w.Put1(n)
		}
		for n := 0; n < 65536; n++ {
			w.Put2(n)
		}
		rd := stor.NewReader(buf[:w.Len()])
		for n := 0; n < 256; n++ {
			if g := rd.Get1(); g != n {
				violate("C14/stor-int-differs/put1", fmt.Sprintf("Put1(%d)", n), g)
			}
		}
		for n := 0; n < 65536; n++ {
			if g := rd.Get2(); g != n {
				violate("C14/stor-int-differs/put2", fmt.Sprintf("Put2(%d)", n), g)
			}
		}
		rep.Count("stor_ints_exhaustive", 256+65536)
		for k := 0; k < 40; k++ {
			for d := -1; d <= 1; d++ {
				off := uint64(int64(1)<<k + int64(d))
				if off > stor.MaxSmallOffset {
					continue
				}
				b := stor.AppendSmallOffset(nil, off)
				if stor.ReadSmallOffset(b) != off {
					violate("C14/small-offset-differs", fmt.Sprint(off), stor.ReadSmallOffset(b))
				}
			}
		}
		if b := stor.AppendSmallOffset(nil, stor.MaxSmallOffset); stor.ReadSmallOffset(b) != stor.MaxSmallOffset {
			violate("C14/small-offset-differs", "max", stor.ReadSmallOffset(b))
		}
	}

	// ---- 3. varint lengths against encoding/binary
	{
		var tmp [binary.MaxVarintLen64]byte
		chk := func(n uint64) {
			rep.Count("varint_lengths", 1)
			if got, want := varint.Len(n), binary.PutUvarint(tmp[:], n); got != want {
				violate("C14/varint-length-wrong", fmt.Sprint(n), map[string]any{"got": got, "want": want})
			}
		}
		for k := 0; k < 64; k++ {
			for d := -2; d <= 2; d++ {
				chk(uint64(1)<<k + uint64(int64(d)))
			}
		}
		chk(0)
		chk(math.MaxUint64)
		r := vk.Rand(1403)
		for i := vk.N(20000, 1000000); i > 0; i-- {
			chk(r.Uint64() >> uint(r.IntN(64)))
		}
	}

	// ---- 4. mux: echo through a real connection pair
	{
		p1, p2 := net.Pipe()
		client := mux.NewClientConn(p1)
		workers := mux.NewWorkers(func(wb *mux.WriteBuf, _ *Thread, _ uint64, data []byte) {
			// server side: decode every item with ReadBuf and write it back with WriteBuf
			var items []item
			p, _ := vk.Catch(func() {
				var rb mux.ReadBuf
				rb.SetBuf(data)
				for rb.Remaining() > 0 {
					items = append(items, getItem(&rb))
				}
			})
			if p != nil {
				wb.ResetWrite()
				wb.PutBool(false).PutStr(fmt.Sprint("server decode: ", p)).EndMsg()
				return
			}
			wb.ResetWrite()
			wb.PutBool(true)
			for _, it := range items {
				putItem(wb, it)
			}
			wb.EndMsg()
		})
		server := mux.NewServerConn(p2)
		go server.Run(workers.Submit)
		session := client.NewClientSession()
		echo := func(key string, items []item) {
			rep.Case("%s", key)
			h := uint64(1469598103934665603)
			for _, it := range items {
				h = h*1099511628211 ^ vk.Hash64(it.String(), it.s, it.i)
			}
			rep.Eval(h, len(items) > 0)
			rep.Count("mux_messages", 1)
			var back []item
			p, _ := vk.Catch(func() {
				session.ResetWrite()
				for _, it := range items {
					putItem(&session.WriteBuf, it)
				}
				session.Request()
				for session.Remaining() > 0 {
					back = append(back, getItem(&session.ReadBuf))
				}
			})
			if p != nil {
				violate("C14/mux-echo-panic", key, map[string]any{"panic": vk.Trunc(fmt.Sprint(p), 300), "items": fmt.Sprint(items)[:minInt(400, len(fmt.Sprint(items)))]})
				return
			}
			if len(back) != len(items) {
				violate("C14/mux-item-count-differs", key, map[string]any{"sent": len(items), "back": len(back)})
				return
			}
			for i, it := range items {
				rep.Count("mux_items_"+string(it.kind), 1)
				if why := sameItem(it, back[i]); why != "" {
					k := it.String()
					violate("C14/mux-item-differs/"+string(it.kind), k, map[string]any{"why": why, "in": key, "position": i})
				}
			}
		}
		// fixed: every int64 boundary value, one per message and all together
		if vk.Shard() == 0 {
			var all []item
			for _, n := range int64Boundary {
				echo(fmt.Sprintf("mux int64 %d", n), []item{{kind: 'i', i: n}})
				all = append(all, item{kind: 'i', i: n}, item{kind: 'n', i: n})
			}
			echo("mux all int64 boundaries", all)
			for _, n := range []int{0, 1, 4086, 4087, 4088, 4095, 4096, 4097, 8192, 100000, 900000} {
				echo(fmt.Sprintf("mux string len %d", n), []item{{kind: 's', s: randBytes(vk.Rand(uint64(n)), n)}})
			}
		}
		nm := vk.N(20000, 600000)
		for i := 0; i < nm; i++ {
			r := vk.RandFor(1404, i)
			var items []item
			size := 0
			for k := 1 + r.IntN(12); k > 0 && size < 700000; k-- {
				it := genItem(r)
				if size+itemSize(it) > 900000 {
					continue
				}
				size += itemSize(it)
				items = append(items, it)
			}
			if r.IntN(30) == 0 { // many small items: crosses the 4096 byte buffer many times
				for k := 2000 + r.IntN(3000); k > 0; k-- {
					items = append(items, item{kind: 'i', i: genInt64(r)})
				}
			}
			rep.Max("max_message_bytes", size)
			echo(fmt.Sprintf("mux case %d (seed %d shard %d/%d)", i, vk.Seed(), vk.Shard(), vk.NShards()), items)
		}
		// the connections are deliberately not closed: a lost connection makes the client call core.Fatal
		_ = p1
	}
}

func minInt(a, b int) int {
	if a < b {
		return a
	}
	return b
}
