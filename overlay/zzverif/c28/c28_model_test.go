// Value model and generators of the C28 monitor (same independent model as C13:
// decimal digit strings, byte strings, civil date tuples, trees).
package c28

import (
	"fmt"
	"math"
	"math/rand/v2"
	"strconv"
	"strings"

	. "github.com/apmckinlay/gsuneido/core"
	"github.com/apmckinlay/gsuneido/util/dnum"
	vk "github.com/apmckinlay/gsuneido/util/verifkit"
)

const (
	kBool = iota
	kNum
	kStr
	kDate
	kObj
)

var kindName = []string{"bool", "number", "string", "date", "object"}

// num is sign * 0.digits * 10^e ; digits has no leading or trailing zero.
// inf: digits == "" and sign = ±2 ; zero: sign == 0.
type num struct {
	sign   int
	e      int
	digits string
}

func (n num) String() string {
	switch n.sign {
	case 0:
		return "0"
	case 2:
		return "inf"
	case -2:
		return "-inf"
	}
	s := ""
	if n.sign < 0 {
		s = "-"
	}
	return s + "." + n.digits + "e" + strconv.Itoa(n.e)
}

func cmpInt(a, b int) int {
	switch {
	case a < b:
		return -1
	case a > b:
		return 1
	}
	return 0
}

func cmpNum(a, b num) int {
	if a.sign != b.sign {
		return cmpInt(a.sign, b.sign)
	}
	if a.sign == 0 || a.sign == 2 || a.sign == -2 {
		return 0
	}
	c := cmpInt(a.e, b.e)
	if c == 0 {
		c = strings.Compare(a.digits, b.digits) // no trailing zeros: a proper prefix is smaller
	}
	return c * a.sign
}

func numFromInt(n int64) num {
	if n == 0 {
		return num{}
	}
	s := strconv.FormatInt(n, 10)
	sign := 1
	if s[0] == '-' {
		sign = -1
		s = s[1:]
	}
	return num{sign: sign, e: len(s), digits: strings.TrimRight(s, "0")}
}

// int64 value of an integral model number that fits
func (n num) asInt64() (int64, bool) {
	if n.sign == 0 {
		return 0, true
	}
	if n.sign == 2 || n.sign == -2 || n.e < len(n.digits) || n.e > 19 {
		return 0, false
	}
	s := n.digits + strings.Repeat("0", n.e-len(n.digits))
	if n.sign < 0 {
		s = "-" + s
	}
	v, err := strconv.ParseInt(s, 10, 64)
	return v, err == nil
}

type mobj struct {
	record bool
	list   []*mval
	keys   []*mval
	vals   []*mval
}

type mval struct {
	kind int
	b    bool
	n    num
	s    string
	d    [8]int // year month day hour minute second ms extra(0 = plain date)
	o    *mobj
}

func (m *mval) String() string {
	switch m.kind {
	case kBool:
		return fmt.Sprint(m.b)
	case kNum:
		return m.n.String()
	case kStr:
		return fmt.Sprintf("%q", vk.Trunc(m.s, 40))
	case kDate:
		return fmt.Sprint("date", m.d)
	}
	return fmt.Sprintf("object(list %d, named %d, record %v)", len(m.o.list), len(m.o.keys), m.o.record)
}

// cmpModel is the value order of scalars (bool < number < string < date).
func cmpModel(a, b *mval) int {
	if a.kind != b.kind {
		return cmpInt(a.kind, b.kind)
	}
	switch a.kind {
	case kBool:
		return cmpInt(b2i(a.b), b2i(b.b))
	case kNum:
		return cmpNum(a.n, b.n)
	case kStr:
		return strings.Compare(a.s, b.s)
	case kDate:
		for i := range a.d {
			if c := cmpInt(a.d[i], b.d[i]); c != 0 {
				return c
			}
		}
		return 0
	}
	panic("cmpModel: not a scalar")
}

func b2i(b bool) int {
	if b {
		return 1
	}
	return 0
}

func sign(n int) int { return cmpInt(n, 0) }

// ---------------------------------------------------------------- generators

var boundary []int64

func init() {
	add := func(n int64) {
		for d := int64(-3); d <= 3; d++ {
			m := n + d
			if (d > 0 && m < n) || (d < 0 && m > n) {
				continue
			}
			boundary = append(boundary, m)
		}
	}
	add(0)
	for k := 1; k < 63; k++ {
		add(int64(1) << k)
		add(-(int64(1) << k))
	}
	p := int64(1)
	for k := 1; k <= 18; k++ {
		p *= 10
		add(p)
		add(-p)
		if k <= 17 {
			add(p * 5)
			add(-p * 5)
		}
	}
	// every digit prefix of MaxInt64 / -MinInt64, padded with zeros to 19 digits (the int64 range test of
	// UnpackNumber compares packed bytes)
	for _, lim := range []string{"9223372036854775807", "9223372036854775808"} {
		for k := 1; k < len(lim); k++ {
			v, _ := strconv.ParseInt(lim[:k]+strings.Repeat("0", len(lim)-k), 10, 64)
			boundary = append(boundary, v, -v, v+1, -v-1, v-1, -v+1)
		}
	}
	for _, n := range []int64{math.MaxInt64, math.MinInt64, math.MaxInt16, math.MinInt16, math.MaxInt32, math.MinInt32,
		9999999999999999, 99999999999999999, 999999999999999999, 9200000000000000000, 9223372036854775800, 9223372036854770000} {
		add(n)
		if n > 0 {
			add(-n)
		}
	}
}

func genInt(r *rand.Rand) int64 {
	switch r.IntN(7) {
	case 0:
		return boundary[r.IntN(len(boundary))]
	case 1:
		return int64(r.IntN(200001) - 100000)
	case 2:
		return int64(r.Uint64())
	case 3:
		return int64(r.Uint64() >> uint(r.IntN(64)))
	case 4:
		return -int64(r.Uint64() >> uint(r.IntN(64)))
	case 5: // few significant digits then zeros
		n := int64(r.IntN(9999) + 1)
		for k := r.IntN(16); k > 0 && n < math.MaxInt64/10; k-- {
			n *= 10
		}
		if r.IntN(2) == 0 {
			n = -n
		}
		return n
	default:
		return boundary[r.IntN(len(boundary))] + int64(r.IntN(2001)-1000)
	}
}

func genDigits(r *rand.Rand, n int) string {
	b := make([]byte, n)
	mode := r.IntN(4)
	for i := range b {
		switch mode {
		case 0:
			b[i] = byte('0' + r.IntN(10))
		case 1: // mostly zeros
			if r.IntN(4) == 0 {
				b[i] = byte('0' + r.IntN(10))
			} else {
				b[i] = '0'
			}
		case 2: // mostly nines
			if r.IntN(4) == 0 {
				b[i] = byte('0' + r.IntN(10))
			} else {
				b[i] = '9'
			}
		default:
			b[i] = "0159"[r.IntN(4)]
		}
	}
	if b[0] == '0' {
		b[0] = byte('1' + r.IntN(9))
	}
	s := strings.TrimRight(string(b), "0")
	return s
}

func genExp(r *rand.Rand) int {
	switch r.IntN(5) {
	case 0:
		return []int{-128, -127, -126, -1, 0, 1, 15, 16, 17, 18, 19, 20, 21, 126, 127}[r.IntN(15)]
	case 1:
		return r.IntN(256) - 128
	default:
		return r.IntN(26) - 4
	}
}

func genNum(r *rand.Rand) num {
	switch r.IntN(12) {
	case 0:
		return num{}
	case 1:
		return num{sign: 2 - 4*r.IntN(2)}
	case 2, 3, 4, 5:
		return numFromInt(genInt(r))
	}
	return num{sign: 1 - 2*r.IntN(2), e: genExp(r), digits: genDigits(r, 1+r.IntN(16))}
}

// neighbours of a number in the encoding: one more trailing digit (prefix relation), last digit +-1,
// exponent +-1, negation
func numNeighbours(r *rand.Rand, n num) []num {
	if n.sign != 1 && n.sign != -1 {
		return nil
	}
	var out []num
	out = append(out, num{sign: -n.sign, e: n.e, digits: n.digits})
	if len(n.digits) < 16 {
		out = append(out, num{sign: n.sign, e: n.e, digits: n.digits + string(byte('1'+r.IntN(9)))})
		if len(n.digits) < 15 {
			out = append(out, num{sign: n.sign, e: n.e, digits: n.digits + "0" + string(byte('1'+r.IntN(9)))})
		}
	}
	if len(n.digits) > 1 {
		out = append(out, num{sign: n.sign, e: n.e, digits: strings.TrimRight(n.digits[:len(n.digits)-1], "0")})
	}
	last := n.digits[len(n.digits)-1]
	if last < '9' {
		out = append(out, num{sign: n.sign, e: n.e, digits: n.digits[:len(n.digits)-1] + string(last+1)})
	}
	if n.e < 127 {
		out = append(out, num{sign: n.sign, e: n.e + 1, digits: n.digits})
	}
	if n.e > -128 {
		out = append(out, num{sign: n.sign, e: n.e - 1, digits: n.digits})
	}
	return out
}

var alphabets = []string{
	"\x00\x01\x02\x7f\x80\xff'\"\\",
	"abcXYZ019 _",
	"\x00\xff",
	"\x03\x04\x05\x06\x07", // bytes equal to pack tags
}

func genStr(r *rand.Rand) string {
	var n int
	switch r.IntN(12) {
	case 0:
		n = 0
	case 1:
		n = 1
	case 2:
		n = []int{126, 127, 128, 129, 255, 256, 257}[r.IntN(7)]
	case 3:
		n = r.IntN(400)
	default:
		n = r.IntN(12)
	}
	return genStrN(r, n)
}

func genStrN(r *rand.Rand, n int) string {
	b := make([]byte, n)
	if r.IntN(5) == 0 {
		for i := range b {
			b[i] = byte(r.IntN(256))
		}
	} else {
		a := alphabets[r.IntN(len(alphabets))]
		for i := range b {
			b[i] = a[r.IntN(len(a))]
		}
	}
	return string(b)
}

func isLeap(y int) bool { return y%4 == 0 && (y%100 != 0 || y%400 == 0) }

func daysIn(y, m int) int {
	switch m {
	case 2:
		if isLeap(y) {
			return 29
		}
		return 28
	case 4, 6, 9, 11:
		return 30
	}
	return 31
}

func genDate(r *rand.Rand) [8]int {
	var d [8]int
	switch r.IntN(6) {
	case 0:
		d[0] = []int{1700, 1701, 1899, 1900, 1970, 1999, 2000, 2038, 2047, 2048, 2100, 2400, 2999}[r.IntN(13)]
	default:
		d[0] = 1700 + r.IntN(1300)
	}
	d[1] = 1 + r.IntN(12)
	switch r.IntN(4) {
	case 0:
		d[2] = daysIn(d[0], d[1])
	case 1:
		d[2] = 1
	default:
		d[2] = 1 + r.IntN(daysIn(d[0], d[1]))
	}
	switch r.IntN(4) {
	case 0: // midnight
	case 1:
		d[3], d[4], d[5], d[6] = 23, 59, 59, 999
	case 2:
		d[3], d[4] = r.IntN(24), r.IntN(60)
	default:
		d[3], d[4], d[5], d[6] = r.IntN(24), r.IntN(60), r.IntN(60), r.IntN(1000)
	}
	if r.IntN(3) == 0 {
		d[7] = []int{1, 2, 127, 128, 254, 255}[r.IntN(6)]
		if r.IntN(2) == 0 {
			d[7] = 1 + r.IntN(255)
		}
	}
	return d
}

func genScalar(r *rand.Rand) *mval {
	switch r.IntN(16) {
	case 0:
		return &mval{kind: kBool, b: r.IntN(2) == 0}
	case 1, 2, 3:
		return &mval{kind: kStr, s: genStr(r)}
	case 4, 5, 6:
		return &mval{kind: kDate, d: genDate(r)}
	}
	return &mval{kind: kNum, n: genNum(r)}
}

func dateLiteral(d [8]int) string {
	s := fmt.Sprintf("#%04d%02d%02d.%02d%02d%02d%03d", d[0], d[1], d[2], d[3], d[4], d[5], d[6])
	if d[7] != 0 {
		s += fmt.Sprintf("%03d", d[7])
	}
	return s
}

// reps returns every internal representation of a scalar model value that the
// exported API can produce, with a label.
type rep struct {
	how string
	v   Value
}

func scalarReps(r *rand.Rand, m *mval) []rep {
	switch m.kind {
	case kBool:
		if m.b {
			return []rep{{"True", True}, {"SuBool", SuBool(true)}}
		}
		return []rep{{"False", False}, {"SuBool", SuBool(false)}}
	case kStr:
		out := []rep{{"SuStr", SuStr(m.s)}}
		c := NewSuConcat()
		s := m.s
		for len(s) > 0 {
			k := 1 + r.IntN(len(s))
			c = c.Add(s[:k])
			s = s[k:]
		}
		out = append(out, rep{"SuConcat", c})
		// a concat that shares its buffer with a longer one
		c2 := NewSuConcat().Add(m.s)
		_ = c2.Add("tail that must not be seen")
		out = append(out, rep{"SuConcat-shared", c2})
		out = append(out, rep{"SuExcept", BuiltinSuExcept(m.s)})
		return out
	case kDate:
		var out []rep
		if m.d[7] == 0 {
			out = append(out, rep{"NewDate", NewDate(m.d[0], m.d[1], m.d[2], m.d[3], m.d[4], m.d[5], m.d[6])})
		}
		out = append(out, rep{"DateFromLiteral", DateFromLiteral(dateLiteral(m.d))})
		return out
	case kNum:
		n := m.n
		switch n.sign {
		case 0:
			return []rep{{"Zero", Zero}, {"IntVal", IntVal(0)}, {"dnum.Zero", SuDnum{Dnum: dnum.Zero}},
				{"FromStr", SuDnum{Dnum: dnum.FromStr("0")}}, {"FromStr-0.0", SuDnum{Dnum: dnum.FromStr("-0.0")}}}
		case 2, -2:
			return []rep{{"dnum.Inf", SuDnum{Dnum: dnum.Inf(int8(n.sign))}},
				{"FromStr", SuDnum{Dnum: dnum.FromStr(strings.TrimPrefix(n.String(), "+"))}}}
		}
		var out []rep
		if i, ok := n.asInt64(); ok {
			out = append(out, rep{"IntVal", IntVal(int(i))}, rep{"Int64Val", Int64Val(i)})
		}
		if len(n.digits) <= 16 {
			coef, _ := strconv.ParseUint(n.digits, 10, 64)
			L := len(n.digits)
			out = append(out, rep{"dnum.New", SuDnum{Dnum: dnum.New(int8(n.sign), coef, n.e-L+16)}})
			if L < 16 {
				j := 1 + r.IntN(16-L)
				c2 := coef
				for k := 0; k < j; k++ {
					c2 *= 10
				}
				out = append(out, rep{"dnum.New-shifted", SuDnum{Dnum: dnum.New(int8(n.sign), c2, n.e-L-j+16)}})
			}
			out = append(out, rep{"dnum.FromStr", SuDnum{Dnum: dnum.FromStr(n.String())}})
			if i, ok := n.asInt64(); ok && len(strconv.FormatInt(i, 10)) <= 16+b2i(i < 0) {
				out = append(out, rep{"dnum.FromInt", SuDnum{Dnum: dnum.FromInt(i)}})
			}
		}
		return out
	}
	panic("scalarReps")
}

// modelOf reads a scalar Value back into the model (how the harness "looks at" a value);
// ok=false if the value is not a well formed scalar of a known type.
func modelOf(v Value) (*mval, string) {
	switch x := v.(type) {
	case SuBool:
		return &mval{kind: kBool, b: bool(x)}, ""
	case SuDnum:
		d := x.Dnum
		switch {
		case d.IsZero():
			return &mval{kind: kNum}, ""
		case d.IsInf():
			return &mval{kind: kNum, n: num{sign: 2 * sign(d.Sign())}}, ""
		}
		c := d.Coef()
		if c < 1000_0000_0000_0000 || c > 9999_9999_9999_9999 {
			return nil, fmt.Sprintf("decimal with unnormalised coefficient %d", c)
		}
		return &mval{kind: kNum, n: num{sign: d.Sign(), e: d.Exp(), digits: strings.TrimRight(strconv.FormatUint(c, 10), "0")}}, ""
	case SuDate:
		return &mval{kind: kDate, d: [8]int{x.Year(), x.Month(), x.Day(), x.Hour(), x.Minute(), x.Second(), x.Millisecond(), 0}}, ""
	case SuTimestamp:
		s := x.String()
		extra, err := strconv.Atoi(s[len(s)-3:])
		if err != nil || len(s) != 22 {
			return nil, "timestamp text " + s
		}
		return &mval{kind: kDate, d: [8]int{x.Year(), x.Month(), x.Day(), x.Hour(), x.Minute(), x.Second(), x.Millisecond(), extra}}, ""
	}
	if i, ok := SuIntToInt(v); ok {
		return &mval{kind: kNum, n: numFromInt(int64(i))}, ""
	}
	if s, ok := v.ToStr(); ok {
		return &mval{kind: kStr, s: s}, ""
	}
	return nil, fmt.Sprintf("unexpected type %T", v)
}

