// C28 Value comparison is a consistent total order.
//
// Black-box monitor over core Compare / Equal / Hash and SuObject member lookup.
// A pool of several hundred values of every comparable type and of every
// representation the exported API can build is generated; the full Compare /
// Equal matrix of the pool is computed with the real code and then judged:
// antisymmetry, transitivity over ALL triples of the pool, type rank, agreement
// with an independent model order/equality for scalars, Equal => Compare == 0 and
// equal hashes, and member lookup/overwrite/delete by every equal key.
package c28

import (
	"sync/atomic"
	"fmt"
	"math/rand/v2"
	"sort"
	"strconv"
	"strings"
	"testing"

	. "github.com/apmckinlay/gsuneido/core"
	"github.com/apmckinlay/gsuneido/util/dnum"
	vk "github.com/apmckinlay/gsuneido/util/verifkit"
)

type item struct {
	m     *mval
	v     Value
	how   string
	id    uint64
	taint string // see taintOf
}

func (it *item) String() string {
	return fmt.Sprintf("%v [%s %T]", it.m, it.how, it.v)
}

func show(v Value) string {
	s := ""
	if p, _ := vk.Catch(func() { s = v.String() }); p != nil {
		return fmt.Sprintf("<%T: %v>", v, p)
	}
	return vk.Trunc(s, 200)
}

// eqModel: model equality; for containers: same list, same named members (recursively).
// sameContainer reports whether no object/record mix was involved (the statement does not say
// whether a record equals an object with the same members, so mixed pairs are not judged by the model).
func eqModel(a, b *mval) (eq bool, judged bool) {
	if a.kind != b.kind {
		return false, true
	}
	if a.kind != kObj {
		return cmpModel(a, b) == 0, true
	}
	judged = a.o.record == b.o.record
	if len(a.o.list) != len(b.o.list) || len(a.o.keys) != len(b.o.keys) {
		return false, true
	}
	for i := range a.o.list {
		e, j := eqModel(a.o.list[i], b.o.list[i])
		if !e {
			return false, true
		}
		judged = judged && j
	}
outer:
	for i, k := range a.o.keys {
		for i2, k2 := range b.o.keys {
			if e, j := eqModel(k, k2); e {
				judged = judged && j
				e2, j2 := eqModel(a.o.vals[i], b.o.vals[i2])
				if !e2 {
					return false, true
				}
				judged = judged && j2
				continue outer
			}
		}
		return false, true
	}
	return true, judged
}

// build makes the Value of a model tree; order permutes the insertion order of named members,
// churn inserts and deletes extra members first (a different table history for the same content).
func build(r *rand.Rand, m *mval, permute, churn bool) Value {
	if m.kind != kObj {
		reps := scalarReps(r, m)
		return reps[r.IntN(len(reps))].v
	}
	ob := &SuObject{}
	for _, e := range m.o.list {
		ob.Add(build(r, e, permute, churn))
	}
	if churn {
		for i := 0; i < 6; i++ {
			ob.Set(SuStr("churn"+strconv.Itoa(i)), IntVal(i))
		}
	}
	idx := make([]int, len(m.o.keys))
	for i := range idx {
		idx[i] = i
	}
	if permute {
		r.Shuffle(len(idx), func(i, j int) { idx[i], idx[j] = idx[j], idx[i] })
	}
	for _, i := range idx {
		ob.Set(build(r, m.o.keys[i], permute, churn), build(r, m.o.vals[i], permute, churn))
	}
	if churn {
		for i := 0; i < 6; i++ {
			ob.Delete(nil, SuStr("churn"+strconv.Itoa(i)))
		}
	}
	if m.o.record {
		rec := SuRecordFromObject(ob)
		if rb := rowBacked(r, rec); rb != nil {
			return rb
		}
		return rec
	}
	return ob
}

var rowBackedMade atomic.Int64

// rowBacked returns (half of the time, where possible) the same record the way a query delivers it: backed by a
// stored row whose fields are unpacked on demand. Possible = no list part, string member names, no empty values
// (an empty field of a row is not a member).
func rowBacked(r *rand.Rand, rec *SuRecord) Value {
	if r.IntN(2) == 0 || rec.ListSize() != 0 || rec.NamedSize() == 0 {
		return nil
	}
	var fields []string
	ok := true
	it := rec.ToObject().Iter2(false, true)
	for k, v := it(); k != nil; k, v = it() {
		name, isStr := k.(SuStr)
		if _, packable := v.(Packable); !isStr || !packable || v == EmptyStr || name == "" {
			ok = false
			break
		}
		if s, isS := v.ToStr(); isS && s == "" {
			ok = false
			break
		}
		fields = append(fields, string(name))
	}
	if !ok {
		return nil
	}
	var res Value
	p, _ := vk.Catch(func() {
		hdr := NewHeader([][]string{fields}, fields)
		stored := rec.ToRecord(&Thread{}, hdr)
		res = SuRecordFromRow(Row{DbRec{Record: stored}}, hdr, "", nil)
	})
	if p != nil || res == nil {
		return nil
	}
	rowBackedMade.Add(1)
	return res
}

func toObject(v Value) *SuObject {
	switch x := v.(type) {
	case *SuObject:
		return x
	case *SuRecord:
		return x.ToObject()
	}
	return nil
}

// canon describes a value independent of representation and of the member order of nested containers
func canon(v Value) string {
	if o := toObject(v); o != nil {
		var sb strings.Builder
		sb.WriteString("#(")
		for i := 0; i < o.ListSize(); i++ {
			sb.WriteString(canon(o.ListGet(i)) + ",")
		}
		var named []string
		it := o.Iter2(false, true)
		for k, val := it(); k != nil; k, val = it() {
			named = append(named, canon(k)+":"+canon(val))
		}
		sort.Strings(named)
		sb.WriteString(strings.Join(named, ","))
		sb.WriteString(")")
		return sb.String()
	}
	if m, _ := modelOf(v); m != nil {
		return m.String()
	}
	return fmt.Sprintf("%T", v)
}

// namedOrderDiffers: two containers hold the same named keys (by the model) but iterate them in a different order
func namedOrderDiffers(a, b Value) bool {
	oa, ob := toObject(a), toObject(b)
	if oa == nil || ob == nil || oa.NamedSize() != ob.NamedSize() || oa.NamedSize() < 2 {
		return false
	}
	// the pair is Equal, so both hold the same key set; describe each key and compare the sequences
	seq := func(o *SuObject) []string {
		var out []string
		it := o.Iter2(false, true)
		for k, _ := it(); k != nil; k, _ = it() {
			out = append(out, canon(k))
		}
		return out
	}
	sa, sb := seq(oa), seq(ob)
	if len(sa) != len(sb) {
		return false
	}
	for i := range sa {
		if sa[i] != sb[i] {
			return true
		}
	}
	return false
}

// taintOf says whether a container holds, at any depth, something whose hash is known (from the direct
// checks on that very thing, which are reported under their own classes) to differ between equal values:
//   - the number +-9223372036854775000 (int64 limit; integer and decimal form hash differently)
//   - a container with 2..4 named members used as a member key (its hash depends on the insertion order)
// A failure of Equal / lookup on such a container is classified as a cascade of that root cause, so that
// the same failures on containers without it keep their plain class.
func taintOf(m *mval) string {
	t1, t2 := taintWalk(m, false)
	switch {
	case t2:
		return "cascade-of-container-key-hash"
	case t1:
		return "cascade-of-int64-limit-number-hash"
	}
	return ""
}

func taintWalk(m *mval, asKey bool) (t1, t2 bool) {
	if m.kind == kNum {
		return m.n.e == 19 && m.n.digits == "9223372036854775", false
	}
	if m.kind != kObj {
		return false, false
	}
	if asKey && len(m.o.keys) >= 2 && len(m.o.keys) <= 4 {
		t2 = true
	}
	or := func(a, b bool) { t1 = t1 || a; t2 = t2 || b }
	for _, e := range m.o.list {
		or(taintWalk(e, false))
	}
	for i, k := range m.o.keys {
		or(taintWalk(k, true))
		or(taintWalk(m.o.vals[i], false))
	}
	return
}

func taint2(a, b *item) string {
	if a.taint == "cascade-of-container-key-hash" || b.taint == "" {
		return a.taint
	}
	return b.taint
}

func withTaint(class string, t string) string {
	if t == "" {
		return class
	}
	return class + "/" + t
}

// hashDiffClass computes the sub-class of "equal values hash differently" from the failing pair
func hashDiffClass(a, b *item) string {
	if a.m.kind != kObj {
		if t1, _ := taintWalk(a.m, false); t1 {
			// the number whose decimal form has the largest exponent-19 coefficient inside int64
			return "number-at-int64-limit-coefficient"
		}
		return kindName[a.m.kind]
	}
	if namedOrderDiffers(a.v, b.v) {
		return "object-named-iteration-order"
	}
	return withTaint("object", taint2(a, b))
}

// makePool generates the values of one pool.
func makePool(r *rand.Rand, size int) []*item {
	var models []*mval
	addNum := func(n num) { models = append(models, &mval{kind: kNum, n: n}) }
	// numbers: boundary ints, PRNG ints and decimals, each with encoding neighbours
	models = append(models, &mval{kind: kNum}, &mval{kind: kNum, n: num{sign: 2}}, &mval{kind: kNum, n: num{sign: -2}},
		&mval{kind: kBool}, &mval{kind: kBool, b: true}, &mval{kind: kStr})
	nnum := size / 16
	for i := 0; i < nnum; i++ {
		var n num
		switch r.IntN(4) {
		case 0:
			n = numFromInt(boundary[r.IntN(len(boundary))])
		case 1:
			n = numFromInt(int64(r.IntN(41) - 20)) // small ints double as list indexes
		default:
			n = genNum(r)
		}
		addNum(n)
		if r.IntN(3) == 0 {
			nb := numNeighbours(r, n)
			for k := 0; k < 2 && len(nb) > 0; k++ {
				addNum(nb[r.IntN(len(nb))])
			}
		}
		// integers beyond 16 digits against the decimals around them
		if i64, ok := n.asInt64(); ok && n.e >= 17 {
			s := strconv.FormatInt(i64, 10)
			s = strings.TrimPrefix(s, "-")
			d16, _ := strconv.ParseUint(s[:16], 10, 64)
			for _, c := range []uint64{d16, d16 + 1, d16 - 1} {
				cs := strconv.FormatUint(c, 10)
				if len(cs) == 16 {
					addNum(num{sign: n.sign, e: n.e, digits: strings.TrimRight(cs, "0")})
				}
			}
		}
	}
	for i := 0; i < size/40; i++ {
		s := genStr(r)
		if len(s) > 24 {
			s = s[:24]
		}
		models = append(models, &mval{kind: kStr, s: s})
		if r.IntN(2) == 0 {
			models = append(models, &mval{kind: kStr, s: s + string(byte(r.IntN(256)))})
		}
	}
	for i := 0; i < size/40; i++ {
		d := genDate(r)
		models = append(models, &mval{kind: kDate, d: d})
		if r.IntN(2) == 0 {
			d[7] = (d[7] + 1 + r.IntN(200)) % 256
			models = append(models, &mval{kind: kDate, d: d})
		}
	}
	var pool []*item
	add := func(m *mval, v Value, how string) {
		pool = append(pool, &item{m: m, v: v, how: how, id: vk.Hash64(m.String(), how, fmt.Sprintf("%T", v)), taint: taintOf(m)})
	}
	for _, m := range models {
		for _, rp := range scalarReps(r, m) {
			add(m, rp.v, rp.how)
		}
	}
	nscalar := len(pool)
	scalar := func() *mval { return pool[r.IntN(nscalar)].m }
	// containers: families sharing list prefixes and named members
	var objs []*mval
	for len(objs) < size/5 {
		base := &mobj{}
		for k := r.IntN(3); k > 0; k-- {
			if len(objs) > 0 && r.IntN(5) == 0 {
				base.list = append(base.list, objs[r.IntN(len(objs))])
			} else {
				base.list = append(base.list, scalar())
			}
		}
	outer:
		for k := r.IntN(5); k > 0; k-- {
			key := scalar()
			if len(objs) > 0 && r.IntN(5) == 0 {
				key = objs[r.IntN(len(objs))] // containers as member keys
				if nk := len(key.o.keys); nk >= 2 && nk <= 4 && r.IntN(4) != 0 {
					key = &mval{kind: kObj, o: &mobj{record: key.o.record, list: key.o.list, keys: key.o.keys[:1], vals: key.o.vals[:1]}}
				}
			}
			if key.kind == kNum {
				if i, ok := key.n.asInt64(); ok && i >= 0 && i <= int64(len(base.list)+5) {
					continue // would be (or become) a list member
				}
			}
			for _, k2 := range base.keys {
				if e, _ := eqModel(k2, key); e {
					continue outer
				}
			}
			base.keys = append(base.keys, key)
			base.vals = append(base.vals, scalar())
		}
		variants := []*mobj{base}
		// same content as a record
		variants = append(variants, &mobj{record: true, list: base.list, keys: base.keys, vals: base.vals})
		// one more list element / last element changed / named part dropped
		variants = append(variants, &mobj{list: append(append([]*mval{}, base.list...), scalar()), keys: base.keys, vals: base.vals})
		if len(base.keys) > 0 {
			variants = append(variants, &mobj{list: base.list})
			v2 := append([]*mval{}, base.vals...)
			v2[r.IntN(len(v2))] = scalar()
			variants = append(variants, &mobj{list: base.list, keys: base.keys, vals: v2})
		}
		for _, o := range variants {
			objs = append(objs, &mval{kind: kObj, o: o})
		}
	}
	// field records: no list part, a few string-named members with non-empty values - the shape of a database row, so
	// that build can also deliver them row-backed (fields unpacked on demand), next to equal in-memory records
	fieldNames := []string{"a", "b", "name", "k2"}
	for i := 0; i < size/8; i++ {
		o := &mobj{record: true}
		for _, fn := range fieldNames[:1+r.IntN(len(fieldNames))] {
			v := scalar()
			if v.kind == kStr && v.s == "" {
				continue
			}
			o.keys = append(o.keys, &mval{kind: kStr, s: fn})
			o.vals = append(o.vals, v)
		}
		if len(o.keys) == 0 {
			continue
		}
		objs = append(objs, &mval{kind: kObj, o: o})
		v2 := append([]*mval{}, o.vals...)
		if nv := scalar(); !(nv.kind == kStr && nv.s == "") {
			v2[r.IntN(len(v2))] = nv
			objs = append(objs, &mval{kind: kObj, o: &mobj{record: true, keys: o.keys, vals: v2}})
		}
	}
	for _, m := range objs {
		add(m, build(r, m, false, false), "built")
		add(m, build(r, m, true, false), "built-permuted")
		if r.IntN(3) == 0 {
			add(m, build(r, m, true, true), "built-churned")
		}
		if r.IntN(4) == 0 {
			add(m, toObject(build(r, m, false, false)).Copy(), "copy-as-object")
			if m.o.record {
				pool[len(pool)-1].m = &mval{kind: kObj, o: &mobj{list: m.o.list, keys: m.o.keys, vals: m.o.vals}}
			}
		}
	}
	return pool
}

func TestVerifC28(t *testing.T) {
	rep := vk.NewReport("C28",
		"pools of 400-700 values: bools, numbers (int64 boundary set, PRNG ints/decimals, +-inf, encoding neighbours, 17-19 digit ints with the decimals around them) in every "+
			"representation (SuInt, SuInt64, SuDnum via New/FromStr/FromInt), strings (SuStr, SuConcat, SuExcept), dates, timestamps, objects/records in families sharing list prefixes "+
			"and named members (built in different insertion orders and table histories, containers as keys); per pool the full Compare/Equal matrix; "+
			"a case = one ordered pair (matrix entry), one triple (transitivity) or one member lookup; non-trivial = the two values are different items; distinct by (item, item)",
		"scalar model order/equality is the harness's own (digit strings, bytes, civil tuples); record-vs-object equality is left open; math/strconv trusted")
	defer rep.Finish()
	defer func() { rep.Count("row_backed_records", int(rowBackedMade.Load())) }()
	reported := map[string]bool{}
	violate := func(class, key string, detail any) {
		// "<law>/cascade-of-X" becomes class "C28/cascade-of-X" with the law in the key: one class per root cause
		if i := strings.Index(class, "/cascade-of-"); i >= 0 {
			key = strings.TrimPrefix(class[:i], "C28/") + ": " + key
			class = "C28" + class[i:]
		}
		if id := class + "|" + key; !reported[id] {
			reported[id] = true
			rep.Violate(class, key, detail)
		} else {
			rep.Count("violations_repeated", 1)
		}
	}

	npools := vk.N(12, 640)
	for pi := 0; pi < npools; pi++ {
		r := vk.RandFor(2801, pi)
		pool := makePool(r, 400+r.IntN(200))
		n := len(pool)
		rep.Case("pool %d: %d values", pi, n)
		rep.Max("max_pool_size", n)
		rep.Count("pools", 1)
		M := make([]int8, n*n) // sign of Compare
		E := make([]bool, n*n)
		H := make([]uint64, n)
		for i, a := range pool {
			p, _ := vk.Catch(func() { H[i] = a.v.Hash() })
			if p != nil {
				violate("C28/hash-panic/"+kindName[a.m.kind], a.String(), fmt.Sprint(p))
			}
			rep.Seen("types", fmt.Sprintf("%T", a.v))
		}
		for i, a := range pool {
			for j, b := range pool {
				var c int
				var e bool
				p, _ := vk.Catch(func() { c = a.v.Compare(b.v); e = a.v.Equal(b.v) })
				if p != nil {
					violate("C28/compare-panic/"+kindName[a.m.kind]+"-"+kindName[b.m.kind], a.String()+" <=> "+b.String(), fmt.Sprint(p))
				}
				M[i*n+j] = int8(sign(c))
				E[i*n+j] = e
				rep.Eval(a.id*31+b.id, i != j)
			}
		}
		rep.Count("pairs", n*n)
		pairKey := func(i, j int) string { return pool[i].String() + " <=> " + pool[j].String() }
		// pairwise laws
		for i, a := range pool {
			if M[i*n+i] != 0 || !E[i*n+i] {
				violate("C28/not-reflexive/"+kindName[a.m.kind], a.String(), map[string]any{"compare": M[i*n+i], "equal": E[i*n+i]})
			}
			for j := i + 1; j < n; j++ {
				b := pool[j]
				kinds := kindName[a.m.kind] + "-" + kindName[b.m.kind]
				cij, cji := int(M[i*n+j]), int(M[j*n+i])
				if cij != -cji {
					violate("C28/not-antisymmetric/"+kinds, pairKey(i, j), map[string]any{"a.Compare(b)": cij, "b.Compare(a)": cji})
				}
				if E[i*n+j] != E[j*n+i] {
					violate(withTaint("C28/equal-not-symmetric/"+kinds, taint2(a, b)), pairKey(i, j), map[string]any{"a.Equal(b)": E[i*n+j], "b.Equal(a)": E[j*n+i], "a": show(a.v), "b": show(b.v)})
				}
				// type rank: bool < number < string < date < object
				if a.m.kind != b.m.kind {
					rep.Count("cross_type_pairs", 1)
					if cij != cmpInt(a.m.kind, b.m.kind) {
						violate("C28/type-rank/"+kinds, pairKey(i, j), map[string]any{"a.Compare(b)": cij, "want": cmpInt(a.m.kind, b.m.kind)})
					}
				} else if a.m.kind != kObj {
					if want := cmpModel(a.m, b.m); cij != want {
						violate("C28/order-differs-from-value-order/"+kinds, pairKey(i, j), map[string]any{"a.Compare(b)": cij, "want": want})
					}
				}
				if a.m.kind == kObj && b.m.kind == kObj {
					rep.Count("container_pairs", 1)
				}
				// equality against the model
				if me, judged := eqModel(a.m, b.m); judged {
					if me {
						rep.Count("equal_pairs", 1)
						if fmt.Sprintf("%T", a.v) != fmt.Sprintf("%T", b.v) {
							rep.Count("equal_pairs_cross_representation", 1)
						}
						if a.m.kind == kObj {
							rep.Count("equal_pairs_container", 1)
						}
					}
					if E[i*n+j] != me {
						violate(withTaint("C28/equal-differs-from-value-equality/"+kinds, taint2(a, b)), pairKey(i, j), map[string]any{"a.Equal(b)": E[i*n+j], "model": me, "a": show(a.v), "b": show(b.v)})
					}
				}
				// equal => compares equal and hashes equally
				if E[i*n+j] || E[j*n+i] {
					if cij != 0 || cji != 0 {
						violate("C28/equal-but-compare-nonzero/"+kinds, pairKey(i, j), map[string]any{"a.Compare(b)": cij, "b.Compare(a)": cji})
					}
					if H[i] != H[j] {
						violate("C28/equal-but-hash-differs/"+hashDiffClass(a, b), pairKey(i, j), map[string]any{"hash_a": H[i], "hash_b": H[j], "a": show(a.v), "b": show(b.v)})
					}
				}
			}
		}
		// transitivity over all triples (uses the matrix only):
		// a<=b and b<=c => a<=c ; and a<c if one of the premises is strict
		ntr, nviol := 0, 0
		for i := 0; i < n && nviol < 20; i++ {
			rowi := M[i*n : i*n+n]
			for j := 0; j < n; j++ {
				mij := rowi[j]
				if j == i || mij > 0 {
					continue
				}
				rowj := M[j*n : j*n+n]
				for k := 0; k < n; k++ {
					mjk := rowj[k]
					if mjk > 0 || k == i || k == j {
						continue
					}
					ntr++
					mik := rowi[k]
					if mik > 0 || ((mij < 0 || mjk < 0) && mik == 0) {
						nviol++
						violate("C28/not-transitive/"+kindName[pool[i].m.kind]+"-"+kindName[pool[j].m.kind]+"-"+kindName[pool[k].m.kind],
							pool[i].String()+" ; "+pool[j].String()+" ; "+pool[k].String(),
							map[string]any{"a?b": mij, "b?c": mjk, "a?c": mik})
					}
				}
			}
		}
		rep.Count("triples", ntr)
		// Equal is transitive (equal values form classes)
		for i := 0; i < n; i++ {
			for j := i + 1; j < n; j++ {
				if !E[i*n+j] {
					continue
				}
				for k := 0; k < n; k++ {
					if E[j*n+k] && !E[i*n+k] {
						t := taint2(pool[i], pool[j])
						if t != "cascade-of-container-key-hash" && pool[k].taint != "" {
							t = pool[k].taint
						}
						violate(withTaint("C28/equal-not-transitive/"+kindName[pool[i].m.kind], t), pool[i].String()+" ; "+pool[j].String()+" ; "+pool[k].String(), nil)
					}
				}
			}
		}

		// member lookup by every equal key
		for round := 0; round < 3; round++ {
			ob := &SuObject{}
			type stored struct {
				idx int
				val Value
			}
			var st []stored
			listLen := r.IntN(4)
			for i := 0; i < listLen; i++ {
				ob.Add(SuStr("list" + strconv.Itoa(i)))
			}
			perm := r.Perm(n)
			want := 40 + r.IntN(200)
		cand:
			for _, ci := range perm {
				if len(st) >= want {
					break
				}
				c := pool[ci]
				if c.m.kind == kNum {
					if i, ok := c.m.n.asInt64(); ok && i >= 0 && i < 400 {
						continue // list range (growing); covered by the list lookups below
					}
				}
				for _, s := range st {
					if E[ci*n+s.idx] || E[s.idx*n+ci] {
						continue cand
					}
					if me, _ := eqModel(c.m, pool[s.idx].m); me {
						continue cand
					}
				}
				val := SuStr("member" + strconv.Itoa(ci))
				ob.Set(c.v, val)
				st = append(st, stored{ci, val})
			}
			if ob.NamedSize() != len(st) {
				violate("C28/member-count-wrong", fmt.Sprintf("pool %d round %d", pi, round), map[string]any{"named": ob.NamedSize(), "stored": len(st)})
			}
			for pj, p := range pool {
				match, half := -1, false
				for si, s := range st {
					if E[pj*n+s.idx] && E[s.idx*n+pj] {
						match = si
						break
					} else if E[pj*n+s.idx] || E[s.idx*n+pj] {
						half = true // asymmetric Equal: reported by the pairwise laws, no lookup expectation
					}
				}
				if match < 0 && half {
					continue
				}
				var got Value
				var has bool
				pn, _ := vk.Catch(func() { got = ob.GetIfPresent(nil, p.v); has = ob.HasKey(p.v) })
				if pn != nil {
					violate("C28/member-lookup-panic/"+kindName[p.m.kind], p.String(), fmt.Sprint(pn))
					continue
				}
				if match >= 0 {
					rep.Count("member_lookups_by_equal_key", 1)
					k := pool[st[match].idx]
					if fmt.Sprintf("%T", p.v) != fmt.Sprintf("%T", k.v) {
						rep.Count("member_lookups_by_other_representation", 1)
					}
					rep.Eval(p.id*131+k.id+7, pj != st[match].idx)
					if got != st[match].val || !has {
						cl := withTaint("C28/member-not-found-by-equal-key/"+kindName[p.m.kind], taint2(p, k))
						if H[pj] != H[st[match].idx] {
							cl = "C28/member-not-found-by-equal-key/hash-differs-" + hashDiffClass(p, k)
						}
						violate(cl, "stored "+k.String()+" ; probe "+p.String(), map[string]any{"got": fmt.Sprint(got), "haskey": has, "want": string(st[match].val.(SuStr))})
					}
				} else if i, ok := p.v.IfInt(); ok && 0 <= i && i < listLen {
					rep.Count("list_lookups", 1)
					if got == nil || !got.Equal(SuStr("list"+strconv.Itoa(i))) {
						violate("C28/list-member-not-found/"+kindName[p.m.kind], p.String(), fmt.Sprint(got))
					}
				} else {
					rep.Count("member_lookups_absent", 1)
					if got != nil || has {
						violate("C28/member-found-by-unequal-key/"+kindName[p.m.kind], "probe "+p.String(), map[string]any{"got": fmt.Sprint(got), "haskey": has})
					}
				}
			}
			// overwrite and delete through an equal key of (possibly) another representation
			for si, s := range st {
				var alts []int
				for pj := range pool {
					if pj != s.idx && E[pj*n+s.idx] && E[s.idx*n+pj] && H[pj] == H[s.idx] {
						alts = append(alts, pj)
					}
				}
				if len(alts) == 0 {
					continue
				}
				alt := pool[alts[r.IntN(len(alts))]]
				before := ob.NamedSize()
				nv := SuStr("new" + strconv.Itoa(si))
				ob.Set(alt.v, nv)
				rep.Count("member_overwrites_by_equal_key", 1)
				if ob.NamedSize() != before || ob.GetIfPresent(nil, pool[s.idx].v) != nv {
					violate("C28/overwrite-by-equal-key-adds-member/"+kindName[alt.m.kind], "stored "+pool[s.idx].String()+" ; put "+alt.String(),
						map[string]any{"size_before": before, "size_after": ob.NamedSize()})
					continue
				}
				if si%2 == 0 {
					ok := ob.Delete(nil, alt.v)
					rep.Count("member_deletes_by_equal_key", 1)
					if !ok || ob.NamedSize() != before-1 || ob.HasKey(pool[s.idx].v) {
						violate("C28/delete-by-equal-key-fails/"+kindName[alt.m.kind], "stored "+pool[s.idx].String()+" ; delete "+alt.String(),
							map[string]any{"deleted": ok, "size_before": before, "size_after": ob.NamedSize()})
					}
				}
			}
		}
		if rep.WantSample() {
			a, b := pool[r.IntN(n)], pool[r.IntN(n)]
			rep.Sample(map[string]any{"a": a.String(), "b": b.String(), "compare": a.v.Compare(b.v), "equal": a.v.Equal(b.v), "pool_size": n})
		}
	}
	_ = dnum.Zero
}
