// C26 Numeric operations follow decimal number semantics.
// Black-box monitor over core.Op* with a math/big oracle.
package c26

import (
	"fmt"
	"math"
	"math/big"
	"math/rand/v2"
	"testing"

	. "github.com/apmckinlay/gsuneido/core"
	"github.com/apmckinlay/gsuneido/util/dnum"
	vk "github.com/apmckinlay/gsuneido/util/verifkit"
)

var pow10big [40]*big.Int

func init() {
	pow10big[0] = big.NewInt(1)
	for i := 1; i < len(pow10big); i++ {
		pow10big[i] = new(big.Int).Mul(pow10big[i-1], big.NewInt(10))
	}
}

// ratOf returns the exact value of a numeric Value (nil for infinities / non numbers).
func ratOf(v Value) *big.Rat {
	if i, ok := SuIntToInt(v); ok {
		return new(big.Rat).SetInt64(int64(i))
	}
	d, ok := v.(SuDnum)
	if !ok {
		return nil
	}
	return ratOfDnum(d.Dnum)
}

func ratOfDnum(d dnum.Dnum) *big.Rat {
	if d.IsInf() {
		return nil
	}
	if d.IsZero() {
		return new(big.Rat)
	}
	r := new(big.Rat).SetInt(new(big.Int).SetUint64(d.Coef()))
	e := d.Exp() - 16
	if e >= 0 {
		r.Mul(r, new(big.Rat).SetInt(pow(e)))
	} else {
		r.Quo(r, new(big.Rat).SetInt(pow(-e)))
	}
	if d.Sign() < 0 {
		r.Neg(r)
	}
	return r
}

func pow(e int) *big.Int {
	if e < len(pow10big) {
		return pow10big[e]
	}
	return new(big.Int).Exp(big.NewInt(10), big.NewInt(int64(e)), nil)
}

func digits(n int64) int {
	b := new(big.Int).SetInt64(n)
	b.Abs(b)
	return len(b.String())
}

// within: |got-exact| <= |exact| * 10^-15 (one unit in the 16th digit, conservatively)
func within(got, exact *big.Rat) bool {
	d := new(big.Rat).Sub(got, exact)
	d.Abs(d)
	tol := new(big.Rat).Abs(exact)
	tol.Quo(tol, new(big.Rat).SetInt(pow(15)))
	return d.Cmp(tol) <= 0
}

func withinN(got, exact *big.Rat, units int) bool {
	d := new(big.Rat).Sub(got, exact)
	d.Abs(d)
	tol := new(big.Rat).Abs(exact)
	tol.Mul(tol, new(big.Rat).SetInt64(int64(units)))
	tol.Quo(tol, new(big.Rat).SetInt(pow(15)))
	return d.Cmp(tol) <= 0
}

func b2i(b bool) int {
	if b {
		return 1
	}
	return 0
}

var boundary []int64

func init() {
	add := func(n int64) {
		for d := int64(-3); d <= 3; d++ {
			m := n + d
			if (d > 0 && m < n) || (d < 0 && m > n) {
				continue
			}
			boundary = append(boundary, m)
		}
	}
	add(0)
	for k := 1; k < 63; k++ {
		add(int64(1) << k)
		add(-(int64(1) << k))
	}
	p := int64(1)
	for k := 1; k <= 18; k++ {
		p *= 10
		add(p)
		add(-p)
	}
	add(math.MaxInt64)
	add(math.MinInt64)
	add(math.MaxInt16)
	add(math.MinInt16)
	add(math.MaxInt32)
	add(math.MinInt32)
	add(3037000499) // sqrt(MaxInt64)
	add(-3037000499)
	add(3037000500)
	add(4611686018427387904)
}

func genInt(r *rand.Rand) int64 {
	switch r.IntN(6) {
	case 0:
		return boundary[r.IntN(len(boundary))]
	case 1:
		return int64(r.IntN(200001) - 100000)
	case 2:
		return int64(r.Uint64()) // full range
	case 3:
		return int64(r.Uint64() >> uint(r.IntN(64)))
	case 4:
		return -int64(r.Uint64() >> uint(r.IntN(64)))
	default:
		// products near the overflow limit
		return boundary[r.IntN(len(boundary))] + int64(r.IntN(2001)-1000)
	}
}

type opdef struct {
	name string
	fn   func(x, y Value) Value
	big  func(x, y *big.Int) *big.Int
}

var ops = []opdef{
	{"add", OpAdd, func(x, y *big.Int) *big.Int { return new(big.Int).Add(x, y) }},
	{"sub", OpSub, func(x, y *big.Int) *big.Int { return new(big.Int).Sub(x, y) }},
	{"mul", OpMul, func(x, y *big.Int) *big.Int { return new(big.Int).Mul(x, y) }},
}

func dn(n int64) Value { return SuDnum{Dnum: dnum.FromInt(n)} }

func TestVerifC26(t *testing.T) {
	rep := vk.NewReport("C26", "operand pairs from a boundary set (±2^k, ±10^k, int16/32/64 limits, sqrt(MaxInt64), each ±3) squared plus PRNG integers/decimals; "+
		"a case is (op, x, y) in the available representations; non-trivial = the exact result differs from both operands or overflows int64; distinct by (op,x,y)",
		"math/big is the oracle; dnum precision itself is checked by C27")
	defer rep.Finish()
	r := vk.Rand(26)

	checkPair := func(x, y int64) {
		bx, by := big.NewInt(x), big.NewInt(y)
		for _, op := range ops {
			exact := op.big(bx, by)
			ex := new(big.Rat).SetInt(exact)
			nontriv := exact.Cmp(bx) != 0 && exact.Cmp(by) != 0
			rep.Eval(vk.Hash64(op.name, x, y), nontriv)
			var got Value
			p, _ := vk.Catch(func() { got = op.fn(IntVal(int(x)), IntVal(int(y))) })
			key := fmt.Sprintf("%s(%d,%d)", op.name, x, y)
			if p != nil {
				rep.Violate("C26/panic/"+op.name, key, fmt.Sprint(p))
				continue
			}
			g := ratOf(got)
			if exact.IsInt64() {
				rep.Count("int_results_fit", 1)
				if g == nil || g.Cmp(ex) != 0 {
					rep.Violate("C26/int-result-not-exact/"+op.name, key, map[string]any{"got": got.String(), "exact": exact.String()})
				}
				if !got.Equal(IntVal(int(exact.Int64()))) || !IntVal(int(exact.Int64())).Equal(got) {
					rep.Violate("C26/int-result-not-equal/"+op.name, key, map[string]any{"got": got.String(), "exact": exact.String()})
				}
			} else {
				rep.Count("int_results_overflow", 1)
				// must fall back to decimal arithmetic, never wrapped. Decimal arithmetic first rounds each operand to 16
				// digits (up to half a unit each for integers of 17-19 digits) and then rounds the result (half a unit):
				// up to 1.5e-15 relative in all, so the bound is 2e-15 relative (a wrapped value is off by orders of magnitude)
				if g == nil || !withinN(g, ex, 2) {
					rep.Violate("C26/int-overflow-wrap/"+op.name, key, map[string]any{"got": got.String(), "exact": exact.String()})
				}
			}
			// cross representation: only where every operand and the result are exactly representable as decimals
			if digits(x) <= 16 && digits(y) <= 16 && len(new(big.Int).Abs(exact).String()) <= 16 {
				rep.Count("cross_representation", 1)
				for i, pair := range [][2]Value{{dn(x), IntVal(int(y))}, {IntVal(int(x)), dn(y)}, {dn(x), dn(y)}} {
					var g2 Value
					p, _ := vk.Catch(func() { g2 = op.fn(pair[0], pair[1]) })
					if p != nil {
						rep.Violate("C26/panic/"+op.name, key, fmt.Sprint(p))
						continue
					}
					r2 := ratOf(g2)
					if r2 == nil || r2.Cmp(ex) != 0 || !g2.Equal(got) || !got.Equal(g2) || g2.Compare(got) != 0 {
						rep.Violate("C26/representation-dependent/"+op.name, key, map[string]any{"form": i, "int_form": got.String(), "dnum_form": g2.String(), "exact": exact.String()})
					} else if g2.Hash() != got.Hash() {
						rep.Violate("C26/hash-differs-for-equal", key, map[string]any{"form": i, "int_form": fmt.Sprintf("%T %v", got, got), "dnum_form": fmt.Sprintf("%T %v", g2, g2)})
					}
				}
			}
		}
		// unary minus
		{
			exact := new(big.Int).Neg(bx)
			rep.Eval(vk.Hash64("neg", x), x != 0)
			var got Value
			p, _ := vk.Catch(func() { got = OpUnaryMinus(IntVal(int(x))) })
			key := fmt.Sprintf("neg(%d)", x)
			if p != nil {
				rep.Violate("C26/panic/neg", key, fmt.Sprint(p))
			} else if g := ratOf(got); exact.IsInt64() {
				if g == nil || g.Cmp(new(big.Rat).SetInt(exact)) != 0 {
					rep.Violate("C26/int-result-not-exact/neg", key, map[string]any{"got": got.String(), "exact": exact.String()})
				}
			} else if g == nil || !within(g, new(big.Rat).SetInt(exact)) {
				rep.Violate("C26/int-overflow-wrap/neg", key, map[string]any{"got": got.String(), "exact": exact.String()})
			}
		}
		// division and modulus
		if y != 0 {
			exact := new(big.Rat).SetFrac(bx, by)
			rep.Eval(vk.Hash64("div", x, y), x != 0 && y != 1)
			var got Value
			key := fmt.Sprintf("div(%d,%d)", x, y)
			p, _ := vk.Catch(func() { got = OpDiv(IntVal(int(x)), IntVal(int(y))) })
			if p != nil {
				rep.Violate("C26/panic/div", key, fmt.Sprint(p))
			} else {
				g := ratOf(got)
				if exact.IsInt() && exact.Num().IsInt64() && digits(x) <= 16 && digits(y) <= 16 {
					if g == nil || g.Cmp(exact) != 0 {
						rep.Violate("C26/int-result-not-exact/div", key, map[string]any{"got": got.String(), "exact": exact.String()})
					}
				} else if g == nil || !withinN(g, exact, 1+b2i(digits(x) > 16)+b2i(digits(y) > 16)) {
					cl := "C26/div-imprecise"
					if exact.IsInt() && !exact.Num().IsInt64() {
						cl = "C26/int-overflow-wrap/div"
					}
					rep.Violate(cl, key, map[string]any{"got": got.String(), "exact": exact.FloatString(5)})
				}
			}
			rep.Eval(vk.Hash64("mod", x, y), true)
			key = fmt.Sprintf("mod(%d,%d)", x, y)
			p, _ = vk.Catch(func() { got = OpMod(IntVal(int(x)), IntVal(int(y))) })
			want := new(big.Int).Rem(bx, by) // truncated, like Go and the documented %
			if p != nil {
				rep.Violate("C26/panic/mod", key, fmt.Sprint(p))
			} else if g := ratOf(got); g == nil || g.Cmp(new(big.Rat).SetInt(want)) != 0 {
				rep.Violate("C26/mod-wrong", key, map[string]any{"got": got.String(), "exact": want.String()})
			}
		}
		// integers with more than 16 digits against decimals near them (the decimal holds its own exact value)
		if digits(x) > 16 {
			rep.Count("beyond16_compares", 1)
			xv := IntVal(int(x))
			d0 := dnum.FromInt(x)
			for _, d := range []dnum.Dnum{d0, dnum.Add(d0, dnum.FromInt(pow(digits(x)-16).Int64())), dnum.Sub(d0, dnum.FromInt(pow(digits(x)-16).Int64()))} {
				dv := SuDnum{Dnum: d}
				er := ratOfDnum(d)
				if er == nil {
					continue
				}
				want := new(big.Rat).SetInt(bx).Cmp(er)
				key := fmt.Sprintf("cmp16(%d,%s)", x, dv.String())
				rep.Eval(vk.Hash64("cmp16", x, dv.String()), true)
				if sign(xv.Compare(dv)) != want || sign(dv.Compare(xv)) != -want {
					rep.Violate("C26/compare-wrong-beyond-16-digits", key, map[string]any{"int": xv.String(), "dec": dv.String(), "int.Compare(dec)": xv.Compare(dv), "dec.Compare(int)": dv.Compare(xv), "want": want})
				}
				if xv.Equal(dv) != (want == 0) || dv.Equal(xv) != (want == 0) {
					rep.Violate("C26/equal-wrong-beyond-16-digits", key, map[string]any{"int": xv.String(), "dec": dv.String(), "int.Equal(dec)": xv.Equal(dv), "dec.Equal(int)": dv.Equal(xv), "want": want == 0})
				}
				if want == 0 && xv.Hash() != dv.Hash() {
					rep.Violate("C26/hash-differs-for-equal", key, map[string]any{"int": xv.String(), "dec": dv.String()})
				}
			}
		}
		// comparison / equality / hash across representations
		{
			rep.Eval(vk.Hash64("cmp", x, y), x != y)
			want := bx.Cmp(by)
			xs := []Value{IntVal(int(x))}
			ys := []Value{IntVal(int(y))}
			if digits(x) <= 16 {
				xs = append(xs, dn(x))
			}
			if digits(y) <= 16 {
				ys = append(ys, dn(y))
			}
			for i, xv := range xs {
				for j, yv := range ys {
					key := fmt.Sprintf("cmp(%d[%d],%d[%d])", x, i, y, j)
					c := xv.Compare(yv)
					if sign(c) != want {
						cl := "C26/compare-wrong"
						if digits(x) > 16 || digits(y) > 16 {
							cl = "C26/compare-wrong-beyond-16-digits"
						}
						rep.Violate(cl, key, map[string]any{"got": c, "want": want, "x": xv.String(), "y": yv.String()})
					}
					if sign(yv.Compare(xv)) != -want {
						rep.Violate("C26/compare-asymmetric", key, map[string]any{"x": xv.String(), "y": yv.String()})
					}
					eq := xv.Equal(yv)
					if eq != (want == 0) || yv.Equal(xv) != eq {
						rep.Violate("C26/equal-wrong", key, map[string]any{"got": eq, "x": xv.String(), "y": yv.String()})
					}
					if want == 0 && xv.Hash() != yv.Hash() {
						rep.Violate("C26/hash-differs-for-equal", key, map[string]any{"x": xv.String(), "y": yv.String()})
					}
					if (OpLt(xv, yv) == True) != (want < 0) || (OpLte(xv, yv) == True) != (want <= 0) ||
						(OpGt(xv, yv) == True) != (want > 0) || (OpGte(xv, yv) == True) != (want >= 0) ||
						(OpIs(xv, yv) == True) != (want == 0) || (OpIsnt(xv, yv) == True) != (want != 0) {
						rep.Violate("C26/relop-wrong", key, map[string]any{"x": xv.String(), "y": yv.String()})
					}
				}
			}
		}
	}

	// 1. boundary set squared (fixed, seed independent), sharded by row
	nb := 0
	for i, x := range boundary {
		if i%vk.NShards() != vk.Shard() {
			continue
		}
		stride := 1
		if !vk.Thorough() {
			stride = 3 // quick: every third column, offset rotates with the row
		}
		for j := i % stride; j < len(boundary); j += stride {
			checkPair(x, boundary[j])
			nb++
		}
	}
	rep.Count("boundary_pairs", nb)
	// 2. PRNG pairs
	n := vk.N(150000, 6000000)
	for i := 0; i < n; i++ {
		x, y := genInt(r), genInt(r)
		if i < 3 {
			rep.Sample(map[string]any{"x": x, "y": y, "add": OpAdd(IntVal(int(x)), IntVal(int(y))).String(), "mul": OpMul(IntVal(int(x)), IntVal(int(y))).String()})
		}
		checkPair(x, y)
	}
	rep.Count("random_pairs", n)
	// 3. decimal operands with fractional parts: int-valued decimals must behave like ints
	m := vk.N(50000, 2000000)
	for i := 0; i < m; i++ {
		a := int64(r.IntN(2_000_001) - 1_000_000)
		sc := r.IntN(4) // a / 10^sc
		b := int64(r.IntN(20001) - 10000)
		da := SuDnum{Dnum: dnum.Div(dnum.FromInt(a), dnum.FromInt(pow(sc).Int64()))}
		ea := new(big.Rat).SetFrac(big.NewInt(a), pow(sc))
		eb := new(big.Rat).SetInt64(b)
		for k, op := range []func(x, y Value) Value{OpAdd, OpSub, OpMul} {
			var exact *big.Rat
			switch k {
			case 0:
				exact = new(big.Rat).Add(ea, eb)
			case 1:
				exact = new(big.Rat).Sub(ea, eb)
			default:
				exact = new(big.Rat).Mul(ea, eb)
			}
			rep.Eval(vk.Hash64("dec", k, a, sc, b), sc > 0 && b != 0)
			got := op(da, IntVal(int(b)))
			if g := ratOf(got); g == nil || g.Cmp(exact) != 0 {
				rep.Violate("C26/decimal-int-mixed-wrong", fmt.Sprintf("op%d(%d/10^%d,%d)", k, a, sc, b), map[string]any{"got": got.String(), "exact": exact.FloatString(6)})
			}
			// an integer valued result must equal the integer
			if exact.IsInt() {
				iv := IntVal(int(exact.Num().Int64()))
				if !got.Equal(iv) || !iv.Equal(got) || got.Compare(iv) != 0 {
					rep.Violate("C26/int-valued-decimal-not-equal-int", fmt.Sprintf("op%d(%d/10^%d,%d)", k, a, sc, b), map[string]any{"got": got.String(), "int": iv.String()})
				} else if got.Hash() != iv.Hash() {
					rep.Violate("C26/hash-differs-for-equal", fmt.Sprintf("op%d(%d/10^%d,%d)", k, a, sc, b), map[string]any{"got": fmt.Sprintf("%T %v", got, got), "int": fmt.Sprintf("%T %v", iv, iv)})
				}
			}
		}
	}
	rep.Count("decimal_mixed", m)
}

func sign(n int) int {
	switch {
	case n < 0:
		return -1
	case n > 0:
		return 1
	}
	return 0
}
