// C30 Constant folding and propagation preserve program meaning.
//
// Differential monitor. One generated expression tree / small program is
// printed in several variants that must mean the same:
//
//	R  run time:   function (p0, p1, ...) { ... p0 op p1 ... }  called with the constants
//	F  folded:     function () { ... C0 op C1 ... }              literals in place
//	P  partial:    a PRNG subset of the leaves as literals, the rest as parameters
//	L  propagated: function () { v0 = C0; v1 = C1; ... v0 op v1 ... }  single-assignment locals
//
// R is the reference: parameters are never constant, so nothing in it can be
// folded or propagated and every operation runs in the interpreter. F, P and L
// must give the same value (same type, Equal, same display) or the same
// exception as R. The harness owns the tree and its printer; the compiler
// under test only ever sees source text.
package c30

import (
	"fmt"
	"math"
	"math/rand/v2"
	"os"
	"regexp"
	"strings"
	"testing"

	_ "github.com/apmckinlay/gsuneido/builtin"
	"github.com/apmckinlay/gsuneido/compile"
	. "github.com/apmckinlay/gsuneido/core"
	vk "github.com/apmckinlay/gsuneido/util/verifkit"
)

// ---------------------------------------------------------------- expression trees

type ty byte

const (
	tNum ty = iota
	tInt    // small-ish integers (bit ops, shifts, mod)
	tStr
	tBool
	tDate
	tObj
	tAny
)

type expr struct {
	op   string // "leaf", "paren", unary: "+u" "-u" "not" "~"; "nary"; binary op text; "?:"; "in"; "notin"; "call"
	kids []*expr
	ops  []string // nary: operator before kid i (i >= 1)
	leaf int      // index into prog.leaves
	fn   string   // call: Number? String? Date?
	bare bool     // nary: comparison operands are printed without parentheses (x > a and x < b)
}

type leaf struct {
	lit string
	t   ty
}

type prog struct {
	leaves []leaf
	ops    map[string]bool
	roots  []*expr // every expression that appears in the program
	// generation switches
	confuse   int  // how many deliberately ill-typed operands may still be generated
	tracing   bool // operands may be wrapped in the tracing block t_
	usesTrace bool
	// leaves the partial variant should keep literal / turn into parameters (range tests: variable operand, literal bounds)
	maskSet, maskClear uint32
}

var numLits = []string{"0", "1", "-1", "2", "3", "5", "7", "10", "100", ".5", ".1", ".25", "1.5", "-2.5", "1e3", "1e-3", "255", "0xff", "65535", "65536",
	"2147483647", "2147483648", "4294967295", "4294967296", "-2147483648", "9007199254740993", "9223372036854775807", "-9223372036854775808",
	"9223372036854775806", "4611686018427387904", "3037000500", "1e16", "9999999999999999", "12345678.9", "1e-5", "1e20", "1e126", "1e-126", ".3333333333333333", "3", "6", "9", "1000000", ".001", "1e15", "123456789012345678"}
var intLits = []string{"0", "1", "-1", "2", "3", "4", "5", "7", "8", "15", "16", "31", "32", "63", "64", "255", "0xff", "65535", "-8", "1000", "2147483647", "-2147483648", "4294967295", "4294967296", "0xffff0000"}
var strLits = []string{`""`, `"a"`, `"abc"`, `"ABC"`, `"12"`, `"1e3"`, `" "`, `"a.c"`, `"["`, `"(?i)abc"`, `"true"`, `"x\ny"`, `'say "hi"'`, "`\\d+`", `"^a"`, `"b$"`, `"0"`, `"hello world"`, `#abc`, `"."`}
var boolLits = []string{"true", "false"}
var dateLits = []string{"#20200101", "#20200101.1230", "#19000101", "#20200102", "#20200101.123000001"}
var objLits = []string{"#()", "#(1, 2)", "#(a: 1)", "#{a: 1}", "#(1, 2)", `#("a")`, "#{}"}

func (p *prog) newLeaf(r *rand.Rand, t ty) *expr {
	var pool []string
	switch t {
	case tNum:
		pool = numLits
	case tInt:
		pool = intLits
	case tStr:
		pool = strLits
	case tBool:
		pool = boolLits
	case tDate:
		pool = dateLits
	case tObj:
		pool = objLits
	default:
		return p.newLeaf(r, ty(r.IntN(int(tAny))))
	}
	if len(p.leaves) >= maxLeaves {
		// reuse an existing leaf (the same parameter / local / literal is used again), preferably of the wanted type
		k := r.IntN(len(p.leaves))
		for try := 0; try < 8 && p.leaves[k].t != t; try++ {
			k = r.IntN(len(p.leaves))
		}
		if p.leaves[k].t == t || len(p.leaves) >= 2*maxLeaves {
			return p.maybeTrace(r, &expr{op: "leaf", leaf: k})
		}
	}
	lit := pool[r.IntN(len(pool))]
	if (t == tNum || t == tInt) && r.IntN(4) == 0 {
		// PRNG numbers: small ints, decimals
		switch r.IntN(3) {
		case 0:
			lit = fmt.Sprint(r.IntN(41) - 20)
		case 1:
			lit = fmt.Sprintf("%d.%d", r.IntN(100), r.IntN(1000))
		default:
			lit = fmt.Sprint(int64(r.Uint64()) >> uint(r.IntN(64)))
		}
		if t == tInt {
			lit = fmt.Sprint(r.IntN(70) - 3)
		}
	}
	p.leaves = append(p.leaves, leaf{lit, t})
	return p.maybeTrace(r, &expr{op: "leaf", leaf: len(p.leaves) - 1})
}

// maybeTrace wraps an operand in a call of the tracing block: t_(x) records x
// in the result object and returns it, so the operand is not a constant in any
// variant and its evaluation (or not) is visible in the result.
func (p *prog) maybeTrace(r *rand.Rand, e *expr) *expr {
	if p.tracing && r.IntN(5) == 0 {
		p.usesTrace = true
		return &expr{op: "traced", kids: []*expr{e}}
	}
	return e
}

const maxLeaves = 10

// top generates an expression that appears in the program text.
func (p *prog) top(r *rand.Rand, t ty, depth int) *expr {
	e := p.gen(r, t, depth)
	p.roots = append(p.roots, e)
	return e
}

func (p *prog) gen(r *rand.Rand, t ty, depth int) *expr {
	saveTracing := p.tracing
	if p.confuse > 0 && r.IntN(10) == 0 { // deliberate type confusion
		p.confuse--
		t = ty(r.IntN(int(tAny)))
	}
	if depth <= 0 || r.IntN(5) == 0 {
		return p.newLeaf(r, t)
	}
	d := depth - 1
	un := func(op string, kt ty) *expr { p.ops[op] = true; return &expr{op: op, kids: []*expr{p.gen(r, kt, d)}} }
	bin := func(op string, lt, rt ty) *expr {
		p.ops[op] = true
		return &expr{op: op, kids: []*expr{p.gen(r, lt, d), p.gen(r, rt, d)}}
	}
	nary := func(opset []string, kt ty) *expr {
		n := 2 + r.IntN(3)
		e := &expr{op: "nary"}
		for i := 0; i < n; i++ {
			k := p.gen(r, kt, d)
			if i > 0 && r.IntN(6) == 0 { // nested nary of the same family in parentheses (flattening)
				k = &expr{op: "paren", kids: []*expr{{op: "nary", kids: []*expr{p.gen(r, kt, d-1), p.gen(r, kt, d-1)}, ops: []string{"", opset[0]}}}}
			}
			e.kids = append(e.kids, k)
			o := opset[r.IntN(len(opset))]
			e.ops = append(e.ops, o)
			p.ops[o] = true
		}
		return e
	}
	tri := func(t ty) *expr {
		p.ops["?:"] = true
		return &expr{op: "?:", kids: []*expr{p.gen(r, tBool, d), p.gen(r, t, d), p.gen(r, t, d)}}
	}
	switch t {
	case tNum:
		switch r.IntN(9) {
		case 0:
			return un([]string{"-u", "+u"}[r.IntN(2)], tNum)
		case 1, 2:
			return nary([]string{"+", "-"}, tNum)
		case 3, 4:
			return nary([]string{"*", "/"}, tNum)
		case 5:
			return nary([]string{"*"}, tNum)
		case 6:
			return tri(tNum)
		case 7:
			return p.gen(r, tInt, depth)
		default:
			return &expr{op: "paren", kids: []*expr{p.gen(r, tNum, d)}}
		}
	case tInt:
		switch r.IntN(8) {
		case 0:
			return un("~", tInt)
		case 1:
			return nary([]string{"|"}, tInt)
		case 2:
			return nary([]string{"&"}, tInt)
		case 3:
			return nary([]string{"^"}, tInt)
		case 4:
			return bin("%", tInt, tInt)
		case 5:
			return bin([]string{"<<", ">>"}[r.IntN(2)], tInt, tInt)
		case 6:
			return nary([][]string{{"+", "-"}, {"*"}}[r.IntN(2)], tInt)
		default:
			return tri(tInt)
		}
	case tStr:
		switch r.IntN(4) {
		case 0, 1:
			e := nary([]string{"$"}, tStr)
			if r.IntN(3) == 0 {
				e.kids[r.IntN(len(e.kids))] = p.gen(r, tAny, d) // conversion to string
			}
			return e
		case 2:
			return tri(tStr)
		default:
			return &expr{op: "paren", kids: []*expr{p.gen(r, tStr, d)}}
		}
	case tBool:
		ct := []ty{tNum, tNum, tStr, tDate, tInt, tBool, tAny}[r.IntN(7)]
		switch r.IntN(12) {
		case 0:
			return un("not", tBool)
		case 1:
			return nary([]string{"and"}, tBool)
		case 2:
			return nary([]string{"or"}, tBool)
		case 3:
			return bin([]string{"is", "isnt"}[r.IntN(2)], ct, ct)
		case 4, 5:
			return bin([]string{"<", "<=", ">", ">="}[r.IntN(4)], ct, ct)
		case 6:
			return bin([]string{"=~", "!~"}[r.IntN(2)], tStr, tStr)
		case 7, 8:
			n := 1 + r.IntN(4)
			if r.IntN(10) == 0 {
				n = 0
			}
			op := []string{"in", "notin"}[r.IntN(2)]
			p.ops[op] = true
			e := &expr{op: op, kids: []*expr{p.gen(r, ct, d)}}
			for i := 0; i < n; i++ {
				e.kids = append(e.kids, p.gen(r, ct, 0))
			}
			if n >= 2 && r.IntN(3) == 0 {
				e.kids = append(e.kids, e.kids[1]) // duplicate member (same leaf)
			}
			return e
		case 9:
			p.ops["call"] = true
			return &expr{op: "call", fn: []string{"Number?", "String?", "Date?"}[r.IntN(3)], kids: []*expr{p.gen(r, tAny, 0)}}
		case 10:
			return tri(tBool)
		default:
			// a range test written as two comparisons on the same operand (range folding)
			p.tracing, p.ops["range"] = false, true // the tested operand must be a plain variable for the range rule
			saveT := p.usesTrace
			x := p.gen(r, ct, 0)
			bound := func() *expr {
				if r.IntN(5) < 2 && x.op == "leaf" { // a bound equal to the operand: the boundary case of > vs >=
					p.leaves = append(p.leaves, leaf{p.leaves[x.leaf].lit, p.leaves[x.leaf].t})
					return &expr{op: "leaf", leaf: len(p.leaves) - 1}
				}
				return p.gen(r, ct, 0)
			}
			lo := &expr{op: []string{">", ">="}[r.IntN(2)], kids: []*expr{x, bound()}}
			hi := &expr{op: []string{"<", "<="}[r.IntN(2)], kids: []*expr{x, bound()}}
			for _, b := range []*expr{lo.kids[1], hi.kids[1]} {
				if b.op == "leaf" && b.leaf < 32 {
					p.maskSet |= 1 << uint(b.leaf)
				}
			}
			if x.op == "leaf" && x.leaf < 32 {
				p.maskClear |= 1 << uint(x.leaf)
			}
			p.tracing = saveTracing
			_ = saveT
			e := &expr{op: "nary", kids: []*expr{lo, hi}, ops: []string{"", "and"}, bare: r.IntN(4) != 0}
			if r.IntN(3) == 0 {
				e.kids = append(e.kids, p.gen(r, tBool, d))
				e.ops = append(e.ops, "and")
			}
			return e
		}
	case tDate, tObj:
		if r.IntN(3) == 0 {
			return tri(t)
		}
		return p.newLeaf(r, t)
	}
	return p.gen(r, ty(r.IntN(int(tAny))), depth)
}

// print writes the expression; name(i) is the text for leaf i.
func (e *expr) print(sb *strings.Builder, name func(int) string) {
	kid := func(k *expr) {
		if k.op == "leaf" || k.op == "paren" || k.op == "call" || k.op == "traced" {
			k.print(sb, name)
		} else {
			sb.WriteString("(")
			k.print(sb, name)
			sb.WriteString(")")
		}
	}
	switch e.op {
	case "leaf":
		sb.WriteString(name(e.leaf))
	case "paren":
		sb.WriteString("(")
		e.kids[0].print(sb, name)
		sb.WriteString(")")
	case "+u", "-u":
		sb.WriteString(e.op[:1] + " ")
		kid(e.kids[0])
	case "~":
		sb.WriteString("~ ")
		kid(e.kids[0])
	case "not":
		sb.WriteString("not ")
		kid(e.kids[0])
	case "nary":
		for i, k := range e.kids {
			if i > 0 {
				sb.WriteString(" " + e.ops[i] + " ")
			}
			if e.bare && len(k.kids) == 2 && k.kids[0].op == "leaf" && k.kids[1].op == "leaf" && strings.ContainsAny(k.op, "<>") {
				k.print(sb, name) // comparisons bind tighter than and
			} else {
				kid(k)
			}
		}
	case "?:":
		kid(e.kids[0])
		sb.WriteString(" ? ")
		kid(e.kids[1])
		sb.WriteString(" : ")
		kid(e.kids[2])
	case "in", "notin":
		kid(e.kids[0])
		if e.op == "in" {
			sb.WriteString(" in (")
		} else {
			sb.WriteString(" not in (")
		}
		for i, k := range e.kids[1:] {
			if i > 0 {
				sb.WriteString(", ")
			}
			kid(k)
		}
		sb.WriteString(")")
	case "traced":
		sb.WriteString("t_(")
		e.kids[0].print(sb, name)
		sb.WriteString(")")
	case "call":
		sb.WriteString(e.fn + "(")
		e.kids[0].print(sb, name)
		sb.WriteString(")")
	default: // binary
		kid(e.kids[0])
		sb.WriteString(" " + e.op + " ")
		kid(e.kids[1])
	}
}

func (e *expr) countOps() int {
	n := 0
	if e.op != "leaf" && e.op != "paren" && e.op != "traced" {
		n = 1
		if e.op == "nary" {
			n = len(e.kids) - 1
		}
	}
	for _, k := range e.kids {
		n += k.countOps()
	}
	return n
}

// ---------------------------------------------------------------- programs (statements)

// stmt programs: the body is made of templates over expressions; every
// template appends what it observed to the result object r.
const tracePrelude = "t_ = {|x| r.Add(x); x }\n"

// exprBody is the body of a program that consists of one expression.
func exprBody(e *expr, trace bool) func(sb *strings.Builder, name func(int) string) {
	return func(sb *strings.Builder, name func(int) string) {
		if trace {
			sb.WriteString("r = Object()\n" + tracePrelude + "r.Add(")
			e.print(sb, name)
			sb.WriteString(")\nreturn r\n")
		} else {
			sb.WriteString("return ")
			e.print(sb, name)
			sb.WriteString("\n")
		}
	}
}

type sprog struct {
	prog
	body      func(sb *strings.Builder, name func(int) string)
	kind      string
	parts     []func(sb *strings.Builder, name func(int) string)
	kinds     []string
	partRoots [][]*expr
}

// bodyOf prints a program made of the given statement templates only.
func (sp *sprog) bodyOf(parts ...func(sb *strings.Builder, name func(int) string)) func(sb *strings.Builder, name func(int) string) {
	return func(sb *strings.Builder, name func(int) string) {
		sb.WriteString("r = Object()\n")
		if sp.usesTrace {
			sb.WriteString(tracePrelude)
		}
		for _, p := range parts {
			p(sb, name)
		}
		sb.WriteString("return r\n")
	}
}

func genStmtProg(r *rand.Rand, confuse int, tracing bool) *sprog {
	sp := &sprog{}
	sp.ops = map[string]bool{}
	sp.confuse, sp.tracing = confuse, tracing
	var parts []func(sb *strings.Builder, name func(int) string)
	n := 1 + r.IntN(4)
	tmp := 0
	var kinds []string
	var bounds []int
	for i := 0; i < n; i++ {
		bounds = append(bounds, len(sp.roots))
		switch r.IntN(8) {
		case 0: // plain observation
			e := sp.top(r, tAny, 2)
			parts = append(parts, func(sb *strings.Builder, name func(int) string) {
				sb.WriteString("r.Add(")
				e.print(sb, name)
				sb.WriteString(")\n")
			})
			kinds = append(kinds, "add")
		case 1: // if / else on a foldable condition
			c := sp.top(r, tBool, 2)
			a, b := sp.top(r, tAny, 1), sp.top(r, tAny, 1)
			hasElse := r.IntN(3) != 0
			parts = append(parts, func(sb *strings.Builder, name func(int) string) {
				sb.WriteString("if (")
				c.print(sb, name)
				sb.WriteString(")\n\t{ r.Add(")
				a.print(sb, name)
				sb.WriteString(") }\n")
				if hasElse {
					sb.WriteString("else\n\t{ r.Add(")
					b.print(sb, name)
					sb.WriteString(") }\n")
				}
			})
			kinds = append(kinds, "if")
		case 2: // chained single-assignment temporaries
			e1 := sp.top(r, tNum, 2)
			e2 := sp.top(r, tNum, 1)
			t1, t2 := fmt.Sprintf("t%d", tmp), fmt.Sprintf("t%d", tmp+1)
			tmp += 2
			op := []string{"+", "*", "-", "/", "$", "<", "is"}[r.IntN(7)]
			sp.ops[op] = true
			// the chain means (e1) op (e2); as an expression it is a candidate for the shrinker
			if op == "<" || op == "is" {
				sp.roots = append(sp.roots, &expr{op: op, kids: []*expr{e1, e2}})
			} else {
				sp.roots = append(sp.roots, &expr{op: "nary", kids: []*expr{e1, e2}, ops: []string{"", op}})
			}
			parts = append(parts, func(sb *strings.Builder, name func(int) string) {
				sb.WriteString(t1 + " = ")
				e1.print(sb, name)
				sb.WriteString("\n" + t2 + " = " + t1 + " " + op + " (")
				e2.print(sb, name)
				sb.WriteString(")\nr.Add(" + t2 + ")\nr.Add(" + t1 + ")\n")
			})
			kinds = append(kinds, "chain")
		case 3: // for-in range with foldable bounds
			lo, hi := sp.newSmall(r), sp.newSmall(r)
			e := sp.top(r, tNum, 1)
			iv := fmt.Sprintf("i%d", tmp)
			tmp++
			parts = append(parts, func(sb *strings.Builder, name func(int) string) {
				sb.WriteString("for " + iv + " in ")
				lo.print(sb, name)
				sb.WriteString(" .. ")
				hi.print(sb, name)
				sb.WriteString(" + 1\n\t{ r.Add(" + iv + " * (")
				e.print(sb, name)
				sb.WriteString(")) }\n")
			})
			kinds = append(kinds, "forin")
		case 4: // classic for with foldable bound
			hi := sp.newSmall(r)
			e := sp.top(r, tAny, 1)
			iv := fmt.Sprintf("i%d", tmp)
			tmp++
			parts = append(parts, func(sb *strings.Builder, name func(int) string) {
				sb.WriteString("for (" + iv + " = 0; " + iv + " < ")
				hi.print(sb, name)
				sb.WriteString(" + 1; ++" + iv + ")\n\t{ r.Add(")
				e.print(sb, name)
				sb.WriteString(") }\n")
			})
			kinds = append(kinds, "for")
		case 5: // switch
			e := sp.top(r, tAny, 1)
			c1, c2 := sp.top(r, tAny, 0), sp.top(r, tAny, 1)
			parts = append(parts, func(sb *strings.Builder, name func(int) string) {
				sb.WriteString("switch (")
				e.print(sb, name)
				sb.WriteString(") {\ncase ")
				c1.print(sb, name)
				sb.WriteString(": r.Add('c1')\ncase ")
				c2.print(sb, name)
				sb.WriteString(", 'zz': r.Add('c2')\ndefault: r.Add('d')\n}\n")
			})
			kinds = append(kinds, "switch")
		case 6: // while with a foldable guard, runs at most once
			c := sp.top(r, tBool, 2)
			e := sp.top(r, tAny, 1)
			parts = append(parts, func(sb *strings.Builder, name func(int) string) {
				sb.WriteString("while (")
				c.print(sb, name)
				sb.WriteString(")\n\t{ r.Add(")
				e.print(sb, name)
				sb.WriteString("); break }\n")
			})
			kinds = append(kinds, "while")
		default: // short circuit with an observable right hand side
			op := []string{"and", "or"}[r.IntN(2)]
			sp.ops[op] = true
			comb := &expr{op: "nary", kids: []*expr{sp.gen(r, tBool, 1), sp.gen(r, tBool, 1)}, ops: []string{"", op}}
			sp.roots = append(sp.roots, comb)
			parts = append(parts, func(sb *strings.Builder, name func(int) string) {
				sb.WriteString("r.Add(")
				comb.print(sb, name)
				sb.WriteString(")\n")
			})
			kinds = append(kinds, "shortcircuit")
		}
	}
	// sometimes one more statement: a local assigned a constant once and then used as a variable of a for-in over a
	// container (the loop assigns it, so it is not final). It has its own PRNG, derived from the shape generated so
	// far, so that the programs generated from r are what they were before this statement kind existed.
	if r2 := rand.New(rand.NewPCG(uint64(n)*1000003+uint64(tmp)*7919+uint64(len(sp.roots))*31+uint64(confuse), 0x9e3779b9)); r2.IntN(3) == 0 {
		bounds = append(bounds, len(sp.roots))
		e := sp.top(r2, tAny, r2.IntN(2))
		two := r2.IntN(3) != 0
		kv, vv := fmt.Sprintf("fk%d", tmp), fmt.Sprintf("fv%d", tmp)
		pre := vv
		if two && r2.IntN(4) == 0 {
			pre = kv
		}
		parts = append(parts, func(sb *strings.Builder, name func(int) string) {
			sb.WriteString(pre + " = ")
			e.print(sb, name)
			if two {
				sb.WriteString("\nfor " + kv + ", " + vv + " in #(30, 40, x: 'y')\n\t{ r.Add(" + kv + "); r.Add(" + vv + ") }\n")
			} else {
				sb.WriteString("\nfor " + vv + " in #(50, 60)\n\t{ r.Add(" + vv + ") }\n")
			}
			sb.WriteString("r.Add(" + pre + ")\n")
		})
		kinds = append(kinds, "forin-over-container")
	}
	sp.kind = strings.Join(kinds, "+")
	sp.parts, sp.kinds = parts, kinds
	bounds = append(bounds, len(sp.roots))
	for i := 0; i+1 < len(bounds); i++ {
		sp.partRoots = append(sp.partRoots, sp.roots[bounds[i]:bounds[i+1]])
	}
	sp.body = sp.bodyOf(parts...)
	return sp
}

func (p *prog) newSmall(r *rand.Rand) *expr {
	p.leaves = append(p.leaves, leaf{fmt.Sprint(r.IntN(4)), tInt})
	e := &expr{op: "leaf", leaf: len(p.leaves) - 1}
	p.roots = append(p.roots, e)
	return e
}

// ---------------------------------------------------------------- running

type outcome struct {
	val     Value
	err     string
	compile bool // the exception was raised by the compiler
}

func (o outcome) String() string {
	if o.err != "" {
		w := "run time"
		if o.compile {
			w = "compile time"
		}
		return "exception at " + w + ": " + o.err
	}
	if o.val == nil {
		return "<no value>"
	}
	return fmt.Sprintf("%s %s", o.val.Type(), vk.Trunc(Display(nil, o.val), 300))
}

func errText(p any) string {
	if se, ok := p.(*SuExcept); ok {
		return string(se.SuStr)
	}
	return fmt.Sprint(p)
}

var theThread = &Thread{}
var nRuns int

func run(src string, args []Value) outcome {
	nRuns++
	var fn Value
	p, _ := vk.Catch(func() { fn = compile.Constant(src) })
	if p != nil {
		return outcome{err: errText(p), compile: true}
	}
	var res Value
	th := theThread
	p, _ = vk.Catch(func() {
		if len(args) <= 4 {
			res = th.Call(fn, args...)
		} else {
			res = th.PushCall(fn, nil, &ArgSpec{Nargs: byte(len(args))}, args...)
		}
	})
	if p != nil {
		th.Reset() // the frame and value stacks are left as they were at the throw
		return outcome{err: errText(p)}
	}
	return outcome{val: res}
}

var posPat = regexp.MustCompile(`^(compile error|syntax error) @-?\d+ `)

// normErr removes the position prefix the compiler adds. The compile-time
// wordings "?: requires boolean" / "if requires boolean" and the run-time
// wording "conditionals require true or false" name the same exception.
func normErr(s string) string {
	for posPat.MatchString(s) {
		s = posPat.ReplaceAllString(s, "")
	}
	switch s {
	case "?: requires boolean", "if requires boolean":
		return "conditionals require true or false"
	}
	return s
}

func sameValue(a, b Value) bool {
	if a == nil || b == nil {
		return a == nil && b == nil
	}
	if a.Type() != b.Type() {
		return false
	}
	if !a.Equal(b) || !b.Equal(a) {
		return false
	}
	return Display(nil, a) == Display(nil, b)
}

// lastDigits reports whether two results differ only by numbers that agree to
// about 14 significant digits (used to name the class, not to excuse the difference).
func lastDigits(a, b Value) bool {
	if a == nil || b == nil {
		return false
	}
	oa, oka := a.(*SuObject)
	ob, okb := b.(*SuObject)
	if oka && okb {
		if oa.ListSize() != ob.ListSize() || oa.NamedSize() != 0 || ob.NamedSize() != 0 {
			return false
		}
		for i := 0; i < oa.ListSize(); i++ {
			x, y := oa.ListGet(i), ob.ListGet(i)
			if !sameValue(x, y) && !lastDigits(x, y) {
				return false
			}
		}
		return true
	}
	da, oka := a.ToDnum()
	db, okb := b.ToDnum()
	if !oka || !okb || a.Type().String() != "Number" || b.Type().String() != "Number" || da.IsInf() || db.IsInf() {
		return false
	}
	fa, fb := da.ToFloat(), db.ToFloat()
	m := math.Max(math.Abs(fa), math.Abs(fb))
	return math.Abs(fa-fb) <= 1e-14*m
}

// ---------------------------------------------------------------- programs and variants

type program struct {
	p     *prog
	body  func(sb *strings.Builder, name func(int) string)
	trace bool // the result is the object r whose leading members are the traced operand evaluations
	mask  uint32
	nOrig int // leaves with index >= nOrig were introduced by the shrinker and are literals in the partial variant
	vals  []Value
	only  *expr // when set, only the leaves this expression uses become parameters / locals
	force bool  // every variant starts with "zz_ = 0", which makes the compiler run its propagation pass over the whole function
	parts []func(sb *strings.Builder, name func(int) string) // statement programs: the body of every statement template on its own
}

func leavesOf(e *expr, used map[int]bool) {
	if e.op == "leaf" {
		used[e.leaf] = true
	}
	for _, k := range e.kids {
		leavesOf(k, used)
	}
}

const (
	vRun = iota
	vFolded
	vPartial
	vLocals
)

var variantNames = []string{"runtime", "folded", "partial", "locals"}

func (pg *program) isLit(variant, k int) bool {
	switch variant {
	case vFolded:
		return true
	case vPartial:
		return k >= pg.nOrig || pg.mask&(1<<uint(k)) != 0
	}
	return false
}

func (pg *program) values() []Value {
	for k := len(pg.vals); k < len(pg.p.leaves); k++ {
		pg.vals = append(pg.vals, compile.Constant(pg.p.leaves[k].lit))
	}
	return pg.vals
}

// source prints one variant; args are the values for its parameters.
func (pg *program) source(variant int) (string, []Value, []string) {
	vals := pg.values()
	var sb strings.Builder
	sb.WriteString("function (")
	var args []Value
	var argText []string
	var used map[int]bool
	if pg.only != nil {
		used = map[int]bool{}
		leavesOf(pg.only, used)
	}
	if variant != vLocals {
		for k := range pg.p.leaves {
			if used != nil && !used[k] {
				continue
			}
			if !pg.isLit(variant, k) {
				if len(args) > 0 {
					sb.WriteString(", ")
				}
				fmt.Fprintf(&sb, "p%d", k)
				args = append(args, vals[k])
				argText = append(argText, pg.p.leaves[k].lit)
			}
		}
	}
	sb.WriteString(") {\n")
	if pg.force {
		sb.WriteString("zz_ = 0\n")
	}
	if variant == vLocals {
		for k := range pg.p.leaves {
			if used == nil || used[k] {
				fmt.Fprintf(&sb, "v%d = %s\n", k, pg.p.leaves[k].lit)
			}
		}
	}
	pg.body(&sb, func(k int) string {
		switch {
		case variant == vLocals:
			return fmt.Sprintf("v%d", k)
		case pg.isLit(variant, k):
			return pg.p.leaves[k].lit
		}
		return fmt.Sprintf("p%d", k)
	})
	sb.WriteString("}")
	return sb.String(), args, argText
}

// staticCheck recognises the documented compile-time diagnostics that are stricter than run time by design.
func staticCheck(o outcome) string {
	if !o.compile {
		return ""
	}
	switch {
	case strings.Contains(o.err, "cannot do math on"): // compile/fold_test.go "compile-time errors"
		return "static_literal_check"
	case strings.Contains(o.err, "possibly uninitialized variable"):
		return "static_uninitialized_check"
	case strings.Contains(o.err, "duplicate case value"):
		return "static_duplicate_case_check"
	case strings.HasPrefix(normErr(o.err), "regex: "): // an invalid literal pattern is diagnosed when the function is compiled
		return "static_regex_check"
	}
	return ""
}

type verdict struct {
	category string // "" = agrees (or not comparable); otherwise the kind of disagreement
	static   string // a static check made the variant incomparable
	refBad   string // the reference itself did not compile
	ref, got outcome
	srcRef   string
	srcGot   string
	argText  []string
	note     string
}

// deadOperandError looks for a subexpression that throws the given error when it is evaluated on
// its own at run time (all leaves parameters).
func (pg *program) deadOperandError(want string) (string, bool) {
	var found string
	throws := func(e *expr) bool {
		sub := &program{p: &prog{leaves: pg.p.leaves}, body: exprBody(e, pg.trace), trace: pg.trace, nOrig: pg.nOrig, vals: pg.vals, force: pg.force}
		src, args, _ := sub.source(vRun)
		o := run(src, args)
		if o.err != "" && !o.compile && normErr(o.err) == want {
			var eb strings.Builder
			e.print(&eb, func(k int) string { return pg.p.leaves[k].lit })
			found = eb.String()
			return true
		}
		return false
	}
	var walk func(e *expr) bool
	walk = func(e *expr) bool {
		for _, k := range e.kids {
			if walk(k) {
				return true
			}
		}
		if e.op == "leaf" || e.op == "paren" {
			return false
		}
		if throws(e) {
			return true
		}
		if e.op == "nary" { // the folder combines the constant operands of an n-ary operator among themselves
			for i := range e.kids {
				for j := i + 1; j < len(e.kids); j++ {
					if throws(&expr{op: "nary", kids: []*expr{e.kids[i], e.kids[j]}, ops: []string{"", e.ops[j]}}) {
						return true
					}
				}
			}
		}
		return false
	}
	for _, root := range pg.p.roots {
		if walk(root) {
			return found, true
		}
	}
	// a statement that throws on its own at run time (e.g. if with a non-boolean operand)
	for _, part := range pg.parts {
		sub := &program{p: &prog{leaves: pg.p.leaves}, body: part, trace: pg.trace, nOrig: pg.nOrig, vals: pg.vals, force: pg.force}
		src, args, _ := sub.source(vRun)
		if o := run(src, args); o.err != "" && !o.compile && normErr(o.err) == want {
			var sb strings.Builder
			part(&sb, func(k int) string { return pg.p.leaves[k].lit })
			return strings.TrimSpace(sb.String()), true
		}
	}
	return "", false
}

// judge runs the reference and one variant of the program and compares them.
func (pg *program) judge(variant int, ref *outcome) verdict {
	srcR, argsR, argTextR := pg.source(vRun)
	if ref.val == nil && ref.err == "" {
		*ref = run(srcR, argsR)
	}
	v := verdict{ref: *ref, srcRef: srcR, argText: argTextR}
	if ref.compile {
		if sc := staticCheck(*ref); sc != "" { // e.g. "x in ()" is false whatever x is, and then "~ false" is rejected
			v.static = "reference_" + sc
		} else {
			v.refBad = ref.err
		}
		return v
	}
	src, args, _ := pg.source(variant)
	v.srcGot = src
	got := run(src, args)
	v.got = got
	if sc := staticCheck(got); sc != "" {
		v.static = sc
		return v
	}
	switch {
	case ref.err == "" && got.err == "":
		if sameValue(ref.val, got.val) {
			return v
		}
		if pg.trace {
			a, oka := ref.val.(*SuObject)
			b, okb := got.val.(*SuObject)
			if oka && okb && b.ListSize() < a.ListSize() {
				v.category = "operand-evaluation-dropped"
				return v
			}
			if oka && okb && b.ListSize() > a.ListSize() {
				v.category = "operand-evaluation-added"
				return v
			}
			if oka && okb && !lastDigits(ref.val, got.val) {
				// same number of entries: the same entries in another order (possibly with last-digit differences)?
				n := a.ListSize()
				used := make([]bool, n)
				inexact, all := 0, true
				for i := 0; i < n && all; i++ {
					found := -1
					for j := 0; j < n; j++ {
						if !used[j] && sameValue(a.ListGet(i), b.ListGet(j)) {
							found = j
							break
						}
					}
					if found < 0 {
						for j := 0; j < n; j++ {
							if !used[j] && lastDigits(a.ListGet(i), b.ListGet(j)) {
								found = j
								inexact++
								break
							}
						}
					}
					if found < 0 {
						all = false
					} else {
						used[found] = true
					}
				}
				if all && inexact == 0 {
					v.category = "operand-evaluation-order"
					return v
				}
				if all {
					v.category = "result-differs-in-last-digits"
					return v
				}
			}
		}
		if lastDigits(ref.val, got.val) {
			v.category = "result-differs-in-last-digits"
		} else {
			v.category = "result-differs"
		}
	case ref.err != "" && got.err != "":
		if normErr(ref.err) == normErr(got.err) {
			return v
		}
		v.category = "exception-differs"
		if sub, ok := pg.deadOperandError(normErr(got.err)); ok {
			if got.compile {
				v.category, v.note = "unevaluated-operand-error-raised-at-compile-time", sub
			} else {
				// the program contains two failing operations; regrouping changed which one is reached first
				v.category, v.note = "exception-order", sub
			}
		}
	case ref.err != "":
		v.category = "exception-lost"
	default:
		v.category = "exception-added"
		if got.compile {
			v.category = "exception-added-at-compile-time"
			if sub, ok := pg.deadOperandError(normErr(got.err)); ok {
				v.category, v.note = "unevaluated-operand-error-raised-at-compile-time", sub
			}
		}
	}
	return v
}

func rootOp(e *expr) string {
	for e.op == "paren" {
		e = e.kids[0]
	}
	switch e.op {
	case "nary":
		switch o := e.ops[1]; o {
		case "-":
			return "+"
		case "/":
			return "*"
		default:
			return o
		}
	case "call":
		return e.fn
	}
	return e.op
}

// shrink reduces a failing expression to a smaller one that still disagrees in
// the same variant: first the deepest failing subexpression, then operands are
// replaced by the literal of their run-time value while the disagreement stays.
func (pg *program) shrink(e *expr, variant int) (*expr, verdict, bool) {
	fails := func(x *expr) (verdict, bool) {
		sub := &program{p: pg.p, body: exprBody(x, pg.trace), trace: pg.trace, mask: pg.mask, nOrig: pg.nOrig, vals: pg.vals, only: x, force: pg.force}
		sub.p = &prog{leaves: pg.p.leaves, roots: []*expr{x}}
		var ref outcome
		v := sub.judge(variant, &ref)
		pg.p.leaves, pg.vals = sub.p.leaves, sub.vals
		return v, v.category != ""
	}
	var best verdict
	found := false
	var descend func(x *expr) *expr
	descend = func(x *expr) *expr {
		for _, k := range x.kids {
			if k.op == "leaf" {
				continue
			}
			if m := descend(k); m != nil {
				return m
			}
		}
		if x.op == "leaf" || x.op == "paren" || x.op == "traced" {
			return nil
		}
		if v, bad := fails(x); bad {
			best, found = v, true
			return x
		}
		return nil
	}
	m := descend(e)
	if m == nil {
		return nil, best, false
	}
	// replace non-leaf operands by value literals
	cp := *m
	cp.kids = append([]*expr(nil), m.kids...)
	m = &cp
	for i, k := range m.kids {
		if k.op == "leaf" || k.op == "traced" {
			continue
		}
		sub := &program{p: &prog{leaves: pg.p.leaves, roots: []*expr{k}}, body: exprBody(k, false), nOrig: pg.nOrig, vals: pg.vals, force: pg.force}
		if exprUsesTrace(k) {
			continue
		}
		src, args, _ := sub.source(vRun)
		o := run(src, args)
		if o.err != "" || o.val == nil {
			continue
		}
		lit := Display(nil, o.val)
		var bv Value
		if pp, _ := vk.Catch(func() { bv = compile.Constant(lit) }); pp != nil || !sameValue(bv, o.val) {
			continue
		}
		pg.p.leaves = append(pg.p.leaves, leaf{lit, tAny})
		old := m.kids[i]
		m.kids[i] = &expr{op: "leaf", leaf: len(pg.p.leaves) - 1}
		if v, bad := fails(m); bad && v.category == best.category {
			best = v
		} else {
			m.kids[i] = old
		}
	}
	return m, best, found
}

func exprUsesTrace(e *expr) bool {
	if e.op == "traced" {
		return true
	}
	for _, k := range e.kids {
		if exprUsesTrace(k) {
			return true
		}
	}
	return false
}

func TestVerifC30(t *testing.T) {
	rep := vk.NewReport("C30",
		"PRNG typed expression trees (depth <= 4, <= 10 distinct constant leaves from boundary pools of numbers, strings, booleans, dates, objects, leaves reused; every unary, binary, n-ary, ternary, in/not in operator, "+
			"foldable builtin calls, nested same-operator groups, range pairs, at most one deliberately ill-typed operand in 1/3 of the programs, operands wrapped in a tracing block in 1/2 of the programs) and small statement programs "+
			"(if/else, for, for-in, while, switch, short circuit, chained temporaries); each is run as R (all leaves parameters), F (all literals), P (PRNG subset literal), L (single-assignment locals); "+
			"non-trivial = at least 2 leaves and 1 operator; distinct by the F source text",
		"R (every leaf a parameter) is the run-time meaning: parameters are never folded or propagated",
		"'cannot do math on <type> literal', 'possibly uninitialized variable' and 'duplicate case value' are documented static checks and are not compared",
		"an exception raised while compiling a variant counts as the same exception when its text (minus the position prefix) equals the run-time text; '?: requires boolean' / 'if requires boolean' = 'conditionals require true or false'")
	defer rep.Finish()

	n := vk.N(60000, 1200000)
	for i := 0; i < n; i++ {
		r := vk.RandFor(30, i)
		confuse := 0
		if r.IntN(3) == 0 {
			confuse = 1
		}
		tracing := r.IntN(2) == 0
		pg := &program{}
		kind := "expr"
		var sp *sprog
		if r.IntN(4) == 0 {
			sp = genStmtProg(r, confuse, tracing)
			pg.p, pg.body, pg.trace = &sp.prog, sp.body, sp.usesTrace
			for _, part := range sp.parts {
				pg.parts = append(pg.parts, sp.bodyOf(part))
			}
			kind = "stmt"
			rep.Seen("stmt_kinds", sp.kind)
			rep.Count("statement_programs", 1)
		} else {
			p := &prog{ops: map[string]bool{}, confuse: confuse, tracing: tracing}
			e := p.top(r, ty(r.IntN(int(tAny))), 1+r.IntN(4))
			pg.p, pg.body, pg.trace = p, exprBody(e, p.usesTrace), p.usesTrace
		}
		if pg.trace {
			rep.Count("programs_with_traced_operands", 1)
		}
		pg.mask = r.Uint32()
		if r.IntN(2) == 0 {
			pg.mask = (pg.mask | pg.p.maskSet) &^ pg.p.maskClear
		}
		pg.force = r.IntN(2) == 0
		if pg.force {
			rep.Count("programs_with_forced_propagation_pass", 1)
		}
		pg.nOrig = len(pg.p.leaves)
		for o := range pg.p.ops {
			rep.Seen("operators", o)
		}
		srcF, _, _ := pg.source(vFolded)
		rep.Case("case %d %s", i, strings.ReplaceAll(srcF, "\n", " "))
		rep.Eval(vk.Hash64(srcF), pg.nOrig >= 2 && len(pg.p.ops) >= 1)
		var ref outcome
		for variant := vFolded; variant <= vLocals; variant++ {
			v := pg.judge(variant, &ref)
			if variant == vFolded {
				switch {
				case ref.compile:
				case ref.err != "":
					rep.Count("reference_exception", 1)
					rep.Seen("reference_exceptions", vk.Trunc(regexp.MustCompile(`[0-9]+`).ReplaceAllString(normErr(ref.err), "N"), 60))
				default:
					rep.Count("reference_value", 1)
					if ref.val != nil {
						rep.Seen("result_types", ref.val.Type().String())
					}
				}
				if rep.WantSample() && i%7 == 3 {
					rep.Sample(map[string]any{"folded": srcF, "runtime": v.srcRef, "args": v.argText, "outcome": ref.String()})
				}
			}
			if v.refBad != "" {
				rep.Violate("C30/harness-reference-does-not-compile", v.srcRef, v.refBad)
				break
			}
			if v.static != "" {
				rep.Count(v.static, 1)
				if ref.err == "" && !strings.HasPrefix(v.static, "reference_") {
					rep.Count(v.static+"_runtime_ok", 1)
				}
				if strings.HasPrefix(v.static, "reference_") {
					break
				}
				continue
			}
			rep.Count("compared_"+variantNames[variant], 1)
			switch {
			case ref.err == "" && v.got.err == "":
				rep.Count("both_value", 1)
			case ref.err != "" && v.got.err != "":
				rep.Count("both_exception", 1)
				if v.got.compile {
					rep.Count("exception_moved_to_compile_time", 1)
				}
			}
			if v.category == "" {
				continue
			}
			// reduce to the smallest disagreeing expression so that the class names the operator
			op := kind
			final := v
			shrunk := false
			wasForced := pg.force
			for attempt := 0; attempt < 2 && !shrunk; attempt++ {
				if attempt == 1 {
					if pg.force {
						break
					}
					pg.force = true // the disagreement may need the propagation pass that another statement switched on
				}
				if sp == nil {
					if m, mv, ok := pg.shrink(pg.p.roots[0], variant); ok {
						final, op, shrunk = mv, rootOp(m), true
					}
					continue
				}
				for pi := range sp.parts {
					one := &program{p: pg.p, body: sp.bodyOf(sp.parts[pi]), trace: pg.trace, mask: pg.mask, nOrig: pg.nOrig, vals: pg.vals, force: pg.force}
					var oref outcome
					ov := one.judge(variant, &oref)
					pg.vals = one.vals
					if ov.category == "" {
						continue
					}
					final, op, shrunk = ov, "stmt-"+sp.kinds[pi], true
					for _, root := range sp.partRoots[pi] {
						if m, mv, ok := pg.shrink(root, variant); ok {
							final, op = mv, rootOp(m)
							break
						}
					}
					break
				}
			}
			pg.force = wasForced
			if shrunk {
				rep.Count("violations_shrunk", 1)
			}
			detail := map[string]any{"variant": variantNames[variant], "reference_source": final.srcRef, "reference_args": final.argText, "reference_outcome": final.ref.String(),
				"variant_source": final.srcGot, "variant_outcome": final.got.String()}
			if final.note != "" {
				detail["unevaluated_operand"] = final.note
			}
			if final.srcGot != v.srcGot {
				detail["found_in"] = map[string]any{"variant_source": v.srcGot, "reference_source": v.srcRef, "reference_args": v.argText,
					"reference_outcome": v.ref.String(), "variant_outcome": v.got.String(), "category": v.category}
			}
			class := "C30/" + final.category + "/" + op
			if final.category == "unevaluated-operand-error-raised-at-compile-time" || final.category == "exception-order" {
				class = "C30/" + final.category
			}
			// the recorded folder defect (an ABSORBING constant - x or true, x and false, x * 0, x & 0, x | 0xffffffff -
			// makes the folder drop the other operands and with them their type errors) always yields the absorbing
			// constant itself; a lost exception with any other folded result is something else
			if final.category == "exception-lost" && final.got.err == "" && final.got.val != nil {
				res := final.got.val
				if ob, ok := res.(*SuObject); ok && ob.ListSize() > 0 && strings.Contains(final.srcGot, "r.Add(") {
					res = ob.ListGet(ob.ListSize() - 1) // a traced program returns the list of observed values; the expression's value is the last one
				}
				if av, ok := absorbingValue[op]; ok && !res.Equal(av) {
					class += "/result-is-not-the-absorbing-constant"
				}
			}
			key := variantNames[variant] + ": " + strings.ReplaceAll(final.srcGot, "\n", " ") + " | run-time args " + strings.Join(final.argText, ", ") +
				" | run time => " + vk.Trunc(final.ref.String(), 80) + " | " + variantNames[variant] + " => " + vk.Trunc(final.got.String(), 80)
			rep.Violate(class, key, detail)
		}
	}
	rep.Count("programs_run", nRuns)
}

var absorbingValue = map[string]Value{"or": True, "and": False, "*": Zero, "&": Zero, "|": IntVal(4294967295)}

// TestVerifC30Debug evaluates the programs listed in $C30_DEBUG (one per line:
// source ||| arg ||| arg ...; "\n" in the text stands for a newline). Development aid only.
func TestVerifC30Debug(t *testing.T) {
	fn := os.Getenv("C30_DEBUG")
	if fn == "" {
		t.Skip()
	}
	b, _ := os.ReadFile(fn)
	for _, line := range strings.Split(string(b), "\n") {
		if strings.TrimSpace(line) == "" {
			continue
		}
		parts := strings.Split(line, "|||")
		var args []Value
		for _, a := range parts[1:] {
			args = append(args, compile.Constant(strings.TrimSpace(a)))
		}
		src := strings.ReplaceAll(parts[0], `\n`, "\n")
		fmt.Printf("%s  %v\n    => %s\n", strings.TrimSpace(src), parts[1:], run(src, args))
	}
}
