// C34 Timestamps are unique and increasing.
//
// Black-box monitor over the real db19.Timestamp (with the real 1 s ticker started by
// db19.StartTimestamps), the real dbms.DbmsLocal / dbms.Server / client path and the real
// core.Thread.Timestamp client batching. The client batching state is process-global in
// gSuneido (one client process = one state), so N clients in one process are "virtual
// clients" whose state is swapped in and out through core.VerifTsSwap (accessor file,
// build tag verif). The server's next timestamp is set at the start of every phase through
// db19.VerifSetTimestamp so that the interesting milliseconds (000, 494..501, 990..999) are
// reached over and over.
//
// Oracle, over the recorded sequences only (real time is just the stimulus for the ticker and
// the client side expiry): every value handed to anyone (date + extra byte, rendered from the
// public calendar accessors, not from the internal encoding) is distinct from every other value
// handed to anyone, and the values one caller receives strictly increase.
package c34

import (
	"fmt"
	"math/rand/v2"
	"net"
	"sort"
	"sync"
	"sync/atomic"
	"testing"
	"time"

	. "github.com/apmckinlay/gsuneido/core"
	"github.com/apmckinlay/gsuneido/db19"
	"github.com/apmckinlay/gsuneido/db19/stor"
	"github.com/apmckinlay/gsuneido/dbms"
	"github.com/apmckinlay/gsuneido/options"
	vk "github.com/apmckinlay/gsuneido/util/verifkit"
)

// key orders timestamps chronologically, then by extra. It is built from the calendar
// fields so that it does not depend on SuDate's encoding or comparison.
func key(d SuDate, extra uint8) uint64 {
	k := uint64(d.Year())
	k = k*13 + uint64(d.Month())
	k = k*32 + uint64(d.Day())
	k = k*24 + uint64(d.Hour())
	k = k*60 + uint64(d.Minute())
	k = k*60 + uint64(d.Second())
	k = k*1000 + uint64(d.Millisecond())
	return k*256 + uint64(extra)
}

func keyStr(k uint64) string {
	extra := k % 256
	k /= 256
	ms := k % 1000
	k /= 1000
	s := k % 60
	k /= 60
	mi := k % 60
	k /= 60
	h := k % 24
	k /= 24
	d := k % 32
	k /= 32
	mo := k % 13
	y := k / 13
	return fmt.Sprintf("#%04d%02d%02d.%02d%02d%02d%03d+%03d", y, mo, d, h, mi, s, ms, extra)
}

// vclient is one virtual client process: its batching state and its threads
type vclient struct {
	id    int
	state VerifTsState
	wire  bool
}

type caller struct {
	name  string
	kind  string // "server" (direct db19/DbmsLocal call), "client" (batching, local dbms), "wire-client" (batching, real client-server connection)
	vc    *vclient
	th    *Thread
	seq   []uint64 // what this caller received, in order
	vals  []Value  // the same as values, for the Compare cross-check (kept for a bounded prefix)
	phase []int32  // index into seq where each phase starts
}

type monitor struct {
	mu       sync.Mutex // serializes the virtual clients (Thread.Timestamp holds core's lock for the whole call anyway)
	resident *vclient   // whose state is in core's variables now
	rep      *vk.Report
}

// timestamp is Thread.Timestamp for a thread of virtual client c
func (m *monitor) timestamp(c *caller, r *rand.Rand) Value {
	m.mu.Lock()
	defer m.mu.Unlock()
	vc := c.vc
	if m.resident != vc {
		// save what is there (including what the real tsExpire goroutine did to it), install ours
		prev := VerifTsSwap(vc.state)
		if m.resident != nil {
			m.resident.state = prev
		}
		m.resident = vc
	}
	if r.IntN(400) == 0 {
		// client side expiry for this virtual client: the statement of core.tsExpire
		// (the real goroutine only ever hits the resident state)
		st := VerifTsPeek()
		st.Count = st.Limit + 1
		VerifTsSwap(st)
		m.rep.Count("client_expiry_injected", 1)
	}
	v := c.th.Timestamp()
	if st := VerifTsPeek(); st.Count == 0 {
		m.rep.Count("client_fetches", 1)
		if st.Limit == TsInitialBatch {
			m.rep.Count("client_fetches_ms_batch", 1)
		} else {
			m.rep.Count("client_fetches_extra_batch", 1)
		}
	}
	return v
}

func TestVerifC34(t *testing.T) {
	rep := vk.NewReport("C34",
		"a case is the sequence one caller (a direct server caller, or one thread of a virtual client with its own batching state) receives in one phase; "+
			"a phase starts with the server's next timestamp set to a chosen millisecond (000, 001, 494..501, 990, 994..999, or random) and consists of 3-6 bursts of 1-600 "+
			"back-to-back requests per caller separated by pauses of 0-150 ms, with the real 1 s server ticker and client expiry running; "+
			"non-trivial = the sequence has >= 2 values; distinct by (phase, caller, first value, length)",
		"clock steps backwards are not injected (core.Now is the real clock)",
		"N clients in one process: the process-global client batching state is swapped per virtual client (core.VerifTsSwap); "+
			"client expiry of non-resident virtual clients is injected with the statement of core.tsExpire",
		"real time is used only as stimulus (ticker, pauses); the verdict is computed from the recorded values")
	defer rep.Finish()

	options.BuiltDate = "Dec 29 2020 12:34"
	db := db19.CreateDb(stor.HeapStor(8192))
	local := dbms.NewDbmsLocal(db)
	GetDbms = func() IDbms { return local }
	DbmsAuth = true
	db19.StartTimestamps() // the real start: now+990 ms, and the real ticker

	m := &monitor{rep: rep}
	nclients, nthreads, ndirect := 6, 2, 3
	// The first phases are slow (a few requests per caller and ~1 s of real time each), so that the
	// server's timestamp stays close to the wall clock and the real ticker takes effect; the later
	// phases are fast (thousands of requests per caller), which drives the server's timestamp many
	// seconds ahead of the wall clock (the ticker must then leave it alone).
	nslow, nfast := vk.N(4*9, 16*40), vk.N(4*5, 16*20)
	nphases := nslow + nfast
	if vk.Thorough() {
		nclients, nthreads, ndirect = 12, 3, 4
	}
	var callers []*caller
	for i := 0; i < ndirect; i++ {
		callers = append(callers, &caller{name: fmt.Sprintf("server-caller-%d", i), kind: "server"})
	}
	// a real client-server connection for the last virtual client(s), if loopback TCP is available
	wireSession := startWire(local, rep)
	for ci := 0; ci < nclients; ci++ {
		vc := &vclient{id: ci}
		for ti := 0; ti < nthreads; ti++ {
			c := &caller{name: fmt.Sprintf("client-%d-thread-%d", ci, ti), kind: "client", vc: vc, th: NewThread(nil)}
			if ci == nclients-1 && wireSession != nil {
				vc.wire = true
				c.kind = "wire-client"
				c.th.SetDbms(wireSession()) // each thread has its own session, like gsuneido.go does
			}
			callers = append(callers, c)
		}
	}
	rep.Count("callers", len(callers))

	startMs := []int{0, 1, 2, 494, 495, 496, 497, 498, 499, 500, 501, 502, 989, 990, 991, 994, 995, 996, 997, 998, 999}
	t0 := time.Now()
	phaseInfo := make([]string, nphases)
	for ph := 0; ph < nphases; ph++ {
		pr := vk.RandFor(3400, ph)
		// set the server's next timestamp: this second (or the next one that is still ahead of
		// everything handed out) at the chosen millisecond. Only ever forwards.
		ms := startMs[pr.IntN(len(startMs))]
		if pr.IntN(5) == 0 {
			ms = pr.IntN(1000)
		}
		cur := db19.VerifGetTimestamp()
		cand := Now().WithoutMs().Plus(0, 0, 0, 0, 0, 0, ms)
		reachable := cand.Compare(cur) > 0
		for cand.Compare(cur) <= 0 {
			cand = cand.Plus(0, 0, 0, 0, 0, 1, 0)
		}
		// slow phases only set it when the chosen millisecond of the current second is still ahead
		// (otherwise the server would run ahead of the clock and the ticker would never take effect)
		if (ph >= nslow && pr.IntN(3) != 0) || (ph < nslow && reachable) || ph == 0 {
			db19.VerifSetTimestamp(cand)
			rep.Seen("phase_start_ms", fmt.Sprintf("%03d", ms))
			phaseInfo[ph] = fmt.Sprintf("phase %d: server timestamp set to %s", ph, cand.String())
		} else {
			phaseInfo[ph] = fmt.Sprintf("phase %d: server timestamp left at %s", ph, cur.String())
		}
		if ph < nslow {
			rep.Count("slow_phases", 1)
		} else {
			rep.Count("fast_phases", 1)
		}
		rep.Case("%s", phaseInfo[ph])
		var wg sync.WaitGroup
		for ci, c := range callers {
			wg.Add(1)
			go func(ci int, c *caller) {
				defer wg.Done()
				r := vk.RandFor(uint64(3500+ci), ph)
				c.phase = append(c.phase, int32(len(c.seq)))
				slow := ph < nslow
				bursts := 3 + r.IntN(4)
				if slow {
					bursts = 6 + r.IntN(5)
				}
				for b := 0; b < bursts; b++ {
					n := 1 + r.IntN(600)
					switch r.IntN(4) {
					case 0:
						n = 1 + r.IntN(8) // around one initial batch
					case 1:
						n = 250 + r.IntN(20) // around one extra-byte batch
					}
					if slow {
						n = 1 + r.IntN(3)
						switch r.IntN(12) {
						case 0, 1:
							n = 4 + r.IntN(5) // a whole initial batch and a bit
						case 2:
							if c.kind != "server" {
								n = 250 + r.IntN(12) // a whole extra-byte batch
							}
						}
					}
					for i := 0; i < n; i++ {
						var v Value
						if c.kind == "server" {
							v = local.Timestamp()
						} else {
							v = m.timestamp(c, r)
						}
						d, extra, ok := VerifTimestampParts(v)
						if !ok {
							rep.Violate("C34/not-a-timestamp", c.name, fmt.Sprintf("%T %v", v, v))
							continue
						}
						c.seq = append(c.seq, key(d, extra))
						if len(c.vals) < 20000 {
							c.vals = append(c.vals, v)
						}
					}
					if slow {
						time.Sleep(time.Duration(30+r.IntN(120)) * time.Millisecond)
					} else if b < bursts-1 {
						time.Sleep(time.Duration(r.IntN(100)) * time.Millisecond)
					}
				}
			}(ci, c)
		}
		wg.Wait()
	}
	// ---------------------------------------------------------------- truly concurrent threads of ONE client
	// In the phases above the virtual clients are serialized by the monitor (their batching state is swapped in and
	// out of the process-global variables). Here one virtual client stays resident and its threads call
	// Thread.Timestamp at the same time, through a dbms whose replies are delayed by PRNG amounts, so that a fetch
	// by one thread can still be under way when another thread needs one (replies may arrive in any order).
	{
		m.mu.Lock()
		vc := &vclient{id: 1000}
		prev := VerifTsSwap(vc.state)
		if m.resident != nil {
			m.resident.state = prev
		}
		m.resident = vc
		nct := 4
		if vk.Thorough() {
			nct = 8
		}
		rounds := vk.N(4*30, 16*120)
		var cc []*caller
		for ti := 0; ti < nct; ti++ {
			c := &caller{name: fmt.Sprintf("client-conc-thread-%d", ti), kind: "client-concurrent", vc: vc, th: NewThread(nil)}
			c.th.SetDbms(&slowTsDbms{IDbms: local, r: vk.RandFor(3600, ti)})
			c.phase = append(c.phase, 0)
			cc = append(cc, c)
		}
		phaseInfo = append(phaseInfo, "concurrent threads of one client, delayed replies")
		for rd := 0; rd < rounds; rd++ {
			var wg sync.WaitGroup
			for ti, c := range cc {
				wg.Add(1)
				go func(ti int, c *caller) {
					defer wg.Done()
					r := vk.RandFor(uint64(3700+ti), rd)
					for i, n := 0, 1+r.IntN(12); i < n; i++ {
						v := c.th.Timestamp()
						if d, extra, ok := VerifTimestampParts(v); ok {
							c.seq = append(c.seq, key(d, extra))
						}
					}
				}(ti, c)
			}
			wg.Wait()
			if rd%3 == 0 { // make the next round start with a fetch: the statement of core.tsExpire
				st := VerifTsPeek()
				st.Count = st.Limit + 1
				VerifTsSwap(st)
			}
		}
		rep.Count("concurrent_client_rounds", rounds)
		rep.Count("concurrent_client_fetches", int(slowTsCalls.Load()))
		rep.Count("concurrent_client_overlapping_fetches", int(slowTsOverlaps.Load()))
		callers = append(callers, cc...)
		m.mu.Unlock()
	}
	rep.Count("real_seconds", int(time.Since(t0).Seconds()))

	// ---------------------------------------------------------------- verdict
	type rec struct {
		k      uint64
		caller int32
		idx    int32
	}
	total := 0
	for _, c := range callers {
		total += len(c.seq)
	}
	all := make([]rec, 0, total)
	phaseOf := func(c *caller, idx int) int {
		return sort.Search(len(c.phase), func(i int) bool { return int(c.phase[i]) > idx }) - 1
	}
	around := func(c *caller, idx int) []string {
		var out []string
		for i := max(0, idx-4); i < min(len(c.seq), idx+5); i++ {
			mark := "  "
			if i == idx {
				mark = "=>"
			}
			out = append(out, fmt.Sprintf("%s %s[%d] %s", mark, c.name, i, keyStr(c.seq[i])))
		}
		return out
	}
	for ci, c := range callers {
		rep.Count("timestamps_"+c.kind, len(c.seq))
		for i, k := range c.seq {
			all = append(all, rec{k, int32(ci), int32(i)})
			if k%256 != 0 {
				rep.Count("values_with_extra_byte", 1)
			}
			if i == 0 {
				continue
			}
			p := c.seq[i-1]
			if k <= p {
				ph := phaseOf(c, i)
				rep.Violate("C34/not-increasing/"+c.kind, fmt.Sprintf("%s: %s then %s", c.name, keyStr(p), keyStr(k)),
					map[string]any{"caller": c.name, "phase": phaseInfo[max(ph, 0)], "sequence": around(c, i)})
			}
			if k/256/1000 != p/256/1000 {
				rep.Count("second_boundaries_crossed", 1)
			}
			if i < len(c.vals) {
				// the language level order must agree with the chronological one
				if cmp := c.vals[i-1].Compare(c.vals[i]); (cmp < 0) != (p < k) || c.vals[i-1].Equal(c.vals[i]) != (p == k) {
					rep.Violate("C34/compare-disagrees-with-chronology", fmt.Sprintf("%s vs %s", keyStr(p), keyStr(k)),
						map[string]any{"compare": cmp, "equal": c.vals[i-1].Equal(c.vals[i]), "a": c.vals[i-1].String(), "b": c.vals[i].String()})
				}
			}
		}
		// evidence: one case per (phase, caller)
		for ph := range c.phase {
			from := int(c.phase[ph])
			to := len(c.seq)
			if ph+1 < len(c.phase) {
				to = int(c.phase[ph+1])
			}
			first := uint64(0)
			if to > from {
				first = c.seq[from]
			}
			rep.Eval(vk.Hash64(ph, c.name, first, to-from), to-from >= 2)
		}
	}
	sort.Slice(all, func(i, j int) bool { return all[i].k < all[j].k })
	dups := 0
	for i := 1; i < len(all); i++ {
		if all[i].k != all[i-1].k {
			continue
		}
		dups++
		a, b := callers[all[i-1].caller], callers[all[i].caller]
		kinds := []string{a.kind, b.kind}
		sort.Strings(kinds)
		who := "different-callers"
		if a == b {
			who = "same-caller"
		} else if a.vc != nil && a.vc == b.vc {
			who = "threads-of-one-client"
		}
		extra := "date"
		if all[i].k%256 != 0 {
			extra = "extra-byte"
		}
		pa, pb := phaseOf(a, int(all[i-1].idx)), phaseOf(b, int(all[i].idx))
		rep.Violate(fmt.Sprintf("C34/duplicate/%s-%s/%s/%s", kinds[0], kinds[1], who, extra),
			fmt.Sprintf("%s handed to %s and %s", keyStr(all[i].k), a.name, b.name),
			map[string]any{"value": keyStr(all[i].k), "first": around(a, int(all[i-1].idx)), "second": around(b, int(all[i].idx)),
				"phase_first": phaseInfo[max(pa, 0)], "phase_second": phaseInfo[max(pb, 0)], "seed": vk.Seed(), "shard": vk.Shard()})
	}
	rep.Count("timestamps_total", total)
	rep.Count("duplicates", dups)
	if total > 0 && rep.WantSample() {
		c := callers[len(callers)-1]
		rep.Sample(map[string]any{"caller": c.name, "first_values": around(c, 4)})
		rep.Sample(map[string]any{"caller": callers[0].name, "first_values": around(callers[0], 4)})
	}
}

// slowTsDbms delays the reply of Timestamp by a PRNG amount (0 - 300 microseconds, sometimes a few milliseconds).
type slowTsDbms struct {
	IDbms
	mu sync.Mutex
	r  *rand.Rand
}

var slowTsInflight, slowTsOverlaps, slowTsCalls atomic.Int64

// Unwrap: Thread.Dbms() unwraps the dbms; the delaying wrapper is the thing to use
func (d *slowTsDbms) Unwrap() IDbms { return d }

func (d *slowTsDbms) Timestamp() SuDate {
	slowTsCalls.Add(1)
	if slowTsInflight.Add(1) > 1 {
		slowTsOverlaps.Add(1) // another thread of the same client is fetching at the same time
	}
	defer slowTsInflight.Add(-1)
	ts := d.IDbms.Timestamp()
	d.mu.Lock()
	us := d.r.IntN(300)
	if d.r.IntN(8) == 0 {
		us = 1000 + d.r.IntN(3000)
	}
	d.mu.Unlock()
	time.Sleep(time.Duration(us) * time.Microsecond)
	return ts
}

// startWire starts the real server on a free loopback port and returns a function that makes
// a new client session (nil if that is not possible here).
func startWire(local *dbms.DbmsLocal, rep *vk.Report) (mk func() IDbms) {
	l, err := net.Listen("tcp", "127.0.0.1:0")
	if err != nil {
		return nil
	}
	// dbms.ConnectClient and dbms.Server call core.Fatal (process exit) when they cannot connect or
	// listen (e.g. the 500 ms hello deadline on an overloaded machine): then do without the wire client
	Exit = func(int) { panic("core.Fatal") }
	defer func() {
		Exit = nil
		if e := recover(); e != nil {
			mk = nil
			rep.Count("wire_connection_failed", 1)
		}
	}()
	port := fmt.Sprint(l.Addr().(*net.TCPAddr).Port)
	l.Close()
	options.Port = port
	go dbms.Server(local) // never returns
	var conn net.Conn
	for try := 0; try < 200; try++ { // wait for the listener without calling ConnectClient (it exits the process on failure)
		c, err := net.DialTimeout("tcp", "127.0.0.1:"+port, time.Second)
		if err == nil {
			c.Close()
			break
		}
		time.Sleep(10 * time.Millisecond)
		if try == 199 {
			return nil
		}
	}
	conn = dbms.ConnectClient("127.0.0.1", port)
	client := dbms.NewDbmsClient(conn)
	rep.Count("wire_connections", 1)
	return func() IDbms { return client.NewSession() }
}
