// C20 Dump, load and compact preserve the logical database.
// Black-box monitor over db19/tools: databases built by the shared history generator
// (deleted columns, empty trailing fields, records near the format size limits, foreign
// keys, views) are dumped and loaded, compacted, table-dumped and table-loaded; the logical
// fingerprint must equal the plain-Go model. Dumps written by an independent writer check
// the loader alone, and dumps with an injected duplicate key / unique value must be refused.
package c20

import (
	"fmt"
	"os"
	"path/filepath"
	"sort"
	"strings"
	"testing"
	"time"

	"github.com/apmckinlay/gsuneido/db19"
	"github.com/apmckinlay/gsuneido/db19/tools"
	vk "github.com/apmckinlay/gsuneido/util/verifkit"
	"github.com/apmckinlay/gsuneido/zzverif/dbhist"
)

func TestVerifC20(t *testing.T) {
	rep := vk.NewReport("C20",
		"a case is one database built by a PRNG history (60-140 admin requests and transactions in 2 sessions) and put through DumpDatabase+LoadDatabase, "+
			"Compact, DumpTable+LoadTable, LoadDatabase of an independently written dump, and LoadDatabase/LoadTable of dumps with an injected duplicate; "+
			"non-trivial = >= 3 tables with rows and at least one deleted column, foreign key or view; distinct by the text of the history",
		"the model follows the accept/reject outcome of the database while building; value/record packing is trusted (C13/C14)")
	defer rep.Finish()
	dbhist.Setup()
	dir := filepath.Join(vk.OutDir(), fmt.Sprintf("c20-%d", vk.Shard()))
	os.MkdirAll(dir, 0o755)
	defer os.RemoveAll(dir)
	if err := os.Chdir(dir); err != nil { // the tools create their temporary files in "."
		t.Fatal(err)
	}
	n := vk.N(160, 2000)
	only := -1
	if s := os.Getenv("VERIF_ONLY_CASE"); s != "" {
		fmt.Sscan(s, &only)
	}
	for i := 0; i < n; i++ {
		if only >= 0 && i != only {
			continue
		}
		rep.Case("database %d (seed %d shard %d)", i, vk.Seed(), vk.Shard())
		runCase(rep, i, dir)
		// clean the directory
		if ents, err := os.ReadDir(dir); err == nil {
			for _, e := range ents {
				os.Remove(filepath.Join(dir, e.Name()))
			}
		}
	}
}

// pre creates the files that system.RenameBak expects (it sleeps in retries otherwise)
func pre(paths ...string) {
	for _, p := range paths {
		os.WriteFile(p, nil, 0o644)
	}
}

type ctx struct {
	rep *vk.Report
	key string
	h   *dbhist.Hist
}

func (c *ctx) violate(class string, detail map[string]any) {
	detail["history"] = c.h.Tail(400)
	c.rep.Violate(class, c.key, detail)
}

// compareLogical opens file and compares tables, logical schemas, views and rows with the model.
func (c *ctx) compareLogical(what, file string, m *dbhist.Model, tables []string) bool {
	db, err := db19.OpenDatabase(file)
	if err != nil {
		c.violate("C20/"+what+"/result-does-not-open", map[string]any{"error": err.Error()})
		return false
	}
	var snap *dbhist.Snap
	p, _ := dbhist.Catch(func() { snap = dbhist.TakeSnap(db) })
	db.Close()
	if p != nil {
		c.violate("C20/"+what+"/result-unreadable", map[string]any{"panic": fmt.Sprint(p)})
		return false
	}
	var d []string
	add := func(kind, format string, args ...any) {
		if len(d) < 12 {
			d = append(d, kind+": "+fmt.Sprintf(format, args...))
		}
	}
	want := m.TableNames()
	if tables != nil {
		want = tables
	}
	for _, n := range want {
		t := m.Tables[n]
		st := snap.Tables[n]
		if st == nil {
			add("table-missing", "table %s missing (model: %d rows)", n, len(t.Rows))
			continue
		}
		if a, b := st.LogicalSchema(), m.LogicalSchema(t); a != b && tables == nil {
			add("schema", "table %s schema %s, model %s", n, a, b)
		}
		if slicesContain(st.Cols, "-") {
			add("deleted-column-kept", "table %s still has deleted columns %v", n, st.Cols)
		}
		got, exp := snap.Logical()[n], m.Logical()[n]
		if strings.Join(got, "\n") != strings.Join(exp, "\n") {
			add("rows", "table %s rows differ: %d rows, model %d%s", n, len(got), len(exp), firstDiff(got, exp))
		}
		if st.Nrows != len(t.Rows) {
			add("row-count", "table %s info.Nrows %d, model %d", n, st.Nrows, len(t.Rows))
		}
		for i := range st.Idx {
			if len(st.Idx[i].Recs) != len(t.Rows) {
				add("index-rows", "table %s index %s has %d rows, model %d", n, st.Idx[i].Text, len(st.Idx[i].Recs), len(t.Rows))
			}
		}
	}
	if tables == nil {
		for _, n := range snap.TableNames() {
			if m.Tables[n] == nil {
				add("table-appeared", "table %s not in model", n)
			}
		}
		for k, v := range m.Views {
			if w, ok := snap.Views[k]; !ok || w != v {
				add("view", "view %s is %q, model %q", k, w, v)
			}
		}
		for k := range snap.Views {
			if _, ok := m.Views[k]; !ok {
				add("view", "view %s not in model", k)
			}
		}
		if inv := snap.Invariants(); len(inv) > 0 {
			add("metadata", "%v", inv)
		}
	}
	if len(d) > 0 {
		c.violate("C20/"+what+"/differs/"+d[0][:strings.Index(d[0], ":")], map[string]any{"diff": d})
		return false
	}
	return true
}

func slicesContain(l []string, s string) bool {
	for _, x := range l {
		if x == s {
			return true
		}
	}
	return false
}

func firstDiff(a, b []string) string {
	for i := 0; i < len(a) && i < len(b); i++ {
		if a[i] != b[i] {
			return fmt.Sprintf("; first difference: %s vs model %s", vk.Trunc(a[i], 200), vk.Trunc(b[i], 200))
		}
	}
	return ""
}

func compositeFkWithEmptyTrailingField(m *dbhist.Model) bool {
	for _, t := range m.Tables {
		for i := range t.Idx {
			ix := &t.Idx[i]
			if ix.FkTable == "" || len(ix.FkCols) < 2 {
				continue
			}
			for _, r := range t.Rows {
				tu := t.Tuple(r, ix.Cols[:len(ix.FkCols)])
				if tu[len(tu)-1].Empty() {
					return true
				}
			}
		}
	}
	return false
}

func (c *ctx) fullCheck(what, file string, m *dbhist.Model) {
	full := !compositeFkWithEmptyTrailingField(m) // known false alarm of the full check (C04 finding)
	var err error
	p, _ := dbhist.Catch(func() { err = db19.CheckDatabase(file, full) })
	if p != nil || err != nil {
		c.violate("C20/"+what+"/result-fails-check", map[string]any{"error": fmt.Sprint(p, err), "full": full})
		return
	}
	c.rep.Count("checks_passed", 1)
}

func runCase(rep *vk.Report, idx int, dir string) {
	r := vk.RandFor(20, idx)
	src := filepath.Join(dir, "src.db")
	real, err := dbhist.CreateReal(src, time.Hour)
	if err != nil {
		rep.Violate("C20/harness/create-failed", src, err.Error())
		return
	}
	h := dbhist.NewHist(r, real)
	h.G.AvoidKnownC21 = true
	h.SyncIndexBuild = true // side-steps the known C04 finding about indexes added to unpersisted rows
	h.G.BigRecs = idx%2 == 0
	h.G.MaxRows = 30
	c := &ctx{rep: rep, key: fmt.Sprintf("seed=%d shard=%d database=%d", vk.Seed(), vk.Shard(), idx), h: h}
	nontrivial := false
	defer func() {
		rep.Eval(vk.Hash64(strings.Join(h.Log, "\n")), nontrivial)
		for k, v := range h.Counts {
			if strings.HasPrefix(k, "diverge") || strings.HasPrefix(k, "admin_go") || strings.HasPrefix(k, "txn_go") {
				rep.Count(k, v)
			}
		}
		if rep.WantSample() {
			rep.Sample(map[string]any{"database": idx, "tail": h.Tail(8)})
		}
	}()
	for s := 0; s < 2; s++ {
		h.KeepTrailing = r.IntN(2) == 0
		for st, n := 0, 30+r.IntN(40); st < n; st++ {
			w := r.IntN(100)
			switch {
			case w < 30 || len(h.M.Tables) < 3:
				h.DoAdmin(h.G.NextAdmin())
			case w < 92:
				h.DoTxn(h.G.NextTxn(6), "commit")
			default:
				h.Persist()
			}
			if h.Abandoned != "" {
				rep.Count("databases_abandoned_model_divergence", 1)
				dbhist.Catch(func() { h.Real.DB.Close() })
				return
			}
		}
		dbhist.Catch(func() { h.Real.DB.Close() })
		if s == 0 {
			r2, err := dbhist.OpenReal(src, time.Hour)
			if err != nil {
				rep.Count("build_reopen_failed", 1) // C04's business
				return
			}
			h.Real = r2
		}
	}
	m := h.M
	// what the database contains
	nRowTables, ndel, nfk := 0, 0, 0
	for _, t := range m.Tables {
		if len(t.Rows) > 0 {
			nRowTables++
		}
		for _, col := range t.Cols {
			if col == "-" {
				ndel++
			}
		}
		for i := range t.Idx {
			if t.Idx[i].FkTable != "" {
				nfk++
			}
		}
		for _, row := range t.Rows {
			if len(row) > 0 && len(row) == len(t.Cols) && row[len(row)-1].Empty() {
				rep.Count("rows_with_empty_trailing_field", 1)
			}
			for _, v := range row {
				if len(v.S) > 200 {
					rep.Count("large_values", 1)
				}
			}
		}
	}
	nontrivial = nRowTables >= 3 && (ndel > 0 || nfk > 0 || len(m.Views) > 0)
	rep.Count("tables", len(m.Tables))
	rep.Count("rows", m.NRows())
	rep.Count("deleted_columns", ndel)
	rep.Count("foreign_keys", nfk)
	rep.Count("views", len(m.Views))
	// the source must match the model before anything else (else the case says nothing about the tools)
	if !c.compareSource(src, m) {
		return
	}

	// 1. dump + load of the whole database
	dump := filepath.Join(dir, "all.su")
	loaded := filepath.Join(dir, "loaded.db")
	pre(dump, dump+".bak", loaded, loaded+".bak")
	var nt, nv int
	p, _ := dbhist.Catch(func() { nt, nv, err = tools.DumpDatabase(src, dump) })
	if p != nil || err != nil {
		c.violate("C20/dump/failed", map[string]any{"error": fmt.Sprint(p, err)})
		return
	}
	if nt != len(m.Tables) || nv != len(m.Views) {
		c.violate("C20/dump/wrong-counts", map[string]any{"tables": nt, "views": nv, "model_tables": len(m.Tables), "model_views": len(m.Views)})
	}
	p, _ = dbhist.Catch(func() { nt, nv, err = tools.LoadDatabase(dump, loaded, "", "") })
	if p != nil || err != nil {
		c.violate("C20/dump-load/load-failed", map[string]any{"error": fmt.Sprint(p, err)})
	} else {
		rep.Count("dump_load_roundtrips", 1)
		if nt != len(m.Tables) || nv != len(m.Views) {
			c.violate("C20/dump-load/wrong-counts", map[string]any{"tables": nt, "views": nv, "model_tables": len(m.Tables), "model_views": len(m.Views)})
		}
		if c.compareLogical("dump-load", loaded, m, nil) {
			c.fullCheck("dump-load", loaded, m)
			// a second dump of the loaded database is byte-identical (dump is canonical)
			dump2 := filepath.Join(dir, "all2.su")
			pre(dump2, dump2+".bak")
			if _, _, err := tools.DumpDatabase(loaded, dump2); err == nil {
				a, _ := os.ReadFile(dump)
				b, _ := os.ReadFile(dump2)
				if string(a) != string(b) {
					rep.Count("second_dump_differs_bytewise", 1) // informational: not demanded by the property
				}
			}
		}
	}

	// 2. compact (on a copy)
	comp := filepath.Join(dir, "comp.db")
	b, _ := os.ReadFile(src)
	os.WriteFile(comp, b, 0o644)
	pre(comp + ".bak")
	p, _ = dbhist.Catch(func() { nt, nv, _, _, err = tools.Compact(comp) })
	if p != nil || err != nil {
		c.violate("C20/compact/failed", map[string]any{"error": fmt.Sprint(p, err)})
	} else {
		rep.Count("compacts", 1)
		if nt != len(m.Tables) || nv != len(m.Views) {
			c.violate("C20/compact/wrong-counts", map[string]any{"tables": nt, "views": nv, "model_tables": len(m.Tables), "model_views": len(m.Views)})
		}
		if c.compareLogical("compact", comp, m, nil) {
			c.fullCheck("compact", comp, m)
		}
	}

	// 3. single table dump + load into a new database, for tables without foreign keys
	names := m.TableNames()
	r.Shuffle(len(names), func(i, j int) { names[i], names[j] = names[j], names[i] })
	done := 0
	for _, n := range names {
		t := m.Tables[n]
		hasFk := false
		for i := range t.Idx {
			hasFk = hasFk || t.Idx[i].FkTable != ""
		}
		tsu := filepath.Join(dir, n+".su")
		pre(tsu, tsu+".bak")
		var nr int
		p, _ = dbhist.Catch(func() { nr, err = tools.DumpTable(src, n, tsu) })
		if p != nil || err != nil {
			c.violate("C20/dump-table/failed", map[string]any{"table": n, "error": fmt.Sprint(p, err)})
			continue
		}
		if nr != len(t.Rows) {
			c.violate("C20/dump-table/wrong-count", map[string]any{"table": n, "count": nr, "model": len(t.Rows)})
		}
		tdb := filepath.Join(dir, "tbl-"+n+".db")
		os.Remove(tdb)
		p, _ = dbhist.Catch(func() { nr, err = tools.LoadTable(n, tdb) })
		if hasFk {
			rep.Count("table_loads_with_foreign_keys_refused", b2i(err != nil || p != nil))
			continue
		}
		if p != nil || err != nil {
			c.violate("C20/load-table/failed", map[string]any{"table": n, "error": fmt.Sprint(p, err)})
			continue
		}
		rep.Count("table_roundtrips", 1)
		if nr != len(t.Rows) {
			c.violate("C20/load-table/wrong-count", map[string]any{"table": n, "count": nr, "model": len(t.Rows)})
		}
		// the target of foreign keys keeps no FkToHere in a database of its own: compare rows and columns only
		c.compareLogical("load-table", tdb, m, []string{n})
		if done++; done >= 2 {
			break
		}
	}

	// 4. the loader alone: a dump written by the independent writer
	mine := filepath.Join(dir, "mine.su")
	mdb := filepath.Join(dir, "mine.db")
	pre(mdb, mdb+".bak")
	if err := dbhist.WriteDump(m, mine); err != nil {
		rep.Violate("C20/harness/write-dump-failed", c.key, err.Error())
		return
	}
	p, _ = dbhist.Catch(func() { _, _, err = tools.LoadDatabase(mine, mdb, "", "") })
	if p != nil || err != nil {
		c.violate("C20/load-of-model-dump/failed", map[string]any{"error": fmt.Sprint(p, err)})
	} else {
		rep.Count("model_dump_loads", 1)
		c.compareLogical("load-of-model-dump", mdb, m, nil)
	}

	// 5. duplicates must be refused
	for _, kind := range []string{"key", "unique"} {
		m2, table, cols, ok := dbhist.InjectDuplicate(m, kind, r.IntN)
		if !ok {
			continue
		}
		bad := filepath.Join(dir, "dup-"+kind+".su")
		bdb := filepath.Join(dir, "dup-"+kind+".db")
		pre(bdb, bdb+".bak")
		dbhist.WriteDump(m2, bad)
		p, _ = dbhist.Catch(func() { _, _, err = tools.LoadDatabase(bad, bdb, "", "") })
		rep.Count("duplicate_"+kind+"_database_loads", 1)
		if p == nil && err == nil {
			c.violate("C20/load-accepts-duplicate-"+kind, map[string]any{"table": table, "columns": cols, "how": "LoadDatabase"})
		}
		// and as a single table (only tables without foreign keys can be loaded alone)
		t := m2.Tables[table]
		hasFk := false
		for i := range t.Idx {
			hasFk = hasFk || t.Idx[i].FkTable != ""
		}
		if !hasFk {
			os.Remove(filepath.Join(dir, table+".su.bak"))
			dbhist.WriteTableDump(t, filepath.Join(dir, table+".su"))
			tdb := filepath.Join(dir, "duptbl-"+kind+".db")
			os.Remove(tdb)
			p, _ = dbhist.Catch(func() { _, err = tools.LoadTable(table, tdb) })
			rep.Count("duplicate_"+kind+"_table_loads", 1)
			if p == nil && err == nil {
				c.violate("C20/load-accepts-duplicate-"+kind, map[string]any{"table": table, "columns": cols, "how": "LoadTable"})
			}
		}
	}
}

func b2i(b bool) int {
	if b {
		return 1
	}
	return 0
}

// compareSource: the source database equals the model physically (as in C04).
func (c *ctx) compareSource(src string, m *dbhist.Model) bool {
	db, err := db19.OpenDatabase(src)
	if err != nil {
		c.rep.Count("source_does_not_open", 1)
		return false
	}
	snap := dbhist.TakeSnap(db)
	db.Close()
	if d := snap.DiffModel(m); len(d) > 0 {
		sort.Strings(d)
		c.rep.Count("source_differs_from_model", 1)
		c.rep.Seen("source_differs", vk.Trunc(d[0], 300))
		return false
	}
	return true
}
