// C27 Decimal numbers are correct to their precision.
//
// Black-box monitor over util/dnum (Add, Sub, Mul, Div, Compare, String, FromStr)
// with an exact oracle: values are integers scaled by powers of ten (math/big),
// so sums, products and the error of a quotient are computed exactly.
package c27

import (
	"fmt"
	"math/big"
	"math/rand/v2"
	"strconv"
	"strings"
	"testing"

	"github.com/apmckinlay/gsuneido/util/dnum"
	vk "github.com/apmckinlay/gsuneido/util/verifkit"
)

// ---------------------------------------------------------------- exact decimals

// dec is m * 10^k exactly.
type dec struct {
	m *big.Int
	k int
}

var pow10cache [700]*big.Int

func p10(n int) *big.Int {
	if n < 0 {
		panic("p10 negative")
	}
	if n < len(pow10cache) {
		if pow10cache[n] == nil {
			pow10cache[n] = new(big.Int).Exp(big.NewInt(10), big.NewInt(int64(n)), nil)
		}
		return pow10cache[n]
	}
	return new(big.Int).Exp(big.NewInt(10), big.NewInt(int64(n)), nil)
}

func (d dec) isZero() bool { return d.m.Sign() == 0 }

// scaled returns m at scale k2 <= d.k
func (d dec) scaled(k2 int) *big.Int {
	if k2 == d.k {
		return d.m
	}
	return new(big.Int).Mul(d.m, p10(d.k-k2))
}

func minInt(a, b int) int {
	if a < b {
		return a
	}
	return b
}

func decAdd(a, b dec) dec {
	k := minInt(a.k, b.k)
	return dec{new(big.Int).Add(a.scaled(k), b.scaled(k)), k}
}

func decSub(a, b dec) dec {
	k := minInt(a.k, b.k)
	return dec{new(big.Int).Sub(a.scaled(k), b.scaled(k)), k}
}

func decMul(a, b dec) dec { return dec{new(big.Int).Mul(a.m, b.m), a.k + b.k} }

func decAbs(a dec) dec { return dec{new(big.Int).Abs(a.m), a.k} }

func decCmp(a, b dec) int {
	k := minInt(a.k, b.k)
	return a.scaled(k).Cmp(b.scaled(k))
}

// exp10 returns E with 10^(E-1) <= |d| < 10^E (d != 0)
func (d dec) exp10() int {
	return len(new(big.Int).Abs(d.m).String()) + d.k
}

func pow10dec(e int) dec { return dec{big.NewInt(1), e} }

func (d dec) String() string {
	if d.isZero() {
		return "0"
	}
	return d.m.String() + "e" + strconv.Itoa(d.k)
}

// ---------------------------------------------------------------- reading a Dnum

// kind: 0 finite (incl zero), +1 +inf, -1 -inf
type val struct {
	inf int
	d   dec
}

// valueOf reads a Dnum through its accessors: sign * coef * 10^(exp-16)
func valueOf(x dnum.Dnum) val {
	if x.IsInf() {
		if x.Sign() > 0 {
			return val{inf: 1}
		}
		return val{inf: -1}
	}
	if x.IsZero() {
		return val{d: dec{new(big.Int), 0}}
	}
	m := new(big.Int).SetUint64(x.Coef())
	if x.Sign() < 0 {
		m.Neg(m)
	}
	return val{d: dec{m, x.Exp() - 16}}
}

func wellFormed(x dnum.Dnum) string {
	if x.IsInf() || x.IsZero() {
		return ""
	}
	if c := x.Coef(); c < 1000_0000_0000_0000 || c > 9999_9999_9999_9999 {
		return fmt.Sprintf("coefficient %d not normalised", c)
	}
	if s := x.Sign(); s != 1 && s != -1 {
		return fmt.Sprintf("sign %d", s)
	}
	return ""
}

// show prints a Dnum from its fields (not through String, which is under test)
func show(x dnum.Dnum) string {
	switch {
	case x.IsInf() && x.Sign() > 0:
		return "inf"
	case x.IsInf():
		return "-inf"
	case x.IsZero():
		return "0"
	}
	s := ""
	if x.Sign() < 0 {
		s = "-"
	}
	return fmt.Sprintf("%s.%016de%d", s, x.Coef(), x.Exp())
}

// range of finite non-zero Dnums: 10^-129 <= |x| <= (10^16-1) * 10^111
const (
	minE = -128 // smallest exp10 of a finite number (0.1e-128)
	maxE = 127
)

// ---------------------------------------------------------------- generators

type operand struct {
	x    dnum.Dnum
	text string // how it was made
}

var coefShapes = []string{"9999999999999999", "1", "1000000000000001", "4999999999999999", "5", "5000000000000001", "9", "99999999",
	"1234567890123456", "3333333333333333", "6666666666666667", "1999999999999999", "9999999999999998", "10000001", "7"}

func genCoefDigits(r *rand.Rand) string {
	switch r.IntN(6) {
	case 0:
		return coefShapes[r.IntN(len(coefShapes))]
	case 5: // around binary boundaries (the division works on 32 bit halves of the 64 bit coefficient)
		for {
			var v int64
			if r.IntN(2) == 0 {
				v = int64(1)<<(20+r.IntN(34)) + int64(r.IntN(7)) - 3
			} else {
				v = (int64(1)<<32)*int64(1+r.IntN(1<<21)) + int64(r.IntN(7)) - 3
			}
			if v >= 1 && v <= 9999999999999999 {
				return strconv.FormatInt(v, 10)
			}
		}
	case 1: // few digits
		return strconv.Itoa(1 + r.IntN(9999))
	case 2: // nines and zeros
		n := 1 + r.IntN(16)
		b := make([]byte, n)
		for i := range b {
			b[i] = "09"[r.IntN(2)]
		}
		b[0] = '9'
		if r.IntN(2) == 0 {
			b[n-1] = byte('1' + r.IntN(9))
		}
		return string(b)
	default:
		n := 1 + r.IntN(16)
		b := make([]byte, n)
		for i := range b {
			b[i] = byte('0' + r.IntN(10))
		}
		if b[0] == '0' {
			b[0] = byte('1' + r.IntN(9))
		}
		return string(b)
	}
}

func genE(r *rand.Rand) int {
	switch r.IntN(6) {
	case 0:
		return minE + r.IntN(6)
	case 1:
		return maxE - r.IntN(6)
	case 2:
		return r.IntN(256) - 128
	case 3:
		return []int{-65, -64, -63, 63, 64, 65}[r.IntN(6)]
	default:
		return r.IntN(40) - 20
	}
}

// mk builds the Dnum sign * 0.digits * 10^e through the text parser or the normalising constructor
func mk(r *rand.Rand, sign int, digits string, e int) operand {
	s := ""
	if sign < 0 {
		s = "-"
	}
	if r.IntN(2) == 0 {
		text := s + "." + digits + "e" + strconv.Itoa(e)
		return operand{dnum.FromStr(text), text}
	}
	c, _ := strconv.ParseUint(digits, 10, 64)
	ex := e - len(digits) + 16
	return operand{dnum.New(int8(sign), c, ex), fmt.Sprintf("New(%d,%d,%d)", sign, c, ex)}
}

func clampE(e int) int {
	if e < minE {
		return minE
	}
	if e > maxE {
		return maxE
	}
	return e
}

func genOperand(r *rand.Rand) operand {
	return mk(r, 1-2*r.IntN(2), genCoefDigits(r), genE(r))
}

// genPair makes operand pairs that stress alignment, cancellation, carries and the exponent range
func genPair(r *rand.Rand) (operand, operand) {
	x := genOperand(r)
	xd := strings.TrimRight(strconv.FormatUint(x.x.Coef(), 10), "0")
	xe := x.x.Exp()
	if x.x.IsZero() || x.x.IsInf() {
		return x, genOperand(r)
	}
	sgn := 1 - 2*r.IntN(2)
	switch r.IntN(10) {
	case 0: // same exponent, coefficient off by a little: cancellation
		c := x.x.Coef()
		delta := uint64(1 + r.IntN(3))
		if r.IntN(3) == 0 {
			delta = uint64(1 + r.IntN(100000))
		}
		if c > 1000_0000_0000_0000+delta && r.IntN(2) == 0 {
			c -= delta
		} else if c+delta <= 9999_9999_9999_9999 {
			c += delta
		}
		return x, operand{dnum.New(int8(sgn), c, xe), fmt.Sprintf("New(%d,%d,%d)", sgn, c, xe)}
	case 1: // the same magnitude
		return x, mk(r, sgn, xd, xe)
	case 2, 3: // exponent distance 0..18: alignment and the "too small to matter" boundary
		return x, mk(r, sgn, genCoefDigits(r), clampE(xe-r.IntN(19)))
	case 4: // product / quotient near the top or the bottom of the exponent range
		t := []int{maxE, maxE + 1, maxE + 2, maxE - 1, minE, minE - 1, minE + 1, minE - 2, minE + 2}[r.IntN(9)]
		if r.IntN(2) == 0 {
			return x, mk(r, sgn, genCoefDigits(r), clampE(t-xe)) // for mul: e sums to t
		}
		return x, mk(r, sgn, genCoefDigits(r), clampE(xe-t)) // for div: e difference is t
	case 5: // both near the same end of the range
		if xe < 0 {
			return x, mk(r, sgn, genCoefDigits(r), minE+r.IntN(8))
		}
		return x, mk(r, sgn, genCoefDigits(r), maxE-r.IntN(8))
	}
	return x, genOperand(r)
}

// ---------------------------------------------------------------- the check

func TestVerifC27(t *testing.T) {
	rep := vk.NewReport("C27",
		"operand pairs of finite decimals (1-16 digit coefficients in hostile shapes: all nines, 1, 10..01, 49..9, 50..01, PRNG; exponents over the whole -128..127 range, "+
			"biased to both ends and to 0), made through FromStr or the normalising constructor; pairs biased to equal exponents with nearly equal coefficients (cancellation), "+
			"equal magnitudes, exponent distances 0..18 (alignment), exponent sums/differences at the ends of the range (overflow/underflow); "+
			"a case = one operation on one pair, or one text round trip; non-trivial = both operands non-zero (arithmetic) / operands differ (compare); distinct by (op, x, y)",
		"math/big integer arithmetic is exact; a Dnum is read through Sign/Coef/Exp as sign*coef*10^(exp-16)",
		"add/sub tolerance: one unit in the 16th digit of the larger operand, or of the exact result when the result has a larger exponent (carry)",
		"results within one unit of the overflow/underflow thresholds may be finite or inf/zero")
	defer rep.Finish()
	reported := map[string]bool{}
	violate := func(class, key string, detail any) {
		if id := class + "|" + key; !reported[id] {
			reported[id] = true
			rep.Violate(class, key, detail)
		} else {
			rep.Count("violations_repeated", 1)
		}
	}
	minFinite := pow10dec(minE - 1) // 0.1e-128

	// judge compares a result with the exact value `exact` (or, for a quotient, the exact value num/den)
	// tolE: the decimal exponent whose 16th digit is the tolerance unit.
	judge := func(op string, x, y operand, got dnum.Dnum, exact *dec, num, den *dec, tolE int) {
		key := fmt.Sprintf("%s %s ; %s", op, show(x.x), show(y.x))
		detail := func(extra string) map[string]any {
			m := map[string]any{"x": x.text, "y": y.text, "got": show(got), "why": extra}
			if exact != nil {
				m["exact"] = exact.String()
			} else {
				m["exact"] = num.String() + " / " + den.String()
			}
			return m
		}
		if w := wellFormed(got); w != "" {
			violate("C27/malformed-result/"+op, key, detail(w))
			return
		}
		g := valueOf(got)
		tol := pow10dec(tolE - 16)
		// distance |got - exact| <= tol, computed exactly:
		// for a quotient: |got*den - num| <= tol*|den|
		within := func(gd dec) bool {
			if exact != nil {
				return decCmp(decAbs(decSub(gd, *exact)), tol) <= 0
			}
			lhs := decAbs(decSub(decMul(gd, *den), *num))
			return decCmp(lhs, decMul(tol, decAbs(*den))) <= 0
		}
		// magnitude classification of the exact value against the representable range
		absCmp := func(limit dec) int { // |exact| ? limit
			if exact != nil {
				return decCmp(decAbs(*exact), limit)
			}
			return decCmp(decAbs(*num), decMul(limit, decAbs(*den)))
		}
		exactSign := 0
		if exact != nil {
			exactSign = exact.m.Sign()
		} else {
			exactSign = num.m.Sign() * den.m.Sign()
		}
		exactE := -100000 // decimal exponent of the exact value
		if exactSign != 0 {
			if exact != nil {
				exactE = exact.exp10()
			} else {
				exactE = tolE // for a quotient the caller computed it
			}
		}
		switch {
		case g.inf == 0 && within(g.d):
			// correct to one unit
			switch {
			case exactSign == 0:
				rep.Count("results_exact_zero", 1)
			case absCmp(pow10dec(maxE)) >= 0:
				rep.Count("results_at_overflow_threshold", 1)
			case absCmp(minFinite) < 0:
				rep.Count("results_underflow", 1)
			default:
				rep.Count("results_in_range", 1)
				if g.d.isZero() {
					rep.Count("results_cancel_to_zero_within_unit", 1)
				}
			}
			if exact != nil && decCmp(g.d, *exact) == 0 {
				rep.Count("results_exact", 1)
			}
		case g.inf != 0:
			// infinite result: the exact magnitude must reach the largest finite number (to within one unit)
			if g.inf == exactSign && absCmp(decSub(pow10dec(maxE), pow10dec(maxE-16))) >= 0 {
				rep.Count("results_overflow", 1)
			} else if g.inf != exactSign && absCmp(pow10dec(maxE)) >= 0 {
				violate("C27/overflow-wrong-sign/"+op, key, detail("exact magnitude >= 1e127"))
			} else {
				violate("C27/finite-result-infinite/"+op, key, detail("exact result is representable"))
			}
		case g.d.isZero():
			// zero result (and not within one unit): the exact magnitude must be below the smallest number (to within one unit)
			if absCmp(decAdd(minFinite, pow10dec(minE-16))) <= 0 {
				rep.Count("results_underflow", 1)
			} else {
				cl := "C27/premature-underflow/" + op
				if exactE <= minE+1 {
					// the exact result lies in the two lowest decades of the range
					cl += "/result-exponent-at-bottom-of-range"
				}
				violate(cl, key, detail("exact result is representable (magnitude >= 1e-129) but the result is zero"))
			}
		case absCmp(pow10dec(maxE)) >= 0:
			violate("C27/overflow-not-infinite/"+op, key, detail("exact magnitude >= 1e127"))
		case absCmp(minFinite) < 0:
			cl := "C27/underflow-not-zero/" + op
			if g.d.exp10() > minE+20 {
				cl = "C27/underflow-wraps-to-large-number/" + op
			}
			violate(cl, key, detail("exact magnitude < 1e-129"))
		default:
			cl := "C27/imprecise/" + op
			if g.d.m.Sign() != exactSign {
				cl = "C27/wrong-sign/" + op
			} else if d := g.d.exp10() - exactE; d > 3 || d < -3 {
				cl = "C27/wrong-magnitude/" + op
			}
			violate(cl, key, detail(fmt.Sprintf("differs by more than one unit in the 16th digit (unit 1e%d)", tolE-16)))
		}
	}

	maxInt := func(a ...int) int {
		m := a[0]
		for _, v := range a[1:] {
			if v > m {
				m = v
			}
		}
		return m
	}

	checkPair := func(x, y operand) {
		for _, o := range []operand{x, y} {
			if w := wellFormed(o.x); w != "" {
				violate("C27/malformed-operand", o.text, w)
				return
			}
		}
		vx, vy := valueOf(x.x), valueOf(y.x)
		hx, hy := show(x.x), show(y.x)
		// comparison: exact order, including zero and infinities
		{
			want := 0
			switch {
			case vx.inf != 0 || vy.inf != 0:
				want = cmpInt(vx.inf, vy.inf)
			default:
				want = decCmp(vx.d, vy.d)
			}
			rep.Eval(vk.Hash64("cmp", hx, hy), want != 0)
			rep.Count("compares", 1)
			c1, c2 := dnum.Compare(x.x, y.x), dnum.Compare(y.x, x.x)
			if cmpInt(c1, 0) != want || cmpInt(c2, 0) != -want {
				violate("C27/compare-wrong", "cmp "+hx+" ; "+hy, map[string]any{"Compare(x,y)": c1, "Compare(y,x)": c2, "exact": want})
			}
			if dnum.Equal(x.x, y.x) != (want == 0) {
				violate("C27/equal-wrong", "eq "+hx+" ; "+hy, map[string]any{"Equal": dnum.Equal(x.x, y.x), "exact_order": want})
			}
		}
		if vx.inf != 0 || vy.inf != 0 {
			return // arithmetic on infinite operands is not part of the statement
		}
		nontriv := !vx.d.isZero() && !vy.d.isZero()
		rep.Case("ops %s ; %s", hx, hy)
		// add / sub
		for _, op := range []string{"add", "sub"} {
			var got dnum.Dnum
			var exact dec
			p, _ := vk.Catch(func() {
				if op == "add" {
					got = dnum.Add(x.x, y.x)
					exact = decAdd(vx.d, vy.d)
				} else {
					got = dnum.Sub(x.x, y.x)
					exact = decSub(vx.d, vy.d)
				}
			})
			rep.Eval(vk.Hash64(op, hx, hy), nontriv)
			rep.Count("ops_"+op, 1)
			if p != nil {
				violate("C27/panic/"+op, op+" "+hx+" ; "+hy, fmt.Sprint(p))
				continue
			}
			tolE := -1000
			if !vx.d.isZero() {
				tolE = maxInt(tolE, vx.d.exp10())
			}
			if !vy.d.isZero() {
				tolE = maxInt(tolE, vy.d.exp10())
			}
			if !exact.isZero() {
				tolE = maxInt(tolE, exact.exp10())
				if exact.exp10() < maxInt(vx.d.exp10(), vy.d.exp10())-3 {
					rep.Count("cancellations", 1)
				}
			}
			judge(op, x, y, got, &exact, nil, nil, tolE)
		}
		// mul
		{
			var got dnum.Dnum
			p, _ := vk.Catch(func() { got = dnum.Mul(x.x, y.x) })
			exact := decMul(vx.d, vy.d)
			rep.Eval(vk.Hash64("mul", hx, hy), nontriv)
			rep.Count("ops_mul", 1)
			if p != nil {
				violate("C27/panic/mul", "mul "+hx+" ; "+hy, fmt.Sprint(p))
			} else {
				tolE := 0
				if !exact.isZero() {
					tolE = exact.exp10()
				}
				judge("mul", x, y, got, &exact, nil, nil, tolE)
			}
		}
		// div (division by zero is not part of the statement)
		if !vy.d.isZero() {
			var got dnum.Dnum
			p, _ := vk.Catch(func() { got = dnum.Div(x.x, y.x) })
			rep.Eval(vk.Hash64("div", hx, hy), nontriv)
			rep.Count("ops_div", 1)
			if p != nil {
				violate("C27/panic/div", "div "+hx+" ; "+hy, fmt.Sprint(p))
			} else {
				tolE := 0
				if !vx.d.isZero() {
					// exponent of the exact quotient: Ex-Ey (+1 if the mantissa of x >= mantissa of y)
					ex, ey := vx.d.exp10(), vy.d.exp10()
					tolE = ex - ey
					mx := dec{new(big.Int).Abs(vx.d.m), vx.d.k - ex}
					my := dec{new(big.Int).Abs(vy.d.m), vy.d.k - ey}
					if decCmp(mx, my) >= 0 {
						tolE++
					}
				}
				judge("div", x, y, got, nil, &vx.d, &vy.d, tolE)
			}
		}
	}

	checkText := func(x operand) {
		hx := show(x.x)
		rep.Eval(vk.Hash64("text", hx), !x.x.IsZero())
		rep.Count("text_roundtrips", 1)
		var s string
		var back dnum.Dnum
		p, _ := vk.Catch(func() { s = x.x.String(); back = dnum.FromStr(s) })
		if p != nil {
			violate("C27/text-roundtrip-panic", hx, map[string]any{"text": s, "panic": fmt.Sprint(p)})
			return
		}
		rep.Seen("text_forms", textForm(s))
		if !dnum.Equal(back, x.x) || back != x.x {
			cl := "C27/text-roundtrip-differs"
			if !x.x.IsInf() && !x.x.IsZero() && x.x.Exp() == -128 {
				cl += "/exponent-minus-128" // the lowest exponent
			}
			violate(cl, hx, map[string]any{"text": s, "back": show(back)})
		}
	}

	// construction: FromStr / New of a 1-16 digit decimal gives exactly that decimal
	checkMake := func(r *rand.Rand) operand {
		sign := 1 - 2*r.IntN(2)
		digits := genCoefDigits(r)
		e := genE(r)
		o := mk(r, sign, digits, e)
		m, _ := new(big.Int).SetString(digits, 10)
		if sign < 0 {
			m.Neg(m)
		}
		want := dec{m, e - len(digits)}
		rep.Count("constructions", 1)
		if w := wellFormed(o.x); w != "" {
			violate("C27/malformed-operand", o.text, w)
		} else if v := valueOf(o.x); v.inf != 0 || decCmp(v.d, want) != 0 {
			violate("C27/construction-wrong", o.text, map[string]any{"got": show(o.x), "want": want.String()})
		}
		return o
	}

	specials := []operand{{dnum.Zero, "Zero"}, {dnum.One, "One"}, {dnum.NegOne, "NegOne"}, {dnum.PosInf, "PosInf"}, {dnum.NegInf, "NegInf"},
		{dnum.FromStr(".1e-128"), ".1e-128"}, {dnum.FromStr("-.1e-128"), "-.1e-128"}, {dnum.FromStr(".9999999999999999e127"), ".9999999999999999e127"},
		{dnum.FromStr("-.9999999999999999e127"), "-.9999999999999999e127"}, {dnum.FromStr(".1000000000000001e-128"), ".1000000000000001e-128"}}
	if vk.Shard() == 0 {
		for _, a := range specials {
			checkText(a)
			for _, b := range specials {
				checkPair(a, b)
			}
		}
	}

	n := vk.N(300000, 30000000)
	for i := 0; i < n; i++ {
		r := vk.RandFor(2701, i)
		var x, y operand
		switch r.IntN(20) {
		case 0:
			x, y = specials[r.IntN(len(specials))], genOperand(r)
		case 1:
			x, y = genOperand(r), specials[r.IntN(len(specials))]
		case 2:
			x, y = checkMake(r), checkMake(r)
		default:
			x, y = genPair(r)
			if r.IntN(2) == 0 {
				x, y = y, x
			}
		}
		if i < 4 && vk.Shard() == 0 {
			rep.Sample(map[string]any{"x": x.text, "y": y.text, "add": dnum.Add(x.x, y.x).String(), "mul": dnum.Mul(x.x, y.x).String(), "div": dnum.Div(x.x, y.x).String()})
		}
		checkPair(x, y)
		checkText(x)
		if i%4 == 0 {
			// results of operations are numbers too: their text round trip
			for _, z := range []dnum.Dnum{dnum.Add(x.x, y.x), dnum.Mul(x.x, y.x), dnum.Div(x.x, y.x)} {
				if wellFormed(z) == "" {
					checkText(operand{z, "result"})
				}
			}
		}
	}
	rep.Count("pairs", n)
}

func cmpInt(a, b int) int {
	switch {
	case a < b:
		return -1
	case a > b:
		return 1
	}
	return 0
}

// textForm classifies the shape of a number's text (which branch of String produced it)
func textForm(s string) string {
	s = strings.TrimPrefix(s, "-")
	switch {
	case s == "0" || s == "inf":
		return s
	case strings.Contains(s, "e"):
		return "scientific"
	case strings.HasPrefix(s, "."):
		return "leading-point"
	case strings.Contains(s, "."):
		return "point-inside"
	}
	return "integer"
}
