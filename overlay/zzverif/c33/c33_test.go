// C33 Date arithmetic follows the Gregorian calendar.
//
// Black-box monitor over core.SuDate (Plus, MinusDays, MinusMs, Compare,
// String/DateFromLiteral). The oracle is an independent proleptic Gregorian
// day-number implementation (days-from-civil / civil-from-days), which is itself
// cross-checked at start-up against a day-by-day calendar walk; Go's time
// package (through which the implementation normalises) is not used.
package c33

import (
	"fmt"
	"math/rand/v2"
	"os"
	"testing"
	"time"
	_ "time/tzdata"

	. "github.com/apmckinlay/gsuneido/core"
	vk "github.com/apmckinlay/gsuneido/util/verifkit"
)

// ---------------------------------------------------------------- independent calendar

func floorDiv(a, b int64) int64 {
	q := a / b
	if (a%b != 0) && ((a < 0) != (b < 0)) {
		q--
	}
	return q
}

func floorMod(a, b int64) int64 { return a - floorDiv(a, b)*b }

// daysFromCivil: days since 1970-01-01 of the proleptic Gregorian date y-m-d (m 1..12, d may be any int)
func daysFromCivil(y, m, d int64) int64 {
	if m <= 2 {
		y--
	}
	era := floorDiv(y, 400)
	yoe := y - era*400                 // [0, 399]
	mp := (m + 9) % 12                 // March = 0
	doy := (153*mp+2)/5 + d - 1        // [0, 365] for valid d
	doe := yoe*365 + yoe/4 - yoe/100 + doy // [0, 146096]
	return era*146097 + doe - 719468
}

func civilFromDays(z int64) (y, m, d int64) {
	z += 719468
	era := floorDiv(z, 146097)
	doe := z - era*146097
	yoe := (doe - doe/1460 + doe/36524 - doe/146096) / 365
	y = yoe + era*400
	doy := doe - (365*yoe + yoe/4 - yoe/100)
	mp := (5*doy + 2) / 153
	d = doy - (153*mp+2)/5 + 1
	if mp < 10 {
		m = mp + 3
	} else {
		m = mp - 9
	}
	if m <= 2 {
		y++
	}
	return
}

func isLeap(y int64) bool { return y%4 == 0 && (y%100 != 0 || y%400 == 0) }

func daysIn(y, m int64) int64 {
	switch m {
	case 2:
		if isLeap(y) {
			return 29
		}
		return 28
	case 4, 6, 9, 11:
		return 30
	}
	return 31
}

// selfTest walks the calendar day by day from 1600-01-01 to 3100-01-01 with nothing but
// isLeap/daysIn and checks both conversion functions against the walk.
func selfTest() string {
	y, m, d := int64(1600), int64(1), int64(1)
	n := daysFromCivil(1600, 1, 1)
	if n != -135140 { // 1600-01-01 is 135140 days before 1970-01-01 (370 years, 90 leap days)
		return fmt.Sprintf("daysFromCivil(1600,1,1) = %d", n)
	}
	for y < 3100 {
		if got := daysFromCivil(y, m, d); got != n {
			return fmt.Sprintf("daysFromCivil(%d,%d,%d) = %d want %d", y, m, d, got, n)
		}
		if cy, cm, cd := civilFromDays(n); cy != y || cm != m || cd != d {
			return fmt.Sprintf("civilFromDays(%d) = %d-%d-%d want %d-%d-%d", n, cy, cm, cd, y, m, d)
		}
		n++
		d++
		if d > daysIn(y, m) {
			d = 1
			m++
			if m > 12 {
				m = 1
				y++
			}
		}
	}
	return ""
}

// mdate is a civil date-time: year month day hour minute second millisecond
type mdate [7]int64

const msPerDay = 86400000

func (d mdate) dayNumber() int64 { return daysFromCivil(d[0], d[1], d[2]) }
func (d mdate) msOfDay() int64   { return ((d[3]*60+d[4])*60+d[5])*1000 + d[6] }
func (d mdate) absMs() int64     { return d.dayNumber()*msPerDay + d.msOfDay() }

func (d mdate) String() string {
	return fmt.Sprintf("%04d-%02d-%02d %02d:%02d:%02d.%03d", d[0], d[1], d[2], d[3], d[4], d[5], d[6])
}

// inRange: the supported range of the property, 1700-01-01 .. 3000-01-01 00:00 inclusive
func (d mdate) inRange() bool {
	if d[0] == 3000 {
		return d[1] == 1 && d[2] == 1 && d.msOfDay() == 0
	}
	return d[0] >= 1700 && d[0] < 3000
}

// modelPlus: add the offsets field by field, then normalise the overflowed fields
// (months into years; then days and the time of day as a linear count).
func modelPlus(d mdate, off [7]int64) mdate {
	y := d[0] + off[0]
	mon0 := d[1] + off[1] - 1
	y += floorDiv(mon0, 12)
	m := floorMod(mon0, 12) + 1
	days := daysFromCivil(y, m, 1) + (d[2] + off[2] - 1)
	ms := (((d[3]+off[3])*60+(d[4]+off[4]))*60+(d[5]+off[5]))*1000 + (d[6] + off[6])
	days += floorDiv(ms, msPerDay)
	ms = floorMod(ms, msPerDay)
	ry, rm, rd := civilFromDays(days)
	return mdate{ry, rm, rd, ms / 3600000, ms / 60000 % 60, ms / 1000 % 60, ms % 1000}
}

func toSu(d mdate) SuDate {
	return NewDate(int(d[0]), int(d[1]), int(d[2]), int(d[3]), int(d[4]), int(d[5]), int(d[6]))
}

func fromSu(d SuDate) mdate {
	return mdate{int64(d.Year()), int64(d.Month()), int64(d.Day()), int64(d.Hour()), int64(d.Minute()), int64(d.Second()), int64(d.Millisecond())}
}

// ---------------------------------------------------------------- generators

var specialYears = []int64{1700, 1701, 1799, 1800, 1899, 1900, 1901, 1969, 1970, 1999, 2000, 2001, 2023, 2024, 2038, 2099, 2100, 2101, 2399, 2400, 2401, 2800, 2900, 2998, 2999}

func genDate(r *rand.Rand) mdate {
	var d mdate
	if r.IntN(3) == 0 {
		d[0] = specialYears[r.IntN(len(specialYears))]
	} else {
		d[0] = 1700 + int64(r.IntN(1300))
	}
	switch r.IntN(6) {
	case 0:
		d[1], d[2] = 2, daysIn(d[0], 2) // Feb 28/29
	case 1:
		d[1], d[2] = 2, 28
	case 2:
		d[1] = 1 + int64(r.IntN(12))
		d[2] = daysIn(d[0], d[1]) // month end
	case 3:
		d[1], d[2] = []int64{1, 3, 12}[r.IntN(3)], 1
		if d[1] == 12 {
			d[2] = 31
		}
	default:
		d[1] = 1 + int64(r.IntN(12))
		d[2] = 1 + int64(r.IntN(int(daysIn(d[0], d[1]))))
	}
	switch r.IntN(5) {
	case 0:
	case 1:
		d[3], d[4], d[5], d[6] = 23, 59, 59, 999
	case 2:
		d[3], d[4] = int64(r.IntN(24)), int64(r.IntN(60))
	default:
		d[3], d[4], d[5], d[6] = int64(r.IntN(24)), int64(r.IntN(60)), int64(r.IntN(60)), int64(r.IntN(1000))
	}
	return d
}

var unitName = []string{"years", "months", "days", "hours", "minutes", "seconds", "milliseconds"}

// how many of each unit span the whole supported range (1300 years)
var unitSpan = []int64{1300, 15600, 474816, 11395584, 683735040, 41024102400, 41024102400000}

var unitEdges = [][]int64{
	{1, 4, 100, 400, 1299},
	{1, 11, 12, 13, 24, 1200},
	{1, 27, 28, 29, 30, 31, 59, 60, 365, 366, 1461, 36524, 146097},
	{1, 23, 24, 25, 48, 8760},
	{1, 59, 60, 61, 1439, 1440, 1441},
	{1, 59, 60, 61, 3599, 3600, 86399, 86400, 86401},
	{1, 999, 1000, 1001, 59999, 60000, 86399999, 86400000, 86400001, 9223372036853, 9223372036854, 9223372036855, 9223372036856, 18446744073709, 18446744073710},
}

func genOffset(r *rand.Rand, unit int) int64 {
	var v int64
	switch r.IntN(4) {
	case 0:
		v = int64(r.IntN(41))
	case 1:
		e := unitEdges[unit]
		v = e[r.IntN(len(e))]
	case 2:
		v = r.Int64N(unitSpan[unit] + 1)
	default:
		v = r.Int64N(unitSpan[unit]/100 + 2)
	}
	if r.IntN(2) == 0 {
		v = -v
	}
	return v
}

// genOffsets returns offsets whose model result stays in the supported range
func genOffsets(r *rand.Rand, d mdate) ([7]int64, mdate, bool) {
	for try := 0; try < 20; try++ {
		var off [7]int64
		if r.IntN(10) < 7 {
			u := r.IntN(7)
			off[u] = genOffset(r, u)
		} else {
			for k := 2 + r.IntN(3); k > 0; k-- {
				u := r.IntN(7)
				off[u] = genOffset(r, u)
			}
		}
		for flip := 0; flip < 2; flip++ {
			if res := modelPlus(d, off); res.inRange() {
				return off, res, true
			}
			for i := range off {
				off[i] = -off[i]
			}
		}
	}
	return [7]int64{}, d, false
}

func offString(off [7]int64) string {
	s := ""
	for i, v := range off {
		if v != 0 {
			s += fmt.Sprintf(" %s:%d", unitName[i], v)
		}
	}
	if s == "" {
		return " nothing"
	}
	return s
}

// Classification helpers for the time-zone phase (Go's time package is used here only to say WHY a
// failure happened, never to decide whether something is a failure).

// midnightMissing: the local zone has no 00:00 on that civil day (a daylight saving jump at midnight)
func midnightMissing(d mdate) bool {
	t := time.Date(int(d[0]), time.Month(d[1]), int(d[2]), 0, 0, 0, 0, time.Local)
	return t.Day() != int(d[2]) || t.Hour() != 0
}

// localInstantDiff: difference (ms) of the instants that the two civil date-times denote in the local zone;
// it differs from the civil difference when the two lie in different daylight saving periods
func localInstantDiff(a, b mdate) int64 {
	at := func(d mdate) int64 {
		return time.Date(int(d[0]), time.Month(d[1]), int(d[2]), int(d[3]), int(d[4]), int(d[5]), int(d[6])*1000000, time.Local).UnixMilli()
	}
	return at(a) - at(b)
}

// ---------------------------------------------------------------- the check

func TestVerifC33(t *testing.T) {
	rep := vk.NewReport("C33",
		"base dates 1700-2999 biased to month ends, Feb 28/29, Jan 1/Dec 31, century and leap years, midnight and 23:59:59.999; offsets of one unit (70%) or 2-4 units, "+
			"from small values, unit edges (12/13 months, 28-31/365/366/146097 days, 24 h, 60 min, 86400 s, 1000/86400000 ms, the int64-nanosecond limit) to the whole 1300 year span, "+
			"always keeping the exact result inside 1700-01-01..3000-01-01; a case = one Plus with its MinusDays/MinusMs/Compare/literal follow-ups; "+
			"non-trivial = some offset is non-zero; distinct by (date, offsets)",
		"the oracle is an independent days-from-civil/civil-from-days implementation, cross-checked at start-up against a day-by-day walk of 1600..3100",
		"the process time zone is UTC unless the case is in the time-zone phase")
	defer rep.Finish()
	reported := map[string]bool{}
	violate := func(class, key string, detail any) {
		if id := class + "|" + key; !reported[id] {
			if len(reported) < 100000 {
				reported[id] = true
			}
			rep.Violate(class, key, detail)
		} else {
			rep.Count("violations_repeated", 1)
		}
	}
	if msg := selfTest(); msg != "" {
		t.Fatal("oracle self test failed: " + msg) // machinery failure, not a property violation
	}
	rep.Count("oracle_selftest_days", int(daysFromCivil(3100, 1, 1)-daysFromCivil(1600, 1, 1)))

	zone := "UTC"
	checkCase := func(r *rand.Rand, i int) {
		d := genDate(r)
		sd := toSu(d)
		key := d.String()
		if sd == NilDate {
			cl := "C33/valid-date-rejected"
			if zone != "UTC" && midnightMissing(d) {
				cl += "/midnight-missing-in-local-zone"
			}
			violate(cl, key+" zone "+zone, "NewDate returned NilDate")
			return
		}
		if got := fromSu(sd); got != d {
			violate("C33/fields-differ", key, got.String())
			return
		}
		off, want, ok := genOffsets(r, d)
		if !ok {
			rep.Count("no_offset_found", 1)
			return
		}
		nontriv := off != [7]int64{}
		key += " plus" + offString(off)
		rep.Case("%s", key)
		rep.Eval(vk.Hash64(key), nontriv)
		nunits := 0
		for u, v := range off {
			if v != 0 {
				nunits++
				rep.Count("plus_"+unitName[u], 1)
			}
		}
		if nunits > 1 {
			rep.Count("plus_combined", 1)
		}
		if want[0] != d[0] {
			rep.Count("plus_crossing_year", 1)
		}
		if isLeap(want[0]) && want[1] == 2 && want[2] == 29 {
			rep.Count("results_feb29", 1)
		}
		var res SuDate
		p, _ := vk.Catch(func() {
			res = sd.Plus(int(off[0]), int(off[1]), int(off[2]), int(off[3]), int(off[4]), int(off[5]), int(off[6]))
		})
		sub := ""
		if tot := d[6] + off[6]; tot > 9223372036854 || tot < -9223372036854 {
			sub = "/milliseconds-beyond-int64-nanoseconds" // |ms| * 1e6 does not fit int64
			rep.Count("plus_ms_beyond_int64_ns", 1)
		}
		if p != nil {
			if sub == "" && zone != "UTC" && midnightMissing(want) {
				sub = "/midnight-of-result-missing-in-local-zone"
			}
			violate("C33/plus-panics"+sub, key+" zone "+zone, map[string]any{"panic": fmt.Sprint(p), "want": want.String()})
			return
		}
		if got := fromSu(res); got != want {
			cl := "C33/plus-wrong"
			if nunits == 1 {
				for u, v := range off {
					if v != 0 {
						cl += "/" + unitName[u]
					}
				}
			} else {
				cl += "/combined"
			}
			if sub != "" {
				cl = "C33/plus-wrong" + sub
			}
			violate(cl, key, map[string]any{"got": got.String(), "want": want.String(), "zone": zone})
			return
		}
		rep.Count("plus_results_checked", 1)
		// day and millisecond differences are consistent with the addition (and with the calendar)
		wantDays := want.dayNumber() - d.dayNumber()
		wantMs := want.absMs() - d.absMs()
		var gd1, gd2 int
		var gm1, gm2 int64
		p, _ = vk.Catch(func() {
			gd1, gd2 = res.MinusDays(sd), sd.MinusDays(res)
			gm1, gm2 = res.MinusMs(sd), sd.MinusMs(res)
		})
		if p != nil {
			violate("C33/minus-panics", key, fmt.Sprint(p))
			return
		}
		rep.Count("minus_days_checked", 2)
		rep.Count("minus_ms_checked", 2)
		if int64(gd1) != wantDays || int64(gd2) != -wantDays {
			violate("C33/minusdays-wrong", key, map[string]any{"a.MinusDays(b)": gd1, "b.MinusDays(a)": gd2, "want": wantDays, "a": want.String(), "b": d.String()})
		}
		if gm1 != wantMs || gm2 != -wantMs {
			cl := "C33/minusms-wrong"
			if zone != "UTC" && gm1 == localInstantDiff(want, d) && gm2 == -gm1 {
				cl += "/off-by-local-zone-offset-change" // the two dates lie in different daylight saving periods
			}
			violate(cl, key+" zone "+zone, map[string]any{"a.MinusMs(b)": gm1, "b.MinusMs(a)": gm2, "want": wantMs, "a": want.String(), "b": d.String()})
		}
		// pure day offsets: the result is that many days later at the same time of day
		if nunits == 1 && off[2] != 0 && (wantDays != off[2] || want.msOfDay() != d.msOfDay()) {
			t.Fatalf("oracle inconsistency: %s", key)
		}
		// order is chronological
		wantCmp := 0
		switch {
		case wantMs > 0:
			wantCmp = 1
		case wantMs < 0:
			wantCmp = -1
		}
		rep.Count("compares_checked", 1)
		if c1, c2 := res.Compare(sd), sd.Compare(res); sgn(c1) != wantCmp || sgn(c2) != -wantCmp || res.Equal(sd) != (wantCmp == 0) {
			violate("C33/order-not-chronological", key, map[string]any{"a.Compare(b)": c1, "b.Compare(a)": c2, "a.Equal(b)": res.Equal(sd), "want": wantCmp, "a": want.String(), "b": d.String()})
		}
		// the literal text parses back to the same date
		for _, x := range []SuDate{sd, res} {
			s := x.String()
			rep.Count("literal_roundtrips", 1)
			back := DateFromLiteral(s)
			if bd, ok := back.(SuDate); !ok || bd != x || !x.Equal(back) {
				violate("C33/literal-roundtrip-differs", fromSu(x).String(), map[string]any{"text": s, "back": fmt.Sprint(back)})
			}
		}
		if i%5 == 0 { // a timestamp of the same instant
			extra := 1 + r.IntN(255)
			lit := fmt.Sprintf("#%04d%02d%02d.%02d%02d%02d%03d%03d", d[0], d[1], d[2], d[3], d[4], d[5], d[6], extra)
			ts := DateFromLiteral(lit)
			rep.Count("timestamp_roundtrips", 1)
			if _, ok := ts.(SuTimestamp); !ok || ts.String() != lit || !ts.Equal(DateFromLiteral(ts.String())) {
				violate("C33/literal-roundtrip-differs/timestamp", lit, fmt.Sprint(ts))
			} else if ts.Compare(sd) <= 0 || sd.Compare(ts) >= 0 {
				violate("C33/order-not-chronological/timestamp-vs-date", lit, nil)
			}
		}
		if rep.WantSample() && vk.Shard() == 0 {
			rep.Sample(map[string]any{"date": d.String(), "plus": offString(off), "result": fromSu(res).String(), "minusdays": gd1, "minusms": gm1})
		}
	}

	// 1. exhaustive small part: every day of the range +-1 day / +1 month / +1 year (sharded by year)
	for y := int64(1700 + vk.Shard()); y < 3000; y += int64(vk.NShards()) {
		if !vk.Thorough() && (y-1700)%13 != int64(vk.Seed()%13) && y%100 != 0 && y%100 != 99 && y != 2999 && y != 1700 {
			continue // quick: a seed dependent 1/13 of the years plus the century borders
		}
		for m := int64(1); m <= 12; m++ {
			for dd := int64(1); dd <= daysIn(y, m); dd++ {
				d := mdate{y, m, dd, 0, 0, 0, 0}
				sd := toSu(d)
				if sd == NilDate {
					violate("C33/valid-date-rejected", d.String()+" zone "+zone, nil)
					continue
				}
				for _, off := range [][7]int64{{0, 0, 1}, {0, 0, -1}, {0, 1}, {1}, {0, 0, 0, 24}, {0, 0, 0, 0, 0, 0, -1}} {
					want := modelPlus(d, off)
					if !want.inRange() {
						continue
					}
					rep.Eval(vk.Hash64("walk", d.String(), offString(off)), true)
					var res SuDate
					p, _ := vk.Catch(func() {
						res = sd.Plus(int(off[0]), int(off[1]), int(off[2]), int(off[3]), int(off[4]), int(off[5]), int(off[6]))
					})
					if p != nil {
						violate("C33/plus-panics", d.String()+" plus"+offString(off), fmt.Sprint(p))
					} else if got := fromSu(res); got != want {
						violate("C33/plus-wrong/calendar-walk", d.String()+" plus"+offString(off), map[string]any{"got": got.String(), "want": want.String()})
					} else if int64(res.MinusDays(sd)) != want.dayNumber()-d.dayNumber() {
						violate("C33/minusdays-wrong", d.String()+" plus"+offString(off), res.MinusDays(sd))
					}
					rep.Count("calendar_walk_cases", 1)
				}
			}
		}
	}
	// 2. generated cases (UTC)
	n := vk.N(600000, 12000000)
	for i := 0; i < n; i++ {
		checkCase(vk.RandFor(3301, i), i)
	}
	rep.Count("generated_cases", n)

	// 3. the same with the process in time zones that have daylight saving (dates are documented as
	// zone-less local values; MinusMs and date validation go through the local zone)
	if os.Getenv("VERIF_C33_NOZONES") == "" {
		saved := time.Local
		for zi, zn := range []string{"America/New_York", "Europe/London", "America/Havana", "Australia/Lord_Howe"} {
			loc, err := time.LoadLocation(zn)
			if err != nil {
				rep.Count("zones_unavailable", 1)
				continue
			}
			time.Local = loc
			zone = zn
			m := vk.N(60000, 1000000)
			for i := 0; i < m; i++ {
				checkCase(vk.RandFor(uint64(3310+zi), i), i)
			}
			rep.Count("zone_cases", m)
			rep.Seen("zones", zn)
		}
		time.Local = saved
		zone = "UTC"
	}
}

func sgn(n int) int {
	switch {
	case n < 0:
		return -1
	case n > 0:
		return 1
	}
	return 0
}
