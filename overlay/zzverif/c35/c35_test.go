// C35 Record rules always reflect current field values.
//
// Black-box monitor: random histories of sets, gets, deletes, copies, explicit
// invalidations and observer (de)registrations on SuRecord values whose rule
// fields are pure functions of other fields (chains, diamonds, conditional reads,
// reads through helper functions). The value oracle recomputes every rule field
// from the model's current plain field values on every get. The observer oracle
// checks, after every operation, the notifications that were delivered:
//   - required: the changed field and every rule field that currently holds a
//     valid cached value whose last evaluation (transitively) read the field;
//   - allowed: the field and every rule field that ever read it (gSuneido keeps
//     dependencies it has seen; an invalidation caused by one is legitimate);
//   - each at most once per observer, observers in registration order, never on
//     another record (copies are independent), delivered before the operation returns.
package c35

import (
	"fmt"
	"math/rand/v2"
	"runtime"
	"sort"
	"strconv"
	"strings"
	"testing"

	"github.com/apmckinlay/gsuneido/builtin"
	"github.com/apmckinlay/gsuneido/compile"
	. "github.com/apmckinlay/gsuneido/core"
	"github.com/apmckinlay/gsuneido/core/types"
	vk "github.com/apmckinlay/gsuneido/util/verifkit"
)

func init() {
	builtin.DefDef()
}

// ------------------------------------------------------------------ values

type val struct {
	isInt bool
	n     int
	s     string
}

func (v val) str() string {
	if v.isInt {
		return strconv.Itoa(v.n)
	}
	return v.s
}

func (v val) String() string {
	if v.isInt {
		return strconv.Itoa(v.n)
	}
	return strconv.Quote(v.s)
}

func (v val) real() Value {
	if v.isInt {
		return IntVal(v.n)
	}
	return SuStr(v.s)
}

func sameVal(x Value, w val) bool {
	if x == nil {
		return false
	}
	if w.isInt {
		if x.Type() != types.Number {
			return false
		}
		i, ok := x.ToInt()
		return ok && i == w.n
	}
	if x.Type() != types.String {
		return false
	}
	s, ok := x.ToStr()
	return ok && s == w.s
}

func show(v Value) string {
	if v == nil {
		return "nil"
	}
	s := ""
	if p, _ := vk.Catch(func() { s = v.String() }); p != nil {
		return fmt.Sprint("<unprintable: ", p, ">")
	}
	return fmt.Sprintf("%s %s", v.Type(), vk.Trunc(s, 400))
}

// ------------------------------------------------------------------ rules

const (
	rkConcat = iota // "name(" $ .s1 $ "," $ .s2 ... $ ")"
	rkCond          // .sel is 1 ? "name<" $ .a $ ">" : "name[" $ .b $ "]"
	rkHelper        // reads through a helper function called by the rule
	rkLoop          // reads this[f] in a loop over a constant list
	nRuleKinds
)

type ruleDef struct {
	name     string
	kind     int
	srcs     []string
	attached bool // record.AttachRule, otherwise the global Rule_<name>
	src      string
	fn       Value
}

func (rd *ruleDef) source() string {
	switch rd.kind {
	case rkConcat:
		var sb strings.Builder
		sb.WriteString("function () { \"" + rd.name + "(\"")
		for i, s := range rd.srcs {
			if i > 0 {
				sb.WriteString(" $ \",\"")
			}
			sb.WriteString(" $ ." + s)
		}
		sb.WriteString(" $ \")\" }")
		return sb.String()
	case rkCond:
		return fmt.Sprintf("function () { if .%s is 1 { return %q $ .%s $ \">\" }; return %q $ .%s $ \"]\" }",
			rd.srcs[0], rd.name+"<", rd.srcs[1], rd.name+"[", rd.srcs[2])
	case rkHelper:
		var sb strings.Builder
		sb.WriteString("function () { g = function (r, k) { return r[k] }; \"" + rd.name + "{\"")
		for _, s := range rd.srcs {
			sb.WriteString(" $ g(this, #" + s + ") $ \";\"")
		}
		sb.WriteString(" $ \"}\" }")
		return sb.String()
	default:
		return fmt.Sprintf("function () { s = %q; for f in #(%s) { s $= this[f] $ \"/\" }; return s }",
			rd.name+":", strings.Join(rd.srcs, ", "))
	}
}

var plainFields = []string{"a", "b", "c", "d", "sel"}

const nRules = 6

func ruleName(i int) string { return "r" + strconv.Itoa(i) }

// ------------------------------------------------------------------ model of one record

type observer struct {
	id      int
	reading bool
	real    Value
}

type rec struct {
	id     int
	real   *SuRecord
	plain  map[string]val
	cached map[string]bool // rule field has a stored value
	flag   map[string]bool // field is marked invalid
	reads  map[string][]string
	ever   map[string]map[string]bool
	obs    []observer
	ro     bool
	// roStale: on a read-only record the rule field had a stored but invalid value when it
	// was read: the new value cannot be stored, the old one stays (see the known finding)
	roStale map[string]bool
}

func (m *rec) valid(f string) bool { return m.cached[f] && !m.flag[f] }

type hist struct {
	rep     *vk.Report
	r       *rand.Rand
	th      *Thread
	idx     int
	rules   map[string]*ruleDef
	hasCond bool
	pool    []*rec
	log     *SuObject
	nextID  int
	trace   []string
	failed  bool
	stats   struct{ recomputes, notifs, chainNotifs, copies, puts, staleChecks int }
}

func (h *hist) key() string {
	return fmt.Sprintf("seed=%d shard=%d/%d case=%d op=%d", vk.Seed(), vk.Shard(), vk.NShards(), h.idx, len(h.trace))
}

func (h *hist) ruleSummary() []string {
	var l []string
	for i := 0; i < nRules; i++ {
		rd := h.rules[ruleName(i)]
		how := "Rule_" + rd.name
		if rd.attached {
			how = "AttachRule"
		}
		l = append(l, how+": "+rd.src)
	}
	return l
}

func (h *hist) violate(class string, detail map[string]any) {
	h.failed = true
	t := h.trace
	if len(t) > 130 {
		t = t[len(t)-130:]
	}
	detail["history_tail"] = t
	detail["rules"] = h.ruleSummary()
	last := ""
	if len(h.trace) > 0 {
		last = h.trace[len(h.trace)-1]
	}
	h.rep.Violate(class, h.key()+" "+last, detail)
}

// compute: the value the field has according to the current plain field values
func (h *hist) compute(m *rec, f string) val {
	rd := h.rules[f]
	if rd == nil {
		if v, ok := m.plain[f]; ok {
			return v
		}
		return val{}
	}
	g := func(s string) string { return h.compute(m, s).str() }
	switch rd.kind {
	case rkConcat:
		parts := make([]string, len(rd.srcs))
		for i, s := range rd.srcs {
			parts[i] = g(s)
		}
		return val{s: rd.name + "(" + strings.Join(parts, ",") + ")"}
	case rkCond:
		if sel := h.compute(m, rd.srcs[0]); sel.isInt && sel.n == 1 {
			return val{s: rd.name + "<" + g(rd.srcs[1]) + ">"}
		}
		return val{s: rd.name + "[" + g(rd.srcs[2]) + "]"}
	case rkHelper:
		s := rd.name + "{"
		for _, x := range rd.srcs {
			s += g(x) + ";"
		}
		return val{s: s + "}"}
	default:
		s := rd.name + ":"
		for _, x := range rd.srcs {
			s += g(x) + "/"
		}
		return val{s: s}
	}
}

// directReads: the fields an evaluation of the rule reads right now
func (h *hist) directReads(m *rec, rd *ruleDef) []string {
	if rd.kind == rkCond {
		if sel := h.compute(m, rd.srcs[0]); sel.isInt && sel.n == 1 {
			return []string{rd.srcs[0], rd.srcs[1]}
		}
		return []string{rd.srcs[0], rd.srcs[2]}
	}
	return rd.srcs
}

// get: the model of reading field f (a read clears its invalid mark; a rule field
// without a valid stored value is evaluated, which reads its sources)
func (h *hist) get(m *rec, f string) val {
	rd := h.rules[f]
	if rd == nil {
		delete(m.flag, f)
		return h.compute(m, f)
	}
	if !m.valid(f) {
		h.stats.recomputes++
		if m.ro && m.cached[f] && m.flag[f] {
			if m.roStale == nil {
				m.roStale = map[string]bool{}
			}
			m.roStale[f] = true
		}
		delete(m.flag, f)
		reads := h.directReads(m, rd)
		for _, s := range reads {
			h.get(m, s)
		}
		m.reads[f] = reads
		if m.ever[f] == nil {
			m.ever[f] = map[string]bool{}
		}
		for _, s := range reads {
			m.ever[f][s] = true
		}
		if !m.ro {
			m.cached[f] = true
			delete(m.roStale, f) // recomputed and stored
		}
	}
	return h.compute(m, f)
}

// roStaleAffects: f is, or ever read, a field in the roStale situation
func (h *hist) roStaleAffects(m *rec, f string) bool {
	if m.roStale[f] {
		return true
	}
	for g := range m.roStale {
		if h.dependsEver(m, f, g, map[string]bool{}) {
			return true
		}
	}
	return false
}

// valueMismatch reports a get that did not return the current value
func (h *hist) valueMismatch(m *rec, f string, res Value, want val, wasValid bool) {
	detail := map[string]any{"record": m.id, "field": f, "got": show(res), "want": want.String(),
		"had_valid_cached_value": wasValid, "plain_fields": fmt.Sprint(m.plain), "readonly": m.ro}
	switch {
	case h.rules[f] == nil:
		h.violate("C35/plain-field-value-wrong", detail)
	case h.roStaleAffects(m, f):
		// specific class (known finding); the history goes on
		t := h.trace
		if len(t) > 130 {
			t = t[len(t)-130:]
		}
		detail["history_tail"] = t
		detail["rules"] = h.ruleSummary()
		detail["stale_fields"] = setStr(m.roStale)
		h.rep.Count("readonly_stale_rule_values", 1)
		h.rep.Violate("C35/readonly-record-returns-stale-stored-rule-value", h.key()+" "+h.trace[len(h.trace)-1], detail)
	default:
		h.violate("C35/rule-value-not-current", detail)
	}
}

// dependsNow: does valid rule field g (transitively) rest on f through the last evaluations
func (h *hist) dependsNow(m *rec, g, f string, seen map[string]bool) bool {
	if seen[g] {
		return false
	}
	seen[g] = true
	for _, s := range m.reads[g] {
		if s == f {
			return true
		}
		if h.rules[s] != nil && h.dependsNow(m, s, f, seen) {
			return true
		}
	}
	return false
}

func (h *hist) dependsEver(m *rec, g, f string, seen map[string]bool) bool {
	if seen[g] {
		return false
	}
	seen[g] = true
	for s := range m.ever[g] {
		if s == f {
			return true
		}
		if h.rules[s] != nil && h.dependsEver(m, s, f, seen) {
			return true
		}
	}
	return false
}

// requiredDependents: valid rule fields whose last evaluation transitively read f
func (h *hist) requiredDependents(m *rec, f string) map[string]bool {
	req := map[string]bool{}
	for g := range h.rules {
		if g != f && m.valid(g) && h.dependsNow(m, g, f, map[string]bool{}) {
			req[g] = true
		}
	}
	return req
}

func (h *hist) allowedDependents(m *rec, f string) map[string]bool {
	al := map[string]bool{}
	for g := range h.rules {
		if g != f && h.dependsEver(m, g, f, map[string]bool{}) {
			al[g] = true
		}
	}
	return al
}

// ------------------------------------------------------------------ drivers

var fnSrc = map[string]string{
	"mkRecord": "function (ob) { Record(@ob) }",
	"put":      "function (r, k, v) { r[k] = v }",
	"get":      "function (r, k) { r[k] }",
	"del":      "function (r, k) { r.Delete(k) }",
	"delAll":   "function (r) { r.Delete(all:) }",
	"copy":     "function (r) { r.Copy() }",
	"inval":    "function (r, k) { r.Invalidate(k) }",
	"inval2":   "function (r, k, k2) { r.Invalidate(k, k2) }",
	"attach":   "function (r, k, fn) { r.AttachRule(k, fn) }",
	"observe":  "function (r, fn) { r.Observer(fn) }",
	"unobs":    "function (r, fn) { r.RemoveObserver(fn) }",
	"getDeps":  "function (r, k) { r.GetDeps(k) }",
	"setRo":    "function (r) { r.Set_readonly() }",
	"plusEq":   "function (r, k, n) { r[k] += n }",
	"mkObs":    "function (log, id, reading) { if reading { return {|member| log.Add(Object(id, member, this[member])) } }; return {|member| log.Add(Object(id, member)) } }",
	"getA":     "function (r) { r.a }",
	"getR0":    "function (r) { r.r0 }",
}

var fns = map[string]Value{}

func compileAll() {
	for name, src := range fnSrc {
		if p, _ := vk.Catch(func() { fns[name] = compile.Constant(src) }); p != nil {
			panic(fmt.Sprint("harness: cannot compile ", name, ": ", p))
		}
	}
}

func (h *hist) perr(name string, p any, stack string) string {
	if re, ok := p.(runtime.Error); ok {
		h.violate("C35/go-runtime-error/"+name, map[string]any{"error": re.Error(), "stack": vk.Trunc(stack, 3000)})
		return "GO-RUNTIME-ERROR " + re.Error()
	}
	switch e := p.(type) {
	case *SuExcept:
		return string(e.SuStr)
	case SuStr:
		return string(e)
	case string:
		return e
	case error:
		return e.Error()
	}
	return fmt.Sprint(p)
}

func (h *hist) su(name string, args ...Value) (res Value, err string, failed bool) {
	st := h.th.GetState()
	p, stack := vk.Catch(func() { res = h.th.Call(fns[name], args...) })
	if p == nil {
		return res, "", false
	}
	h.th.RestoreState(st)
	return nil, h.perr(name, p, stack), true
}

func (h *hist) goDo(name string, f func()) (err string, failed bool) {
	st := h.th.GetState()
	p, stack := vk.Catch(f)
	if p == nil {
		return "", false
	}
	h.th.RestoreState(st)
	return h.perr(name, p, stack), true
}

// ------------------------------------------------------------------ history

func (h *hist) genRules() {
	r := h.r
	h.rules = map[string]*ruleDef{}
	for i := 0; i < nRules; i++ {
		rd := &ruleDef{name: ruleName(i), kind: r.IntN(nRuleKinds), attached: r.IntN(3) == 0}
		// sources: plain fields and earlier rule fields (a DAG: chains and diamonds)
		pick := func() string {
			if i > 0 && r.IntN(2) == 0 {
				return ruleName(r.IntN(i))
			}
			return plainFields[r.IntN(len(plainFields)-1)] // not sel
		}
		if rd.kind == rkCond {
			rd.srcs = []string{"sel", pick(), pick()}
		} else {
			n := 1 + r.IntN(3)
			seen := map[string]bool{}
			for len(rd.srcs) < n {
				s := pick()
				if !seen[s] {
					seen[s] = true
					rd.srcs = append(rd.srcs, s)
				} else if r.IntN(3) == 0 {
					break
				}
			}
		}
		rd.src = rd.source()
		if p, _ := vk.Catch(func() { rd.fn = compile.Constant(rd.src) }); p != nil {
			panic(fmt.Sprint("harness: cannot compile rule ", rd.src, ": ", p))
		}
		h.rules[rd.name] = rd
		if rd.kind == rkCond {
			h.hasCond = true
		}
		if rd.attached {
			// make sure a stale global of an earlier history can never be used instead
			Global.TestDef("Rule_"+rd.name, compile.Constant("function () { \"WRONG-GLOBAL-RULE\" }"))
		} else {
			Global.TestDef("Rule_"+rd.name, rd.fn)
		}
	}
}

func (h *hist) genVal() val {
	r := h.r
	switch x := r.IntN(10); {
	case x < 6:
		return val{isInt: true, n: r.IntN(4)}
	case x < 9:
		return val{s: []string{"x", "y", "", "zz"}[r.IntN(4)]}
	default:
		return val{isInt: true, n: 1}
	}
}

func (h *hist) attachAll(m *rec) {
	for i := 0; i < nRules; i++ {
		rd := h.rules[ruleName(i)]
		if rd.attached {
			if h.r.IntN(2) == 0 {
				m.real.AttachRule(SuStr(rd.name), rd.fn)
			} else {
				h.su("attach", m.real, SuStr(rd.name), rd.fn)
			}
		}
	}
}

func (h *hist) newRec() *rec {
	r := h.r
	m := &rec{plain: map[string]val{}, cached: map[string]bool{}, flag: map[string]bool{}, reads: map[string][]string{}, ever: map[string]map[string]bool{}}
	h.nextID++
	m.id = h.nextID
	init := &SuObject{}
	for _, f := range plainFields {
		if r.IntN(2) == 0 {
			v := h.genVal()
			m.plain[f] = v
			init.Set(SuStr(f), v.real())
		}
	}
	if r.IntN(2) == 0 {
		res, err, failed := h.su("mkRecord", init)
		if failed {
			panic("harness: Record(@ob) failed: " + err)
		}
		m.real = res.(*SuRecord)
	} else {
		m.real = NewSuRecord()
		for f, v := range m.plain {
			m.real.Put(h.th, SuStr(f), v.real())
		}
	}
	h.attachAll(m)
	if h.hasCond || r.IntN(2) == 0 {
		h.addObserver(m, false, r.IntN(2) == 0)
	}
	return m
}

// addObserver registers a new recording (or reading) observer on m
func (h *hist) addObserver(m *rec, reading, viaGo bool) bool {
	h.nextID++
	o := observer{id: h.nextID, reading: reading}
	res, err, failed := h.su("mkObs", h.log, IntVal(o.id), SuBool(o.reading))
	if failed {
		panic("harness: mkObs failed: " + err)
	}
	o.real = res
	if viaGo {
		err, failed = h.goDo("Observer", func() { m.real.Observer(o.real) })
	} else {
		_, err, failed = h.su("observe", m.real, o.real)
	}
	if failed {
		h.violate("C35/unexpected-error/Observer", map[string]any{"error": err})
		return false
	}
	m.obs = append(m.obs, o)
	return true
}

func (h *hist) fieldName() string {
	if h.r.IntN(2) == 0 {
		return plainFields[h.r.IntN(len(plainFields))]
	}
	return ruleName(h.r.IntN(nRules))
}

type note struct {
	id     int
	member string
	value  Value
}

func (h *hist) drainLog() []note {
	n := h.log.ListSize()
	notes := make([]note, 0, n)
	for i := 0; i < n; i++ {
		e := ToContainer(h.log.ListGet(i))
		nt := note{id: ToInt(e.ListGet(0)), member: ToStr(e.ListGet(1))}
		if e.ListSize() > 2 {
			nt.value = e.ListGet(2)
		}
		notes = append(notes, nt)
	}
	h.log.DeleteAll()
	return notes
}

func setStr(m map[string]bool) string {
	l := make([]string, 0, len(m))
	for k := range m {
		l = append(l, k)
	}
	sort.Strings(l)
	return strings.Join(l, ",")
}

// checkNotes judges the notifications delivered by one operation on record m.
// changed: the field the operation was about; required / allowed: see the file comment.
func (h *hist) checkNotes(m *rec, op string, f string, required, allowed map[string]bool) {
	notes := h.drainLog()
	if h.failed {
		return
	}
	perObs := map[int][]string{}
	regOrder := map[int]int{}
	for i, o := range m.obs {
		regOrder[o.id] = i
	}
	detail := func() map[string]any {
		l := make([]string, len(notes))
		for i, n := range notes {
			l[i] = fmt.Sprintf("obs%d:%s", n.id, n.member)
		}
		return map[string]any{"record": m.id, "field": f, "notifications": l, "required": setStr(required), "allowed": setStr(allowed),
			"observers_registered": len(m.obs)}
	}
	lastReg := map[string]int{}
	for _, n := range notes {
		ri, ok := regOrder[n.id]
		if !ok {
			h.violate("C35/notification-to-observer-of-another-record/"+op, detail())
			return
		}
		if prev, seen := lastReg[n.member]; seen && prev >= ri {
			// same member: observers must be called in registration order, each once
			d := detail()
			d["member"] = n.member
			if prev == ri {
				h.violate("C35/duplicate-notification/"+op, d)
			} else {
				h.violate("C35/observer-order/"+op, d)
			}
			return
		}
		lastReg[n.member] = ri
		perObs[n.id] = append(perObs[n.id], n.member)
		if !allowed[n.member] {
			d := detail()
			d["member"] = n.member
			h.violate("C35/spurious-notification/"+op, d)
			return
		}
	}
	for _, o := range m.obs {
		got := map[string]bool{}
		for _, mem := range perObs[o.id] {
			got[mem] = true
		}
		for req := range required {
			if !got[req] {
				d := detail()
				d["missing"] = req
				d["observer"] = o.id
				cl := "C35/missing-notification/"
				if req != f {
					cl = "C35/missing-dependent-notification/"
				}
				h.violate(cl+op, d)
				return
			}
		}
	}
	if len(m.obs) > 0 {
		h.stats.notifs += len(notes)
		for r := range required {
			if r != f {
				h.stats.chainNotifs++
			}
		}
	}
	// model state: every rule field that may have been invalidated and is not known
	// to be: the required ones are invalid for certain; an allowed one is invalid iff
	// the implementation said so (it notified it) - without observers assume allowed.
	notified := map[string]bool{}
	for _, n := range notes {
		notified[n.member] = true
	}
	for g := range allowed {
		if g == f || h.rules[g] == nil {
			continue
		}
		if required[g] || notified[g] || (len(m.obs) == 0 && m.cached[g]) {
			if m.cached[g] {
				m.flag[g] = true
			}
		}
	}
	// reading observers read the member (that re-validates it); the value they saw must be the current one
	for _, n := range notes {
		ri, ok := regOrder[n.id]
		if !ok || !m.obs[ri].reading {
			continue
		}
		want := h.get(m, n.member)
		if sameVal(n.value, want) {
			h.stats.staleChecks++
			continue
		}
		d := detail()
		d["member"] = n.member
		d["observer_saw"] = show(n.value)
		d["want"] = want.String()
		if h.roStaleAffects(m, n.member) {
			d["stale_fields"] = setStr(m.roStale)
			h.rep.Count("readonly_stale_rule_values", 1)
			h.rep.Violate("C35/readonly-record-returns-stale-stored-rule-value", h.key()+" "+h.trace[len(h.trace)-1], d)
			continue
		}
		h.violate("C35/stale-value-seen-by-observer/"+op, d)
		return
	}
}

func (h *hist) checkNoNotes(op string) {
	if notes := h.drainLog(); len(notes) > 0 && !h.failed {
		l := make([]string, len(notes))
		for i, n := range notes {
			l[i] = fmt.Sprintf("obs%d:%s", n.id, n.member)
		}
		h.violate("C35/notification-without-change/"+op, map[string]any{"notifications": l})
	}
}

func (h *hist) step() {
	r := h.r
	m := h.pool[r.IntN(len(h.pool))]
	viaGo := r.IntN(2) == 0
	tr := func(format string, args ...any) {
		via := "su"
		if viaGo {
			via = "go"
		}
		h.trace = append(h.trace, fmt.Sprintf("R%d.", m.id)+fmt.Sprintf(format, args...)+" ["+via+"]")
	}
	switch op := r.IntN(100); {
	case op < 32: // set a plain field
		f := plainFields[r.IntN(len(plainFields))]
		v := h.genVal()
		old, had := m.plain[f]
		tr("Put(%s, %s)", f, v)
		var err string
		var failed bool
		if viaGo {
			err, failed = h.goDo("Put", func() { m.real.Put(h.th, SuStr(f), v.real()) })
		} else {
			_, err, failed = h.su("put", m.real, SuStr(f), v.real())
		}
		if m.ro {
			if !failed || !strings.Contains(err, "readonly") {
				h.violate("C35/readonly-put-accepted", map[string]any{"err": err})
			}
			delete(m.flag, f)
			h.checkNoNotes("Put")
			return
		}
		if failed {
			h.violate("C35/unexpected-error/Put", map[string]any{"error": err})
			return
		}
		h.stats.puts++
		changed := !had || old != v
		valueChanged := h.compute(m, f) != v
		required, allowed := map[string]bool{}, map[string]bool{}
		if changed {
			allowed = h.allowedDependents(m, f)
			allowed[f] = true
		}
		if valueChanged {
			required = h.requiredDependents(m, f)
			required[f] = true
		}
		m.plain[f] = v
		delete(m.flag, f)
		h.checkNotes(m, "Put", f, required, allowed)
	case op < 64: // get any field
		f := h.fieldName()
		tr("Get(%s)", f)
		var res Value
		var err string
		var failed bool
		switch {
		case viaGo:
			err, failed = h.goDo("Get", func() { res = m.real.Get(h.th, SuStr(f)) })
		case f == "a" && r.IntN(2) == 0:
			res, err, failed = h.su("getA", m.real)
		case f == "r0" && r.IntN(2) == 0:
			res, err, failed = h.su("getR0", m.real)
		default:
			res, err, failed = h.su("get", m.real, SuStr(f))
		}
		if failed {
			h.violate("C35/unexpected-error/Get", map[string]any{"error": err, "field": f})
			return
		}
		wasValid := h.rules[f] != nil && m.valid(f)
		want := h.get(m, f)
		if !sameVal(res, want) {
			h.valueMismatch(m, f, res, want, wasValid)
			return
		}
		h.rep.Count("gets_checked", 1)
		if h.rules[f] != nil {
			h.rep.Count("rule_gets_checked", 1)
		}
		h.checkNoNotes("Get")
	case op < 72: // delete a field
		f := h.fieldName()
		tr("Delete(%s)", f)
		var err string
		var failed bool
		var got bool
		if viaGo {
			err, failed = h.goDo("Delete", func() { got = m.real.Delete(h.th, SuStr(f)) })
		} else {
			_, err, failed = h.su("del", m.real, SuStr(f))
		}
		if m.ro {
			if !failed || !strings.Contains(err, "readonly") {
				h.violate("C35/readonly-delete-accepted", map[string]any{"err": err})
			}
			h.checkNoNotes("Delete")
			return
		}
		if failed {
			h.violate("C35/unexpected-error/Delete", map[string]any{"error": err})
			return
		}
		required, allowed := map[string]bool{}, map[string]bool{}
		present := false
		if h.rules[f] == nil {
			old, had := m.plain[f]
			present = had
			if had {
				allowed = h.allowedDependents(m, f)
				allowed[f] = true
				if old != (val{}) {
					required = h.requiredDependents(m, f)
					required[f] = true
				}
				delete(m.plain, f)
			}
		} else if m.cached[f] {
			// the stored result of a rule is removed: it will be recomputed; its value does not change
			present = true
			allowed = h.allowedDependents(m, f)
			allowed[f] = true
			delete(m.cached, f)
			delete(m.roStale, f)
		}
		if viaGo && got != present {
			h.violate("C35/delete-result", map[string]any{"got": got, "want": present, "field": f})
			return
		}
		h.checkNotes(m, "Delete", f, required, allowed)
	case op < 78: // Invalidate
		f := h.fieldName()
		tr("Invalidate(%s)", f)
		var err string
		var failed bool
		if viaGo {
			err, failed = h.goDo("Invalidate", func() { m.real.Invalidate(h.th, f) })
		} else {
			_, err, failed = h.su("inval", m.real, SuStr(f))
		}
		if failed {
			h.violate("C35/unexpected-error/Invalidate", map[string]any{"error": err})
			return
		}
		required := map[string]bool{f: true}
		allowed := h.allowedDependents(m, f)
		allowed[f] = true
		if !m.flag[f] {
			for g := range h.requiredDependents(m, f) {
				required[g] = true
			}
		}
		m.flag[f] = true
		h.checkNotes(m, "Invalidate", f, required, allowed)
	case op < 83 && !m.ro && len(h.pool) < 4 && r.IntN(3) == 0: // store and reload: the record is written as a database row and read back
		// (rule values are stored with their dependencies in <rule>_deps columns; the record read back is backed by the
		// row and rebuilds its dependency map from those columns on first use)
		tr("StoreAndReload()")
		fields := append([]string{}, plainFields...)
		for i := 0; i < nRules; i++ {
			// every rule field is read first (checked like any Get), so that storing computes nothing new
			f := ruleName(i)
			var res Value
			err, failed := h.goDo("Get", func() { res = m.real.Get(h.th, SuStr(f)) })
			if failed {
				h.violate("C35/unexpected-error/Get", map[string]any{"error": err, "field": f})
				return
			}
			wasValid := m.valid(f)
			if want := h.get(m, f); !sameVal(res, want) {
				h.valueMismatch(m, f, res, want, wasValid)
				return
			}
			fields = append(fields, f)
		}
		for i := 0; i < nRules; i++ {
			fields = append(fields, ruleName(i)+"_deps")
		}
		h.checkNoNotes("Get")
		hdr := NewHeader([][]string{fields}, fields)
		var rr *SuRecord
		err, failed := h.goDo("StoreAndReload", func() {
			stored := m.real.ToRecord(h.th, hdr)
			rr = SuRecordFromRow(Row{DbRec{Record: stored}}, hdr, "", nil)
		})
		if failed || rr == nil {
			h.violate("C35/unexpected-error/StoreAndReload", map[string]any{"error": err})
			return
		}
		c := &rec{real: rr, plain: map[string]val{}, cached: map[string]bool{}, flag: map[string]bool{}, reads: map[string][]string{}, ever: map[string]map[string]bool{}}
		h.nextID++
		c.id = h.nextID
		for k, v := range m.plain {
			if v != (val{}) { // an empty value is stored as nothing
				c.plain[k] = v
			}
		}
		for i := 0; i < nRules; i++ {
			f := ruleName(i)
			if h.compute(m, f) == (val{}) {
				continue // an empty rule value is not stored: the reloaded record computes it when asked
			}
			c.cached[f] = true
			c.reads[f] = append([]string(nil), m.reads[f]...)
			// the stored dependencies are everything the record has recorded for the rule so far
			c.ever[f] = map[string]bool{}
			for sname := range m.ever[f] {
				c.ever[f][sname] = true
			}
		}
		h.attachAll(c)
		if h.hasCond || r.IntN(2) == 0 {
			h.addObserver(c, false, r.IntN(2) == 0)
		}
		h.pool = append(h.pool, c)
		h.rep.Count("stored_and_reloaded_records", 1)
		h.checkNoNotes("StoreAndReload")
	case op < 83: // copy
		if len(h.pool) >= 4 {
			tr("skip-copy")
			return
		}
		tr("Copy()")
		var res Value
		var err string
		var failed bool
		if viaGo {
			err, failed = h.goDo("Copy", func() { res = m.real.Copy() })
		} else {
			res, err, failed = h.su("copy", m.real)
		}
		if failed {
			h.violate("C35/unexpected-error/Copy", map[string]any{"error": err})
			return
		}
		cr, ok := res.(*SuRecord)
		if !ok || cr == m.real {
			h.violate("C35/copy-result", map[string]any{"got": show(res)})
			return
		}
		c := &rec{real: cr, plain: map[string]val{}, cached: map[string]bool{}, flag: map[string]bool{}, reads: map[string][]string{}, ever: map[string]map[string]bool{}}
		h.nextID++
		c.id = h.nextID
		for k, v := range m.plain {
			c.plain[k] = v
		}
		for k, v := range m.cached {
			c.cached[k] = v
		}
		for k, v := range m.flag {
			c.flag[k] = v
		}
		for k := range m.roStale {
			if c.roStale == nil {
				c.roStale = map[string]bool{}
			}
			c.roStale[k] = true // the copy inherits the stale stored value
		}
		for k, v := range m.reads {
			c.reads[k] = v
		}
		for k, v := range m.ever {
			c.ever[k] = map[string]bool{}
			for s := range v {
				c.ever[k][s] = true
			}
		}
		// a copy is not read-only and has no observers; attached rules are attached again
		h.attachAll(c)
		if h.hasCond || r.IntN(2) == 0 {
			h.addObserver(c, false, r.IntN(2) == 0)
		}
		h.pool = append(h.pool, c)
		h.stats.copies++
		h.checkNoNotes("Copy")
	case op < 90: // add an observer
		if len(m.obs) >= 3 {
			tr("skip-observer")
			return
		}
		reading := r.IntN(2) == 0
		tr("Observer(obs%d reading=%v)", h.nextID+1, reading)
		if !h.addObserver(m, reading, viaGo) {
			return
		}
		h.checkNoNotes("Observer")
	case op < 92: // remove an observer
		if len(m.obs) == 0 || (h.hasCond && len(m.obs) == 1) {
			tr("skip-remove-observer")
			return
		}
		i := r.IntN(len(m.obs))
		o := m.obs[i]
		tr("RemoveObserver(obs%d)", o.id)
		var err string
		var failed bool
		if viaGo {
			err, failed = h.goDo("RemoveObserver", func() { m.real.RemoveObserver(o.real) })
		} else {
			_, err, failed = h.su("unobs", m.real, o.real)
		}
		if failed {
			h.violate("C35/unexpected-error/RemoveObserver", map[string]any{"error": err})
			return
		}
		m.obs = append(m.obs[:i:i], m.obs[i+1:]...)
		h.checkNoNotes("RemoveObserver")
	case op < 96: // GetDeps of a rule field
		f := ruleName(r.IntN(nRules))
		viaGo = false
		tr("GetDeps(%s)", f)
		res, err, failed := h.su("getDeps", m.real, SuStr(f))
		if failed {
			h.violate("C35/unexpected-error/GetDeps", map[string]any{"error": err})
			return
		}
		got := map[string]bool{}
		if s := ToStr(res); s != "" {
			for _, d := range strings.Split(s, ",") {
				got[d] = true
			}
		}
		if m.cached[f] {
			for _, s := range m.reads[f] {
				if !got[s] {
					h.violate("C35/dependency-not-recorded", map[string]any{"field": f, "missing": s, "GetDeps": ToStr(res), "last_evaluation_read": m.reads[f]})
					return
				}
			}
		}
		for d := range got {
			if !m.ever[f][d] {
				h.violate("C35/dependency-never-read", map[string]any{"field": f, "extra": d, "GetDeps": ToStr(res), "ever_read": setStr(m.ever[f])})
				return
			}
		}
		h.rep.Count("getdeps_checked", 1)
		h.checkNoNotes("GetDeps")
	case op < 98: // Set_readonly: rules still work but their results are not stored
		if len(h.trace) < 20 || m.ro {
			tr("skip-readonly")
			return
		}
		tr("Set_readonly()")
		var err string
		var failed bool
		if viaGo {
			err, failed = h.goDo("SetReadOnly", func() { m.real.SetReadOnly() })
		} else {
			_, err, failed = h.su("setRo", m.real)
		}
		if failed {
			h.violate("C35/unexpected-error/Set_readonly", map[string]any{"error": err})
			return
		}
		m.ro = true
		h.rep.Count("readonly_records", 1)
		h.checkNoNotes("Set_readonly")
	default: // Delete(all:): nothing is stored any more, everything is recomputed
		if m.ro {
			tr("skip-delete-all")
			return
		}
		viaGo = false
		tr("DeleteAll()")
		_, err, failed := h.su("delAll", m.real)
		if failed {
			h.violate("C35/unexpected-error/DeleteAll", map[string]any{"error": err})
			return
		}
		m.plain = map[string]val{}
		m.cached = map[string]bool{}
		m.roStale = nil
		h.drainLog() // notifications for Delete(all:) are not specified
	}
}

func (h *hist) run() {
	r := h.r
	h.genRules()
	h.log = &SuObject{}
	h.pool = []*rec{h.newRec()}
	if r.IntN(3) == 0 {
		h.pool = append(h.pool, h.newRec())
	}
	h.drainLog()
	nops := 30 + r.IntN(30)
	for i := 0; i < nops && !h.failed; i++ {
		before := len(h.trace)
		p, stack := vk.Catch(func() { h.step() })
		if len(h.trace) == before {
			h.trace = append(h.trace, "?")
		}
		if p != nil {
			h.violate("C35/harness-or-go-panic", map[string]any{"panic": fmt.Sprint(p), "stack": vk.Trunc(stack, 4000)})
			return
		}
	}
	if h.failed {
		return
	}
	// final sweep: every field of every record must have its current value
	for _, m := range h.pool {
		for _, f := range append(append([]string{}, plainFields...), ruleName(0), ruleName(1), ruleName(2), ruleName(3), ruleName(4), ruleName(5)) {
			var res Value
			h.trace = append(h.trace, fmt.Sprintf("R%d.final-Get(%s)", m.id, f))
			if err, failed := h.goDo("Get", func() { res = m.real.Get(h.th, SuStr(f)) }); failed {
				h.violate("C35/unexpected-error/Get", map[string]any{"error": err, "field": f})
				return
			}
			wasValid := h.rules[f] != nil && m.valid(f)
			if want := h.get(m, f); !sameVal(res, want) {
				h.valueMismatch(m, f, res, want, wasValid)
				if h.failed {
					return
				}
			}
		}
		h.drainLog()
	}
}

func TestVerifC35(t *testing.T) {
	rep := vk.NewReport("C35",
		"a case is a PRNG history of 30-60 operations (set a plain field, get any field, delete, Invalidate, Copy, Observer/RemoveObserver, GetDeps, Set_readonly, Delete(all:)) on 1-4 records that share "+
			"6 generated rules r0..r5 over plain fields a,b,c,d,sel (rule i reads plain fields and rules < i: chains and diamonds; kinds: concatenation, conditional read, read through a helper function, read in a loop; "+
			"a third attached with AttachRule, the rest global Rule_*); half the operations through the Go API, half from compiled Suneido code; "+
			"non-trivial = at least 3 recomputations of a rule field after one of its sources changed and at least one notification of a dependent rule field; distinct by rules + operation trace",
		"rules are pure and are never assigned directly; observers only record (and optionally read) the member they are told about",
		"allowed notifications are bounded by the dependencies ever seen, required ones by the last evaluation (gSuneido never forgets a dependency)")
	defer rep.Finish()
	compileAll()
	n := vk.N(20000, 400000)
	th := &Thread{}
	for i := 0; i < n; i++ {
		if i%64 == 0 {
			rep.Case("case %d", i)
		}
		h := &hist{rep: rep, r: vk.RandFor(35, i), th: th, idx: i}
		h.run()
		nontriv := h.stats.recomputes >= 3 && h.stats.chainNotifs >= 1
		var sb strings.Builder
		for _, s := range h.ruleSummary() {
			sb.WriteString(s + "\n")
		}
		rep.Eval(vk.Hash64(sb.String(), strings.Join(h.trace, ";")), nontriv)
		rep.Count("operations", len(h.trace))
		rep.Count("rule_recomputations", h.stats.recomputes)
		rep.Count("notifications_seen", h.stats.notifs)
		rep.Count("dependent_notifications_required", h.stats.chainNotifs)
		rep.Count("values_seen_by_reading_observers", h.stats.staleChecks)
		rep.Count("copies", h.stats.copies)
		rep.Count("puts", h.stats.puts)
		if h.failed {
			rep.Count("failed_histories", 1)
		}
		if rep.WantSample() && nontriv {
			t := h.trace
			if len(t) > 25 {
				t = t[:25]
			}
			rep.Sample(map[string]any{"case": i, "rules": h.ruleSummary(), "ops": t})
		}
	}
}
