// C15 Metadata tables behave as persistent maps and survive persist cycles.
//
// Black-box monitor over util/hamt with an item type whose hash is controlled by the key (shared 5-bit prefixes at
// every level down to full collisions -> overflow nodes). Histories of put / update / delete (tombstone or hard
// delete exactly as db19/meta decides) / Mutable / Freeze keep EVERY frozen version together with a copy of the
// model map; every few operations the table goes through a WriteChain + ReadChain cycle on a heap store and the
// history continues either with the in-memory chain or with the chain that was read back (a reopen).
package c15

import (
	"fmt"
	"hash/fnv"
	"math/rand/v2"
	"sort"
	"testing"

	"github.com/apmckinlay/gsuneido/db19/stor"
	"github.com/apmckinlay/gsuneido/util/hamt"
	vk "github.com/apmckinlay/gsuneido/util/verifkit"
)

// item: key = hash<<8 | discriminator, so keys with equal hash exist (overflow nodes)
type item struct {
	key     uint64
	data    uint32
	tomb    bool
	lastMod int
	created int
}

func (it *item) Key() uint64 { return it.key }

func (*item) Hash(key uint64) uint64 { return key >> 8 }

func (it *item) Cksum() uint32 { return uint32(it.key)*2654435761 + it.data*40503 + 17 }

func (it *item) StorSize() int { return 5 + 1 + 4 + 1 }

func (it *item) IsTomb() bool { return it.tomb }

func (it *item) LastMod() int { return it.lastMod }

func (it *item) SetLastMod(mod int) { it.lastMod = mod }

func (it *item) Write(w *stor.Writer) {
	t := 0
	if it.tomb {
		t = 1
	}
	w.Put5(int64(it.key >> 8)).Put1(int(it.key & 0xff)).Put4(int(it.data)).Put1(t)
}

func readItem(_ *stor.Stor, r *stor.Reader) *item {
	h := uint64(r.Get5())
	d := uint64(r.Get1())
	it := &item{key: h<<8 | d, data: uint32(r.Get4())}
	it.tomb = r.Get1() == 1
	return it
}

type Hamt = hamt.Hamt[uint64, *item]
type Chain = hamt.Chain[uint64, *item]

// model entry
type ment struct {
	tomb bool
	data uint32
}

type version struct {
	ht    Hamt
	model map[uint64]ment
	name  string
}

func copyModel(m map[uint64]ment) map[uint64]ment {
	c := make(map[uint64]ment, len(m))
	for k, v := range m {
		c[k] = v
	}
	return c
}

type tester struct {
	rep *vk.Report
	r   *rand.Rand
}

// genKeys makes a key universe with clustered hashes: a few base hashes; other keys share the low 5*l bits with a
// base (l = 1..7) or the whole hash (same hash, different discriminator)
func (t *tester) genKeys(n int) []uint64 {
	r := t.r
	nb := 1 + r.IntN(4)
	bases := make([]uint64, nb)
	for i := range bases {
		bases[i] = r.Uint64() & (1<<35 - 1)
	}
	seen := map[uint64]bool{}
	var keys []uint64
	for tries := 0; len(keys) < n && tries < 20*n; tries++ {
		b := bases[r.IntN(nb)]
		var h uint64
		switch l := r.IntN(10); {
		case l <= 7: // share the low 5*l bits (l=0: unrelated, l=7: all 35 bits used by the trie)
			low := uint64(1)<<(5*uint(l)) - 1
			h = b&low | (r.Uint64()&(1<<35-1))&^low
		default: // identical hash: only the discriminator differs
			h = b
		}
		if r.IntN(8) == 0 {
			h &= 1<<32 - 1 // plain 32 bit hashes
		}
		k := h<<8 | uint64(r.IntN(4))
		if !seen[k] {
			seen[k] = true
			keys = append(keys, k)
		}
	}
	return keys
}

// check compares one hamt version with its model: Get of every key of the universe, All, Cksum
func (t *tester) check(ident string, v *version, keys []uint64) bool {
	rep := t.rep
	ok := true
	p, _ := vk.Catch(func() {
		for _, k := range keys {
			it, found := v.ht.Get(k)
			want, has := v.model[k]
			switch {
			case found != has:
				cl := "C15/get-finds-absent-key"
				if has {
					cl = "C15/get-misses-key"
				}
				rep.Violate(cl, fmt.Sprintf("%s version %s key %#x", ident, v.name, k), map[string]any{"found": found, "model": fmt.Sprint(want)})
				ok = false
				return
			case found && (it.key != k || it.tomb != want.tomb || (!want.tomb && it.data != want.data)):
				rep.Violate("C15/get-wrong-value", fmt.Sprintf("%s version %s key %#x", ident, v.name, k),
					map[string]any{"got": fmt.Sprintf("%+v", *it), "want": fmt.Sprintf("%+v", want)})
				ok = false
				return
			}
		}
		n := 0
		seen := map[uint64]bool{}
		var sum uint32
		for it := range v.ht.All() {
			n++
			want, has := v.model[it.key]
			if seen[it.key] {
				rep.Violate("C15/all-yields-key-twice", fmt.Sprintf("%s version %s key %#x", ident, v.name, it.key), "")
				ok = false
				return
			}
			seen[it.key] = true
			if !has || it.tomb != want.tomb || (!want.tomb && it.data != want.data) {
				rep.Violate("C15/all-yields-wrong-entry", fmt.Sprintf("%s version %s key %#x", ident, v.name, it.key),
					map[string]any{"got": fmt.Sprintf("%+v", *it), "in_model": has, "want": fmt.Sprintf("%+v", want)})
				ok = false
				return
			}
			if !it.tomb {
				sum += it.Cksum()
			}
		}
		if n != len(v.model) {
			rep.Violate("C15/all-count-wrong", fmt.Sprintf("%s version %s", ident, v.name), map[string]any{"got": n, "want": len(v.model)})
			ok = false
			return
		}
		if !v.ht.IsNil() && v.ht.Cksum() != sum {
			rep.Violate("C15/cksum-wrong", fmt.Sprintf("%s version %s", ident, v.name), "")
			ok = false
		}
	})
	if p != nil {
		rep.Violate("C15/panic/read-version", fmt.Sprintf("%s version %s", ident, v.name), fmt.Sprint(p))
		return false
	}
	rep.Count("version_checks", 1)
	return ok
}

func (t *tester) history(hi int) {
	r := t.r
	rep := t.rep
	ident := fmt.Sprintf("history %d shard %d seed %d", hi, vk.Shard(), vk.Seed())
	rep.Case("%s", ident)
	h := fnv.New64a()
	nkeys := 4 + r.IntN(120)
	keys := t.genKeys(nkeys)
	fmt.Fprintf(h, "%x|", keys)
	st := stor.HeapStor(64 * 1024)
	st.Alloc(1)
	var chain Chain // zero value: empty, immutable, Clock 0
	model := map[uint64]ment{}
	created := map[uint64]int{} // key -> clock at creation (only while hard deletable), as meta's `created`
	var versions []*version
	versions = append(versions, &version{ht: chain.Hamt, model: copyModel(model), name: "v0(empty)"})
	ncycles := 300 + r.IntN(100)
	if r.IntN(4) == 0 {
		ncycles = 20 + r.IntN(60) // some short histories with more ops per cycle
	}
	opsPerCycle := 1 + r.IntN(6)
	if ncycles < 100 {
		opsPerCycle = 5 + r.IntN(40)
	}
	dataSeq := uint32(0)
	trace := make([]string, 0, 64)
	note := func(s string) {
		if len(trace) >= 60 {
			trace = trace[1:]
		}
		trace = append(trace, s)
		h.Write([]byte(s))
	}
	collide := 0
	hs := map[uint64]int{}
	for _, k := range keys {
		hs[k>>8]++
	}
	for _, n := range hs {
		if n > 1 {
			collide += n
		}
	}
	rep.Count("keys_with_identical_hash", collide)
	for cyc := 0; cyc < ncycles; cyc++ {
		// a transaction-like group of changes: Mutable, ops, Freeze (sometimes several groups)
		ngroups := 1 + r.IntN(2)
		for g := 0; g < ngroups; g++ {
			mut := chain.Hamt.Mutable()
			nops := 1 + r.IntN(opsPerCycle)
			failed := false
			if p, _ := vk.Catch(func() {
				for o := 0; o < nops; o++ {
					k := keys[r.IntN(len(keys))]
					cur, has := model[k]
					if !has || cur.tomb || r.IntN(5) < 3 { // put: create, re-create over a tombstone, or update
						dataSeq++
						it := &item{key: k, data: dataSeq, lastMod: chain.Clock}
						if !has { // no entry at all: hard deletable until the next persist (meta.PutNew)
							created[k] = chain.Clock
							it.created = chain.Clock
						} else if c, ok := created[k]; ok && !cur.tomb {
							it.created = c // updates copy the item
						} else {
							delete(created, k)
						}
						mut.Put(it)
						model[k] = ment{data: dataSeq}
						note(fmt.Sprintf("put %#x=%d;", k, dataSeq))
						rep.Count("puts", 1)
						if has || r.IntN(5) > 0 {
							continue
						}
						// else: a table created and dropped again before the next persist
					}
					// delete as meta.Drop does: hard delete only if created since the last persist (and clock != 0)
					if c, ok := created[k]; ok && c != 0 && c == chain.Clock {
						if !mut.Delete(k) {
							rep.Violate("C15/delete-reports-not-found", fmt.Sprintf("%s cycle %d key %#x", ident, cyc, k), "")
							failed = true
							return
						}
						delete(model, k)
						delete(created, k)
						note(fmt.Sprintf("harddel %#x;", k))
						rep.Count("hard_deletes", 1)
					} else {
						mut.Put(&item{key: k, tomb: true, lastMod: chain.Clock})
						model[k] = ment{tomb: true}
						delete(created, k)
						note(fmt.Sprintf("tomb %#x;", k))
						rep.Count("tombstones", 1)
					}
				}
				// deleting an absent key reports false and changes nothing
				if r.IntN(4) == 0 {
					k := keys[r.IntN(len(keys))] ^ 0x80 // discriminator outside the universe
					if mut.Delete(k) {
						rep.Violate("C15/delete-reports-found-for-absent-key", fmt.Sprintf("%s cycle %d key %#x", ident, cyc, k), "")
						failed = true
					}
				}
			}); p != nil {
				rep.Violate("C15/panic/modify", fmt.Sprintf("%s cycle %d", ident, cyc), map[string]any{"panic": fmt.Sprint(p), "last_ops": fmt.Sprint(trace)})
				failed = true
			}
			if failed {
				rep.Eval(h.Sum64(), true)
				return
			}
			// the mutable version itself reads correctly, then freeze it
			mv := &version{ht: mut, model: model, name: fmt.Sprintf("mutable@cycle%d", cyc)}
			if r.IntN(4) == 0 && !t.check(ident, mv, keys) {
				rep.Eval(h.Sum64(), true)
				return
			}
			chain.Hamt = mut.Freeze()
			versions = append(versions, &version{ht: chain.Hamt, model: copyModel(model), name: fmt.Sprintf("v%d@cycle%d", len(versions), cyc)})
		}
		// older versions are never affected: check the newest and two random retained ones
		for _, vi := range []int{len(versions) - 1, r.IntN(len(versions)), r.IntN(len(versions))} {
			if !t.check(ident, versions[vi], keys) {
				rep.Violate("C15/older-version-affected", fmt.Sprintf("%s after cycle %d: version %s of %d", ident, cyc, versions[vi].name, len(versions)),
					map[string]any{"last_ops": fmt.Sprint(trace)})
				rep.Eval(h.Sum64(), true)
				return
			}
		}
		// persist cycle
		no := len(chain.Offs)
		var off uint64
		var c2 Chain
		if p, _ := vk.Catch(func() { off, c2 = chain.WriteChain(st) }); p != nil {
			rep.Violate("C15/panic/writechain", fmt.Sprintf("%s cycle %d", ident, cyc), map[string]any{"panic": fmt.Sprint(p), "last_ops": fmt.Sprint(trace)})
			rep.Eval(h.Sum64(), true)
			return
		}
		rep.Count("persist_cycles", 1)
		if len(c2.Offs) != no || (no > 0 && c2.Offs[no-1] != chain.Offs[no-1]) {
			merged := no + 1 - len(c2.Offs)
			rep.Seen("chunks_merged", fmt.Sprint(merged))
			rep.Count("chunks_written", 1)
			if merged == no && no > 0 {
				rep.Count("full_flattens", 1)
			}
		}
		rep.Seen("chain_length", fmt.Sprint(len(c2.Offs)))
		rep.Max("max_chain_length", len(c2.Offs))
		note(fmt.Sprintf("persist->%d chunks;", len(c2.Offs)))
		// read back
		var rc Chain
		if p, _ := vk.Catch(func() { rc = hamt.ReadChain(st, off, readItem) }); p != nil {
			cl := "C15/panic/readchain"
			if fmt.Sprint(p) == "metadata checksum mismatch" {
				cl = "C15/readchain-checksum-rejected"
			}
			rep.Violate(cl, fmt.Sprintf("%s cycle %d", ident, cyc), map[string]any{"panic": fmt.Sprint(p), "last_ops": fmt.Sprint(trace), "offs": fmt.Sprint(c2.Offs)})
			rep.Eval(h.Sum64(), true)
			return
		}
		// exactly the current live entries (tombstones may or may not be present, never a live stale value)
		bad := false
		nlive := 0
		modelLive := 0
		for _, e := range model {
			if !e.tomb {
				modelLive++
			}
		}
		emptied := false // the known "table became empty" case: reported, then the history goes on in memory
		seen := map[uint64]bool{}
		for it := range rc.All() {
			want, has := model[it.key]
			if seen[it.key] {
				rep.Violate("C15/readchain/key-twice", fmt.Sprintf("%s cycle %d key %#x", ident, cyc, it.key), "")
				bad = true
				break
			}
			seen[it.key] = true
			if it.tomb {
				if has && !want.tomb {
					rep.Violate("C15/readchain/live-entry-read-as-deleted", fmt.Sprintf("%s cycle %d key %#x", ident, cyc, it.key), map[string]any{"last_ops": fmt.Sprint(trace)})
					bad = true
					break
				}
				rep.Count("tombstones_read_back", 1)
				continue
			}
			nlive++
			switch {
			case (!has || want.tomb) && modelLive == 0:
				rep.Violate("C15/readchain/deletes-not-persisted-when-no-live-entry-remains", fmt.Sprintf("%s cycle %d key %#x", ident, cyc, it.key),
					map[string]any{"read": it.data, "last_ops": fmt.Sprint(trace), "offs_before": fmt.Sprint(chain.Offs), "offs_after": fmt.Sprint(c2.Offs), "clock": chain.Clock})
				emptied = true
			case !has || want.tomb:
				rep.Violate("C15/readchain/deleted-entry-resurrected", fmt.Sprintf("%s cycle %d key %#x", ident, cyc, it.key),
					map[string]any{"read": it.data, "last_ops": fmt.Sprint(trace), "offs": fmt.Sprint(c2.Offs)})
				bad = true
			case it.data != want.data:
				rep.Violate("C15/readchain/stale-value", fmt.Sprintf("%s cycle %d key %#x", ident, cyc, it.key),
					map[string]any{"read": it.data, "want": want.data, "last_ops": fmt.Sprint(trace), "offs": fmt.Sprint(c2.Offs)})
				bad = true
			}
			if bad || emptied {
				break
			}
		}
		if !bad && !emptied {
			wantLive := 0
			for k, e := range model {
				if !e.tomb {
					wantLive++
					if !seen[k] {
						rep.Violate("C15/readchain/live-entry-lost", fmt.Sprintf("%s cycle %d key %#x", ident, cyc, k),
							map[string]any{"want": e.data, "last_ops": fmt.Sprint(trace), "offs": fmt.Sprint(c2.Offs)})
						bad = true
						break
					}
				}
			}
			rep.Count("entries_read_back", nlive)
		}
		if bad {
			rep.Eval(h.Sum64(), true)
			return
		}
		if emptied {
			rep.Count("persist_cycles_with_no_live_entry_not_persisted", 1)
			chain = c2
			continue
		}
		if modelLive == 0 {
			rep.Count("persist_cycles_with_no_live_entry", 1)
		}
		if len(rc.Offs) != len(c2.Offs) {
			rep.Violate("C15/readchain/chain-length-differs", fmt.Sprintf("%s cycle %d", ident, cyc), map[string]any{"written": fmt.Sprint(c2.Offs), "read": fmt.Sprint(rc.Offs)})
			rep.Eval(h.Sum64(), true)
			return
		}
		// continue with the in-memory chain, or "reopen": continue with what was read
		if r.IntN(3) == 0 {
			chain = rc
			// the model becomes what the reopened table holds: tombstones that were dropped are gone
			nm := map[uint64]ment{}
			for it := range rc.All() {
				nm[it.key] = ment{tomb: it.tomb, data: it.data}
			}
			model = nm
			created = map[uint64]int{}
			versions = append(versions, &version{ht: chain.Hamt, model: copyModel(model), name: fmt.Sprintf("v%d@reopen%d", len(versions), cyc)})
			note("reopen;")
			rep.Count("reopens", 1)
		} else {
			chain = c2
			for k := range created { // persisted now: no longer hard deletable (clock moved on)
				if created[k] != chain.Clock {
					delete(created, k)
				}
			}
		}
	}
	// finally every retained version still reads as its snapshot
	for _, v := range versions {
		if !t.check(ident, v, keys) {
			rep.Violate("C15/older-version-affected", fmt.Sprintf("%s at the end: version %s of %d", ident, v.name, len(versions)), map[string]any{"last_ops": fmt.Sprint(trace)})
			break
		}
	}
	rep.Count("versions_retained", len(versions))
	rep.Count("histories", 1)
	rep.Eval(h.Sum64(), true)
	if rep.WantSample() && hi < 2 {
		ks := append([]uint64{}, keys...)
		sort.Slice(ks, func(i, j int) bool { return ks[i] < ks[j] })
		if len(ks) > 6 {
			ks = ks[:6]
		}
		rep.Sample(map[string]any{"history": ident, "keys": len(keys), "first_keys_hex": fmt.Sprintf("%x", ks), "cycles": ncycles, "versions": len(versions), "last_ops": fmt.Sprint(trace[max(0, len(trace)-12):])})
	}
}

// pure runs a memory-only history: free puts, updates and hard deletes in Mutable/Freeze groups, every frozen
// version retained with its model snapshot (no persist cycles, so no tombstone discipline is needed)
func (t *tester) pure(hi int) {
	r := t.r
	rep := t.rep
	ident := fmt.Sprintf("memory history %d shard %d seed %d", hi, vk.Shard(), vk.Seed())
	rep.Case("%s", ident)
	h := fnv.New64a()
	keys := t.genKeys(4 + r.IntN(150))
	fmt.Fprintf(h, "pure %x|", keys)
	var cur Hamt
	model := map[uint64]ment{}
	versions := []*version{{ht: cur, model: copyModel(model), name: "v0(empty)"}}
	ngroups := 100 + r.IntN(300)
	dataSeq := uint32(0)
	pDel := []int{2, 4, 5}[r.IntN(3)] // of 8
	for g := 0; g < ngroups; g++ {
		// sometimes branch from an older version instead of the newest (persistent data structure)
		base := versions[len(versions)-1]
		if r.IntN(10) == 0 {
			base = versions[r.IntN(len(versions))]
		}
		cur = base.ht
		model = copyModel(base.model)
		mut := cur.Mutable()
		nops := 1 + r.IntN(20)
		failed := false
		if p, _ := vk.Catch(func() {
			for o := 0; o < nops; o++ {
				k := keys[r.IntN(len(keys))]
				_, has := model[k]
				if has && r.IntN(8) < pDel {
					if !mut.Delete(k) {
						rep.Violate("C15/delete-reports-not-found", fmt.Sprintf("%s group %d key %#x", ident, g, k), "")
						failed = true
						return
					}
					delete(model, k)
					fmt.Fprintf(h, "d%x;", k)
					rep.Count("hard_deletes", 1)
				} else if !has && r.IntN(6) == 0 {
					if mut.Delete(k) {
						rep.Violate("C15/delete-reports-found-for-absent-key", fmt.Sprintf("%s group %d key %#x", ident, g, k), "")
						failed = true
						return
					}
				} else {
					dataSeq++
					mut.Put(&item{key: k, data: dataSeq})
					model[k] = ment{data: dataSeq}
					fmt.Fprintf(h, "p%x;", k)
					rep.Count("puts", 1)
				}
			}
		}); p != nil {
			rep.Violate("C15/panic/modify", fmt.Sprintf("%s group %d", ident, g), fmt.Sprint(p))
			failed = true
		}
		if failed {
			rep.Eval(h.Sum64(), true)
			return
		}
		cur = mut.Freeze()
		versions = append(versions, &version{ht: cur, model: model, name: fmt.Sprintf("v%d(from %s)", len(versions), base.name[:min(6, len(base.name))])})
		for _, vi := range []int{len(versions) - 1, r.IntN(len(versions))} {
			if !t.check(ident, versions[vi], keys) {
				rep.Violate("C15/older-version-affected", fmt.Sprintf("%s after group %d: version %s of %d", ident, g, versions[vi].name, len(versions)), "")
				rep.Eval(h.Sum64(), true)
				return
			}
		}
	}
	for _, v := range versions {
		if !t.check(ident, v, keys) {
			rep.Violate("C15/older-version-affected", fmt.Sprintf("%s at the end: version %s of %d", ident, v.name, len(versions)), "")
			break
		}
	}
	rep.Count("versions_retained", len(versions))
	rep.Count("memory_histories", 1)
	rep.Eval(h.Sum64(), true)
}

// directed: the smallest history in which a table loses its last live entry right before a flattening persist
func (t *tester) directed() {
	rep := t.rep
	ident := "directed: put A; WriteChain; tombstone A; WriteChain; ReadChain"
	rep.Case("%s", ident)
	rep.Eval(vk.Hash64("directed-empty-table"), true)
	st := stor.HeapStor(64 * 1024)
	st.Alloc(1)
	var chain Chain
	p, _ := vk.Catch(func() {
		m := chain.Hamt.Mutable()
		m.Put(&item{key: 0x1234500, data: 1, lastMod: chain.Clock})
		chain.Hamt = m.Freeze()
		_, chain = chain.WriteChain(st)
		m = chain.Hamt.Mutable()
		m.Put(&item{key: 0x1234500, tomb: true, lastMod: chain.Clock})
		chain.Hamt = m.Freeze()
		off, c2 := chain.WriteChain(st)
		rc := hamt.ReadChain(st, off, readItem)
		rep.Count("persist_cycles", 2)
		for it := range rc.All() {
			if !it.tomb {
				rep.Violate("C15/readchain/deletes-not-persisted-when-no-live-entry-remains", ident+fmt.Sprintf(" key %#x", it.key),
					map[string]any{"read": it.data, "offs_before": fmt.Sprint(chain.Offs), "offs_after": fmt.Sprint(c2.Offs), "clock": chain.Clock})
			}
		}
	})
	if p != nil {
		rep.Violate("C15/panic/directed", ident, fmt.Sprint(p))
	}
}

func TestVerifC15(t *testing.T) {
	rep := vk.NewReport("C15",
		"a case = one history over 4-123 keys whose hashes are clustered (1-4 base hashes; other keys share the low 5,10,...,35 bits or the whole hash with a base, so collisions reach every trie level "+
			"and overflow nodes): 300-399 persist cycles (or 20-79 with bigger groups) of [1-2 x (Mutable, 1-45 puts/updates/deletes, Freeze), check the newest and two random retained versions, "+
			"WriteChain, ReadChain, compare, continue with the written chain or (1 in 3) with the chain read back]; deletes are tombstones unless the key was created since the last persist "+
			"(db19/meta's rule); all frozen versions are retained and re-checked at the end; every history is non-trivial; distinct by key universe and op stream",
		"items are stamped and deleted exactly as db19/meta does (lastMod = chain.Clock, created/hard-delete rule); a different discipline (e.g. hard delete of a persisted key) is outside the contract",
		"tombstones may or may not be present in a chain that is read back; only live entries must match exactly")
	defer rep.Finish()
	tt := &tester{rep: rep}
	if vk.Shard() == 0 {
		tt.directed()
	}
	n := vk.N(300, 5000)
	for i := 0; i < n; i++ {
		tt.r = vk.RandFor(15, i)
		tt.history(i)
		tt.r = vk.RandFor(16, i)
		tt.pure(i)
	}
}
