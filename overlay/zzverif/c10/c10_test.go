// C10 Stored btrees behave as ordered maps.
//
// Black-box monitor over db19/index/btree on a heap store: trees are bulk-built with Builder and then changed by
// batches (ixbuf of valid inserts/updates/deletes) through MergeAndSave under several split factors and key shapes
// (fixed width, hostile short byte strings incl. the empty key, long shared prefixes, keys near the 4096 byte
// entry limit). After every batch the tree must equal the monitor's own sorted map: Lookup, forward/backward and
// ranged iteration, Check (ordering, count, checksums), QuickCheck, Stats, RangeFrac in [0,1]; the previous
// version of the tree must be unchanged (path copying).
package c10

import (
	"fmt"
	"hash/fnv"
	"math"
	"math/rand/v2"
	"sort"
	"strings"
	"testing"

	"github.com/apmckinlay/gsuneido/core"
	"github.com/apmckinlay/gsuneido/db19/index/btree"
	"github.com/apmckinlay/gsuneido/db19/index/iface"
	"github.com/apmckinlay/gsuneido/db19/index/ixbuf"
	"github.com/apmckinlay/gsuneido/db19/stor"
	"github.com/apmckinlay/gsuneido/util/cksum"
	vk "github.com/apmckinlay/gsuneido/util/verifkit"
)

const maxKey = "\xff\xff\xff\xff\xff\xff\xff\xff" // ixkey.Max

type kv struct {
	key string
	off uint64
}

type tester struct {
	rep       *vk.Report
	r         *rand.Rand
	synthetic bool // this history uses made-up record offsets (no records behind them)
}

// slug makes a stable class suffix from a panic message
func slug(msg string) string {
	var sb strings.Builder
	for _, c := range msg {
		switch {
		case c >= '0' && c <= '9':
			sb.WriteByte('N')
		case c == ' ' || c == ':':
			sb.WriteByte('-')
		case c < 128 && (c >= 'a' && c <= 'z' || c >= 'A' && c <= 'Z' || c == '(' || c == ')'):
			sb.WriteRune(c)
		}
		if sb.Len() >= 48 {
			break
		}
	}
	return sb.String()
}

func short(k string) string {
	if len(k) <= 40 {
		return fmt.Sprintf("%q", k)
	}
	return fmt.Sprintf("%q...(%d bytes)...%q", k[:12], len(k), k[len(k)-12:])
}

// ---------------------------------------------------------------------------------------------------------------
// key pools

var shapeNames = []string{"fixed", "hostile", "longprefix", "nearmax", "mixed", "prefix255"}

func (t *tester) pool(shape, n int) []string {
	r := t.r
	seen := map[string]bool{}
	var out []string
	add := func(k string) {
		if !seen[k] && len(k) <= 4096 && k < maxKey {
			seen[k] = true
			out = append(out, k)
		}
	}
	switch shape {
	case 0: // fixed width decimal, dense or sparse
		u := n * (1 + r.IntN(4))
		for _, i := range r.Perm(u)[:n] {
			add(fmt.Sprintf("%07d", i))
		}
	case 1: // hostile short byte strings, incl. the empty key, composite-looking
		alpha := []byte{0, 0, 1, 'a', 'b', 0xff}
		for tries := 0; len(out) < n && tries < 20*n; tries++ {
			l := r.IntN(10)
			b := make([]byte, l)
			for i := range b {
				b[i] = alpha[r.IntN(len(alpha))]
			}
			add(string(b))
		}
	case 2: // long shared prefix (separators become long: tree nodes hold few of them)
		p := strings.Repeat("p", 100+r.IntN(3900))
		for tries := 0; len(out) < n && tries < 20*n; tries++ {
			add(p + fmt.Sprintf("%05d", r.IntN(5*n+10)))
		}
	case 3: // near the maximum entry size, differing early or late
		base := []byte(strings.Repeat("m", 4096))
		for tries := 0; len(out) < n && tries < 20*n; tries++ {
			b := append([]byte{}, base[:4000+r.IntN(97)]...)
			for j := 0; j < 1+r.IntN(2); j++ {
				var pos int
				switch r.IntN(3) {
				case 0:
					pos = r.IntN(8)
				case 1:
					pos = len(b) - 1 - r.IntN(8)
				default:
					pos = r.IntN(len(b))
				}
				b[pos] = byte('a' + r.IntN(26))
			}
			add(string(b))
		}
	case 4: // mixed: short and huge keys in one tree
		for tries := 0; len(out) < n && tries < 20*n; tries++ {
			k := fmt.Sprintf("%04d", r.IntN(3*n+10))
			switch r.IntN(4) {
			case 0:
				k += strings.Repeat("x", 1000+r.IntN(3000))
			case 1:
				k += strings.Repeat("y", r.IntN(300))
			}
			add(k)
		}
	case 5: // shared prefix around the 255 byte limit of a leaf's stored prefix length
		p := strings.Repeat("q", 250+r.IntN(12))
		for tries := 0; len(out) < n && tries < 20*n; tries++ {
			add(p + fmt.Sprintf("%x", r.IntN(4*n+10)))
		}
	}
	sort.Strings(out)
	return out
}

// ---------------------------------------------------------------------------------------------------------------

type model struct {
	m map[string]uint64
}

func (m *model) sorted() []kv {
	out := make([]kv, 0, len(m.m))
	for k, o := range m.m {
		out = append(out, kv{k, o})
	}
	sort.Slice(out, func(i, j int) bool { return out[i].key < out[j].key })
	return out
}

func lowerBound(s []kv, k string) int {
	return sort.Search(len(s), func(i int) bool { return s[i].key >= k })
}

func sameKVs(a, b []kv) (int, bool) {
	n := min(len(a), len(b))
	for i := 0; i < n; i++ {
		if a[i] != b[i] {
			return i, false
		}
	}
	if len(a) != len(b) {
		return n, false
	}
	return 0, true
}

func describe(i int, got, want []kv) map[string]any {
	d := map[string]any{"at": i, "len_got": len(got), "len_want": len(want)}
	if i < len(got) {
		d["got"] = fmt.Sprintf("%s->%d", short(got[i].key), got[i].off)
	}
	if i < len(want) {
		d["want"] = fmt.Sprintf("%s->%d", short(want[i].key), want[i].off)
	}
	return d
}

func iterate(bt *btree.T, rng *iface.Range, forward bool) []kv {
	it := bt.Iterator()
	if rng != nil {
		it.Range(*rng)
	}
	var out []kv
	step := it.Next
	if !forward {
		step = it.Prev
	}
	for step(); !it.Eof(); step() {
		k, o := it.Cur()
		out = append(out, kv{strings.Clone(k), o})
		if len(out) > 1_000_000 {
			panic("iteration does not terminate")
		}
	}
	return out
}

func reverse(s []kv) []kv {
	out := make([]kv, len(s))
	for i, x := range s {
		out[len(s)-1-i] = x
	}
	return out
}

// pickBound chooses a range bound near existing keys
func (t *tester) pickBound(want []kv, pool []string) string {
	r := t.r
	switch r.IntN(10) {
	case 0:
		return ""
	case 1:
		return maxKey
	}
	var k string
	if len(want) > 0 && r.IntN(3) > 0 {
		k = want[r.IntN(len(want))].key
	} else if len(pool) > 0 {
		k = pool[r.IntN(len(pool))]
	}
	switch r.IntN(5) {
	case 0:
		return k + "\x00"
	case 1:
		if len(k) > 0 {
			return k[:len(k)-1]
		}
	case 2:
		if len(k) < 4000 {
			return k + "~"
		}
	}
	return k
}

// verify compares one tree with the expected sorted contents. full=false does the cheap part only.
func (t *tester) verify(ident string, bt *btree.T, want []kv, pool []string, split int, full bool) bool {
	rep := t.rep
	ok := true
	// Check: ordering, count, checksums, plus the keys it reports
	var ck []kv
	var count int
	if p, _ := vk.Catch(func() {
		count, _, _ = bt.Check(func(k string, o uint64) { ck = append(ck, kv{strings.Clone(k), o}) })
	}); p != nil {
		rep.Violate("C10/check-fails", ident, fmt.Sprint(p))
		ok = false
	} else {
		if i, same := sameKVs(ck, want); !same {
			rep.Violate("C10/check-keys-differ", ident, describe(i, ck, want))
			ok = false
		}
		if count != len(want) {
			rep.Violate("C10/check-count-wrong", ident, map[string]any{"count": count, "want": len(want)})
			ok = false
		}
	}
	rep.Count("verifications", 1)
	// iteration forwards and backwards
	deep := bt.TreeLevels() >= 8 // the iterator holds its path in an array of 8 tree levels
	if deep {
		rep.Count("trees_with_8_or_more_tree_levels", 1)
	}
	for _, fwd := range []bool{true, false} {
		name := map[bool]string{true: "next", false: "prev"}[fwd]
		var got []kv
		if p, _ := vk.Catch(func() { got = iterate(bt, nil, fwd) }); p != nil {
			if deep && strings.Contains(fmt.Sprint(p), "index out of range") {
				rep.Violate("C10/iterator-panics-on-tree-with-more-than-8-levels", ident, map[string]any{"panic": fmt.Sprint(p), "treeLevels": bt.TreeLevels(), "keys": len(want), "split": split})
				return ok // Check agreed with the model; nothing else can be read through an iterator
			}
			rep.Violate("C10/panic/iterate-"+name, ident, fmt.Sprint(p))
			ok = false
			continue
		}
		exp := want
		if !fwd {
			exp = reverse(want)
		}
		if i, same := sameKVs(got, exp); !same {
			cl := "C10/iteration-" + name + "-differs"
			rep.Violate(cl, ident, describe(i, got, exp))
			ok = false
		}
	}
	if !ok {
		return false
	}
	// Lookup: all keys of small trees, a sample of big ones (always first and last); absent probes
	look := func(k string, wantOff uint64) {
		var g uint64
		if p, _ := vk.Catch(func() { g = bt.Lookup(k) }); p != nil {
			rep.Violate("C10/panic/lookup", ident+" key "+short(k), fmt.Sprint(p))
			ok = false
		} else if g != wantOff {
			cl := "C10/lookup-wrong-offset"
			if wantOff == 0 {
				cl = "C10/lookup-finds-absent-key"
			} else if g == 0 {
				cl = "C10/lookup-misses-key"
			}
			rep.Violate(cl, ident+" key "+short(k), map[string]any{"got": g, "want": wantOff})
			ok = false
		}
		rep.Count("lookups", 1)
	}
	step := 1
	if !full && len(want) > 200 {
		step = len(want) / 200
	}
	for i := t.r.IntN(step); i < len(want); i += step {
		look(want[i].key, want[i].off)
	}
	if len(want) > 0 {
		look(want[0].key, want[0].off)
		look(want[len(want)-1].key, want[len(want)-1].off)
	}
	present := func(k string) bool {
		i := lowerBound(want, k)
		return i < len(want) && want[i].key == k
	}
	nprobe := 30
	for i := 0; i < nprobe; i++ {
		k := t.pickBound(want, pool)
		if len(k) <= 4096 && !present(k) {
			look(k, 0)
			rep.Count("absent_probes", 1)
		}
	}
	// ranged iteration and RangeFrac
	nr := 4
	if full {
		nr = 10
	}
	for i := 0; i < nr; i++ {
		org, end := t.pickBound(want, pool), t.pickBound(want, pool)
		if t.r.IntN(8) > 0 && org > end {
			org, end = end, org
		}
		lo, hi := lowerBound(want, org), lowerBound(want, end)
		if hi < lo {
			hi = lo
		}
		exp := want[lo:hi]
		rng := iface.Range{Org: org, End: end}
		rident := fmt.Sprintf("%s range [%s,%s)", ident, short(org), short(end))
		for _, fwd := range []bool{true, false} {
			name := map[bool]string{true: "next", false: "prev"}[fwd]
			var got []kv
			if p, _ := vk.Catch(func() { got = iterate(bt, &rng, fwd) }); p != nil {
				rep.Violate("C10/panic/range-iterate-"+name, rident, fmt.Sprint(p))
				ok = false
				continue
			}
			e := exp
			if !fwd {
				e = reverse(exp)
			}
			if j, same := sameKVs(got, e); !same {
				rep.Violate("C10/range-iteration-"+name+"-differs", rident, describe(j, got, e))
				ok = false
			}
		}
		rep.Count("ranges", 1)
		if len(exp) > 0 {
			rep.Count("ranges_nonempty", 1)
		}
		var f float64
		if p, _ := vk.Catch(func() { f = bt.RangeFrac(org, end) }); p != nil {
			rep.Violate("C10/panic/rangefrac", rident, fmt.Sprint(p))
			ok = false
			continue
		}
		rep.Count("rangefracs", 1)
		switch {
		case math.IsNaN(f) || math.IsInf(f, 0):
			rep.Violate("C10/rangefrac-not-a-number", rident, fmt.Sprint(f))
		case f < 0:
			rep.Violate("C10/rangefrac-below-0", rident, f)
		case f > 1:
			rep.Violate("C10/rangefrac-above-1", rident, map[string]any{"frac": f, "keys_in_range": len(exp), "keys": len(want), "split": split, "levels": bt.TreeLevels()})
		case org >= end && f != 0:
			rep.Violate("C10/rangefrac-nonzero-for-empty-range", rident, f)
		}
		if len(want) > 0 && org < end && !(org == "" && end == maxKey) && f >= 0 && f <= 1 {
			exact := float64(len(exp)) / float64(len(want))
			rep.Max("rangefrac_max_abs_error_permille", int(math.Abs(f-exact)*1000))
			if math.Abs(f-exact) < 1e-9 {
				rep.Count("rangefrac_exact", 1)
			}
		}
	}
	// QuickCheck and Stats
	if t.synthetic {
		rep.Count("quickcheck_skipped_synthetic_offsets", 1)
	} else if p, _ := vk.Catch(func() { bt.QuickCheck() }); p != nil {
		rep.Violate("C10/quickcheck-fails", ident, fmt.Sprint(p))
		ok = false
	}
	var st btree.Stats
	if p, _ := vk.Catch(func() { st = bt.Stats() }); p != nil {
		rep.Violate("C10/panic/stats", ident, fmt.Sprint(p))
		ok = false
	} else {
		if st.Count != len(want) || st.Levels != bt.TreeLevels()+1 {
			rep.Violate("C10/stats-wrong", ident, map[string]any{"stats": st.String(), "keys": len(want), "treeLevels": bt.TreeLevels()})
			ok = false
		}
		if st.Nleaf > 0 && st.Count > st.Nleaf*split {
			rep.Violate("C10/leaf-fanout-above-split", ident, map[string]any{"stats": st.String(), "split": split})
			ok = false
		}
		if bt.TreeLevels() > 0 && st.RootFan > split+1 {
			rep.Violate("C10/root-fanout-above-split", ident, map[string]any{"stats": st.String(), "split": split})
			ok = false
		}
		rep.Max("max_levels", st.Levels)
	}
	return ok
}

// newRecord stores a small checksummed data record, as the database does, and returns its offset
// (QuickCheck verifies the checksums of the records the leaves point to)
var recSeq int

func newRecord(st *stor.Stor) uint64 {
	recSeq++
	var b core.RecordBuilder
	b.Add(core.IntVal(recSeq))
	rec := b.Build()
	off, buf := st.Alloc(len(rec) + cksum.Len)
	copy(buf, rec)
	cksum.Update(buf)
	return off
}

// directed builds the tree shape that makes the fan-out estimate of RangeFrac overshoot: full leaves of short keys
// at both ends and many two-key leaves of huge keys between them
func (t *tester) directed() {
	defer btree.SetSplit(btree.SetSplit(100))
	st := stor.HeapStor(64 * 1024)
	st.Alloc(1)
	b := btree.NewBuilder(st)
	var want []kv
	add := func(k string) {
		o := newRecord(st)
		b.Add(k, o)
		want = append(want, kv{k, o})
	}
	for i := 0; i < 100; i++ {
		add(fmt.Sprintf("a%03d", i))
	}
	for i := 0; i < 20; i++ {
		add(fmt.Sprintf("m%03d", i) + strings.Repeat("x", 4000))
	}
	for i := 0; i < 100; i++ {
		add(fmt.Sprintf("z%03d", i))
	}
	bt := b.Finish()
	t.rep.Case("directed: 100 short + 20 huge + 100 short keys, split 100")
	t.rep.Eval(vk.Hash64("directed-rangefrac"), true)
	ident := "directed tree: Builder, split 100, keys a000..a099, m000..m019 + 4000 x 'x', z000..z099"
	t.r = vk.RandFor(10, 1<<30)
	t.verify(ident, bt, want, []string{"a000", "z099"}, 100, true)
	for _, rg := range [][2]string{{"a000", "z099"}, {"a050", "z050"}, {"", "z099"}} {
		f := bt.RangeFrac(rg[0], rg[1])
		lo, hi := lowerBound(want, rg[0]), lowerBound(want, rg[1])
		t.rep.Count("rangefracs", 1)
		if f < 0 || f > 1 || math.IsNaN(f) {
			t.rep.Violate("C10/rangefrac-above-1", fmt.Sprintf("%s range [%q,%q)", ident, rg[0], rg[1]),
				map[string]any{"frac": f, "keys_in_range": hi - lo, "keys": len(want), "split": 100, "levels": bt.TreeLevels()})
		}
	}
}

// ---------------------------------------------------------------------------------------------------------------

var splits = []int{3, 4, 5, 8, 20, 100}

var batchModes = []string{"mixed", "delete-run", "delete-all", "insert-run", "first-node", "last-node", "update-only", "insert-all", "delete-most-of-middle"}

func (t *tester) one(ci int) {
	r := t.r
	rep := t.rep
	split := splits[r.IntN(len(splits))]
	shape := r.IntN(len(shapeNames))
	var n0 int
	switch r.IntN(8) {
	case 0:
		n0 = r.IntN(3)
	case 1:
		n0 = max(0, split-1+r.IntN(3))
	case 2:
		n0 = max(0, split*split-1+r.IntN(3))
	case 3:
		n0 = 1 + r.IntN(3000)
	default:
		n0 = 1 + r.IntN(400)
	}
	if shape == 3 || shape == 4 {
		n0 = min(n0, 120) // huge keys: keep memory and time bounded
	} else if shape == 2 {
		n0 = min(n0, 300)
	}
	poolN := n0 + 20 + r.IntN(n0+20)
	pool := t.pool(shape, poolN)
	ident := fmt.Sprintf("case %d shard %d seed %d split %d keys %s", ci, vk.Shard(), vk.Seed(), split, shapeNames[shape])
	rep.Case("%s n0=%d pool=%d", ident, n0, len(pool))
	defer btree.SetSplit(btree.SetSplit(split))
	st := stor.HeapStor(64 * 1024)
	st.Alloc(1) // offset 0 means "no node"
	h := fnv.New64a()
	fmt.Fprintf(h, "%d %d %d|", split, shape, n0)
	m := &model{m: map[string]uint64{}}
	newOff := func() uint64 { return newRecord(st) }
	// a third of the histories use made-up record offsets over the whole 40 bit range the nodes can store (the real
	// ones above are small because the test store is small); QuickCheck, which reads the records, is skipped there
	t.synthetic = ci%3 == 2
	if t.synthetic {
		usedOffs := map[uint64]bool{}
		newOff = func() uint64 {
			for {
				var o uint64
				switch r.IntN(4) {
				case 0:
					o = 1 + r.Uint64N(1<<32-1)
				case 1:
					o = 1<<32 - 3 + r.Uint64N(6) // around the 32 bit boundary
				default:
					o = 1<<32 + r.Uint64N(1<<40-1<<32)
				}
				if !usedOffs[o] {
					usedOffs[o] = true
					if o >= 1<<32 {
						rep.Count("synthetic_offsets_above_32_bits", 1)
					}
					return o
				}
			}
		}
	}
	// initial tree from the Builder: a random subset of the pool, in order
	var bt *btree.T
	{
		n0 = min(n0, len(pool))
		idx := r.Perm(len(pool))[:n0]
		sort.Ints(idx)
		b := btree.NewBuilder(st)
		if p, _ := vk.Catch(func() {
			for _, i := range idx {
				o := newOff()
				if !b.Add(pool[i], o) {
					panic("Builder.Add returned false for a new key")
				}
				m.m[pool[i]] = o
				fmt.Fprintf(h, "b%d,", i)
			}
			bt = b.Finish()
		}); p != nil {
			rep.Violate("C10/panic/builder", ident, fmt.Sprint(p))
			return
		}
	}
	rep.Count("trees", 1)
	rep.Count("built_keys", n0)
	want := m.sorted()
	multi := bt.TreeLevels() > 0
	if !t.verify(ident+" after Builder", bt, want, pool, split, true) {
		rep.Eval(h.Sum64(), multi)
		return
	}
	nb := 1 + r.IntN(12)
	if r.IntN(4) == 0 {
		nb = 1 + r.IntN(20)
	}
	for bi := 0; bi < nb; bi++ {
		mode := r.IntN(len(batchModes))
		ib := &ixbuf.T{}
		nops := 0
		// ops are applied to the model and the ixbuf together; only valid ops are generated
		ins := func(k string) {
			if _, has := m.m[k]; has {
				return
			}
			o := newOff()
			m.m[k] = o
			ib.Insert(k, o)
			fmt.Fprintf(h, "+%s,", k)
			nops++
		}
		upd := func(k string) {
			if _, has := m.m[k]; !has {
				return
			}
			o := newOff()
			m.m[k] = o
			ib.Update(k, o)
			fmt.Fprintf(h, "=%s,", k)
			nops++
		}
		del := func(k string) {
			o, has := m.m[k]
			if !has {
				return
			}
			delete(m.m, k)
			ib.Delete(k, o)
			fmt.Fprintf(h, "-%s,", k)
			nops++
		}
		cur := want // sorted contents before this batch
		size := 1 + r.IntN(60)
		if r.IntN(4) == 0 {
			size = 1 + r.IntN(500)
		}
		switch batchModes[mode] {
		case "mixed":
			for i := 0; i < size; i++ {
				k := pool[r.IntN(len(pool))]
				switch r.IntN(3) {
				case 0:
					ins(k)
				case 1:
					upd(k)
				default:
					del(k)
				}
			}
		case "delete-run": // a contiguous run of present keys: empties whole leaves
			if len(cur) > 0 {
				s := r.IntN(len(cur))
				for i := s; i < min(len(cur), s+size); i++ {
					del(cur[i].key)
				}
			}
		case "delete-all":
			if r.IntN(3) == 0 {
				for _, e := range cur {
					del(e.key)
				}
			} else if len(cur) > 0 { // all but one / two
				keep := r.IntN(len(cur))
				for i, e := range cur {
					if i != keep && i != keep+1 {
						del(e.key)
					}
				}
			}
		case "insert-run": // a contiguous run of pool keys: splits
			s := r.IntN(len(pool))
			for i := s; i < min(len(pool), s+size); i++ {
				ins(pool[i])
			}
		case "first-node":
			for i := 0; i < min(len(pool), 1+r.IntN(split+2)); i++ {
				switch r.IntN(3) {
				case 0:
					ins(pool[i])
				case 1:
					upd(pool[i])
				default:
					del(pool[i])
				}
			}
		case "last-node":
			for i := 0; i < min(len(pool), 1+r.IntN(split+2)); i++ {
				k := pool[len(pool)-1-i]
				switch r.IntN(3) {
				case 0:
					ins(k)
				case 1:
					upd(k)
				default:
					del(k)
				}
			}
		case "update-only":
			for i := 0; i < size && len(cur) > 0; i++ {
				upd(cur[r.IntN(len(cur))].key)
			}
		case "insert-all":
			for _, k := range pool {
				ins(k)
			}
		case "delete-most-of-middle": // leaves the ends full and the middle sparse
			if len(cur) > 4*split {
				lo, hi := split+r.IntN(split), len(cur)-split-r.IntN(split)
				for i := lo; i < hi; i++ {
					if r.IntN(split) != 0 {
						del(cur[i].key)
					}
				}
			}
		}
		if nops == 0 {
			continue
		}
		bident := fmt.Sprintf("%s batch %d/%d %s (%d ops on %d keys)", ident, bi, nb, batchModes[mode], nops, len(cur))
		rep.Case("%s", bident)
		prev, prevLevels := bt, bt.TreeLevels()
		var st0 btree.Stats
		vk.Catch(func() { st0 = prev.Stats() })
		var bt2 *btree.T
		if p, stk := vk.Catch(func() { bt2 = bt.MergeAndSave(ib.Iter()) }); p != nil {
			rep.Violate("C10/merge-and-save-panics/"+slug(fmt.Sprint(p)), bident, map[string]any{"panic": fmt.Sprint(p), "stack": vk.Trunc(stk, 3000)})
			rep.Eval(h.Sum64(), multi)
			return
		}
		rep.Count("batches", 1)
		rep.Count("batch_ops", nops)
		rep.Seen("batch_modes", batchModes[mode])
		want = m.sorted()
		full := bi == nb-1 || len(want) <= 300
		okb := t.verify(bident, bt2, want, pool, split, full)
		// the previous version must be unchanged (readers may still use it)
		if prev.TreeLevels() >= 8 {
			// cannot be read through an iterator (reported above)
		} else if got, okp := func() (g []kv, ok bool) {
			p, _ := vk.Catch(func() { g = iterate(prev, nil, true) })
			return g, p == nil
		}(); !okp {
			rep.Violate("C10/old-version-unreadable", bident, "")
			okb = false
		} else if i, same := sameKVs(got, cur); !same {
			rep.Violate("C10/old-version-changed", bident, describe(i, got, cur))
			okb = false
		}
		if !okb {
			rep.Eval(h.Sum64(), multi)
			return
		}
		bt = bt2
		if bt.TreeLevels() > 0 {
			multi = true
		}
		switch {
		case bt.TreeLevels() > prevLevels:
			rep.Count("levels_grew", 1)
		case bt.TreeLevels() < prevLevels:
			rep.Count("levels_shrank", 1)
		}
		if len(want) == 0 {
			rep.Count("trees_emptied", 1)
		}
		var st1 btree.Stats
		vk.Catch(func() { st1 = bt.Stats() })
		if st1.Nleaf < st0.Nleaf {
			rep.Count("batches_removing_leaves", 1)
		} else if st1.Nleaf > st0.Nleaf {
			rep.Count("batches_splitting_leaves", 1)
		}
	}
	rep.Eval(h.Sum64(), multi)
	rep.Seen("shapes", shapeNames[shape])
	rep.Seen("splits", fmt.Sprint(split))
	if rep.WantSample() && ci < 2 {
		var ks []string
		for i := 0; i < min(3, len(want)); i++ {
			ks = append(ks, short(want[i].key))
		}
		rep.Sample(map[string]any{"case": ident, "built_keys": n0, "batches": nb, "final_keys": len(want), "final_levels": bt.TreeLevels() + 1, "first_keys": ks})
	}
}

func TestVerifC10(t *testing.T) {
	rep := vk.NewReport("C10",
		"a case = one tree: split factor from {3,4,5,8,20,100}, key shape from {fixed width, hostile short byte strings incl. the empty key, long shared prefix (100-4000 bytes), "+
			"near-maximum 4000-4096 byte keys, mixed short/huge, shared prefix around 255 bytes}, bulk-built from 0-3000 keys (sizes around split and split^2 included), then 1-20 batches of valid "+
			"inserts/updates/deletes (mixed, contiguous delete runs, delete all / all but two, contiguous insert runs, first node only, last node only, update only, insert everything, "+
			"thin out the middle) through MergeAndSave, verified after every batch; non-trivial = the tree had at least one tree level at some point; distinct by the full op stream",
		"keys sort below ixkey.Max and are at most 4096 bytes (ixkey's entry limit)",
		"RangeFrac is only required to be a number in [0,1] (0 for an empty range); its accuracy is recorded, not judged")
	defer rep.Finish()
	tt := &tester{rep: rep}
	if vk.Shard() == 0 {
		tt.directed()
	}
	n := vk.N(400, 20000)
	for i := 0; i < n; i++ {
		tt.r = vk.RandFor(10, i)
		tt.one(i)
	}
}
