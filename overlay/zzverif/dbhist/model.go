// Package dbhist is the shared database-history generator and plain-Go reference
// model of the /verif monitors C04, C05, C19, C20 and C21.
// It is NOT part of the repository (compiled in through go test -overlay).
//
// model.go: the model. It is written from the documentation of the admin
// requests and of keys / unique indexes / foreign keys and never calls db19.
package dbhist

import (
	"fmt"
	"slices"
	"sort"
	"strings"
)

// Val is a field value: empty, an integer or a string.
type Val struct {
	IsInt bool
	I     int
	S     string
}

func (v Val) Empty() bool { return !v.IsInt && v.S == "" }

func (v Val) String() string {
	if v.IsInt {
		return fmt.Sprint(v.I)
	}
	if v.S == "" {
		return "''"
	}
	if len(v.S) > 24 {
		return fmt.Sprintf("'%s..'(%d)", v.S[:12], len(v.S))
	}
	return "'" + v.S + "'"
}

// CmpVal orders values like packed values: empty < numbers (by value) < strings (bytewise).
func CmpVal(a, b Val) int {
	ra, rb := rank(a), rank(b)
	if ra != rb {
		return ra - rb
	}
	switch ra {
	case 1:
		switch {
		case a.I < b.I:
			return -1
		case a.I > b.I:
			return 1
		}
		return 0
	case 2:
		return strings.Compare(a.S, b.S)
	}
	return 0
}

func rank(v Val) int {
	switch {
	case v.IsInt:
		return 1
	case v.S == "":
		return 0
	}
	return 2
}

func CmpTuple(a, b []Val) int {
	for i := 0; i < len(a) && i < len(b); i++ {
		if c := CmpVal(a[i], b[i]); c != 0 {
			return c
		}
	}
	return len(a) - len(b)
}

// Row is one record by physical column position (shorter than Cols = trailing empty).
type Row []Val

func (r Row) At(i int) Val {
	if i < 0 || i >= len(r) {
		return Val{}
	}
	return r[i]
}

func (r Row) String() string {
	parts := make([]string, len(r))
	for i, v := range r {
		parts[i] = v.String()
	}
	return "[" + strings.Join(parts, ",") + "]"
}

// Fkey modes (documented: block, cascade, cascade update)
const (
	Block         = 0
	CascadeUpdate = 1
	CascadeDelete = 2
	Cascade       = 3
)

type Index struct {
	Mode    byte // 'k' key, 'i' index, 'u' unique index
	Cols    []string
	FkTable string
	FkCols  []string // columns of the key in FkTable
	FkMode  byte
	BestKey []string // the key that makes a non-key index entry unique (fixed when the index is created)
}

func (ix *Index) clone() Index {
	c := *ix
	c.Cols = slices.Clone(ix.Cols)
	c.FkCols = slices.Clone(ix.FkCols)
	c.BestKey = slices.Clone(ix.BestKey)
	return c
}

// Text is the admin syntax of the index.
func (ix *Index) Text() string {
	s := map[byte]string{'k': "key", 'i': "index", 'u': "index unique"}[ix.Mode]
	s += "(" + strings.Join(ix.Cols, ",") + ")"
	if ix.FkTable != "" {
		s += " in " + ix.FkTable
		if !slices.Equal(ix.FkCols, ix.Cols) {
			s += "(" + strings.Join(ix.FkCols, ",") + ")"
		}
		switch ix.FkMode {
		case Cascade:
			s += " cascade"
		case CascadeUpdate:
			s += " cascade update"
		}
	}
	return s
}

type Table struct {
	Name    string
	Cols    []string // physical columns, "-" = deleted
	Derived []string
	Idx     []Index
	Rows    []Row // rows are never modified in place
}

func (t *Table) clone() *Table {
	c := &Table{Name: t.Name, Cols: slices.Clone(t.Cols), Derived: slices.Clone(t.Derived),
		Rows: slices.Clone(t.Rows)}
	c.Idx = make([]Index, len(t.Idx))
	for i := range t.Idx {
		c.Idx[i] = t.Idx[i].clone()
	}
	return c
}

func (t *Table) Col(name string) int { return slices.Index(t.Cols, name) }

func (t *Table) FindIndex(cols []string) int {
	for i := range t.Idx {
		if slices.Equal(t.Idx[i].Cols, cols) {
			return i
		}
	}
	return -1
}

// FirstKey is the first key index (used to identify rows).
func (t *Table) FirstKey() int {
	for i := range t.Idx {
		if t.Idx[i].Mode == 'k' {
			return i
		}
	}
	return -1
}

func (t *Table) Tuple(r Row, cols []string) []Val {
	out := make([]Val, len(cols))
	for i, c := range cols {
		out[i] = r.At(t.Col(c))
	}
	return out
}

func allEmpty(vs []Val) bool {
	for _, v := range vs {
		if !v.Empty() {
			return false
		}
	}
	return true
}

func eqTuple(a, b []Val) bool { return len(a) == len(b) && CmpTuple(a, b) == 0 }

// SchemaText is the admin syntax of the table ("name (cols) indexes").
func (t *Table) SchemaText() string {
	cols := append(slices.Clone(t.Cols), t.Derived...)
	s := t.Name + " (" + strings.Join(cols, ",") + ")"
	for i := range t.Idx {
		s += " " + t.Idx[i].Text()
	}
	return s
}

// LiveCols are the columns that are not deleted.
func (t *Table) LiveCols() []string {
	var out []string
	for _, c := range t.Cols {
		if c != "-" {
			out = append(out, c)
		}
	}
	return out
}

type Model struct {
	Tables map[string]*Table
	Views  map[string]string
}

func NewModel() *Model {
	return &Model{Tables: map[string]*Table{}, Views: map[string]string{}}
}

// Clone is a deep copy (rows are shared, they are immutable).
func (m *Model) Clone() *Model {
	c := NewModel()
	for k, t := range m.Tables {
		c.Tables[k] = t.clone()
	}
	for k, v := range m.Views {
		c.Views[k] = v
	}
	return c
}

func (m *Model) TableNames() []string {
	names := make([]string, 0, len(m.Tables))
	for n := range m.Tables {
		names = append(names, n)
	}
	sort.Strings(names)
	return names
}

func (m *Model) NRows() int {
	n := 0
	for _, t := range m.Tables {
		n += len(t.Rows)
	}
	return n
}

// FkRef is one foreign key seen from its target.
type FkRef struct {
	Table  string // referencing table
	IIndex int    // index in the referencing table
	Cols   []string
	Mode   byte
}

// FkToHere lists the foreign keys that point to index ti of table t.
func (m *Model) FkToHere(t *Table, ti int) []FkRef {
	var out []FkRef
	if t.Idx[ti].Mode != 'k' {
		return nil
	}
	for _, name := range m.TableNames() {
		s := m.Tables[name]
		for i := range s.Idx {
			ix := &s.Idx[i]
			if ix.FkTable == t.Name && slices.Equal(ix.FkCols, t.Idx[ti].Cols) {
				out = append(out, FkRef{Table: s.Name, IIndex: i, Cols: ix.Cols, Mode: ix.FkMode})
			}
		}
	}
	return out
}

func (m *Model) referencedByOthers(t *Table) []string {
	var out []string
	for _, name := range m.TableNames() {
		s := m.Tables[name]
		if s.Name == t.Name {
			continue
		}
		for i := range s.Idx {
			if s.Idx[i].FkTable == t.Name {
				out = append(out, s.Name)
			}
		}
	}
	return out
}

//-------------------------------------------------------------------
// admin requests

type Req struct {
	Kind    string // create ensure altercreate alterdrop alterrename rename view drop
	Table   string
	Cols    []string
	Derived []string
	Idx     []Index
	From    []string
	To      []string
	NewName string
	Def     string
}

func (q *Req) schemaText() string {
	s := ""
	if len(q.Cols)+len(q.Derived) > 0 || q.Kind == "create" || q.Kind == "ensure" {
		s = " (" + strings.Join(append(slices.Clone(q.Cols), q.Derived...), ",") + ")"
	}
	for i := range q.Idx {
		s += " " + q.Idx[i].Text()
	}
	return s
}

// Text is the admin request in Suneido syntax.
func (q *Req) Text() string {
	switch q.Kind {
	case "create":
		return "create " + q.Table + q.schemaText()
	case "ensure":
		return "ensure " + q.Table + q.schemaText()
	case "altercreate":
		return "alter " + q.Table + " create" + q.schemaText()
	case "alterdrop":
		return "alter " + q.Table + " drop" + q.schemaText()
	case "alterrename":
		parts := make([]string, len(q.From))
		for i := range q.From {
			parts[i] = q.From[i] + " to " + q.To[i]
		}
		return "alter " + q.Table + " rename " + strings.Join(parts, ", ")
	case "rename":
		return "rename " + q.Table + " to " + q.NewName
	case "view":
		return "view " + q.Table + " = " + q.Def
	case "drop":
		return "drop " + q.Table
	case "raw":
		return q.Def
	}
	panic("bad req kind " + q.Kind)
}

func isSystemTable(name string) bool {
	switch name {
	case "tables", "columns", "indexes", "views":
		return true
	}
	return false
}

// Apply applies an admin request atomically. A non-nil error means the request
// is invalid according to the model and nothing changed.
func (m *Model) Apply(q *Req) error {
	c := m.Clone()
	if err := c.apply(q); err != nil {
		return err
	}
	*m = *c
	return nil
}

func errf(format string, args ...any) error { return fmt.Errorf(format, args...) }

func (m *Model) apply(q *Req) error {
	if q.Kind == "raw" {
		return errf("malformed or invalid request")
	}
	if isSystemTable(q.Table) || (q.Kind == "rename" && isSystemTable(q.NewName)) {
		return errf("system table")
	}
	switch q.Kind {
	case "create":
		if m.Tables[q.Table] != nil {
			return errf("create existing table")
		}
		return m.create(q)
	case "ensure":
		return m.ensure(q)
	case "altercreate":
		return m.alterCreate(q)
	case "alterdrop":
		return m.alterDrop(q)
	case "alterrename":
		return m.alterRename(q)
	case "rename":
		return m.renameTable(q)
	case "view":
		if _, ok := m.Views[q.Table]; ok {
			return errf("view exists")
		}
		m.Views[q.Table] = q.Def
		return nil
	case "drop":
		if _, ok := m.Views[q.Table]; ok {
			delete(m.Views, q.Table)
			return nil
		}
		t := m.Tables[q.Table]
		if t == nil {
			return errf("drop nonexistent")
		}
		if refs := m.referencedByOthers(t); len(refs) > 0 {
			return errf("drop table used by foreign keys %v", refs)
		}
		delete(m.Tables, q.Table)
		return nil
	}
	return errf("bad kind")
}

func hasDup(list []string) bool {
	for i := range list {
		if list[i] != "-" && slices.Contains(list[i+1:], list[i]) {
			return true
		}
	}
	return false
}

// checkSchema validates columns and indexes of a whole table.
func (m *Model) checkSchema(t *Table) error {
	if hasDup(t.Cols) || hasDup(t.Derived) {
		return errf("duplicate column")
	}
	nkeys := 0
	for i := range t.Idx {
		ix := &t.Idx[i]
		if ix.Mode == 'k' {
			nkeys++
		} else if len(ix.Cols) == 0 {
			return errf("index columns must not be empty")
		}
		for _, c := range ix.Cols {
			if c == "-" || !slices.Contains(t.Cols, c) {
				return errf("invalid index column %s", c)
			}
		}
		for j := 0; j < i; j++ {
			if slices.Equal(ix.Cols, t.Idx[j].Cols) {
				return errf("duplicate index")
			}
		}
	}
	if nkeys == 0 {
		return errf("key required")
	}
	return nil
}

// checkFk validates the foreign key of one index (target exists, points to a key).
func (m *Model) checkFk(t *Table, ix *Index) error {
	if ix.FkTable == "" {
		return nil
	}
	target := m.Tables[ix.FkTable]
	if ix.FkTable == t.Name {
		target = t
	}
	if target == nil {
		return errf("foreign key to nonexistent table")
	}
	j := target.FindIndex(ix.FkCols)
	if j < 0 {
		return errf("foreign key to nonexistent index")
	}
	if target.Idx[j].Mode != 'k' {
		return errf("foreign key must point to key")
	}
	return nil
}

// setBestKeys fixes BestKey of the indexes from position nold:
// the key that needs the fewest additional columns, ties: fewer columns, then first.
func setBestKeys(t *Table, nold int) {
	for i := nold; i < len(t.Idx); i++ {
		ix := &t.Idx[i]
		if ix.Mode == 'k' {
			continue
		}
		best, bestLen, bestCols := -1, 1<<30, 1<<30
		for j := range t.Idx {
			k := &t.Idx[j]
			if k.Mode != 'k' {
				continue
			}
			n := 0
			for _, c := range k.Cols {
				if !slices.Contains(ix.Cols, c) {
					n++
				}
			}
			if n < bestLen || (n == bestLen && len(k.Cols) < bestCols) {
				best, bestLen, bestCols = j, n, len(k.Cols)
			}
		}
		ix.BestKey = slices.Clone(t.Idx[best].Cols)
		if ix.BestKey == nil {
			ix.BestKey = []string{}
		}
	}
}

func (m *Model) create(q *Req) error {
	t := &Table{Name: q.Table, Cols: slices.Clone(q.Cols), Derived: slices.Clone(q.Derived)}
	for i := range q.Idx {
		t.Idx = append(t.Idx, q.Idx[i].clone())
	}
	if err := m.checkSchema(t); err != nil {
		return err
	}
	for i := range t.Idx {
		if err := m.checkFk(t, &t.Idx[i]); err != nil {
			return err
		}
	}
	setBestKeys(t, 0)
	m.Tables[t.Name] = t
	return nil
}

func sameIndexDef(a, b *Index) bool {
	return slices.Equal(a.Cols, b.Cols) && a.Mode == b.Mode && a.FkTable == b.FkTable &&
		a.FkMode == b.FkMode && slices.Equal(a.FkCols, b.FkCols)
}

func subset(sub, super []string) bool {
	for _, c := range sub {
		if !slices.Contains(super, c) {
			return false
		}
	}
	return true
}

func (m *Model) ensure(q *Req) error {
	t := m.Tables[q.Table]
	if t == nil {
		return m.create(q)
	}
	// fast path of the implementation: everything already there
	if subset(q.Cols, t.Cols) && subset(q.Derived, t.Derived) {
		all := true
		for i := range q.Idx {
			j := t.FindIndex(q.Idx[i].Cols)
			if j < 0 {
				all = false
				break
			}
			if !sameIndexDef(&t.Idx[j], &q.Idx[i]) {
				return errf("ensure: index exists but is different")
			}
		}
		if all {
			return nil
		}
	}
	var newCols, newDer []string
	for _, c := range q.Cols {
		if !slices.Contains(t.Cols, c) && !slices.Contains(newCols, c) {
			newCols = append(newCols, c)
		}
	}
	for _, c := range q.Derived {
		if !slices.Contains(t.Derived, c) && !slices.Contains(newDer, c) {
			newDer = append(newDer, c)
		}
	}
	var newIdx []Index
	for i := range q.Idx {
		if t.FindIndex(q.Idx[i].Cols) < 0 {
			newIdx = append(newIdx, q.Idx[i].clone())
		}
	}
	return m.addColsIndexes(t, newCols, newDer, newIdx)
}

func (m *Model) alterCreate(q *Req) error {
	t := m.Tables[q.Table]
	if t == nil {
		return errf("alter nonexistent table")
	}
	for _, c := range q.Cols {
		if slices.Contains(t.Cols, c) {
			return errf("create existing column")
		}
	}
	for _, c := range q.Derived {
		if slices.Contains(t.Derived, c) {
			return errf("create existing column")
		}
	}
	idx := make([]Index, len(q.Idx))
	for i := range q.Idx {
		idx[i] = q.Idx[i].clone()
	}
	return m.addColsIndexes(t, q.Cols, q.Derived, idx)
}

// addColsIndexes appends columns and indexes; new indexes over existing rows
// must satisfy uniqueness and foreign keys.
func (m *Model) addColsIndexes(t *Table, cols, der []string, idx []Index) error {
	t.Cols = append(t.Cols, cols...)
	t.Derived = append(t.Derived, der...)
	nold := len(t.Idx)
	t.Idx = append(t.Idx, idx...)
	if err := m.checkSchema(t); err != nil {
		return err
	}
	for i := nold; i < len(t.Idx); i++ {
		if err := m.checkFk(t, &t.Idx[i]); err != nil {
			return err
		}
	}
	setBestKeys(t, nold)
	for i := nold; i < len(t.Idx); i++ {
		ix := &t.Idx[i]
		if err := m.checkIndexData(t, ix); err != nil {
			return err
		}
	}
	return nil
}

// checkIndexData: can index ix be built over the existing rows of t?
func (m *Model) checkIndexData(t *Table, ix *Index) error {
	if len(t.Rows) == 0 {
		return nil
	}
	if ix.Mode == 'k' || ix.Mode == 'u' {
		seen := map[string]bool{}
		for _, r := range t.Rows {
			tu := t.Tuple(r, ix.Cols)
			if ix.Mode == 'u' && allEmpty(tu) {
				continue
			}
			k := fmt.Sprint(tu)
			if seen[k] {
				return errf("cannot build index: duplicate value")
			}
			seen[k] = true
		}
	}
	if ix.FkTable != "" {
		target := m.Tables[ix.FkTable]
		for _, r := range t.Rows {
			tu := t.Tuple(r, ix.Cols[:min(len(ix.Cols), len(ix.FkCols))])
			if allEmpty(tu) {
				continue
			}
			if !target.hasTuple(ix.FkCols, tu) {
				return errf("cannot build index: blocked by foreign key")
			}
		}
	}
	return nil
}

func (t *Table) hasTuple(cols []string, tu []Val) bool {
	for _, r := range t.Rows {
		if eqTuple(t.Tuple(r, cols), tu) {
			return true
		}
	}
	return false
}

func (m *Model) alterDrop(q *Req) error {
	t := m.Tables[q.Table]
	if t == nil {
		return errf("alter nonexistent table")
	}
	// indexes first
	for i := range q.Idx {
		j := t.FindIndex(q.Idx[i].Cols)
		if j < 0 {
			return errf("drop nonexistent index")
		}
		if len(m.FkToHere(t, j)) > 0 {
			return errf("drop index used by foreign keys")
		}
		for k := range t.Idx {
			if k != j && t.Idx[k].Mode != 'k' && slices.Equal(t.Idx[k].BestKey, q.Idx[i].Cols) {
				return errf("drop key used to make index unique")
			}
		}
	}
	var keep []Index
	for j := range t.Idx {
		dropped := false
		for i := range q.Idx {
			if slices.Equal(t.Idx[j].Cols, q.Idx[i].Cols) {
				dropped = true
			}
		}
		if !dropped {
			keep = append(keep, t.Idx[j])
		}
	}
	if len(q.Idx) > 0 {
		nk := 0
		for i := range keep {
			if keep[i].Mode == 'k' {
				nk++
			}
		}
		if nk == 0 {
			return errf("can't drop all keys")
		}
	}
	t.Idx = keep
	for _, c := range q.Cols {
		for i := range t.Idx {
			if slices.Contains(t.Idx[i].Cols, c) {
				return errf("can't drop column used by index")
			}
		}
		j := slices.Index(t.Cols, c)
		if j < 0 || c == "-" {
			return errf("drop nonexistent column")
		}
		t.Cols[j] = "-"
	}
	for _, c := range q.Derived {
		j := slices.Index(t.Derived, c)
		if j < 0 {
			return errf("drop nonexistent column")
		}
		t.Derived = slices.Delete(t.Derived, j, j+1)
	}
	return nil
}

func replaceAll(list, from, to []string) []string {
	out := slices.Clone(list)
	for i, f := range from {
		for j := range out {
			if out[j] == f {
				out[j] = to[i]
			}
		}
	}
	return out
}

func (m *Model) alterRename(q *Req) error {
	t := m.Tables[q.Table]
	if t == nil {
		return errf("alter nonexistent table")
	}
	cols := slices.Clone(t.Cols)
	for i, f := range q.From {
		j := slices.Index(cols, f)
		if j < 0 || f == "-" {
			return errf("rename nonexistent column")
		}
		if slices.Contains(cols, q.To[i]) {
			return errf("rename to existing column")
		}
		cols[j] = q.To[i]
	}
	// the table's own indexes
	oldIdx := make([]Index, len(t.Idx))
	for i := range t.Idx {
		oldIdx[i] = t.Idx[i].clone()
	}
	t.Cols = cols
	t.Derived = replaceAll(t.Derived, q.From, q.To)
	for i := range t.Idx {
		ix := &t.Idx[i]
		ix.Cols = replaceAll(ix.Cols, q.From, q.To)
		ix.BestKey = replaceAll(ix.BestKey, q.From, q.To)
		if ix.FkTable == t.Name {
			ix.FkCols = replaceAll(ix.FkCols, q.From, q.To)
		}
	}
	// other tables that reference a renamed key of this table
	for _, s := range m.Tables {
		if s.Name == t.Name {
			continue
		}
		for i := range s.Idx {
			if s.Idx[i].FkTable == t.Name {
				s.Idx[i].FkCols = replaceAll(s.Idx[i].FkCols, q.From, q.To)
			}
		}
	}
	return m.checkSchema(t)
}

func (m *Model) renameTable(q *Req) error {
	t := m.Tables[q.Table]
	if t == nil {
		return errf("rename nonexistent table")
	}
	if m.Tables[q.NewName] != nil {
		return errf("rename to existing table")
	}
	// the implementation refuses to rename a table that is the target of a foreign key
	// (including its own)
	for _, s := range m.Tables {
		for i := range s.Idx {
			if s.Idx[i].FkTable == t.Name {
				return errf("rename table used by foreign keys")
			}
		}
	}
	delete(m.Tables, t.Name)
	t.Name = q.NewName
	m.Tables[t.Name] = t
	return nil
}

//-------------------------------------------------------------------
// row operations

type Op struct {
	Kind  string // ins upd del
	Table string
	Key   []Val // value of the first key of the row to update / delete
	Row   Row   // new row (ins, upd)
}

func (o *Op) String() string {
	switch o.Kind {
	case "ins":
		return "ins " + o.Table + " " + o.Row.String()
	case "upd":
		return "upd " + o.Table + " " + fmt.Sprint(o.Key) + " -> " + o.Row.String()
	}
	return "del " + o.Table + " " + fmt.Sprint(o.Key)
}

// ErrC08 is no longer produced (the delete of the target of a "cascade update" foreign key
// is refused since repository commit b1986f0, as documented); kept for IsAvoid.
var ErrC08 = fmt.Errorf("delete of a row referenced through a cascade update foreign key")

// ErrEmptyKeyCascade marks another case the generators avoid (it belongs to C08): changing an
// EMPTY key value of a row that is the target of a cascading foreign key. The implementation
// then rewrites every row whose foreign key value is empty (= "no reference").
var ErrEmptyKeyCascade = fmt.Errorf("update of an empty key that is the target of a cascade update foreign key")

// ErrSelfRowCascade: a row that references ITSELF through a cascading foreign key is updated
// or deleted (the cascade would rewrite / delete the very row being processed). Avoided (C08).
var ErrSelfRowCascade = fmt.Errorf("cascade onto the row being updated or deleted itself")

// IsAvoid reports whether err marks an operation the generators do not issue.
func IsAvoid(err error) bool {
	return err == ErrC08 || err == ErrEmptyKeyCascade || err == ErrSelfRowCascade ||
		(err != nil && strings.Contains(err.Error(), "cascade too deep"))
}

func (t *Table) findByKey(key []Val) int {
	ki := t.FirstKey()
	if ki < 0 {
		return -1
	}
	for i, r := range t.Rows {
		if eqTuple(t.Tuple(r, t.Idx[ki].Cols), key) {
			return i
		}
	}
	return -1
}

// ApplyOp applies one row operation (with cascades) in place. On error the model may be
// partially modified: callers apply transactions to a Clone and drop it on failure.
func (m *Model) ApplyOp(o *Op) error {
	t := m.Tables[o.Table]
	if t == nil {
		return errf("nonexistent table")
	}
	switch o.Kind {
	case "ins":
		return m.insert(t, o.Row)
	case "upd":
		i := t.findByKey(o.Key)
		if i < 0 {
			return errf("row not found")
		}
		return m.update(t, i, o.Row, true, 0)
	case "del":
		i := t.findByKey(o.Key)
		if i < 0 {
			return errf("row not found")
		}
		return m.delete(t, i, 0)
	}
	return errf("bad op")
}

func (m *Model) dupCheck(t *Table, ix *Index, row Row, skip int) error {
	if ix.Mode == 'i' {
		return nil
	}
	tu := t.Tuple(row, ix.Cols)
	if ix.Mode == 'u' && allEmpty(tu) {
		return nil
	}
	for i, r := range t.Rows {
		if i != skip && eqTuple(t.Tuple(r, ix.Cols), tu) {
			return errf("duplicate key")
		}
	}
	return nil
}

func (m *Model) fkOutputCheck(t *Table, ix *Index, row Row) error {
	if ix.FkTable == "" {
		return nil
	}
	n := min(len(ix.Cols), len(ix.FkCols))
	tu := t.Tuple(row, ix.Cols[:n])
	if allEmpty(tu) {
		return nil
	}
	target := m.Tables[ix.FkTable]
	if target == nil || !target.hasTuple(ix.FkCols, tu) {
		return errf("blocked by foreign key")
	}
	return nil
}

func (m *Model) insert(t *Table, row Row) error {
	if len(row) > len(t.Cols) {
		row = row[:len(t.Cols)]
	}
	for i := range t.Idx {
		if err := m.dupCheck(t, &t.Idx[i], row, -1); err != nil {
			return err
		}
		if err := m.fkOutputCheck(t, &t.Idx[i], row); err != nil {
			return err
		}
	}
	t.Rows = append(t.Rows, row)
	return nil
}

func (m *Model) referencing(ref FkRef, tu []Val) (*Table, []int) {
	s := m.Tables[ref.Table]
	var out []int
	for i, r := range s.Rows {
		if eqTuple(s.Tuple(r, ref.Cols[:min(len(ref.Cols), len(tu))]), tu) {
			out = append(out, i)
		}
	}
	return s, out
}

const maxDepth = 50

func (m *Model) delete(t *Table, ri int, depth int) error {
	if depth > maxDepth {
		return errf("cascade too deep")
	}
	row := t.Rows[ri]
	for i := range t.Idx {
		if t.Idx[i].Mode != 'k' {
			continue
		}
		tu := t.Tuple(row, t.Idx[i].Cols)
		if allEmpty(tu) {
			continue
		}
		for _, ref := range m.FkToHere(t, i) {
			_, rows := m.referencing(ref, tu)
			if len(rows) == 0 {
				continue
			}
			if ref.Table == t.Name && slices.Contains(rows, ri) && ref.Mode != Block {
				return ErrSelfRowCascade
			}
			if ref.Mode&CascadeDelete == 0 {
				// block and "cascade update" both refuse the delete (documented; C08 fix b1986f0)
				return errf("delete blocked by foreign key")
			}
		}
	}
	// remove the row first (identity by pointer-equal position), then cascade
	t.Rows = slices.Delete(slices.Clone(t.Rows), ri, ri+1)
	for i := range t.Idx {
		if t.Idx[i].Mode != 'k' {
			continue
		}
		tu := t.Tuple(row, t.Idx[i].Cols)
		if allEmpty(tu) {
			continue
		}
		for _, ref := range m.FkToHere(t, i) {
			if ref.Mode&CascadeDelete == 0 {
				continue
			}
			for {
				s, rows := m.referencing(ref, tu)
				if len(rows) == 0 {
					break
				}
				if err := m.delete(s, rows[0], depth+1); err != nil {
					return err
				}
			}
		}
	}
	return nil
}

func (m *Model) update(t *Table, ri int, newrow Row, block bool, depth int) error {
	if depth > maxDepth {
		return errf("cascade too deep")
	}
	if len(newrow) > len(t.Cols) {
		newrow = newrow[:len(t.Cols)]
	}
	old := t.Rows[ri]
	type change struct {
		i        int
		old, new []Val
	}
	var changed []change
	for i := range t.Idx {
		ix := &t.Idx[i]
		// the stored entry of a non-key index also contains its BestKey columns
		cols := ix.Cols
		if ix.Mode != 'k' {
			cols = append(slices.Clone(ix.Cols), ix.BestKey...)
		}
		if eqTuple(t.Tuple(old, cols), t.Tuple(newrow, cols)) {
			continue
		}
		if !eqTuple(t.Tuple(old, ix.Cols), t.Tuple(newrow, ix.Cols)) || ix.Mode == 'u' {
			if err := m.dupCheck(t, ix, newrow, ri); err != nil {
				return err
			}
		}
		if ix.Mode == 'k' {
			ot := t.Tuple(old, ix.Cols)
			if !allEmpty(ot) {
				for _, ref := range m.FkToHere(t, i) {
					if ref.Mode != Block {
						continue
					}
					if _, rows := m.referencing(ref, ot); len(rows) > 0 {
						return errf("update blocked by foreign key")
					}
				}
			}
			changed = append(changed, change{i, ot, t.Tuple(newrow, ix.Cols)})
		}
		if block {
			if err := m.fkOutputCheck(t, ix, newrow); err != nil {
				return err
			}
		}
	}
	rows := slices.Clone(t.Rows)
	rows[ri] = newrow
	t.Rows = rows
	for _, ch := range changed {
		if allEmpty(ch.old) {
			for _, ref := range m.FkToHere(t, ch.i) {
				if ref.Mode&CascadeUpdate != 0 {
					if _, rws := m.referencing(ref, ch.old); len(rws) > 0 {
						return ErrEmptyKeyCascade
					}
				}
			}
			continue
		}
		for _, ref := range m.FkToHere(t, ch.i) {
			if ref.Mode&CascadeUpdate == 0 {
				continue
			}
			s, rws := m.referencing(ref, ch.old)
			for _, si := range rws {
				if s == t && si == ri {
					return ErrSelfRowCascade
				}
				nr := slices.Clone(s.Rows[si])
				for len(nr) < len(s.Cols) {
					nr = append(nr, Val{})
				}
				for k, c := range ref.Cols {
					if k < len(ch.new) {
						nr[s.Col(c)] = ch.new[k]
					}
				}
				if err := m.update(s, si, Row(nr), false, depth+1); err != nil {
					return err
				}
			}
		}
	}
	return nil
}
