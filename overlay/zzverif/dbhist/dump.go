// dump.go: an independent writer of the database dump format, driven by the model.
// Used by C20 to feed LoadDatabase / LoadTable with dumps that did not come from
// DumpDatabase (positive control) and with dumps that contain duplicate key / unique values.
package dbhist

import (
	"bufio"
	"encoding/binary"
	"os"
	"slices"
	"sort"
	"strings"

	"github.com/apmckinlay/gsuneido/core"
)

const DumpHeader = "Suneido dump 3\n"

// DumpSchemaText is the schema line of a dumped table: no deleted columns, a key first
// (the loader assumes the records are sorted by the first index).
func (t *Table) DumpSchemaText(withName bool) (string, int) {
	first := t.FirstKey()
	cols := append(t.LiveCols(), t.Derived...)
	s := "(" + strings.Join(cols, ",") + ")"
	if withName {
		s = t.Name + " " + s
	}
	s += " " + t.Idx[first].Text()
	for i := range t.Idx {
		if i != first {
			s += " " + t.Idx[i].Text()
		}
	}
	return s, first
}

func squeezedRecord(t *Table, r Row) core.Record {
	var rb core.RecordBuilder
	for i, c := range t.Cols {
		if c != "-" {
			rb.Add(ToValue(r.At(i)))
		}
	}
	return rb.Trim().Build()
}

func writeRec(w *bufio.Writer, rec string) {
	var n [4]byte
	binary.BigEndian.PutUint32(n[:], uint32(len(rec)))
	w.Write(n[:])
	w.WriteString(rec)
}

func writeTable(w *bufio.Writer, t *Table, withName bool) {
	text, first := t.DumpSchemaText(withName)
	w.WriteString("====== " + text + "\n")
	rows := slices.Clone(t.Rows)
	kc := t.Idx[first].Cols
	sort.SliceStable(rows, func(i, j int) bool { return CmpTuple(t.Tuple(rows[i], kc), t.Tuple(rows[j], kc)) < 0 })
	for _, r := range rows {
		writeRec(w, string(squeezedRecord(t, r)))
	}
	w.Write([]byte{0, 0, 0, 0})
}

// WriteDump writes the whole model as a database dump.
func WriteDump(m *Model, path string) error {
	f, err := os.Create(path)
	if err != nil {
		return err
	}
	defer f.Close()
	w := bufio.NewWriter(f)
	w.WriteString(DumpHeader)
	w.WriteString("====== views (view_name,view_definition) key(view_name)\n")
	var names []string
	for n := range m.Views {
		names = append(names, n)
	}
	sort.Strings(names)
	for _, n := range names {
		var rb core.RecordBuilder
		rb.Add(core.SuStr(n)).Add(core.SuStr(m.Views[n]))
		writeRec(w, string(rb.Trim().Build()))
	}
	w.Write([]byte{0, 0, 0, 0})
	for _, n := range m.TableNames() {
		writeTable(w, m.Tables[n], true)
	}
	return w.Flush()
}

// WriteTableDump writes one table as a single-table dump (schema line without the name).
func WriteTableDump(t *Table, path string) error {
	f, err := os.Create(path)
	if err != nil {
		return err
	}
	defer f.Close()
	w := bufio.NewWriter(f)
	w.WriteString(DumpHeader)
	writeTable(w, t, false)
	return w.Flush()
}

// InjectDuplicate returns a copy of the model with one extra row in some table that
// duplicates an existing row's value of a key (kind "key") or of a unique index that is not a
// key (kind "unique", the key columns get fresh values). ok=false if the model has no
// suitable table.
func InjectDuplicate(m *Model, kind string, pick func(n int) int) (m2 *Model, table string, cols []string, ok bool) {
	m2 = m.Clone()
	names := m2.TableNames()
	start := pick(len(names) + 1)
	for k := range names {
		t := m2.Tables[names[(start+k)%len(names)]]
		if len(t.Rows) == 0 {
			continue
		}
		for i := range t.Idx {
			ix := &t.Idx[i]
			if kind == "key" && ix.Mode == 'k' {
				src := t.Rows[pick(len(t.Rows))]
				dup := slices.Clone(src)
				for len(dup) < len(t.Cols) {
					dup = append(dup, Val{})
				}
				// change a column that is in no key, if there is one (not required)
				t.Rows = append(t.Rows, dup)
				return m2, t.Name, ix.Cols, true
			}
			if kind == "unique" && ix.Mode == 'u' {
				// a source row with a non-empty unique value
				for _, src := range t.Rows {
					if allEmpty(t.Tuple(src, ix.Cols)) {
						continue
					}
					dup := slices.Clone(src)
					for len(dup) < len(t.Cols) {
						dup = append(dup, Val{})
					}
					// fresh values for every key column that is not part of the unique index
					changed := false
					for k := range t.Idx {
						if t.Idx[k].Mode != 'k' {
							continue
						}
						for _, c := range t.Idx[k].Cols {
							if !slices.Contains(ix.Cols, c) {
								dup[t.Col(c)] = Val{IsInt: true, I: 5000000 + pick(1000000)}
								changed = true
							}
						}
					}
					if !changed {
						continue // the unique index contains every key column
					}
					// must not collide with a key by accident
					okKeys := true
					for k := range t.Idx {
						if t.Idx[k].Mode == 'k' && t.hasTuple(t.Idx[k].Cols, t.Tuple(dup, t.Idx[k].Cols)) {
							okKeys = false
						}
					}
					if !okKeys {
						continue
					}
					t.Rows = append(t.Rows, dup)
					return m2, t.Name, ix.Cols, true
				}
			}
		}
	}
	return nil, "", nil, false
}
