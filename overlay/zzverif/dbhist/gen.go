// gen.go: PRNG generator of admin requests and transactions, driven by the model
// (so that most requests are valid, and the invalid ones are near misses).
package dbhist

import (
	"fmt"
	"math/rand/v2"
	"slices"
	"strings"
)

type Gen struct {
	R *rand.Rand
	M *Model
	// Tuning
	TablePool []string
	ColPool   []string
	MaxRows   int  // soft limit per table
	BigRecs   bool // sometimes generate records near the 256 / 65536 byte format limits
	BigMax    int  // if > 0: upper limit for the length of those values
	// AvoidKnownC21: do not generate the triggers of two known findings of C21, so that the
	// monitors of other properties are not blinded by them: (a) dropping an index that
	// carries a self-referencing foreign key (its FkToHere entry is left behind),
	// (b) dropping an index of a table that has two foreign keys to the same key
	// (the FkToHere entries get the same IIndex).
	AvoidKnownC21 bool
	// NoCompositeFk: only single-column foreign keys (the full check has a known false alarm
	// for multi-column foreign key values that end in an empty field).
	NoCompositeFk bool
	seq       int
}

func NewGen(r *rand.Rand, m *Model) *Gen {
	return &Gen{R: r, M: m,
		TablePool: []string{"t0", "t1", "t2", "t3", "t4", "t5", "u0", "u1"},
		ColPool:   []string{"a", "b", "c", "d", "e", "f", "g", "h", "k", "n"},
		MaxRows:   60}
}

func (g *Gen) pick(list []string) string { return list[g.R.IntN(len(list))] }

func (g *Gen) chance(pct int) bool { return g.R.IntN(100) < pct }

func (g *Gen) existingTable() *Table {
	names := g.M.TableNames()
	if len(names) == 0 {
		return nil
	}
	return g.M.Tables[g.pick(names)]
}

func (g *Gen) freeTableName() string {
	for range 20 {
		n := g.pick(g.TablePool)
		if g.M.Tables[n] == nil {
			return n
		}
	}
	return g.pick(g.TablePool)
}

func (g *Gen) subsetCols(cols []string, n int) []string {
	p := g.R.Perm(len(cols))
	out := make([]string, 0, n)
	for _, i := range p {
		if len(out) == n {
			break
		}
		if cols[i] != "-" {
			out = append(out, cols[i])
		}
	}
	return out
}

var fkModes = []byte{Block, Block, Cascade, CascadeUpdate}

// fkIndex makes an index on cols of the new/current table that references a key of an
// existing table (or of the table itself when self != nil).
func (g *Gen) fkIndex(cols []string, self *Table) (Index, bool) {
	var cands []*Table
	for _, n := range g.M.TableNames() {
		cands = append(cands, g.M.Tables[n])
	}
	if self != nil && g.chance(25) {
		cands = []*Table{self}
	}
	if len(cands) == 0 {
		return Index{}, false
	}
	target := cands[g.R.IntN(len(cands))]
	var keys []int
	for i := range target.Idx {
		if target.Idx[i].Mode == 'k' && len(target.Idx[i].Cols) > 0 && len(target.Idx[i].Cols) <= len(cols) &&
			(!g.NoCompositeFk || len(target.Idx[i].Cols) == 1) {
			keys = append(keys, i)
		}
	}
	if len(keys) == 0 {
		return Index{}, false
	}
	k := &target.Idx[keys[g.R.IntN(len(keys))]]
	mode := byte('i')
	if g.chance(10) {
		mode = 'u'
	}
	return Index{Mode: mode, Cols: g.subsetCols(cols, len(k.Cols)), FkTable: target.Name,
		FkCols: slices.Clone(k.Cols), FkMode: fkModes[g.R.IntN(len(fkModes))]}, true
}

func (g *Gen) randomIndexes(name string, cols []string, needKey bool, self *Table) []Index {
	var idx []Index
	have := func(c []string) bool {
		for i := range idx {
			if slices.Equal(idx[i].Cols, c) {
				return true
			}
		}
		return false
	}
	if needKey {
		switch {
		case g.chance(3):
			idx = append(idx, Index{Mode: 'k', Cols: []string{}})
		case g.chance(25) && len(cols) >= 2:
			idx = append(idx, Index{Mode: 'k', Cols: g.subsetCols(cols, 2)})
		default:
			idx = append(idx, Index{Mode: 'k', Cols: []string{cols[0]}})
		}
		if g.chance(15) && len(cols) >= 2 {
			c := g.subsetCols(cols, 1+g.R.IntN(2))
			if !have(c) {
				idx = append(idx, Index{Mode: 'k', Cols: c})
			}
		}
	}
	n := g.R.IntN(3)
	for i := 0; i < n; i++ {
		c := g.subsetCols(cols, 1+g.R.IntN(min(2, len(cols))))
		if len(c) == 0 || (have(c) && !g.chance(5)) {
			continue
		}
		mode := byte('i')
		if g.chance(30) {
			mode = 'u'
		}
		idx = append(idx, Index{Mode: mode, Cols: c})
	}
	if g.chance(45) {
		selfT := self
		if selfT == nil && len(idx) > 0 {
			// allow a self reference in a create: model a provisional table
			selfT = &Table{Name: name, Cols: cols, Idx: idx}
		}
		if ix, ok := g.fkIndex(cols, selfT); ok && (!have(ix.Cols) || g.chance(5)) {
			idx = append(idx, ix)
			if !g.AvoidKnownC21 && g.chance(25) {
				// a second foreign key from other columns of this table to the same target key
				if c := g.subsetCols(cols, len(ix.Cols)); len(c) == len(ix.Cols) && !have(c) {
					ix2 := ix
					ix2.Cols = c
					idx = append(idx, ix2)
				}
			}
		}
	}
	return idx
}

var derivedPool = []string{"Rule_x", "Rule_y", "Calc"}

// NextAdmin generates an admin request; most are valid for the current model.
func (g *Gen) NextAdmin() *Req {
	names := g.M.TableNames()
	w := g.R.IntN(100)
	if len(names) == 0 || (len(names) < 3 && w < 50) {
		w = 0
	}
	switch {
	case w < 18: // create
		name := g.freeTableName()
		if g.chance(4) {
			name = g.pick(g.TablePool) // maybe existing
		}
		cols := g.subsetCols(g.ColPool, 2+g.R.IntN(5))
		q := &Req{Kind: "create", Table: name, Cols: cols}
		if g.chance(12) {
			q.Derived = []string{g.pick(derivedPool)}
		}
		q.Idx = g.randomIndexes(name, cols, !g.chance(2), nil)
		return q
	case w < 28: // ensure
		t := g.existingTable()
		if t == nil || g.chance(15) {
			name := g.freeTableName()
			cols := g.subsetCols(g.ColPool, 2+g.R.IntN(4))
			return &Req{Kind: "ensure", Table: name, Cols: cols, Idx: g.randomIndexes(name, cols, true, nil)}
		}
		live := t.LiveCols()
		cols := g.subsetCols(live, g.R.IntN(len(live)+1))
		for i := g.R.IntN(3); i > 0; i-- {
			c := g.pick(g.ColPool)
			if !slices.Contains(cols, c) {
				cols = append(cols, c)
			}
		}
		all := slices.Clone(live)
		for _, c := range cols {
			if !slices.Contains(all, c) {
				all = append(all, c)
			}
		}
		q := &Req{Kind: "ensure", Table: t.Name, Cols: cols}
		// some existing indexes (same definition, sometimes altered), some new
		for i := range t.Idx {
			if g.chance(40) {
				ix := t.Idx[i].clone()
				ix.BestKey = nil
				if g.chance(8) {
					ix.Mode = "kiu"[g.R.IntN(3)]
				}
				q.Idx = append(q.Idx, ix)
			}
		}
		for _, ix := range g.randomIndexes(t.Name, all, false, t) {
			dup := false
			for i := range q.Idx {
				dup = dup || slices.Equal(q.Idx[i].Cols, ix.Cols)
			}
			if !dup {
				q.Idx = append(q.Idx, ix)
			}
		}
		if g.chance(10) {
			q.Derived = []string{g.pick(derivedPool)}
		}
		return q
	case w < 40: // alter create
		t := g.existingTable()
		q := &Req{Kind: "altercreate", Table: t.Name}
		if g.chance(3) {
			q.Table = g.freeTableName()
		}
		for i := g.R.IntN(3); i > 0; i-- {
			c := g.pick(g.ColPool)
			if (!slices.Contains(t.Cols, c) || g.chance(5)) && !slices.Contains(q.Cols, c) {
				q.Cols = append(q.Cols, c)
			}
		}
		all := append(t.LiveCols(), q.Cols...)
		if g.chance(60) || len(q.Cols) == 0 {
			for _, ix := range g.randomIndexes(t.Name, all, false, t) {
				if t.FindIndex(ix.Cols) < 0 || g.chance(5) {
					q.Idx = append(q.Idx, ix)
				}
			}
			if g.chance(15) && len(all) > 0 {
				q.Idx = append(q.Idx, Index{Mode: 'k', Cols: g.subsetCols(all, 1+g.R.IntN(min(2, len(all))))})
			}
		}
		if g.chance(8) {
			q.Derived = []string{g.pick(derivedPool)}
		}
		if len(q.Cols)+len(q.Idx)+len(q.Derived) == 0 {
			q.Cols = []string{g.pick(g.ColPool)}
		}
		return q
	case w < 52: // alter drop
		t := g.existingTable()
		for i := 0; g.AvoidKnownC21 && twoFksToOneKey(t); i++ {
			if i == 6 {
				return &Req{Kind: "drop", Table: fmt.Sprintf("v%d", g.R.IntN(6))}
			}
			t = g.existingTable()
		}
		q := &Req{Kind: "alterdrop", Table: t.Name}
		if g.chance(55) && len(t.Idx) > 0 {
			n := 1
			if g.chance(15) {
				n = 2
			}
			for _, i := range g.R.Perm(len(t.Idx))[:min(n, len(t.Idx))] {
				if g.AvoidKnownC21 && t.Idx[i].FkTable == t.Name {
					continue
				}
				q.Idx = append(q.Idx, Index{Mode: t.Idx[i].Mode, Cols: slices.Clone(t.Idx[i].Cols)})
			}
		}
		if len(q.Idx) == 0 || g.chance(30) {
			live := t.LiveCols()
			// prefer columns that are in no index
			var free []string
			for _, c := range live {
				used := false
				for i := range t.Idx {
					used = used || slices.Contains(t.Idx[i].Cols, c)
				}
				if !used {
					free = append(free, c)
				}
			}
			switch {
			case len(free) > 0 && !g.chance(10):
				q.Cols = []string{g.pick(free)}
			case len(live) > 0 && g.chance(70):
				q.Cols = []string{g.pick(live)}
			default:
				q.Cols = []string{g.pick(g.ColPool)}
			}
		}
		if len(t.Derived) > 0 && g.chance(30) {
			q.Derived = []string{g.pick(t.Derived)}
		}
		return q
	case w < 64: // alter rename
		t := g.existingTable()
		q := &Req{Kind: "alterrename", Table: t.Name}
		live := t.LiveCols()
		n := 1
		if g.chance(20) {
			n = 2
		}
		cur := slices.Clone(live)
		for i := 0; i < n && len(cur) > 0; i++ {
			from := g.pick(cur)
			to := g.pick(g.ColPool)
			if g.chance(50) {
				g.seq++
				to = fmt.Sprintf("%s%d", g.pick(g.ColPool), g.seq%7)
			}
			if g.chance(4) {
				from = g.pick(g.ColPool)
			}
			q.From = append(q.From, from)
			q.To = append(q.To, to)
			if j := slices.Index(cur, from); j >= 0 {
				cur[j] = to
			}
		}
		if len(q.From) == 0 {
			q.From, q.To = []string{"a"}, []string{"b"}
		}
		return q
	case w < 72: // rename table
		t := g.existingTable()
		q := &Req{Kind: "rename", Table: t.Name, NewName: g.freeTableName()}
		if g.chance(5) {
			q.NewName = g.pick(g.TablePool)
		}
		// prefer tables that can be renamed
		for range 4 {
			ok := true
			for _, s := range g.M.Tables {
				for i := range s.Idx {
					ok = ok && s.Idx[i].FkTable != q.Table
				}
			}
			if ok || g.chance(20) {
				break
			}
			q.Table = g.existingTable().Name
		}
		return q
	case w < 80: // view
		g.seq++
		name := fmt.Sprintf("v%d", g.R.IntN(6))
		if g.chance(8) {
			name = g.pick(g.TablePool)
		}
		defs := []string{"t1 where a > 5", "t0 join t1", "t2 project a,b sort a", "t3 where b is 'x y'  and c isnt \"q\"",
			"/* c */ t4 extend z = a $ b", "t5 rename a to aa"}
		return &Req{Kind: "view", Table: name, Def: g.pick(defs) + strings.Repeat(" union t0", g.R.IntN(3))}
	case w < 84: // drop view
		return &Req{Kind: "drop", Table: fmt.Sprintf("v%d", g.R.IntN(6))}
	default: // drop table
		t := g.existingTable()
		q := &Req{Kind: "drop", Table: t.Name}
		for range 4 {
			if len(g.M.referencedByOthers(g.M.Tables[q.Table])) == 0 || g.chance(15) {
				break
			}
			q.Table = g.existingTable().Name
		}
		if g.chance(4) {
			q.Table = g.pick(g.TablePool)
		}
		return q
	}
}

var strPool = []string{"x", "y", "abc", "Zed", "hello world", "q\"uote", "semi;colon", "back\\slash", "tab\there", "~"}

func (g *Gen) randVal(small bool) Val {
	w := g.R.IntN(100)
	switch {
	case w < 12:
		return Val{}
	case w < 70:
		n := 20
		if small {
			n = 8
		}
		v := g.R.IntN(n)
		if g.chance(6) {
			v = -v
		}
		if g.chance(3) {
			v = v * 100003
		}
		return Val{IsInt: true, I: v}
	default:
		return Val{S: g.pick(strPool)}
	}
}

// isFkSource reports whether column c of t is part of a foreign key index.
func isFkCol(t *Table, c string) (ix *Index) {
	for i := range t.Idx {
		if t.Idx[i].FkTable != "" && slices.Contains(t.Idx[i].Cols, c) {
			return &t.Idx[i]
		}
	}
	return nil
}

// RandRow generates a row for t. Key columns get values from a larger domain, foreign key
// columns mostly copy an existing target key.
func (g *Gen) RandRow(t *Table, base Row) Row {
	row := make(Row, len(t.Cols))
	copy(row, base)
	keyCols := map[string]bool{}
	for i := range t.Idx {
		if t.Idx[i].Mode != 'i' {
			for _, c := range t.Idx[i].Cols {
				keyCols[c] = true
			}
		}
	}
	for i, c := range t.Cols {
		if c == "-" {
			if base == nil {
				row[i] = Val{}
			}
			continue
		}
		if base != nil && !g.chance(35) {
			continue
		}
		if base != nil {
			if ix := isFkCol(t, c); ix != nil && ix.FkTable == t.Name {
				continue // never re-point a self reference (no reference cycles)
			}
		}
		if keyCols[c] {
			row[i] = Val{IsInt: true, I: g.R.IntN(g.MaxRows * 2)}
			if g.chance(10) {
				row[i] = g.randVal(false)
			}
		} else {
			row[i] = g.randVal(true)
		}
	}
	// foreign keys: copy an existing target key most of the time
	for i := range t.Idx {
		ix := &t.Idx[i]
		if ix.FkTable == "" || (base != nil && (ix.FkTable == t.Name || !g.chance(30))) {
			continue
		}
		target := g.M.Tables[ix.FkTable]
		if target == nil {
			continue
		}
		switch {
		case g.chance(12):
			for _, c := range ix.Cols[:min(len(ix.Cols), len(ix.FkCols))] {
				row[t.Col(c)] = Val{}
			}
		case len(target.Rows) > 0 && !g.chance(8):
			tr := target.Rows[g.R.IntN(len(target.Rows))]
			tu := target.Tuple(tr, ix.FkCols)
			for k, c := range ix.Cols {
				if k < len(tu) {
					row[t.Col(c)] = tu[k]
				}
			}
		}
	}
	if g.BigRecs && g.chance(6) {
		// a long value in a column that is in no index: total record length near a format limit
		for i, c := range t.Cols {
			used := c == "-"
			for k := range t.Idx {
				used = used || slices.Contains(t.Idx[k].Cols, c)
			}
			if !used {
				targets := []int{200, 235, 245, 250, 255, 260, 300, 4000, 65400, 65500, 65530, 65540, 70000}
				n := targets[g.R.IntN(len(targets))] + g.R.IntN(12)
				if g.BigMax > 0 && n > g.BigMax {
					n = 200 + n%max(1, g.BigMax-200)
				}
				row[i] = Val{S: strings.Repeat("L", n)}
				break
			}
		}
	}
	return row
}

// NextTxn generates the operations of one transaction against the current model.
// Operations that would run into the known C08 scenario are not generated.
func (g *Gen) NextTxn(maxOps int) []Op {
	work := g.M.Clone()
	var ops []Op
	n := 1 + g.R.IntN(maxOps)
	names := work.TableNames()
	if len(names) == 0 {
		return nil
	}
	for i := 0; i < n; i++ {
		t := work.Tables[names[g.R.IntN(len(names))]]
		var o Op
		w := g.R.IntN(100)
		full := len(t.Rows) >= g.MaxRows
		switch {
		case len(t.Rows) == 0 || (w < 55 && !full):
			o = Op{Kind: "ins", Table: t.Name, Row: g.RandRow(t, nil)}
		case w < 80:
			r := t.Rows[g.R.IntN(len(t.Rows))]
			o = Op{Kind: "upd", Table: t.Name, Key: t.Tuple(r, t.Idx[t.FirstKey()].Cols), Row: g.RandRow(t, r)}
		default:
			r := t.Rows[g.R.IntN(len(t.Rows))]
			o = Op{Kind: "del", Table: t.Name, Key: t.Tuple(r, t.Idx[t.FirstKey()].Cols)}
		}
		trial := work.Clone()
		err := trial.ApplyOp(&o)
		if IsAvoid(err) {
			continue
		}
		ops = append(ops, o)
		if err != nil {
			break // the transaction will fail here
		}
		work = trial
	}
	return ops
}

func twoFksToOneKey(t *Table) bool {
	for i := range t.Idx {
		for j := 0; j < i; j++ {
			if t.Idx[i].FkTable != "" && t.Idx[i].FkTable == t.Idx[j].FkTable && slices.Equal(t.Idx[i].FkCols, t.Idx[j].FkCols) {
				return true
			}
		}
	}
	return false
}
