// real.go: driving the real database through its exported API and taking
// snapshots (fingerprints) of everything that is observable.
package dbhist

import (
	"fmt"
	"runtime"
	"runtime/debug"
	"slices"
	"sort"
	"strings"
	"time"

	"github.com/apmckinlay/gsuneido/core"
	"github.com/apmckinlay/gsuneido/db19"
	"github.com/apmckinlay/gsuneido/db19/meta/schema"
	"github.com/apmckinlay/gsuneido/db19/stor"
	"github.com/apmckinlay/gsuneido/dbms/query"
)

// ExitPanic is the panic value that replaces core.Exit (core.Fatal) in harness processes.
type ExitPanic struct{ Code int }

// Setup injects what gsuneido's main normally injects.
func Setup() {
	db19.MakeSuTran = func(ut *db19.UpdateTran) *core.SuTran {
		return core.NewSuTran(nil, true)
	}
	core.Exit = func(code int) { panic(ExitPanic{code}) }
}

// Catch runs fn and returns the recovered panic value (nil if none) and the stack.
func Catch(fn func()) (p any, stack string) {
	defer func() {
		if e := recover(); e != nil {
			p = e
			stack = string(debug.Stack())
		}
	}()
	fn()
	return nil, ""
}

type Real struct {
	DB   *db19.Database
	Path string
}

// CreateReal creates a file database and starts the concurrency pipeline.
func CreateReal(path string, persistEvery time.Duration) (*Real, error) {
	db, err := db19.CreateDatabase(path)
	if err != nil {
		return nil, err
	}
	db19.StartConcur(db, persistEvery)
	return &Real{DB: db, Path: path}, nil
}

// State record format, restated independently of db19's unexported constants.
const (
	StateMagic1 = "\x01\x23\x45\x67\x89\xab\xcd\xef"
	StateMagic2 = "\xfe\xdc\xba\x98\x76\x54\x32\x10"
	StateLen    = 36 // magic1 8, time 8, two 5-byte offsets, checksum 2, magic2 8
)

// ScanStates finds the offsets of all state records in the bytes of a database file.
func ScanStates(data []byte) []int {
	var offs []int
	for i := 0; ; {
		j := strings.Index(string(data[i:]), StateMagic1)
		if j < 0 {
			break
		}
		off := i + j
		if off+StateLen <= len(data) && string(data[off+StateLen-8:off+StateLen]) == StateMagic2 {
			offs = append(offs, off)
		}
		i = off + 1
	}
	return offs
}

// StateTime decodes the time stamp (unix milliseconds) of the state record in b.
func StateTime(b []byte) int64 {
	var t int64
	for _, c := range b[8:16] {
		t = t<<8 | int64(c)
	}
	return t
}

// CreateHeapReal creates a database on a heap store (no file).
func CreateHeapReal(persistEvery time.Duration) *Real {
	return CreateHeapRealChunk(persistEvery, 64*1024)
}

// CreateHeapRealChunk: heap store with the given chunk size (small chunks make a short history span many chunks,
// as a large production database spans its 64 MB chunks).
func CreateHeapRealChunk(persistEvery time.Duration, chunk int) *Real {
	db := db19.CreateDb(stor.HeapStor(chunk))
	db19.StartConcur(db, persistEvery)
	return &Real{DB: db}
}

// OpenReal opens an existing file database (with the start-up quick check).
func OpenReal(path string, persistEvery time.Duration) (r *Real, err error) {
	var db *db19.Database
	p, _ := Catch(func() { db, err = db19.OpenDatabase(path) })
	if p != nil {
		return nil, fmt.Errorf("panic in OpenDatabase: %v", p)
	}
	if err != nil {
		return nil, err
	}
	db19.StartConcur(db, persistEvery)
	return &Real{DB: db, Path: path}, nil
}

// Admin runs an admin request; the result is nil or the panic value (Suneido error).
func (r *Real) Admin(text string) (err any, stack string) {
	return Catch(func() { query.DoAdmin(r.DB, text, nil) })
}

func ToValue(v Val) core.Packable {
	if v.IsInt {
		return core.IntVal(v.I)
	}
	return core.SuStr(v.S)
}

// BuildRecord builds the record of a row. trim=false keeps empty trailing fields.
func BuildRecord(row Row, trim bool) core.Record {
	var rb core.RecordBuilder
	for _, v := range row {
		rb.Add(ToValue(v))
	}
	if trim {
		rb.Trim()
	}
	return rb.Build()
}

// DecodeRecord converts a stored record back to model values.
func DecodeRecord(rec core.Record) Row {
	n := rec.Count()
	row := make(Row, n)
	for i := 0; i < n; i++ {
		raw := rec.GetRaw(i)
		if raw == "" {
			continue
		}
		v := rec.GetVal(i)
		if s, ok := v.(core.SuStr); ok {
			row[i] = Val{S: string(s)}
		} else if n, ok := core.SuIntToInt(v); ok {
			row[i] = Val{IsInt: true, I: n}
		} else {
			row[i] = Val{S: "?" + fmt.Sprintf("%T:%v", v, v)}
		}
	}
	return row
}

// TxnResult describes what happened to a transaction on the real database.
type TxnResult struct {
	Committed bool
	FailedOp  int    // index of the operation that failed, -1 if none
	Err       string // error of the failed operation / of Complete
	Missing   bool   // a row the model knows was not found by key lookup
	GoPanic   string // stack if the failure was a Go runtime error (nil dereference, index out of range)
	Open      *db19.UpdateTran
}

// RunTxn runs the operations in one update transaction.
// end: "commit", "abort" or "leave" (leave the transaction open: Open is set).
// keepTrailing: build records without trimming empty trailing fields.
func (r *Real) RunTxn(m *Model, ops []Op, end string, keepTrailing bool) TxnResult {
	res := TxnResult{FailedOp: -1}
	ut := r.DB.NewUpdateTran()
	if ut == nil {
		res.Err = "NewUpdateTran returned nil"
		res.FailedOp = 0
		return res
	}
	work := m.Clone() // only used to find the current key of rows
	for i := range ops {
		o := &ops[i]
		p, stack := Catch(func() {
			switch o.Kind {
			case "ins":
				ut.Output(nil, o.Table, BuildRecord(o.Row, !keepTrailing))
			case "upd", "del":
				t := work.Tables[o.Table]
				ri := t.findByKey(o.Key)
				if ri < 0 {
					panic("verif: model row not found")
				}
				oldrec := BuildRecord(t.Rows[ri], true)
				sc := ut.GetSchema(o.Table)
				ki := -1
				for k := range sc.Indexes {
					if sc.Indexes[k].Mode == 'k' {
						ki = k
						break
					}
				}
				key := sc.Indexes[ki].Ixspec.Key(oldrec)
				dbrec := ut.Lookup(o.Table, ki, key)
				if dbrec == nil {
					res.Missing = true
					panic("verif: committed row not found by key lookup: " + o.String())
				}
				if o.Kind == "upd" {
					ut.Update(nil, o.Table, dbrec.Off, BuildRecord(o.Row, !keepTrailing))
				} else {
					ut.Delete(nil, o.Table, dbrec.Off)
				}
			}
		})
		if p != nil {
			res.FailedOp = i
			res.Err = fmt.Sprint(p)
			if _, ok := p.(runtime.Error); ok {
				res.GoPanic = stack
			}
			Catch(func() { ut.Abort() })
			return res
		}
		work.ApplyOp(o) // keep work in step so later ops find their rows
	}
	switch end {
	case "commit":
		var s string
		p, _ := Catch(func() { s = ut.Complete() })
		if p != nil {
			res.Err = fmt.Sprint(p)
			res.FailedOp = len(ops)
		} else if s != "" {
			res.Err = s
			res.FailedOp = len(ops)
		} else {
			res.Committed = true
		}
	case "abort":
		ut.Abort()
	case "leave":
		res.Open = ut
	}
	return res
}

//-------------------------------------------------------------------
// snapshots

type SnapIndex struct {
	Mode     byte
	Cols     []string
	BestKey  []string
	FkTable  string
	FkCols   []string
	FkMode   byte
	FkIIndex int
	FkToHere []string // sorted "table(cols)#iindex/mode"
	Text     string
	Recs     []string // raw records in index order
}

type SnapTable struct {
	Name    string
	Cols    []string
	Derived []string
	Schema2 string // Database.Schema(table): includes foreign keys to here
	Schema1 string // schema.String(): re-parsable
	Nrows   int
	Size    int64
	Idx     []SnapIndex
}

type Snap struct {
	Tables map[string]*SnapTable
	Views  map[string]string
}

func fkRefText(table string, cols []string, iindex int, mode byte) string {
	return fmt.Sprintf("%s(%s)#%d/%d", table, strings.Join(cols, ","), iindex, mode)
}

// TakeSnap reads everything observable through a read transaction.
func TakeSnap(db *db19.Database) *Snap {
	rt := db.NewReadTran()
	return TakeSnapRT(db, rt)
}

func TakeSnapRT(db *db19.Database, rt *db19.ReadTran) *Snap {
	s := &Snap{Tables: map[string]*SnapTable{}, Views: map[string]string{}}
	vs := rt.GetAllViews()
	for i := 0; i+1 < len(vs); i += 2 {
		s.Views[vs[i]] = vs[i+1]
	}
	for _, ts := range rt.GetAllSchema() {
		sc := &ts.Schema
		st := &SnapTable{Name: sc.Table, Cols: slices.Clone(sc.Columns), Derived: slices.Clone(sc.Derived),
			Schema2: sc.String2(), Schema1: sc.String()}
		ti := rt.GetInfo(sc.Table)
		if ti == nil {
			st.Nrows = -1
			s.Tables[st.Name] = st
			continue
		}
		st.Nrows = ti.Nrows
		st.Size = ti.Size
		for i := range sc.Indexes {
			ix := &sc.Indexes[i]
			si := SnapIndex{Mode: ix.Mode, Cols: slices.Clone(ix.Columns), BestKey: slices.Clone(ix.BestKey),
				FkTable: ix.Fk.Table, FkCols: slices.Clone(ix.Fk.Columns), FkMode: ix.Fk.Mode, FkIIndex: ix.Fk.IIndex,
				Text: ix.String()}
			for _, fk := range ix.FkToHere {
				si.FkToHere = append(si.FkToHere, fkRefText(fk.Table, fk.Columns, fk.IIndex, fk.Mode))
			}
			sort.Strings(si.FkToHere)
			it := rt.IndexIter(sc.Table, i)
			for it.Next(rt); !it.Eof(); it.Next(rt) {
				si.Recs = append(si.Recs, string(rt.GetRecord(it.CurOff())))
			}
			st.Idx = append(st.Idx, si)
		}
		s.Tables[st.Name] = st
	}
	return s
}

func (s *Snap) TableNames() []string {
	names := make([]string, 0, len(s.Tables))
	for n := range s.Tables {
		names = append(names, n)
	}
	sort.Strings(names)
	return names
}

// Diff compares two snapshots exactly (what C04 demands of close / reopen).
func (s *Snap) Diff(o *Snap) []string {
	var d []string
	add := func(format string, args ...any) {
		if len(d) < 20 {
			d = append(d, fmt.Sprintf(format, args...))
		}
	}
	for _, n := range s.TableNames() {
		a, b := s.Tables[n], o.Tables[n]
		if b == nil {
			add("table %s missing", n)
			continue
		}
		if a.Schema2 != b.Schema2 {
			add("table %s schema %q != %q", n, a.Schema2, b.Schema2)
		}
		if !slices.Equal(a.Cols, b.Cols) || !slices.Equal(a.Derived, b.Derived) {
			add("table %s columns %v %v != %v %v", n, a.Cols, a.Derived, b.Cols, b.Derived)
		}
		if a.Nrows != b.Nrows || a.Size != b.Size {
			add("table %s nrows/size %d/%d != %d/%d", n, a.Nrows, a.Size, b.Nrows, b.Size)
		}
		if len(a.Idx) != len(b.Idx) {
			add("table %s number of indexes %d != %d", n, len(a.Idx), len(b.Idx))
			continue
		}
		for i := range a.Idx {
			x, y := &a.Idx[i], &b.Idx[i]
			if x.Mode != y.Mode || !slices.Equal(x.Cols, y.Cols) || !slices.Equal(x.BestKey, y.BestKey) ||
				x.FkTable != y.FkTable || !slices.Equal(x.FkCols, y.FkCols) || x.FkMode != y.FkMode ||
				x.FkIIndex != y.FkIIndex || !slices.Equal(x.FkToHere, y.FkToHere) {
				add("table %s index %d definition %+v != %+v", n, i, short(x), short(y))
			}
			if !slices.Equal(x.Recs, y.Recs) {
				add("table %s index %d (%s) row sequence differs: %d rows vs %d rows%s", n, i, x.Text, len(x.Recs), len(y.Recs), firstRecDiff(x.Recs, y.Recs))
			}
		}
	}
	for _, n := range o.TableNames() {
		if s.Tables[n] == nil {
			add("table %s appeared", n)
		}
	}
	for k, v := range s.Views {
		if w, ok := o.Views[k]; !ok {
			add("view %s missing", k)
		} else if v != w {
			add("view %s definition %q != %q", k, v, w)
		}
	}
	for k := range o.Views {
		if _, ok := s.Views[k]; !ok {
			add("view %s appeared", k)
		}
	}
	return d
}

func short(x *SnapIndex) string {
	return fmt.Sprintf("{%c %v best=%v fk=%s%v/%d@%d toHere=%v}", x.Mode, x.Cols, x.BestKey, x.FkTable, x.FkCols, x.FkMode, x.FkIIndex, x.FkToHere)
}

func firstRecDiff(a, b []string) string {
	for i := 0; i < len(a) && i < len(b); i++ {
		if a[i] != b[i] {
			return fmt.Sprintf("; first difference at %d: %v vs %v", i, DecodeRecord(core.Record(a[i])), DecodeRecord(core.Record(b[i])))
		}
	}
	return ""
}

func rowKey(r Row, cols []string) string {
	// canonical text of a row over the live columns
	var sb strings.Builder
	for i, c := range cols {
		if c == "-" {
			continue
		}
		v := r.At(i)
		if v.IsInt {
			fmt.Fprintf(&sb, "%s=#%d|", c, v.I)
		} else {
			fmt.Fprintf(&sb, "%s=%q|", c, v.S)
		}
	}
	return sb.String()
}

// DiffModel compares a snapshot with the model: tables, columns (physical order, "-" for
// deleted), derived columns, index definitions in order, foreign keys in both directions,
// views, row counts, and through every index exactly the model's rows in index order.
func (s *Snap) DiffModel(m *Model) []string {
	var d []string
	add := func(format string, args ...any) {
		if len(d) < 20 {
			d = append(d, fmt.Sprintf(format, args...))
		}
	}
	for _, n := range m.TableNames() {
		t, st := m.Tables[n], s.Tables[n]
		if st == nil {
			add("table %s missing (model has it with %d rows)", n, len(t.Rows))
			continue
		}
		if !slices.Equal(t.Cols, st.Cols) {
			add("table %s columns %v, model %v", n, st.Cols, t.Cols)
			continue
		}
		if !sameSet(t.Derived, st.Derived) {
			add("table %s derived %v, model %v", n, st.Derived, t.Derived)
		}
		if st.Nrows != len(t.Rows) {
			add("table %s nrows %d, model %d", n, st.Nrows, len(t.Rows))
		}
		if len(st.Idx) != len(t.Idx) {
			add("table %s indexes %s, model %s", n, st.Schema1, t.SchemaText())
			continue
		}
		want := map[string]int{}
		for _, r := range t.Rows {
			want[rowKey(r, t.Cols)]++
		}
		for i := range t.Idx {
			mi, si := &t.Idx[i], &st.Idx[i]
			if mi.Mode != si.Mode || !slices.Equal(mi.Cols, si.Cols) || mi.FkTable != si.FkTable || mi.FkMode != si.FkMode ||
				(mi.FkTable != "" && !slices.Equal(mi.FkCols, si.FkCols)) {
				add("table %s index %d is %s, model %s", n, i, si.Text, mi.Text())
				continue
			}
			if mi.Mode != 'k' && !slices.Equal(mi.BestKey, si.BestKey) {
				add("table %s index %d (%s) BestKey %v, model %v", n, i, si.Text, si.BestKey, mi.BestKey)
			}
			if mi.FkTable != "" {
				if target := m.Tables[mi.FkTable]; target != nil {
					if j := target.FindIndex(mi.FkCols); j != si.FkIIndex {
						add("table %s index %d (%s) Fk.IIndex %d, the key is index %d of %s", n, i, si.Text, si.FkIIndex, j, mi.FkTable)
					}
				}
			}
			var refs []string
			for _, ref := range m.FkToHere(t, i) {
				refs = append(refs, fkRefText(ref.Table, ref.Cols, ref.IIndex, ref.Mode))
			}
			sort.Strings(refs)
			if !slices.Equal(refs, si.FkToHere) {
				add("table %s index %d (%s) FkToHere %v, model %v", n, i, si.Text, si.FkToHere, refs)
			}
			// rows through this index
			got := map[string]int{}
			var prev []Val
			var size int64
			for k, raw := range si.Recs {
				rec := core.Record(raw)
				size += int64(rec.Len())
				row := DecodeRecord(rec)
				got[rowKey(row, t.Cols)]++
				cols := mi.Cols
				if mi.Mode != 'k' {
					for _, c := range mi.BestKey {
						if !slices.Contains(cols, c) {
							cols = append(slices.Clone(cols), c)
						}
					}
				}
				tu := t.Tuple(row, cols)
				if mi.Mode == 'u' && !allEmpty(t.Tuple(row, mi.Cols)) {
					tu = t.Tuple(row, mi.Cols)
				}
				if k > 0 && CmpTuple(prev, tu) > 0 {
					add("table %s index %d (%s) out of order at %d: %v after %v", n, i, si.Text, k, tu, prev)
				}
				prev = tu
			}
			if len(si.Recs) != len(t.Rows) {
				add("table %s index %d (%s) has %d rows, model %d", n, i, si.Text, len(si.Recs), len(t.Rows))
			}
			if size != st.Size {
				add("table %s index %d (%s) record bytes %d, info.Size %d", n, i, si.Text, size, st.Size)
			}
			for k, c := range want {
				if got[k] != c {
					add("table %s index %d (%s): row %s seen %d times, model %d", n, i, si.Text, k, got[k], c)
					break
				}
			}
			for k, c := range got {
				if want[k] != c {
					add("table %s index %d (%s): row %s seen %d times, model %d", n, i, si.Text, k, c, want[k])
					break
				}
			}
		}
	}
	for _, n := range s.TableNames() {
		if m.Tables[n] == nil {
			add("table %s exists (%d rows), not in model", n, s.Tables[n].Nrows)
		}
	}
	for k, v := range m.Views {
		if w, ok := s.Views[k]; !ok {
			add("view %s missing", k)
		} else if v != w {
			add("view %s is %q, model %q", k, w, v)
		}
	}
	for k := range s.Views {
		if _, ok := m.Views[k]; !ok {
			add("view %s exists, not in model", k)
		}
	}
	return d
}

func sameSet(a, b []string) bool {
	x, y := slices.Clone(a), slices.Clone(b)
	sort.Strings(x)
	sort.Strings(y)
	return slices.Equal(x, y)
}

// Invariants checks the metadata invariants of C21 on the real schema alone
// (no model): at least one key, index columns exist, foreign keys point to an existing
// key with the right IIndex, both directions mirror each other, the schema text re-parses
// to the same schema.
func (s *Snap) Invariants() []string {
	var d []string
	add := func(format string, args ...any) {
		if len(d) < 20 {
			d = append(d, fmt.Sprintf(format, args...))
		}
	}
	for _, n := range s.TableNames() {
		st := s.Tables[n]
		if st.Nrows < 0 {
			add("no-info: table %s has a schema but no info", n)
			continue
		}
		nk := 0
		for i := range st.Idx {
			ix := &st.Idx[i]
			if ix.Mode == 'k' {
				nk++
			}
			for _, c := range ix.Cols {
				if c == "-" || !slices.Contains(st.Cols, c) {
					add("index-column: table %s index %s uses column %s, columns are %v", n, ix.Text, c, st.Cols)
				}
			}
			if ix.Mode != 'k' {
				if j := findIdx(st, ix.BestKey); j < 0 || st.Idx[j].Mode != 'k' {
					add("bestkey: table %s index %s BestKey %v is not a key of the table", n, ix.Text, ix.BestKey)
				}
			}
			if ix.FkTable != "" {
				tt := s.Tables[ix.FkTable]
				if tt == nil {
					add("fk-target: table %s index %s points to nonexistent table %s", n, ix.Text, ix.FkTable)
				} else if ix.FkIIndex < 0 || ix.FkIIndex >= len(tt.Idx) || tt.Idx[ix.FkIIndex].Mode != 'k' ||
					!slices.Equal(tt.Idx[ix.FkIIndex].Cols, ix.FkCols) {
					add("fk-iindex: table %s index %s Fk{%s %v IIndex %d} does not designate a key with those columns in %s", n, ix.Text, ix.FkTable, ix.FkCols, ix.FkIIndex, tt.Schema1)
				} else {
					mirror := fkRefText(n, ix.Cols, i, ix.FkMode)
					if !slices.Contains(tt.Idx[ix.FkIIndex].FkToHere, mirror) {
						add("fk-mirror: table %s index %s has no FkToHere mirror %s in %s (has %v)", n, ix.Text, mirror, ix.FkTable, tt.Idx[ix.FkIIndex].FkToHere)
					}
				}
			}
			for _, ref := range ix.FkToHere {
				// "table(cols)#iindex/mode"
				ok := false
				name := ref[:strings.Index(ref, "(")]
				if src := s.Tables[name]; src != nil {
					for k := range src.Idx {
						sx := &src.Idx[k]
						if sx.FkTable == n && slices.Equal(sx.FkCols, ix.Cols) && fkRefText(name, sx.Cols, k, sx.FkMode) == ref {
							ok = true
						}
					}
				}
				if !ok {
					add("fktohere-mirror: table %s index %s lists %s but no such foreign key exists", n, ix.Text, ref)
				}
				if ix.Mode != 'k' {
					add("fktohere-nonkey: table %s index %s is not a key but is a foreign key target", n, ix.Text)
				}
			}
			for j := 0; j < i; j++ {
				if slices.Equal(st.Idx[j].Cols, ix.Cols) {
					add("duplicate-index: table %s has two indexes on %v", n, ix.Cols)
				}
			}
			if len(ix.Recs) != st.Nrows {
				add("index-count: table %s index %s has %d rows, info.Nrows %d", n, ix.Text, len(ix.Recs), st.Nrows)
			}
		}
		if nk == 0 {
			add("no-key: table %s has no key: %s", n, st.Schema1)
		}
		for i, c := range st.Cols {
			if c != "-" && slices.Contains(st.Cols[i+1:], c) {
				add("duplicate-column: table %s columns %v", n, st.Cols)
			}
		}
		// every index sees the same set of records
		if len(st.Idx) > 1 {
			base := sortedCopy(st.Idx[0].Recs)
			for i := 1; i < len(st.Idx); i++ {
				if !slices.Equal(base, sortedCopy(st.Idx[i].Recs)) {
					add("index-rows: table %s indexes %s and %s do not contain the same records", n, st.Idx[0].Text, st.Idx[i].Text)
				}
			}
		}
		// the schema text re-parses to the same schema
		var sc schema.Schema
		p, _ := Catch(func() { sc = query.NewAdminParser(st.Schema1).Schema() })
		if p != nil {
			add("reparse: schema text of %s does not parse: %q: %v", n, st.Schema1, p)
			continue
		}
		if sc.Table != n || !slices.Equal(sc.Columns, st.Cols) || !sameSet(sc.Derived, st.Derived) || len(sc.Indexes) != len(st.Idx) {
			add("reparse: %q parses to %s %v %v with %d indexes", st.Schema1, sc.Table, sc.Columns, sc.Derived, len(sc.Indexes))
			continue
		}
		for i := range sc.Indexes {
			a, b := &sc.Indexes[i], &st.Idx[i]
			if a.Mode != b.Mode || !slices.Equal(a.Columns, b.Cols) || a.Fk.Table != b.FkTable || a.Fk.Mode != b.FkMode ||
				(b.FkTable != "" && !slices.Equal(a.Fk.Columns, b.FkCols)) {
				add("reparse: %q index %d parses to %s, schema has %s", st.Schema1, i, a.String(), b.Text)
			}
		}
	}
	return d
}

func findIdx(st *SnapTable, cols []string) int {
	for i := range st.Idx {
		if slices.Equal(st.Idx[i].Cols, cols) {
			return i
		}
	}
	return -1
}

func sortedCopy(a []string) []string {
	b := slices.Clone(a)
	sort.Strings(b)
	return b
}

// RowsByTable returns the logical content: table -> sorted row texts over live columns
// (deleted columns squeezed, trailing empties irrelevant). Used by C20 and by the
// rename-insensitive comparisons of C21.
func (s *Snap) Logical() map[string][]string {
	out := map[string][]string{}
	for n, st := range s.Tables {
		var rows []string
		if len(st.Idx) > 0 {
			for _, raw := range st.Idx[0].Recs {
				rows = append(rows, rowKey(DecodeRecord(core.Record(raw)), st.Cols))
			}
		}
		sort.Strings(rows)
		out[n] = rows
	}
	return out
}

// LogicalSchema is the order-insensitive schema of a table: live columns in order,
// derived (set), indexes as a sorted list of definitions (without BestKey / IIndex).
func (st *SnapTable) LogicalSchema() string {
	var live []string
	for _, c := range st.Cols {
		if c != "-" {
			live = append(live, c)
		}
	}
	der := sortedCopy(st.Derived)
	var idx []string
	for i := range st.Idx {
		idx = append(idx, st.Idx[i].Text+" from"+strings.Join(logicalRefs(st.Idx[i].FkToHere), ";"))
	}
	sort.Strings(idx)
	return fmt.Sprintf("(%s) derived(%s) %s", strings.Join(live, ","), strings.Join(der, ","), strings.Join(idx, " "))
}

// logicalRefs drops the IIndex (index positions are not logical)
func logicalRefs(refs []string) []string {
	out := make([]string, len(refs))
	for i, r := range refs {
		a := strings.Index(r, "#")
		b := strings.Index(r, "/")
		out[i] = r[:a] + r[b:]
	}
	sort.Strings(out)
	return out
}

func (m *Model) Logical() map[string][]string {
	out := map[string][]string{}
	for n, t := range m.Tables {
		var rows []string
		for _, r := range t.Rows {
			rows = append(rows, rowKey(r, t.Cols))
		}
		sort.Strings(rows)
		out[n] = rows
	}
	return out
}

func (m *Model) LogicalSchema(t *Table) string {
	der := sortedCopy(t.Derived)
	var idx []string
	for i := range t.Idx {
		var refs []string
		for _, ref := range m.FkToHere(t, i) {
			refs = append(refs, fmt.Sprintf("%s(%s)/%d", ref.Table, strings.Join(ref.Cols, ","), ref.Mode))
		}
		sort.Strings(refs)
		idx = append(idx, t.Idx[i].Text()+" from"+strings.Join(refs, ";"))
	}
	sort.Strings(idx)
	return fmt.Sprintf("(%s) derived(%s) %s", strings.Join(t.LiveCols(), ","), strings.Join(der, ","), strings.Join(idx, " "))
}
