// hist.go: runs generated steps against the real database and the model in lock step.
package dbhist

import (
	"fmt"
	"math/rand/v2"
	"runtime"
	"strings"

	"github.com/apmckinlay/gsuneido/db19"
)

type Hist struct {
	G    *Gen
	M    *Model
	Real *Real
	Rand *rand.Rand
	Log  []string // the history so far, in admin / operation syntax
	// Counts are observations (ok / rejected requests per kind, divergences ...)
	Counts map[string]int
	// Notes are distinct noteworthy events (divergence kinds, runtime errors) -> example
	Notes map[string]string
	// Abandoned: the real database accepted something the model rejects; the model cannot follow
	Abandoned    string
	KeepTrailing bool
	NPersist     int
	// OnPersist is called with the state returned by every forced persist,
	// PrePersist just before it.
	OnPersist  func(st *db19.DbState)
	PrePersist func()
	// SyncIndexBuild: force a persist before a request that builds an index on a populated
	// table. The persist drains the asynchronous merger, which side-steps the known
	// index-build race (C04-index-added-to-populated-table-loses-later-commits).
	SyncIndexBuild bool
	// Steps is the structured history (for replay and shrinking)
	Steps []Step
}

// Step is one recorded step: an admin request, a transaction, a forced persist or a
// close/reopen.
type Step struct {
	Kind string // admin txn persist reopen
	Req  *Req   `json:",omitempty"`
	Ops  []Op   `json:",omitempty"`
	End  string `json:",omitempty"`
}

// Replay executes recorded steps on the current database (model and real side).
// reopen is called for "reopen" steps and must close and reopen h.Real.
func (h *Hist) Replay(steps []Step, reopen func() error) error {
	for _, st := range steps {
		switch st.Kind {
		case "admin":
			h.DoAdmin(st.Req)
		case "txn":
			// operations whose row no longer exists (because an earlier step was removed) are dropped
			var ops []Op
			w := h.M.Clone()
			for _, o := range st.Ops {
				if t := w.Tables[o.Table]; t == nil || t.FirstKey() < 0 || (o.Kind != "ins" && t.findByKey(o.Key) < 0) {
					continue
				}
				w.ApplyOp(&o)
				ops = append(ops, o)
			}
			if len(ops) > 0 {
				h.DoTxn(ops, st.End)
			}
		case "persist":
			h.Persist()
		case "reopen":
			if err := reopen(); err != nil {
				return err
			}
		}
	}
	return nil
}

func NewHist(r *rand.Rand, real *Real) *Hist {
	m := NewModel()
	return &Hist{G: NewGen(r, m), M: m, Real: real, Rand: r, Counts: map[string]int{}, Notes: map[string]string{}}
}

func (h *Hist) logf(format string, args ...any) {
	h.Log = append(h.Log, fmt.Sprintf(format, args...))
}

// Tail returns the last n log lines (for witnesses).
func (h *Hist) Tail(n int) []string {
	if len(h.Log) <= n {
		return h.Log
	}
	return append([]string{fmt.Sprintf("... %d earlier steps ...", len(h.Log)-n)}, h.Log[len(h.Log)-n:]...)
}

func (h *Hist) note(kind, example string) {
	h.Counts[kind]++
	if _, ok := h.Notes[kind]; !ok {
		h.Notes[kind] = example
	}
}

func errClass(e any) string {
	s := fmt.Sprint(e)
	// strip the specifics so that the class is stable
	for _, cut := range []string{":", " in ", "("} {
		if i := strings.Index(s, cut); i > 0 {
			s = s[:i]
		}
	}
	if len(s) > 50 {
		s = s[:50]
	}
	return s
}

// DoAdmin runs an admin request on both sides.
// accepted: the real database accepted it. modelErr: why the model rejects it (nil = valid).
func (h *Hist) DoAdmin(q *Req) (accepted bool, modelErr error, realErr any) {
	h.Steps = append(h.Steps, Step{Kind: "admin", Req: q})
	text := q.Text()
	if h.SyncIndexBuild && len(q.Idx) > 0 && (q.Kind == "altercreate" || q.Kind == "ensure") {
		if t := h.M.Tables[q.Table]; t != nil && len(t.Rows) > 0 {
			h.Persist()
		}
	}
	trial := h.M.Clone()
	modelErr = trial.apply(q)
	realErr, stack := h.Real.Admin(text)
	if _, ok := realErr.(runtime.Error); ok {
		h.note("admin_go_runtime_error/"+q.Kind, text+" => "+fmt.Sprint(realErr)+" at "+CompactStack(stack))
	}
	switch {
	case realErr == nil && modelErr == nil:
		*h.M = *trial
		h.Counts["admin_ok/"+q.Kind]++
		h.logf("%s", text)
		return true, nil, nil
	case realErr != nil && modelErr != nil:
		h.Counts["admin_rejected/"+q.Kind]++
		h.logf("%s  => rejected: %v", text, realErr)
		return false, modelErr, realErr
	case realErr != nil:
		h.note("diverge_real_rejects/"+q.Kind+"/"+errClass(realErr), text+" => "+fmt.Sprint(realErr))
		h.logf("%s  => rejected (model would accept): %v", text, realErr)
		return false, nil, realErr
	default:
		h.note("diverge_real_accepts/"+q.Kind+"/"+modelErr.Error(), text)
		h.logf("%s  => accepted (model: %v)", text, modelErr)
		h.Abandoned = text + " accepted; model: " + modelErr.Error()
		return true, modelErr, nil
	}
}

// DoTxn runs one transaction on both sides. end: commit, abort or leave.
func (h *Hist) DoTxn(ops []Op, end string) TxnResult {
	h.Steps = append(h.Steps, Step{Kind: "txn", Ops: ops, End: end})
	trial := h.M.Clone()
	pred := -1
	var predErr error
	for i := range ops {
		if err := trial.ApplyOp(&ops[i]); err != nil {
			pred, predErr = i, err
			break
		}
	}
	res := h.Real.RunTxn(h.M, ops, end, h.KeepTrailing)
	if res.GoPanic != "" {
		h.note("txn_go_runtime_error/"+errClass(res.Err), txtOf(ops)+" => "+res.Err+" at "+CompactStack(res.GoPanic))
	}
	desc := make([]string, len(ops))
	for i := range ops {
		desc[i] = ops[i].String()
	}
	txt := "txn{" + strings.Join(desc, "; ") + "} " + end
	switch {
	case res.Committed && pred < 0:
		*h.M = *trial
		h.Counts["txn_committed"]++
		h.Counts["ops_committed"] += len(ops)
		h.logf("%s", txt)
	case res.Committed:
		h.note("diverge_txn_real_commits/"+predErr.Error(), txt)
		h.logf("%s => committed (model: op %d %v)", txt, pred, predErr)
		h.Abandoned = txt + " committed; model: " + predErr.Error()
	case end != "commit":
		h.Counts["txn_"+end]++
		h.logf("%s", txt)
		if res.FailedOp >= 0 && pred < 0 {
			h.note("diverge_op_real_rejects/"+errClass(res.Err), txt+" => "+res.Err)
		}
	case pred >= 0:
		h.Counts["txn_failed"]++
		h.Counts["txn_failed/"+errClass(res.Err)]++
		h.logf("%s => failed op %d: %s", txt, res.FailedOp, res.Err)
	default:
		h.note("diverge_txn_real_rejects/"+errClass(res.Err), txt+" => "+res.Err)
		h.logf("%s => failed op %d: %s (model would accept)", txt, res.FailedOp, res.Err)
	}
	return res
}

// Persist forces a persist and returns the persisted state.
func (h *Hist) Persist() *db19.DbState {
	h.NPersist++
	h.Steps = append(h.Steps, Step{Kind: "persist"})
	h.logf("persist")
	if h.PrePersist != nil {
		h.PrePersist()
	}
	st := h.Real.DB.Persist()
	if h.OnPersist != nil {
		h.OnPersist(st)
	}
	return st
}

func txtOf(ops []Op) string {
	desc := make([]string, len(ops))
	for i := range ops {
		desc[i] = ops[i].String()
	}
	return "txn{" + strings.Join(desc, "; ") + "}"
}

// CompactStack keeps the first repository frames of a stack trace ("file.go:line").
func CompactStack(stack string) string {
	var out []string
	for _, line := range strings.Split(stack, "\n") {
		line = strings.TrimSpace(line)
		if strings.HasPrefix(line, "/repo/") && !strings.Contains(line, "zzverif") {
			if i := strings.Index(line, " "); i > 0 {
				line = line[:i]
			}
			out = append(out, strings.TrimPrefix(line, "/repo/"))
			if len(out) == 4 {
				break
			}
		}
	}
	return strings.Join(out, " < ")
}

func Trunc(s string, n int) string {
	if len(s) <= n {
		return s
	}
	return s[:n] + fmt.Sprintf("...(%d bytes)", len(s))
}
