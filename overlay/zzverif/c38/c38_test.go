// C38 String helpers match their reference semantics.
//
// Black-box differential monitor of util/tr, util/str and util/ascii against references written here from the
// documentation (suneidoc string.Tr.md / Find1of.md / Unescape.md, Kernighan & Plauger's translit which tr.go cites)
// and against Go's strings/unicode for ASCII.
package c38

import (
	"fmt"
	"math/rand/v2"
	"slices"
	"strings"
	"testing"

	"github.com/apmckinlay/gsuneido/util/ascii"
	"github.com/apmckinlay/gsuneido/util/str"
	"github.com/apmckinlay/gsuneido/util/tr"
	vk "github.com/apmckinlay/gsuneido/util/verifkit"
)

// bytes around every boundary the helpers care about: '@' 'A' 'Z' '[' '`' 'a' 'z' '{', digits, '-' '^', 0x00 0x7f 0x80 0xff
var hot = []byte("@AZ[`az{MNmn09/:-^ \t\n\r\x00\x01\x7f\x80\xc9\xe9\xff_,")

func genStr(r *rand.Rand, maxLen int) string {
	n := r.IntN(maxLen + 1)
	b := make([]byte, n)
	mode := r.IntN(4)
	for i := range b {
		switch {
		case mode == 0:
			b[i] = byte(r.IntN(256))
		case mode == 1:
			b[i] = "abcABC -"[r.IntN(8)]
		default:
			if r.IntN(4) == 0 {
				b[i] = byte(r.IntN(256))
			} else {
				b[i] = hot[r.IntN(len(hot))]
			}
		}
	}
	return string(b)
}

// ------------------------------------------------------------------ set specifications (tr, Find1of)

// setSpec is a generated character list: optional '^' (from / Find1of sets only), optional literal '-' first,
// then single characters (never '-', never '^' in first place) and ranges lo-hi with lo <= hi (end points never '-'),
// optional literal '-' last. This is the documented syntax; reversed ranges and '-' next to '-' are not documented
// and not generated.
type setSpec struct {
	text    string
	negated bool
	list    []byte // expansion in order (duplicates kept): the reference meaning
}

func genSpec(r *rand.Rand, allowNeg bool, maxItems int) setSpec {
	var sp setSpec
	var sb strings.Builder
	if allowNeg && r.IntN(4) == 0 {
		sp.negated = true
		sb.WriteByte('^')
	}
	n := r.IntN(maxItems + 1)
	if r.IntN(10) == 0 {
		sb.WriteByte('-')
		sp.list = append(sp.list, '-')
	}
	single := func() byte {
		for {
			var c byte
			if r.IntN(3) == 0 {
				c = byte(r.IntN(256))
			} else {
				c = hot[r.IntN(len(hot))]
			}
			if c != '-' {
				return c
			}
		}
	}
	for i := 0; i < n; i++ {
		first := sb.Len() == 0 || (sb.Len() == 1 && sp.negated)
		if r.IntN(3) == 0 {
			lo, hi := single(), single()
			if lo > hi {
				lo, hi = hi, lo
			}
			if int(hi)-int(lo) > 40 && r.IntN(3) > 0 {
				hi = lo + byte(r.IntN(6))
			}
			if first && lo == '^' {
				continue
			}
			sb.WriteByte(lo)
			sb.WriteByte('-')
			sb.WriteByte(hi)
			for c := int(lo); c <= int(hi); c++ {
				sp.list = append(sp.list, byte(c))
			}
		} else {
			c := single()
			if first && c == '^' {
				continue
			}
			sb.WriteByte(c)
			sp.list = append(sp.list, c)
		}
	}
	if r.IntN(10) == 0 {
		sb.WriteByte('-')
		sp.list = append(sp.list, '-')
	}
	sp.text = sb.String()
	return sp
}

// refTr is translit as documented: delete when to is empty; from[i] -> to[i]; a shorter to is padded with its last
// character and that padded character is written only once for a run; '^' = all characters except the set, which all
// map to the last character of to.
func refTr(src string, from, to setSpec) string {
	if src == "" || from.text == "" {
		return src
	}
	var idx [256]int // position in from, -1 = not translated
	for i := range idx {
		idx[i] = -1
	}
	for i := len(from.list) - 1; i >= 0; i-- {
		idx[from.list[i]] = i // first occurrence wins
	}
	last := len(to.list) - 1
	if from.negated {
		for i := range idx {
			if idx[i] == -1 {
				idx[i] = last + 1 // beyond the to set: padded
			} else {
				idx[i] = -1
			}
		}
	}
	out := make([]byte, 0, len(src))
	if last < 0 { // delete
		for i := 0; i < len(src); i++ {
			if idx[src[i]] < 0 {
				out = append(out, src[i])
			}
		}
		return string(out)
	}
	squeeze := from.negated || len(to.list) < len(from.list)
	inRun := false
	for i := 0; i < len(src); i++ {
		k := idx[src[i]]
		switch {
		case k < 0:
			out = append(out, src[i])
			inRun = false
		case squeeze && k >= last:
			if !inRun {
				out = append(out, to.list[last])
			}
			inRun = true
		default:
			out = append(out, to.list[k])
			inRun = false
		}
	}
	return string(out)
}

func refLower(s string) string {
	b := []byte(s)
	for i, c := range b {
		if c >= 'A' && c <= 'Z' {
			b[i] = c + 32
		}
	}
	return string(b)
}

func refUpper(s string) string {
	b := []byte(s)
	for i, c := range b {
		if c >= 'a' && c <= 'z' {
			b[i] = c - 32
		}
	}
	return string(b)
}

func isASCII(s string) bool {
	for i := 0; i < len(s); i++ {
		if s[i] >= 0x80 {
			return false
		}
	}
	return true
}

func sgn(n int) int {
	switch {
	case n < 0:
		return -1
	case n > 0:
		return 1
	}
	return 0
}

type checker struct {
	rep *vk.Report
	r   *rand.Rand
}

func (c *checker) fail(class, key string, got, want any) {
	c.rep.Violate("C38/"+class, key, map[string]any{"got": fmt.Sprintf("%q", got), "want": fmt.Sprintf("%q", want)})
}

// ------------------------------------------------------------------ tr

func (c *checker) trCase() {
	r := c.r
	from := genSpec(r, true, 5)
	to := genSpec(r, false, 5)
	switch r.IntN(6) {
	case 0:
		to = setSpec{} // delete
	case 1:
		to = genSpec(r, false, 1) // short: squeeze
	}
	if strings.HasPrefix(to.text, "^") {
		// '^' has no documented meaning at the start of the to set: not generated (genSpec never starts with '^' when !allowNeg)
		to = setSpec{}
	}
	src := genStr(r, 24)
	if len(from.list) > 0 && r.IntN(2) == 0 { // make sure translated characters and runs occur
		b := []byte(src)
		for k := r.IntN(6); k > 0; k-- {
			ch := from.list[r.IntN(len(from.list))]
			at := r.IntN(len(b) + 1)
			rep := 1 + r.IntN(3)
			b = slices.Insert(b, at, []byte(strings.Repeat(string(ch), rep))...)
		}
		src = string(b)
	}
	want := refTr(src, from, to)
	key := fmt.Sprintf("tr.Replace(%q, tr.New(%q), tr.New(%q))", src, from.text, to.text)
	var got string
	p, _ := vk.Catch(func() { got = tr.Replace(src, tr.New(from.text), tr.New(to.text)) })
	nontrivial := want != src
	c.rep.Eval(vk.Hash64("tr", src, from.text, to.text), nontrivial)
	c.rep.Count("tr_cases", 1)
	switch {
	case to.text == "":
		c.rep.Count("tr_delete", 1)
	case from.negated:
		c.rep.Count("tr_negated", 1)
	case len(to.list) < len(from.list):
		c.rep.Count("tr_squeeze", 1)
	default:
		c.rep.Count("tr_map", 1)
	}
	if nontrivial {
		c.rep.Count("tr_changed", 1)
	}
	if p != nil {
		c.rep.Violate("C38/tr/panic", key, map[string]any{"panic": fmt.Sprint(p)})
		return
	}
	if nontrivial && len(src) > 4 && len(from.list) > 1 && c.rep.WantSample() {
		c.rep.Sample(map[string]any{"call": key, "result": fmt.Sprintf("%q", got), "reference": fmt.Sprintf("%q", want)})
	}
	if got != want {
		cl := "tr/map-wrong"
		switch {
		case to.text == "":
			cl = "tr/delete-wrong"
		case from.negated:
			cl = "tr/negated-wrong"
		case len(to.list) < len(from.list):
			cl = "tr/squeeze-wrong"
		}
		c.fail(cl, key, got, want)
	}
	// the expansion itself, where it is visible: translating onto itself with the same spec must be the identity
	if r.IntN(8) == 0 && !from.negated && from.text != "" {
		var same string
		p, _ := vk.Catch(func() { same = tr.Replace(src, tr.New(from.text), tr.New(from.text)) })
		if p != nil || same != src {
			c.fail("tr/identity-wrong", fmt.Sprintf("tr.Replace(%q, tr.New(%q), same)", src, from.text), same, src)
		}
	}
}

// ------------------------------------------------------------------ case folding, comparison

func (c *checker) caseCase() {
	r := c.r
	s := genStr(r, 16)
	t := genStr(r, 16)
	switch r.IntN(4) {
	case 0: // equal up to case
		b := []byte(s)
		for i := range b {
			if r.IntN(2) == 0 {
				b[i] = refLower(string(b[i]))[0]
			} else {
				b[i] = refUpper(string(b[i]))[0]
			}
		}
		t = string(b)
	case 1: // common prefix, then a boundary difference
		t = s + string(hot[r.IntN(len(hot))])
		if r.IntN(2) == 0 {
			s, t = t+"", s
		}
	case 2:
		if len(s) > 0 {
			b := []byte(s)
			b[r.IntN(len(b))] = hot[r.IntN(len(hot))]
			t = string(b)
		}
	}
	c.rep.Eval(vk.Hash64("case", s, t), s != refLower(s) || s != refUpper(s))
	c.rep.Count("case_cases", 1)
	if got, want := str.ToLower(s), refLower(s); got != want {
		c.fail("str/tolower-wrong", fmt.Sprintf("str.ToLower(%q)", s), got, want)
	} else if isASCII(s) && got != strings.ToLower(s) {
		c.fail("str/tolower-wrong", fmt.Sprintf("str.ToLower(%q) vs strings.ToLower", s), got, strings.ToLower(s))
	}
	if got, want := str.ToUpper(s), refUpper(s); got != want {
		c.fail("str/toupper-wrong", fmt.Sprintf("str.ToUpper(%q)", s), got, want)
	} else if isASCII(s) && got != strings.ToUpper(s) {
		c.fail("str/toupper-wrong", fmt.Sprintf("str.ToUpper(%q) vs strings.ToUpper", s), got, strings.ToUpper(s))
	}
	want := strings.Compare(refLower(s), refLower(t))
	if got := str.CmpLower(s, t); sgn(got) != want || (got != -1 && got != 0 && got != 1) {
		c.fail("str/cmplower-wrong", fmt.Sprintf("str.CmpLower(%q, %q)", s, t), got, want)
	}
	if got := str.CmpLower(t, s); sgn(got) != -want {
		c.fail("str/cmplower-asymmetric", fmt.Sprintf("str.CmpLower(%q, %q)", t, s), got, -want)
	}
	if want == 0 {
		c.rep.Count("case_equal_ignoring_case", 1)
	}
	if len(s) > 3 && s != t && c.rep.WantSample() {
		c.rep.Sample(map[string]any{"call": fmt.Sprintf("str.CmpLower(%q, %q), str.ToLower(%q)", s, t, s),
			"result": fmt.Sprintf("%d, %q", str.CmpLower(s, t), str.ToLower(s)), "reference": fmt.Sprintf("%d, %q", want, refLower(s))})
	}
	if got := str.EqualCI(s, t); got != (want == 0) {
		c.fail("str/equalci-wrong", fmt.Sprintf("str.EqualCI(%q, %q)", s, t), got, want == 0)
	} else if isASCII(s) && isASCII(t) && got != strings.EqualFold(s, t) {
		c.fail("str/equalci-wrong", fmt.Sprintf("str.EqualCI(%q, %q) vs strings.EqualFold", s, t), got, strings.EqualFold(s, t))
	}
	// first letter helpers
	wantCap := s
	if len(s) > 0 {
		wantCap = refUpper(s[:1]) + s[1:]
	}
	if got := str.Capitalize(s); got != wantCap {
		c.fail("str/capitalize-wrong", fmt.Sprintf("str.Capitalize(%q)", s), got, wantCap)
	}
	wantUn := s
	if len(s) > 0 {
		wantUn = refLower(s[:1]) + s[1:]
	}
	if got := str.UnCapitalize(s); got != wantUn {
		c.fail("str/uncapitalize-wrong", fmt.Sprintf("str.UnCapitalize(%q)", s), got, wantUn)
	}
	if got, want := str.Capitalized(s), len(s) > 0 && s[0] >= 'A' && s[0] <= 'Z'; got != want {
		c.fail("str/capitalized-wrong", fmt.Sprintf("str.Capitalized(%q)", s), got, want)
	}
	// prefixes
	cp := 0
	for cp < len(s) && cp < len(t) && s[cp] == t[cp] {
		cp++
	}
	if got := str.CommonPrefixLen(s, t); got != cp {
		c.fail("str/commonprefix-wrong", fmt.Sprintf("str.CommonPrefixLen(%q, %q)", s, t), got, cp)
	}
	if got := str.CommonPrefix(s, t); got != s[:cp] {
		c.fail("str/commonprefix-wrong", fmt.Sprintf("str.CommonPrefix(%q, %q)", s, t), got, s[:cp])
	}
	if got, want := str.HasPrefix(s, t), strings.HasPrefix(s, t); got != want {
		c.fail("str/hasprefix-wrong", fmt.Sprintf("str.HasPrefix(%q, %q)", s, t), got, want)
	}
	if got, want := str.HasPrefix([]byte(s), s[:cp]), true; got != want {
		c.fail("str/hasprefix-wrong", fmt.Sprintf("str.HasPrefix([]byte(%q), %q)", s, s[:cp]), got, want)
	}
}

// ------------------------------------------------------------------ Find1of / FindLast1of / MakeSet

func (c *checker) findCase() {
	r := c.r
	sp := genSpec(r, true, 4)
	s := genStr(r, 20)
	var member [256]bool
	for _, ch := range sp.list {
		member[ch] = true
	}
	if sp.negated {
		for i := range member {
			member[i] = !member[i]
		}
	}
	first, last := -1, -1
	if sp.text != "" {
		for i := 0; i < len(s); i++ {
			if member[s[i]] {
				if first < 0 {
					first = i
				}
				last = i
			}
		}
	}
	c.rep.Eval(vk.Hash64("find", sp.text, s), first >= 0 && first != last)
	c.rep.Count("find_cases", 1)
	if first >= 0 {
		c.rep.Count("find_found", 1)
	}
	if got := str.Find1of(s, sp.text); got != first {
		c.fail("str/find1of-wrong", fmt.Sprintf("str.Find1of(%q, %q)", s, sp.text), got, first)
	}
	if got := str.FindLast1of(s, sp.text); got != last {
		c.fail("str/findlast1of-wrong", fmt.Sprintf("str.FindLast1of(%q, %q)", s, sp.text), got, last)
	}
	if sp.text != "" && r.IntN(4) == 0 {
		set := str.MakeSet(sp.text)
		for ch := 0; ch < 256; ch++ {
			if set.Contains(byte(ch)) != member[ch] {
				c.fail("str/makeset-wrong", fmt.Sprintf("str.MakeSet(%q).Contains(%#x)", sp.text, ch), !member[ch], member[ch])
				break
			}
		}
	}
}

// ------------------------------------------------------------------ splitting, joining, before/after, substrings, unescape

func (c *checker) splitCase() {
	r := c.r
	sep := []string{",", ", ", "ab", "a", "", "\x00", "--", "\xff"}[r.IntN(8)]
	nparts := r.IntN(5)
	parts := make([]string, nparts)
	for i := range parts {
		parts[i] = genStr(r, 4)
	}
	s := strings.Join(parts, sep)
	if r.IntN(3) == 0 {
		s = genStr(r, 12)
	}
	c.rep.Eval(vk.Hash64("split", s, sep), sep != "" && strings.Contains(s, sep))
	c.rep.Count("split_cases", 1)
	k := func(f string, args ...any) string { return fmt.Sprintf(f, args...) }
	// Split: nil for "", else like strings.Split
	var wantSplit []string
	if s != "" {
		wantSplit = strings.Split(s, sep)
	}
	if got := str.Split(s, sep); !slices.Equal(got, wantSplit) || (s == "" && got != nil) {
		c.fail("str/split-wrong", k("str.Split(%q, %q)", s, sep), got, wantSplit)
	}
	// Join with and without delimiters
	for _, f := range []string{sep, "(" + sep + ")", "[" + sep + "]", "{" + sep + "}"} {
		want := strings.Join(parts, sep)
		if f != sep {
			want = f[:1] + want + f[len(f)-1:]
		} else if len(f) > 0 && strings.ContainsRune("([{", rune(f[0])) {
			continue // would be read as delimiters
		}
		if got := str.Join(f, parts); got != want {
			c.fail("str/join-wrong", k("str.Join(%q, %q)", f, parts), got, want)
		}
	}
	if sep != "" && len(parts) > 0 && !strings.Contains(strings.Join(parts, ""), sep) && !strings.Contains(s, sep+sep) && s == strings.Join(parts, sep) {
		// joining what was split gives the string back (when no part contains the separator)
		if back := str.Join(sep, str.Split(s, sep)); s != "" && back != s && !strings.ContainsRune("([{", rune(sep[0])) {
			c.fail("str/split-join-roundtrip", k("str.Join(%q, str.Split(%q, %q))", sep, s, sep), back, s)
		}
	}
	// before / after: the part before/after the first/last occurrence, the whole string when there is none
	if sep != "" {
		i, j := strings.Index(s, sep), strings.LastIndex(s, sep)
		bf, af, bl, al := s, s, s, s
		if i >= 0 {
			bf, af = s[:i], s[i+len(sep):]
			bl, al = s[:j], s[j+len(sep):]
			c.rep.Count("split_separator_present", 1)
		}
		if got := str.BeforeFirst(s, sep); got != bf {
			c.fail("str/beforefirst-wrong", k("str.BeforeFirst(%q, %q)", s, sep), got, bf)
		}
		if got := str.AfterFirst(s, sep); got != af {
			c.fail("str/afterfirst-wrong", k("str.AfterFirst(%q, %q)", s, sep), got, af)
		}
		if got := str.BeforeLast(s, sep); got != bl {
			c.fail("str/beforelast-wrong", k("str.BeforeLast(%q, %q)", s, sep), got, bl)
		}
		if got := str.AfterLast(s, sep); got != al {
			c.fail("str/afterlast-wrong", k("str.AfterLast(%q, %q)", s, sep), got, al)
		}
		b, a := str.Cut(s, sep[0])
		wb, wa := s, ""
		if x := strings.IndexByte(s, sep[0]); x >= 0 {
			wb, wa = s[:x], s[x+1:]
		}
		if b != wb || a != wa {
			c.fail("str/cut-wrong", k("str.Cut(%q, %q)", s, sep[0]), b+"|"+a, wb+"|"+wa)
		}
	}
	// substrings with indexes beyond the end
	i := r.IntN(len(s) + 4)
	n := r.IntN(len(s) + 4)
	wantSubn := ""
	if i < len(s) {
		wantSubn = s[i:min(len(s), i+n)]
	}
	if got := str.Subn(s, i, n); got != wantSubn {
		c.fail("str/subn-wrong", k("str.Subn(%q, %d, %d)", s, i, n), got, wantSubn)
	}
	j := i + n
	if got := str.Subi(s, i, j); got != wantSubn {
		c.fail("str/subi-wrong", k("str.Subi(%q, %d, %d)", s, i, j), got, wantSubn)
	}
	// Opt: "" if any part is "", else the concatenation
	wantOpt := strings.Join(parts, "")
	if slices.Contains(parts, "") {
		wantOpt = ""
	}
	if got := str.Opt(parts...); got != wantOpt {
		c.fail("str/opt-wrong", k("str.Opt(%q...)", parts), got, wantOpt)
	}
	var cb str.CommaBuilder
	for _, p := range parts {
		cb.Add(p)
	}
	if got, want := cb.String(), strings.Join(parts, ","); got != want {
		c.fail("str/commabuilder-wrong", k("CommaBuilder %q", parts), got, want)
	}
	if got, want := str.IndexFunc(s, ascii.IsDigit), strings.IndexAny(s, "0123456789"); got != want {
		c.fail("str/indexfunc-wrong", k("str.IndexFunc(%q, IsDigit)", s), got, want)
	}
}

// unescapeCase: the documented escapes of string.Unescape (\xhh, \t \n \r, \' \", \0, \\), which util/str.Doesc implements.
func (c *checker) unescapeCase() {
	r := c.r
	var src, want, undecoded strings.Builder // undecoded: what comes out if \xhh and \0 are passed through literally
	kinds := map[string]bool{}
	for k := r.IntN(6) + 1; k > 0; k-- {
		switch r.IntN(9) {
		case 0:
			b := byte(r.IntN(256))
			f := `\x%02x`
			if r.IntN(2) == 0 {
				f = `\x%02X`
			}
			fmt.Fprintf(&src, f, b)
			fmt.Fprintf(&undecoded, f, b)
			want.WriteByte(b)
			kinds["hex"] = true
		case 1:
			src.WriteString(`\t`)
			want.WriteByte('\t')
			undecoded.WriteByte('\t')
			kinds["simple"] = true
		case 2:
			src.WriteString(`\n`)
			want.WriteByte('\n')
			undecoded.WriteByte('\n')
			kinds["simple"] = true
		case 3:
			src.WriteString(`\r`)
			want.WriteByte('\r')
			undecoded.WriteByte('\r')
			kinds["simple"] = true
		case 4:
			q := `'"`[r.IntN(2)]
			src.WriteByte('\\')
			src.WriteByte(q)
			want.WriteByte(q)
			undecoded.WriteByte(q)
			kinds["simple"] = true
		case 5:
			src.WriteString(`\\`)
			want.WriteByte('\\')
			undecoded.WriteByte('\\')
			kinds["simple"] = true
		case 6:
			src.WriteString(`\0`)
			want.WriteByte(0)
			undecoded.WriteString(`\0`)
			kinds["nul"] = true
		default: // plain text without backslashes
			t := strings.ReplaceAll(genStr(r, 4), `\`, "/")
			src.WriteString(t)
			want.WriteString(t)
			undecoded.WriteString(t)
		}
	}
	s := src.String()
	c.rep.Eval(vk.Hash64("unescape", s), len(kinds) > 0)
	c.rep.Count("unescape_cases", 1)
	var out strings.Builder
	p, _ := vk.Catch(func() {
		for i := 0; i < len(s); i++ {
			var ch byte
			ch, i = str.Doesc(s, i)
			out.WriteByte(ch)
		}
	})
	key := fmt.Sprintf("unescape %q with str.Doesc", s)
	if p != nil {
		c.rep.Violate("C38/str/doesc-panic", key, map[string]any{"panic": fmt.Sprint(p)})
		return
	}
	if out.String() != want.String() {
		cl := "str/doesc-wrong"
		if (kinds["hex"] || kinds["nul"]) && out.String() == undecoded.String() {
			// everything else is right, only the \xhh / \0 escapes came through as literal text
			cl = "str/doesc-hex-and-nul-escapes-not-decoded"
		}
		c.fail(cl, key, out.String(), want.String())
	}
}

// ------------------------------------------------------------------ ascii: exhaustive over all bytes

func asciiExhaustive(rep *vk.Report) {
	for i := 0; i < 256; i++ {
		ch := byte(i)
		lower := ch >= 'a' && ch <= 'z'
		upper := ch >= 'A' && ch <= 'Z'
		digit := ch >= '0' && ch <= '9'
		hex := digit || (ch >= 'a' && ch <= 'f') || (ch >= 'A' && ch <= 'F')
		rep.Eval(vk.Hash64("ascii", i), true)
		chk := func(name string, got, want any) {
			if got != want {
				rep.Violate("C38/ascii/"+name+"-wrong", fmt.Sprintf("ascii.%s(%#x)", name, i), map[string]any{"got": got, "want": want})
			}
		}
		chk("IsLower", ascii.IsLower(ch), lower)
		chk("IsUpper", ascii.IsUpper(ch), upper)
		chk("IsLetter", ascii.IsLetter(ch), lower || upper)
		chk("IsDigit", ascii.IsDigit(ch), digit)
		chk("IsHexDigit", ascii.IsHexDigit(ch), hex)
		wl, wu := ch, ch
		if upper {
			wl = ch + 32
		}
		if lower {
			wu = ch - 32
		}
		chk("ToLower", ascii.ToLower(ch), wl)
		chk("ToUpper", ascii.ToUpper(ch), wu)
		if i < 128 {
			chk("ToLower", ascii.ToLower(ch), strings.ToLower(string(rune(i)))[0])
			chk("ToUpper", ascii.ToUpper(ch), strings.ToUpper(string(rune(i)))[0])
		}
		// whitespace: blank, tab, return, linefeed are documented; \v and \f are left open
		switch ch {
		case ' ', '\t', '\r', '\n':
			chk("IsSpace", ascii.IsSpace(ch), true)
		case '\v', '\f':
		default:
			chk("IsSpace", ascii.IsSpace(ch), false)
		}
		for radix := 2; radix <= 36; radix++ {
			want := -1
			switch {
			case digit:
				want = int(ch - '0')
			case hex:
				want = int(wl-'a') + 10
			}
			if want >= radix {
				want = -1
			}
			if got := ascii.Digit(ch, radix); got != want {
				rep.Violate("C38/ascii/Digit-wrong", fmt.Sprintf("ascii.Digit(%#x, %d)", i, radix), map[string]any{"got": got, "want": want})
			}
			rep.Count("ascii_digit_checks", 1)
		}
	}
	rep.Count("ascii_bytes_checked", 256)
}

func TestVerifC38(t *testing.T) {
	rep := vk.NewReport("C38",
		"a case is one generated call: tr.Replace with generated from/to set specifications (single bytes, ranges lo-hi, leading/trailing literal '-', '^' negation, empty and "+
			"short to sets) on byte strings seeded with characters of the from set and runs of them; case folding/comparison on pairs that are equal up to case, prefixes of each "+
			"other or differ in one boundary byte; Find1of/FindLast1of/MakeSet with generated sets; Split/Join/Before*/After*/Cut/Sub*/Opt; documented escapes through str.Doesc; "+
			"util/ascii exhaustively over all 256 bytes (Digit for radix 2..36). Bytes come from a hot list around '@AZ[`az{', digits, '-', '^', 0x00, 0x7f, 0x80, 0xff plus random bytes. "+
			"Non-trivial = the reference result differs from the input (tr, case), a member is found at two different places (find), the separator occurs (split), "+
			"an escape is present (unescape). Distinct by (function, arguments)",
		"references: translit as described in string.Tr.md and Software Tools, bytewise ASCII folding cross-checked with Go's strings package on ASCII input, set syntax of string.Find1of.md, escapes of string.Unescape.md",
		"not generated because undocumented: reversed ranges (z-a), '-' next to '-', '^' at the start of the to set, Join formats of a single bracket; ascii.IsSpace is not judged on \\v and \\f")
	defer rep.Finish()
	if vk.Shard() == 0 {
		rep.Case("ascii exhaustive")
		asciiExhaustive(rep)
	}
	n := vk.N(120000, 10000000)
	for i := 0; i < n; i++ {
		if i%2000 == 0 {
			rep.Case("cases %d..%d seed=%d shard=%d/%d", i, i+1999, vk.Seed(), vk.Shard(), vk.NShards())
		}
		c := checker{rep, vk.RandFor(38, i)}
		switch k := i % 20; {
		case k < 9:
			c.trCase()
		case k < 13:
			c.caseCase()
		case k < 16:
			c.findCase()
		case k < 19:
			c.splitCase()
		default:
			c.unescapeCase()
		}
	}
}
