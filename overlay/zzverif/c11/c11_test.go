// C11 Index buffer merging is equivalent to applying changes in order.
//
// Black-box monitor over db19/index/ixbuf: buffers are built through the mutable API (Insert/Update/Delete, which
// combines and splits chunks) from op sequences that are valid with respect to everything below them, then merged
// with ixbuf.Merge (also in chains, feeding results back in). The oracle is the monitor's own state machine of the
// documented combine table folded over every key's ops in order.
package c11

import (
	"fmt"
	"hash/fnv"
	"math/rand/v2"
	"sort"
	"testing"

	"github.com/apmckinlay/gsuneido/db19/index/ixbuf"
	vk "github.com/apmckinlay/gsuneido/util/verifkit"
)

const (
	kNone = iota // no entry (never touched, or add then delete)
	kAdd
	kUpd
	kDel
)

var kindName = [...]string{"none", "add", "update", "delete"}

type ent struct {
	kind uint8
	off  uint64
}

func (e ent) String() string { return fmt.Sprintf("%s:%d", kindName[e.kind], e.off) }

// raw is the slot value the real buffers must hold for an entry
func (e ent) raw() uint64 {
	switch e.kind {
	case kAdd:
		return e.off
	case kUpd:
		return e.off | 1<<62
	case kDel:
		return e.off | 1<<63
	}
	return 0
}

func decode(off uint64) ent {
	o := off & 0xffffffffff
	switch off >> 62 {
	case 0:
		return ent{kAdd, o}
	case 1:
		return ent{kUpd, o}
	case 2:
		return ent{kDel, o}
	}
	return ent{255, off}
}

// fold is the documented combine table: add.update => add, add.delete => nothing, update.update => update,
// update.delete => delete, delete.add => update; nothing.x => x. ok=false for the invalid pairs.
func fold(a, b ent) (res ent, ok bool) {
	switch {
	case a.kind == kNone:
		return b, true
	case a.kind == kAdd && b.kind == kUpd:
		return ent{kAdd, b.off}, true
	case a.kind == kAdd && b.kind == kDel:
		return ent{kNone, 0}, true
	case a.kind == kUpd && b.kind == kUpd:
		return ent{kUpd, b.off}, true
	case a.kind == kUpd && b.kind == kDel:
		return ent{kDel, b.off}, true
	case a.kind == kDel && b.kind == kAdd:
		return ent{kUpd, b.off}, true
	}
	return ent{}, false
}

// wantOld is what Insert must return as oldoff: the previous offset for update.update and update.delete
func wantOld(a, b ent) uint64 {
	if a.kind == kUpd && (b.kind == kUpd || b.kind == kDel) {
		return a.off
	}
	return 0
}

type op struct {
	key string
	e   ent
}

// world tracks which keys are live (with which offset) below/through the buffers generated so far
type world struct {
	r       *rand.Rand
	live    map[string]uint64 // key -> offset if live
	known   map[string]bool   // liveness already decided
	pLive   float64           // probability that an untouched key is live in the base
	nextOff uint64
	wide    bool // offsets spread over the whole 40 bit range an entry can hold (a 1 TB database), not 1, 2, 3, ...
	keyfn   func(int) string
	univ    int
}

// newOff returns a fresh, non-zero offset; in wide worlds a bijective scramble of the counter over 40 bits
func (w *world) newOff() uint64 {
	w.nextOff++
	if w.wide {
		return (w.nextOff * 0x9e3779b97f) & 0xffffffffff
	}
	return w.nextOff
}

func (w *world) isLive(k string) (uint64, bool) {
	if !w.known[k] {
		w.known[k] = true
		if w.r.Float64() < w.pLive {
			w.live[k] = w.newOff()
		}
	}
	o, ok := w.live[k]
	return o, ok
}

// buffer is one generated input: the real ixbuf plus the monitor's fold of its ops
type buffer struct {
	ib   *ixbuf.T
	want map[string]ent // per-buffer expected content (kNone entries removed)
	ops  []op
	snap []op // snapshot through Iter() taken before merging
}

type tester struct {
	rep *vk.Report
	r   *rand.Rand
}

// pick chooses the next key index of a buffer according to its pattern
type pattern struct {
	kind   int
	lo, hi int // block
	blocks [][2]int
	next   int
}

func (t *tester) newPattern(w *world, size int, maxSoFar *int) *pattern {
	r := t.r
	p := &pattern{kind: r.IntN(6)}
	u := w.univ
	switch p.kind {
	case 0: // uniform
	case 1: // one contiguous block
		span := min(u, max(1, size+r.IntN(size+1)))
		p.lo = r.IntN(u - span + 1)
		p.hi = p.lo + span
	case 2: // 2-3 blocks
		nb := 2 + r.IntN(2)
		for i := 0; i < nb; i++ {
			span := min(u, max(1, size/nb+r.IntN(size/nb+2)))
			lo := r.IntN(u - span + 1)
			p.blocks = append(p.blocks, [2]int{lo, lo + span})
		}
	case 3: // above everything generated so far (increasing keys), sequential
		p.next = *maxSoFar + 1
	case 4: // sequential ascending from a random start (dense run)
		p.next = r.IntN(u)
	case 5: // low block: below most others
		span := min(u, max(1, size))
		p.lo, p.hi = 0, span
	}
	return p
}

func (p *pattern) pick(r *rand.Rand, u int) int {
	switch p.kind {
	case 1, 5:
		return p.lo + r.IntN(p.hi-p.lo)
	case 2:
		b := p.blocks[r.IntN(len(p.blocks))]
		return b[0] + r.IntN(b[1]-b[0])
	case 3, 4:
		p.next++
		return p.next - 1
	}
	return r.IntN(u)
}

func (t *tester) genBuffer(w *world, size int, maxSoFar *int, ident string) *buffer {
	r := t.r
	b := &buffer{ib: &ixbuf.T{}, want: map[string]ent{}}
	p := t.newPattern(w, size, maxSoFar)
	var used []string
	for n := 0; n < size; n++ {
		var k string
		if len(used) > 0 && r.IntN(7) == 0 {
			k = used[r.IntN(len(used))] // several ops on one key within one buffer
		} else {
			i := p.pick(r, w.univ)
			if i > *maxSoFar {
				*maxSoFar = i
			}
			k = w.keyfn(i)
			used = append(used, k)
		}
		cur, live := w.isLive(k)
		var e ent
		if !live {
			e = ent{kAdd, w.newOff()}
			w.live[k] = e.off
		} else if r.IntN(2) == 0 {
			e = ent{kUpd, w.newOff()}
			w.live[k] = e.off
		} else {
			e = ent{kDel, cur}
			delete(w.live, k)
		}
		prev := b.want[k]
		res, ok := fold(prev, e)
		if !ok {
			panic("harness bug: generated an invalid op pair " + prev.String() + " " + e.String())
		}
		var old uint64
		pn, _ := vk.Catch(func() {
			switch e.kind {
			case kAdd:
				old = b.ib.Insert(k, e.off)
			case kUpd:
				old = b.ib.Update(k, e.off)
			case kDel:
				old = b.ib.Delete(k, e.off)
			}
		})
		if pn != nil {
			t.rep.Violate("C11/panic/insert", fmt.Sprintf("%s key=%q %s after %s", ident, k, e, prev), fmt.Sprint(pn))
			return nil
		}
		t.rep.Count("inserts", 1)
		if prev.kind != kNone {
			t.rep.Count("inserts_combined", 1)
			t.rep.Seen("combine_pairs", kindName[prev.kind]+"."+kindName[e.kind])
		}
		if wo := wantOld(prev, e); old != wo {
			t.rep.Violate("C11/insert-oldoff-wrong", fmt.Sprintf("%s key=%q %s after %s", ident, k, e, prev), map[string]any{"got": old, "want": wo})
		}
		if res.kind == kNone {
			delete(b.want, k)
		} else {
			b.want[k] = res
		}
		b.ops = append(b.ops, op{k, e})
	}
	return b
}

// contents reads a buffer through Iter()
func contents(ib *ixbuf.T) []op {
	var out []op
	it := ib.Iter()
	for {
		k, off, ok := it()
		if !ok {
			return out
		}
		out = append(out, op{k, decode(off)})
	}
}

func sortedWant(want map[string]ent) []op {
	out := make([]op, 0, len(want))
	for k, e := range want {
		out = append(out, op{k, e})
	}
	sort.Slice(out, func(i, j int) bool { return out[i].key < out[j].key })
	return out
}

func sameOps(a, b []op) bool {
	if len(a) != len(b) {
		return false
	}
	for i := range a {
		if a[i] != b[i] {
			return false
		}
	}
	return true
}

// verify compares a real buffer with the expected key -> entry mapping
func (t *tester) verify(what, ident string, ib *ixbuf.T, want map[string]ent, w *world) bool {
	rep := t.rep
	exp := sortedWant(want)
	var got []op
	if p, _ := vk.Catch(func() { got = contents(ib) }); p != nil {
		rep.Violate("C11/panic/iter", ident+" "+what, fmt.Sprint(p))
		return false
	}
	ok := true
	for i := 1; i < len(got); i++ {
		if got[i-1].key >= got[i].key {
			cl := "C11/" + what + "/keys-out-of-order"
			if got[i-1].key == got[i].key {
				cl = "C11/" + what + "/duplicate-key"
			}
			rep.Violate(cl, ident, map[string]any{"at": i, "prev": fmt.Sprintf("%q %s", got[i-1].key, got[i-1].e), "next": fmt.Sprintf("%q %s", got[i].key, got[i].e)})
			ok = false
			break
		}
	}
	if !sameOps(got, exp) {
		ok = false
		// find the first difference
		gm := map[string]ent{}
		for _, o := range got {
			gm[o.key] = o.e
		}
		cl, detail := "C11/"+what+"/content-differs", map[string]any{"len_got": len(got), "len_want": len(exp)}
		for _, o := range exp {
			g, has := gm[o.key]
			if !has {
				cl = "C11/" + what + "/entry-lost"
				detail["key"], detail["want"] = o.key, o.e.String()
				break
			}
			if g != o.e {
				cl = "C11/" + what + "/wrong-combination"
				detail["key"], detail["want"], detail["got"] = o.key, o.e.String(), g.String()
				break
			}
		}
		if cl == "C11/"+what+"/content-differs" {
			for _, o := range got {
				if _, has := want[o.key]; !has {
					cl = "C11/" + what + "/extra-entry"
					detail["key"], detail["got"] = o.key, o.e.String()
					break
				}
			}
		}
		rep.Violate(cl, ident, detail)
	}
	if ib.Len() != len(exp) {
		rep.Violate("C11/"+what+"/len-wrong", ident, map[string]any{"Len": ib.Len(), "entries": len(got), "want": len(exp)})
		ok = false
	}
	if !ok {
		return false
	}
	// Check() (the package's own invariant checker) must accept it. It wrongly rejects a buffer whose first key
	// is "" (prev starts as ""), so it is only called when there is no empty key.
	if len(exp) == 0 || exp[0].key != "" {
		if p, _ := vk.Catch(func() { ib.Check() }); p != nil {
			rep.Violate("C11/"+what+"/check-fails", ident, fmt.Sprint(p))
		}
		rep.Count("check_calls", 1)
	} else {
		rep.Count("check_skipped_empty_key", 1)
	}
	// Lookup of present keys (a sample for big buffers) and of absent keys
	step := 1 + len(exp)/300
	for i := t.r.IntN(step); i < len(exp); i += step {
		if g := ib.Lookup(exp[i].key); g != exp[i].e.raw() {
			rep.Violate("C11/"+what+"/lookup-wrong", fmt.Sprintf("%s key=%q", ident, exp[i].key), map[string]any{"got": decode(g).String(), "want": exp[i].e.String()})
			break
		}
		rep.Count("lookups", 1)
	}
	for i := 0; i < 20; i++ {
		k := w.keyfn(t.r.IntN(w.univ+2)) + []string{"", "\x00", "!"}[t.r.IntN(3)]
		if _, has := want[k]; has {
			continue
		}
		if g := ib.Lookup(k); g != 0 {
			rep.Violate("C11/"+what+"/lookup-finds-absent-key", fmt.Sprintf("%s key=%q", ident, k), decode(g).String())
			break
		}
	}
	// the Suneido style iterator forwards and backwards
	if p, _ := vk.Catch(func() {
		it := ib.Iterator()
		i := 0
		for it.Next(); !it.Eof(); it.Next() {
			k, off := it.Cur()
			if i >= len(exp) || k != exp[i].key || off != exp[i].e.raw() {
				rep.Violate("C11/"+what+"/iterator-next-wrong", fmt.Sprintf("%s at %d", ident, i), fmt.Sprintf("%q", k))
				return
			}
			i++
		}
		if i != len(exp) {
			rep.Violate("C11/"+what+"/iterator-next-wrong", fmt.Sprintf("%s ended at %d of %d", ident, i, len(exp)), "")
			return
		}
		it.Rewind()
		i = len(exp) - 1
		for it.Prev(); !it.Eof(); it.Prev() {
			k, off := it.Cur()
			if i < 0 || k != exp[i].key || off != exp[i].e.raw() {
				rep.Violate("C11/"+what+"/iterator-prev-wrong", fmt.Sprintf("%s at %d", ident, i), fmt.Sprintf("%q", k))
				return
			}
			i--
		}
		if i != -1 {
			rep.Violate("C11/"+what+"/iterator-prev-wrong", fmt.Sprintf("%s ended at %d", ident, i), "")
		}
	}); p != nil {
		rep.Violate("C11/panic/iterator", ident+" "+what, fmt.Sprint(p))
	}
	return true
}

// foldAll folds the expected contents of the inputs in order
func foldAll(ident string, wants []map[string]ent) (map[string]ent, string) {
	res := map[string]ent{}
	for _, w := range wants {
		for k, e := range w {
			r, ok := fold(res[k], e)
			if !ok {
				return nil, fmt.Sprintf("harness bug: invalid pair for key %q: %s then %s", k, res[k], e)
			}
			res[k] = r // keep kNone markers: a later add is fine
		}
	}
	for k, e := range res {
		if e.kind == kNone {
			delete(res, k)
		}
	}
	return res, ""
}

var sizeClasses = [][2]int{{0, 0}, {1, 1}, {2, 10}, {11, 19}, {20, 30}, {45, 50}, {70, 75}, {95, 100}, {140, 150}, {190, 200}, {250, 400}, {1000, 1000}, {5000, 5000}}

func (t *tester) pickSize() int {
	r := t.r
	var c [2]int
	switch x := r.IntN(100); {
	case x < 1 && r.IntN(2) == 0:
		c = sizeClasses[12]
	case x < 4:
		c = sizeClasses[11]
	default:
		c = sizeClasses[r.IntN(11)]
	}
	return c[0] + r.IntN(c[1]-c[0]+1)
}

// disjointRuns counts maximal runs (longer than n) of consecutive keys of the union that come from a single input:
// these are what the chunk pass-through optimisation can take
func disjointRuns(bufs []map[string]ent, n int) int {
	type ko struct {
		key string
		src int
	}
	var all []ko
	for i, b := range bufs {
		for k := range b {
			all = append(all, ko{k, i})
		}
	}
	sort.Slice(all, func(i, j int) bool { return all[i].key < all[j].key })
	runs, cur := 0, 0
	for i := range all {
		if i > 0 && all[i].src == all[i-1].src && all[i].key != all[i-1].key {
			cur++
		} else {
			cur = 1
		}
		if cur == n+1 {
			runs++
		}
	}
	return runs
}

func (t *tester) one(ci int) {
	r := t.r
	rep := t.rep
	ident := fmt.Sprintf("case %d shard %d seed %d", ci, vk.Shard(), vk.Seed())
	rep.Case("%s", ident)
	nb := 2 + r.IntN(5)
	sizes := make([]int, nb)
	total := 0
	for i := range sizes {
		sizes[i] = t.pickSize()
		total += sizes[i]
	}
	w := &world{r: r, live: map[string]uint64{}, known: map[string]bool{}, pLive: []float64{0, 0.3, 0.7, 1}[r.IntN(4)]}
	w.wide = ci%3 == 1
	if w.wide {
		rep.Count("cases_with_40_bit_offsets", 1)
	}
	switch r.IntN(4) {
	case 0:
		w.univ = max(4, total/2) // dense: many keys in several buffers
	case 1:
		w.univ = max(8, total*2)
	case 2:
		w.univ = max(16, total*20)
	default:
		w.univ = max(4, total)
	}
	switch r.IntN(3) {
	case 0:
		w.keyfn = func(i int) string { return fmt.Sprintf("%07d", i) }
	case 1: // variable length, shared prefixes, includes the empty key
		w.keyfn = func(i int) string {
			if i == 0 {
				return ""
			}
			return fmt.Sprintf("k%x", i)
		}
	default:
		w.keyfn = func(i int) string { return fmt.Sprintf("a\x00\x00%05d\x00\x00z", i) }
	}
	h := fnv.New64a()
	maxSoFar := 0
	var bufs []*buffer
	var wants []map[string]ent
	mk := func(size int) *buffer {
		b := t.genBuffer(w, size, &maxSoFar, ident)
		if b == nil {
			return nil
		}
		for _, o := range b.ops {
			fmt.Fprintf(h, "%s\x00%d\x00%d\x01", o.key, o.e.kind, o.e.off)
		}
		h.Write([]byte{2})
		if !t.verify("insert", fmt.Sprintf("%s buffer %d (%d ops)", ident, len(bufs), len(b.ops)), b.ib, b.want, w) {
			return nil
		}
		b.snap = contents(b.ib)
		return b
	}
	for _, s := range sizes {
		b := mk(s)
		if b == nil {
			return
		}
		bufs = append(bufs, b)
		wants = append(wants, b.want)
	}
	nonEmpty := 0
	for _, b := range bufs {
		if len(b.want) > 0 {
			nonEmpty++
		}
	}
	frozen := func(stage string) {
		for i, b := range bufs {
			if now := contents(b.ib); !sameOps(now, b.snap) {
				rep.Violate("C11/merge/input-modified", fmt.Sprintf("%s %s input %d", ident, stage, i), map[string]any{"len_before": len(b.snap), "len_after": len(now)})
			}
		}
	}
	ibs := func(bs []*buffer) []*ixbuf.T {
		out := make([]*ixbuf.T, len(bs))
		for i, b := range bs {
			out[i] = b.ib
		}
		return out
	}
	want, bug := foldAll(ident, wants)
	if bug != "" {
		panic(bug)
	}
	var res *ixbuf.T
	if p, _ := vk.Catch(func() { res = ixbuf.Merge(ibs(bufs)...) }); p != nil {
		rep.Violate("C11/panic/merge", ident, fmt.Sprint(p))
		rep.Eval(h.Sum64(), nonEmpty >= 2)
		return
	}
	rep.Count("merges", 1)
	rep.Count("merged_entries", len(want))
	rep.Count("passthru_candidate_runs", disjointRuns(wants, 100))
	shared := 0
	seen := map[string]int{}
	for _, wm := range wants {
		for k := range wm {
			seen[k]++
			if seen[k] == 2 {
				shared++
			}
		}
	}
	rep.Count("keys_in_several_inputs", shared)
	okAll := t.verify("merge", fmt.Sprintf("%s merge of %d inputs sizes %v", ident, len(bufs), sizes), res, want, w)
	frozen("after merge")
	// two steps, grouped to the left as Overlay.Merge does (base + next layers, then the rest): same content.
	// (Grouping to the right is NOT demanded: delete.(add.delete) keeps the first delete's offset.)
	if okAll && len(bufs) >= 3 {
		cut := 2 + r.IntN(len(bufs)-2)
		var res2 *ixbuf.T
		if p, _ := vk.Catch(func() {
			left := ixbuf.Merge(ibs(bufs[:cut])...)
			res2 = ixbuf.Merge(append([]*ixbuf.T{left}, ibs(bufs[cut:])...)...)
		}); p != nil {
			rep.Violate("C11/panic/merge", ident+" two-step", fmt.Sprint(p))
		} else {
			rep.Count("merges", 2)
			t.verify("merge-two-step", fmt.Sprintf("%s cut %d sizes %v", ident, cut, sizes), res2, want, w)
			frozen("after two-step merge")
		}
	}
	// chains: the result (which shares chunks with its inputs) is merged with further buffers
	rounds := r.IntN(4)
	for round := 0; okAll && round < rounds; round++ {
		resSnap := contents(res)
		nn := 1 + r.IntN(3)
		var more []*buffer
		for i := 0; i < nn; i++ {
			b := mk(t.pickSize())
			if b == nil {
				return
			}
			more = append(more, b)
			bufs = append(bufs, b)
			wants = append(wants, b.want)
		}
		want, bug = foldAll(ident, wants)
		if bug != "" {
			panic(bug)
		}
		prev := res
		if p, _ := vk.Catch(func() { res = ixbuf.Merge(append([]*ixbuf.T{prev}, ibs(more)...)...) }); p != nil {
			rep.Violate("C11/panic/merge", fmt.Sprintf("%s chain round %d", ident, round), fmt.Sprint(p))
			break
		}
		rep.Count("merges", 1)
		rep.Count("chained_merges", 1)
		okAll = t.verify("merge", fmt.Sprintf("%s chain round %d (+%d buffers)", ident, round, nn), res, want, w)
		frozen(fmt.Sprintf("after chain round %d", round))
		if now := contents(prev); !sameOps(now, resSnap) {
			rep.Violate("C11/merge/input-modified", fmt.Sprintf("%s chain round %d previous result", ident, round), map[string]any{"len_before": len(resSnap), "len_after": len(now)})
		}
	}
	rep.Eval(h.Sum64(), nonEmpty >= 2)
	if rep.WantSample() && ci < 3 {
		var in []string
		for _, b := range bufs {
			s := sortedWant(b.want)
			if len(s) > 4 {
				s = s[:4]
			}
			in = append(in, fmt.Sprintf("%d entries %v", len(b.want), s))
		}
		rep.Sample(map[string]any{"case": ident, "inputs": in, "merged_entries": len(want)})
	}
}

func TestVerifC11(t *testing.T) {
	rep := vk.NewReport("C11",
		"a case = 2-6 (plus up to 9 chained) buffers built with Insert/Update/Delete from PRNG op sequences that are valid w.r.t. a base liveness map and all earlier buffers "+
			"(sizes 0,1,2-10,...,around the chunk goals 24/48/96/192, 1000, 5000; key patterns uniform / blocks / ascending / above-all so that inputs interleave or form disjoint runs; "+
			"dense to sparse key universes; fixed-width, variable-width incl. the empty key, and composite-looking keys), merged in one step, in two steps and in chains; "+
			"non-trivial = at least two non-empty inputs; distinct by the full op stream",
		"the combine table documented in ixbuf.go (add.update=>add, add.delete=>nothing, update.update=>update, update.delete=>delete, delete.add=>update) is the specification",
		"ixbuf.Check() is not called for buffers holding the empty key (it reports a duplicate for a leading \"\" key)")
	defer rep.Finish()
	tt := &tester{rep: rep, r: vk.Rand(11)}
	n := vk.N(3000, 300000)
	for i := 0; i < n; i++ {
		tt.r = vk.RandFor(11, i)
		tt.one(i)
	}
}
