// C04 Clean shutdown and reopen preserve the database exactly.
// Black-box monitor: generated histories of admin requests and transactions on a file
// database, with persists at arbitrary points, closed and reopened several times; the
// fingerprint before close must equal the fingerprint after reopen and the plain-Go model.
package c04

import (
	"encoding/json"
	"fmt"
	"os"
	"path/filepath"
	"strings"
	"testing"
	"time"

	"github.com/apmckinlay/gsuneido/db19"
	vk "github.com/apmckinlay/gsuneido/util/verifkit"
	"github.com/apmckinlay/gsuneido/zzverif/dbhist"
)

func diffKind(line string) string {
	switch {
	case strings.Contains(line, "missing") && strings.HasPrefix(line, "table"):
		return "table-missing"
	case strings.Contains(line, "appeared") || strings.Contains(line, "not in model"):
		return "appeared"
	case strings.HasPrefix(line, "view"):
		return "view"
	case strings.Contains(line, "row sequence") || strings.Contains(line, "seen") || strings.Contains(line, "rows, model"):
		return "rows"
	case strings.Contains(line, "nrows"):
		return "row-count"
	case strings.Contains(line, "FkToHere") || strings.Contains(line, "Fk.IIndex"):
		return "foreign-key"
	case strings.Contains(line, "schema") || strings.Contains(line, "columns") || strings.Contains(line, "index"):
		return "schema"
	}
	return "other"
}

func TestVerifC04(t *testing.T) {
	rep := vk.NewReport("C04",
		"a case is one generated history (PRNG admin requests create/ensure/alter/rename/view/drop, multi-operation transactions "+
			"with commits, aborts and failing operations, explicit and timer-driven persists) run in several sessions, each ended by Close "+
			"(sometimes with an uncommitted transaction left open) and OpenDatabase; non-trivial = at some close the database held >= 1 table "+
			"with rows and >= 2 persists had happened in that session; distinct by the text of the history",
		"the model follows the outcome (accepted/rejected) reported by the database for each request; value packing is trusted (C13)")
	defer rep.Finish()
	dbhist.Setup()
	dir := filepath.Join(vk.OutDir(), fmt.Sprintf("c04-%d", vk.Shard()))
	os.MkdirAll(dir, 0o755)
	defer os.RemoveAll(dir)

	n := vk.N(64, 1600)
	sessions := 3
	if vk.Thorough() {
		sessions = 6
	}
	only := -1
	if s := os.Getenv("VERIF_ONLY_CASE"); s != "" { // replay of one history: VERIF_SEED, VERIF_SHARD, VERIF_NSHARDS, VERIF_ONLY_CASE
		fmt.Sscan(s, &only)
	}
	for i := 0; i < n; i++ {
		if only >= 0 && i != only {
			continue
		}
		path := filepath.Join(dir, fmt.Sprintf("h%d.db", i))
		os.Remove(path)
		// every 8th history is a deep one: > 130 persists each with metadata changes
		deep := i%8 == 3
		rep.Case("history %d (seed %d shard %d) deep=%v", i, vk.Seed(), vk.Shard(), deep)
		runHistory(rep, i, path, sessions, deep)
		os.Remove(path)
	}
}

func interval(r interface{ IntN(int) int }) time.Duration {
	if r.IntN(4) == 0 {
		return time.Duration(1+r.IntN(4)) * time.Millisecond // timer-driven persists at arbitrary points
	}
	return time.Hour
}

func runHistory(rep *vk.Report, idx int, path string, sessions int, deep bool) {
	rr := vk.RandFor(4, idx)
	real, err := dbhist.CreateReal(path, interval(rr))
	if err != nil {
		rep.Violate("C04/harness/create-failed", path, err.Error())
		return
	}
	h := dbhist.NewHist(rr, real)
	h.G.BigRecs = idx%3 == 0
	h.G.AvoidKnownC21 = true // known findings of C21, see checks/C04.json level_note
	key := fmt.Sprintf("seed=%d shard=%d history=%d", vk.Seed(), vk.Shard(), idx)
	nontrivial := false
	dropped := map[string]bool{}
	builtOnData := map[string]bool{} // tables that got an index added while they had rows
	pat := &sameSessionDrop{created: map[string]bool{}}
	closed := false
	defer func() {
		if !closed {
			dbhist.Catch(func() { h.Real.DB.Close() })
		}
		rep.Eval(vk.Hash64(strings.Join(h.Log, "\n")), nontrivial)
		for k, v := range h.Counts {
			rep.Count(k, v)
		}
		for k, v := range h.Notes {
			rep.Seen("notes", k+" e.g. "+vk.Trunc(v, 3000))
		}
		rep.Max("max_persists_in_one_history", h.NPersist)
		if h.NPersist >= 128 {
			rep.Count("histories_with_128_persists", 1)
		}
		if rep.WantSample() {
			rep.Sample(map[string]any{"history": idx, "steps": len(h.Log), "tail": h.Tail(12)})
		}
	}()
	for s := 0; s < sessions; s++ {
		h.KeepTrailing = rr.IntN(3) == 0
		steps := 25 + rr.IntN(40)
		if deep {
			steps = 50
			if s == 0 {
				steps = 150
			}
		}
		sessPersists := 0
		for st := 0; st < steps; st++ {
			w := rr.IntN(100)
			switch {
			case deep:
				// a metadata or data change, then a persist
				if w < 50 || len(h.M.Tables) == 0 {
					doAdmin(rep, h, dropped, builtOnData, pat)
				} else {
					h.DoTxn(h.G.NextTxn(3), "commit")
				}
				h.Persist()
				sessPersists++
			case w < 33 || len(h.M.Tables) == 0:
				doAdmin(rep, h, dropped, builtOnData, pat)
			case w < 85:
				end := "commit"
				if rr.IntN(10) == 0 {
					end = "abort"
				}
				res := h.DoTxn(h.G.NextTxn(6), end)
				if res.Missing {
					rep.Violate("C04/committed-row-not-found", key, map[string]any{"error": res.Err, "history": h.Tail(600)})
					return
				}
			default:
				h.Persist()
				sessPersists++
			}
			if h.Abandoned != "" {
				rep.Count("histories_abandoned_model_divergence", 1)
				return
			}
		}
		// leave an uncommitted transaction open at close
		if rr.IntN(3) == 0 && len(h.M.Tables) > 0 {
			ops := h.G.NextTxn(4)
			res := h.DoTxn(ops, "leave")
			if res.Open != nil && res.FailedOp < 0 {
				rep.Count("uncommitted_transactions_open_at_close", 1)
				rep.Count("uncommitted_operations_open_at_close", len(ops))
			}
		}
		before := dbhist.TakeSnap(h.Real.DB)
		if d := before.DiffModel(h.M); len(d) > 0 {
			rep.Violate("C04/model-mismatch-before-close/"+diffKind(d[0]), key, map[string]any{"session": s, "diff": d, "history": h.Tail(600)})
			return
		}
		if h.M.NRows() > 0 && sessPersists >= 2 {
			nontrivial = true
		}
		rep.Count("rows_at_close", h.M.NRows())
		rep.Count("tables_at_close", len(h.M.Tables))
		rep.Count("views_at_close", len(h.M.Views))
		for _, tb := range h.M.Tables {
			for i := range tb.Idx {
				if tb.Idx[i].FkTable != "" {
					rep.Count("foreign_keys_at_close", 1)
				}
			}
			for _, c := range tb.Cols {
				if c == "-" {
					rep.Count("deleted_columns_at_close", 1)
				}
			}
		}
		var p any
		done := make(chan struct{})
		go func() {
			p, _ = dbhist.Catch(func() { h.Real.DB.Close() })
			close(done)
		}()
		select {
		case <-done:
		case <-time.After(60 * time.Second):
			rep.Violate("C04/close-hangs", key, map[string]any{"session": s, "history": h.Tail(600)})
			closed = true
			return
		}
		closed = true
		if p != nil {
			rep.Violate("C04/close-panics", key, map[string]any{"panic": fmt.Sprint(p), "history": h.Tail(600)})
			return
		}
		h.Log = append(h.Log, "close; open")
		h.Steps = append(h.Steps, dbhist.Step{Kind: "reopen"})
		if f := os.Getenv("VERIF_DUMP_STEPS"); f != "" { // debugging aid: structured history for replay / shrinking
			b, _ := json.Marshal(h.Steps)
			os.WriteFile(f, b, 0o644)
		}
		// full check of the closed file, on a copy (a failing check marks its file as corrupt)
		cp := path + ".check"
		if err := copyFile(path, cp); err != nil {
			rep.Violate("C04/harness/copy-failed", key, err.Error())
			return
		}
		real2, err := dbhist.OpenReal(path, interval(rr))
		if err != nil {
			os.Remove(cp)
			class := "C04/reopen-failed/" + vk.Trunc(strings.Map(keepAlpha, err.Error()), 60)
			if pat.hit && strings.Contains(err.Error(), "metadata checksum mismatch") {
				class += "/dropped-table-created-in-same-session"
			}
			rep.Violate(class, key,
				map[string]any{"session": s, "error": err.Error(), "history": h.Tail(600)})
			return
		}
		closed = false
		h.Real = real2
		rep.Count("reopens", 1)
		pat.created, pat.hit = map[string]bool{}, false
		after := dbhist.TakeSnap(h.Real.DB)
		if d := before.Diff(after); len(d) > 0 {
			class := "C04/differs-after-reopen/" + diffKind(d[0])
			if onlyAddedIndexRows(d, builtOnData) {
				class += "/index-added-to-populated-table"
				if onlyMoreRowsAfter(d) {
					class += "/deleted-rows-kept" // the signature of the known persist-skip finding
				}
			}
			rep.Violate(class, key, map[string]any{"session": s, "diff": d, "history": h.Tail(600)})
			return
		}
		if d := after.DiffModel(h.M); len(d) > 0 {
			rep.Violate("C04/differs-from-model-after-reopen/"+diffKind(d[0]), key, map[string]any{"session": s, "diff": d, "history": h.Tail(600)})
			return
		}
		if d := after.Invariants(); len(d) > 0 {
			rep.Violate("C04/metadata-inconsistent-after-reopen", key, map[string]any{"session": s, "diff": d, "history": h.Tail(600)})
			return
		}
		var cerr error
		p, _ = dbhist.Catch(func() { cerr = db19.CheckDatabase(cp, true) })
		os.Remove(cp)
		if p != nil || cerr != nil {
			class := "C04/full-check-fails-after-close"
			if strings.Contains(fmt.Sprint(p, cerr), "foreign key not found") {
				class += "/foreign-key-not-found"
				if compositeFkWithEmptyTrailingField(h.M) {
					class += "/composite-with-empty-trailing-field"
				}
			}
			rep.Violate(class, key, map[string]any{"session": s, "error": fmt.Sprint(p, cerr), "history": h.Tail(600)})
			if !strings.HasSuffix(class, "/composite-with-empty-trailing-field") {
				return
			}
		} else {
			rep.Count("full_checks_passed", 1)
		}
	}
}

func copyFile(from, to string) error {
	b, err := os.ReadFile(from)
	if err != nil {
		return err
	}
	return os.WriteFile(to, b, 0o644)
}

func keepAlpha(r rune) rune {
	if (r >= 'a' && r <= 'z') || (r >= 'A' && r <= 'Z') {
		return r
	}
	if r == ' ' {
		return '-'
	}
	return -1
}

// onlyAddedIndexRows: every difference is the row sequence of a secondary index of a table
// that got an index added (alter create / ensure) while it had rows.
func onlyAddedIndexRows(d []string, builtOnData map[string]bool) bool {
	for _, line := range d {
		f := strings.Fields(line)
		if len(f) < 4 || f[0] != "table" || f[2] != "index" || f[3] == "0" || !strings.Contains(line, "row sequence differs") || !builtOnData[f[1]] {
			return false
		}
	}
	return len(d) > 0
}

// onlyMoreRowsAfter: every "row sequence differs: N rows vs M rows" line has M > N
// (rows that were deleted before the close are back).
func onlyMoreRowsAfter(d []string) bool {
	for _, line := range d {
		i := strings.Index(line, "row sequence differs: ")
		if i < 0 {
			return false
		}
		var n, m int
		if c, _ := fmt.Sscanf(line[i:], "row sequence differs: %d rows vs %d rows", &n, &m); c != 2 || m <= n {
			return false
		}
	}
	return true
}

// compositeFkWithEmptyTrailingField: the model holds a row whose multi-column foreign key
// value ends with an empty field (legal: such a value is either no reference at all or
// matches a key with an empty last column).
func compositeFkWithEmptyTrailingField(m *dbhist.Model) bool {
	for _, t := range m.Tables {
		for i := range t.Idx {
			ix := &t.Idx[i]
			if ix.FkTable == "" || len(ix.FkCols) < 2 {
				continue
			}
			for _, r := range t.Rows {
				tu := t.Tuple(r, ix.Cols[:len(ix.FkCols)])
				if tu[len(tu)-1].Empty() {
					return true
				}
			}
		}
	}
	return false
}

// sameSessionDrop tracks the trigger of two known findings (the "no tombstone needed"
// shortcut of Meta.Drop): a table created in the current session is dropped in the same
// session (possibly after being renamed).
type sameSessionDrop struct {
	created map[string]bool
	hit     bool
}

func doAdmin(rep *vk.Report, h *dbhist.Hist, dropped map[string]bool, builtOnData map[string]bool, pat *sameSessionDrop) {
	q := h.G.NextAdmin()
	hadFk := false
	hadRows := false
	nidx := 0
	if t := h.M.Tables[q.Table]; t != nil {
		hadRows = len(t.Rows) > 0
		nidx = len(t.Idx)
	}
	if q.Kind == "rename" {
		if t := h.M.Tables[q.Table]; t != nil {
			for i := range t.Idx {
				hadFk = hadFk || t.Idx[i].FkTable != ""
			}
		}
	}
	ok, merr, _ := h.DoAdmin(q)
	if !ok || merr != nil {
		return
	}
	if t := h.M.Tables[q.Table]; t != nil && hadRows && len(t.Idx) > nidx && (q.Kind == "altercreate" || q.Kind == "ensure") {
		builtOnData[q.Table] = true
		rep.Count("indexes_added_to_populated_tables", len(t.Idx)-nidx)
	}
	switch q.Kind {
	case "drop":
		dropped[q.Table] = true
		delete(builtOnData, q.Table)
		if pat.created[q.Table] {
			pat.hit = true
			rep.Count("tables_created_and_dropped_in_one_session", 1)
			delete(pat.created, q.Table)
		}
	case "create", "ensure":
		if nidx == 0 {
			pat.created[q.Table] = true
		}
		if dropped[q.Table] {
			rep.Count("tables_dropped_and_recreated", 1)
			delete(dropped, q.Table)
		}
	case "rename":
		if hadFk {
			rep.Count("renamed_tables_with_foreign_keys", 1)
		}
		if builtOnData[q.Table] {
			delete(builtOnData, q.Table)
			builtOnData[q.NewName] = true
		}
		if pat.created[q.Table] {
			delete(pat.created, q.Table)
			pat.created[q.NewName] = true
		}
	}
}
