// C32 The lexer and parser are total and faithful to the source.
//
// The test function is a supervisor. It generates the inputs of its shard,
// writes them to disk in batches and runs every batch in a WORKER process (the
// same test binary re-executed with C32_WORKER_BATCH set), because a stack
// exhaustion or a runtime throw cannot be recovered inside the process. The
// worker appends "B <i>" to a progress file before it touches input i and
// "E <i>" after it; when a worker dies or its watchdog fires the supervisor
// knows the culprit, re-runs it alone to see whether the death is reproducible,
// records the violation and restarts the worker behind it.
//
// Oracle per input:
//   - lexer (code and query flavour): bounded progress (at most len+1 tokens),
//     first token at 0, positions strictly increasing, Eof at len(input), and the
//     text of verbatim tokens (white space, comments, punctuation, identifiers,
//     numbers modulo '_') equals the source span up to the next token;
//   - every parser entry point (constant, checked constant, AST constant,
//     function body, query, action, admin) either returns or panics with a
//     Suneido error; a Go runtime.Error, an internal assertion, a process death
//     or no termination within the watchdog is a violation.
package c32

import (
	"bufio"
	"encoding/binary"
	"encoding/json"
	"fmt"
	"math/rand/v2"
	"os"
	"os/exec"
	"path/filepath"
	"regexp"
	"runtime"
	"sort"
	"strconv"
	"strings"
	"syscall"
	"testing"
	"time"

	"github.com/apmckinlay/gsuneido/compile"
	"github.com/apmckinlay/gsuneido/compile/lexer"
	tok "github.com/apmckinlay/gsuneido/compile/tokens"
	. "github.com/apmckinlay/gsuneido/core"
	"github.com/apmckinlay/gsuneido/db19"
	"github.com/apmckinlay/gsuneido/db19/stor"
	qry "github.com/apmckinlay/gsuneido/dbms/query"
	vk "github.com/apmckinlay/gsuneido/util/verifkit"
)

// ---------------------------------------------------------------- inputs

type input struct {
	kind string // generator family
	src  string
}

var pieces = []string{"function", "class", "if", "else", "while", "for", "in", "do", "forever", "switch", "case", "default", "return", "break", "continue", "throw", "try", "catch",
	"new", "super", "this", "true", "false", "is", "isnt", "not", "and", "or", "it", "_", "x", "y", "Foo", "_Foo", "foo?", "bar!", "dll", "struct", "callback",
	"(", ")", "{", "}", "[", "]", ",", ";", ":", "::", "..", ".", "?", "@", "#", "#(", "#{", "#[", "#20200101", "#abc", "=", "==", "=~", "!~", "!=", "!", "<", "<=", "<>", ">", ">=", "<<", ">>", "<<=", ">>=",
	"+", "-", "*", "/", "%", "$", "&", "|", "^", "~", "+=", "-=", "*=", "/=", "%=", "$=", "&=", "|=", "^=", "++", "--", "|>", "=>",
	"0", "1", "12.5", ".5", "1.", "1e5", "1e", "1e+", "0x", "0xff", "0x_1", "1_000", "1__0", "_1", "1_", "99999999999999999999", "1e999", "0377",
	`"`, `'`, "`", `""`, `"":`, `'': 1`, `"abc"`, `'a'`, "`r`", `"a\"b"`, `"\x41"`, `"\x4`, `"\`, "//", "/*", "*/", "/* c */", "// c\n", "\n", "\r\n", " ", "\t", "\x00", "\xff", "\x80", "\\",
	"{|", "|", "{|x|", "{|@a|", "@+1", "function(", "function(){", "class{", "Base{", "a:", "b: 1", "New(", "CallClass(", "getter_x", "Getter_", "getter_", ".getter_", ".getter_x", ".Getter_", "getter_()", "Getter_X", "_x", "x_", ".x", ".X", "a.b", "a[", "a[1..", "a[::2]",
	"where", "join", "by", "union", "sort", "project", "extend", "rename", "to", "summarize", "count", "total", "into", "insert", "update", "set", "delete", "create", "key", "index", "tbl", "tbl2", "view", "drop", "ensure", "alter"}

func genSoup(r *rand.Rand) string {
	var sb strings.Builder
	n := 1 + r.IntN(25)
	if r.IntN(10) == 0 {
		n = r.IntN(200)
	}
	sep := []string{"", " ", " ", "\n"}[r.IntN(4)]
	for i := 0; i < n; i++ {
		sb.WriteString(pieces[r.IntN(len(pieces))])
		if r.IntN(3) != 0 {
			sb.WriteString(sep)
		}
	}
	return sb.String()
}

func genBytes(r *rand.Rand) string {
	n := r.IntN(64)
	if r.IntN(10) == 0 {
		n = r.IntN(2000)
	}
	b := make([]byte, n)
	switch r.IntN(3) {
	case 0:
		for i := range b {
			b[i] = byte(r.IntN(256))
		}
	case 1: // printable ascii
		for i := range b {
			b[i] = byte(' ' + r.IntN(95))
		}
	default: // punctuation heavy
		const p = "(){}[]#\"'`\\/*.:;,?@|&^~!<>=+-%$_ \n\r\t\x00\xff019aexX"
		for i := range b {
			b[i] = p[r.IntN(len(p))]
		}
	}
	return string(b)
}

var queries = []string{
	"tbl", "tbl where a is 1", "tbl where a > 1 and b in (1, 2, 3) sort reverse a, b", "tbl extend x = a + b * 2, y = x $ 'z'", "tbl project a, b", "tbl remove c",
	"tbl rename a to aa, b to bb", "tbl join tbl2", "tbl leftjoin by(a) tbl2", "(tbl union tbl2) where a =~ 'x'", "tbl minus tbl2", "tbl intersect tbl2", "tbl times (tbl2 rename a to a2, d to d2)",
	"tbl summarize b, total c, max a", "tbl summarize count", "tbl where a is #20200101 or b is #(1, 2)", "tbl where a[1 .. 3] is 'bc'", "tbl where (a ? b : c) isnt false",
	"tbl where a[::2] is 'ab' or b[1::] is c", "tbl where a[.. 2] is 'ab' and b[1 ..] > c extend x = a[:: 1]",
	"insert { a: 1, b: 'x' } into tbl", "insert tbl2 into tbl", "update tbl where a is 1 set b = b + 1, c = 'x'", "delete tbl where a < 5",
	"create t3 (a, b, c) key(a) index(b, c)", "ensure t3 (a, b, C, d_lower!) key(a) index unique(b)", "alter tbl create (d) index(d)", "alter tbl rename b to bb", "alter tbl drop (c)",
	"drop t3", "view v1 = tbl where a is 1", "sview v2 = tbl join tbl2", "rename tbl to t9", "create t4 (a, b) key(a) index(b) in tbl(a) cascade update",
}

func mutate(r *rand.Rand, s string) string {
	b := []byte(s)
	for k := 1 + r.IntN(3); k > 0 && len(b) > 0; k-- {
		switch r.IntN(9) {
		case 0: // truncate
			b = b[:r.IntN(len(b)+1)]
		case 1: // drop a bracket or quote
			var idx []int
			for i, c := range b {
				if strings.IndexByte("(){}[]\"'`", c) >= 0 {
					idx = append(idx, i)
				}
			}
			if len(idx) > 0 {
				i := idx[r.IntN(len(idx))]
				b = append(b[:i:i], b[i+1:]...)
			}
		case 2: // stray byte
			i := r.IntN(len(b) + 1)
			c := []byte{0, 0xff, '"', '\'', '`', '\\', '#', '{', '}', '(', ')', '[', ']', '@', '?', ':', '$', '~', 0x80, '\r'}[r.IntN(20)]
			b = append(b[:i:i], append([]byte{c}, b[i:]...)...)
		case 3: // duplicate a chunk
			i := r.IntN(len(b))
			j := i + r.IntN(min(len(b)-i, 200)+1)
			b = append(b[:j:j], append(append([]byte{}, b[i:j]...), b[j:]...)...)
		case 4: // delete a chunk
			i := r.IntN(len(b))
			j := i + r.IntN(min(len(b)-i, 100)+1)
			b = append(b[:i:i], b[j:]...)
		case 5: // replace a digit run by a huge / odd number
			if loc := regexp.MustCompile(`[0-9]+`).FindIndex(b); loc != nil {
				num := []string{"99999999999999999999999999", "1e999999", "0x", "0xfffffffffffffffffffff", "1_", "1__2", "1e", ".", "00000000000000000001", "1.2.3", "9223372036854775808"}[r.IntN(11)]
				b = append(b[:loc[0]:loc[0]], append([]byte(num), b[loc[1]:]...)...)
			}
		case 6: // swap two bytes
			i, j := r.IntN(len(b)), r.IntN(len(b))
			b[i], b[j] = b[j], b[i]
		case 7: // insert a token piece
			i := r.IntN(len(b) + 1)
			b = append(b[:i:i], append([]byte(pieces[r.IntN(len(pieces))]), b[i:]...)...)
		default: // flip a bracket kind
			for try := 0; try < 20; try++ {
				i := r.IntN(len(b))
				if k := strings.IndexByte("(){}[]", b[i]); k >= 0 {
					b[i] = "(){}[]"[r.IntN(6)]
					break
				}
			}
		}
	}
	return string(b)
}

type nestTemplate struct {
	name              string
	open, mid, close_ string
	query             bool
}

var nests = []nestTemplate{
	{"paren", "(", "1", ")", false}, {"paren-open-only", "(", "", "", false}, {"bracket", "[", "1", "]", false}, {"bracket-open-only", "[", "", "", false},
	{"curly-open-only", "{", "", "", false}, {"object", "#(", "1", ")", false}, {"object-open-only", "#(", "", "", false}, {"record", "#{a: ", "1", "}", false},
	{"function", "function(){", "", "}", false}, {"function-open-only", "function(){ x = ", "", "", false}, {"block", "function(){ b = {", "", "} }", false}, {"class", "class{ A: ", "1", "}", false},
	{"unary-minus", "- ", "1", "", false}, {"not", "not ", "x", "", false}, {"bitnot", "~", "1", "", false}, {"member", "a.", "b", "", false}, {"plus", "1+", "1", "", false},
	{"trinary", "x ? ", "1", " : 2", false}, {"trinary-right", "x ? 1 : ", "2", "", false}, {"if", "if (x) ", "y", "", false}, {"if-else", "if (x) y else ", "z", "", false}, {"call", "f(", "1", ")", false}, {"subscript", "a[", "1", "]", false},
	{"assign", "a = ", "1", "", false}, {"cat-paren", "(1 $ ", "2", ")", false}, {"and-paren", "(x and ", "y", ")", false}, {"while", "while (x) ", "y", "", false}, {"new", "new ", "X", "", false}, {"hash", "#", "a", "", false},
	{"query-paren", "(", "tbl", ")", true}, {"query-where-paren", "tbl where (", "a", ")", true}, {"query-union", "tbl union (", "tbl", ")", true}, {"query-where-and", "tbl where a and ", "b", "", true},
	{"query-where-not", "tbl where not ", "a", "", true}, {"query-extend-paren", "tbl extend x = (", "1", ")", true}, {"query-join", "tbl join ", "tbl2", "", true},
	{"comment-nest", "/* ", "", "", false}, {"string-cat", `"a" $ `, `"b"`, "", false},
}

func nestInput(t nestTemplate, n int) input {
	src := strings.Repeat(t.open, n) + t.mid + strings.Repeat(t.close_, n)
	wrap := strings.HasPrefix(t.name, "if") || t.name == "while" || t.name == "assign"
	if wrap {
		src = "function(){ " + src + " }"
	}
	k := "nest-code"
	if t.query {
		k = "nest-query"
	}
	return input{kind: k + ":" + t.name + ":" + strconv.Itoa(n), src: src}
}

var stdlibFiles []string

func loadStdlib() {
	root := filepath.Join(os.Getenv("VERIF_REPO"), "stdlib")
	filepath.Walk(root, func(path string, info os.FileInfo, err error) error {
		if err == nil && !info.IsDir() && strings.HasSuffix(path, ".ss") && info.Size() < 16000 {
			stdlibFiles = append(stdlibFiles, path)
		}
		return nil
	})
	sort.Strings(stdlibFiles)
}

func genInput(r *rand.Rand) input {
	switch x := r.IntN(20); {
	case x < 3:
		return input{"bytes", genBytes(r)}
	case x < 7:
		return input{"token-soup", genSoup(r)}
	case x < 9:
		q := queries[r.IntN(len(queries))]
		if r.IntN(4) == 0 {
			return input{"query-original", q}
		}
		return input{"query-mutated", mutate(r, q)}
	case x < 10:
		switch r.IntN(3) {
		case 0: // members and method bodies of a class: names are privatised, getters and New are special there
			return input{"soup-in-class", "class\n{\n" + genSoup(r) + "\nF(a)\n{\n" + genSoup(r) + "\n}\n}"}
		case 1:
			return input{"soup-in-class", "Base\n{\nF()\n{\n" + genSoup(r) + "\n}\n" + genSoup(r) + "\n}"}
		}
		return input{"soup-in-function", "function (a, b) {\n" + genSoup(r) + "\n}"}
	case x < 11:
		s := []string{"1" + strings.Repeat("0", r.IntN(400)), "1e" + strings.Repeat("9", 1+r.IntN(30)), "0x" + strings.Repeat("f", r.IntN(40)), "." + strings.Repeat("0", r.IntN(400)) + "1",
			strings.Repeat("1_", r.IntN(50)) + "1", "1e-" + strings.Repeat("9", 1+r.IntN(30)), "#" + strings.Repeat("9", r.IntN(30)), "#20200101." + strings.Repeat("1", r.IntN(20)),
			"-" + strings.Repeat("9", r.IntN(40)), strings.Repeat("9", r.IntN(40)) + "." + strings.Repeat("9", r.IntN(40)) + "e" + strings.Repeat("9", r.IntN(5))}[r.IntN(10)]
		if r.IntN(3) == 0 {
			s = "#(" + s + ", a: " + s + ")"
		}
		return input{"number", s}
	default:
		if len(stdlibFiles) == 0 {
			return input{"token-soup", genSoup(r)}
		}
		b, err := os.ReadFile(stdlibFiles[r.IntN(len(stdlibFiles))])
		if err != nil {
			return input{"token-soup", genSoup(r)}
		}
		if r.IntN(6) == 0 {
			return input{"stdlib-original", string(b)}
		}
		return input{"stdlib-mutated", mutate(r, string(b))}
	}
}

// ---------------------------------------------------------------- batch files

func writeBatch(path string, ins []input) error {
	f, err := os.Create(path)
	if err != nil {
		return err
	}
	w := bufio.NewWriter(f)
	var hdr [8]byte
	binary.LittleEndian.PutUint32(hdr[:4], uint32(len(ins)))
	w.Write(hdr[:4])
	for _, in := range ins {
		binary.LittleEndian.PutUint32(hdr[:4], uint32(len(in.kind)))
		binary.LittleEndian.PutUint32(hdr[4:], uint32(len(in.src)))
		w.Write(hdr[:])
		w.WriteString(in.kind)
		w.WriteString(in.src)
	}
	if err := w.Flush(); err != nil {
		return err
	}
	return f.Close()
}

func readBatch(path string) ([]input, error) {
	b, err := os.ReadFile(path)
	if err != nil {
		return nil, err
	}
	n := int(binary.LittleEndian.Uint32(b[:4]))
	b = b[4:]
	ins := make([]input, 0, n)
	for i := 0; i < n; i++ {
		lk, ls := int(binary.LittleEndian.Uint32(b[:4])), int(binary.LittleEndian.Uint32(b[4:8]))
		ins = append(ins, input{kind: string(b[8 : 8+lk]), src: string(b[8+lk : 8+lk+ls])})
		b = b[8+lk+ls:]
	}
	return ins, nil
}

// ---------------------------------------------------------------- the oracle (runs in the worker)

type finding struct {
	Class  string `json:"class"`
	Detail string `json:"detail"`
}

type result struct {
	I        int            `json:"i"`
	Findings []finding      `json:"findings,omitempty"`
	Counts   map[string]int `json:"counts"`
}

var verbatim = map[tok.Token]bool{}

func init() {
	for _, t := range []tok.Token{tok.Whitespace, tok.Comment, tok.Newline, tok.Hash, tok.Comma, tok.Semicolon, tok.At, tok.LParen, tok.RParen, tok.LBracket, tok.RBracket,
		tok.LCurly, tok.RCurly, tok.RangeTo, tok.RangeLen, tok.Dot, tok.Colon, tok.QMark} {
		verbatim[t] = true
	}
}

var identPat = regexp.MustCompile(`^[A-Za-z_][A-Za-z0-9_]*[?!]?$`)

// checkLexer is the tiling oracle.
func checkLexer(name string, lxr *lexer.Lexer, src string, res *result) {
	add := func(class, detail string) {
		res.Findings = append(res.Findings, finding{"C32/lexer-" + class + "/" + name, detail})
	}
	var items []lexer.Item
	limit := len(src) + 2
	for {
		var it lexer.Item
		p, stack := vk.Catch(func() { it = lxr.Next() })
		if p != nil {
			if _, ok := p.(runtime.Error); ok {
				add("go-runtime-error", fmt.Sprintf("after %d tokens: %v\n%s", len(items), p, vk.Trunc(stack, 1500)))
			} else {
				add("panic", fmt.Sprintf("after %d tokens: %v", len(items), p))
			}
			return
		}
		items = append(items, it)
		if it.Token == tok.Eof {
			break
		}
		if len(items) > limit {
			add("no-progress", fmt.Sprintf("more than len(input)+2 = %d tokens without reaching Eof; last token %v at %d", limit, it.Token, it.Pos))
			return
		}
	}
	res.Counts["tokens"] += len(items)
	if int(items[0].Pos) != 0 {
		add("first-token-not-at-0", fmt.Sprintf("first token %v at %d", items[0].Token, items[0].Pos))
	}
	last := items[len(items)-1]
	if int(last.Pos) != len(src) {
		add("eof-not-at-end", fmt.Sprintf("Eof at %d, input length %d", last.Pos, len(src)))
	}
	for i := 0; i+1 < len(items); i++ {
		a, b := items[i], items[i+1]
		if !(b.Pos > a.Pos) {
			add("position-not-increasing", fmt.Sprintf("token %d (%v) at %d is followed by token %v at %d", i, a.Token, a.Pos, b.Token, b.Pos))
			return
		}
		if int(b.Pos) > len(src) {
			add("position-beyond-input", fmt.Sprintf("token %d (%v) at %d, input length %d", i+1, b.Token, b.Pos, len(src)))
			return
		}
		span := src[a.Pos:b.Pos]
		switch {
		case verbatim[a.Token] || (a.Token > tok.OpsStart && a.Text != "" && !a.Token.IsIdent() && !identPat.MatchString(a.Text)):
			if a.Text != span {
				add("text-differs-from-span", fmt.Sprintf("token %d (%v) at %d has text %q, its span is %q", i, a.Token, a.Pos, a.Text, vk.Trunc(span, 100)))
				return
			}
		case a.Token == tok.Number:
			if a.Text != strings.ReplaceAll(span, "_", "") {
				add("text-differs-from-span", fmt.Sprintf("number token at %d has text %q, its span is %q", a.Pos, a.Text, vk.Trunc(span, 100)))
				return
			}
		case a.Token == tok.Identifier:
			if a.Text != span && !(span == "_" && a.Text == "unused") {
				add("text-differs-from-span", fmt.Sprintf("identifier token at %d has text %q, its span is %q", a.Pos, a.Text, vk.Trunc(span, 100)))
				return
			}
		}
	}
}

type parserEntry struct {
	name string
	code bool // applies to code inputs
	qry  bool // applies to query inputs
	run  func(src string)
}

var parsers []parserEntry

func setupParsers() {
	qry.MakeSuTran = func(qt qry.QueryTran) *SuTran { return nil }
	db19.MakeSuTran = func(ut *db19.UpdateTran) *SuTran { return nil }
	db := db19.CreateDb(stor.HeapStor(8192))
	qry.DoAdmin(db, "create tbl (a, b, c) key(a) index(b)", nil)
	qry.DoAdmin(db, "create tbl2 (a, d, e) key(d)", nil)
	rt := db.NewReadTran()
	th := &Thread{}
	parsers = []parserEntry{
		{"constant", true, false, func(src string) { compile.Constant(src) }},
		{"named-constant", true, false, func(src string) { compile.NamedConstant("stdlib", "Name", src, nil) }},
		{"checked", true, false, func(src string) { compile.Checked(th, src) }},
		{"ast-constant", true, false, func(src string) { compile.AstParser(src).Const() }},
		{"function-body", true, false, func(src string) { compile.Constant("function () {\n" + src + "\n}") }},
		{"ast-function", true, false, func(src string) { compile.AstParser("function () {\n" + src + "\n}").Const() }},
		{"query", false, true, func(src string) { qry.ParseQuery(src, rt, nil) }},
		{"query-just-parse", false, true, func(src string) { qry.JustParse(rt, src) }},
		{"action", false, true, func(src string) { qry.ParseAction(src, rt, nil) }},
		{"admin", false, true, func(src string) { qry.ParseAdmin(src) }},
	}
}

var digits = regexp.MustCompile(`[0-9]+`)

var frameLine = regexp.MustCompile(`(?m)^(\S*gsuneido/\S+)\(`)

// assertSite is the repository function that called the failing assertion.
func assertSite(stack string) string {
	for _, m := range frameLine.FindAllStringSubmatch(stack, -1) {
		f := m[1]
		if strings.Contains(f, "/util/assert.") || strings.Contains(f, "/util/verifkit.") || strings.Contains(f, "/util/dbg.") {
			continue
		}
		if i := strings.LastIndex(f, "/"); i >= 0 {
			f = f[i+1:]
		}
		return f
	}
	return "unknown"
}

func isQueryKind(kind string) bool {
	return strings.HasPrefix(kind, "query") || strings.HasPrefix(kind, "nest-query")
}

// checkInput runs the whole oracle on one input.
func checkInput(i int, in input) result {
	res := result{I: i, Counts: map[string]int{}}
	checkLexer("code", lexer.NewLexer(in.src), in.src, &res)
	checkLexer("query", lexer.NewQueryLexer(in.src), in.src, &res)
	for _, f := range res.Findings {
		if strings.Contains(f.Class, "no-progress") || strings.Contains(f.Class, "position-not-increasing") {
			return res // a parser on top of a lexer that does not advance would only hang
		}
	}
	isQ := isQueryKind(in.kind)
	both := in.kind == "bytes" || in.kind == "token-soup" || in.kind == "number"
	for _, ps := range parsers {
		if !(both || (isQ && ps.qry) || (!isQ && ps.code)) {
			continue
		}
		p, stack := vk.Catch(func() { ps.run(in.src) })
		res.Counts["parses"]++
		switch e := p.(type) {
		case nil:
			res.Counts["accepted"]++
			res.Counts["accepted:"+ps.name]++
		case runtime.Error:
			if m := e.Error(); (strings.Contains(m, "negative shift amount") || strings.Contains(m, "integer divide by zero")) &&
				(strings.Contains(stack, "compile/ast.Folder") || strings.Contains(stack, "compile/ast.(*Binary).eval") || strings.Contains(stack, "compile/ast.(*fold)")) {
				// a constant expression such as 1 << -1 or 1 % 0 is evaluated by the folder and throws what it throws at run time (C30's subject)
				res.Counts["rejected"]++
				res.Counts["rejected_constant_expression_error"]++
				continue
			}
			res.Findings = append(res.Findings, finding{"C32/go-runtime-error/" + ps.name + "/" + vk.Trunc(digits.ReplaceAllString(e.Error(), "N"), 70),
				fmt.Sprintf("%v\n%s", e, vk.Trunc(stack, 2500))})
		default:
			msg := fmt.Sprint(p)
			if se, ok := p.(*SuExcept); ok {
				msg = string(se.SuStr)
			}
			if strings.Contains(msg, "ASSERT FAILED") || strings.Contains(msg, "should not reach here") || strings.Contains(msg, "ShouldNotReachHere") {
				if fn := assertSite(stack); strings.HasPrefix(msg, "compile error @") || strings.Contains(fn, "cgen).placeLabel") || strings.Contains(fn, "cgen).emitJump") || strings.Contains(fn, "cgen).emitUint16") || strings.Contains(fn, "cgen).emitBwdJump") {
					// the code generator's size limits (jump offsets, constant indexes) are checked by assertions and
					// reported as "compile error @pos ...": a rejection with a source position, not a crash
					res.Counts["rejected"]++
					res.Counts["rejected_code_size_limit"]++
				} else {
					res.Findings = append(res.Findings, finding{"C32/internal-assertion/" + ps.name + "/" + fn, fmt.Sprintf("%v\n%s", msg, vk.Trunc(stack, 2500))})
				}
			} else {
				res.Counts["rejected"]++
				if strings.Contains(msg, "syntax error") {
					res.Counts["rejected_syntax_error"]++
				}
			}
		}
	}
	return res
}

// cpuSeconds is the user+system CPU time consumed by this process.
func cpuSeconds() float64 {
	var ru syscall.Rusage
	if syscall.Getrusage(syscall.RUSAGE_SELF, &ru) != nil {
		return 0
	}
	return float64(ru.Utime.Sec+ru.Stime.Sec) + float64(ru.Utime.Usec+ru.Stime.Usec)/1e6
}

// TestVerifC32Worker processes one batch file; it only runs when the supervisor asks for it.
func TestVerifC32Worker(t *testing.T) {
	batch := os.Getenv("C32_WORKER_BATCH")
	if batch == "" {
		t.Skip("worker of TestVerifC32")
	}
	start, _ := strconv.Atoi(os.Getenv("C32_WORKER_START"))
	only := os.Getenv("C32_WORKER_ONLY") != ""
	watchdog, _ := strconv.Atoi(os.Getenv("C32_WORKER_WATCHDOG"))
	if watchdog == 0 {
		watchdog = 150
	}
	ins, err := readBatch(batch)
	if err != nil {
		fmt.Println("cannot read batch:", err)
		os.Exit(9)
	}
	setupParsers()
	prog, _ := os.OpenFile(batch+".progress", os.O_CREATE|os.O_WRONLY|os.O_APPEND, 0o644)
	out, _ := os.OpenFile(batch+".results", os.O_CREATE|os.O_WRONLY|os.O_APPEND, 0o644)
	tick := make(chan int, 1024)
	go func() { // watchdog on the CPU time this process has consumed since the input began (independent of machine load)
		cur, since := -1, cpuSeconds()
		for {
			select {
			case c := <-tick:
				cur, since = c, cpuSeconds()
			case <-time.After(500 * time.Millisecond):
				if cur >= 0 && cpuSeconds()-since > float64(watchdog) {
					fmt.Fprintf(prog, "T %d\n", cur)
					os.Exit(7)
				}
			}
		}
	}()
	for i := start; i < len(ins); i++ {
		fmt.Fprintf(prog, "B %d\n", i)
		tick <- i
		res := checkInput(i, ins[i])
		b, _ := json.Marshal(res)
		out.Write(append(b, '\n'))
		fmt.Fprintf(prog, "E %d\n", i)
		if only {
			break
		}
	}
	tick <- -1
}

// ---------------------------------------------------------------- the supervisor

type workerEnd struct {
	exit     int
	lastB    int // last input begun
	lastE    int // last input finished
	timedOut bool
	logTail  string
}

func runWorker(batch string, start int, only bool, watchdog int) workerEnd {
	os.Remove(batch + ".progress")
	logf := batch + ".log"
	lf, _ := os.Create(logf)
	cmd := exec.Command(os.Args[0], "-test.run", "^TestVerifC32Worker$", "-test.count=1", "-test.timeout=0")
	cmd.Env = append(os.Environ(), "C32_WORKER_BATCH="+batch, "C32_WORKER_START="+strconv.Itoa(start), "C32_WORKER_WATCHDOG="+strconv.Itoa(watchdog), "GOTRACEBACK=single")
	if only {
		cmd.Env = append(cmd.Env, "C32_WORKER_ONLY=1")
	}
	cmd.Stdout, cmd.Stderr = lf, lf
	err := cmd.Run()
	lf.Close()
	we := workerEnd{lastB: -1, lastE: -1}
	if err != nil {
		we.exit = -1
		if ee, ok := err.(*exec.ExitError); ok {
			we.exit = ee.ExitCode()
		}
	}
	if b, err := os.ReadFile(batch + ".progress"); err == nil {
		for _, line := range strings.Split(string(b), "\n") {
			if len(line) < 3 {
				continue
			}
			n, _ := strconv.Atoi(line[2:])
			switch line[0] {
			case 'B':
				we.lastB = n
			case 'E':
				we.lastE = n
			case 'T':
				we.timedOut = true
			}
		}
	}
	if we.exit != 0 {
		if b, err := os.ReadFile(logf); err == nil {
			s := string(b)
			if len(s) > 6000 {
				s = s[:3000] + "\n...\n" + s[len(s)-2500:]
			}
			we.logTail = s
		}
	}
	return we
}

func deathSignature(log string) string {
	for _, pat := range []string{`fatal error: [^\n]*`, `runtime: goroutine stack exceeds [^\n]*`, `panic: [^\n]*`, `signal [A-Z]+[^\n]*`} {
		if m := regexp.MustCompile(pat).FindString(log); m != "" {
			return vk.Trunc(digits.ReplaceAllString(m, "N"), 80)
		}
	}
	return "abnormal-exit"
}


// mergeResults folds the worker's result lines of one batch into the report.
func mergeResults(rep *vk.Report, batch string, ins []input, b0 int) {
	// merge the worker's results
	if f, err := os.Open(batch + ".results"); err == nil {
		sc := bufio.NewScanner(f)
		sc.Buffer(make([]byte, 1<<20), 1<<26)
		seen := map[int]bool{}
		for sc.Scan() {
			var res result
			if json.Unmarshal(sc.Bytes(), &res) != nil || seen[res.I] {
				continue
			}
			seen[res.I] = true
			in := ins[b0+res.I]
			rep.Eval(vk.Hash64(in.src), len(in.src) > 8)
			fam := in.kind
			if i := strings.Index(fam, ":"); i >= 0 {
				fam = fam[:i]
			}
			rep.Count("inputs:"+fam, 1)
			for c, v := range res.Counts {
				rep.Count(c, v)
			}
			for _, fd := range res.Findings {
				rep.Violate(fd.Class, fmt.Sprintf("%s len=%d %q", in.kind, len(in.src), vk.Trunc(in.src, 200)),
					map[string]any{"kind": in.kind, "length": len(in.src), "input": vk.Trunc(in.src, 3000), "detail": fd.Detail})
			}
			if rep.WantSample() && fam != "nest-code" && len(in.src) > 20 && res.I%97 == 5 {
				rep.Sample(map[string]any{"kind": in.kind, "input": vk.Trunc(in.src, 300), "counts": res.Counts})
			}
		}
		f.Close()
	}
}

func TestVerifC32(t *testing.T) {
	if os.Getenv("C32_WORKER_BATCH") != "" {
		t.Skip("worker run")
	}
	rep := vk.NewReport("C32",
		"inputs: PRNG byte strings (all bytes / printable / punctuation heavy), token soup from a list of 190 Suneido and query token pieces, mutated real library sources from /repo/stdlib (truncate, drop/flip a bracket or quote, stray byte, "+
			"duplicate/delete a chunk, odd number, swap, insert a piece), mutated queries/actions/admin requests, odd number literals, and 38 nesting templates at depths 10..10^5 (thorough: 10^6); "+
			"every input goes through both lexers and 6 code or 4 query parser entry points in a worker process; non-trivial = input longer than 8 bytes; distinct by input bytes",
		"a syntax error is any panic that is not a Go runtime.Error and not an internal assertion",
		"termination is bounded progress: the lexer may return at most len(input)+2 tokens; an input may consume 150 s of CPU time (400 s when re-run alone) before it counts as not terminating; CPU time, not wall-clock, so machine load does not change the verdict")
	defer rep.Finish()
	loadStdlib()
	rep.Count("stdlib_files_available", len(stdlibFiles))

	dir := filepath.Join(vk.OutDir(), fmt.Sprintf("c32-shard%d", vk.Shard()))
	os.MkdirAll(dir, 0o755)

	// the input list of this shard: nesting cases first (sharded), then PRNG cases
	var ins []input
	type nd struct {
		d   int
		all bool // all templates, or only the first of each bracket/operator family
	}
	depths := []nd{{10, true}, {100, true}, {1000, true}, {10000, false}, {100000, false}, {1000000, false}} // 10^5 and 10^6: paren and query-paren only
	if vk.Thorough() {
		depths = []nd{{10, true}, {100, true}, {1000, true}, {10000, true}, {100000, true}, {300000, true}, {1000000, false}}
	}
	few := map[string]bool{"paren": true, "bracket-open-only": true, "unary-minus": true, "function": true, "trinary-right": true, "query-paren": true, "query-where-and": true, "plus": true}
	fewer := map[string]bool{"paren": true, "query-paren": true}
	k := 0
	for _, d := range depths {
		for _, nt := range nests {
			if !d.all && !few[nt.name] {
				continue
			}
			if !vk.Thorough() && d.d >= 100000 && !fewer[nt.name] {
				continue
			}
			depth := d.d
			if nt.name == "query-join" && depth > 10000 {
				// not nesting but a chain: the header of an n-way join lists n field lists and is copied for every
				// join, so parsing is quadratic by design (7 s CPU at 10000 on an idle machine, memory bound and
				// therefore several times that next to 15 other shards; hours at 10^6). The CPU budget below is a
				// bound on progress, not on polynomial work, so the chain stops at 10000.
				continue
			}
			if k%vk.NShards() == vk.Shard() {
				ins = append(ins, nestInput(nt, depth))
			}
			k++
		}
	}

	// nesting inputs are expensive and dangerous: they go into small batches of their own
	nNest := len(ins)
	n := vk.N(16000, 800000)
	for i := 0; i < n; i++ {
		ins = append(ins, genInput(vk.RandFor(32, i)))
	}
	var bounds []int
	for b := 0; b < nNest; b += 8 {
		bounds = append(bounds, b)
	}
	for b := nNest; b < len(ins); b += 400 {
		bounds = append(bounds, b)
	}
	bounds = append(bounds, len(ins))
	deaths := 0
	for bi := 0; bi+1 < len(bounds); bi++ {
		b0, b1 := bounds[bi], bounds[bi+1]
		batch := filepath.Join(dir, fmt.Sprintf("batch-%06d.bin", b0))
		if err := writeBatch(batch, ins[b0:b1]); err != nil {
			t.Fatal("cannot write batch file: ", err)
		}
		os.Remove(batch + ".results")
		rep.Case("batch %s inputs %d..%d (kinds e.g. %s)", batch, b0, b1-1, ins[b0].kind)
		rep.Count("batches", 1)
		start := 0
		for start < b1-b0 {
			we := runWorker(batch, start, false, 150)
			rep.Count("worker_processes", 1)
			if we.exit == 0 && we.lastE == b1-b0-1 {
				break
			}
			// the worker died or gave up at input lastB
			culprit := we.lastB
			if culprit < 0 || culprit <= we.lastE {
				rep.Violate("C32/harness-worker-failed", batch, map[string]any{"exit": we.exit, "log": we.logTail, "lastB": we.lastB, "lastE": we.lastE})
				break
			}
			in := ins[b0+culprit]
			saved := filepath.Join(dir, fmt.Sprintf("culprit-%06d.txt", b0+culprit))
			os.WriteFile(saved, []byte(in.src), 0o644)
			// reproduce alone with a longer watchdog
			again := runWorker(batch, culprit, true, 400)
			rep.Count("worker_processes", 1)
			key := fmt.Sprintf("%s len=%d %q", in.kind, len(in.src), vk.Trunc(in.src, 120))
			detail := map[string]any{"kind": in.kind, "length": len(in.src), "input_head": vk.Trunc(in.src, 400), "input_file": saved,
				"first_run": map[string]any{"exit": we.exit, "timed_out": we.timedOut, "log": we.logTail},
				"alone": map[string]any{"exit": again.exit, "timed_out": again.timedOut, "log": again.logTail}}
			famKind := in.kind
			if i := strings.Index(famKind, ":"); i >= 0 {
				famKind = famKind[:i] // template and depth stay in the key
			}
			switch {
			case again.exit == 0:
				rep.Count("deaths_not_reproduced", 1)
				if we.timedOut {
					// a watchdog that fires only under load is not a verdict about termination
					rep.Count("watchdog_not_reproduced", 1)
				} else {
					rep.Violate("C32/process-death-not-reproducible/"+deathSignature(we.logTail), key, detail)
				}
			case again.timedOut:
				rep.Violate("C32/no-termination/"+famKind, key, detail)
			default:
				rep.Violate("C32/process-death/"+famKind+"/"+deathSignature(again.logTail), key, detail)
			}
			start = culprit + 1
			rep.Count("inputs_killing_the_process", 1)
			deaths++
			if deaths >= 5 {
				break
			}
		}
		if deaths >= 5 {
			// every further death costs minutes of watchdog time and adds nothing to the verdict
			rep.Count("stopped_after_repeated_deaths", 1)
			mergeResults(rep, batch, ins, b0)
			break
		}
		mergeResults(rep, batch, ins, b0)
		if rep.Violations() == 0 { // keep the disk small; batches with findings stay for the replay
			os.Remove(batch)
			os.Remove(batch + ".results")
			os.Remove(batch + ".progress")
			os.Remove(batch + ".log")
		}
	}
}

// TestVerifC32Debug times every parser on one nesting template (C32_DEBUG=name:depth). Development aid only.
func TestVerifC32Debug(t *testing.T) {
	spec := os.Getenv("C32_DEBUG")
	if spec == "" {
		t.Skip()
	}
	setupParsers()
	parts := strings.Split(spec, ":")
	for _, nt := range nests {
		if nt.name != parts[0] {
			continue
		}
		for _, ds := range parts[1:] {
			d, _ := strconv.Atoi(ds)
			in := nestInput(nt, d)
			t0 := time.Now()
			var res result
			res.Counts = map[string]int{}
			checkLexer("code", lexer.NewLexer(in.src), in.src, &res)
			fmt.Printf("%s depth %d len %d: lexer %v\n", nt.name, d, len(in.src), time.Since(t0))
			for _, ps := range parsers {
				if ps.qry != nt.query {
					continue
				}
				t0 = time.Now()
				p, _ := vk.Catch(func() { ps.run(in.src) })
				fmt.Printf("    %-16s %10v  %s\n", ps.name, time.Since(t0).Round(time.Millisecond), vk.Trunc(fmt.Sprint(p), 80))
			}
		}
	}
}
