package c37

import (
	"fmt"
	"math/rand/v2"
	"regexp"
	"strings"
)

// The generator builds a pattern TREE and prints it twice: in Suneido syntax and in Go (RE2) syntax with the
// same meaning. Only constructs whose meaning is the same in both engines are generated (the common subset):
//
//	literal bytes, . (Suneido: not \r \n; printed for Go as [^\r\n]), classes with single characters, ranges,
//	\d \w \s \D \W \S, posix classes, negation; groups (at most 9, all capturing), alternation (also empty
//	alternatives), ? * + ?? *? +?; ^ $ (Suneido is multi-line by default: Go gets a leading (?m)), \A, \Z (Go \z);
//	top level (?i) (?-i) (?m) (?-m) (flags run to the end of the pattern in both engines); (?q)..(?-q) (Go \Q..\E);
//	\<x and x\> where x always matches exactly one word character (Go \bx, x\b).
//
// Left out because the two dialects differ by design: back references, {n,m}, non-capturing groups, flags inside
// groups, $ with \r in the subject, \v (0x0b) with \s / [:space:], non-ASCII bytes (Go matches UTF-8 runes).
type kind int

const (
	kLit kind = iota
	kAny
	kClass
	kShort // \d \w \s \D \W \S outside a class
	kGroup
	kCat
	kAlt
	kQuant
	kBol
	kEol
	kStrStart
	kStrEnd
	kWordStart // \< followed by a one-word-character atom
	kWordEnd   // a one-word-character atom followed by \>
	kFlag      // (?i) (?-i) (?m) (?-m), top level only
	kQuote     // (?q)text(?-q)
)

type classItem struct {
	lo, hi byte   // single character (lo==hi) or range
	named  string // "\\d" ... or "[:alpha:]"
}

type node struct {
	k      kind
	c      byte
	s      string // quantifier, shortcut, flag, quote text
	neg    bool
	items  []classItem
	kids   []*node
	endQ   bool // quote runs to the end of the pattern (no (?-q))
	first  bool // class: print ']' first
	dashes bool // class: print '-' last
}

const suSpecial = `\.[]()|?+*^$`

func suLit(c byte) string {
	if strings.IndexByte(suSpecial, c) >= 0 {
		return `\` + string(c)
	}
	return string(c)
}

func goLit(c byte) string {
	if c < 0x20 || c == 0x7f {
		return fmt.Sprintf(`\x%02x`, c)
	}
	return regexp.QuoteMeta(string(c))
}

func goClassChar(c byte) string {
	if c < 0x20 || c == 0x7f {
		return fmt.Sprintf(`\x%02x`, c)
	}
	if strings.IndexByte(`\]^-[`, c) >= 0 {
		return `\` + string(c)
	}
	return string(c)
}

type printOpts struct {
	suneidoSpace bool // print \s and [:space:] for Go as Suneido's actual set (diagnosis only)
}

func (n *node) su(sb *strings.Builder) {
	switch n.k {
	case kLit:
		sb.WriteString(suLit(n.c))
	case kAny:
		sb.WriteByte('.')
	case kShort:
		sb.WriteString(n.s)
	case kClass:
		sb.WriteByte('[')
		if n.neg {
			sb.WriteByte('^')
		}
		if n.first {
			sb.WriteByte(']')
		}
		for _, it := range n.items {
			switch {
			case it.named != "":
				sb.WriteString(it.named)
			case it.lo == it.hi:
				sb.WriteByte(it.lo)
			default:
				sb.WriteByte(it.lo)
				sb.WriteByte('-')
				sb.WriteByte(it.hi)
			}
		}
		if n.dashes {
			sb.WriteByte('-')
		}
		sb.WriteByte(']')
	case kGroup:
		sb.WriteByte('(')
		n.kids[0].su(sb)
		sb.WriteByte(')')
	case kCat:
		for _, k := range n.kids {
			k.su(sb)
		}
	case kAlt:
		for i, k := range n.kids {
			if i > 0 {
				sb.WriteByte('|')
			}
			k.su(sb)
		}
	case kQuant:
		n.kids[0].su(sb)
		sb.WriteString(n.s)
	case kBol:
		sb.WriteByte('^')
	case kEol:
		sb.WriteByte('$')
	case kStrStart:
		sb.WriteString(`\A`)
	case kStrEnd:
		sb.WriteString(`\Z`)
	case kWordStart:
		sb.WriteString(`\<`)
		n.kids[0].su(sb)
	case kWordEnd:
		n.kids[0].su(sb)
		sb.WriteString(`\>`)
	case kFlag:
		sb.WriteString(n.s)
	case kQuote:
		sb.WriteString("(?q)")
		sb.WriteString(n.s)
		if !n.endQ {
			sb.WriteString("(?-q)")
		}
	}
}

func (n *node) gO(sb *strings.Builder, o printOpts) {
	switch n.k {
	case kLit:
		sb.WriteString(goLit(n.c))
	case kAny:
		sb.WriteString(`[^\r\n]`)
	case kShort:
		if o.suneidoSpace && n.s == `\s` {
			sb.WriteString(`[ \t\r\n]`)
		} else if o.suneidoSpace && n.s == `\S` {
			sb.WriteString(`[^ \t\r\n]`)
		} else {
			sb.WriteString(n.s)
		}
	case kClass:
		sb.WriteByte('[')
		if n.neg {
			sb.WriteByte('^')
		}
		if n.first {
			sb.WriteString(`\]`)
		}
		for _, it := range n.items {
			switch {
			case it.named != "":
				switch {
				case o.suneidoSpace && (it.named == `\s` || it.named == "[:space:]"):
					sb.WriteString(` \t\r\n`)
				case o.suneidoSpace && it.named == `\S`:
					sb.WriteString(`\x00-\x08\x0b\x0c\x0e-\x1f\x21-\x{10ffff}`)
				default:
					sb.WriteString(it.named)
				}
			case it.lo == it.hi:
				sb.WriteString(goClassChar(it.lo))
			default:
				sb.WriteString(goClassChar(it.lo))
				sb.WriteByte('-')
				sb.WriteString(goClassChar(it.hi))
			}
		}
		if n.dashes {
			sb.WriteString(`\-`)
		}
		sb.WriteByte(']')
	case kGroup:
		sb.WriteByte('(')
		n.kids[0].gO(sb, o)
		sb.WriteByte(')')
	case kCat:
		for _, k := range n.kids {
			k.gO(sb, o)
		}
	case kAlt:
		for i, k := range n.kids {
			if i > 0 {
				sb.WriteByte('|')
			}
			k.gO(sb, o)
		}
	case kQuant:
		n.kids[0].gO(sb, o)
		sb.WriteString(n.s)
	case kBol:
		sb.WriteByte('^')
	case kEol:
		sb.WriteByte('$')
	case kStrStart:
		sb.WriteString(`\A`)
	case kStrEnd:
		sb.WriteString(`\z`)
	case kWordStart:
		sb.WriteString(`\b`)
		n.kids[0].gO(sb, o)
	case kWordEnd:
		n.kids[0].gO(sb, o)
		sb.WriteString(`\b`)
	case kFlag:
		sb.WriteString(n.s)
	case kQuote:
		for i := 0; i < len(n.s); i++ {
			sb.WriteString(goLit(n.s[i]))
		}
	}
}

// nullable reports whether the subtree can match the empty string.
func (n *node) nullable() bool {
	switch n.k {
	case kLit, kAny, kClass, kShort, kWordStart, kWordEnd:
		return false
	case kQuote:
		return len(n.s) == 0
	case kGroup:
		return n.kids[0].nullable()
	case kCat:
		for _, k := range n.kids {
			if !k.nullable() {
				return false
			}
		}
		return true
	case kAlt:
		for _, k := range n.kids {
			if k.nullable() {
				return true
			}
		}
		return false
	case kQuant:
		return n.s[0] != '+' || n.kids[0].nullable()
	}
	return true // anchors, flags
}

func (n *node) walk(f func(*node)) {
	f(n)
	for _, k := range n.kids {
		k.walk(f)
	}
}

// ------------------------------------------------------------------ generation

type gen struct {
	r      *rand.Rand
	groups int
	nodes  int
	lits   []byte // literal bytes used, to bias subjects
}

var litAlphabet = []byte("abcABCxyz019_ -.,:;!@#%&=<>/'\"~`{}()[]|?+*^$\\\n\t\f\x00\x01\x7f")
var wordChars = []byte("abcABCxyz019_")
var classSingles = []byte("abcxyzABC0189_ ,.!@#%&=;<>/\"'~`{}()*+?|$\n\t")
var shortcuts = []string{`\d`, `\w`, `\s`, `\D`, `\W`, `\S`}
var posix = []string{"[:alnum:]", "[:alpha:]", "[:blank:]", "[:cntrl:]", "[:digit:]", "[:graph:]", "[:lower:]", "[:print:]", "[:punct:]", "[:space:]", "[:upper:]", "[:xdigit:]"}
var quants = []string{"?", "*", "+", "??", "*?", "+?"}

func (g *gen) lit() *node {
	var c byte
	switch g.r.IntN(4) {
	case 0:
		c = litAlphabet[g.r.IntN(len(litAlphabet))]
	default:
		c = wordChars[g.r.IntN(len(wordChars))]
	}
	g.lits = append(g.lits, c)
	return &node{k: kLit, c: c}
}

func (g *gen) class(wordOnly bool) *node {
	n := &node{k: kClass}
	cnt := 1 + g.r.IntN(4)
	for i := 0; i < cnt; i++ {
		switch c := g.r.IntN(10); {
		case wordOnly || c < 4:
			src := classSingles
			if wordOnly {
				src = wordChars
			}
			ch := src[g.r.IntN(len(src))]
			n.items = append(n.items, classItem{lo: ch, hi: ch})
			g.lits = append(g.lits, ch)
		case c < 7:
			ranges := [][2]byte{{'a', 'c'}, {'a', 'z'}, {'A', 'Z'}, {'0', '9'}, {'x', 'z'}, {'3', '7'}, {' ', '/'}, {'A', 'z'}, {'Z', 'a'}, {0, 0x1f}, {'!', '~'}, {'b', 'b'}}
			rg := ranges[g.r.IntN(len(ranges))]
			n.items = append(n.items, classItem{lo: rg[0], hi: rg[1]})
			g.lits = append(g.lits, rg[0], rg[1])
		case c < 9:
			n.items = append(n.items, classItem{named: shortcuts[g.r.IntN(len(shortcuts))]})
		default:
			n.items = append(n.items, classItem{named: posix[g.r.IntN(len(posix))]})
		}
	}
	if !wordOnly {
		n.neg = g.r.IntN(4) == 0
		n.first = g.r.IntN(12) == 0
		n.dashes = g.r.IntN(12) == 0
		// a range directly followed by a range start, or a single followed by '-', would change the meaning: the printer
		// never emits a bare '-' except last, and singles never are '-', so item boundaries are unambiguous
	}
	return n
}

// wordAtom always matches exactly one word character.
func (g *gen) wordAtom() *node {
	switch g.r.IntN(4) {
	case 0:
		return &node{k: kShort, s: []string{`\w`, `\d`}[g.r.IntN(2)]}
	case 1:
		return g.class(true)
	default:
		c := wordChars[g.r.IntN(len(wordChars))]
		g.lits = append(g.lits, c)
		return &node{k: kLit, c: c}
	}
}

func (g *gen) atom(depth int) *node {
	g.nodes++
	switch c := g.r.IntN(20); {
	case c < 9:
		return g.lit()
	case c < 11:
		return &node{k: kAny}
	case c < 14:
		return g.class(false)
	case c < 16:
		return &node{k: kShort, s: shortcuts[g.r.IntN(len(shortcuts))]}
	default:
		if depth <= 0 || g.groups >= 9 {
			return g.lit()
		}
		g.groups++
		n := &node{k: kGroup}
		n.kids = []*node{g.alt(depth-1, false)} // group number fixed by creation order == left paren order (pre-order)
		return n
	}
}

func (g *gen) element(depth int, top bool) *node {
	switch c := g.r.IntN(40); {
	case c < 2:
		return &node{k: kBol}
	case c < 4:
		return &node{k: kEol}
	case c < 5:
		return &node{k: kStrStart}
	case c < 6:
		return &node{k: kStrEnd}
	case c < 8:
		return &node{k: kWordStart, kids: []*node{g.wordAtom()}}
	case c < 10:
		return &node{k: kWordEnd, kids: []*node{g.wordAtom()}}
	case c < 12 && top:
		return &node{k: kFlag, s: []string{"(?i)", "(?-i)", "(?m)", "(?-m)", "(?i)"}[g.r.IntN(5)]}
	case c < 13 && top:
		n := 1 + g.r.IntN(4)
		b := make([]byte, n)
		for i := range b {
			b[i] = litAlphabet[g.r.IntN(len(litAlphabet))]
		}
		g.lits = append(g.lits, b...)
		return &node{k: kQuote, s: string(b)} // cannot contain "(?-q)": too short
	case c < 24:
		return &node{k: kQuant, s: quants[g.r.IntN(len(quants))], kids: []*node{g.atom(depth)}}
	default:
		return g.atom(depth)
	}
}

func (g *gen) cat(depth int, top bool) *node {
	n := &node{k: kCat}
	cnt := 1 + g.r.IntN(5)
	if g.r.IntN(15) == 0 {
		cnt = 0 // empty alternative
	}
	for i := 0; i < cnt && g.nodes < 40; i++ {
		n.kids = append(n.kids, g.element(depth, top))
	}
	return n
}

func (g *gen) alt(depth int, top bool) *node {
	cnt := 1
	if g.r.IntN(3) == 0 {
		cnt = 2 + g.r.IntN(2)
	}
	if cnt == 1 {
		c := g.cat(depth, top)
		if len(c.kids) == 0 { // "()" is rejected by Suneido: never leave a group or the pattern completely empty
			c.kids = append(c.kids, g.lit())
		}
		return c
	}
	n := &node{k: kAlt}
	for i := 0; i < cnt; i++ {
		n.kids = append(n.kids, g.cat(depth, top))
	}
	return n
}

type pattern struct {
	tree               *node
	su, goPat          string
	goSuSpace          string // Go translation with Suneido's actual \s set (diagnosis of one known difference)
	lits               []byte
	hasEol             bool
	usesSpace          bool
	leftAnchors        bool
	hasStrEnd          bool
	lazyStarOfNullable bool // x*? where x can match the empty string: Go compiles this as (x+?)??, gSuneido as a plain loop
}

func genPattern(r *rand.Rand) pattern {
	g := &gen{r: r}
	var tree *node
	switch r.IntN(8) {
	case 0: // left anchored: the one-pass matcher
		tree = &node{k: kCat, kids: []*node{{k: kStrStart}, g.alt(2, false)}}
		if r.IntN(2) == 0 {
			tree.kids = append(tree.kids, &node{k: kStrEnd})
		}
	case 1: // literal with anchors: the literal fast paths
		tree = &node{k: kCat}
		if r.IntN(2) == 0 {
			tree.kids = append(tree.kids, &node{k: kStrStart})
		}
		for i, n := 0, 1+r.IntN(5); i < n; i++ {
			tree.kids = append(tree.kids, g.lit())
		}
		if r.IntN(2) == 0 {
			tree.kids = append(tree.kids, &node{k: kStrEnd})
		}
	case 2: // literal prefix then something
		tree = &node{k: kCat}
		for i, n := 0, 1+r.IntN(3); i < n; i++ {
			tree.kids = append(tree.kids, g.lit())
		}
		tree.kids = append(tree.kids, g.alt(2, false))
	default:
		tree = g.alt(3, true)
	}
	// a quote that is the very last element may omit its terminator
	if tree.k == kCat && len(tree.kids) > 0 {
		if last := tree.kids[len(tree.kids)-1]; last.k == kQuote && r.IntN(2) == 0 {
			last.endQ = true
		}
	}
	p := pattern{tree: tree, lits: g.lits}
	var a, b, c strings.Builder
	tree.su(&a)
	b.WriteString("(?m)")
	tree.gO(&b, printOpts{})
	c.WriteString("(?m)")
	tree.gO(&c, printOpts{suneidoSpace: true})
	p.su, p.goPat, p.goSuSpace = a.String(), b.String(), c.String()
	tree.walk(func(n *node) {
		switch n.k {
		case kEol:
			p.hasEol = true
		case kStrEnd:
			p.hasStrEnd = true
		case kQuant:
			if n.s == "*?" && n.kids[0].nullable() {
				p.lazyStarOfNullable = true
			}
		case kShort:
			if n.s == `\s` || n.s == `\S` {
				p.usesSpace = true
			}
		case kClass:
			for _, it := range n.items {
				if it.named == `\s` || it.named == `\S` || it.named == "[:space:]" {
					p.usesSpace = true
				}
			}
		}
	})
	return p
}

// sample produces a string the tree can match (ignoring anchors and flags), to get many positive cases.
func (n *node) sample(r *rand.Rand, sb *strings.Builder) {
	switch n.k {
	case kLit:
		sb.WriteByte(n.c)
	case kAny:
		sb.WriteByte("ab1 _x"[r.IntN(6)])
	case kShort:
		sb.WriteByte(map[string]string{`\d`: "0189", `\w`: "aZ_5", `\s`: " \t\n\f", `\D`: "a -x", `\W`: " -.\n", `\S`: "a1_."}[n.s][r.IntN(4)])
	case kClass:
		if n.neg || len(n.items) == 0 {
			sb.WriteByte("aZ5 _-\n"[r.IntN(7)])
			return
		}
		it := n.items[r.IntN(len(n.items))]
		if it.named != "" {
			sb.WriteByte("aZ5 _-\n\t."[r.IntN(9)])
		} else {
			sb.WriteByte(it.lo + byte(r.IntN(int(it.hi-it.lo)+1)))
		}
	case kGroup, kWordStart, kWordEnd:
		n.kids[0].sample(r, sb)
	case kCat:
		for _, k := range n.kids {
			k.sample(r, sb)
		}
	case kAlt:
		n.kids[r.IntN(len(n.kids))].sample(r, sb)
	case kQuant:
		cnt := r.IntN(3)
		if n.s[0] == '+' && cnt == 0 {
			cnt = 1
		}
		if n.s[0] == '?' && cnt > 1 {
			cnt = 1
		}
		for i := 0; i < cnt; i++ {
			n.kids[0].sample(r, sb)
		}
	case kQuote:
		sb.WriteString(n.s)
	}
}

var subjectNoise = []byte("abcABCxyz019_ -.,\n\n\t\f\x00 !()[]$^|*+?\\")

func genSubject(r *rand.Rand, p *pattern, allowCR bool) string {
	var sb strings.Builder
	noise := func(n int) {
		for i := 0; i < n; i++ {
			switch {
			case len(p.lits) > 0 && r.IntN(3) == 0:
				sb.WriteByte(p.lits[r.IntN(len(p.lits))])
			case allowCR && r.IntN(12) == 0:
				sb.WriteByte('\r')
			default:
				sb.WriteByte(subjectNoise[r.IntN(len(subjectNoise))])
			}
		}
	}
	switch r.IntN(6) {
	case 0:
		noise(r.IntN(12))
	default:
		noise(r.IntN(5))
		p.tree.sample(r, &sb)
		if r.IntN(3) == 0 {
			noise(r.IntN(3))
			p.tree.sample(r, &sb)
		}
		noise(r.IntN(5))
	}
	s := sb.String()
	if len(s) > 0 && r.IntN(4) == 0 { // mutate one byte
		b := []byte(s)
		b[r.IntN(len(b))] = subjectNoise[r.IntN(len(subjectNoise))]
		s = string(b)
	}
	if len(s) > 60 {
		s = s[:60]
	}
	// never \v and never non-ASCII in the differential part (outside the common subset)
	s = strings.Map(func(c rune) rune {
		if c == '\v' || c > 0x7f || (c == '\r' && !allowCR) {
			return ' '
		}
		return c
	}, s)
	return s
}
