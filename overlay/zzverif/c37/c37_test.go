// C37 Regular expressions match according to their semantics.
//
// Black-box monitor of util/regex.
//  1. differential: generated pattern trees are printed in Suneido syntax and in Go (RE2) syntax with the same meaning
//     (gen_test.go); Compile + Matches/Match/FirstMatch/LastMatch/All must give the same answer, position and
//     capture groups as Go's regexp on generated subjects;
//  2. hostile: arbitrary byte patterns and subjects (unbalanced, non-ASCII, flags anywhere, very long, deeply nested,
//     larger than the 16 bit program counter): Compile either rejects with a "regex: ..." error or everything works
//     without a runtime error, results are self-consistent, and nothing hangs (watchdog).
//
// Every case is announced to a watchdog before it runs; batches are logged with rep.Case so a process death is
// attributed (a case is reproducible from seed, shard and index).
package c37

import (
	"fmt"
	"math/rand/v2"
	"os"
	"regexp"
	"strings"
	"sync/atomic"
	"testing"
	"time"

	"github.com/apmckinlay/gsuneido/util/regex"
	vk "github.com/apmckinlay/gsuneido/util/verifkit"
)

type running struct {
	what  string
	since time.Time
}

var current atomic.Pointer[running]

func announce(format string, args ...any) {
	current.Store(&running{what: fmt.Sprintf(format, args...), since: time.Now()})
}

const hangAfter = 300 * time.Second // every case is sized to need well under a second (pattern x subject <= 4e6 steps)

func watchdog(rep *vk.Report) {
	for {
		time.Sleep(2 * time.Second)
		c := current.Load()
		if c != nil && time.Since(c.since) > hangAfter {
			rep.Violate("C37/hang", c.what, map[string]any{"running_for_s": time.Since(c.since).Seconds(), "note": "the case did not return; the child stops here"})
			rep.Finish()
			os.Exit(0)
		}
	}
}

// suResult runs one gSuneido regex call; crash != "" is a Go runtime error / assertion, rejected != "" a "regex:" error.
type suResult struct {
	ok       bool
	cap      regex.Captures
	crash    string
	rejected string
}

func classify(p any) (crash, rejected string) {
	if p == nil {
		return "", ""
	}
	s := fmt.Sprint(p)
	if _, isErr := p.(error); !isErr && strings.HasPrefix(s, "regex:") {
		return "", s
	}
	return s, ""
}

func suCompile(pat string) (regex.Pattern, string, string) {
	var cp regex.Pattern
	p, _ := vk.Catch(func() { cp = regex.Compile(pat) })
	crash, rej := classify(p)
	return cp, crash, rej
}

func suCall(f func(cap *regex.Captures) bool) suResult {
	var res suResult
	p, _ := vk.Catch(func() { res.ok = f(&res.cap) })
	res.crash, res.rejected = classify(p)
	return res
}

// goCaps converts Go's submatch indexes to the 20 slots of regex.Captures, shifted by the groups that the oracle
// wrapper put in front.
func goCaps(loc []int, skipGroups int) (bool, regex.Captures) {
	var c regex.Captures
	for i := range c {
		c[i] = -1
	}
	if loc == nil {
		return false, c
	}
	for g := 0; g < 10; g++ {
		j := 2 * (g + skipGroups)
		if j+1 < len(loc) {
			c[2*g], c[2*g+1] = int32(loc[j]), int32(loc[j+1])
		}
	}
	return true, c
}

func capStr(ok bool, c regex.Captures) string {
	if !ok {
		return "no match"
	}
	var sb strings.Builder
	for g := 0; g < 10; g++ {
		if g > 0 && c[2*g] == -1 && c[2*g+1] == -1 {
			continue
		}
		fmt.Fprintf(&sb, "%d:[%d,%d) ", g, c[2*g], c[2*g+1])
	}
	return strings.TrimSpace(sb.String())
}

func TestVerifC37(t *testing.T) {
	rep := vk.NewReport("C37",
		"differential cases: a pattern tree from the common subset (literals, dot, classes with ranges/shortcuts/posix/negation, up to 9 groups, alternation incl. empty alternatives, "+
			"greedy and lazy ? * +, ^ $ \\A \\Z, top level (?i)(?m) flags, (?q) quoting, word boundaries next to a word atom; left anchored, all-literal and literal-prefix shapes "+
			"for the fast paths) printed for both engines, with 4 ASCII subjects built from strings the tree can generate plus noise; a case = (pattern, subject). "+
			"hostile cases: random byte patterns/subjects and oversized patterns, checked for crashes, hangs and self-consistency. "+
			"Non-trivial = the pattern has at least one operator and the reference finds a match in the subject (differential), or the pattern compiled (hostile). Distinct by (pattern, subject)",
		"Go's regexp (leftmost-first, RE2 semantics) is the reference for match, position and captures; subjects of the differential part are ASCII without \\v, and without \\r when the pattern uses $",
		"FirstMatch/LastMatch references are built from the same Go pattern with a counted prefix: \\A(?s:.{i})(?s:.*?)(re) and \\A(?s:.{0,i})(re)",
		"a hang is judged by a 300 s watchdog around a single call that is sized to take well under a second")
	defer rep.Finish()
	go watchdog(rep)
	r := vk.Rand(37)

	nPat := vk.N(20000, 600000)
	for i := 0; i < nPat; i++ {
		if i%500 == 0 {
			rep.Case("differential patterns %d..%d seed=%d shard=%d/%d", i, i+499, vk.Seed(), vk.Shard(), vk.NShards())
		}
		pr := vk.RandFor(37, i)
		differential(rep, pr, i)
	}
	nHost := vk.N(20000, 600000)
	for i := 0; i < nHost; i++ {
		if i%500 == 0 {
			rep.Case("hostile cases %d..%d seed=%d shard=%d/%d", i, i+499, vk.Seed(), vk.Shard(), vk.NShards())
		}
		hostile(rep, vk.RandFor(3737, i), i)
	}
	nBig := vk.N(48, 800)
	for i := 0; i < nBig; i++ {
		rep.Case("oversized case %d seed=%d shard=%d/%d", i, vk.Seed(), vk.Shard(), vk.NShards())
		oversized(rep, vk.RandFor(373737, i), i)
	}
	_ = r
	current.Store(nil)
}

func differential(rep *vk.Report, r *rand.Rand, idx int) {
	p := genPattern(r)
	id := fmt.Sprintf("seed=%d shard=%d/%d pattern#%d", vk.Seed(), vk.Shard(), vk.NShards(), idx)
	announce("%s compile %q", id, p.su)
	if _, err := regexp.Compile(p.goPat); err != nil {
		rep.Count("go_compile_errors", 1)
		rep.Seen("go_compile_error", vk.Trunc(err.Error(), 60))
		return
	}
	pat, crash, rej := suCompile(p.su)
	if crash != "" {
		rep.Violate("C37/crash/compile", fmt.Sprintf("pattern %q", p.su), map[string]any{"id": id, "panic": crash, "go": p.goPat})
		return
	}
	if rej != "" {
		rep.Violate("C37/mismatch/compile-rejected", fmt.Sprintf("pattern %q: %s", p.su, rej), map[string]any{"id": id, "go": p.goPat})
		return
	}
	rep.Count("patterns", 1)
	strEndDropped := false
	switch prog := pat.String(); {
	case strings.HasPrefix(prog, "0: Literal"):
		rep.Count("patterns_literal_fastpath", 1)
		// a pattern with \Z (or $ under (?-m)) compiled to a literal search that does not anchor the end
		strEndDropped = (p.hasStrEnd || p.hasEol) && (strings.HasPrefix(prog, "0: LiteralSubstr") || strings.HasPrefix(prog, "0: LiteralPrefix"))
	case strings.HasPrefix(prog, "0: OnePass"):
		rep.Count("patterns_onepass", 1)
	case strings.HasPrefix(prog, "0: Prefix"):
		rep.Count("patterns_prefix_scan", 1)
	}
	operators := strings.ContainsAny(p.su, `.[(|?*+^$\`)

	// reference answers, from a Go pattern text gp (the faithful translation, or the diagnostic one)
	type answer struct {
		ok  bool
		cap regex.Captures
		all []string
		err bool
	}
	refMatch := func(gp, s string) answer {
		re, err := regexp.Compile(gp)
		if err != nil {
			return answer{err: true}
		}
		ok, c := goCaps(re.FindStringSubmatchIndex(s), 0)
		return answer{ok: ok, cap: c}
	}
	refFirst := func(gp, s string, i int) answer {
		re, err := regexp.Compile(fmt.Sprintf(`\A(?s:.{%d})(?s:.*?)(%s)`, i, gp))
		if err != nil {
			return answer{err: true}
		}
		ok, c := goCaps(re.FindStringSubmatchIndex(s), 1)
		return answer{ok: ok, cap: c}
	}
	refLast := func(gp, s string, i int) answer {
		re, err := regexp.Compile(fmt.Sprintf(`\A(?s:.{0,%d})(%s)`, i, gp))
		if err != nil {
			return answer{err: true}
		}
		ok, c := goCaps(re.FindStringSubmatchIndex(s), 1)
		return answer{ok: ok, cap: c}
	}
	refAll := func(gp, s string) answer {
		var a answer
		for i := 0; i <= len(s) && len(a.all) < 40; {
			f := refFirst(gp, s, i)
			if f.err {
				return answer{err: true}
			}
			if !f.ok {
				break
			}
			a.all = append(a.all, capStr(true, f.cap))
			i = max(int(f.cap[1]), int(f.cap[0])+1)
		}
		a.ok = len(a.all) > 0
		return a
	}
	same := func(got suResult, gotAll []string, want answer) bool {
		if want.all != nil || gotAll != nil {
			return strings.Join(gotAll, ";") == strings.Join(want.all, ";")
		}
		return got.ok == want.ok && (!want.ok || got.cap == want.cap)
	}

	for k := 0; k < 4; k++ {
		s := genSubject(r, &p, !p.hasEol)
		announce("%s %q on %q", id, p.su, s)
		key := fmt.Sprintf("pattern %q subject %q", p.su, s)
		// judge compares a gSuneido result with the reference; a difference that disappears when \s / [:space:] is given
		// gSuneido's actual member set (no form feed) gets its own class
		judge := func(kind string, got suResult, gotAll []string, want answer, alt func(gp string) answer, extra map[string]any) bool {
			if want.err || same(got, gotAll, want) {
				return true
			}
			if got.ok && want.ok && got.cap != want.cap && gotAll == nil && kind == "match" {
				if got.cap[0] != want.cap[0] || got.cap[1] != want.cap[1] {
					kind = "position"
				} else {
					kind = "captures"
				}
			} else if kind == "match" {
				kind = "match-vs-no-match"
			}
			spansEqual := func() bool { // only the groups differ
				if gotAll == nil && want.all == nil {
					return got.ok && want.ok && got.cap[0] == want.cap[0] && got.cap[1] == want.cap[1]
				}
				if len(gotAll) != len(want.all) {
					return false
				}
				for i := range gotAll {
					a, _, _ := strings.Cut(gotAll[i], " ")
					b, _, _ := strings.Cut(want.all[i], " ")
					if a != b {
						return false
					}
				}
				return true
			}
			switch {
			case strEndDropped:
				kind = "strend-dropped-by-literal-fastpath"
			case p.lazyStarOfNullable && spansEqual():
				kind = "captures-lazy-star-of-nullable"
			}
			if p.usesSpace && strings.Contains(s, "\f") {
				if a := alt(p.goSuSpace); !a.err && same(got, gotAll, a) {
					kind = "whitespace-class-lacks-formfeed"
				}
			}
			m := map[string]any{"id": id, "suneido_pattern": p.su, "go_pattern": p.goPat, "subject": s,
				"suneido": capStr(got.ok, got.cap), "go": capStr(want.ok, want.cap)}
			if gotAll != nil || want.all != nil {
				m["suneido"], m["go"] = gotAll, want.all
			}
			for k, v := range extra {
				m[k] = v
			}
			rep.Violate("C37/mismatch/"+kind, key, m)
			return false
		}
		// --- Match / Matches
		want := refMatch(p.goPat, s)
		rep.Eval(vk.Hash64(p.su, s), operators && want.ok)
		if want.ok {
			rep.Count("subjects_matching", 1)
			if want.cap[2] != -1 || want.cap[4] != -1 || want.cap[6] != -1 {
				rep.Count("matches_with_group_captures", 1)
			}
		} else {
			rep.Count("subjects_not_matching", 1)
		}
		res := suCall(func(c *regex.Captures) bool { return pat.Match(s, c) })
		if res.crash != "" {
			rep.Violate("C37/crash/match", key, map[string]any{"id": id, "panic": res.crash, "go_pattern": p.goPat})
			continue
		}
		if !judge("match", res, nil, want, func(gp string) answer { return refMatch(gp, s) }, nil) {
			continue
		}
		if want.ok && operators && idx%50 == 7 && rep.WantSample() {
			rep.Sample(map[string]any{"suneido_pattern": p.su, "go_pattern": p.goPat, "subject": s,
				"suneido_result": capStr(res.ok, res.cap), "go_result": capStr(want.ok, want.cap), "verdict": "agree"})
		}
		m := suCall(func(*regex.Captures) bool { return pat.Matches(s) })
		if m.crash != "" {
			rep.Violate("C37/crash/match", key, map[string]any{"id": id, "panic": m.crash, "api": "Matches"})
			continue
		}
		if m.ok != res.ok {
			rep.Violate("C37/mismatch/matches-without-captures", key, map[string]any{"id": id, "Matches": m.ok, "Match": res.ok})
			continue
		}
		switch k {
		case 0, 1: // FirstMatch at or after a position
			i := r.IntN(len(s) + 1)
			got := suCall(func(c *regex.Captures) bool { return pat.FirstMatch(s, i, c) })
			rep.Count("firstmatch_calls", 1)
			if got.crash != "" {
				rep.Violate("C37/crash/firstmatch", fmt.Sprintf("%s from %d", key, i), map[string]any{"id": id, "panic": got.crash})
				continue
			}
			judge("firstmatch", got, nil, refFirst(p.goPat, s, i), func(gp string) answer { return refFirst(gp, s, i) }, map[string]any{"from": i})
		case 2: // LastMatch starting at or before a position
			i := r.IntN(len(s) + 1)
			got := suCall(func(c *regex.Captures) bool { return pat.LastMatch(s, i, c) })
			rep.Count("lastmatch_calls", 1)
			if got.crash != "" {
				rep.Violate("C37/crash/lastmatch", fmt.Sprintf("%s from %d", key, i), map[string]any{"id": id, "panic": got.crash})
				continue
			}
			kind := "lastmatch"
			if got.ok && int(got.cap[0]) > i {
				kind = "lastmatch-starts-after-position"
			}
			judge(kind, got, nil, refLast(p.goPat, s, i), func(gp string) answer { return refLast(gp, s, i) }, map[string]any{"from": i})
		case 3: // All: the documented iteration (next search at max(end, start+1)) over reference FirstMatch answers
			if len(s) > 24 {
				continue
			}
			gotAll := []string{}
			pnc, _ := vk.Catch(func() {
				for c := range pat.All(s) {
					gotAll = append(gotAll, capStr(true, *c))
					if len(gotAll) > 100 {
						break
					}
				}
			})
			rep.Count("all_calls", 1)
			if pnc != nil {
				rep.Violate("C37/crash/all", key, map[string]any{"id": id, "panic": fmt.Sprint(pnc)})
				continue
			}
			wa := refAll(p.goPat, s)
			if wa.all == nil {
				wa.all = []string{}
			}
			judge("all", suResult{ok: len(gotAll) > 0}, gotAll, wa, func(gp string) answer {
				a := refAll(gp, s)
				if a.all == nil {
					a.all = []string{}
				}
				return a
			}, nil)
		}
	}
}

// ------------------------------------------------------------------ hostile inputs: no oracle, only crash / hang / self-consistency

var hostileBits = []string{"(", ")", "[", "]", "[^", "[:", ":]", "[:alpha:]", "[[:digit:]]", "|", "?", "*", "+", "??", "*?", "+?", "^", "$", `\`, `\A`, `\Z`, `\<`, `\>`,
	"(?i)", "(?-i)", "(?q)", "(?-q)", "(?m)", "(?-m)", "(?", "(?x)", `\d`, `\W`, `\s`, `\1`, `\9`, ".", "-", "a-", "-z", "a", "b", "ab", "A", "0", " ", "\n", "\r", "\x00", "\xff", "\x80", "é",
	"{2}", "{", "}", "()", "(|)", "[]", "[]]", "[^]]", "[a-]", "[z-a]", `[\]`, `[\`, "(((", ")))", "a**", "+*?"}

func hostilePattern(r *rand.Rand) string {
	var sb strings.Builder
	switch r.IntN(5) {
	case 0: // random bytes
		n := r.IntN(20)
		for i := 0; i < n; i++ {
			sb.WriteByte(byte(r.IntN(256)))
		}
	case 1: // a valid tree, then damaged
		p := genPattern(r)
		b := []byte(p.su)
		for k := r.IntN(3); k >= 0 && len(b) > 0; k-- {
			switch r.IntN(3) {
			case 0:
				b[r.IntN(len(b))] = byte(r.IntN(256))
			case 1:
				i := r.IntN(len(b))
				b = append(b[:i], b[i+1:]...)
			default:
				i := r.IntN(len(b) + 1)
				bit := hostileBits[r.IntN(len(hostileBits))]
				b = append(b[:i], append([]byte(bit), b[i:]...)...)
			}
		}
		sb.Write(b)
	default:
		n := 1 + r.IntN(12)
		for i := 0; i < n; i++ {
			sb.WriteString(hostileBits[r.IntN(len(hostileBits))])
		}
	}
	return sb.String()
}

func hostileSubject(r *rand.Rand, pat string) string {
	n := r.IntN(30)
	b := make([]byte, n)
	for i := range b {
		switch r.IntN(4) {
		case 0:
			b[i] = byte(r.IntN(256))
		case 1:
			if len(pat) > 0 {
				b[i] = pat[r.IntN(len(pat))]
			}
		default:
			const common = "ab AB01_\n\r\t\x00\xff"
			b[i] = common[r.IntN(len(common))]
		}
	}
	return string(b)
}

// consistent checks what must hold for ANY pattern that compiled.
func consistent(rep *vk.Report, pat regex.Pattern, src, s, id string) {
	key := fmt.Sprintf("pattern %q subject %q", vk.Trunc(src, 200), vk.Trunc(s, 200))
	d := func(extra map[string]any) map[string]any {
		m := map[string]any{"id": id, "pattern_len": len(src), "subject_len": len(s)}
		for k, v := range extra {
			m[k] = v
		}
		return m
	}
	res := suCall(func(c *regex.Captures) bool { return pat.Match(s, c) })
	if res.crash != "" {
		rep.Violate("C37/crash/match", key, d(map[string]any{"panic": res.crash}))
		return
	}
	m := suCall(func(*regex.Captures) bool { return pat.Matches(s) })
	if m.crash != "" {
		rep.Violate("C37/crash/match", key, d(map[string]any{"panic": m.crash, "api": "Matches"}))
		return
	}
	if m.ok != res.ok {
		rep.Violate("C37/inconsistent/matches-vs-match", key, d(map[string]any{"Matches": m.ok, "Match": res.ok}))
	}
	if res.ok {
		rep.Count("hostile_matches", 1)
		c := res.cap
		if c[0] < 0 || c[0] > c[1] || int(c[1]) > len(s) {
			rep.Violate("C37/inconsistent/match-range", key, d(map[string]any{"captures": capStr(true, c)}))
		}
		for g := 1; g < 10; g++ {
			a, b := c[2*g], c[2*g+1]
			if a == -1 && b == -1 {
				continue
			}
			if a < c[0] || b > c[1] || a > b {
				rep.Violate("C37/inconsistent/group-range", key, d(map[string]any{"captures": capStr(true, c), "group": g}))
				break
			}
		}
		// a match must be found again when searching from its own start, and "fixed" there
		f := suCall(func(cc *regex.Captures) bool { return pat.FirstMatch(s, int(c[0]), cc) })
		if f.crash != "" {
			rep.Violate("C37/crash/firstmatch", key, d(map[string]any{"panic": f.crash}))
		} else if !f.ok || f.cap != c {
			rep.Violate("C37/inconsistent/firstmatch-from-match-start", key, d(map[string]any{"match": capStr(true, c), "firstmatch": capStr(f.ok, f.cap)}))
		}
	} else {
		rep.Count("hostile_no_matches", 1)
	}
	for _, i := range []int{0, len(s) / 2, len(s)} {
		f := suCall(func(cc *regex.Captures) bool { return pat.FirstMatch(s, i, cc) })
		if f.crash != "" {
			rep.Violate("C37/crash/firstmatch", key, d(map[string]any{"panic": f.crash, "from": i}))
			break
		}
		if f.ok && (int(f.cap[0]) < i || int(f.cap[1]) > len(s) || f.cap[0] > f.cap[1]) {
			rep.Violate("C37/inconsistent/firstmatch-range", key, d(map[string]any{"from": i, "captures": capStr(true, f.cap)}))
		}
		if f.ok && !res.ok {
			rep.Violate("C37/inconsistent/firstmatch-finds-what-match-does-not", key, d(map[string]any{"from": i, "captures": capStr(true, f.cap)}))
		}
		l := suCall(func(cc *regex.Captures) bool { return pat.LastMatch(s, i, cc) })
		if l.crash != "" {
			rep.Violate("C37/crash/lastmatch", key, d(map[string]any{"panic": l.crash, "from": i}))
			break
		}
		if l.ok && (int(l.cap[1]) > len(s) || l.cap[0] > l.cap[1] || l.cap[0] < 0) {
			rep.Violate("C37/inconsistent/lastmatch-range", key, d(map[string]any{"from": i, "captures": capStr(true, l.cap)}))
		} else if l.ok && int(l.cap[0]) > i {
			rep.Violate("C37/inconsistent/lastmatch-starts-after-position", key, d(map[string]any{"from": i, "captures": capStr(true, l.cap)}))
		}
		if l.ok && !res.ok {
			rep.Violate("C37/inconsistent/lastmatch-finds-what-match-does-not", key, d(map[string]any{"from": i, "captures": capStr(true, l.cap)}))
		}
	}
	if len(s) <= 64 {
		n, prevEnd, prevStart := 0, -1, -1
		pnc, _ := vk.Catch(func() {
			for c := range pat.All(s) {
				n++
				if int(c[0]) < prevEnd || int(c[0]) <= prevStart || n > len(s)+2 {
					rep.Violate("C37/inconsistent/all-not-advancing", key, d(map[string]any{"n": n, "captures": capStr(true, *c)}))
					break
				}
				prevStart, prevEnd = int(c[0]), int(c[1])
			}
		})
		if pnc != nil {
			rep.Violate("C37/crash/all", key, d(map[string]any{"panic": fmt.Sprint(pnc)}))
		} else if (n > 0) != res.ok {
			rep.Violate("C37/inconsistent/all-vs-match", key, d(map[string]any{"all_count": n, "match": res.ok}))
		}
	}
}

func hostile(rep *vk.Report, r *rand.Rand, idx int) {
	src := hostilePattern(r)
	id := fmt.Sprintf("seed=%d shard=%d/%d hostile#%d", vk.Seed(), vk.Shard(), vk.NShards(), idx)
	announce("%s compile %q", id, src)
	pat, crash, rej := suCompile(src)
	rep.Eval(vk.Hash64("hostile", src), crash == "" && rej == "")
	if crash != "" {
		rep.Violate("C37/crash/compile", fmt.Sprintf("pattern %q", src), map[string]any{"id": id, "panic": crash})
		return
	}
	if rej != "" {
		rep.Count("hostile_rejected", 1)
		rep.Seen("rejections", vk.Trunc(rej, 50))
		return
	}
	rep.Count("hostile_compiled", 1)
	for k := 0; k < 2; k++ {
		s := hostileSubject(r, src)
		announce("%s %q on %q", id, src, s)
		consistent(rep, pat, src, s, id)
	}
}

// oversized: patterns whose compiled program is larger than a 16 bit offset can address, deep nesting, long subjects.
func oversized(rep *vk.Report, r *rand.Rand, idx int) {
	id := fmt.Sprintf("seed=%d shard=%d/%d oversized#%d", vk.Seed(), vk.Shard(), vk.NShards(), idx)
	var src, s, shape string
	unit := []string{"a", "[a-c]", "[^x]", ".", `\w`, "(?i)a"}[r.IntN(6)]
	n := []int{1000, 4000, 8000, 16000, 16400, 20000, 33000}[r.IntN(7)]
	switch r.IntN(7) {
	case 0:
		shape = "(x{n})*b"
		src = "(" + strings.Repeat(unit, n) + ")*b"
	case 1:
		shape = "x{n}|b"
		src = strings.Repeat(unit, n) + "|b"
	case 2:
		shape = "(x{n})?b"
		src = "(" + strings.Repeat(unit, n) + ")?b"
	case 3:
		shape = "x{n} plain"
		src = strings.Repeat(unit, n)
	case 4:
		shape = "nested parens"
		d := n / 4
		src = strings.Repeat("(", d) + "a" + strings.Repeat(")", d)
	case 5:
		shape = "(a?){n}a{n}"
		m := n / 40
		src = strings.Repeat("a?", m) + strings.Repeat("a", m)
		s = strings.Repeat("a", m)
	default:
		shape = "alternation of n literals"
		var sb strings.Builder
		for i := 0; i < n/8; i++ {
			if i > 0 {
				sb.WriteByte('|')
			}
			fmt.Fprintf(&sb, "k%05d", i)
		}
		src = sb.String()
		s = fmt.Sprintf("xx k%05d yy", n/8-1)
	}
	if s == "" {
		switch r.IntN(3) {
		case 0:
			s = "b"
		case 1:
			// the matcher is O(pattern x subject): a full-length subject only for the smaller patterns,
			// otherwise a prefix of it (the watchdog must never fire on legitimate quadratic work)
			s = strings.Repeat("a", min(n, 4000000/n)) + "b"
		default:
			s = strings.Repeat("ab", r.IntN(50))
		}
	}
	rep.Count("oversized_cases", 1)
	rep.Seen("oversized_shapes", shape)
	announce("%s shape=%s unit=%q n=%d (pattern %d bytes, subject %d bytes)", id, shape, unit, n, len(src), len(s))
	key := fmt.Sprintf("shape=%s unit=%q n=%d pattern_bytes=%d subject_bytes=%d", shape, unit, n, len(src), len(s))
	pat, crash, rej := suCompile(src)
	rep.Eval(vk.Hash64("oversized", shape, unit, n, len(s)), crash == "" && rej == "")
	over := len(pat) > 32767
	cl := func(what string) string {
		if over {
			return "C37/crash/" + what + "-program-over-32k"
		}
		return "C37/crash/" + what
	}
	if crash != "" {
		rep.Violate("C37/crash/compile-oversized", key, map[string]any{"id": id, "panic": crash})
		return
	}
	if rej != "" {
		rep.Count("oversized_rejected", 1)
		return
	}
	if over {
		rep.Count("oversized_program_over_32k", 1)
	}
	res := suCall(func(c *regex.Captures) bool { return pat.Match(s, c) })
	if res.crash != "" {
		rep.Violate(cl("match"), key, map[string]any{"id": id, "panic": res.crash, "program_bytes": len(pat)})
		return
	}
	// where Go accepts the same text with the same meaning (plain ASCII shapes above do), compare the verdict
	if len(src) > 50000 {
		return
	}
	if gre, err := regexp.Compile("(?m)" + strings.ReplaceAll(src, ".", `[^\r\n]`)); err == nil {
		wok, wcap := goCaps(gre.FindStringSubmatchIndex(s), 0)
		if res.ok != wok || (wok && (res.cap[0] != wcap[0] || res.cap[1] != wcap[1])) {
			c := "C37/mismatch/oversized"
			if over {
				c = "C37/mismatch/oversized-program-over-32k"
			}
			rep.Violate(c, key, map[string]any{"id": id, "suneido": capStr(res.ok, res.cap), "go": capStr(wok, wcap), "program_bytes": len(pat)})
		}
		rep.Count("oversized_compared_with_go", 1)
	}
}
