// C13 Packed values round-trip, are canonical and sort like values.
//
// Black-box monitor over core.Pack / core.Unpack / PackSize / Compare.
// The oracle is a small independent value model (decimal digit strings,
// byte strings, civil date tuples, trees) with its own total order; nothing
// of core's Compare/Equal is used to decide what the expected answer is.
package c13

import (
	"fmt"
	"math"
	"math/rand/v2"
	"sort"
	"strconv"
	"strings"
	"testing"

	. "github.com/apmckinlay/gsuneido/core"
	"github.com/apmckinlay/gsuneido/util/dnum"
	vk "github.com/apmckinlay/gsuneido/util/verifkit"
)

// ---------------------------------------------------------------- model

const (
	kBool = iota
	kNum
	kStr
	kDate
	kObj
)

var kindName = []string{"bool", "number", "string", "date", "object"}

// num is sign * 0.digits * 10^e ; digits has no leading or trailing zero.
// inf: digits == "" and sign = ±2 ; zero: sign == 0.
type num struct {
	sign   int
	e      int
	digits string
}

func (n num) String() string {
	switch n.sign {
	case 0:
		return "0"
	case 2:
		return "inf"
	case -2:
		return "-inf"
	}
	s := ""
	if n.sign < 0 {
		s = "-"
	}
	return s + "." + n.digits + "e" + strconv.Itoa(n.e)
}

func cmpInt(a, b int) int {
	switch {
	case a < b:
		return -1
	case a > b:
		return 1
	}
	return 0
}

func cmpNum(a, b num) int {
	if a.sign != b.sign {
		return cmpInt(a.sign, b.sign)
	}
	if a.sign == 0 || a.sign == 2 || a.sign == -2 {
		return 0
	}
	c := cmpInt(a.e, b.e)
	if c == 0 {
		c = strings.Compare(a.digits, b.digits) // no trailing zeros: a proper prefix is smaller
	}
	return c * a.sign
}

func numFromInt(n int64) num {
	if n == 0 {
		return num{}
	}
	s := strconv.FormatInt(n, 10)
	sign := 1
	if s[0] == '-' {
		sign = -1
		s = s[1:]
	}
	return num{sign: sign, e: len(s), digits: strings.TrimRight(s, "0")}
}

// int64 value of an integral model number that fits
func (n num) asInt64() (int64, bool) {
	if n.sign == 0 {
		return 0, true
	}
	if n.sign == 2 || n.sign == -2 || n.e < len(n.digits) || n.e > 19 {
		return 0, false
	}
	s := n.digits + strings.Repeat("0", n.e-len(n.digits))
	if n.sign < 0 {
		s = "-" + s
	}
	v, err := strconv.ParseInt(s, 10, 64)
	return v, err == nil
}

type mobj struct {
	record bool
	list   []*mval
	keys   []*mval
	vals   []*mval
}

type mval struct {
	kind int
	b    bool
	n    num
	s    string
	d    [8]int // year month day hour minute second ms extra(0 = plain date)
	o    *mobj
}

func (m *mval) String() string {
	switch m.kind {
	case kBool:
		return fmt.Sprint(m.b)
	case kNum:
		return m.n.String()
	case kStr:
		return fmt.Sprintf("%q", vk.Trunc(m.s, 40))
	case kDate:
		return fmt.Sprint("date", m.d)
	}
	return fmt.Sprintf("object(list %d, named %d, record %v)", len(m.o.list), len(m.o.keys), m.o.record)
}

// cmpModel is the value order of scalars (bool < number < string < date).
func cmpModel(a, b *mval) int {
	if a.kind != b.kind {
		return cmpInt(a.kind, b.kind)
	}
	switch a.kind {
	case kBool:
		return cmpInt(b2i(a.b), b2i(b.b))
	case kNum:
		return cmpNum(a.n, b.n)
	case kStr:
		return strings.Compare(a.s, b.s)
	case kDate:
		for i := range a.d {
			if c := cmpInt(a.d[i], b.d[i]); c != 0 {
				return c
			}
		}
		return 0
	}
	panic("cmpModel: not a scalar")
}

func b2i(b bool) int {
	if b {
		return 1
	}
	return 0
}

func sign(n int) int { return cmpInt(n, 0) }

// ---------------------------------------------------------------- generators

var boundary []int64

func init() {
	add := func(n int64) {
		for d := int64(-3); d <= 3; d++ {
			m := n + d
			if (d > 0 && m < n) || (d < 0 && m > n) {
				continue
			}
			boundary = append(boundary, m)
		}
	}
	add(0)
	for k := 1; k < 63; k++ {
		add(int64(1) << k)
		add(-(int64(1) << k))
	}
	p := int64(1)
	for k := 1; k <= 18; k++ {
		p *= 10
		add(p)
		add(-p)
		if k <= 17 {
			add(p * 5)
			add(-p * 5)
		}
	}
	// every digit prefix of MaxInt64 / -MinInt64, padded with zeros to 19 digits (the int64 range test of
	// UnpackNumber compares packed bytes)
	for _, lim := range []string{"9223372036854775807", "9223372036854775808"} {
		for k := 1; k < len(lim); k++ {
			v, _ := strconv.ParseInt(lim[:k]+strings.Repeat("0", len(lim)-k), 10, 64)
			boundary = append(boundary, v, -v, v+1, -v-1, v-1, -v+1)
		}
	}
	for _, n := range []int64{math.MaxInt64, math.MinInt64, math.MaxInt16, math.MinInt16, math.MaxInt32, math.MinInt32,
		9999999999999999, 99999999999999999, 999999999999999999, 9200000000000000000, 9223372036854775800, 9223372036854770000} {
		add(n)
		if n > 0 {
			add(-n)
		}
	}
}

func genInt(r *rand.Rand) int64 {
	switch r.IntN(7) {
	case 0:
		return boundary[r.IntN(len(boundary))]
	case 1:
		return int64(r.IntN(200001) - 100000)
	case 2:
		return int64(r.Uint64())
	case 3:
		return int64(r.Uint64() >> uint(r.IntN(64)))
	case 4:
		return -int64(r.Uint64() >> uint(r.IntN(64)))
	case 5: // few significant digits then zeros
		n := int64(r.IntN(9999) + 1)
		for k := r.IntN(16); k > 0 && n < math.MaxInt64/10; k-- {
			n *= 10
		}
		if r.IntN(2) == 0 {
			n = -n
		}
		return n
	default:
		return boundary[r.IntN(len(boundary))] + int64(r.IntN(2001)-1000)
	}
}

func genDigits(r *rand.Rand, n int) string {
	b := make([]byte, n)
	mode := r.IntN(4)
	for i := range b {
		switch mode {
		case 0:
			b[i] = byte('0' + r.IntN(10))
		case 1: // mostly zeros
			if r.IntN(4) == 0 {
				b[i] = byte('0' + r.IntN(10))
			} else {
				b[i] = '0'
			}
		case 2: // mostly nines
			if r.IntN(4) == 0 {
				b[i] = byte('0' + r.IntN(10))
			} else {
				b[i] = '9'
			}
		default:
			b[i] = "0159"[r.IntN(4)]
		}
	}
	if b[0] == '0' {
		b[0] = byte('1' + r.IntN(9))
	}
	s := strings.TrimRight(string(b), "0")
	return s
}

func genExp(r *rand.Rand) int {
	switch r.IntN(5) {
	case 0:
		return []int{-128, -127, -126, -1, 0, 1, 15, 16, 17, 18, 19, 20, 21, 126, 127}[r.IntN(15)]
	case 1:
		return r.IntN(256) - 128
	default:
		return r.IntN(26) - 4
	}
}

func genNum(r *rand.Rand) num {
	switch r.IntN(12) {
	case 0:
		return num{}
	case 1:
		return num{sign: 2 - 4*r.IntN(2)}
	case 2, 3, 4, 5:
		return numFromInt(genInt(r))
	}
	return num{sign: 1 - 2*r.IntN(2), e: genExp(r), digits: genDigits(r, 1+r.IntN(16))}
}

// neighbours of a number in the encoding: one more trailing digit (prefix relation), last digit +-1,
// exponent +-1, negation
func numNeighbours(r *rand.Rand, n num) []num {
	if n.sign != 1 && n.sign != -1 {
		return nil
	}
	var out []num
	out = append(out, num{sign: -n.sign, e: n.e, digits: n.digits})
	if len(n.digits) < 16 {
		out = append(out, num{sign: n.sign, e: n.e, digits: n.digits + string(byte('1'+r.IntN(9)))})
		if len(n.digits) < 15 {
			out = append(out, num{sign: n.sign, e: n.e, digits: n.digits + "0" + string(byte('1'+r.IntN(9)))})
		}
	}
	if len(n.digits) > 1 {
		out = append(out, num{sign: n.sign, e: n.e, digits: strings.TrimRight(n.digits[:len(n.digits)-1], "0")})
	}
	last := n.digits[len(n.digits)-1]
	if last < '9' {
		out = append(out, num{sign: n.sign, e: n.e, digits: n.digits[:len(n.digits)-1] + string(last+1)})
	}
	if n.e < 127 {
		out = append(out, num{sign: n.sign, e: n.e + 1, digits: n.digits})
	}
	if n.e > -128 {
		out = append(out, num{sign: n.sign, e: n.e - 1, digits: n.digits})
	}
	return out
}

var alphabets = []string{
	"\x00\x01\x02\x7f\x80\xff'\"\\",
	"abcXYZ019 _",
	"\x00\xff",
	"\x03\x04\x05\x06\x07", // bytes equal to pack tags
}

func genStr(r *rand.Rand) string {
	var n int
	switch r.IntN(12) {
	case 0:
		n = 0
	case 1:
		n = 1
	case 2:
		n = []int{126, 127, 128, 129, 255, 256, 257}[r.IntN(7)]
	case 3:
		n = r.IntN(400)
	default:
		n = r.IntN(12)
	}
	return genStrN(r, n)
}

func genStrN(r *rand.Rand, n int) string {
	b := make([]byte, n)
	if r.IntN(5) == 0 {
		for i := range b {
			b[i] = byte(r.IntN(256))
		}
	} else {
		a := alphabets[r.IntN(len(alphabets))]
		for i := range b {
			b[i] = a[r.IntN(len(a))]
		}
	}
	return string(b)
}

func isLeap(y int) bool { return y%4 == 0 && (y%100 != 0 || y%400 == 0) }

func daysIn(y, m int) int {
	switch m {
	case 2:
		if isLeap(y) {
			return 29
		}
		return 28
	case 4, 6, 9, 11:
		return 30
	}
	return 31
}

func genDate(r *rand.Rand) [8]int {
	var d [8]int
	switch r.IntN(6) {
	case 0:
		d[0] = []int{1700, 1701, 1899, 1900, 1970, 1999, 2000, 2038, 2047, 2048, 2100, 2400, 2999}[r.IntN(13)]
	default:
		d[0] = 1700 + r.IntN(1300)
	}
	d[1] = 1 + r.IntN(12)
	switch r.IntN(4) {
	case 0:
		d[2] = daysIn(d[0], d[1])
	case 1:
		d[2] = 1
	default:
		d[2] = 1 + r.IntN(daysIn(d[0], d[1]))
	}
	switch r.IntN(4) {
	case 0: // midnight
	case 1:
		d[3], d[4], d[5], d[6] = 23, 59, 59, 999
	case 2:
		d[3], d[4] = r.IntN(24), r.IntN(60)
	default:
		d[3], d[4], d[5], d[6] = r.IntN(24), r.IntN(60), r.IntN(60), r.IntN(1000)
	}
	if r.IntN(3) == 0 {
		d[7] = []int{1, 2, 127, 128, 254, 255}[r.IntN(6)]
		if r.IntN(2) == 0 {
			d[7] = 1 + r.IntN(255)
		}
	}
	return d
}

func genScalar(r *rand.Rand) *mval {
	switch r.IntN(16) {
	case 0:
		return &mval{kind: kBool, b: r.IntN(2) == 0}
	case 1, 2, 3:
		return &mval{kind: kStr, s: genStr(r)}
	case 4, 5, 6:
		return &mval{kind: kDate, d: genDate(r)}
	}
	return &mval{kind: kNum, n: genNum(r)}
}

func dateLiteral(d [8]int) string {
	s := fmt.Sprintf("#%04d%02d%02d.%02d%02d%02d%03d", d[0], d[1], d[2], d[3], d[4], d[5], d[6])
	if d[7] != 0 {
		s += fmt.Sprintf("%03d", d[7])
	}
	return s
}

// reps returns every internal representation of a scalar model value that the
// exported API can produce, with a label.
type rep struct {
	how string
	v   Value
}

func scalarReps(r *rand.Rand, m *mval) []rep {
	switch m.kind {
	case kBool:
		if m.b {
			return []rep{{"True", True}, {"SuBool", SuBool(true)}}
		}
		return []rep{{"False", False}, {"SuBool", SuBool(false)}}
	case kStr:
		out := []rep{{"SuStr", SuStr(m.s)}}
		c := NewSuConcat()
		s := m.s
		for len(s) > 0 {
			k := 1 + r.IntN(len(s))
			c = c.Add(s[:k])
			s = s[k:]
		}
		out = append(out, rep{"SuConcat", c})
		// a concat that shares its buffer with a longer one
		c2 := NewSuConcat().Add(m.s)
		_ = c2.Add("tail that must not be seen")
		out = append(out, rep{"SuConcat-shared", c2})
		out = append(out, rep{"SuExcept", BuiltinSuExcept(m.s)})
		return out
	case kDate:
		var out []rep
		if m.d[7] == 0 {
			out = append(out, rep{"NewDate", NewDate(m.d[0], m.d[1], m.d[2], m.d[3], m.d[4], m.d[5], m.d[6])})
		}
		out = append(out, rep{"DateFromLiteral", DateFromLiteral(dateLiteral(m.d))})
		return out
	case kNum:
		n := m.n
		switch n.sign {
		case 0:
			return []rep{{"Zero", Zero}, {"IntVal", IntVal(0)}, {"dnum.Zero", SuDnum{Dnum: dnum.Zero}},
				{"FromStr", SuDnum{Dnum: dnum.FromStr("0")}}, {"FromStr-0.0", SuDnum{Dnum: dnum.FromStr("-0.0")}}}
		case 2, -2:
			return []rep{{"dnum.Inf", SuDnum{Dnum: dnum.Inf(int8(n.sign))}},
				{"FromStr", SuDnum{Dnum: dnum.FromStr(strings.TrimPrefix(n.String(), "+"))}}}
		}
		var out []rep
		if i, ok := n.asInt64(); ok {
			out = append(out, rep{"IntVal", IntVal(int(i))}, rep{"Int64Val", Int64Val(i)})
		}
		if len(n.digits) <= 16 {
			coef, _ := strconv.ParseUint(n.digits, 10, 64)
			L := len(n.digits)
			out = append(out, rep{"dnum.New", SuDnum{Dnum: dnum.New(int8(n.sign), coef, n.e-L+16)}})
			if L < 16 {
				j := 1 + r.IntN(16-L)
				c2 := coef
				for k := 0; k < j; k++ {
					c2 *= 10
				}
				out = append(out, rep{"dnum.New-shifted", SuDnum{Dnum: dnum.New(int8(n.sign), c2, n.e-L-j+16)}})
			}
			out = append(out, rep{"dnum.FromStr", SuDnum{Dnum: dnum.FromStr(n.String())}})
			if i, ok := n.asInt64(); ok && len(strconv.FormatInt(i, 10)) <= 16+b2i(i < 0) {
				out = append(out, rep{"dnum.FromInt", SuDnum{Dnum: dnum.FromInt(i)}})
			}
		}
		return out
	}
	panic("scalarReps")
}

// modelOf reads a scalar Value back into the model (how the harness "looks at" a value);
// ok=false if the value is not a well formed scalar of a known type.
func modelOf(v Value) (*mval, string) {
	switch x := v.(type) {
	case SuBool:
		return &mval{kind: kBool, b: bool(x)}, ""
	case SuDnum:
		d := x.Dnum
		switch {
		case d.IsZero():
			return &mval{kind: kNum}, ""
		case d.IsInf():
			return &mval{kind: kNum, n: num{sign: 2 * sign(d.Sign())}}, ""
		}
		c := d.Coef()
		if c < 1000_0000_0000_0000 || c > 9999_9999_9999_9999 {
			return nil, fmt.Sprintf("decimal with unnormalised coefficient %d", c)
		}
		return &mval{kind: kNum, n: num{sign: d.Sign(), e: d.Exp(), digits: strings.TrimRight(strconv.FormatUint(c, 10), "0")}}, ""
	case SuDate:
		return &mval{kind: kDate, d: [8]int{x.Year(), x.Month(), x.Day(), x.Hour(), x.Minute(), x.Second(), x.Millisecond(), 0}}, ""
	case SuTimestamp:
		s := x.String()
		extra, err := strconv.Atoi(s[len(s)-3:])
		if err != nil || len(s) != 22 {
			return nil, "timestamp text " + s
		}
		return &mval{kind: kDate, d: [8]int{x.Year(), x.Month(), x.Day(), x.Hour(), x.Minute(), x.Second(), x.Millisecond(), extra}}, ""
	}
	if i, ok := SuIntToInt(v); ok {
		return &mval{kind: kNum, n: numFromInt(int64(i))}, ""
	}
	if s, ok := v.ToStr(); ok {
		return &mval{kind: kStr, s: s}, ""
	}
	return nil, fmt.Sprintf("unexpected type %T", v)
}

// ---------------------------------------------------------------- objects

// genKey generates a member key that can never land in the list part.
func genKey(r *rand.Rand) *mval {
	for {
		m := genScalar(r)
		if m.kind == kNum {
			if i, ok := m.n.asInt64(); ok && i >= 0 && i < 100000 {
				continue
			}
		}
		if m.kind == kStr && len(m.s) > 40 {
			m.s = m.s[:40]
		}
		return m
	}
}

func genObj(r *rand.Rand, depth int, top bool) *mval {
	o := &mobj{record: r.IntN(4) == 0}
	nl := r.IntN(5)
	nn := r.IntN(5)
	switch r.IntN(12) {
	case 0:
		nl, nn = 0, 0
	case 1:
		if top || r.IntN(8) == 0 {
			nl = []int{126, 127, 128, 129, 200}[r.IntN(5)] // list count crossing the 1-byte varint
			nn = 0
		}
	case 2:
		if top || r.IntN(8) == 0 {
			nn = []int{127, 128, 130}[r.IntN(3)]
		}
	}
	member := func() *mval {
		if depth > 0 && r.IntN(4) == 0 {
			return genObj(r, depth-1, false)
		}
		m := genScalar(r)
		if m.kind == kStr && r.IntN(10) == 0 && top && nl+nn < 20 {
			// element sizes crossing the varint length classes (127/128, 16383/16384)
			m.s = genStrN(r, []int{125, 126, 127, 128, 129, 16381, 16382, 16383, 16384, 16385}[r.IntN(10)])
		}
		return m
	}
	for i := 0; i < nl; i++ {
		o.list = append(o.list, member())
	}
outer:
	for i := 0; i < nn; i++ {
		k := genKey(r)
		for _, k2 := range o.keys {
			if k2.kind == k.kind && cmpModel(k2, k) == 0 {
				continue outer
			}
		}
		o.keys = append(o.keys, k)
		o.vals = append(o.vals, member())
	}
	return &mval{kind: kObj, o: o}
}

func pick(r *rand.Rand, reps []rep) Value { return reps[r.IntN(len(reps))].v }

// leaf is one scalar placed in an object (kept so that a failing object can be narrowed to a member)
type leaf struct {
	m *mval
	v Value
}

func build(r *rand.Rand, m *mval, leaves *[]leaf) Value {
	if m.kind != kObj {
		v := pick(r, scalarReps(r, m))
		*leaves = append(*leaves, leaf{m, v})
		return v
	}
	ob := &SuObject{}
	for _, e := range m.o.list {
		ob.Add(build(r, e, leaves))
	}
	for i, k := range m.o.keys {
		ob.Set(build(r, k, leaves), build(r, m.o.vals[i], leaves))
	}
	if m.o.record {
		return SuRecordFromObject(ob)
	}
	return ob
}

// sameAsModel compares a Value with a model tree using only accessors.
func sameAsModel(v Value, m *mval, path string) string {
	if m.kind != kObj {
		g, why := modelOf(v)
		if g == nil {
			return path + ": " + why
		}
		if g.kind != m.kind || cmpModel(g, m) != 0 {
			return fmt.Sprintf("%s: got %v want %v", path, g, m)
		}
		return ""
	}
	var ob *SuObject
	switch x := v.(type) {
	case *SuObject:
		if m.o.record {
			return path + ": record came back as object"
		}
		ob = x
	case *SuRecord:
		if !m.o.record {
			return path + ": object came back as record"
		}
		ob = x.ToObject()
	default:
		return fmt.Sprintf("%s: got %T want container", path, v)
	}
	if ob.ListSize() != len(m.o.list) || ob.NamedSize() != len(m.o.keys) {
		return fmt.Sprintf("%s: sizes list %d named %d, want %d %d", path, ob.ListSize(), ob.NamedSize(), len(m.o.list), len(m.o.keys))
	}
	for i, e := range m.o.list {
		if s := sameAsModel(ob.ListGet(i), e, fmt.Sprintf("%s[%d]", path, i)); s != "" {
			return s
		}
	}
	// named: every stored key must correspond to exactly one model key with the same value
	used := make([]bool, len(m.o.keys))
	it := ob.Iter2(false, true)
	for k, val := it(); k != nil; k, val = it() {
		km, why := modelOf(k)
		if km == nil {
			return path + ": key " + why
		}
		found := -1
		for i, mk := range m.o.keys {
			if !used[i] && mk.kind == km.kind && cmpModel(mk, km) == 0 {
				found = i
				break
			}
		}
		if found < 0 {
			return fmt.Sprintf("%s: unexpected key %v", path, km)
		}
		used[found] = true
		if s := sameAsModel(val, m.o.vals[found], fmt.Sprintf("%s{%v}", path, km)); s != "" {
			return s
		}
	}
	return ""
}

// show displays a value for a witness; displaying a huge object panics in core, so it is guarded.
func show(v Value) string {
	s := ""
	if p, _ := vk.Catch(func() { s = v.String() }); p != nil {
		return fmt.Sprintf("<%T: %v>", v, p)
	}
	return vk.Trunc(s, 300)
}

// unpackPanicClass: the class of an Unpack panic is computed from the failing encoding: a packed negative
// number that is a proper prefix of the packed MinInt64 is its own class (the int64 range test in
// UnpackNumber is a byte comparison).
func unpackPanicClass(m *mval, packed string) string {
	if m.kind == kNum && m.n.sign == -1 && len(packed) < len(PackedMinInt64) && strings.HasPrefix(PackedMinInt64, packed) {
		return "C13/unpack-panic/negative-number-is-prefix-of-minint64"
	}
	return "C13/unpack-panic/" + kindName[m.kind]
}

// ---------------------------------------------------------------- the check

type item struct {
	m      *mval
	v      Value
	how    string
	packed string
}

func TestVerifC13(t *testing.T) {
	rep := vk.NewReport("C13",
		"scalars (bool, int64 boundary set and PRNG ints, decimals with 1-16 digit coefficients and exponents -128..127, +-inf, byte strings over hostile alphabets, "+
			"dates 1700-2999, timestamps) each in every representation the API can build, plus encoding neighbours of each number; batches are sorted by packed bytes "+
			"and compared with an independent model order; nested objects/records round-trip against a model tree. A case = one value (round trip, canonical) "+
			"or one adjacent/random pair (order). non-trivial = not a boolean/empty string and, for pairs, values differ; distinct by model value(s)",
		"the model reads values back through accessors (Coef/Exp/Sign, Year.., ToStr, ListGet, Iter2); math/strconv are trusted")
	defer rep.Finish()
	// each distinct (class, key) is reported once per process, so that the few witness slots the kit keeps
	// per class hold distinct inputs (a known input must not crowd out a new one of the same class)
	reported := map[string]bool{}
	violate := func(class, key string, detail any) {
		if id := class + "|" + key; !reported[id] {
			if len(reported) < 200000 { // bound the memory of the de-duplication
				reported[id] = true
			}
			rep.Violate(class, key, detail)
		} else {
			rep.Count("violations_repeated", 1)
		}
	}

	checkScalar := func(r *rand.Rand, m *mval) []item {
		reps := scalarReps(r, m)
		var items []item
		var first string
		for i, rp := range reps {
			rep.Case("scalar %v via %s", m, rp.how)
			var packed string
			var size int
			p, _ := vk.Catch(func() {
				packed = PackValue(rp.v)
				size = PackSize(rp.v)
			})
			key := fmt.Sprintf("%v via %s", m, rp.how)
			if p != nil {
				violate("C13/pack-panic/"+kindName[m.kind], key, fmt.Sprint(p))
				continue
			}
			rep.Eval(vk.Hash64("rt", m.String(), rp.how), !(m.kind == kBool || (m.kind == kStr && m.s == "")))
			rep.Count("roundtrips_"+kindName[m.kind], 1)
			if size != len(packed) {
				violate("C13/packsize-differs/"+kindName[m.kind], key, map[string]any{"packsize": size, "len": len(packed), "packed": fmt.Sprintf("%x", packed)})
			}
			if i == 0 {
				first = packed
			} else if packed != first {
				violate("C13/not-canonical/"+kindName[m.kind], fmt.Sprintf("%v: %s vs %s", m, reps[0].how, rp.how),
					map[string]any{reps[0].how: fmt.Sprintf("%x", first), rp.how: fmt.Sprintf("%x", packed)})
			} else {
				rep.Count("canonical_pairs", 1)
			}
			if m.kind == kStr && m.s == "" && packed != "" {
				violate("C13/empty-string-not-smallest", key, fmt.Sprintf("%x", packed))
			}
			if !(m.kind == kStr && m.s == "") && packed == "" {
				violate("C13/nonempty-value-packs-empty", key, nil)
			}
			var back Value
			p, _ = vk.Catch(func() { back = Unpack(packed) })
			if p != nil {
				violate(unpackPanicClass(m, packed), key, map[string]any{"panic": fmt.Sprint(p), "packed": fmt.Sprintf("%x", packed)})
				continue
			}
			if why := sameAsModel(back, m, ""); why != "" {
				violate("C13/roundtrip-differs/"+kindName[m.kind], key, map[string]any{"why": why, "packed": fmt.Sprintf("%x", packed), "back": fmt.Sprintf("%T %v", back, back)})
			} else {
				eq1, eq2 := false, false
				p, _ = vk.Catch(func() { eq1, eq2 = back.Equal(rp.v), rp.v.Equal(back) })
				if p != nil || !eq1 || !eq2 {
					violate("C13/roundtrip-not-equal/"+kindName[m.kind], key, map[string]any{"back.Equal(x)": eq1, "x.Equal(back)": eq2, "panic": fmt.Sprint(p),
						"back": fmt.Sprintf("%T %v", back, back), "x": fmt.Sprintf("%T %v", rp.v, rp.v)})
				}
				// packing the unpacked value gives the same bytes again (canonical)
				var again string
				p, _ = vk.Catch(func() { again = PackValue(back) })
				if p != nil || again != packed {
					violate("C13/not-canonical/repack-"+kindName[m.kind], key, map[string]any{"packed": fmt.Sprintf("%x", packed), "again": fmt.Sprintf("%x", again), "panic": fmt.Sprint(p)})
				}
			}
			items = append(items, item{m: m, v: rp.v, how: rp.how, packed: packed})
		}
		return items
	}

	checkPair := func(a, b item, what string) {
		if (a.m.kind == kStr && a.m.s == "") || (b.m.kind == kStr && b.m.s == "") {
			return // the statement leaves "" out of the order (it packs to the smallest encoding)
		}
		want := cmpModel(a.m, b.m)
		got := sign(strings.Compare(a.packed, b.packed))
		rep.Eval(vk.Hash64("ord", a.m.String(), b.m.String()), want != 0 && a.m.kind != kBool)
		rep.Count("order_pairs_"+what, 1)
		if a.m.kind != b.m.kind {
			rep.Count("order_pairs_cross_type", 1)
		}
		key := fmt.Sprintf("%v [%s] <=> %v [%s]", a.m, a.how, b.m, b.how)
		detail := func() map[string]any {
			return map[string]any{"a": fmt.Sprintf("%T %v", a.v, a.v), "b": fmt.Sprintf("%T %v", b.v, b.v),
				"packed_a": fmt.Sprintf("%x", a.packed), "packed_b": fmt.Sprintf("%x", b.packed), "model_order": want, "packed_order": got}
		}
		if got != want {
			cl := "C13/pack-order-differs/" + kindName[a.m.kind] + "-" + kindName[b.m.kind]
			if a.m.kind == kNum && b.m.kind == kNum && a.m.n.sign == -1 && b.m.n.sign == -1 && a.m.n.e == b.m.n.e &&
				(strings.HasPrefix(a.packed, b.packed) || strings.HasPrefix(b.packed, a.packed)) {
				cl = "C13/pack-order-differs/negative-number-is-prefix"
				rep.Count("negative_prefix_pairs_wrong", 1)
			}
			violate(cl, key, detail())
		}
		var c1, c2 int
		p, _ := vk.Catch(func() { c1, c2 = a.v.Compare(b.v), b.v.Compare(a.v) })
		if p != nil {
			violate("C13/compare-panic", key, fmt.Sprint(p))
		} else if sign(c1) != got || sign(c2) != -got {
			// the statement: byte order of packed values equals the language's value order
			if got == want { // packed agrees with the model, Compare does not
				d := detail()
				d["a.Compare(b)"], d["b.Compare(a)"] = c1, c2
				violate("C13/language-order-differs-from-packed-and-model/"+kindName[a.m.kind]+"-"+kindName[b.m.kind], key, d)
			}
		}
		if a.m.kind == kNum && b.m.kind == kNum && a.m.n.sign == -1 && b.m.n.sign == -1 && a.m.n.e == b.m.n.e &&
			a.packed != b.packed && (strings.HasPrefix(a.packed, b.packed) || strings.HasPrefix(b.packed, a.packed)) {
			rep.Count("negative_prefix_pairs_seen", 1)
		}
	}

	checkBatch := func(r *rand.Rand, models []*mval) {
		var items []item
		for _, m := range models {
			items = append(items, checkScalar(r, m)...)
		}
		// all-pairs consistency in n log n: sort by packed bytes, the model order must be monotone,
		// and equal bytes <=> equal model value
		sort.SliceStable(items, func(i, j int) bool { return items[i].packed < items[j].packed })
		for i := 1; i < len(items); i++ {
			checkPair(items[i-1], items[i], "adjacent")
		}
		for k := 0; k < len(items); k++ {
			checkPair(items[r.IntN(len(items))], items[r.IntN(len(items))], "random")
		}
	}

	// 1. fixed boundary integers (seed independent), all representations, sorted as one batch per shard
	{
		r := vk.Rand(1301)
		var ms []*mval
		for i, n := range boundary {
			if i%vk.NShards() == vk.Shard() {
				ms = append(ms, &mval{kind: kNum, n: numFromInt(n)})
			}
		}
		rep.Count("boundary_ints", len(ms))
		checkBatch(r, ms)
	}
	// 2. PRNG scalars with neighbours, in batches
	n := vk.N(120000, 8000000)
	const batch = 1500
	for done, bi := 0, 0; done < n; bi++ {
		r := vk.RandFor(1302, bi)
		var ms []*mval
		for len(ms) < batch && done < n {
			m := genScalar(r)
			ms = append(ms, m)
			done++
			if m.kind == kNum && r.IntN(2) == 0 {
				for _, nb := range numNeighbours(r, m.n) {
					ms = append(ms, &mval{kind: kNum, n: nb})
				}
			}
			if m.kind == kStr && r.IntN(2) == 0 { // prefix / successor strings
				ms = append(ms, &mval{kind: kStr, s: m.s + string(byte(r.IntN(256)))}, &mval{kind: kStr, s: m.s + "\x00"})
			}
			if m.kind == kDate && r.IntN(2) == 0 {
				d := m.d
				d[7] = 1 + r.IntN(255)
				ms = append(ms, &mval{kind: kDate, d: d})
				d2 := m.d
				d2[6] = (d2[6] + 1) % 1000
				ms = append(ms, &mval{kind: kDate, d: d2})
			}
		}
		if rep.WantSample() && len(ms) > 3 {
			it := checkScalar(r, ms[0])
			if len(it) > 0 {
				rep.Sample(map[string]any{"value": ms[0].String(), "how": it[0].how, "packed": fmt.Sprintf("%x", it[0].packed)})
			}
		}
		checkBatch(r, ms)
	}
	// 3. nested objects and records
	no := vk.N(6000, 400000)
	for i := 0; i < no; i++ {
		r := vk.RandFor(1303, i)
		m := genObj(r, 1+r.IntN(4), true)
		rep.Case("object %d", i)
		var v Value
		var packed string
		var size int
		var leaves []leaf
		p, _ := vk.Catch(func() {
			v = build(r, m, &leaves)
			packed = PackValue(v)
			size = PackSize(v)
		})
		key := fmt.Sprintf("object case %d (seed %d shard %d/%d)", i, vk.Seed(), vk.Shard(), vk.NShards())
		if p != nil {
			violate("C13/pack-panic/object", key, fmt.Sprint(p))
			continue
		}
		rep.Eval(vk.Hash64("obj", packed), len(m.o.list)+len(m.o.keys) > 0)
		rep.Count("roundtrips_object", 1)
		rep.Max("max_packed_object_bytes", len(packed))
		if m.o.record {
			rep.Count("roundtrips_record", 1)
		}
		if size != len(packed) {
			violate("C13/packsize-differs/object", key, map[string]any{"packsize": size, "len": len(packed)})
		}
		var back Value
		p, _ = vk.Catch(func() { back = Unpack(packed) })
		if p != nil {
			// narrow the failure to a member that fails on its own (the same check as for a top level scalar)
			narrowed := false
			for _, lf := range leaves {
				if p2, _ := vk.Catch(func() { Unpack(PackValue(lf.v)) }); p2 != nil {
					violate(unpackPanicClass(lf.m, PackValue(lf.v)), fmt.Sprintf("%v via object member", lf.m), map[string]any{"panic": fmt.Sprint(p2), "in": key})
					narrowed = true
					break
				}
			}
			if !narrowed {
				violate("C13/unpack-panic/object", key, map[string]any{"panic": fmt.Sprint(p), "value": show(v)})
			}
			continue
		}
		if why := sameAsModel(back, m, ""); why != "" {
			violate("C13/roundtrip-differs/object", key, map[string]any{"why": why, "value": show(v), "back": show(back)})
			continue
		}
		eq1, eq2 := false, false
		p, _ = vk.Catch(func() { eq1, eq2 = back.Equal(v), v.Equal(back) })
		if p == nil && (!eq1 || !eq2) {
			// narrow to a member whose own round trip is not equal, or is equal but hashes differently
			// (members are looked up by hash, so such a key is not found in the unpacked object)
			narrowed := false
			for _, lf := range leaves {
				b := Unpack(PackValue(lf.v))
				if !b.Equal(lf.v) || !lf.v.Equal(b) {
					violate("C13/roundtrip-not-equal/"+kindName[lf.m.kind], fmt.Sprintf("%v via object member", lf.m), map[string]any{"in": key, "x": fmt.Sprintf("%T %v", lf.v, lf.v), "back": fmt.Sprintf("%T %v", b, b)})
					narrowed = true
					break
				} else if b.Hash() != lf.v.Hash() {
					violate("C13/roundtrip-not-equal/object-member-hash-changes", fmt.Sprintf("%v via object member", lf.m), map[string]any{"in": key, "x": fmt.Sprintf("%T %v", lf.v, lf.v), "back": fmt.Sprintf("%T %v", b, b)})
					narrowed = true
					break
				}
			}
			if narrowed {
				continue
			}
		}
		if p != nil || !eq1 || !eq2 {
			violate("C13/roundtrip-not-equal/object", key, map[string]any{"back.Equal(x)": eq1, "x.Equal(back)": eq2, "panic": fmt.Sprint(p), "value": show(v)})
		}
		// type tag order: any packed object sorts after any packed scalar
		sc := genScalar(r)
		if !(sc.kind == kStr && sc.s == "") {
			ps := PackValue(pick(r, scalarReps(r, sc)))
			if !(ps < packed) {
				violate("C13/pack-order-differs/scalar-object", key, map[string]any{"scalar": sc.String(), "packed_scalar": fmt.Sprintf("%x", ps), "packed_object_head": fmt.Sprintf("%x", packed[:1])})
			}
		}
	}
}
