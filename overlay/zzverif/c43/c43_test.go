// C43 Shared values are safe under concurrent use.
//
// Sanitizer check: built with -race. Suneido programs share objects, records
// (with rules and observers), closures with shared variables, class instances,
// classes and Suneido.* members between 3-12 interpreter threads exactly the way
// the language does it: through WaitGroup().Thread(block), Thread(fn, args...) and
// assignment to a member of the global Suneido object (all of which call
// SetConcurrent before the value is reachable from the other goroutine; every
// thread is a core.NewThread). The threads then hammer the shared values with
// reads, writes, iteration, sort, copy, pack, display.
//
// Oracle: (1) the race detector (driver: every DATA RACE report is a violation,
// class C43/race, key = the two innermost functions); (2) the process must not
// die (fatal error: concurrent map ..., nil dereference ...); (3) the only errors a
// thread may see are the documented ones (object modified during iteration, can't
// modify object during sort, member not found ...); (4) no torn or foreign value is
// ever read; (5) conservation where the operation is documented/meant to be atomic
// (Add, PopFirst/PopLast, CompareAndSet, ++ on a member or a shared closure variable).
package c43

import (
	"strconv"
	"fmt"
	"math/rand/v2"
	"os"
	"regexp"
	"runtime"
	"sort"
	"strings"
	"testing"
	"time"

	"github.com/apmckinlay/gsuneido/builtin"
	"github.com/apmckinlay/gsuneido/compile"
	. "github.com/apmckinlay/gsuneido/core"
	vk "github.com/apmckinlay/gsuneido/util/verifkit"
)

func init() {
	builtin.DefDef()
}

// ------------------------------------------------------------------ Suneido side

var globals = map[string]string{
	// values written by the threads: small ints (thread numbers), t*100000+i,
	// strings "v<t>:<i>:<t*31+i>", objects. Anything else was never written.
	"C43Check": `function (x, errs)
		{
		if x is true or x is false
			return
		if Number?(x)
			{
			if x < 0 or x >= 100000000 or x.Int() isnt x
				errs.Add("FOREIGN number " $ Display(x))
			return
			}
		if String?(x)
			{
			if x is ""
				return
			if x !~ "^v[0-9]+:[0-9]+:[0-9]+$"
				{
				errs.Add("FOREIGN string " $ Display(x))
				return
				}
			p = x[1 ..].Split(":")
			if Number(p[0]) * 31 + Number(p[1]) isnt Number(p[2])
				errs.Add("TORN string " $ Display(x))
			return
			}
		if Object?(x)
			return
		errs.Add("FOREIGN value " $ Display(x))
		}`,
	"C43Val": `function (t, i) { return "v" $ t $ ":" $ i $ ":" $ (t * 31 + i) }`,
	"C43ObOp": `function (op, ob, t, i, errs)
		{
		switch op
			{
		case 0:
			ob.Add(t * 100000 + i)
		case 1:
			ob[i % 7] = t
		case 2:
			ob["k" $ (i % 5)] = Object(t, i, C43Val(t, i))
		case 3:
			C43Check(ob.GetDefault(i % 7, false), errs)
		case 4:
			ob.Delete(i % 7)
		case 5:
			ob.Erase("k" $ (i % 5))
		case 6:
			x = ob.PopFirst()
			if not Same?(x, ob)
				C43Check(x, errs)
		case 7:
			x = ob.PopLast()
			if not Same?(x, ob)
				C43Check(x, errs)
		case 8:
			for x in ob
				C43Check(x, errs)
		case 9:
			for m in ob.Members()
				if not (String?(m) or Number?(m))
					errs.Add("FOREIGN member " $ Display(m))
		case 10:
			ob.Size()
			ob.Size(list:)
			ob.Size(named:)
		case 11:
			ob.Find(t)
			ob.Has?(C43Val(t, i))
		case 12:
			c = ob.Copy()
			c.Add(1)
			c.Delete(0)
			c.x = C43Val(t, i)
			for x in c
				C43Check(x, errs)
		case 13:
			ob.Sort!()
		case 14:
			ob.Sort!({|x, y| x < y })
		case 15:
			ob.Unique!()
		case 16:
			ob.Reverse!()
		case 17:
			Unpack(Pack(ob))
		case 18:
			Display(ob)
		case 19:
			for x in ob[1 .. 4]
				C43Check(x, errs)
		case 20:
			ob.n++
		case 21:
			ob.str = C43Val(t, i)
		case 22:
			C43Check(ob.GetDefault(#str, ""), errs)
		case 23:
			ob.BinarySearch(t, {|x, y| x < y })
		case 24:
			x = ob.CompareAndSet("cas", t, ob.GetDefault("cas", false))
		case 25:
			for x in ob.Values()
				C43Check(x, errs)
		case 26:
			for x in ob.Assocs()
				C43Check(x[1], errs)
		case 27:
			if i % 9 is 0
				ob.Delete(all:)
		case 28:
			n = ob.GetDefault("nested", false)
			if Object?(n)
				{
				n.Add(C43Val(t, i))
				if n.Size() > 40
					n.Delete(all:)
				}
			else
				ob.nested = Object()
		case 29:
			x = ob.GetDefault("k" $ (i % 5), false)
			if Object?(x)
				{
				x.Add(i)
				C43Check(x[0], errs)
				x.m = t
				}
		case 30:
			ob is ob.Copy()
			ob < Object(1)
		case 31:
			it = ob.Iter()
			x = it.Next()
			if not Same?(x, it)
				C43Check(x, errs)
		case 32:
			(function (@args) { args.Size() })(@ob)
		case 33:
			if ob.Size() > 0
				C43Check(ob.Max(), errs)
		case 34:
			ob.Join(",")
		case 35:
			ob.Member?(i % 7)
			ob.Member?(#n)
		case 37:
			// adjacent duplicates, so that Unique! has something to compact
			ob.Add(t % 3)
			ob.Add(t % 3)
			ob.Add(t % 3)
		default:
			ob.Add(C43Val(t, i))
			}
		}`,
	"Rule_c43sum": `function () { return .c43a + .c43b }`,
	"Rule_c43cat": `function () { return .c43sum $ "/" $ .c43s }`,
	"C43RecOp": `function (op, r, t, i, errs, counter)
		{
		switch op
			{
		case 0:
			r.c43a = t * 1000 + i
		case 1:
			r.c43b = i
		case 2:
			r.c43s = C43Val(t, i)
		case 3:
			x = r.c43sum
			if not Number?(x)
				errs.Add("FOREIGN rule value " $ Display(x))
		case 4:
			x = r.c43cat
			if not String?(x)
				errs.Add("FOREIGN rule value " $ Display(x))
		case 5:
			r.Invalidate(#c43sum)
		case 6:
			c = r.Copy()
			c.c43a = 1
			c.c43cat
		case 7:
			r.GetDeps(#c43cat)
		case 8:
			r.Delete(#c43b)
		case 9:
			for m in r.Members()
				if not (String?(m) or Number?(m))
					errs.Add("FOREIGN member " $ Display(m))
		case 10:
			Unpack(Pack(r))
		case 11:
			Display(r)
		case 12:
			obs = {|member| counter.Add(member) }
			r.Observer(obs)
			r.c43a = i
			r.RemoveObserver(obs)
		case 13:
			r.AttachRule(#c43att, function () { return "att" $ .c43a })
			r.c43att
		case 14:
			r.Add(i)
			r.PopLast()
		case 15:
			r["f" $ (i % 4)] = Object(t, i)
		case 16:
			x = r.GetDefault("f" $ (i % 4), false)
			if Object?(x)
				x.Add(t)
		case 17:
			r.SetDeps(#c43x, "c43a,c43b")
		case 18:
			for x in r
				if not (Number?(x) or String?(x) or Object?(x))
					errs.Add("FOREIGN value " $ Display(x))
		case 19:
			r.c43a++
		default:
			C43Check(r.c43s, errs)
			}
		}`,
	"C43Base": `class
		{
		Base0() { return 1 }
		Twice(x) { return x + x }
		}`,
	"C43Class": `C43Base
		{
		Kind: "c43"
		New()
			{
			.n = 0
			.ob = Object()
			}
		Inc() { .n++ }
		N() { return .n }
		Add(x) { .ob.Add(x) }
		Ob() { return .ob }
		Set(k, v) { this[k] = v }
		Get(k) { return this.GetDefault(k, false) }
		Getter_Dyn() { return .Twice(21) }
		CallClass(x) { return .Twice(x) }
		Worker()
			{
			// a block that uses this but none of the method's variables (it shares no slots with the method)
			return {
				for i in ..60
					{
					.n++
					.Set("w" $ (i % 7), i)
					.Get("w" $ ((i + 3) % 7))
					.ob.Add(i)
					}
				}
			}
		}`,
	"C43InstOp": `function (op, c, t, i, errs)
		{
		switch op
			{
		case 0:
			c.Inc()
		case 1:
			C43Check(c.N(), errs)
		case 2:
			c.Add(C43Val(t, i))
		case 3:
			c.Set("m" $ (i % 5), Object(t, i))
		case 4:
			x = c.Get("m" $ (i % 5))
			if Object?(x)
				x.Add(t)
		case 5:
			for m in c.Members()
				if not String?(m)
					errs.Add("FOREIGN member " $ Display(m))
		case 6:
			d = c.Copy()
			d.Inc()
		case 7:
			Display(c)
		case 8:
			c.Delete("m" $ (i % 5))
		case 9:
			if c.Dyn isnt 42
				errs.Add("FOREIGN getter value")
		case 10:
			if c.Base0() isnt 1 or c.Kind isnt "c43"
				errs.Add("FOREIGN inherited value")
		case 11:
			c is c.Copy()
		case 12:
			n = new C43Class
			n.Inc()
			if n.N() isnt 1
				errs.Add("FOREIGN new instance")
		case 13:
			if C43Class(4) isnt 8 or C43Class.Twice(2) isnt 4
				errs.Add("FOREIGN class call")
		case 14:
			C43Class.Members()
			C43Class.Member?(#Inc)
		case 15:
			f = c.Inc
			f()
		default:
			c.Ob().Size()
			}
		}`,
	"C43ThreadFn": `function (ob, t, ops, errs, done)
		{
		i = 0
		for op in ops
			{
			++i
			try
				C43ObOp(op, ob, t, i, errs)
			catch (e)
				errs.Add("op" $ op $ " " $ Display(e))
			}
		done.Add(t)
		}`,
}

type scenario struct {
	name string
	src  string
	fn   Value
	// check looks at the value returned by the scenario; nt threads, ops per thread
	check func(c *caseCtx, res Value)
	ops   []int // the operation codes the threads draw from (nil: the scenario has a fixed body)
	known bool  // dedicated to one operation with a known race (see known_findings.d/C43.jsonl)
}

var scenarios = []*scenario{
	{name: "object-mix", ops: opsExcept(36, 14, 15, 23), src: `function (nt, opsList, errs)
		{
		ob = Object(n: 0)
		mk = function (t, ops, ob, errs)
			{
			return {
				i = 0
				for op in ops
					{
					++i
					try
						C43ObOp(op, ob, t, i, errs)
					catch (e)
						errs.Add("op" $ op $ " " $ Display(e))
					}
				}
			}
		wg = WaitGroup()
		for t in ..nt
			wg.Thread(mk(t, opsList[t], ob, errs))
		r = wg.Wait(150)
		if r isnt true
			errs.Add("HANG " $ r)
		return ob
		}`},
	{name: "object-via-Thread-args", ops: opsExcept(36, 14, 15, 23), src: `function (nt, opsList, errs)
		{
		ob = Object(n: 0)
		done = Object()
		for t in ..nt
			Thread(C43ThreadFn, ob, t, opsList[t], errs, done)
		// the creating thread keeps using the object as well
		for i in ..50
			{
			ob.Add(i)
			ob.Size()
			}
		for (w = 0; done.Size() < nt and w < 120000; ++w)
			Thread.Sleep(1)
		if done.Size() < nt
			errs.Add("HANG threads did not finish")
		return ob
		}`},
	{name: "adders", src: `function (nt, opsList, errs)
		{
		ob = Object()
		mk = function (t, n, ob, errs)
			{
			return {
				try
					for i in ..n
						ob.Add(t * 100000 + i)
				catch (e)
					errs.Add(Display(e))
				}
			}
		wg = WaitGroup()
		for t in ..nt
			wg.Thread(mk(t, opsList[t].Size(), ob, errs))
		for ..100
			if ob.Size() > 0
				C43Check(ob[0], errs)
		r = wg.Wait(150)
		if r isnt true
			errs.Add("HANG " $ r)
		return ob
		}`, check: checkAdders},
	{name: "queue", src: `function (nt, opsList, errs)
		{
		q = Object()
		results = Object()
		producer = function (t, n, q, errs)
			{
			return {
				try
					for i in ..n
						q.Add(t * 100000 + i)
				catch (e)
					errs.Add(Display(e))
				}
			}
		consumer = function (t, n, q, results, errs)
			{
			return {
				got = Object()
				try
					for i in ..n
						{
						x = (i % 2 is 0) ? q.PopFirst() : q.PopLast()
						if not Same?(x, q)
							got.Add(x)
						}
				catch (e)
					errs.Add(Display(e))
				results[t] = got
				}
			}
		wg = WaitGroup()
		for t in ..nt
			{
			wg.Thread(producer(t, opsList[t].Size(), q, errs))
			wg.Thread(consumer(t, opsList[t].Size(), q, results, errs))
			}
		r = wg.Wait(150)
		if r isnt true
			errs.Add("HANG " $ r)
		return Object(q, results)
		}`, check: checkQueue},
	{name: "counters", src: `function (nt, opsList, errs)
		{
		ob = Object(n: 0, cas: 0)
		n = 0
		casWins = Object()
		mk = function (t, cnt, ob, errs, inc, casWins)
			{
			return {
				try
					for i in ..cnt
						{
						ob.n++
						ob.m = t
						inc()
						// exactly one thread wins each round
						if ob.CompareAndSet("r" $ i, t)
							casWins.Add(i)
						}
				catch (e)
					errs.Add(Display(e))
				}
			}
		inc = { n++ }
		cnt = opsList[0].Size()
		wg = WaitGroup()
		for t in ..nt
			wg.Thread(mk(t, cnt, ob, errs, inc, casWins))
		r = wg.Wait(150)
		if r isnt true
			errs.Add("HANG " $ r)
		return Object(ob.n, n, casWins.Size(), cnt)
		}`, check: checkCounters},
	{name: "closure-shared-variables", src: `function (nt, opsList, errs)
		{
		// several closures over the same variables, used by all threads while the
		// creating function goes on assigning the variables (strings and numbers;
		// assigning a new object after sharing is the known-closure-variable scenario)
		box = Object()
		last = C43Val(0, 0)
		count = 0
		put = {|v| box.Add(v); last = v; count++ }
		get = { box }
		getlast = { last }
		mk = function (t, cnt, put, get, getlast, errs)
			{
			return {
				try
					for i in ..cnt
						{
						if i % 3 is 0
							put(C43Val(t, i))
						x = get()
						x.Add(C43Val(t, i))
						C43Check(x[0], errs)
						C43Check(getlast(), errs)
						if x.Size() > 300
							x.Delete(all:)
						}
				catch (e)
					errs.Add(Display(e))
				}
			}
		cnt = opsList[0].Size()
		wg = WaitGroup()
		for t in ..nt
			wg.Thread(mk(t, cnt, put, get, getlast, errs))
		for i in ..cnt
			{
			last = C43Val(99, i)
			C43Check(last, errs)
			C43Check(getlast(), errs)
			count++
			}
		r = wg.Wait(150)
		if r isnt true
			errs.Add("HANG " $ r)
		return count
		}`},
	{name: "record-mix", ops: opsExcept(20, 10), src: `function (nt, opsList, errs)
		{
		r = Record(c43a: 1, c43b: 2, c43s: "")
		counter = Object()
		r.Observer({|member| counter.Add(member); if counter.Size() > 200 counter.Delete(all:) })
		mk = function (t, ops, r, errs, counter)
			{
			return {
				i = 0
				for op in ops
					{
					++i
					try
						C43RecOp(op, r, t, i, errs, counter)
					catch (e)
						errs.Add("op" $ op $ " " $ Display(e))
					}
				}
			}
		wg = WaitGroup()
		for t in ..nt
			wg.Thread(mk(t, opsList[t], r, errs, counter))
		x = wg.Wait(150)
		if x isnt true
			errs.Add("HANG " $ x)
		return r
		}`},
	{name: "instance-and-class", ops: opsExcept(16), src: `function (nt, opsList, errs)
		{
		c = new C43Class
		mk = function (t, ops, c, errs)
			{
			return {
				i = 0
				for op in ops
					{
					++i
					try
						C43InstOp(op, c, t, i, errs)
					catch (e)
						errs.Add("op" $ op $ " " $ Display(e))
					}
				}
			}
		wg = WaitGroup()
		for t in ..nt
			wg.Thread(mk(t, opsList[t], c, errs))
		r = wg.Wait(150)
		if r isnt true
			errs.Add("HANG " $ r)
		return c
		}`},
	{name: "suneido-global-members", ops: opsExcept(36, 14, 15, 23), src: `function (nt, opsList, errs)
		{
		Suneido.c43shared = Object(n: 0)
		mk = function (t, ops, errs)
			{
			return {
				i = 0
				for op in ops
					{
					++i
					try
						{
						C43ObOp(op, Suneido.c43shared, t, i, errs)
						Suneido["c43k" $ (i % 3)] = Object(t, i)
						x = Suneido.GetDefault("c43k" $ (i % 3), false)
						if Object?(x)
							x.Add(t)
						}
					catch (e)
						errs.Add("op" $ op $ " " $ Display(e))
					}
				}
			}
		wg = WaitGroup()
		for t in ..nt
			wg.Thread(mk(t, opsList[t], errs))
		r = wg.Wait(150)
		if r isnt true
			errs.Add("HANG " $ r)
		ob = Suneido.c43shared
		Suneido.Delete(#c43shared)
		return ob
		}`},
	{name: "instance-through-this-block", src: `function (nt, opsList, errs)
		{
		c = new C43Class
		wg = WaitGroup()
		for t in ..nt
			wg.Thread(c.Worker()) // the instance reaches the other threads only as the this of the block
		r = wg.Wait(150)
		if r isnt true
			errs.Add("HANG " $ r)
		return Object(c.N(), c.Ob().Size())
		}`, check: func(c *caseCtx, res Value) {
		ob, ok := res.(*SuObject)
		if !ok || ob.ListSize() != 2 {
			c.violate("C43/scenario-result", map[string]any{"result": fmt.Sprint(res)})
			return
		}
		if n, sz := ToInt(ob.ListGet(0)), ToInt(ob.ListGet(1)); n != 60*c.nt || sz != 60*c.nt {
			c.violate("C43/lost-update/instance-through-this-block", map[string]any{"increments": n, "adds": sz, "want": 60 * c.nt})
		}
		c.rep.Count("conserved_increments", 60*c.nt)
	}},
	{name: "default-container-get", src: `function (nt, opsList, errs)
		{
		// reading a missing member of an object whose default value is a container stores a copy of the default:
		// a read that writes, from all threads at once, partly on the same members
		ob = Object().Set_default(Object())
		mk = function (t, n, ob, errs)
			{
			return {
				try
					for i in ..n
						{
						x = ob[i % 40]
						x.Add(t * 100000 + i)
						y = ob[t * 1000 + i]
						y.Add(t)
						}
				catch (e)
					errs.Add(Display(e))
				}
			}
		wg = WaitGroup()
		for t in ..nt
			wg.Thread(mk(t, opsList[t].Size(), ob, errs))
		r = wg.Wait(150)
		if r isnt true
			errs.Add("HANG " $ r)
		n = 0
		for i in ..40
			if ob.Member?(i)
				n += ob[i].Size()
		return Object(n, ob.Size())
		}`, check: func(c *caseCtx, res Value) {
		ob, ok := res.(*SuObject)
		if !ok || ob.ListSize() != 2 {
			c.violate("C43/scenario-result", map[string]any{"result": fmt.Sprint(res)})
			return
		}
		c.rep.Count("default_container_members_created", ToInt(ob.ListGet(1)))
	}},
	{name: "row-records-of-one-query", src: `function (nt, opsList, errs)
		{
		// the records a query delivers share its header; each thread works on its own record
		recs = C43RowRecords(nt)
		mk = function (t, n, rec, errs)
			{
			return {
				try
					for i in ..n
						{
						if rec.a isnt t or rec.c isnt "v" $ t
							errs.Add("FOREIGN field of record " $ t $ ": " $ Display(rec))
						rec.b = i
						if rec.b isnt i
							errs.Add("LOST own update of record " $ t)
						rec.Members()
						}
				catch (e)
					errs.Add(Display(e))
				}
			}
		wg = WaitGroup()
		for t in ..nt
			wg.Thread(mk(t, opsList[t].Size(), recs[t], errs))
		r = wg.Wait(150)
		if r isnt true
			errs.Add("HANG " $ r)
		return recs.Size()
		}`, check: func(c *caseCtx, res Value) {
		if ToInt(res) != c.nt {
			c.violate("C43/scenario-result", map[string]any{"result": fmt.Sprint(res)})
		}
		c.rep.Count("row_records_shared_header", c.nt)
	}},
	{name: "copy-on-write", src: `function (nt, opsList, errs)
		{
		ob = Object()
		for i in ..40
			ob.Add(C43Val(0, i))
		ob.k = C43Val(0, 0)
		mk = function (t, cnt, ob, errs)
			{
			return {
				try
					for i in ..cnt
						{
						c = ob.Copy()
						if t % 2 is 0
							{
							c.Add(C43Val(t, i))
							c[0] = C43Val(t, i)
							c.k = C43Val(t, i)
							}
						else
							{
							ob[i % 40] = C43Val(t, i)
							ob.k = C43Val(t, i)
							}
						for x in c
							C43Check(x, errs)
						if c.Size(list:) < 40
							errs.Add("FOREIGN copy lost members")
						}
				catch (e)
					errs.Add(Display(e))
				}
			}
		cnt = opsList[0].Size()
		wg = WaitGroup()
		for t in ..nt
			wg.Thread(mk(t, cnt, ob, errs))
		r = wg.Wait(150)
		if r isnt true
			errs.Add("HANG " $ r)
		return ob
		}`, check: func(c *caseCtx, res Value) {
		if ob, ok := res.(*SuObject); !ok || ob.ListSize() != 40 {
			c.violate("C43/lost-update/copy-on-write-original-changed-size", map[string]any{"result": fmt.Sprint(res)})
		}
	}},
}

func opsExcept(max int, except ...int) []int {
	var l []int
outer:
	for op := 0; op <= max; op++ {
		for _, e := range except {
			if e == op {
				continue outer
			}
		}
		l = append(l, op)
	}
	return l
}

// Scenarios dedicated to the operations with a known race, so that the general
// scenarios stay clean and any race reported there is a new one. They reuse the
// object-mix / record-mix bodies with a restricted operation table.
func init() {
	find := func(name string) *scenario {
		for _, sc := range scenarios {
			if sc.name == name {
				return sc
			}
		}
		panic(name)
	}
	om, rm := find("object-mix"), find("record-mix")
	scenarios = append(scenarios,
		&scenario{name: "known-unique", known: true, src: om.src, ops: []int{15, 15, 37, 37, 0, 3, 6, 8, 10, 19, 11, 36}},
		&scenario{name: "known-sort-with-block", known: true, src: om.src, ops: []int{14, 14, 0, 3, 8, 11, 17, 19, 36}},
		&scenario{name: "known-binarysearch-with-block", known: true, src: om.src, ops: []int{23, 23, 23, 0, 4, 6, 36}},
		// (only small integers are stored: a freshly built string read by the unlocked pack would add unrelated race pairs)
		&scenario{name: "known-record-pack", known: true, src: rm.src, ops: []int{10, 10, 0, 1}},
		&scenario{name: "known-closure-variable-assigned-after-sharing", known: true, src: `function (nt, opsList, errs)
		{
		// closures over a variable that the creating function (and the closures) keep
		// assigning new objects to after the closures were handed to other threads.
		// The objects are only touched with Set_default and a lookup of a missing member.
		cur = Object()
		put = {|v| cur = Object().Set_default(v) }
		get = { cur }
		mk = function (t, cnt, put, get, errs)
			{
			return {
				try
					for i in ..cnt
						{
						if i % 3 is 0
							put(C43Val(t, i))
						x = get()
						x.Set_default(C43Val(t, i))
						// (only the type is looked at: the bytes of a string that came
						// through the unsynchronized object would add unrelated race pairs)
						if not String?(x.nosuchmember)
							errs.Add("FOREIGN default value")
						}
				catch (e)
					errs.Add(Display(e))
				}
			}
		cnt = opsList[0].Size()
		wg = WaitGroup()
		for t in ..nt
			wg.Thread(mk(t, cnt, put, get, errs))
		for i in ..cnt
			{
			cur = Object()
			cur.Set_default(C43Val(99, i))
			if not String?(cur.nosuchmember)
				errs.Add("FOREIGN default value")
			}
		r = wg.Wait(150)
		if r isnt true
			errs.Add("HANG " $ r)
		return 0
		}`},
		&scenario{name: "known-closure-variable-string-concat", known: true, check: checkConcat, src: `function (nt, opsList, errs)
		{
		// the same defect with strings: a long concatenation result (SuConcat, shares its
		// buffer) stored in a closure variable by one thread is extended by another thread
		s = ""
		append = {|x| s $= x; if s.Size() > 3000 s = "" }
		snapshot = { s }
		samples = Object()
		mk = function (t, cnt, append, snapshot, samples, errs)
			{
			return {
				try
					for i in ..cnt
						{
						append(C43Val(t, i) $ ";")
						u = snapshot() $ "|" $ C43Val(t, i)
						if i % 8 is 0
							samples.Add(u)
						}
				catch (e)
					errs.Add(Display(e))
				}
			}
		cnt = opsList[0].Size()
		wg = WaitGroup()
		for t in ..nt
			wg.Thread(mk(t, cnt, append, snapshot, samples, errs))
		r = wg.Wait(150)
		if r isnt true
			errs.Add("HANG " $ r)
		return samples
		}`})
}

// ------------------------------------------------------------------ Go side

type caseCtx struct {
	rep  *vk.Report
	sc   *scenario
	idx  int
	nt   int
	nops int
	key  string
}

func (c *caseCtx) violate(class string, detail map[string]any) {
	detail["scenario"] = c.sc.name
	detail["threads"] = c.nt
	detail["ops_per_thread"] = c.nops
	c.rep.Violate(class, c.key, detail)
}

func checkAdders(c *caseCtx, res Value) {
	ob, ok := res.(*SuObject)
	if !ok {
		c.violate("C43/scenario-result", map[string]any{"result": fmt.Sprint(res)})
		return
	}
	want := c.nt * c.nops
	if ob.ListSize() != want || ob.NamedSize() != 0 {
		c.violate("C43/lost-update/Add", map[string]any{"list_size": ob.ListSize(), "named_size": ob.NamedSize(), "want": want})
		return
	}
	next := make([]int, c.nt)
	for i := 0; i < ob.ListSize(); i++ {
		v, ok := ob.ListGet(i).IfInt()
		t := v / 100000
		if !ok || t < 0 || t >= c.nt || v%100000 != next[t] {
			c.violate("C43/lost-update/Add", map[string]any{"index": i, "value": fmt.Sprint(ob.ListGet(i)), "what": "every thread's values must appear once and in its own order"})
			return
		}
		next[t]++
	}
	c.rep.Count("conserved_adds", want)
}

func checkQueue(c *caseCtx, res Value) {
	pair, ok := res.(*SuObject)
	if !ok || pair.ListSize() != 2 {
		c.violate("C43/scenario-result", map[string]any{"result": fmt.Sprint(res)})
		return
	}
	seen := map[int]int{}
	add := func(v Value) bool {
		i, ok := v.IfInt()
		if !ok {
			return false
		}
		seen[i]++
		return true
	}
	q := ToContainer(pair.ListGet(0))
	for i := 0; i < q.ListSize(); i++ {
		if !add(q.ListGet(i)) {
			c.violate("C43/foreign-value", map[string]any{"value": fmt.Sprint(q.ListGet(i))})
			return
		}
	}
	results := ToContainer(pair.ListGet(1))
	if results.ListSize()+results.NamedSize() != c.nt {
		c.violate("C43/lost-update/results", map[string]any{"results": results.ListSize() + results.NamedSize(), "want": c.nt})
		return
	}
	it := results.Iter2(true, true)
	for k, v := it(); k != nil; k, v = it() {
		got := ToContainer(v)
		for i := 0; i < got.ListSize(); i++ {
			if !add(got.ListGet(i)) {
				c.violate("C43/foreign-value", map[string]any{"value": fmt.Sprint(got.ListGet(i))})
				return
			}
		}
	}
	total := 0
	for t := 0; t < c.nt; t++ {
		for i := 0; i < c.nops; i++ {
			if n := seen[t*100000+i]; n != 1 {
				c.violate("C43/lost-update/queue-exactly-once", map[string]any{"value": t*100000 + i, "times_seen": n})
				return
			}
			total++
		}
	}
	if len(seen) != total {
		c.violate("C43/foreign-value", map[string]any{"distinct_values": len(seen), "want": total})
		return
	}
	c.rep.Count("queue_items_exactly_once", total)
}

var concatSample = regexp.MustCompile(`^((?:v[0-9]+:[0-9]+:[0-9]+;)*)\|(v[0-9]+:[0-9]+:[0-9]+)$`)
var concatToken = regexp.MustCompile(`v([0-9]+):([0-9]+):([0-9]+)`)

// checkConcat: every sampled string must be a sequence of complete, self-consistent
// tokens followed by | and one token
func checkConcat(c *caseCtx, res Value) {
	samples, ok := res.(*SuObject)
	if !ok {
		c.violate("C43/scenario-result", map[string]any{"result": fmt.Sprint(res)})
		return
	}
	for i := 0; i < samples.ListSize(); i++ {
		u := AsStr(samples.ListGet(i))
		good := concatSample.MatchString(u)
		if good {
			for _, m := range concatToken.FindAllStringSubmatch(u, -1) {
				var t, n, sum int
				fmt.Sscan(m[1], &t)
				fmt.Sscan(m[2], &n)
				fmt.Sscan(m[3], &sum)
				if t*31+n != sum {
					good = false
				}
			}
		}
		if !good {
			c.violate("C43/torn-read/"+c.sc.name, map[string]any{"string": vk.Trunc(u, 600)})
			return
		}
	}
	c.rep.Count("concat_samples_checked", samples.ListSize())
}

func checkCounters(c *caseCtx, res Value) {
	ob, ok := res.(*SuObject)
	if !ok || ob.ListSize() != 4 {
		c.violate("C43/scenario-result", map[string]any{"result": fmt.Sprint(res)})
		return
	}
	member, closure, cas, cnt := ToInt(ob.ListGet(0)), ToInt(ob.ListGet(1)), ToInt(ob.ListGet(2)), ToInt(ob.ListGet(3))
	want := c.nt * cnt
	if member != want {
		c.violate("C43/lost-update/member-increment", map[string]any{"got": member, "want": want})
	}
	if closure != want {
		c.violate("C43/lost-update/closure-variable-increment", map[string]any{"got": closure, "want": want})
	}
	if cas != cnt {
		c.violate("C43/lost-update/CompareAndSet-winners", map[string]any{"got": cas, "want": cnt})
	}
	c.rep.Count("conserved_increments", 2*want)
}

// errors a thread may legitimately see
var allowedErr = []*regexp.Regexp{
	regexp.MustCompile(`object modified during`),
	regexp.MustCompile(`can't modify object during sort`),
	regexp.MustCompile(`member not found`),
	regexp.MustCompile(`cannot use (Max|Min) on empty object`),
	regexp.MustCompile(`uninitialized member`),
	regexp.MustCompile(`method not found: `),              // e.g. .Add on a value another thread replaced by a number
	regexp.MustCompile(`does not support (get|put)`),      // same
	regexp.MustCompile(`can't convert`),                   // ++ on a member another thread set to a string/object
	regexp.MustCompile(`index out of range|string index`), // Suneido level range messages are not used; kept out below
}

var packOverflow = regexp.MustCompile(`^op([0-9]+) .*runtime error: (slice bounds out of range|index out of range)`)

func classifyErr(sc *scenario, s string) (allowed bool, class string) {
	packOp := "17" // C43ObOp
	if strings.Contains(sc.src, "C43RecOp") {
		packOp = "10"
	}
	if m := packOverflow.FindStringSubmatch(s); m != nil && m[1] == packOp {
		// Pack(object) while another thread makes the object bigger: core/pack.go Pack
		// computes the size, allocates, then packs (see the WARNING there)
		return false, "C43/pack-buffer-overflow-during-concurrent-modification"
	}
	if strings.Contains(s, "runtime error") || strings.Contains(s, "nil pointer") || strings.Contains(s, "index out of range") ||
		strings.Contains(s, "slice bounds") || strings.Contains(s, "concurrent map") || strings.Contains(s, "assert") {
		return false, "C43/go-runtime-error-in-thread"
	}
	if strings.Contains(s, "TORN") {
		return false, "C43/torn-read"
	}
	if strings.Contains(s, "FOREIGN") {
		return false, "C43/foreign-value"
	}
	if strings.Contains(s, "HANG") {
		return false, "C43/hang"
	}
	for _, re := range allowedErr[:8] {
		if re.MatchString(s) {
			return true, ""
		}
	}
	return false, "C43/unexpected-error-in-thread"
}

var digits = regexp.MustCompile(`[0-9]+`)

func runCase(rep *vk.Report, parent *Thread, idx int) {
	r := vk.RandFor(43, idx)
	sc := scenarios[idx%len(scenarios)]
	if only := os.Getenv("VERIF_C43_ONLY"); only != "" { // analysis aid: run a single scenario
		for _, x := range scenarios {
			if x.name == only {
				sc = x
			}
		}
	}
	nt := 3 + r.IntN(10)
	nops := 30 + r.IntN(130)
	if vk.Thorough() {
		nops *= 2
	}
	c := &caseCtx{rep: rep, sc: sc, idx: idx, nt: nt, nops: nops,
		key: fmt.Sprintf("seed=%d shard=%d/%d case=%d scenario=%s", vk.Seed(), vk.Shard(), vk.NShards(), idx, sc.name)}
	opsList := &SuObject{}
	var hparts []any
	hparts = append(hparts, sc.name, nt, nops)
	for t := 0; t < nt; t++ {
		ops := make([]Value, nops)
		for i := range ops {
			op := 0
			if len(sc.ops) > 0 {
				// a biased mix: each case favours a few operations so that they really collide
				if r.IntN(3) == 0 {
					op = sc.ops[r.IntN(len(sc.ops))]
				} else {
					op = sc.ops[(idx/len(scenarios)*7+r.IntN(6)*5+t%2)%len(sc.ops)]
				}
			}
			ops[i] = IntVal(op)
			hparts = append(hparts, op)
		}
		l := NewSuObject(ops)
		l.SetReadOnly()
		opsList.Add(l)
	}
	opsList.SetReadOnly()
	errs := &SuObject{}
	rep.Case("case %d scenario=%s threads=%d ops=%d", idx, sc.name, nt, nops)
	th := NewThread(parent)
	type outcome struct {
		res   Value
		p     any
		stack string
	}
	ch := make(chan outcome, 1)
	go func() {
		var o outcome
		o.p, o.stack = vk.Catch(func() { o.res = th.Call(sc.fn, IntVal(nt), opsList, errs) })
		ch <- o
	}()
	var o outcome
	select {
	case o = <-ch:
	case <-time.After(12 * time.Minute):
		buf := make([]byte, 1<<20)
		buf = buf[:runtime.Stack(buf, true)]
		c.violate("C43/hang", map[string]any{"goroutines": vk.Trunc(string(buf), 60000)})
		rep.Finish()
		panic("C43: scenario did not finish within 12 minutes: " + c.key)
	}
	rep.Eval(vk.Hash64(hparts...), true)
	rep.Count("thread_operations", nt*nops)
	rep.Count("threads_started", nt)
	rep.Seen("scenarios", sc.name)
	if o.p != nil {
		if _, ok := o.p.(runtime.Error); ok {
			c.violate("C43/go-runtime-error", map[string]any{"error": fmt.Sprint(o.p), "stack": vk.Trunc(o.stack, 4000)})
		} else {
			c.violate("C43/scenario-failed", map[string]any{"error": fmt.Sprint(o.p), "stack": vk.Trunc(o.stack, 3000)})
		}
		return
	}
	// the threads are finished (WaitGroup.Wait / done list): errs is ours again
	counts := map[string]int{}
	for i := 0; i < errs.ListSize(); i++ {
		s := AsStr(errs.ListGet(i))
		ok, class := classifyErr(sc, s)
		if !ok && sc.known {
			class += "/" + sc.name
		}
		if ok {
			counts[digits.ReplaceAllString(vk.Trunc(s, 60), "N")]++
			continue
		}
		c.violate(class, map[string]any{"error": vk.Trunc(s, 2000), "normalized": digits.ReplaceAllString(vk.Trunc(s, 200), "N")})
	}
	keys := make([]string, 0, len(counts))
	for k := range counts {
		keys = append(keys, k)
	}
	sort.Strings(keys)
	for _, k := range keys {
		rep.Count("allowed_errors", counts[k])
		rep.Seen("allowed_error_kinds", k)
	}
	if sc.check != nil {
		sc.check(c, o.res)
	}
	// the returned shared value must still be a well formed container
	if cont, ok := o.res.(interface {
		Iter2(bool, bool) func() (Value, Value)
	}); ok {
		if p, _ := vk.Catch(func() {
			it := cont.Iter2(true, true)
			for k, v := it(); k != nil; k, v = it() {
				_ = v.String()
			}
		}); p != nil {
			c.violate("C43/corrupt-container-after-run", map[string]any{"error": fmt.Sprint(p)})
		}
	}
}

func TestVerifC43(t *testing.T) {
	names := make([]string, len(scenarios))
	for i, s := range scenarios {
		names[i] = s.name
	}
	rep := vk.NewReport("C43",
		"a case is one run of one of the scenarios ("+strings.Join(names, ", ")+") with PRNG parameters: 3-12 interpreter threads, 30-200 operations per thread (thorough: twice that) "+
			"drawn from the scenario's operation table with a per-case bias so that a few operations collide heavily; every case is non-trivial (at least 3 threads work on the same shared value); "+
			"distinct by scenario, thread count and the per-thread operation lists (the schedule itself is not controlled)",
		"values are shared only the way the language does it: WaitGroup.Thread(block), Thread(fn, args), Suneido.member = value; every goroutine has its own core.NewThread",
		"the race detector only sees the interleavings that happened; race reports are violations of this property (driver: race_is_violation)")
	defer rep.Finish()
	for name, src := range globals {
		var v Value
		if p, _ := vk.Catch(func() { v = compile.NamedConstant("c43", name, src, nil) }); p != nil {
			panic(fmt.Sprint("harness: cannot compile ", name, ": ", p))
		}
		Global.TestDef(name, v)
	}
	// C43RowRecords(n): n records backed by stored rows that share one header, as the rows of one query do
	Global.TestDef("C43RowRecords", &SuBuiltin{Fn: func(th *Thread, args []Value) Value {
		n := ToInt(args[0])
		fields := []string{"a", "b", "c"}
		hdr := NewHeader([][]string{fields}, fields)
		ob := &SuObject{}
		for t := 0; t < n; t++ {
			var rb RecordBuilder
			rb.Add(IntVal(t))
			rb.Add(IntVal(0))
			rb.Add(SuStr("v" + strconv.Itoa(t)))
			ob.Add(SuRecordFromRow(Row{DbRec{Record: rb.Build()}}, hdr, "", nil))
		}
		return ob
	}, BuiltinParams: BuiltinParams{ParamSpec: ParamSpec{Nparams: 1, Flags: []Flag{0}, Names: []string{"n"}, Name: "C43RowRecords"}}})
	for _, sc := range scenarios {
		if p, _ := vk.Catch(func() { sc.fn = compile.Constant(sc.src) }); p != nil {
			panic(fmt.Sprint("harness: cannot compile scenario ", sc.name, ": ", p))
		}
	}
	parent := NewThread(nil)
	n := vk.N(240, 5000)
	// cases are dealt round-robin over the shards so that every shard runs every scenario
	for i := 0; i < n; i++ {
		runCase(rep, parent, i*vk.NShards()+vk.Shard())
	}
}

var _ = rand.IntN
