// C12 Composite index keys preserve value order and are unambiguous.
//
// Black-box monitor over db19/index/ixkey (Spec.Key, Spec.Compare, Encoder/CompKey, Encode, Decode, Decode1,
// HasPrefix, SplitPrefixSuffix, JoinPrefixSuffix, TruncFunc) and db19's rangeEnd (through the accessor
// overlay/db19/zz_verif_export_c12.go), judged by a field-level model: tuples of byte strings compared field by
// field, with the "all fields empty -> secondary fields" rule of unique indexes and ASCII lower-casing of packed
// strings for _lower! fields. A last stage drives the two real call sites (foreign key delete scans, which use
// rangeEnd, and the full database check, which uses TruncFunc) on small real databases.
package c12

import (
	"bytes"
	"fmt"
	"math/rand/v2"
	"sort"
	"strings"
	"testing"
	"time"

	"github.com/apmckinlay/gsuneido/core"
	"github.com/apmckinlay/gsuneido/db19"
	"github.com/apmckinlay/gsuneido/db19/index/ixkey"
	"github.com/apmckinlay/gsuneido/db19/meta/schema"
	"github.com/apmckinlay/gsuneido/db19/stor"
	vk "github.com/apmckinlay/gsuneido/util/verifkit"
)

const sep = "\x00\x00"
const maxKey = "\xff\xff\xff\xff\xff\xff\xff\xff"
const packString = 4 // tag byte of a packed string (checked against core.Pack at start)

// ---------------------------------------------------------------------------------------------------------------
// model

// vspec is the monitor's own description of an index key: nf index fields (some _lower!), nf2 secondary fields
// (unique indexes: used only when all index fields are empty), pos = record position of each logical field.
type vspec struct {
	nf    int
	lower []bool
	nf2   int
	pos   []int
	nrec  int
}

func mkspec(nf, nf2 int) *vspec {
	s := &vspec{nf: nf, nf2: nf2, lower: make([]bool, nf), nrec: nf + nf2}
	for i := 0; i < nf+nf2; i++ {
		s.pos = append(s.pos, i)
	}
	return s
}

func (s *vspec) String() string {
	return fmt.Sprintf("spec{nf=%d lower=%v nf2=%d pos=%v}", s.nf, s.lower, s.nf2, s.pos)
}

func (s *vspec) encodes() bool { return s.nf > 1 || s.nf2 > 0 }

// real builds the ixkey.Spec (a _lower! field f is written -f-2)
func (s *vspec) real() *ixkey.Spec {
	sp := &ixkey.Spec{Fields: []int{}}
	for i := 0; i < s.nf; i++ {
		f := s.pos[i]
		if s.lower[i] {
			f = -f - 2
		}
		sp.Fields = append(sp.Fields, f)
	}
	for i := 0; i < s.nf2; i++ {
		sp.Fields2 = append(sp.Fields2, s.pos[s.nf+i])
	}
	return sp
}

// rec builds the data record holding the tuple (raw values at the spec's positions, filler elsewhere)
func (s *vspec) rec(t []string) core.Record {
	vals := make([]string, s.nrec)
	for i := range vals {
		vals[i] = "\x04filler"
	}
	for i, v := range t {
		vals[s.pos[i]] = v
	}
	var b core.RecordBuilder
	for _, v := range vals {
		b.AddRaw(v)
	}
	return b.Build()
}

// refLower: a packed string is lower-cased (ASCII), anything else is unchanged
func refLower(raw string) string {
	if len(raw) == 0 || raw[0] != packString {
		return raw
	}
	b := []byte(raw)
	for i, c := range b {
		if 'A' <= c && c <= 'Z' {
			b[i] = c + ('a' - 'A')
		}
	}
	return string(b)
}

// eff returns the effective index field values of a tuple
func (s *vspec) eff(t []string) []string {
	e := make([]string, s.nf)
	for i := range e {
		if s.lower[i] {
			e[i] = refLower(t[i])
		} else {
			e[i] = t[i]
		}
	}
	return e
}

func allEmpty(fs []string) bool {
	for _, f := range fs {
		if f != "" {
			return false
		}
	}
	return true
}

func cmpFields(a, b []string) int {
	for i := range a {
		if c := bytes.Compare([]byte(a[i]), []byte(b[i])); c != 0 {
			return c
		}
	}
	return 0
}

// mcmp is the field-level order of two tuples under the spec
func (s *vspec) mcmp(a, b []string) int {
	ea, eb := s.eff(a), s.eff(b)
	if c := cmpFields(ea, eb); c != 0 {
		return c
	}
	if s.nf2 > 0 && allEmpty(ea) {
		return cmpFields(a[s.nf:], b[s.nf:])
	}
	return 0
}

func refEscape(f string) string {
	var sb strings.Builder
	for i := 0; i < len(f); i++ {
		sb.WriteByte(f[i])
		if f[i] == 0 {
			sb.WriteByte(1)
		}
	}
	return sb.String()
}

func trimEmpty(fs []string) []string {
	n := len(fs)
	for n > 0 && fs[n-1] == "" {
		n--
	}
	return fs[:n]
}

// refJoin is the documented format: escaped fields separated by 0,0 (no trimming here)
func refJoin(fs []string) string {
	var sb strings.Builder
	for i, f := range fs {
		if i > 0 {
			sb.WriteString(sep)
		}
		sb.WriteString(refEscape(f))
	}
	return sb.String()
}

// refComp is the documented composite key of fields: trailing empty fields trimmed
func refComp(fs []string) string { return refJoin(trimEmpty(fs)) }

// refKey is the documented key of a tuple under a spec
func (s *vspec) refKey(t []string) string {
	e := s.eff(t)
	if !s.encodes() {
		return e[0]
	}
	if allEmpty(e) {
		if s.nf2 == 0 {
			return ""
		}
		return strings.Repeat(sep, s.nf) + refJoin(t[s.nf:])
	}
	return refComp(e)
}

// wantDecode is what decoding the key must give back
func (s *vspec) wantDecode(t []string) []string {
	e := s.eff(t)
	if allEmpty(e) {
		if s.nf2 == 0 {
			return nil
		}
		return append(make([]string, s.nf), t[s.nf:]...)
	}
	return trimEmpty(e)
}

func sign(n int) int {
	switch {
	case n < 0:
		return -1
	case n > 0:
		return 1
	}
	return 0
}

func q(s string) string { return fmt.Sprintf("%q", s) }

func qt(t []string) string {
	var sb strings.Builder
	sb.WriteByte('(')
	for i, f := range t {
		if i > 0 {
			sb.WriteByte(',')
		}
		sb.WriteString(q(f))
	}
	sb.WriteByte(')')
	return sb.String()
}

func eqStrs(a, b []string) bool {
	if len(a) != len(b) {
		return false
	}
	for i := range a {
		if a[i] != b[i] {
			return false
		}
	}
	return true
}

// ---------------------------------------------------------------------------------------------------------------
// the checker for one spec and one set of tuples

type checker struct {
	rep *vk.Report
	r   *rand.Rand
}

type entry struct {
	t   []string
	rec core.Record
	key string
}

// build computes the real keys and sorts the tuples by the model order. ok=false if a key could not be built.
func (c *checker) build(s *vspec, tuples [][]string) (es []entry, ok bool) {
	sp := s.real()
	es = make([]entry, 0, len(tuples))
	for _, t := range tuples {
		e := entry{t: t, rec: s.rec(t)}
		p, _ := vk.Catch(func() { e.key = sp.Key(e.rec) })
		if p != nil {
			c.rep.Violate("C12/panic/Key", s.String()+" "+qt(t), fmt.Sprint(p))
			return nil, false
		}
		es = append(es, e)
	}
	sort.SliceStable(es, func(i, j int) bool { return s.mcmp(es[i].t, es[j].t) < 0 })
	return es, true
}

func nontrivialTuple(s *vspec, t []string) bool {
	if s.nf+s.nf2 >= 2 {
		return true
	}
	return strings.IndexByte(t[0], 0) >= 0
}

// checkSet runs every per-tuple and per-pair oracle; returns false if the order/injectivity oracle failed
// (range oracles that rely on binary search are then skipped).
func (c *checker) checkSet(s *vspec, es []entry, npairs int) bool {
	rep := c.rep
	sp := s.real()
	orderOK := true
	for i := range es {
		e := &es[i]
		rep.Eval(vk.Hash64(s.String(), strings.Join(e.t, "\xfe\xfd")), nontrivialTuple(s, e.t))
		ident := s.String() + " " + qt(e.t)
		eff := s.eff(e.t)
		// documented format
		if want := s.refKey(e.t); e.key != want {
			cl := "C12/format"
			if s.nf2 > 0 && allEmpty(eff) {
				cl = "C12/format-fields2"
			}
			rep.Violate(cl, ident, map[string]any{"key": q(e.key), "documented": q(want)})
		}
		if i+1 < len(es) {
			m := s.mcmp(e.t, es[i+1].t) // <= 0, sorted
			k := sign(strings.Compare(e.key, es[i+1].key))
			if m != k {
				orderOK = false
				cl := "C12/order-not-preserved"
				if m < 0 && k == 0 {
					cl = "C12/distinct-tuples-same-key"
				} else if m == 0 {
					cl = "C12/equal-tuples-different-keys"
				}
				rep.Violate(cl, s.String()+" "+qt(e.t)+" vs "+qt(es[i+1].t),
					map[string]any{"key1": q(e.key), "key2": q(es[i+1].key), "model_cmp": m, "key_cmp": k})
			}
			c.compare(s, sp, e, &es[i+1])
		}
		if !s.encodes() {
			continue
		}
		rep.Count("encoded_keys", 1)
		// decoding
		want := s.wantDecode(e.t)
		var got []string
		if p, _ := vk.Catch(func() { got = ixkey.Decode(e.key) }); p != nil {
			rep.Violate("C12/panic/Decode", ident, fmt.Sprint(p))
		} else if !eqStrs(got, want) {
			rep.Violate("C12/decode-wrong", ident, map[string]any{"key": q(e.key), "got": qt(got), "want": qt(want)})
		}
		for i := -1; i <= len(want)+1; i++ {
			w := ""
			if 0 <= i && i < len(want) {
				w = want[i]
			}
			var g string
			if p, _ := vk.Catch(func() { g = ixkey.Decode1(e.key, i) }); p != nil {
				rep.Violate("C12/panic/Decode1", ident, fmt.Sprint(p))
			} else if g != w {
				rep.Violate("C12/decode1-wrong", fmt.Sprintf("%s i=%d", ident, i), map[string]any{"key": q(e.key), "got": q(g), "want": q(w)})
			}
		}
		if s.nf2 > 0 && allEmpty(eff) {
			rep.Count("fields2_keys", 1)
			continue
		}
		// the incremental encoder must build the same key
		var ck string
		if p, _ := vk.Catch(func() { ck = ixkey.CompKey(eff...) }); p != nil {
			rep.Violate("C12/panic/CompKey", ident, fmt.Sprint(p))
		} else if ck != e.key {
			rep.Violate("C12/encoder-key-mismatch", ident, map[string]any{"Key": q(e.key), "CompKey": q(ck)})
		}
		c.helpers(s, e, eff, es, i)
	}
	// random pairs for Compare
	if len(es) > 1 {
		for k := 0; k < npairs; k++ {
			i, j := c.r.IntN(len(es)), c.r.IntN(len(es))
			c.compare(s, sp, &es[i], &es[j])
		}
	}
	return orderOK
}

func (c *checker) compare(s *vspec, sp *ixkey.Spec, a, b *entry) {
	want := s.mcmp(a.t, b.t)
	c.rep.Count("compare_pairs", 1)
	var g1, g2 int
	if p, _ := vk.Catch(func() { g1, g2 = sp.Compare(a.rec, b.rec), sp.Compare(b.rec, a.rec) }); p != nil {
		c.rep.Violate("C12/panic/Compare", s.String()+" "+qt(a.t)+" vs "+qt(b.t), fmt.Sprint(p))
		return
	}
	if sign(g1) != want || sign(g2) != -want {
		c.rep.Violate("C12/compare-disagrees", s.String()+" "+qt(a.t)+" vs "+qt(b.t),
			map[string]any{"Compare(a,b)": g1, "Compare(b,a)": g2, "fields_cmp": want, "key_cmp": strings.Compare(a.key, b.key)})
	}
}

// helpers: HasPrefix, SplitPrefixSuffix, JoinPrefixSuffix on one encoded key
func (c *checker) helpers(s *vspec, e *entry, eff []string, es []entry, idx int) {
	rep := c.rep
	ident := s.String() + " " + qt(e.t)
	tt := trimEmpty(eff)
	for n := 1; n <= s.nf; n++ {
		wantP := refComp(eff[:n])
		wantS := ""
		if len(tt) > n {
			wantS = refJoin(tt[n:])
		}
		var gp, gs string
		if p, _ := vk.Catch(func() { gp, gs = ixkey.SplitPrefixSuffix(e.key, n) }); p != nil {
			rep.Violate("C12/panic/SplitPrefixSuffix", fmt.Sprintf("%s n=%d", ident, n), fmt.Sprint(p))
			continue
		}
		rep.Count("splits", 1)
		if gp != wantP || gs != wantS {
			rep.Violate("C12/split-wrong", fmt.Sprintf("%s n=%d", ident, n),
				map[string]any{"key": q(e.key), "prefix": q(gp), "suffix": q(gs), "want_prefix": q(wantP), "want_suffix": q(wantS)})
			continue
		}
		// join is the inverse when there is a suffix; in general split(join(p,n,s)) == (p,s)
		sufs := []string{gs, "", maxKey}
		if len(es) > 1 {
			o := es[c.r.IntN(len(es))]
			sufs = append(sufs, refJoin(trimEmpty(s.eff(o.t))))
		}
		for _, suf := range sufs {
			var j string
			if p, _ := vk.Catch(func() { j = ixkey.JoinPrefixSuffix(gp, n, suf) }); p != nil {
				rep.Violate("C12/panic/JoinPrefixSuffix", fmt.Sprintf("%s n=%d suffix=%s", ident, n, q(suf)), fmt.Sprint(p))
				continue
			}
			// field-level definition: exactly n fields (padded with empty ones) then the suffix
			padded := append(append([]string{}, trimEmpty(eff[:n])...), make([]string, n-len(trimEmpty(eff[:n])))...)
			wantJ := refJoin(padded) + sep + suf
			if j != wantJ {
				rep.Violate("C12/join-wrong", fmt.Sprintf("%s n=%d suffix=%s", ident, n, q(suf)), map[string]any{"got": q(j), "want": q(wantJ)})
				continue
			}
			if suf == gs && len(tt) > n && j != e.key {
				rep.Violate("C12/join-not-inverse-of-split", fmt.Sprintf("%s n=%d", ident, n), map[string]any{"key": q(e.key), "joined": q(j)})
			}
			var p2, s2 string
			if p, _ := vk.Catch(func() { p2, s2 = ixkey.SplitPrefixSuffix(j, n) }); p != nil {
				rep.Violate("C12/panic/SplitPrefixSuffix", fmt.Sprintf("joined %s n=%d", q(j), n), fmt.Sprint(p))
			} else if p2 != gp || s2 != suf {
				rep.Violate("C12/split-of-join-wrong", fmt.Sprintf("%s n=%d suffix=%s", ident, n, q(suf)),
					map[string]any{"joined": q(j), "prefix": q(p2), "suffix": q(s2)})
			}
		}
	}
	// HasPrefix against prefixes of this tuple and of its neighbours in model order (near misses)
	for d := -2; d <= 2; d++ {
		j := idx + d
		if j < 0 || j >= len(es) {
			continue
		}
		oe := s.eff(es[j].t)
		for n := 1; n <= s.nf; n++ {
			qq := trimEmpty(oe[:n])
			if len(qq) == 0 {
				continue // an all-empty prefix has no field-level meaning ("" = zero fields or one empty field)
			}
			want := true
			for i := range qq {
				if eff[i] != qq[i] {
					want = false
				}
			}
			pk := refComp(qq)
			got := ixkey.HasPrefix(e.key, pk)
			rep.Count("hasprefix", 1)
			if want {
				rep.Count("hasprefix_true", 1)
			}
			if got != want {
				rep.Violate("C12/hasprefix-wrong", ident+" prefix "+qt(qq), map[string]any{"key": q(e.key), "prefix_key": q(pk), "got": got, "want": want})
			}
		}
	}
}

// prefixCmp compares the first n effective fields of t with pre
func (s *vspec) prefixCmp(t []string, pre []string) int {
	return cmpFields(s.eff(t)[:len(pre)], pre)
}

// rangeCheck: the keys k with org <= k < end must be exactly the tuples whose first n fields equal pre.
// es is sorted by the model and its keys are strictly increasing w.r.t. the model (checked before).
func (c *checker) rangeCheck(cl string, s *vspec, es []entry, pre []string, org, end string, extra string) {
	lo := sort.Search(len(es), func(i int) bool { return es[i].key >= org })
	hi := sort.Search(len(es), func(i int) bool { return es[i].key >= end })
	wlo := sort.Search(len(es), func(i int) bool { return s.prefixCmp(es[i].t, pre) >= 0 })
	whi := sort.Search(len(es), func(i int) bool { return s.prefixCmp(es[i].t, pre) > 0 })
	c.rep.Count("range_checks", 1)
	if whi > wlo {
		c.rep.Count("range_checks_nonempty", 1)
	}
	if hi < lo {
		hi = lo
	}
	if lo == wlo && hi == whi {
		return
	}
	// name one tuple that is wrongly selected or wrongly missed
	var what string
	var bad []string
	var badkey string
	switch {
	case lo < wlo:
		what, bad, badkey = "selected-but-fields-differ", es[lo].t, es[lo].key
	case hi > whi:
		what, bad, badkey = "selected-but-fields-differ", es[hi-1].t, es[hi-1].key
	case lo > wlo:
		what, bad, badkey = "matching-tuple-not-selected", es[wlo].t, es[wlo].key
	default:
		what, bad, badkey = "matching-tuple-not-selected", es[whi-1].t, es[whi-1].key
	}
	c.rep.Violate(cl+"/"+what, fmt.Sprintf("%s n=%d prefix=%s tuple=%s%s", s.String(), len(pre), qt(pre), qt(bad), extra),
		map[string]any{"org": q(org), "end": q(end), "tuple_key": q(badkey), "selected": [2]int{lo, hi}, "matching": [2]int{wlo, whi}})
}

// prefixesOf returns the distinct n-field prefixes present in es plus near misses
func (c *checker) prefixesOf(s *vspec, es []entry, n int, limit int) [][]string {
	seen := map[string]bool{}
	var out [][]string
	add := func(p []string) {
		k := strings.Join(p, "\xfe\xfd")
		if !seen[k] {
			seen[k] = true
			out = append(out, p)
		}
	}
	step := 1
	if limit > 0 && len(es) > limit {
		step = len(es) / limit
	}
	for i := c.r.IntN(step); i < len(es); i += step {
		p := append([]string{}, s.eff(es[i].t)[:n]...)
		add(p)
		// near misses: last field extended by a zero byte / by 0,0 / by 0,1 / truncated
		for _, sfx := range []string{"\x00", "\x00\x00", "\x00\x01", "\x01"} {
			m := append([]string{}, p...)
			m[n-1] += sfx
			add(m)
		}
		if l := len(p[n-1]); l > 0 {
			m := append([]string{}, p...)
			m[n-1] = m[n-1][:l-1]
			add(m)
		}
	}
	return out
}

// rangeEnds checks rangeEnd on encoded keys, and the call-site convention of fkeyDeleteExists/cascadeRange
func (c *checker) rangeEnds(s *vspec, es []entry, limit int) {
	for n := 1; n <= s.nf; n++ {
		tEncodes := n > 1 // the target of the foreign key is a key on n columns (no Fields2)
		for _, pre := range c.prefixesOf(s, es, n, limit) {
			if s.encodes() {
				// 1. pure: an encoded prefix key
				org := refComp(pre)
				var end string
				if p, _ := vk.Catch(func() { end = db19.VerifC12RangeEnd(org, n) }); p != nil {
					c.rep.Violate("C12/panic/rangeEnd", fmt.Sprintf("key=%s n=%d", q(org), n), fmt.Sprint(p))
					continue
				}
				c.rangeCheck("C12/rangeend", s, es, pre, org, end, "")
			}
			// 2. as the call sites do it: key of the target index, encoded if (only) the source encodes
			var key string
			if tEncodes {
				key = refComp(pre)
			} else {
				key = pre[0]
			}
			if key == "" {
				continue // call sites return early
			}
			if !tEncodes && s.encodes() {
				key = ixkey.Encode(key)
				if key != refEscape(pre[0]) {
					c.rep.Violate("C12/encode-wrong", q(pre[0]), map[string]any{"got": q(key), "want": q(refEscape(pre[0]))})
					continue
				}
			}
			if !s.encodes() {
				// single-field key -> single-field key: the call sites (fkeyRangeEnd) do not use rangeEnd for an
				// unencoded source index (exact match only); that path is observed end to end by the db-level
				// part of this check (class C12/db/...), not emulated here
				c.rep.Count("rangeend_raw_single_field_left_to_db_level", 1)
				continue
			}
			var end string
			if p, _ := vk.Catch(func() { end = db19.VerifC12RangeEnd(key, n) }); p != nil {
				c.rep.Violate("C12/panic/rangeEnd", fmt.Sprintf("key=%s n=%d", q(key), n), fmt.Sprint(p))
				continue
			}
			c.rangeCheck("C12/rangeend-callsite", s, es, pre, key, end, "")
		}
	}
}

// truncs checks TruncFunc(spec1, spec2) for spec2 = key on the first n2 fields
func (c *checker) truncs(s *vspec, es []entry) {
	sp := s.real()
	for n2 := 1; n2 <= s.nf; n2++ {
		sp2 := ixkey.Spec{Fields: sp.Fields[:n2]}
		var fn func(string) string
		if p, _ := vk.Catch(func() { fn = ixkey.TruncFunc(*sp, sp2) }); p != nil {
			c.rep.Violate("C12/panic/TruncFunc", fmt.Sprintf("%s n2=%d", s.String(), n2), fmt.Sprint(p))
			continue
		}
		for i := range es {
			e := &es[i]
			eff := s.eff(e.t)
			var want string
			if n2 == 1 {
				want = eff[0]
			} else {
				want = refComp(eff[:n2])
			}
			var got string
			ident := fmt.Sprintf("%s n2=%d %s", s.String(), n2, qt(e.t))
			if p, _ := vk.Catch(func() { got = fn(e.key) }); p != nil {
				c.rep.Violate("C12/panic/TruncFunc", ident, fmt.Sprint(p))
				continue
			}
			c.rep.Count("truncs", 1)
			if got == want {
				continue
			}
			cl := "C12/truncfunc/wrong"
			gt := got
			for strings.HasSuffix(gt, sep) {
				gt = gt[:len(gt)-2]
			}
			switch {
			case s.nf2 > 0 && allEmpty(eff) && n2 == s.nf:
				cl = "C12/truncfunc/fields2-all-empty-same-length"
			case n2 > 1 && n2 < s.nf && gt == want:
				cl = "C12/truncfunc/fewer-fields-trailing-empty-not-trimmed"
			}
			c.rep.Violate(cl, ident, map[string]any{"key": q(e.key), "got": q(got), "want": q(want)})
		}
	}
}

func (c *checker) all(s *vspec, tuples [][]string, npairs, limit int) {
	c.rep.Case("%s %d tuples", s.String(), len(tuples))
	es, ok := c.build(s, tuples)
	if !ok {
		return
	}
	if c.checkSet(s, es, npairs) {
		c.rangeEnds(s, es, limit)
	}
	c.truncs(s, es)
}

// ---------------------------------------------------------------------------------------------------------------
// universes

func words(alpha string, maxlen int) []string {
	out := []string{""}
	level := []string{""}
	for l := 1; l <= maxlen; l++ {
		var next []string
		for _, w := range level {
			for i := 0; i < len(alpha); i++ {
				next = append(next, w+alpha[i:i+1])
			}
		}
		out = append(out, next...)
		level = next
	}
	return out
}

// product returns all tuples over the per-field value lists
func product(vals ...[]string) [][]string {
	out := [][]string{{}}
	for _, vs := range vals {
		var next [][]string
		for _, t := range out {
			for _, v := range vs {
				next = append(next, append(append([]string{}, t...), v))
			}
		}
		out = next
	}
	return out
}

type universe struct {
	name   string
	s      *vspec
	tuples func() [][]string
}

func universes() []universe {
	w2 := words("\x00\x01\x02\xff", 2) // 21 values
	w3 := words("\x00\x01\x02\xff", 3) // 85 values
	w1 := words("\x00\x01\xff", 1)     // 4 values
	f2 := []string{"", "\x00", "\x01", "x", "\x00\x00"}
	// packed strings for _lower!
	var lw []string
	for _, w := range words("\x00AaB", 2) {
		if w == "" {
			lw = append(lw, "")
		} else {
			lw = append(lw, "\x04"+w)
		}
	}
	lw = append(lw, "\x03A", "\x04", "\x05a")
	rep := func(v []string, n int) [][]string {
		var o [][]string
		for i := 0; i < n; i++ {
			o = append(o, v)
		}
		return o
	}
	var us []universe
	for nf := 1; nf <= 3; nf++ {
		nf := nf
		us = append(us, universe{fmt.Sprintf("len2-nf%d", nf), mkspec(nf, 0), func() [][]string { return product(rep(w2, nf)...) }})
		// with the secondary rule: every tuple gets the secondary values "x" and "y"; the all-empty tuple gets every secondary value
		us = append(us, universe{fmt.Sprintf("len2-nf%d-fields2", nf), mkspec(nf, 1), func() [][]string {
			ts := product(append(rep(w2, nf), []string{"x", "y"})...)
			for _, v := range w3 {
				ts = append(ts, append(make([]string, nf), v))
			}
			return ts
		}})
	}
	us = append(us, universe{"len3-nf1", mkspec(1, 0), func() [][]string { return product(w3) }})
	us = append(us, universe{"len3-nf2", mkspec(2, 0), func() [][]string { return product(w3, w3) }})
	us = append(us, universe{"len1-nf4", mkspec(4, 0), func() [][]string { return product(rep(w1, 4)...) }})
	us = append(us, universe{"len1-nf5", mkspec(5, 0), func() [][]string { return product(rep(w1, 5)...) }})
	us = append(us, universe{"len2-nf2-fields2x2", mkspec(2, 2), func() [][]string {
		ts := product(w2, w2, []string{"x"}, []string{"y"})
		for _, t := range product(f2, f2) {
			ts = append(ts, append([]string{"", ""}, t...))
		}
		return ts
	}})
	for _, fl := range [][]bool{{true, false}, {false, true}, {true, true}} {
		s := mkspec(2, 0)
		s.lower = fl
		us = append(us, universe{fmt.Sprintf("lower%v", fl), s, func() [][]string { return product(lw, lw) }})
	}
	{
		s := mkspec(1, 0)
		s.lower = []bool{true}
		us = append(us, universe{"lower-nf1", s, func() [][]string { return product(lw) }})
		s2 := mkspec(1, 1)
		s2.lower = []bool{true}
		us = append(us, universe{"lower-nf1-fields2", s2, func() [][]string { return product(lw, f2) }})
	}
	// permuted record positions (Fields is not the identity)
	{
		s := mkspec(3, 1)
		s.pos = []int{4, 0, 2, 1}
		s.nrec = 6
		us = append(us, universe{"permuted-nf3-fields2", s, func() [][]string { return product(w1, w2, w1, f2) }})
	}
	return us
}

// ---------------------------------------------------------------------------------------------------------------
// random part

var hostile = []byte{0, 0, 0, 1, 2, 4, 0x7f, 0x80, 0xff, 0xff, 'A', 'a', 'Z', 'z'}

func genField(r *rand.Rand, packed bool) string {
	if r.IntN(4) == 0 {
		return ""
	}
	n := 1 + r.IntN(8)
	if r.IntN(3) == 0 {
		n = 1 + r.IntN(2)
	}
	b := make([]byte, n)
	for i := range b {
		b[i] = hostile[r.IntN(len(hostile))]
	}
	if packed {
		b[0] = packString
	}
	if bytes.HasPrefix(b, []byte(maxKey)) {
		b[0] = 0x7f // values are assumed to sort below ixkey.Max (packed values start with a tag byte < 8)
	}
	return string(b)
}

func mutate(r *rand.Rand, f string) string {
	switch r.IntN(7) {
	case 0:
		return f + "\x00"
	case 1:
		return f + "\x00\x00"
	case 2:
		return f + "\x00\x01"
	case 3:
		return f + "\x01"
	case 4:
		if len(f) > 0 {
			return f[:len(f)-1]
		}
	case 5:
		b := []byte(f)
		for i, c := range b {
			if 'a' <= c && c <= 'z' {
				b[i] = c - 32
			} else if 'A' <= c && c <= 'Z' {
				b[i] = c + 32
			}
		}
		return string(b)
	}
	return ""
}

func (c *checker) randomBatch(bi int) int {
	r := c.r
	nf := 1 + r.IntN(5)
	nf2 := 0
	if r.IntN(3) == 0 {
		nf2 = 1 + r.IntN(2)
	}
	s := mkspec(nf, nf2)
	for i := range s.lower {
		s.lower[i] = r.IntN(4) == 0
	}
	// shuffled record positions with gaps
	s.nrec = nf + nf2 + r.IntN(3)
	perm := r.Perm(s.nrec)
	s.pos = perm[:nf+nf2]
	// a small pool per field so that prefixes coincide
	pools := make([][]string, nf+nf2)
	for i := range pools {
		packed := i < nf && (s.lower[i] || r.IntN(2) == 0)
		np := 2 + r.IntN(5)
		for j := 0; j < np; j++ {
			var v string
			if j > 0 && r.IntN(2) == 0 {
				v = mutate(r, pools[i][r.IntN(j)])
			} else {
				v = genField(r, packed)
			}
			if strings.HasPrefix(v, maxKey) {
				v = ""
			}
			pools[i] = append(pools[i], v)
		}
		if r.IntN(2) == 0 {
			pools[i] = append(pools[i], "")
		}
	}
	nt := 64 + r.IntN(192)
	tuples := make([][]string, nt)
	for k := range tuples {
		t := make([]string, nf+nf2)
		for i := range t {
			t[i] = pools[i][r.IntN(len(pools[i]))]
		}
		if r.IntN(16) == 0 {
			for i := 0; i < nf; i++ {
				t[i] = ""
			}
		}
		tuples[k] = t
	}
	if c.rep.WantSample() && bi < 2 {
		es, ok := c.build(s, tuples[:3])
		if ok {
			var smp []map[string]string
			for _, e := range es {
				smp = append(smp, map[string]string{"tuple": qt(e.t), "key": q(e.key)})
			}
			c.rep.Sample(map[string]any{"spec": s.String(), "examples": smp})
		}
	}
	c.all(s, tuples, 2*nt, 0)
	c.rep.Count("random_batches", 1)
	return nt
}

// ---------------------------------------------------------------------------------------------------------------
// real call sites on small databases: foreign key delete scans (rangeEnd) and the full check (TruncFunc)

type dbKind struct {
	name    string
	hdrKey  []string // columns of hdr's key
	linCols []string
	linIdx  []schema.Index
	nfk     int // number of foreign key columns
	unique  bool
}

var dbKinds = []dbKind{
	{"key(k) in hdr(x)", []string{"x"}, []string{"k", "d"},
		[]schema.Index{{Mode: 'k', Columns: []string{"k"}, Fk: schema.Fkey{Table: "hdr", Columns: []string{"x"}}}}, 1, true},
	{"index(a) in hdr(x)", []string{"x"}, []string{"a", "k"},
		[]schema.Index{{Mode: 'k', Columns: []string{"k"}}, {Mode: 'i', Columns: []string{"a"}, Fk: schema.Fkey{Table: "hdr", Columns: []string{"x"}}}}, 1, false},
	{"index unique(a) in hdr(x)", []string{"x"}, []string{"a", "k"},
		[]schema.Index{{Mode: 'k', Columns: []string{"k"}}, {Mode: 'u', Columns: []string{"a"}, Fk: schema.Fkey{Table: "hdr", Columns: []string{"x"}}}}, 1, true},
	{"index(a,b) in hdr(x,y)", []string{"x", "y"}, []string{"a", "b", "k"},
		[]schema.Index{{Mode: 'k', Columns: []string{"k"}}, {Mode: 'i', Columns: []string{"a", "b"}, Fk: schema.Fkey{Table: "hdr", Columns: []string{"x", "y"}}}}, 2, false},
	{"index unique(a,b) in hdr(x,y)", []string{"x", "y"}, []string{"a", "b", "k"},
		[]schema.Index{{Mode: 'k', Columns: []string{"k"}}, {Mode: 'u', Columns: []string{"a", "b"}, Fk: schema.Fkey{Table: "hdr", Columns: []string{"x", "y"}}}}, 2, true},
	{"key(a,b) in hdr(x,y)", []string{"x", "y"}, []string{"a", "b", "d"},
		[]schema.Index{{Mode: 'k', Columns: []string{"a", "b"}, Fk: schema.Fkey{Table: "hdr", Columns: []string{"x", "y"}}}}, 2, true},
}

func init() {
	// injected by dbms in the real program; the db19 tests do the same
	db19.MakeSuTran = func(*db19.UpdateTran) *core.SuTran { return core.NewSuTran(nil, true) }
}

var dbPool = []string{"", "a", "a\x00", "a\x00\x00", "a\x00\x00b", "a\x00\x01", "\x00", "\x00\x00", "b", "\x01", "a\x01"}

func strRec(vals ...string) core.Record {
	var b core.RecordBuilder
	for _, v := range vals {
		b.Add(core.SuStr(v))
	}
	return b.Build()
}

func (c *checker) dbCase(ci int) {
	r := vk.RandFor(12, ci)
	kind := dbKinds[r.IntN(len(dbKinds))]
	nfk := kind.nfk
	// hdr tuples (distinct, any values incl. empty fields; the all-empty tuple is a legal key value too)
	nh := 2 + r.IntN(4)
	var hdr [][]string
	seen := map[string]bool{}
	base := dbPool[1+r.IntN(len(dbPool)-1)]
	for len(hdr) < nh {
		t := make([]string, nfk)
		for i := range t {
			switch r.IntN(3) {
			case 0:
				t[i] = base
			case 1:
				t[i] = base + []string{"\x00", "\x00\x00", "\x00\x01", "\x01", ""}[r.IntN(5)]
			default:
				t[i] = dbPool[r.IntN(len(dbPool))]
			}
		}
		k := strings.Join(t, "\xfe\xfd")
		if !seen[k] {
			seen[k] = true
			hdr = append(hdr, t)
		}
	}
	// lin rows reference hdr tuples (or are all-empty = no reference)
	nl := 1 + r.IntN(4)
	var lin [][]string
	used := map[string]bool{}
	for i := 0; i < nl; i++ {
		var t []string
		if r.IntN(5) == 0 {
			t = make([]string, nfk)
		} else {
			t = hdr[r.IntN(len(hdr))]
		}
		k := strings.Join(t, "\xfe\xfd")
		if kind.unique && used[k] && !allEmpty(t) {
			continue
		}
		if kind.unique && used[k] && kind.linIdx[0].Fk.Table != "" {
			continue // the foreign key index is the table's key: no duplicates at all
		}
		used[k] = true
		lin = append(lin, t)
	}
	ident := fmt.Sprintf("db case %d [%s] hdr=%v lin=%v", ci, kind.name, qts(hdr), qts(lin))
	c.rep.Case("%s", ident)
	nontriv := false
	for _, t := range append(append([][]string{}, hdr...), lin...) {
		for _, f := range t {
			if f == "" || strings.IndexByte(f, 0) >= 0 {
				nontriv = true
			}
		}
	}
	c.rep.Eval(vk.Hash64("db", kind.name, qts(hdr), qts(lin)), nontriv)
	c.rep.Count("db_cases", 1)

	db := db19.CreateDb(stor.HeapStor(64 * 1024))
	db19.StartConcur(db, 50*time.Millisecond)
	defer db.Close()
	hdrCols := append(append([]string{}, kind.hdrKey...), "z")
	db.Create(&schema.Schema{Table: "hdr", Columns: hdrCols, Indexes: []schema.Index{{Mode: 'k', Columns: kind.hdrKey}}})
	linIdx := make([]schema.Index, len(kind.linIdx))
	copy(linIdx, kind.linIdx)
	db.Create(&schema.Schema{Table: "lin", Columns: kind.linCols, Indexes: linIdx})
	try := func(fn func(t *db19.UpdateTran)) (res string) {
		ut := db.NewUpdateTran()
		p, stk := vk.Catch(func() { fn(ut); ut.Commit() })
		if p != nil {
			ut.Abort()
			if _, ok := p.(error); ok { // Go runtime error: keep the stack
				return fmt.Sprint(p) + "\n" + stk
			}
			return fmt.Sprint(p)
		}
		return ""
	}
	for i, t := range hdr {
		if e := try(func(ut *db19.UpdateTran) {
			ut.Output(nil, "hdr", strRec(append(append([]string{}, t...), fmt.Sprint("h", i))...))
		}); e != "" {
			c.rep.Violate("C12/db/output-hdr-failed", ident, e)
			return
		}
	}
	for i, t := range lin {
		if e := try(func(ut *db19.UpdateTran) {
			ut.Output(nil, "lin", strRec(append(append([]string{}, t...), fmt.Sprint("l", i))...))
		}); e != "" {
			cl := "C12/db/output-lin-failed"
			if strings.Contains(e, "blocked by foreign key") {
				cl = "C12/db/output-blocked-although-target-exists"
			}
			c.rep.Violate(cl, ident+" row "+qt(t), e)
			return
		}
	}
	if err := db.Check(true); err != nil {
		cl := "C12/db/full-check-fails-on-valid-data"
		if strings.Contains(err.Error(), "foreign key not found") {
			cl = "C12/db/full-check-foreign-key-not-found-on-valid-data"
			c.rep.Count("db_full_check_false_fkey", 1)
		}
		c.rep.Violate(cl, ident, err.Error())
		return // the database is now marked corrupt
	}
	c.rep.Count("db_full_checks_ok", 1)
	// delete every hdr row: blocked exactly if some lin row references that tuple
	for _, t := range hdr {
		want := false
		for _, l := range lin {
			if eqStrs(l, t) && !allEmpty(l) {
				want = true
			}
		}
		var key string
		if nfk == 1 {
			key = core.Pack(core.SuStr(t[0]))
		} else {
			pk := make([]string, nfk)
			for i, f := range t {
				pk[i] = core.Pack(core.SuStr(f))
			}
			key = refComp(pk)
		}
		rt := db.NewReadTran()
		dr := rt.Lookup("hdr", 0, key)
		if dr == nil {
			c.rep.Violate("C12/db/lookup-misses-stored-key", ident+" tuple "+qt(t), q(key))
			continue
		}
		e := try(func(ut *db19.UpdateTran) { ut.Delete(nil, "hdr", dr.Off) })
		blocked := strings.Contains(e, "blocked by foreign key")
		c.rep.Count("db_deletes", 1)
		if want {
			c.rep.Count("db_deletes_expected_blocked", 1)
		}
		switch {
		case e != "" && !blocked:
			c.rep.Violate("C12/db/delete-failed", ident+" tuple "+qt(t), e)
		case blocked && !want:
			c.rep.Violate("C12/db/delete-blocked-without-referencing-row", ident+" tuple "+qt(t), e)
		case !blocked && want:
			c.rep.Violate("C12/db/delete-allowed-despite-referencing-row", ident+" tuple "+qt(t), "")
		}
	}
}

func qts(ts [][]string) string {
	var sb strings.Builder
	for i, t := range ts {
		if i > 0 {
			sb.WriteByte(' ')
		}
		sb.WriteString(qt(t))
	}
	return sb.String()
}

// ---------------------------------------------------------------------------------------------------------------

func TestVerifC12(t *testing.T) {
	rep := vk.NewReport("C12",
		"(1) exhaustive universes: every tuple of 1-3 fields over words of length <=2 of the alphabet {00,01,02,ff} (also length <=3 with 1-2 fields, "+
			"length <=1 with 4-5 fields), each with and without secondary fields (Fields2), plus packed-string universes for _lower!; "+
			"(2) PRNG batches of 64-255 tuples with 1-5 fields drawn from small per-field pools of hostile byte strings (00 01 02 04 7f 80 ff A a Z z, length <=8, "+
			"mutated by appending 00 / 00 00 / 00 01 / 01, truncation, case change); (3) small real databases with a foreign key. "+
			"A case is one (spec, tuple) [or one database]; non-trivial = at least 2 fields, or a zero byte in a single field [database: an empty field or zero byte]; "+
			"distinct by spec and tuple bytes. Tuples of a set are sorted by the model and every oracle is applied to each tuple, each adjacent pair and random pairs.",
		"field values sort below ixkey.Max (eight ff bytes): packed values start with a tag byte < 8",
		"an all-empty prefix has no field-level meaning for HasPrefix and is skipped",
		"the documented key format (0,0 separator, 0->0,1, trailing empty fields trimmed) is used as the reference for the prefix/suffix helpers")
	defer rep.Finish()
	if core.Pack(core.SuStr("x"))[0] != packString {
		t.Fatal("harness assumption: packed strings start with byte 4")
	}
	c := &checker{rep: rep, r: vk.Rand(12)}
	// 1. exhaustive universes, distributed over the shards
	for i, u := range universes() {
		if i%vk.NShards() != vk.Shard() {
			continue
		}
		ts := u.tuples()
		rep.Seen("universes", u.name)
		rep.Count("exhaustive_tuples", len(ts))
		npairs := 200000
		if len(ts) <= 600 {
			npairs = 0
			// all pairs
			es, ok := c.build(u.s, ts)
			if ok {
				sp := u.s.real()
				for a := range es {
					for b := range es {
						c.compare(u.s, sp, &es[a], &es[b])
					}
				}
			}
		}
		c.all(u.s, ts, npairs, 0)
	}
	rep.SetExhaustive(true)
	// 2. random batches
	n := vk.N(200000, 10000000)
	for done, bi := 0, 0; done < n; bi++ {
		done += c.randomBatch(bi)
	}
	// 3. real call sites
	nd := vk.N(400, 8000)
	for i := 0; i < nd; i++ {
		c.dbCase(i)
	}
}
