package c39

import (
	"fmt"
	"math"
	"math/rand/v2"
	"slices"
	"sort"

	"github.com/apmckinlay/gsuneido/util/bloom"
	"github.com/apmckinlay/gsuneido/util/cache"
	"github.com/apmckinlay/gsuneido/util/lrucache"
	"github.com/apmckinlay/gsuneido/util/roaring"
	"github.com/apmckinlay/gsuneido/util/shmap"
	vk "github.com/apmckinlay/gsuneido/util/verifkit"
)

// ------------------------------------------------------------------ bloom: no false negatives

var edgeHashes = []uint64{0, 1, math.MaxUint64, math.MaxUint32, math.MaxUint32 + 1, 0xffffffff00000000, 0x8000000000000000,
	0x80000000, 0x7fffffff, 0x7fffffffffffffff, 0x00000001ffffffff, 0xfffffffe00000001}

func runBloom(rep *vk.Report, r *rand.Rand, idx int, _ bool) (uint64, bool) {
	key := caseKey("bloom", idx)
	var m, k, n int
	switch r.IntN(4) {
	case 0:
		m, k = []int{1, 2, 63, 64, 65, 127, 128, 129, 1000}[r.IntN(9)], 1+r.IntN(10)
		n = r.IntN(40)
	case 1:
		n = 1 + r.IntN(2000)
		m, k = bloom.Calc(n, []float64{.5, .1, .01, .001, .0001}[r.IntN(5)])
	default:
		m, k = 1+r.IntN(20000), 1+r.IntN(12)
		n = r.IntN(3000)
	}
	h := vk.Hash64("bloom", m, k, n, idx)
	b := bloom.New(m, k)
	if sz := b.Size(); sz*8 < m {
		rep.Violate("C39/bloom/size-wrong", fmt.Sprintf("%s: New(%d,%d).Size()=%d bytes", key, m, k, sz), map[string]any{"m": m, "k": k})
	}
	added := map[uint64]bool{}
	var order []uint64
	for i := 0; i < n; i++ {
		x := r.Uint64()
		switch r.IntN(6) {
		case 0:
			x = edgeHashes[r.IntN(len(edgeHashes))]
		case 1:
			x >>= uint(r.IntN(64))
		case 2:
			x &= 0xffffffff // second hash is zero: all k probes coincide
		}
		h = h*1099511628211 ^ x
		b.Add(x)
		added[x] = true
		order = append(order, x)
		if !b.Test(x) {
			rep.Violate("C39/bloom/false-negative", fmt.Sprintf("%s: New(%d,%d): Test(%#x) is false right after Add", key, m, k, x), map[string]any{"m": m, "k": k, "adds_before": i})
			return h, true
		}
	}
	for _, x := range order { // still there after all later additions
		if !b.Test(x) {
			rep.Violate("C39/bloom/false-negative", fmt.Sprintf("%s: New(%d,%d): Test(%#x) is false after %d adds", key, m, k, x, n), map[string]any{"m": m, "k": k})
			return h, true
		}
	}
	rep.Count("bloom_adds", n)
	fp, probes := 0, 200
	for i := 0; i < probes; i++ {
		x := r.Uint64()
		if !added[x] && b.Test(x) {
			fp++
		}
	}
	rep.Count("bloom_nonmember_probes", probes)
	sampleOps = []string{fmt.Sprintf("bloom.New(%d,%d); %d Add (e.g. %#x); every added hash tests true; %d of %d other hashes test true", m, k, n, append(order, 0)[0], fp, probes)}
	rep.Count("bloom_false_positives", fp)
	return h, n > 0 && fp < probes
}

// ------------------------------------------------------------------ roaring: set of 48 bit integers

// roaringConversions counts, per process, the containers that grew past 4096 members (array -> bitmap).
// The first conversion of a process cannot have received a recycled block.
var roaringConversions int

func runRoaring(rep *vk.Report, r *rand.Rand, idx int, _ bool) (uint64, bool) {
	key := caseKey("roaring", idx)
	convBefore := roaringConversions
	live := map[[2]uint64]int{}
	// several bitmaps alive at once: converted containers recycle blocks through a package-level pool
	nb := 1 + r.IntN(3)
	bms := make([]*roaring.Bitmap, nb)
	models := make([]map[uint64]struct{}, nb)
	for i := range bms {
		bms[i] = &roaring.Bitmap{}
		models[i] = map[uint64]struct{}{}
	}
	bases := make([]uint64, 1+r.IntN(4))
	for i := range bases {
		switch r.IntN(4) {
		case 0:
			bases[i] = uint64(r.IntN(3))
		case 1:
			bases[i] = 1<<32 - 1 - uint64(r.IntN(3)) // the last containers below 2^48
		default:
			bases[i] = r.Uint64() >> 32
		}
	}
	h := vk.Hash64("roaring", idx)
	ops := 50 + r.IntN(400)
	if r.IntN(3) == 0 {
		ops = 4000 + r.IntN(9000) // enough to push containers over the 4096 array limit
	}
	dense := r.IntN(2) == 0
	var last []string
	pos, neg := 0, 0
	pick := func() uint64 {
		base := bases[r.IntN(len(bases))]
		var low uint64
		switch {
		case dense:
			low = uint64(r.IntN(6000)) * uint64(1+r.IntN(2))
		case r.IntN(4) == 0:
			low = []uint64{0, 1, 15, 16, 0xffff, 0xfffe, 0x8000, 4095, 4096}[r.IntN(9)]
		default:
			low = uint64(r.IntN(1 << 16))
		}
		return base<<16 | (low & 0xffff)
	}
	seqv := uint64(0)
	for i := 0; i < ops; i++ {
		bi := r.IntN(nb)
		bm, m := bms[bi], models[bi]
		var x uint64
		if dense && r.IntN(3) > 0 { // ascending fill: the append fast path
			seqv += uint64(1 + r.IntN(3))
			x = bases[0]<<16 | (seqv & 0xffff)
		} else {
			x = pick()
		}
		if r.IntN(10) < 7 {
			h = h*1099511628211 ^ x ^ uint64(bi)<<60
			bm.Add(x)
			if _, dup := m[x]; !dup {
				ck := [2]uint64{uint64(bi), x >> 16}
				live[ck]++
				if live[ck] == 4097 {
					roaringConversions++
				}
			}
			m[x] = struct{}{}
			last = append(last, fmt.Sprintf("b%d.Add(%#x)", bi, x))
			if !bm.Has(x) {
				rep.Violate("C39/roaring/added-value-missing", fmt.Sprintf("%s: Has(%#x) false right after Add", key, x), map[string]any{"last_ops": tail(last, 20), "members": len(m)})
				return h, true
			}
		} else {
			if r.IntN(2) == 0 {
				x ^= uint64(1) << uint(r.IntN(17)) // a neighbour / same word / other container
			}
			_, want := m[x]
			if want {
				pos++
			} else {
				neg++
			}
			if got := bm.Has(x); got != want {
				cnt := 0
				for y := range m {
					if y>>16 == x>>16 {
						cnt++
					}
				}
				cl := roaringClass(want, cnt)
				if cnt > 4096 && convBefore == 0 && roaringConversions == 1 {
					cl += "-first-of-process" // no block can have been recycled yet
				}
				rep.Violate("C39/roaring/"+cl, fmt.Sprintf("%s: Has(%#x)=%v, model %v; its container has %d members", key, x, got, want, cnt),
					map[string]any{"last_ops": tail(last, 20), "members": len(m), "container_members": cnt, "bitmaps": nb})
				return h, true
			}
		}
	}
	// final sweep over every bitmap: all members, and the neighbourhood of a sample
	for bi, bm := range bms {
		m := models[bi]
		perBase := map[uint64]int{}
		for x := range m {
			perBase[x>>16]++
			if !bm.Has(x) {
				rep.Violate("C39/roaring/member-lost", fmt.Sprintf("%s: bitmap %d lost %#x", key, bi, x), map[string]any{"members": len(m)})
				return h, true
			}
		}
		for base, cnt := range perBase {
			if cnt > 4096 {
				rep.Count("roaring_bitmap_containers", 1)
			} else {
				rep.Count("roaring_array_containers", 1)
			}
			for j := 0; j < 300; j++ {
				x := base<<16 | uint64(r.IntN(1<<16))
				_, want := m[x]
				if want {
					pos++
				} else {
					neg++
				}
				if bm.Has(x) != want {
					cl := roaringClass(want, cnt)
					if cnt > 4096 && convBefore == 0 && roaringConversions == 1 {
						cl += "-first-of-process"
					}
					rep.Violate("C39/roaring/"+cl, fmt.Sprintf("%s: bitmap %d Has(%#x)=%v, model %v; container has %d members", key, bi, x, !want, want, cnt),
						map[string]any{"members": len(m), "container_members": cnt, "bitmaps": nb})
					return h, true
				}
			}
		}
	}
	// the documented limit
	p, _ := vk.Catch(func() { bms[0].Add(1 << 48) })
	if p == nil {
		if !bms[0].Has(1 << 48) {
			rep.Violate("C39/roaring/too-large-accepted-and-lost", key+": Add(1<<48) did not fail and Has(1<<48) is false", map[string]any{})
		}
	} else {
		rep.Count("roaring_too_large_refused", 1)
	}
	rep.Count("roaring_ops", ops)
	sampleOps = append([]string{fmt.Sprintf("(%d operations on %d bitmaps, dense=%v)", ops, nb, dense)}, tail(last, 10)...)
	return h, pos > 0 && neg > 0
}

// roaringClass: a container with more than 4096 members has certainly been converted from an array to a bitmap.
func roaringClass(member bool, containerMembers int) string {
	cl := "phantom-member"
	if member {
		cl = "member-lost"
	}
	if containerMembers > 4096 {
		return cl + "-in-bitmap-container"
	}
	return cl + "-in-array-container"
}

func tail(l []string, n int) []string {
	if len(l) > n {
		l = l[len(l)-n:]
	}
	return slices.Clone(l)
}

// ------------------------------------------------------------------ shmap: map

type hkey struct {
	id  int
	tag int // not part of equality: lets us see WHICH equal key the map kept
}

type hval struct{ v int }

// for NewMapMeth
type mkey struct{ id, mode int }

func (k mkey) Hash() uint64 { return hostileHash(k.mode, k.id) }
func (k mkey) Equal(o any) bool {
	k2, ok := o.(mkey)
	return ok && k2.id == k.id
}

func hostileHash(mode, id int) uint64 {
	x := uint64(id)
	switch mode {
	case 0:
		return x * 0x9e3779b97f4a7c15 // decent
	case 1:
		return x // identity: low bits only
	case 2:
		return 42 // everything collides
	case 3:
		return x << 7 // same 7 bit fingerprint (0), different groups
	case 4:
		return x & 0x7f // same group, different fingerprints
	case 5:
		return (x % 3) << 7 // three probe sequences
	default:
		return x<<7 | 0x7f // fingerprint equals the tombstone pattern 0x7f
	}
}

func runShmap(rep *vk.Report, r *rand.Rand, idx int, _ bool) (uint64, bool) {
	key := caseKey("shmap", idx)
	mode := r.IntN(7)
	ops := 20 + r.IntN(200)
	if r.IntN(6) == 0 {
		ops = 500 + r.IntN(3000)
	}
	domain := 1 + r.IntN(ops)
	if mode == 2 {
		ops = min(ops, 600) // all-colliding hashes are quadratic
	}
	useMeth := r.IntN(4) == 0
	h := vk.Hash64("shmap", mode, ops, domain, useMeth)
	var last []string
	viol := func(class, what string, model int) {
		rep.Violate("C39/shmap/"+class, key+": "+what, map[string]any{"hash_mode": mode, "last_ops": tail(last, 25), "model_size": model, "meth": useMeth})
	}
	pos, neg := 0, 0
	if useMeth {
		m := shmap.NewMapMeth[mkey, int]()
		model := map[int]int{}
		for i := 0; i < ops; i++ {
			id := r.IntN(domain)
			k := mkey{id, mode}
			switch c := r.IntN(10); {
			case c < 4:
				v := r.IntN(1000)
				m.Put(k, v)
				model[id] = v
				h = h*31 ^ uint64(id)<<8 ^ 1
				last = append(last, fmt.Sprintf("Put(%d,%d)", id, v))
			case c < 6:
				got, ok := m.Del(k)
				want, wok := model[id]
				delete(model, id)
				h = h*31 ^ uint64(id)<<8 ^ 2
				last = append(last, fmt.Sprintf("Del(%d)", id))
				if ok != wok || (ok && got != want) {
					viol("del-wrong", fmt.Sprintf("Del(%d)=(%v,%v), model (%v,%v)", id, got, ok, want, wok), len(model))
					return h, true
				}
			default:
				got, ok := m.Get(k)
				want, wok := model[id]
				if wok {
					pos++
				} else {
					neg++
				}
				if ok != wok || got != want || m.Has(k) != wok {
					viol("get-wrong", fmt.Sprintf("Get(%d)=(%v,%v), model (%v,%v)", id, got, ok, want, wok), len(model))
					return h, true
				}
			}
			if m.Size() != len(model) {
				viol("size-wrong", fmt.Sprintf("Size()=%d, model %d", m.Size(), len(model)), len(model))
				return h, true
			}
		}
		rep.Count("shmap_ops", ops)
		sampleOps = append([]string{fmt.Sprintf("(NewMapMeth, hash mode %d, %d operations)", mode, ops)}, tail(last, 10)...)
		return h, pos > 0 && neg > 0
	}
	m := shmap.NewMapFuncs[hkey, hval](func(k hkey) uint64 { return hostileHash(mode, k.id) }, func(x, y hkey) bool { return x.id == y.id })
	type ment struct {
		tag int
		v   int
	}
	model := map[int]ment{}
	var snapshot *shmap.Map[hkey, hval, shmap.Funcs[hkey]]
	var snapModel map[int]ment
	checkAll := func(mm *shmap.Map[hkey, hval, shmap.Funcs[hkey]], mod map[int]ment, what string) bool {
		if mm.Size() != len(mod) {
			viol("size-wrong", fmt.Sprintf("%s: Size()=%d, model %d", what, mm.Size(), len(mod)), len(mod))
			return false
		}
		seen := map[int]bool{}
		it := mm.Iter()
		for k, v, ok := it(); ok; k, v, ok = it() {
			e, in := mod[k.id]
			if !in || seen[k.id] || e.v != v.v {
				viol("iter-wrong", fmt.Sprintf("%s: Iter yields (%d,%d): in model %v, seen before %v, model value %d", what, k.id, v.v, in, seen[k.id], e.v), len(mod))
				return false
			}
			seen[k.id] = true
			if len(seen) > len(mod)+5 {
				break
			}
		}
		if len(seen) != len(mod) {
			viol("iter-wrong", fmt.Sprintf("%s: Iter yields %d entries, model %d", what, len(seen), len(mod)), len(mod))
			return false
		}
		for id, e := range mod {
			if v, ok := mm.Get(hkey{id: id}); !ok || v.v != e.v {
				viol("get-wrong", fmt.Sprintf("%s: Get(%d)=(%v,%v), model %d", what, id, v.v, ok, e.v), len(mod))
				return false
			}
		}
		return true
	}
	for i := 0; i < ops; i++ {
		id := r.IntN(domain)
		tg := i + 1
		switch c := r.IntN(40); {
		case c < 13:
			v := r.IntN(1000)
			m.Put(hkey{id, tg}, hval{v})
			if e, ok := model[id]; ok {
				model[id] = ment{e.tag, v}
			} else {
				model[id] = ment{tg, v}
			}
			h = h*31 ^ uint64(id)<<8 ^ 1
			last = append(last, fmt.Sprintf("Put(%d,%d)", id, v))
		case c < 16:
			k2, existed := m.GetInit(hkey{id, tg})
			e, wok := model[id]
			h = h*31 ^ uint64(id)<<8 ^ 3
			last = append(last, fmt.Sprintf("GetInit(%d)", id))
			if existed != wok {
				viol("getinit-wrong", fmt.Sprintf("GetInit(%d) existed=%v, model %v", id, existed, wok), len(model))
				return h, true
			}
			if wok && k2.tag != e.tag {
				viol("getinit-wrong", fmt.Sprintf("GetInit(%d) returned the key with tag %d, the original existing key has tag %d", id, k2.tag, e.tag), len(model))
				return h, true
			}
			if !wok {
				if k2.tag != tg {
					viol("getinit-wrong", fmt.Sprintf("GetInit(%d) on a new key returned tag %d, want %d", id, k2.tag, tg), len(model))
					return h, true
				}
				model[id] = ment{tg, 0} // zero value
			}
		case c < 24:
			got, ok := m.Del(hkey{id: id})
			e, wok := model[id]
			delete(model, id)
			h = h*31 ^ uint64(id)<<8 ^ 2
			last = append(last, fmt.Sprintf("Del(%d)", id))
			if ok != wok || (ok && got.v != e.v) {
				viol("del-wrong", fmt.Sprintf("Del(%d)=(%v,%v), model (%v,%v)", id, got.v, ok, e.v, wok), len(model))
				return h, true
			}
			rep.Count("shmap_deletes", 1)
		case c < 25:
			snapshot = m.Copy()
			snapModel = map[int]ment{}
			for k, v := range model {
				snapModel[k] = v
			}
			last = append(last, "Copy()")
			rep.Count("shmap_copies", 1)
		case c < 26 && r.IntN(4) == 0:
			m.Clear()
			clear(model)
			last = append(last, "Clear()")
			h = h*31 ^ 5
			rep.Count("shmap_clears", 1)
		case c < 27:
			if !checkAll(m, model, "Iter") {
				return h, true
			}
		default:
			got, ok := m.Get(hkey{id: id})
			e, wok := model[id]
			if wok {
				pos++
			} else {
				neg++
			}
			if ok != wok || (ok && got.v != e.v) || (!ok && got.v != 0) || m.Has(hkey{id: id}) != wok {
				viol("get-wrong", fmt.Sprintf("Get(%d)=(%v,%v), model (%v,%v)", id, got.v, ok, e.v, wok), len(model))
				return h, true
			}
		}
		if m.Size() != len(model) {
			viol("size-wrong", fmt.Sprintf("Size()=%d, model %d", m.Size(), len(model)), len(model))
			return h, true
		}
		rep.Max("shmap_max_size", len(model))
	}
	if !checkAll(m, model, "final") {
		return h, true
	}
	if snapshot != nil && !checkAll(snapshot, snapModel, "copy taken earlier (must not see later changes)") {
		return h, true
	}
	rep.Count("shmap_ops", ops)
	sampleOps = append([]string{fmt.Sprintf("(NewMapFuncs, hash mode %d, %d operations, %d entries at the end)", mode, ops, len(model))}, tail(last, 10)...)
	return h, pos > 0 && neg > 0
}

// ------------------------------------------------------------------ lrucache: bounded map, least recently used goes first

type lkey struct{ id, mode int }

func (k lkey) Hash() uint64 { return hostileHash(k.mode, k.id) }
func (k lkey) Equal(o any) bool {
	k2, ok := o.(lkey)
	return ok && k2.id == k.id
}

func lruSize(req int) int {
	for _, n := range []int{6, 13, 27, 55, 111, 223} {
		if req <= n {
			return n
		}
	}
	return 223
}

func runLru(rep *vk.Report, r *rand.Rand, idx int, _ bool) (uint64, bool) {
	key := caseKey("lrucache", idx)
	req := []int{0, 1, 5, 6, 7, 13, 20, 27, 50, 55, 100, 111, 200, 223, 224, 1000}[r.IntN(16)]
	size := lruSize(req)
	mode := []int{0, 0, 1, 4, 5}[r.IntN(5)]
	ops := 10 + r.IntN(6*size)
	domain := 1 + r.IntN(2*size+2)
	reput := r.IntN(3) == 0 // histories that Put keys which are (per the model) still cached
	h := vk.Hash64("lru", req, mode, ops, domain, reput)
	c := lrucache.New[lkey, int](req)
	type ment struct {
		v      int
		access int // operation number of the last Put or hit
		puts   int // how often this key was Put since it was last absent
	}
	model := map[int]*ment{}
	var last []string
	opno, putsSinceReset, gets, hits := 0, 0, 0, 0
	everReput := false
	pos, neg := 0, 0
	// the documented policy moves an entry to the newest end on access unless it already is in the newest eighth;
	// every later operation can move it down by at most one place, so it cannot be evicted within this many operations
	safe := size - size/8 - 1
	viol := func(class, what string) {
		rep.Violate("C39/lrucache/"+class, key+": "+what, map[string]any{"requested": req, "size": size, "hash_mode": mode, "last_ops": tail(last, 25), "puts_since_reset": putsSinceReset})
	}
	for i := 0; i < ops; i++ {
		id := r.IntN(domain)
		k := lkey{id, mode}
		opno++
		switch cc := r.IntN(40); {
		case cc < 1:
			c.Reset()
			clear(model)
			putsSinceReset, gets, hits = 0, 0, 0
			everReput = false
			last = append(last, "Reset()")
			h = h*31 ^ 7
			rep.Count("lru_resets", 1)
		case cc < 3:
			// Entries: every pair must be a current (key, latest value) pair, each key at most once, at most size entries
			seen := map[int]int{}
			n := 0
			for ek, ev := range c.Entries() {
				n++
				e := model[ek.id]
				seen[ek.id]++
				if e == nil {
					cl := "entries-phantom"
					if everReput { // the stale first entry of a re-put key outlives the key (known defect class)
						cl = "entries-stale-duplicate-after-reput"
					}
					viol(cl, fmt.Sprintf("Entries yields key %d which is not cached (never put since the last Reset, or already seen to be evicted)", ek.id))
					return h, true
				}
				if ev != e.v || seen[ek.id] > 1 {
					cl := "entries-wrong"
					if everReput {
						cl = "entries-stale-duplicate-after-reput"
					}
					viol(cl, fmt.Sprintf("Entries yields (%d,%d) (occurrence %d of this key); the value last put for the key is %d", ek.id, ev, seen[ek.id], e.v))
					return h, true
				}
			}
			if n > size {
				viol("over-capacity", fmt.Sprintf("Entries yields %d entries, capacity %d", n, size))
				return h, true
			}
			if putsSinceReset <= size && !everReput && n != len(model) {
				viol("entries-missing", fmt.Sprintf("Entries yields %d entries, %d keys were put and nothing can have been evicted", n, len(model)))
				return h, true
			}
		case cc < 18:
			e := model[id]
			if e != nil && !reput {
				// only Put what is absent, like a GetPut user: look first
				if _, ok := c.Get(k); ok {
					gets++
					hits++
					e.access = opno
					last = append(last, fmt.Sprintf("Get(%d) hit", id))
					continue
				}
				gets++
				last = append(last, fmt.Sprintf("Get(%d) miss", id))
				opno++
			}
			v := r.IntN(1000)
			c.Put(k, v)
			putsSinceReset++
			if e != nil {
				if _, stillIn := c.Get(k); stillIn { // (counted below)
				}
				gets++
				hits++ // Get right after Put must hit; checked next
			}
			if e == nil {
				model[id] = &ment{v: v, access: opno, puts: 1}
			} else {
				if reput {
					everReput = true
					rep.Count("lru_reputs", 1)
				}
				e.v, e.access, e.puts = v, opno, e.puts+1
			}
			h = h*31 ^ uint64(id)<<10 ^ uint64(v)
			last = append(last, fmt.Sprintf("Put(%d,%d)", id, v))
			if e == nil {
				gets++
				if got, ok := c.Get(k); !ok || got != v {
					viol("put-not-visible", fmt.Sprintf("Get(%d)=(%d,%v) right after Put(%d,%d)", id, got, ok, id, v))
					return h, true
				}
				hits++
			}
		default:
			got, ok := c.Get(k)
			gets++
			e := model[id]
			last = append(last, fmt.Sprintf("Get(%d)=(%d,%v)", id, got, ok))
			if ok {
				hits++
				pos++
				if e == nil {
					viol("phantom-hit", fmt.Sprintf("Get(%d) hits with %d but the key was never put since the last Reset", id, got))
					return h, true
				}
				if got != e.v {
					viol("stale-value", fmt.Sprintf("Get(%d)=%d, the value last put is %d", id, got, e.v))
					return h, true
				}
				e.access = opno
			} else {
				neg++
				if got != 0 {
					viol("miss-with-value", fmt.Sprintf("Get(%d) misses but returns %d", id, got))
					return h, true
				}
				if e != nil {
					since := opno - e.access
					switch {
					case putsSinceReset <= size && !everReput:
						viol("evicted-before-full", fmt.Sprintf("Get(%d) misses although only %d entries were ever put (capacity %d)", id, putsSinceReset, size))
						return h, true
					case since <= safe && !everReput:
						viol("evicted-recently-used", fmt.Sprintf("Get(%d) misses although the key was used %d operations ago (capacity %d)", id, since, size))
						return h, true
					case since <= safe && everReput:
						viol("lost-after-reput", fmt.Sprintf("Get(%d) misses although the key was used %d operations ago (capacity %d); keys have been Put while cached", id, since, size))
						return h, true
					}
					rep.Count("lru_evictions_seen", 1)
					delete(model, id) // really gone; a later Put starts afresh
				}
			}
		}
	}
	hs, ms := c.Stats()
	if hs+ms != gets || hs != hits {
		viol("stats-wrong", fmt.Sprintf("Stats()=(%d,%d), the history had %d gets of which %d hit", hs, ms, gets, hits))
	}
	rep.Count("lru_ops", ops)
	sampleOps = append([]string{fmt.Sprintf("(lrucache.New(%d) => capacity %d, hash mode %d, %d operations)", req, size, mode, ops)}, tail(last, 10)...)
	rep.Seen("lru_sizes", fmt.Sprint(size))
	return h, pos > 0 && neg > 0
}

// ------------------------------------------------------------------ cache: memoised function

func runCache(rep *vk.Report, r *rand.Rand, idx int, _ bool) (uint64, bool) {
	key := caseKey("cache", idx)
	ops := 10 + r.IntN(300)
	domain := 1 + r.IntN(30)
	h := vk.Hash64("cache", ops, domain, idx)
	calls := 0
	salt := r.IntN(1000)
	f := func(k int) int { calls++; return k*7919 + salt }
	conc := r.IntN(3) == 0
	var get func(int) int
	if conc {
		c := cache.NewConc(f)
		get = c.Get
	} else {
		c := cache.New(f)
		get = c.Get
	}
	var last []string
	prev := math.MinInt
	repeatHits, repeats := 0, 0
	var keys []int
	for i := 0; i < ops; i++ {
		k := r.IntN(domain)
		if prev != math.MinInt && r.IntN(4) == 0 {
			k = prev
		}
		if r.IntN(10) == 0 {
			k = -r.IntN(3) // zero and negative keys: the zero value of the key type
		}
		before := calls
		got := get(k)
		last = append(last, fmt.Sprintf("Get(%d)=%d", k, got))
		h = h*31 ^ uint64(k+5)
		if got != k*7919+salt {
			rep.Violate("C39/cache/wrong-value", fmt.Sprintf("%s: Get(%d)=%d, the function gives %d", key, k, got, k*7919+salt), map[string]any{"last_ops": tail(last, 25), "conc": conc})
			return h, true
		}
		if calls-before > 1 {
			rep.Violate("C39/cache/getter-called-twice", fmt.Sprintf("%s: Get(%d) called the getter %d times", key, k, calls-before), map[string]any{"last_ops": tail(last, 25)})
			return h, true
		}
		if k == prev {
			repeats++
			if calls == before {
				repeatHits++
			}
		}
		prev = k
		keys = append(keys, k)
	}
	sort.Ints(keys)
	distinct := len(slices.Compact(keys))
	rep.Count("cache_gets", ops)
	sampleOps = append([]string{fmt.Sprintf("(cache of f(k)=k*7919+%d, conc=%v, %d gets, %d getter calls)", salt, conc, ops, calls)}, tail(last, 10)...)
	rep.Count("cache_getter_calls", calls)
	rep.Count("cache_immediate_repeats", repeats)
	rep.Count("cache_immediate_repeat_hits", repeatHits)
	if calls < distinct {
		rep.Violate("C39/cache/getter-not-called", fmt.Sprintf("%s: %d distinct keys but only %d getter calls", key, distinct, calls), map[string]any{"last_ops": tail(last, 25)})
	}
	return h, ops > 1 && calls < ops && distinct > 1
}
