package c39

import (
	"fmt"
	"math/rand/v2"
	"slices"
	"strconv"

	"github.com/apmckinlay/gsuneido/util/sortlist"
	vk "github.com/apmckinlay/gsuneido/util/verifkit"
)

const slBlock = 4096 // block size of sortlist; sizes are chosen around its multiples

type lessDef struct {
	name string
	key  func(x uint64) uint64 // values are ordered by key(x); equal keys may come out in any order
}

var lessDefs = []lessDef{
	{"high", func(x uint64) uint64 { return x >> 16 }},
	{"low", func(x uint64) uint64 { return x & 0xffff }},
	{"full", func(x uint64) uint64 { return x }},
	{"reverse", func(x uint64) uint64 { return ^x }},
	{"mod7", func(x uint64) uint64 { return x % 7 }}, // almost everything ties
}

func (d lessDef) less(x, y uint64) bool { return d.key(x) < d.key(y) }

func slSize(r *rand.Rand) int {
	switch r.IntN(10) {
	case 0:
		return r.IntN(3)
	case 1, 2:
		return r.IntN(300)
	case 3, 4, 5: // around a multiple of the block size
		return max(0, (1+r.IntN(5))*slBlock+r.IntN(5)-2)
	case 6:
		return (1 + r.IntN(9)) * slBlock
	default:
		return r.IntN(40000)
	}
}

// readAll drains a builder iterator (zero terminates).
func readAll(it func() uint64, limit int) []uint64 {
	var out []uint64
	for x := it(); x != 0; x = it() {
		out = append(out, x)
		if len(out) > limit {
			break
		}
	}
	return out
}

// checkSorted: got must be a permutation of want (multiset) and ordered by d.
func checkSorted(got, input []uint64, d *lessDef) string {
	if len(got) != len(input) {
		return fmt.Sprintf("length %d, want %d", len(got), len(input))
	}
	if d != nil {
		for i := 1; i < len(got); i++ {
			if d.less(got[i], got[i-1]) {
				return fmt.Sprintf("out of order at %d: %d (key %d) before %d (key %d) under %s", i, got[i-1], d.key(got[i-1]), got[i], d.key(got[i]), d.name)
			}
		}
		a, b := slices.Clone(got), slices.Clone(input)
		slices.Sort(a)
		slices.Sort(b)
		if !slices.Equal(a, b) {
			for i := range a {
				if a[i] != b[i] {
					return fmt.Sprintf("not a permutation of the input: sorted position %d has %d, input has %d", i, a[i], b[i])
				}
			}
		}
	} else if !slices.Equal(got, input) {
		for i := range got {
			if got[i] != input[i] {
				return fmt.Sprintf("unsorted list differs from insertion order at %d: %d, want %d", i, got[i], input[i])
			}
		}
	}
	return ""
}

func runSortlist(rep *vk.Report, r *rand.Rand, idx int, _ bool) (uint64, bool) {
	key := caseKey("sortlist", idx)
	n := slSize(r)
	sorted := r.IntN(4) > 0
	d1 := lessDefs[r.IntN(len(lessDefs))]
	inputMode := r.IntN(5)
	input := make([]uint64, n)
	for i := range input {
		var x uint64
		switch inputMode {
		case 0: // ascending under d1 when d1 is high/full: exercises the "nothing to merge" shortcut
			x = uint64(i+1) << 16
		case 1: // descending
			x = uint64(n-i) << 16
		case 2: // few distinct values
			x = uint64(1 + r.IntN(5))
		case 3: // runs
			x = uint64((i/slBlock)%3+1)<<32 | uint64(r.IntN(1<<20)+1)
		default:
			x = r.Uint64() >> uint(r.IntN(40))
		}
		if x == 0 {
			x = 1 // zero is the terminator and must not be added
		}
		input[i] = x
	}
	h := vk.Hash64("sortlist", n, sorted, d1.name, inputMode, r.Uint64())
	desc := map[string]any{"n": n, "sorted_builder": sorted, "less": d1.name, "input_mode": inputMode}
	viol := func(class, what string) {
		desc["what"] = what
		rep.Violate("C39/sortlist/"+class, key+": "+what, desc)
	}
	zero := func(x uint64) bool { return x == 0 }
	var b *sortlist.Builder[uint64]
	if sorted {
		b = sortlist.NewSorting(zero, d1.less)
	} else {
		b = sortlist.NewUnsorted(zero)
	}
	for _, x := range input {
		b.Add(x)
	}
	list := b.Finish()
	rep.Count("sortlist_values", n)
	if n%slBlock == 0 && n > 0 {
		rep.Count("sortlist_exact_block_multiples", 1)
	}
	cur := (*lessDef)(nil)
	if sorted {
		cur = &d1
	}
	got := readAll(b.Iter(), n+10)
	if msg := checkSorted(got, input, cur); msg != "" {
		viol("finish-wrong", "after Finish: "+msg)
		return h, n >= 2
	}
	// the List iterator (only meaningful with a consistent less => sorted builders)
	if sorted {
		walkList(rep, r, list, got, d1, viol)
	}
	sampleOps = []string{fmt.Sprintf("build %d values (input mode %d) with sorted_builder=%v less=%s; Finish; Builder.Iter yields an ordered permutation", n, inputMode, sorted, d1.name)}
	if n > 0 {
		sampleOps = append(sampleOps, fmt.Sprintf("first=%d last=%d", got[0], got[n-1]))
	}
	// re-sort by other orders
	for k := r.IntN(3); k > 0; k-- {
		d2 := lessDefs[r.IntN(len(lessDefs))]
		desc["resort"] = fmt.Sprint(desc["resort"], " ", d2.name)
		b.Sort(d2.less)
		rep.Count("sortlist_resorts", 1)
		sampleOps = append(sampleOps, "Sort("+d2.name+"); Builder.Iter yields an ordered permutation")
		got = readAll(b.Iter(), n+10)
		if msg := checkSorted(got, input, &d2); msg != "" {
			viol("resort-wrong", "after Sort("+d2.name+"): "+msg)
			return h, n >= 2
		}
	}
	return h, n >= 2
}

// walkList drives Iter with random Next/Prev/Seek/Rewind against an index model over the actual sequence.
func walkList(rep *vk.Report, r *rand.Rand, list sortlist.List[uint64], seq []uint64, d lessDef, viol func(class, what string)) {
	n := len(seq)
	it := list.Iter(func(x uint64, key []string) bool {
		k, _ := strconv.ParseUint(key[0], 10, 64)
		return d.key(x) < k
	})
	const (
		rewound = iota
		within
		eof
	)
	state, pos := rewound, -1
	steps := 40 + r.IntN(200)
	var trail []string
	for s := 0; s < steps; s++ {
		var op string
		switch c := r.IntN(20); {
		case c < 8:
			op = "Next"
			it.Next()
			switch state {
			case rewound:
				pos, state = 0, within
			case within:
				pos++
			}
			if state != eof && pos >= n {
				state = eof
			}
		case c < 14:
			op = "Prev"
			it.Prev()
			switch state {
			case rewound:
				pos, state = n-1, within
			case within:
				pos--
			}
			if state != eof && pos < 0 {
				state = eof
			}
		case c < 18:
			var k uint64
			switch {
			case n > 0 && r.IntN(4) > 0:
				k = d.key(seq[r.IntN(n)]) + uint64(r.IntN(3)) - 1
			default:
				k = r.Uint64() >> uint(r.IntN(64))
			}
			op = fmt.Sprintf("Seek(%d)", k)
			it.Seek([]string{strconv.FormatUint(k, 10)})
			// first element whose key is >= k
			lo, hi := 0, n
			for lo < hi {
				mid := (lo + hi) / 2
				if d.key(seq[mid]) < k {
					lo = mid + 1
				} else {
					hi = mid
				}
			}
			if lo >= n {
				state = eof
			} else {
				state, pos = within, lo
			}
			rep.Count("sortlist_seeks", 1)
		default:
			op = "Rewind"
			it.Rewind()
			state, pos = rewound, -1
		}
		trail = append(trail, op)
		if len(trail) > 12 {
			trail = trail[1:]
		}
		rep.Count("sortlist_iter_steps", 1)
		if it.Eof() != (state == eof) {
			viol("iter-eof-wrong", fmt.Sprintf("n=%d after %v: Eof()=%v, model state %d pos %d", n, trail, it.Eof(), state, pos))
			return
		}
		if state == within {
			if got := it.Cur(); got != seq[pos] {
				viol("iter-position-wrong", fmt.Sprintf("n=%d after %v: Cur()=%d, model position %d holds %d", n, trail, got, pos, seq[pos]))
				return
			}
		}
	}
}
