package c39

import (
	"fmt"
	"math/rand/v2"
	"slices"
	"sort"

	"github.com/apmckinlay/gsuneido/util/ordset"
	"github.com/apmckinlay/gsuneido/util/ranges"
	vk "github.com/apmckinlay/gsuneido/util/verifkit"
)

// opLog hashes the generated operations and keeps the last few for witnesses.
type opLog struct {
	h    uint64
	last []string
	n    int
}

func (l *opLog) add(op string, args ...string) {
	l.n++
	h := l.h*1099511628211 ^ 0x9e3779b97f4a7c15
	for i := 0; i < len(op); i++ {
		h = (h ^ uint64(op[i])) * 1099511628211
	}
	s := op + "("
	for j, a := range args {
		for i := 0; i < len(a); i++ {
			h = (h ^ uint64(a[i])) * 1099511628211
		}
		h = (h ^ 0xfe) * 1099511628211
		if j > 0 {
			s += ","
		}
		s += q(a)
	}
	l.h = h
	if len(l.last) >= 30 {
		copy(l.last, l.last[1:])
		l.last = l.last[:29]
	}
	l.last = append(l.last, s+")")
}

// ------------------------------------------------------------------ ordset

// ordsetMinRefusal: a refusal needs a full tree node (128 leaves); a leaf is created by splitting a full leaf
// into parts of at least 32 keys and never shrinks, so fewer than 128*32 keys can never be refused.
const ordsetMinRefusal = 4096

type setModel struct{ keys []string }

func (m *setModel) has(k string) bool { _, ok := slices.BinarySearch(m.keys, k); return ok }
func (m *setModel) insert(k string) {
	i, ok := slices.BinarySearch(m.keys, k)
	if !ok {
		m.keys = slices.Insert(m.keys, i, k)
	}
}
func (m *setModel) anyInRange(from, to string) bool {
	i := sort.SearchStrings(m.keys, from)
	return i < len(m.keys) && m.keys[i] <= to
}

func bigOrder(r *rand.Rand, n int) (name string, next func(i int) int) {
	switch r.IntN(5) {
	case 0:
		return "ascending", func(i int) int { return i }
	case 1:
		return "descending", func(i int) int { return n - 1 - i }
	case 2:
		perm := r.Perm(n)
		return "random", func(i int) int { return perm[i] }
	case 3:
		return "zigzag", func(i int) int {
			if i%2 == 0 {
				return i / 2
			}
			return n - 1 - i/2
		}
	default: // blocks of ascending runs placed in random order: repeated splits in the middle
		bs := 50 + r.IntN(200)
		nb := (n + bs - 1) / bs
		perm := r.Perm(nb)
		return "blocks", func(i int) int {
			v := perm[i/bs]*bs + i%bs
			if v >= n {
				v = n - 1 - (i % bs) // duplicates at the end are fine
			}
			return v
		}
	}
}

func runOrdset(rep *vk.Report, r *rand.Rand, idx int, big bool) (uint64, bool) {
	var set ordset.Set
	var m setModel
	var log opLog
	key := caseKey("ordset", idx)
	pos, neg, refusals := 0, 0, 0
	viol := func(class, what string, detail map[string]any) {
		detail["what"] = what
		detail["last_ops"] = slices.Clone(log.last)
		detail["model_size"] = len(m.keys)
		rep.Violate("C39/ordset/"+class, key+": "+what, detail)
	}
	if !set.Empty() {
		viol("empty-wrong", "Empty() is false on a new set", map[string]any{})
	}
	if (*ordset.Set)(nil).Contains("a") || (*ordset.Set)(nil).AnyInRange("", "\xff") {
		viol("nil-set", "nil set claims to contain something", map[string]any{})
	}
	doInsert := func(k string) {
		log.add("Insert", k)
		ok := set.Insert(k)
		if !ok {
			refusals++
			rep.Count("ordset_refusals", 1)
			if len(m.keys) < ordsetMinRefusal {
				viol("refused-below-capacity", fmt.Sprintf("Insert(%s) refused with %d keys", q(k), len(m.keys)), map[string]any{})
			}
			if set.Contains(k) != m.has(k) {
				viol("changed-by-refused-insert", fmt.Sprintf("after refused Insert(%s) Contains=%v", q(k), !m.has(k)), map[string]any{})
			}
			return
		}
		m.insert(k)
		if !set.Contains(k) {
			viol("inserted-key-missing", fmt.Sprintf("Insert(%s)=true but Contains is false", q(k)), map[string]any{})
		}
	}
	doContains := func(k string) {
		log.add("Contains", k)
		want := m.has(k)
		if want {
			pos++
		} else {
			neg++
		}
		if got := set.Contains(k); got != want {
			viol("contains-wrong", fmt.Sprintf("Contains(%s)=%v, model %v", q(k), got, want), map[string]any{})
		}
	}
	doRange := func(from, to string) {
		log.add("AnyInRange", from, to)
		want := m.anyInRange(from, to)
		if want {
			pos++
		} else {
			neg++
		}
		if got := set.AnyInRange(from, to); got != want {
			viol("anyinrange-wrong", fmt.Sprintf("AnyInRange(%s,%s)=%v, model %v", q(from), q(to), got, want), map[string]any{})
		}
	}
	probe := func(g keyGen) string {
		if len(m.keys) > 0 && r.IntN(3) > 0 {
			return near(r, m.keys[r.IntN(len(m.keys))])
		}
		return g.key(r)
	}
	queries := func(g keyGen, n int) {
		for j := 0; j < n; j++ {
			if r.IntN(2) == 0 {
				doContains(probe(g))
			} else {
				a, b := probe(g), probe(g)
				if a > b && r.IntN(5) > 0 {
					a, b = b, a
				}
				doRange(a, b)
			}
		}
	}
	if big {
		n := 14000 + r.IntN(8000)
		name, next := bigOrder(r, n)
		rep.Seen("ordset_big_order", name)
		g := keyGen{mode: 1, domain: n}
		after := -1
		for i := 0; i < n; i++ {
			doInsert(fmt.Sprintf("%08d", next(i)*3))
			if i%97 == 0 {
				queries(g, 3)
			}
			if refusals > 0 && after < 0 {
				after = i
				rep.Count("ordset_capacity_reached", 1)
				rep.Max("ordset_min_size_at_refusal_seen_max", len(m.keys))
			}
			if after >= 0 && i > after+300 {
				break
			}
		}
		rep.Max("ordset_max_size", len(m.keys))
	} else {
		ops := 10 + r.IntN(50)
		if r.IntN(5) == 0 {
			ops = 100 + r.IntN(2900)
		}
		g := newKeyGen(r, ops)
		for i := 0; i < ops; i++ {
			switch c := r.IntN(20); {
			case c < 11:
				doInsert(g.key(r))
				if len(m.keys) == 1 && set.Empty() {
					viol("empty-wrong", "Empty() is true after an insert", map[string]any{})
				}
			case c < 12 && len(m.keys) > 0:
				doInsert(near(r, m.keys[r.IntN(len(m.keys))]))
			default:
				queries(g, 1)
			}
		}
	}
	// final sweep: every member is found, every gap between neighbours is empty
	step := 1
	if len(m.keys) > 2000 {
		step = len(m.keys) / 2000
	}
	for i := 0; i < len(m.keys); i += step {
		k := m.keys[i]
		if !set.Contains(k) || !set.AnyInRange(k, k) {
			viol("member-lost", fmt.Sprintf("member %s not found in the final sweep", q(k)), map[string]any{})
			break
		}
		pos++
		succ := k + "\x00"
		if i+1 < len(m.keys) && succ < m.keys[i+1] {
			neg++
			if set.Contains(succ) || set.AnyInRange(succ, succ) {
				viol("phantom-member", fmt.Sprintf("%s reported although it was never inserted", q(succ)), map[string]any{})
				break
			}
			// the whole gap up to (not including) the next key
			nk := m.keys[i+1]
			if nk[len(nk)-1] > 0 {
				below := nk[:len(nk)-1] + string([]byte{nk[len(nk)-1] - 1})
				if below >= succ && !m.anyInRange(succ, below) && set.AnyInRange(succ, below) {
					viol("anyinrange-wrong", fmt.Sprintf("AnyInRange(%s,%s)=true in a gap", q(succ), q(below)), map[string]any{})
					break
				}
			}
		}
	}
	rep.Count("ordset_ops", log.n)
	sampleOps = append([]string{fmt.Sprintf("(%d operations, %d keys in the set at the end)", log.n, len(m.keys))}, log.last...)
	return log.h, log.n > 0 && pos > 0 && neg > 0
}

// ------------------------------------------------------------------ ranges

// rangesMinFull: Full needs a full leaf, i.e. at least 128 ranges (ranges can be merged away, so leaves do shrink).
const rangesMinFull = 128

type ival struct{ from, to string }

type rangeModel struct{ rs []ival } // sorted by from, pairwise disjoint (closed intervals)

func (m *rangeModel) contains(v string) bool {
	i := sort.Search(len(m.rs), func(i int) bool { return m.rs[i].from > v })
	return i > 0 && v <= m.rs[i-1].to
}

// insert merges [from,to] in and returns the change in the number of ranges.
func (m *rangeModel) insert(from, to string) int {
	// first range that could overlap: the first with to >= from
	lo := sort.Search(len(m.rs), func(i int) bool { return m.rs[i].to >= from })
	hi := lo
	nf, nt := from, to
	for hi < len(m.rs) && m.rs[hi].from <= to {
		nf = min(nf, m.rs[hi].from)
		nt = max(nt, m.rs[hi].to)
		hi++
	}
	old := len(m.rs)
	m.rs = slices.Replace(m.rs, lo, hi, ival{nf, nt})
	return len(m.rs) - old
}

func runRanges(rep *vk.Report, r *rand.Rand, idx int, big bool) (uint64, bool) {
	var rs ranges.Ranges
	var m rangeModel
	var log opLog
	key := caseKey("ranges", idx)
	pos, neg, fulls := 0, 0, 0
	viol := func(class, what string, detail map[string]any) {
		detail["what"] = what
		detail["last_ops"] = slices.Clone(log.last)
		detail["model_ranges"] = len(m.rs)
		if len(m.rs) <= 12 {
			detail["model"] = fmt.Sprintf("%q", m.rs)
			detail["real"] = fmt.Sprintf("%q", rs.String())
		}
		rep.Violate("C39/ranges/"+class, key+": "+what, detail)
	}
	if (*ranges.Ranges)(nil).Contains("a") {
		viol("nil-ranges", "nil Ranges claims to contain something", map[string]any{})
	}
	doInsert := func(from, to string) {
		log.add("Insert", from, to)
		ret := rs.Insert(from, to)
		if ret == ranges.Full {
			fulls++
			rep.Count("ranges_full", 1)
			if len(m.rs) < rangesMinFull {
				viol("full-below-capacity", fmt.Sprintf("Insert(%s,%s)=Full with %d ranges", q(from), q(to), len(m.rs)), map[string]any{})
			}
			return
		}
		was := m.contains(from) && m.contains(to) && func() bool { // contained in ONE existing range?
			i := sort.Search(len(m.rs), func(i int) bool { return m.rs[i].from > from })
			return i > 0 && to <= m.rs[i-1].to
		}()
		delta := m.insert(from, to)
		if ret != delta {
			viol("insert-return-wrong", fmt.Sprintf("Insert(%s,%s)=%d, the number of ranges changed by %d", q(from), q(to), ret, delta), map[string]any{"already_contained": was})
		}
		if was {
			rep.Count("ranges_insert_existed", 1)
		} else if delta < 1 {
			rep.Count("ranges_insert_merged", 1)
		}
		if delta < 0 {
			rep.Count("ranges_insert_merged_several", 1)
		}
		if !rs.Contains(from) || !rs.Contains(to) {
			viol("inserted-range-missing", fmt.Sprintf("after Insert(%s,%s) an end point is not contained", q(from), q(to)), map[string]any{})
		}
	}
	doContains := func(v string) {
		log.add("Contains", v)
		want := m.contains(v)
		if want {
			pos++
		} else {
			neg++
		}
		if got := rs.Contains(v); got != want {
			viol("contains-wrong", fmt.Sprintf("Contains(%s)=%v, model %v", q(v), got, want), map[string]any{})
		}
	}
	probe := func(g keyGen) string {
		if len(m.rs) > 0 && r.IntN(3) > 0 {
			iv := m.rs[r.IntN(len(m.rs))]
			if r.IntN(2) == 0 {
				return near(r, iv.from)
			}
			return near(r, iv.to)
		}
		return g.key(r)
	}
	genRange := func(g keyGen) (string, string) {
		a := probe(g)
		var b string
		switch r.IntN(4) {
		case 0:
			b = a // a point
		case 1:
			b = a + string(alpha[r.IntN(len(alpha))]) // a short range starting at a
		default:
			b = probe(g)
		}
		if a > b {
			a, b = b, a
		}
		return a, b
	}
	if big {
		n := 14000 + r.IntN(8000)
		name, next := bigOrder(r, n)
		rep.Seen("ranges_big_order", name)
		g := keyGen{mode: 1, domain: n}
		width := r.IntN(3) // 0: points, 1: [k, k+"5"], 2: mixed
		after := -1
		for i := 0; i < n; i++ {
			v := next(i) * 4
			from := fmt.Sprintf("%08d", v)
			to := from
			if width == 1 || (width == 2 && r.IntN(2) == 0) {
				to = from + "5"
			}
			doInsert(from, to)
			if i%97 == 0 {
				doContains(probe(g))
				doContains(fmt.Sprintf("%08d", r.IntN(n*4)))
			}
			if i%1500 == 1499 && r.IntN(2) == 0 { // a wide range swallowing many small ones (removes whole leaves)
				a, b := r.IntN(n*4), r.IntN(n*4)
				if a > b {
					a, b = b, a
				}
				b = min(b, a+r.IntN(n))
				doInsert(fmt.Sprintf("%08d", a), fmt.Sprintf("%08d", b))
				rep.Count("ranges_wide_merges", 1)
			}
			if fulls > 0 && after < 0 {
				after = i
				rep.Count("ranges_capacity_reached", 1)
			}
			if after >= 0 && i > after+300 {
				break
			}
		}
		rep.Max("ranges_max_count", len(m.rs))
	} else {
		ops := 10 + r.IntN(50)
		if r.IntN(5) == 0 {
			ops = 100 + r.IntN(2900)
		}
		g := newKeyGen(r, ops)
		for i := 0; i < ops; i++ {
			if r.IntN(20) < 11 {
				doInsert(genRange(g))
			} else {
				doContains(probe(g))
			}
		}
	}
	// final sweep: end points in, gaps out
	step := 1
	if len(m.rs) > 2000 {
		step = len(m.rs) / 2000
	}
	for i := 0; i < len(m.rs); i += step {
		iv := m.rs[i]
		pos++
		if !rs.Contains(iv.from) || !rs.Contains(iv.to) {
			viol("member-lost", fmt.Sprintf("end point of %s..%s not contained in the final sweep", q(iv.from), q(iv.to)), map[string]any{})
			break
		}
		if iv.from < iv.to {
			mid := iv.from + "\x00"
			if mid <= iv.to && !rs.Contains(mid) {
				viol("member-lost", fmt.Sprintf("%s inside %s..%s not contained", q(mid), q(iv.from), q(iv.to)), map[string]any{})
				break
			}
		}
		succ := iv.to + "\x00"
		if i+1 >= len(m.rs) || succ < m.rs[i+1].from {
			neg++
			if rs.Contains(succ) {
				viol("phantom-member", fmt.Sprintf("%s contained although it is outside every inserted range", q(succ)), map[string]any{})
				break
			}
		}
	}
	rep.Count("ranges_ops", log.n)
	sampleOps = append([]string{fmt.Sprintf("(%d operations, %d disjoint ranges at the end)", log.n, len(m.rs))}, log.last...)
	return log.h, log.n > 0 && pos > 0 && neg > 0
}
