// C39 Ordered sets, range sets and sort lists behave as their abstract types.
//
// Black-box model-based monitors for util/ordset, util/ranges, util/sortlist, util/bloom, util/roaring,
// util/shmap, util/lrucache and util/cache. Every utility is driven with generated operation histories and every
// answer is compared with an independent model written here (sorted slice, interval list, sorted permutation,
// Go map/set). Files: c39_test.go (driver, key generators), ordered_test.go (ordset, ranges),
// sortlist_test.go, misc_test.go (bloom, roaring, shmap, lrucache, cache).
package c39

import (
	"fmt"
	"math/rand/v2"
	"testing"

	vk "github.com/apmckinlay/gsuneido/util/verifkit"
)

// hostile alphabet: the smallest and largest bytes, neighbours, and plain letters
var alpha = []byte{0x00, 0x01, 'a', 'b', 'c', 0x7f, 0x80, 0xff}

// keyGen produces strings from one of several domains so that histories contain duplicates, neighbours
// (k, k+"\x00"), prefixes, the empty string and the extreme bytes.
type keyGen struct {
	mode   int
	domain int
}

func newKeyGen(r *rand.Rand, ops int) keyGen {
	return keyGen{mode: r.IntN(4), domain: 1 + r.IntN(2*ops+2)}
}

func (g keyGen) key(r *rand.Rand) string {
	switch g.mode {
	case 0: // tiny: strings of length 0..3 over the hostile alphabet
		n := r.IntN(4)
		b := make([]byte, n)
		for i := range b {
			b[i] = alpha[r.IntN(len(alpha))]
		}
		return string(b)
	case 1: // fixed width decimals from a domain about the size of the history
		return fmt.Sprintf("%06d", r.IntN(g.domain))
	case 2: // unpadded decimals (prefix relations: "1" < "10" < "2")
		return fmt.Sprint(r.IntN(g.domain))
	default: // random bytes, length 1..5
		n := 1 + r.IntN(5)
		b := make([]byte, n)
		for i := range b {
			if r.IntN(3) == 0 {
				b[i] = alpha[r.IntN(len(alpha))]
			} else {
				b[i] = byte(r.IntN(256))
			}
		}
		return string(b)
	}
}

// near returns a string close to k in the order: k itself, its immediate successor, a prefix,
// something just below it, or something far away.
func near(r *rand.Rand, k string) string {
	switch r.IntN(7) {
	case 0:
		return k
	case 1:
		return k + "\x00" // immediate successor
	case 2:
		if len(k) > 0 {
			return k[:len(k)-1] // a prefix: smaller
		}
		return ""
	case 3:
		if len(k) > 0 && k[len(k)-1] > 0 { // just below: last byte-1 followed by 0xff
			return k[:len(k)-1] + string([]byte{k[len(k)-1] - 1, 0xff})
		}
		return k
	case 4:
		return k + "\xff"
	case 5:
		if len(k) > 0 && k[len(k)-1] < 0xff {
			return k[:len(k)-1] + string([]byte{k[len(k)-1] + 1})
		}
		return k + "a"
	default:
		return ""
	}
}

// sampleOps is set by every suite run to (the tail of) the operation history it just executed, for evidence samples.
var sampleOps []string

func q(s string) string { return fmt.Sprintf("%q", s) }

type suite struct {
	name            string
	quick, thorough int
	run             func(rep *vk.Report, r *rand.Rand, i int, big bool) (hash uint64, nontrivial bool)
	bigEvery        int // every n-th history is a large (capacity) one
}

func TestVerifC39(t *testing.T) {
	rep := vk.NewReport("C39",
		"a case is one operation history on one fresh container, generated from (seed, shard, suite, index): ordset/ranges histories of 10-3000 operations over "+
			"hostile string domains (plus capacity histories of up to 20000 insertions in ascending/descending/random/zigzag order), sortlist builds of 0-40000 values around "+
			"the 4096 block boundaries with re-sorts and iterator walks, bloom/roaring/shmap/lrucache/cache histories with colliding hashes and threshold crossings. "+
			"Non-trivial = the history contains at least one mutation and one query whose model answer is positive and one whose model answer is negative "+
			"(sortlist: at least 2 values). Distinct by hash of the generated operation list",
		"the models are plain Go slices/maps written for this check; ties between equal sort keys may come out in any order",
		"refusals (ordset Insert=false, ranges Insert=Full) are legal only at or above the smallest size at which the documented 128x128 node layout can be full "+
			"(ordset 4096 keys, ranges 128 ranges) and must leave the contents unchanged")
	defer rep.Finish()
	suites := []suite{
		{"ordset", 2400, 60000, runOrdset, 60},
		{"ranges", 2400, 60000, runRanges, 60},
		{"sortlist", 1200, 20000, runSortlist, 0},
		{"bloom", 1200, 30000, runBloom, 0},
		{"roaring", 1200, 20000, runRoaring, 0},
		{"shmap", 2400, 60000, runShmap, 0},
		{"lrucache", 2400, 60000, runLru, 0},
		{"cache", 2400, 60000, runCache, 0},
	}
	sampled := map[string]int{}
	for si, s := range suites {
		n := vk.N(s.quick, s.thorough)
		for i := 0; i < n; i++ {
			r := vk.RandFor(uint64(3900+si), i)
			big := s.bigEvery > 0 && i%s.bigEvery == s.bigEvery-1
			rep.Case("%s history %d seed=%d shard=%d/%d big=%v", s.name, i, vk.Seed(), vk.Shard(), vk.NShards(), big)
			var h uint64
			var nt bool
			p, stack := vk.Catch(func() { h, nt = s.run(rep, r, i, big) })
			if p != nil {
				rep.Violate("C39/"+s.name+"/panic", fmt.Sprintf("%s history %d seed=%d shard=%d/%d: %v", s.name, i, vk.Seed(), vk.Shard(), vk.NShards(), p),
					map[string]any{"panic": fmt.Sprint(p), "stack": vk.Trunc(stack, 3000)})
				h = vk.Hash64(s.name, i, "panic")
			}
			rep.Eval(h, nt)
			if nt && p == nil && si%vk.NShards() == vk.Shard()%len(suites) && sampled[s.name] < 1 && rep.WantSample() && len(sampleOps) > 0 {
				sampled[s.name]++
				ops := sampleOps
				if len(ops) > 12 {
					ops = ops[len(ops)-12:]
				}
				rep.Sample(map[string]any{"suite": s.name, "history": i, "big": big, "last_operations": ops, "verdict": "agrees with the model"})
			}
			sampleOps = nil
			rep.Count(s.name+"_histories", 1)
		}
	}
}

func caseKey(suite string, i int) string {
	return fmt.Sprintf("%s history %d seed=%d shard=%d/%d", suite, i, vk.Seed(), vk.Shard(), vk.NShards())
}
