// C19 Historical reads show the state as of the requested time.
// Black-box monitor: histories with a dozen persisted states (and a close/reopen in the
// middle for file databases); every state's offset and time stamp is recorded (the time is
// decoded from the state record's bytes by the harness) together with the plain-Go model.
// ReadTran.Asof(t) for many t and walks of Asof(-1)/Asof(+1) are compared with that record.
package c19

import (
	"fmt"
	"os"
	"path/filepath"
	"strings"
	"testing"
	"time"

	"github.com/apmckinlay/gsuneido/db19"
	vk "github.com/apmckinlay/gsuneido/util/verifkit"
	"github.com/apmckinlay/gsuneido/zzverif/dbhist"
)

type stateRec struct {
	Off   uint64
	Time  int64
	Model *dbhist.Model
}

func TestVerifC19(t *testing.T) {
	rep := vk.NewReport("C19",
		"a case is one history with 8-14 persisted states (time stamps >= 2 ms apart, schema and data changes between them; file databases are closed "+
			"and reopened once) plus the queries made on it: Asof(t) for every state time, +-1 ms, midpoints, before the first state, the future; and "+
			"walks of Asof(-1)/Asof(+1) from every position incl. after Asof(before first); non-trivial = >= 6 states with pairwise different contents; "+
			"distinct by the text of the history",
		"time stamps of the persisted states are strictly increasing (the harness sleeps between persists; real time is only a stimulus)")
	defer rep.Finish()
	dbhist.Setup()
	dir := filepath.Join(vk.OutDir(), fmt.Sprintf("c19-%d", vk.Shard()))
	os.MkdirAll(dir, 0o755)
	defer os.RemoveAll(dir)
	n := vk.N(200, 4000)
	only := -1
	if s := os.Getenv("VERIF_ONLY_CASE"); s != "" {
		fmt.Sscan(s, &only)
	}
	for i := 0; i < n; i++ {
		if only >= 0 && i != only {
			continue
		}
		rep.Case("history %d (seed %d shard %d)", i, vk.Seed(), vk.Shard())
		runHistory(rep, i, filepath.Join(dir, fmt.Sprintf("h%d.db", i)))
	}
}

func runHistory(rep *vk.Report, idx int, path string) {
	r := vk.RandFor(19, idx)
	heap := idx%4 == 3 || idx%4 == 2 && idx%3 == 0
	magicData := idx%4 == 1 // a row whose value contains the byte pattern that starts a state record
	var real *dbhist.Real
	if heap {
		chunk := []int{8 * 1024, 16 * 1024, 8 * 1024, 32 * 1024, 64 * 1024}[r.IntN(5)]
		real = dbhist.CreateHeapRealChunk(time.Hour, chunk)
		rep.Count(fmt.Sprintf("heap_histories_chunk_%dk", chunk/1024), 1)
	} else {
		os.Remove(path)
		var err error
		if real, err = dbhist.CreateReal(path, time.Hour); err != nil {
			rep.Violate("C19/harness/create-failed", path, err.Error())
			return
		}
		defer os.Remove(path)
	}
	h := dbhist.NewHist(r, real)
	h.G.AvoidKnownC21 = true
	h.SyncIndexBuild = true
	h.G.MaxRows = 20
	h.G.TablePool = []string{"t0", "t1", "t2", "t3"}
	key := fmt.Sprintf("seed=%d shard=%d history=%d", vk.Seed(), vk.Shard(), idx)
	var states []stateRec
	nontrivial := false
	defer func() {
		dbhist.Catch(func() { h.Real.DB.Close() })
		rep.Eval(vk.Hash64(strings.Join(h.Log, "\n")), nontrivial)
		if rep.WantSample() {
			var ts []int64
			for _, s := range states {
				ts = append(ts, s.Time)
			}
			rep.Sample(map[string]any{"history": idx, "state_times": ts, "tail": h.Tail(6)})
		}
	}()
	record := func(st *db19.DbState) {
		if n := len(states); n > 0 && states[n-1].Off == st.Off {
			return
		}
		b := h.Real.DB.Store.Data(st.Off)
		states = append(states, stateRec{Off: st.Off, Time: dbhist.StateTime(b[:dbhist.StateLen]), Model: h.M.Clone()})
	}
	h.PrePersist = func() { time.Sleep(2 * time.Millisecond) } // distinct time stamps (stimulus only)
	h.OnPersist = func(st *db19.DbState) { record(st); time.Sleep(2 * time.Millisecond) }
	npersist := 8 + r.IntN(7)
	reopenAt := -1
	if !heap {
		reopenAt = 2 + r.IntN(npersist-3)
	}
	for p := 0; p < npersist; p++ {
		// changes: at least one committed change so that the persist writes a new state
		for k, changed := 0, false; k < 6 || !changed; k++ {
			if len(h.M.Tables) < 2 || r.IntN(4) == 0 {
				ok, _, _ := h.DoAdmin(h.G.NextAdmin())
				changed = changed || ok
			} else {
				res := h.DoTxn(h.G.NextTxn(4), "commit")
				changed = changed || (res.Committed && len(h.Log) > 0)
			}
			if h.Abandoned != "" {
				rep.Count("histories_abandoned_model_divergence", 1)
				return
			}
			if k > 40 {
				break
			}
		}
		if magicData && p == 1 {
			q := &dbhist.Req{Kind: "create", Table: "zm", Cols: []string{"k", "v"}, Idx: []dbhist.Index{{Mode: 'k', Cols: []string{"k"}}}}
			if ok, _, _ := h.DoAdmin(q); ok {
				row := dbhist.Row{{IsInt: true, I: 1}, {S: "x" + dbhist.StateMagic1 + "yyyyyyyyyyyyyyyyyyyy" + dbhist.StateMagic2[:3]}}
				if res := h.DoTxn([]dbhist.Op{{Kind: "ins", Table: "zm", Row: row}}, "commit"); res.Committed {
					rep.Count("histories_with_state_magic_inside_data", 1)
				}
			}
		}
		h.Persist()
		if p == reopenAt {
			// close and reopen: the final state written by Close is one more persisted state
			var perr any
			perr, _ = dbhist.Catch(func() { h.Real.DB.Close() })
			if perr != nil {
				rep.Violate("C19/harness/close-failed", key, fmt.Sprint(perr))
				return
			}
			data, err := os.ReadFile(path)
			if err != nil {
				return
			}
			offs := dbhist.ScanStates(data)
			for _, o := range offs {
				if uint64(o) > states[len(states)-1].Off {
					states = append(states, stateRec{Off: uint64(o), Time: dbhist.StateTime(data[o : o+dbhist.StateLen]), Model: h.M.Clone()})
				}
			}
			time.Sleep(2 * time.Millisecond)
			r2, err := dbhist.OpenReal(path, time.Hour)
			if err != nil {
				rep.Count("reopen_failed_while_building", 1) // C04's business
				return
			}
			h.Real = r2
			rep.Count("histories_with_reopen", 1)
		}
	}
	for i := 1; i < len(states); i++ {
		if states[i].Time <= states[i-1].Time {
			rep.Count("histories_with_non_increasing_time_stamps", 1)
			return // outside the property's quantifier
		}
	}
	// some unpersisted changes on top (the current state differs from the last persisted one)
	for k := 0; k < 3; k++ {
		h.DoTxn(h.G.NextTxn(3), "commit")
	}
	if h.Abandoned != "" {
		return
	}
	distinct := map[string]bool{}
	for _, s := range states {
		distinct[fmt.Sprint(s.Model.Logical(), len(s.Model.Tables), s.Model.Views)] = true
	}
	nontrivial = len(distinct) >= 6
	rep.Count("states_recorded", len(states))
	rep.Count("histories", 1)
	db := h.Real.DB
	detail := func(extra map[string]any) map[string]any {
		var ts []string
		for i, s := range states {
			ts = append(ts, fmt.Sprintf("%d: off %d time %d", i, s.Off, s.Time))
		}
		extra["states"] = ts
		extra["history"] = h.Tail(200)
		return extra
	}
	lastQuery := ""
	// check that the read transaction shows state i (time stamp and contents)
	shows := func(rt *db19.ReadTran, got int64, i int, what string, contents bool) bool {
		if got != states[i].Time {
			which := "no-recorded-state"
			for j := range states {
				if states[j].Time == got {
					which = fmt.Sprintf("state%+d", j-i)
				}
			}
			if got == 0 {
				which = "nothing"
			}
			rep.Violate("C19/"+what+"/wrong-state/"+which, key, detail(map[string]any{"returned_time": got, "expected_state": i, "query": lastQuery}))
			return false
		}
		if contents {
			var snap *dbhist.Snap
			p, _ := dbhist.Catch(func() { snap = dbhist.TakeSnapRT(db, rt) })
			if p != nil {
				rep.Violate("C19/"+what+"/contents-unreadable", key, detail(map[string]any{"panic": fmt.Sprint(p), "expected_state": i}))
				return false
			}
			if d := snap.DiffModel(states[i].Model); len(d) > 0 {
				rep.Violate("C19/"+what+"/wrong-contents", key, detail(map[string]any{"diff": d, "expected_state": i}))
				return false
			}
			rep.Count("contents_compared", 1)
		}
		return true
	}
	asof := func(rt *db19.ReadTran, t int64, what string) (int64, bool) {
		var got int64
		lastQuery = fmt.Sprintf("%s Asof(%d)", what, t)
		p, stack := dbhist.Catch(func() { got = rt.Asof(t) })
		if p != nil {
			class := "C19/" + what + "/panics"
			if magicData && strings.Contains(fmt.Sprint(p), "checksum") {
				class += "/state-magic-inside-data"
			}
			rep.Violate(class, key, detail(map[string]any{"panic": fmt.Sprint(p), "t": t, "at": dbhist.CompactStack(stack)}))
			return 0, false
		}
		return got, true
	}
	expectedFor := func(t int64) int {
		e := 0
		for i := range states {
			if states[i].Time <= t {
				e = i
			}
		}
		return e
	}
	// 1. Asof(t)
	var times []int64
	for i, s := range states {
		times = append(times, s.Time, s.Time-1, s.Time+1)
		if i > 0 {
			times = append(times, (s.Time+states[i-1].Time)/2)
		}
	}
	times = append(times, states[0].Time-1000, 2, states[0].Time-1) // note: -1, 0 and 1 are the step / query codes
	r.Shuffle(len(times), func(i, j int) { times[i], times[j] = times[j], times[i] })
	rt := db.NewReadTran()
	for qi, t := range times {
		if t <= 1 {
			continue
		}
		if qi%3 == 0 {
			rt = db.NewReadTran() // both fresh and re-used read transactions
		}
		got, ok := asof(rt, t, "asof")
		if !ok {
			return
		}
		what := "asof"
		if t < states[0].Time {
			what = "asof-before-first"
		}
		rep.Count("asof_queries", 1)
		if !shows(rt, got, expectedFor(t), what, qi%2 == 0 || t < states[0].Time) {
			return
		}
		// Asof(0) reports the current position's time
		if z, ok := asof(rt, 0, "asof-zero"); ok && z != got {
			rep.Violate("C19/asof-zero/wrong-time", key, detail(map[string]any{"returned": z, "position_time": got}))
			return
		}
	}
	// the future shows the current state (with the unpersisted changes)
	{
		rt := db.NewReadTran()
		if _, ok := asof(rt, time.Now().UnixMilli()+3600_000, "asof-future"); !ok {
			return
		}
		var snap *dbhist.Snap
		p, _ := dbhist.Catch(func() { snap = dbhist.TakeSnapRT(db, rt) })
		if p != nil {
			rep.Violate("C19/asof-future/contents-unreadable", key, detail(map[string]any{"panic": fmt.Sprint(p)}))
			return
		}
		if d := snap.DiffModel(h.M); len(d) > 0 {
			rep.Violate("C19/asof-future/wrong-contents", key, detail(map[string]any{"diff": d}))
			return
		}
		rep.Count("asof_future_queries", 1)
	}
	// 2. walks
	last := len(states) - 1
	for w := 0; w < 10; w++ {
		rt := db.NewReadTran()
		var pos int
		switch w {
		case 0: // before the first state, then forward through all states
			got, ok := asof(rt, states[0].Time-5, "walk-start")
			if !ok || !shows(rt, got, 0, "asof-before-first", false) {
				return
			}
			pos = 0
			rep.Count("walks_from_before_first", 1)
		case 1: // a fresh read transaction steps back to the last persisted state
			got, ok := asof(rt, -1, "step")
			if !ok || !shows(rt, got, last, "step-back-from-current", true) {
				return
			}
			pos = last
		default:
			pos = r.IntN(len(states))
			got, ok := asof(rt, states[pos].Time, "walk-start")
			if !ok || !shows(rt, got, pos, "asof", false) {
				return
			}
		}
		steps := 6 + r.IntN(2*len(states))
		for s := 0; s < steps; s++ {
			dir := int64(1)
			if (w == 0 && s >= len(states)+1) || (w != 0 && r.IntN(2) == 0) {
				dir = -1
			}
			got, ok := asof(rt, dir, "step")
			if !ok {
				return
			}
			rep.Count("steps", 1)
			next := pos + int(dir)
			what := "step-forward"
			if dir < 0 {
				what = "step-back"
			}
			if w == 0 && s == 0 {
				what = "step-after-asof-before-first"
			}
			if next < 0 || next > last {
				// no such state: reports 0 and stays where it is
				rep.Count("steps_beyond_the_ends", 1)
				if got != 0 {
					rep.Violate("C19/"+what+"/beyond-end-returns-state", key, detail(map[string]any{"returned_time": got, "position": pos}))
					return
				}
				if z, ok := asof(rt, 0, "asof-zero"); ok && z != states[pos].Time {
					rep.Violate("C19/"+what+"/beyond-end-moved", key, detail(map[string]any{"returned": z, "position": pos}))
					return
				}
				continue
			}
			if !shows(rt, got, next, what, s%3 == 0) {
				return
			}
			pos = next
		}
	}
}
