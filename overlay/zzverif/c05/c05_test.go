// C05 Crash recovery restores the latest durable state.
// Black-box monitor with fault enumeration: a builder creates real file databases with
// several persisted states (and close/reopen inside) and records, for every state, its
// offset and the plain-Go model; then crash cases (file ends at byte L; tail absent /
// zero-filled / PRNG garbage) are run in sub-child processes (a SIGBUS or runtime throw in
// check/repair kills only the sub-child) and judged against the recorded states.
package c05

import (
	"bytes"
	"encoding/json"
	"fmt"
	"log"
	"math/rand/v2"
	"os"
	"os/exec"
	"path/filepath"
	"regexp"
	"runtime"
	"sort"
	"strings"
	"testing"
	"time"

	"github.com/apmckinlay/gsuneido/db19"
	vk "github.com/apmckinlay/gsuneido/util/verifkit"
	"github.com/apmckinlay/gsuneido/zzverif/dbhist"
)

// the on-disk format constants, restated here (independent of db19's unexported ones)
const (
	magic1   = "\x01\x23\x45\x67\x89\xab\xcd\xef"
	magic2   = "\xfe\xdc\xba\x98\x76\x54\x32\x10"
	shutdown = "\x2b\xc1\x85\x63\x8d\x71\x65\x6d"
	stateLen = 36 // magic1 8, time 8, two 5-byte offsets, checksum 2, magic2 8
	magic2At = 28
	tailLen  = 8
	page     = 4096
)

type stateRec struct {
	Off        uint64
	Model      *dbhist.Model
	SessionEnd bool // followed by the shutdown marker
}

type master struct {
	Name   string
	File   string
	Size   int
	States []stateRec
	Log    []string
}

type crashCase struct {
	L    int
	Mode string // absent zero zero64k garbage
	// Flow: "startup" = OpenDatabase fails -> CheckDatabase -> Repair (what the server does);
	// "action" = CheckDatabase -> Repair without a read-write open before (gsuneido -repair)
	Flow string
}

type job struct {
	Master string // meta json
	Cases  []crashCase
	From   int
	Out    string
	Dir    string
}

type finding struct {
	Class  string
	Detail map[string]any
}

type caseResult struct {
	Idx        int
	L          int
	Mode       string
	Kind       string // clean-open repaired-to-state no-state-refused
	Expected   int    // index of the expected state (-1 none)
	InsideWhat string // what the cut lies in: state marker data page-aligned-in-state
	Findings   []finding
	Fatal      string // core.Fatal message seen (clear refusal)
}

//-------------------------------------------------------------------
// builder

func scanStates(data []byte) []int {
	var offs []int
	for i := 0; ; {
		j := bytes.Index(data[i:], []byte(magic1))
		if j < 0 {
			break
		}
		off := i + j
		if off+stateLen <= len(data) && string(data[off+magic2At:off+stateLen]) == magic2 {
			offs = append(offs, off)
		}
		i = off + 1
	}
	return offs
}

func buildMaster(r *rand.Rand, path string, targetSize int, sessions int, aimTries int, bigMax int) (*master, error) {
	os.Remove(path)
	real, err := dbhist.CreateReal(path, time.Hour) // only forced persists and Close write states
	if err != nil {
		return nil, err
	}
	h := dbhist.NewHist(r, real)
	h.G.AvoidKnownC21 = true
	h.G.NoCompositeFk = true
	h.G.BigRecs = true
	h.G.BigMax = bigMax
	h.G.MaxRows = 40
	h.G.TablePool = []string{"t0", "t1", "t2", "t3", "u0"}
	h.SyncIndexBuild = true
	m := &master{File: path}
	h.OnPersist = func(st *db19.DbState) {
		if n := len(m.States); n > 0 && m.States[n-1].Off == st.Off {
			m.States[n-1].Model = h.M.Clone()
			return
		}
		m.States = append(m.States, stateRec{Off: st.Off, Model: h.M.Clone()})
	}
	q := &dbhist.Req{Kind: "create", Table: "zf", Cols: []string{"k", "v"}, Idx: []dbhist.Index{{Mode: 'k', Cols: []string{"k"}}}}
	if ok, _, e := h.DoAdmin(q); !ok {
		return nil, fmt.Errorf("create zf: %v", e)
	}
	fillerKey := 0
	closeSession := func() error {
		var p any
		p, _ = dbhist.Catch(func() { h.Real.DB.Close() })
		if p != nil {
			return fmt.Errorf("close: %v", p)
		}
		data, err := os.ReadFile(path)
		if err != nil {
			return err
		}
		offs := scanStates(data)
		known := map[uint64]bool{}
		for _, s := range m.States {
			known[s.Off] = true
		}
		for _, o := range offs {
			if !known[uint64(o)] {
				if len(m.States) > 0 && uint64(o) < m.States[len(m.States)-1].Off {
					return fmt.Errorf("unrecorded state at %d before the last recorded one", o)
				}
				m.States = append(m.States, stateRec{Off: uint64(o), Model: h.M.Clone()})
			}
		}
		last := &m.States[len(m.States)-1]
		end := int(last.Off) + stateLen
		if len(data) != end+tailLen || string(data[end:]) != shutdown {
			return fmt.Errorf("closed file does not end with state+marker: size %d last state %d", len(data), last.Off)
		}
		last.SessionEnd = true
		h.Log = append(h.Log, "close")
		return nil
	}
	size := func() int { return int(h.Real.DB.Store.Size()) }
	for s := 0; s < sessions; s++ {
		limit := targetSize * (s + 1) / sessions
		for steps := 0; size() < limit && steps < 3000; steps++ {
			w := r.IntN(100)
			switch {
			case w < 18 || len(h.M.Tables) < 3:
				h.DoAdmin(h.G.NextAdmin())
			case w < 86:
				h.DoTxn(h.G.NextTxn(6), "commit")
			default:
				h.Persist()
			}
			if h.Abandoned != "" {
				return nil, fmt.Errorf("model divergence: %s", h.Abandoned)
			}
		}
		// aim a state record across a page boundary (the case that needs reads beyond the file end to be safe)
		overhead, straddles, miss := 0, 0, 0
		for try := 0; try < aimTries && h.M.Tables["zf"] != nil; try++ {
			before := size()
			// where in its page the state should start: the page boundary then falls into a
			// different field of the state record each time
			w := []int{3, 9, 11, 14, 18, 23, 27, 30, 34}[(straddles+miss/3+s)%9]
			fill := (((-w-before-overhead)%page)+page)%page + 8
			fillerKey++
			row := dbhist.Row{{IsInt: true, I: 1000000 + fillerKey}, {S: strings.Repeat("f", fill)}}
			res := h.DoTxn([]dbhist.Op{{Kind: "ins", Table: "zf", Row: row}}, "commit")
			if !res.Committed {
				break
			}
			st := h.Persist()
			overhead = int(st.Off) - before - (fill - 8)
			if int(st.Off)%page > page-stateLen {
				if straddles++; straddles >= 3 {
					break
				}
			} else {
				miss++
			}
		}
		if err := closeSession(); err != nil {
			return nil, err
		}
		if s+1 < sessions {
			real2, err := dbhist.OpenReal(path, time.Hour)
			if err != nil {
				return nil, fmt.Errorf("reopen while building: %v", err)
			}
			h.Real = real2
		}
	}
	fi, err := os.Stat(path)
	if err != nil {
		return nil, err
	}
	m.Size = int(fi.Size())
	m.Log = h.Tail(400)
	return m, nil
}

//-------------------------------------------------------------------
// what a case should do

// expectedState: index of the newest state completely contained in [0,L)
func (m *master) expectedState(L int) int {
	e := -1
	for i := range m.States {
		if int(m.States[i].Off)+stateLen <= L {
			e = i
		}
	}
	return e
}

func (m *master) inside(L int) string {
	for i := range m.States {
		o := int(m.States[i].Off)
		if L > o && L < o+stateLen {
			if L%page == 0 {
				return "page-aligned-in-state"
			}
			return "state"
		}
		if m.States[i].SessionEnd && L >= o+stateLen && L < o+stateLen+tailLen {
			if L == o+stateLen {
				return "state-end-before-marker"
			}
			return "marker"
		}
		if m.States[i].SessionEnd && L == o+stateLen+tailLen {
			return "session-end"
		}
		if L == o+stateLen {
			return "state-end"
		}
	}
	if L < 8 {
		return "file-magic"
	}
	return "data"
}

// forgedTail: "garbage" that looks like a state record: the bytes of an older state of the
// same file with one bit of its time field flipped (so its checksum is wrong), optionally
// followed by a shutdown marker. Only the checksum tells it from a real state.
func forgedTail(m *master, data []byte, c crashCase, r *rand.Rand) []byte {
	exp := m.expectedState(c.L)
	if exp < 0 {
		return nil
	}
	src := exp
	if exp > 0 {
		src = r.IntN(exp) // an older one, so that accepting it shows
	}
	var b []byte
	frames := 1
	if c.Mode == "forgedmany" {
		// several state-like frames after the newest real state: repair's backward search (exponential, then
		// binary) has to step over all of them
		frames = 2 + r.IntN(8)
	}
	for f := 0; f < frames; f++ {
		for n := r.IntN(20); n > 0; n-- {
			b = append(b, byte(1+r.IntN(255)))
		}
		o := int(m.States[src].Off)
		st := append([]byte{}, data[o:o+stateLen]...)
		st[15] ^= 1
		if f > 0 {
			st[16+f%8] ^= byte(1 + f)
		}
		b = append(b, st...)
	}
	if c.Mode == "forgedmarker" {
		b = append(b, shutdown...)
	}
	return b
}

func tailBytes(m *master, data []byte, c crashCase, seed uint64) []byte {
	if c.Mode == "forged" || c.Mode == "forgedmarker" || c.Mode == "forgedmany" {
		r := rand.New(rand.NewPCG(seed, uint64(c.L)*2654435761+11))
		if b := forgedTail(m, data, c, r); b != nil {
			return b
		}
	}
	switch c.Mode {
	case "absent":
		return nil
	case "zero":
		n := page - c.L%page
		return make([]byte, n)
	case "zero64k":
		return make([]byte, 65536)
	}
	r := rand.New(rand.NewPCG(seed, uint64(c.L)*2654435761+7))
	lens := []int{1, 7, 8, 35, 36, 44, 100, page - c.L%page, 5000}
	n := lens[r.IntN(len(lens))]
	b := make([]byte, n)
	for i := range b {
		b[i] = byte(r.UintN(256))
	}
	if b[n-1] == 0 {
		b[n-1] = 0xa5 // garbage that ends in zeros is the zero tail mode
	}
	return b
}

//-------------------------------------------------------------------
// sub-child: runs a batch of cases

func runSub(jobFile string) {
	dbhist.Setup()
	var j job
	b, err := os.ReadFile(jobFile)
	if err != nil {
		panic(err)
	}
	if err := json.Unmarshal(b, &j); err != nil {
		panic(err)
	}
	var m master
	b, err = os.ReadFile(j.Master)
	if err != nil {
		panic(err)
	}
	if err := json.Unmarshal(b, &m); err != nil {
		panic(err)
	}
	data, err := os.ReadFile(m.File)
	if err != nil {
		panic(err)
	}
	out, err := os.OpenFile(j.Out, os.O_CREATE|os.O_WRONLY|os.O_APPEND, 0o644)
	if err != nil {
		panic(err)
	}
	defer out.Close()
	if err := os.Chdir(j.Dir); err != nil { // Repair creates its temp file in "."
		panic(err)
	}
	// keep the output of Repair ("+ 0 good") out of the logs
	devnull, _ := os.OpenFile(os.DevNull, os.O_WRONLY, 0)
	os.Stdout = devnull
	log.SetOutput(&logBuf) // FATAL / ERROR messages of the code under test
	for i := j.From; i < len(j.Cases); i++ {
		fmt.Fprintf(out, "S %d\n", i)
		// a fresh file per case: a refused open that ended in core.Fatal (= process exit in
		// production) leaves its descriptor and file lock behind in this process
		file := filepath.Join(j.Dir, fmt.Sprintf("c%d.db", i))
		res := runCase(&m, data, j.Cases[i], file)
		os.Remove(file)
		os.Remove(file + ".bak")
		res.Idx = i
		b, _ := json.Marshal(res)
		fmt.Fprintf(out, "R %s\n", b)
	}
	fmt.Fprintf(out, "DONE\n")
}

var logBuf bytes.Buffer

// call runs fn and classifies how it ended: normally, core.Fatal (ExitPanic), Suneido
// error panic or Go runtime error.
func call(fn func()) (kind string, val any, stack string) {
	p, st := dbhist.Catch(fn)
	switch e := p.(type) {
	case nil:
		return "", nil, ""
	case dbhist.ExitPanic:
		return "fatal", e, st
	case runtime.Error:
		return "go-runtime-error", e, st
	}
	return "panic", p, st
}

func runCase(m *master, data []byte, c crashCase, file string) (res caseResult) {
	res.L, res.Mode = c.L, c.Mode+"/"+c.Flow
	res.InsideWhat = m.inside(c.L)
	logBuf.Reset()
	add := func(class string, detail map[string]any) {
		if detail == nil {
			detail = map[string]any{}
		}
		detail["L"], detail["mode"], detail["flow"], detail["cut_inside"] = c.L, c.Mode, c.Flow, res.InsideWhat
		detail["db_size"] = m.Size
		detail["log"] = vk.Trunc(logBuf.String(), 1500)
		res.Findings = append(res.Findings, finding{class, detail})
	}
	content := append(append([]byte{}, data[:c.L]...), tailBytes(m, data, c, uint64(m.Size))...)
	if err := os.WriteFile(file, content, 0o644); err != nil {
		add("C05/harness/write-failed", map[string]any{"error": err.Error()})
		return
	}
	os.WriteFile(file+".bak", nil, 0o644) // RenameBak sleeps in retries when it is missing
	// effective content: trailing zero bytes are stripped on open by design
	eff := len(content)
	for eff > 0 && content[eff-1] == 0 {
		eff--
	}
	exp := m.expectedState(c.L)
	// a tail that happens to supply exactly the bytes that were cut off a state (1 in 256 per missing byte with PRNG
	// garbage) leaves that state complete in the file: it is then the latest durable state
	if nx := exp + 1; nx < len(m.States) {
		o := int(m.States[nx].Off)
		if o < c.L && o+stateLen <= len(content) && o+stateLen <= len(data) && bytes.Equal(content[c.L:o+stateLen], data[c.L:o+stateLen]) {
			exp = nx
		}
	}
	res.Expected = exp
	clean := exp >= 0 && m.States[exp].SessionEnd && eff == int(m.States[exp].Off)+stateLen+tailLen &&
		bytes.Equal(content[:eff], data[:eff])

	// 1. open (startup flow only)
	var db *db19.Database
	var oerr error
	var kind, stack string
	var val any
	if c.Flow == "action" {
		if clean {
			res.Kind = "clean-open"
			var cerr error
			kind, val, _ = call(func() { cerr = db19.CheckDatabase(file, false) })
			if kind != "" || cerr != nil {
				add("C05/clean-file-fails-check", map[string]any{"error": fmt.Sprint(cerr, val)})
				return
			}
			kind, val, _ = call(func() { db, oerr = db19.OpenDatabase(file) })
			if kind != "" || oerr != nil {
				add("C05/clean-file-refused", map[string]any{"error": fmt.Sprint(oerr, val)})
				return
			}
			verify(m, db, exp, add, "clean-open")
			call(func() { db.Close() })
			return
		}
	} else {
		kind, val, stack = call(func() { db, oerr = db19.OpenDatabase(file) })
		opened := kind == "" && oerr == nil
		switch {
		case kind == "go-runtime-error":
			add("C05/open-go-runtime-error"+emptyFile(eff), map[string]any{"panic": fmt.Sprint(val), "stack": vk.Trunc(stack, 2500)})
		case kind == "fatal":
			res.Fatal = "open"
		}
		if clean {
			res.Kind = "clean-open"
			if !opened {
				add("C05/clean-file-refused", map[string]any{"error": fmt.Sprint(oerr, val)})
				return
			}
			verify(m, db, exp, add, "clean-open")
			call(func() { db.Close() })
			return
		}
		if opened {
			add("C05/damaged-file-opened", map[string]any{"expected_state": exp})
			call(func() { db.Close() })
			return
		}
	}
	// 2. check must report an error, not die
	var cerr error
	kind, val, stack = call(func() { cerr = db19.CheckDatabase(file, false) })
	switch {
	case kind == "go-runtime-error":
		add("C05/check-go-runtime-error"+emptyFile(eff), map[string]any{"panic": fmt.Sprint(val), "stack": vk.Trunc(stack, 2500)})
	case kind == "fatal":
		res.Fatal = "check"
	case kind == "" && cerr == nil:
		add("C05/check-passes-damaged-file", nil)
	}
	// 3. repair
	var msg string
	var rerr error
	pass := cerr
	if pass == nil {
		pass = oerr
	}
	kind, val, stack = call(func() { msg, rerr = db19.Repair(file, pass) })
	switch {
	case kind == "go-runtime-error":
		class := "C05/repair-go-runtime-error" + emptyFile(eff)
		if eff > 0 && exp < 0 && len(scanStates(content)) == 0 {
			class += "/no-state-record-in-file"
		}
		add(class, map[string]any{"panic": fmt.Sprint(val), "stack": vk.Trunc(stack, 2500)})
		return
	case kind == "fatal":
		res.Fatal = "repair"
		if exp >= 0 {
			add("C05/repair-fatal-although-complete-state-exists", map[string]any{"expected_state_offset": m.States[exp].Off})
		} else {
			res.Kind = "no-state-refused"
		}
		return
	case kind == "panic":
		add("C05/repair-panics", map[string]any{"panic": fmt.Sprint(val), "stack": vk.Trunc(stack, 2500)})
		return
	}
	if exp < 0 {
		res.Kind = "no-state-refused"
		if rerr == nil {
			add("C05/repair-claims-success-without-complete-state", map[string]any{"msg": msg})
		}
		return
	}
	res.Kind = "repaired-to-state"
	if rerr != nil {
		add("C05/repair-failed-although-complete-state-exists", map[string]any{"error": rerr.Error(), "expected_state_offset": m.States[exp].Off})
		return
	}
	// 4. the repaired file opens, shows the newest complete state, passes the full check
	kind, val, _ = call(func() { db, oerr = db19.OpenDatabase(file) })
	if kind != "" || oerr != nil {
		add("C05/repaired-file-refused", map[string]any{"error": fmt.Sprint(oerr, val), "repair_msg": msg})
		return
	}
	verify(m, db, exp, add, msg)
	call(func() { db.Close() })
	kind, val, _ = call(func() { cerr = db19.CheckDatabase(file, true) })
	if kind != "" || cerr != nil {
		add("C05/repaired-file-fails-full-check", map[string]any{"error": fmt.Sprint(cerr, val), "repair_msg": msg})
	}
	return
}

func emptyFile(eff int) string {
	if eff == 0 {
		return "/empty-file"
	}
	return ""
}

func verify(m *master, db *db19.Database, exp int, add func(string, map[string]any), msg string) {
	var snap *dbhist.Snap
	kind, val, stack := call(func() { snap = dbhist.TakeSnap(db) })
	if kind != "" {
		add("C05/restored-database-unreadable", map[string]any{"panic": fmt.Sprint(val), "stack": vk.Trunc(stack, 2000)})
		return
	}
	d := snap.DiffModel(m.States[exp].Model)
	if len(d) == 0 {
		return
	}
	which := "no-recorded-state"
	for i := range m.States {
		if len(snap.DiffModel(m.States[i].Model)) == 0 {
			switch {
			case i < exp:
				which = fmt.Sprintf("older-state-by-%d", exp-i)
			case i > exp:
				which = "newer-incomplete-state"
			}
			break
		}
	}
	add("C05/restored-wrong-state/"+which, map[string]any{"diff": d, "expected_state_offset": m.States[exp].Off, "repair_msg": msg})
}

//-------------------------------------------------------------------
// parent

var sigRe = regexp.MustCompile(`(?m)^(fatal error: [^\n]*|unexpected fault address[^\n]*|\[signal [A-Z]+[^\n]*|panic: [^\n]*|SIG[A-Z]+: [^\n]*)`)

func crashSignature(log string) string {
	sig := "abnormal-exit"
	if strings.Contains(log, "SIGBUS") {
		sig = "SIGBUS"
	} else if strings.Contains(log, "SIGSEGV") {
		sig = "SIGSEGV"
	} else if m := sigRe.FindString(log); m != "" {
		sig = regexp.MustCompile(`0x[0-9a-f]+|\d+`).ReplaceAllString(m, "N")
		if len(sig) > 60 {
			sig = sig[:60]
		}
	}
	where := ""
	for _, fn := range []string{"db19.Repair", "db19.(*scanner)", "db19.CheckDatabase", "db19.OpenDatabase", "db19.readState", "db19.ReadState"} {
		if strings.Contains(log, fn) {
			where = "-in-" + strings.Trim(strings.TrimPrefix(fn, "db19."), "(*)")
			break
		}
	}
	return sig + where
}

func TestVerifC05(t *testing.T) {
	if jf := os.Getenv("VERIF_C05_SUB"); jf != "" {
		runSub(jf)
		return
	}
	rep := vk.NewReport("C05",
		"a case is (database file, end offset L, tail mode absent | zero-filled to the next page | zero-filled +64 KiB | PRNG garbage); "+
			"quick: per child one generated database (20-150 KB, 2-3 sessions, a state record aimed across a page boundary) with all state/marker/page "+
			"boundaries and PRNG offsets; thorough: additionally EVERY byte offset of one ~25 KB database x 3 tail modes, split over the children; "+
			"non-trivial = the cut is not exactly at the end of a cleanly closed session; distinct by (database size, L, mode)",
		"a crash leaves a prefix of the file (append-only store, no torn page reordering); timer persists are off so that every state is recorded",
		"the builder avoids the triggers of known findings of C04/C21 (index built on a populated table without a draining persist, multi-column foreign keys)")
	defer rep.Finish()
	dbhist.Setup()
	dir := filepath.Join(vk.OutDir(), fmt.Sprintf("c05-%d", vk.Shard()))
	os.MkdirAll(dir, 0o755)
	defer os.RemoveAll(dir)

	// 1. this child's own database: boundary and sampled offsets
	r := vk.Rand(5)
	sizes := []int{20000, 40000, 150000, 60000, 90000, 25000, 120000, 30000}
	target := sizes[vk.Shard()%len(sizes)]
	m, err := buildMaster(r, filepath.Join(dir, "own.db"), target, 2+vk.Shard()%2, 10, 0)
	if err != nil {
		rep.Violate("C05/harness/build-failed", fmt.Sprint("shard ", vk.Shard()), err.Error())
		return
	}
	m.Name = fmt.Sprintf("own-%d", vk.Shard())
	observeMaster(rep, m)
	cases := boundaryCases(m, r, vk.N(6144, 48000))
	runCases(rep, m, cases, dir)

	// 2. thorough: every byte offset of one small database, shared by all children
	if vk.Thorough() {
		shared := filepath.Join(vk.OutDir(), "c05-exhaustive")
		var em *master
		if vk.Shard() == 0 {
			os.MkdirAll(shared, 0o755)
			em, err = buildMaster(rand.New(rand.NewPCG(uint64(vk.Seed()), 505)), filepath.Join(shared, "exh.db"), 21000, 2, 3, 700)
			if err != nil {
				rep.Violate("C05/harness/build-failed", "exhaustive", err.Error())
				return
			}
			em.Name = "exhaustive"
			b, _ := json.Marshal(em)
			os.WriteFile(filepath.Join(shared, "meta.tmp"), b, 0o644)
			os.Rename(filepath.Join(shared, "meta.tmp"), filepath.Join(shared, "meta.json"))
		} else {
			deadline := time.Now().Add(10 * time.Minute) // watchdog only
			for {
				b, err := os.ReadFile(filepath.Join(shared, "meta.json"))
				if err == nil {
					em = &master{}
					if json.Unmarshal(b, em) == nil {
						break
					}
				}
				if time.Now().After(deadline) {
					rep.Count("exhaustive_master_not_available", 1)
					return
				}
				time.Sleep(50 * time.Millisecond)
			}
		}
		if vk.Shard() == 0 {
			observeMaster(rep, em)
			rep.Count("exhaustive_file_size", em.Size)
		}
		var ec []crashCase
		for L := vk.Shard(); L <= em.Size; L += vk.NShards() {
			ec = append(ec, crashCase{L, "absent", "startup"}, crashCase{L, "absent", "action"}, crashCase{L, "zero", "startup"},
				[]crashCase{{L, "garbage", "startup"}, {L, "garbage", "action"}, {L, "forged", "startup"}, {L, "forgedmarker", "startup"}, {L, "forgedmany", "startup"}}[L/vk.NShards()%5])
		}
		rep.Count("exhaustive_cases", len(ec))
		if runCases(rep, em, ec, dir) {
			rep.SetExhaustive(true)
		}
	}
}

func observeMaster(rep *vk.Report, m *master) {
	rep.Count("databases_built", 1)
	rep.Count("states_recorded", len(m.States))
	for _, s := range m.States {
		if s.SessionEnd {
			rep.Count("session_ends_recorded", 1)
		}
		if int(s.Off)%page > page-stateLen {
			rep.Count("states_straddling_a_page_boundary", 1)
		}
	}
	if rep.WantSample() {
		var offs []uint64
		for _, s := range m.States {
			offs = append(offs, s.Off)
		}
		rep.Sample(map[string]any{"database": m.Name, "size": m.Size, "state_offsets": offs, "history_tail": m.Log[max(0, len(m.Log)-8):]})
	}
}

// boundaryCases: every state start/end and session end +- {0,1,8,28,35,36}, every page
// boundary +- 1 (page boundaries inside a state record first), PRNG offsets; x tail modes.
func boundaryCases(m *master, r *rand.Rand, budget int) []crashCase {
	seen := map[int]bool{}
	var must, rest []int
	addTo := func(list *[]int, L int) {
		if L >= 0 && L <= m.Size && !seen[L] {
			seen[L] = true
			*list = append(*list, L)
		}
	}
	for _, s := range m.States {
		o := int(s.Off)
		for L := o + 1; L < o+stateLen; L++ {
			if L%page == 0 {
				addTo(&must, L)
			}
		}
	}
	for _, L := range []int{0, 1, 7, 8, 9, m.Size, m.Size - 1, m.Size - 8, m.Size - 9} {
		addTo(&must, L)
	}
	for _, s := range m.States {
		o := int(s.Off)
		if s.SessionEnd {
			for _, d := range []int{0, 1, 4, 7, 8, 9} {
				addTo(&must, o+stateLen+d)
			}
		}
	}
	var bounds []int
	for _, s := range m.States {
		o := int(s.Off)
		for _, d := range []int{0, 1, 8, 28, 35, 36} {
			bounds = append(bounds, o+d, o-d, o+stateLen+d)
		}
	}
	r.Shuffle(len(bounds), func(i, j int) { bounds[i], bounds[j] = bounds[j], bounds[i] })
	for _, L := range bounds {
		addTo(&rest, L)
	}
	var pages []int
	for p := page; p < m.Size; p += page {
		pages = append(pages, p-1, p, p+1)
	}
	r.Shuffle(len(pages), func(i, j int) { pages[i], pages[j] = pages[j], pages[i] })
	nOffsets := budget * 3 / 13
	// interleave: boundaries, pages, random
	var offs []int
	offs = append(offs, must...)
	for i := 0; len(offs) < nOffsets && (i < len(rest) || i < len(pages)); i++ {
		if i < len(rest) {
			offs = append(offs, rest[i])
		}
		if i < len(pages) && !seen[pages[i]] {
			seen[pages[i]] = true
			offs = append(offs, pages[i])
		}
		L := r.IntN(m.Size + 1)
		if !seen[L] {
			seen[L] = true
			offs = append(offs, L)
		}
	}
	sort.Ints(offs)
	var cases []crashCase
	for i, L := range offs {
		third := "garbage"
		if i%4 == 0 {
			third = "zero64k"
		}
		cases = append(cases, crashCase{L, "absent", "startup"}, crashCase{L, "absent", "action"},
			crashCase{L, "zero", "startup"}, crashCase{L, third, []string{"startup", "action"}[i%2]})
		if i%3 == 0 {
			cases = append(cases, crashCase{L, []string{"forged", "forgedmarker", "forgedmany"}[i/3%3], "startup"})
		}
	}
	return cases
}

// runCases runs the cases in sub-child batches; returns true if every case got a result.
func runCases(rep *vk.Report, m *master, cases []crashCase, dir string) bool {
	metaFile := filepath.Join(dir, m.Name+"-meta.json")
	b, _ := json.Marshal(m)
	if err := os.WriteFile(metaFile, b, 0o644); err != nil {
		rep.Violate("C05/harness/write-failed", metaFile, err.Error())
		return false
	}
	const batch = 250
	complete := true
	for start := 0; start < len(cases); start += batch {
		end := min(start+batch, len(cases))
		part := cases[start:end]
		from := 0
		for from < len(part) {
			rep.Case("db %s size %d batch cases %d..%d from L=%d mode=%s/%s", m.Name, m.Size, start+from, end-1, part[from].L, part[from].Mode, part[from].Flow)
			results, died, log, hung := runBatch(m, metaFile, part, from, dir)
			for _, res := range results {
				record(rep, m, res)
			}
			next := from + len(results)
			if !died {
				if next != len(part) {
					complete = false
				}
				break
			}
			// the sub-child died or hung on case `next`
			if next >= len(part) {
				break
			}
			c := part[next]
			key := fmt.Sprintf("db=%s size=%d L=%d mode=%s/%s cut-inside=%s", m.Name, m.Size, c.L, c.Mode, c.Flow, m.inside(c.L))
			rep.Eval(vk.Hash64(m.Size, c.L, c.Mode, c.Flow), true)
			rep.Seen("cut_inside", m.inside(c.L))
			if hung {
				// re-run alone: only a reproducible hang is a violation
				_, died2, _, hung2 := runBatch(m, metaFile, part[next:next+1], 0, dir)
				if hung2 {
					rep.Violate("C05/hang", key, map[string]any{"log_tail": vk.Trunc(tailOf(log, 3000), 3000)})
				} else if died2 {
					rep.Count("hang_then_crash", 1)
				} else {
					rep.Count("hang_not_reproduced", 1)
				}
			} else {
				rep.Violate("C05/crash/"+crashSignature(log), key, map[string]any{
					"expected_state": m.expectedState(c.L), "state_offsets": stateOffsets(m), "log_tail": tailOf(log, 4000)})
				rep.Count("subchild_deaths", 1)
			}
			from = next + 1
		}
	}
	return complete
}

func stateOffsets(m *master) []uint64 {
	var offs []uint64
	for _, s := range m.States {
		offs = append(offs, s.Off)
	}
	return offs
}

func tailOf(s string, n int) string {
	if len(s) > n {
		return s[len(s)-n:]
	}
	return s
}

func runBatch(m *master, metaFile string, part []crashCase, from int, dir string) (results []caseResult, died bool, log string, hung bool) {
	work := filepath.Join(dir, "work")
	os.RemoveAll(work)
	os.MkdirAll(work, 0o755)
	j := job{Master: metaFile, Cases: part, From: from, Out: filepath.Join(work, "results.txt"), Dir: work}
	jb, _ := json.Marshal(j)
	jobFile := filepath.Join(work, "job.json")
	os.WriteFile(jobFile, jb, 0o644)
	cmd := exec.Command(os.Args[0], "-test.run", "^TestVerifC05$", "-test.count=1", "-test.timeout=0")
	cmd.Env = append(os.Environ(), "VERIF_C05_SUB="+jobFile, "GOTRACEBACK=all")
	cmd.Dir = work
	var out bytes.Buffer
	cmd.Stdout = &out
	cmd.Stderr = &out
	if err := cmd.Start(); err != nil {
		return nil, true, "cannot start sub-child: " + err.Error(), false
	}
	done := make(chan error, 1)
	go func() { done <- cmd.Wait() }()
	var werr error
	select {
	case werr = <-done:
	case <-time.After(time.Duration(60+len(part)) * time.Second): // watchdog
		cmd.Process.Kill()
		<-done
		hung = true
	}
	log = out.String()
	rb, _ := os.ReadFile(j.Out)
	finished := false
	for _, line := range strings.Split(string(rb), "\n") {
		switch {
		case strings.HasPrefix(line, "R "):
			var res caseResult
			if json.Unmarshal([]byte(line[2:]), &res) == nil {
				results = append(results, res)
			}
		case line == "DONE":
			finished = true
		}
	}
	died = hung || werr != nil || !finished
	return
}

func record(rep *vk.Report, m *master, res caseResult) {
	rep.Eval(vk.Hash64(m.Size, res.L, res.Mode), res.Kind != "clean-open")
	rep.Count("cases_"+res.Mode, 1)
	rep.Count("outcome_"+res.Kind, 1)
	rep.Seen("cut_inside", res.InsideWhat)
	rep.Count("cut_inside_"+res.InsideWhat, 1)
	if res.InsideWhat == "page-aligned-in-state" {
		rep.Count("cuts_page_aligned_inside_state", 1)
	}
	if res.Fatal != "" {
		rep.Count("refused_by_fatal_in_"+res.Fatal, 1)
	}
	for _, f := range res.Findings {
		key := fmt.Sprintf("db=%s size=%d L=%d mode=%s cut-inside=%s", m.Name, m.Size, res.L, res.Mode, res.InsideWhat)
		f.Detail["state_offsets"] = stateOffsets(m)
		rep.Violate(f.Class, key, f.Detail)
	}
}

