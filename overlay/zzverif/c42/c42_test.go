// C42 Transaction blocks commit exactly when the block completes.
//
// Black-box monitor: generated Suneido functions call Transaction(update:) { block }
// (also with a function instead of a block, nested, inside try/catch, with explicit
// Complete/Rollback, with returns from the enclosing function through one or two
// block levels, throws of several kinds, break/continue) against a real db19
// database behind a DbmsLocal. A small interpreter of the generated program (the
// model) predicts the control flow (log lines, result / exception of the function)
// and the database contents; afterwards every key the program could have touched is
// read back through DbmsLocal.Get, the table row counts through a db19 read
// transaction, every transaction object handed to a block must be ended and no
// update transaction may be left outstanding.
package c42

import (
	"fmt"
	"math/rand/v2"
	"runtime"
	"sort"
	"strconv"
	"strings"
	"testing"
	"time"

	"github.com/apmckinlay/gsuneido/builtin"
	"github.com/apmckinlay/gsuneido/compile"
	. "github.com/apmckinlay/gsuneido/core"
	"github.com/apmckinlay/gsuneido/db19"
	"github.com/apmckinlay/gsuneido/db19/stor"
	"github.com/apmckinlay/gsuneido/dbms"
	vk "github.com/apmckinlay/gsuneido/util/verifkit"
)

func init() {
	builtin.DefDef()
}

// ------------------------------------------------------------------ program AST

const (
	nLog = iota
	nInsert
	nUpdate
	nDelete
	nRecUpdate // x = t.Query1(table, k: K); x.v = V; x.Update()
	nRecDelete // t.Query1(table, k: K).Delete()
	nThrow
	nRtErr
	nDupInsert
	nBadQuery
	nCallThrow
	nTry
	nReturn
	nLoopBreak
	nLoopContinue
	nBreak
	nContinue
	nCallBlock
	nComplete
	nRollback
	nTxn
	nConflict
)

type node struct {
	kind   int
	tv     string // transaction variable the statement uses
	table  string
	k, v   int
	msg    string
	body   []*node
	catch  bool // nTxn: wrapped in try/catch
	form   int  // nTxn: 0 trailing block, 1 block: named argument, 2 function value
	update bool
	id     int
}

type sig int

const (
	sNormal sig = iota
	sThrow
	sReturn
	sBreak // block:break / block:continue reaching a block boundary
)

// ------------------------------------------------------------------ model

type mtxn struct {
	id      int
	table   string
	snap    map[int]int
	pend    map[int]*int
	ended   bool
	update  bool
	outcome string // "commit", "rollback", "either", "explicit-commit", "explicit-rollback"
}

func (t *mtxn) view(k int) (int, bool) {
	if p, ok := t.pend[k]; ok {
		if p == nil {
			return 0, false
		}
		return *p, true
	}
	v, ok := t.snap[k]
	return v, ok
}

type model struct {
	tables map[string]map[int]int // committed contents (this case's key universe)
	// alt: if a transaction ended by break/continue had pending writes, the state
	// in which it committed instead of rolling back is acceptable as well
	alt  map[string]map[int]int
	log  []string
	txns []*mtxn
	// exception escaping / value returned by the function
	outSig sig
	outMsg string
	outVal int
	// what was observed
	blockReturns, throws, commits, rollbacks, nested, explicit, breaks int
}

func copyTables(t map[string]map[int]int) map[string]map[int]int {
	c := map[string]map[int]int{}
	for n, m := range t {
		c[n] = map[int]int{}
		for k, v := range m {
			c[n][k] = v
		}
	}
	return c
}

func (m *model) apply(tabs map[string]map[int]int, t *mtxn) {
	for k, p := range t.pend {
		if p == nil {
			delete(tabs[t.table], k)
		} else {
			tabs[t.table][k] = *p
		}
	}
}

func (m *model) commit(t *mtxn) {
	m.apply(m.tables, t)
	if m.alt != nil {
		m.apply(m.alt, t)
	}
	t.ended = true
}

type result struct {
	sig sig
	msg string // exception text (a prefix pattern ending in * matches any tail)
	val int
}

func (m *model) exec(stmts []*node, env map[string]*mtxn) result {
	for _, s := range stmts {
		if r := m.exec1(s, env); r.sig != sNormal {
			return r
		}
	}
	return result{}
}

func (m *model) exec1(s *node, env map[string]*mtxn) result {
	switch s.kind {
	case nLog:
		m.log = append(m.log, strconv.Itoa(s.v))
	case nInsert, nDupInsert:
		t := env[s.tv]
		if _, exists := t.view(s.k); exists {
			return result{sig: sThrow, msg: "*"} // duplicate key
		}
		v := s.v
		t.pend[s.k] = &v
	case nUpdate, nRecUpdate:
		t := env[s.tv]
		if _, exists := t.view(s.k); exists {
			v := s.v
			t.pend[s.k] = &v
		} else if s.kind == nRecUpdate {
			return result{sig: sThrow, msg: "*"} // Query1 returned false
		}
	case nDelete, nRecDelete:
		t := env[s.tv]
		if _, exists := t.view(s.k); exists {
			t.pend[s.k] = nil
		} else if s.kind == nRecDelete {
			return result{sig: sThrow, msg: "*"}
		}
	case nThrow, nCallThrow:
		return result{sig: sThrow, msg: s.msg}
	case nRtErr:
		return result{sig: sThrow, msg: "member not found*"}
	case nBadQuery:
		return result{sig: sThrow, msg: "*"}
	case nTry:
		r := m.exec(s.body, env)
		if r.sig == sThrow {
			m.log = append(m.log, "caught:"+r.msg)
			return result{}
		}
		return r
	case nReturn:
		return result{sig: sReturn, val: s.v}
	case nLoopBreak, nLoopContinue:
		// the body runs exactly once; break/continue of a loop inside the block stay inside
		return m.exec(s.body, env)
	case nBreak:
		return result{sig: sBreak, msg: "block:break"}
	case nContinue:
		return result{sig: sBreak, msg: "block:continue"}
	case nCallBlock:
		r := m.exec(s.body, env)
		if r.sig == sBreak {
			// leaves the inner block as the exception block:break / block:continue
			return result{sig: sThrow, msg: r.msg}
		}
		return r
	case nComplete:
		t := env[s.tv]
		if !t.ended {
			m.commit(t)
			t.outcome = "explicit-commit"
			m.explicit++
		}
	case nRollback:
		t := env[s.tv]
		if !t.ended {
			t.ended = true
			t.outcome = "explicit-rollback"
			m.explicit++
		}
	case nTxn:
		return m.execTxn(s, env)
	}
	return result{}
}

func (m *model) execTxn(s *node, env map[string]*mtxn) result {
	t := &mtxn{id: s.id, table: s.table, snap: map[int]int{}, pend: map[int]*int{}, update: s.update}
	for k, v := range m.tables[s.table] {
		t.snap[k] = v
	}
	m.txns = append(m.txns, t)
	if len(env) > 0 {
		m.nested++
	}
	env2 := map[string]*mtxn{}
	for k, v := range env {
		env2[k] = v
	}
	env2[s.tv] = t
	r := m.exec(s.body, env2)
	if s.form == 2 && r.sig == sReturn {
		// a function used as the block: return is an ordinary return of that function
		r = result{sig: sNormal, val: r.val}
	} else if r.sig == sNormal {
		r.val = 1000 + s.id // the value of the block's last statement
	}
	if !t.ended {
		switch r.sig {
		case sNormal:
			m.commit(t)
			t.outcome = "commit"
			m.commits++
		case sReturn:
			m.commit(t)
			t.outcome = "commit-on-return"
			m.commits++
			m.blockReturns++
		case sThrow:
			t.ended = true
			t.outcome = "rollback"
			m.rollbacks++
			m.throws++
		case sBreak:
			// not promised either way: must be atomic
			t.ended = true
			t.outcome = "either"
			m.breaks++
			if len(t.pend) > 0 {
				if m.alt == nil {
					m.alt = copyTables(m.tables)
				}
				m.apply(m.alt, t)
			}
		}
	}
	if r.sig == sBreak {
		r = result{sig: sThrow, msg: r.msg}
	}
	if s.catch {
		switch r.sig {
		case sNormal:
			m.log = append(m.log, fmt.Sprintf("ret%d:%d", s.id, r.val))
			return result{}
		case sThrow:
			m.log = append(m.log, "caught:"+r.msg)
			return result{}
		}
		return r
	}
	if r.sig == sNormal {
		m.log = append(m.log, fmt.Sprintf("ret%d:%d", s.id, r.val))
		return result{}
	}
	return r
}

// ------------------------------------------------------------------ source

type emitter struct {
	sb strings.Builder
	nb int
}

func (e *emitter) stmts(l []*node) {
	for _, s := range l {
		e.stmt(s)
	}
}

func (e *emitter) stmt(s *node) {
	w := func(format string, args ...any) { fmt.Fprintf(&e.sb, format+"\n", args...) }
	switch s.kind {
	case nLog:
		w("log.Add(%d)", s.v)
	case nInsert, nDupInsert:
		w("%s.QueryDo('insert { k: %d, v: %d } into %s')", s.tv, s.k, s.v, s.table)
	case nUpdate:
		w("%s.QueryDo('update %s where k = %d set v = %d')", s.tv, s.table, s.k, s.v)
	case nDelete:
		w("%s.QueryDo('delete %s where k = %d')", s.tv, s.table, s.k)
	case nRecUpdate:
		e.nb++
		w("x%d = %s.Query1('%s', k: %d); x%d.v = %d; x%d.Update()", e.nb, s.tv, s.table, s.k, e.nb, s.v, e.nb)
	case nRecDelete:
		w("%s.Query1('%s', k: %d).Delete()", s.tv, s.table, s.k)
	case nThrow:
		w("throw %q", s.msg)
	case nCallThrow:
		w("thrower(%q)", s.msg)
	case nRtErr:
		w("Object().nosuch")
	case nBadQuery:
		w("%s.QueryDo('insert into')", s.tv)
	case nTry:
		// (the compiler does not support lexically nested try: a helper function does the catching)
		e.nb++
		n := e.nb
		w("tb%d = {", n)
		e.stmts(s.body)
		w("0 }")
		w("tryit(tb%d, log)", n)
	case nReturn:
		w("return %d", s.v)
	case nLoopBreak:
		w("for i in #(1, 2) { if i is 2 { break }")
		e.stmts(s.body)
		w("}")
	case nLoopContinue:
		w("for i in #(1, 2) { if i is 1 { continue }")
		e.stmts(s.body)
		w("}")
	case nBreak:
		w("break")
	case nContinue:
		w("continue")
	case nCallBlock:
		e.nb++
		n := e.nb
		w("b%d = {|unused|", n)
		e.stmts(s.body)
		w("0 }")
		w("b%d(0)", n)
	case nComplete:
		w("%s.Complete()", s.tv)
	case nRollback:
		w("%s.Rollback()", s.tv)
	case nTxn:
		mode := "update:"
		if !s.update {
			mode = "read:"
		}
		if s.catch {
			w("tb%d = {", 100+s.id)
		}
		switch s.form {
		case 0:
			w("r%d = Transaction(%s) {|%s| holder.Add(%s)", s.id, mode, s.tv, s.tv)
			e.stmts(s.body)
			w("%d }", 1000+s.id)
		case 1:
			w("blk%d = {|%s| holder.Add(%s)", s.id, s.tv, s.tv)
			e.stmts(s.body)
			w("%d }", 1000+s.id)
			w("r%d = Transaction(%s, block: blk%d)", s.id, mode, s.id)
		default:
			w("r%d = Transaction(%s, block: function (%s) { log = Suneido.c42.log; holder = Suneido.c42.holder; thrower = Suneido.c42.thrower; tryit = Suneido.c42.tryit; holder.Add(%s)", s.id, mode, s.tv, s.tv)
			e.stmts(s.body)
			w("return %d })", 1000+s.id)
		}
		w("log.Add('ret%d:' $ r%d)", s.id, s.id)
		if s.catch {
			w("0 }")
			w("tryit(tb%d, log)", 100+s.id)
		}
	}
}

// ------------------------------------------------------------------ generator

type gen struct {
	r      *rand.Rand
	base   int
	nextID int
	// keys: base+0..3 exist (committed before the program), base+4.. are free
	existing map[string]map[int]int
	freeKey  map[string]int
	nTxn     int
	noReturn bool // inside a function-form block `return` means something else: handled by form 2
}

func (g *gen) dbStmt(tv, table string, t *genTxn) *node {
	r := g.r
	pickExisting := func() int { return g.base + r.IntN(4) }
	switch x := r.IntN(100); {
	case x < 45:
		k := g.freeKey[table]
		g.freeKey[table]++
		return &node{kind: nInsert, tv: tv, table: table, k: k, v: r.IntN(1000)}
	case x < 60:
		return &node{kind: nUpdate, tv: tv, table: table, k: pickExisting(), v: r.IntN(1000)}
	case x < 70:
		return &node{kind: nDelete, tv: tv, table: table, k: pickExisting()}
	case x < 82:
		return &node{kind: nRecUpdate, tv: tv, table: table, k: pickExisting(), v: r.IntN(1000)}
	case x < 90:
		return &node{kind: nRecDelete, tv: tv, table: table, k: pickExisting()}
	default:
		return &node{kind: nUpdate, tv: tv, table: table, k: g.base + 20 + r.IntN(4), v: 1} // no such row
	}
}

type genTxn struct {
	tv, table string
	update    bool
	form      int
	ended     bool // explicit Complete/Rollback was generated
}

func (g *gen) thrower() *node {
	r := g.r
	g.nextID++
	msg := fmt.Sprintf("boom%d", g.nextID)
	switch r.IntN(6) {
	case 0:
		return &node{kind: nRtErr}
	case 1:
		return &node{kind: nCallThrow, msg: msg}
	case 2:
		return &node{kind: nThrow, msg: msg}
	default:
		return &node{kind: nThrow, msg: msg}
	}
}

// body generates the statements of a transaction block. depth: transaction nesting.
// inInnerBlock: we are inside a plain block called from the transaction block.
func (g *gen) body(t *genTxn, depth int, inInnerBlock bool, budget int) []*node {
	r := g.r
	var l []*node
	n := 1 + r.IntN(4)
	for i := 0; i < n && budget > 0; i++ {
		budget--
		x := r.IntN(100)
		switch {
		case x < 38:
			if t.update && !t.ended {
				l = append(l, g.dbStmt(t.tv, t.table, t))
			} else {
				l = append(l, &node{kind: nLog, v: r.IntN(90)})
			}
		case x < 44:
			l = append(l, &node{kind: nLog, v: r.IntN(90)})
		case x < 52: // throw, not caught here
			l = append(l, g.thrower())
			return l
		case x < 57: // database error
			if t.update && !t.ended {
				if r.IntN(2) == 0 {
					l = append(l, &node{kind: nDupInsert, tv: t.tv, table: t.table, k: g.base + r.IntN(4), v: 7})
				} else {
					l = append(l, &node{kind: nBadQuery, tv: t.tv})
				}
				// the model decides whether it throws (the row may have been deleted)
			}
		case x < 64: // exception thrown and caught inside the block
			inner := []*node{}
			if t.update && !t.ended && r.IntN(2) == 0 {
				inner = append(inner, g.dbStmt(t.tv, t.table, t))
			}
			inner = append(inner, g.thrower())
			l = append(l, &node{kind: nTry, body: inner})
		case x < 70: // return from the enclosing function
			l = append(l, &node{kind: nReturn, v: 5000 + r.IntN(100)})
			return l
		case x < 75:
			k := nLoopBreak
			if r.IntN(2) == 0 {
				k = nLoopContinue
			}
			inner := []*node{}
			if t.update && !t.ended {
				inner = append(inner, g.dbStmt(t.tv, t.table, t))
			} else {
				inner = append(inner, &node{kind: nLog, v: r.IntN(90)})
			}
			l = append(l, &node{kind: k, body: inner})
		case x < 78: // break / continue of the block itself
			if t.form == 2 {
				continue // not in a function
			}
			k := nBreak
			if r.IntN(2) == 0 {
				k = nContinue
			}
			l = append(l, &node{kind: k})
			return l
		case x < 85: // a nested plain block, called at once
			if inInnerBlock {
				continue
			}
			l = append(l, &node{kind: nCallBlock, body: g.body(t, depth, true, budget/2+1)})
		case x < 89:
			if !t.ended && !inInnerBlock {
				k := nComplete
				if r.IntN(2) == 0 {
					k = nRollback
				}
				l = append(l, &node{kind: k, tv: t.tv})
				t.ended = true
			}
		default: // nested transaction on the other table
			if depth == 0 && !inInnerBlock && g.nTxn < 4 {
				l = append(l, g.txn(1, r.IntN(2) == 0))
			}
		}
	}
	return l
}

func (g *gen) txn(depth int, catch bool) *node {
	r := g.r
	g.nextID++
	g.nTxn++
	t := &genTxn{tv: "t", table: "tmp", update: r.IntN(10) != 0, form: 0}
	if depth > 0 {
		t.tv, t.table = "t2", "tmp2"
	}
	switch x := r.IntN(10); {
	case x < 6:
		t.form = 0
	case x < 8:
		t.form = 1
	default:
		t.form = 2
	}
	if depth > 0 && t.form == 2 {
		t.form = 0 // keep the outer transaction variable visible
	}
	nd := &node{kind: nTxn, tv: t.tv, table: t.table, update: t.update, form: t.form, catch: catch, id: g.nextID}
	nd.body = g.body(t, depth, false, 8)
	return nd
}

func (g *gen) program() []*node {
	r := g.r
	var l []*node
	n := 1 + r.IntN(3)
	for i := 0; i < n; i++ {
		if r.IntN(3) == 0 {
			l = append(l, &node{kind: nLog, v: r.IntN(90)})
		}
		l = append(l, g.txn(0, r.IntN(3) != 0))
	}
	return l
}

// ------------------------------------------------------------------ harness

type env struct {
	rep   *vk.Report
	th    *Thread
	db    *db19.Database
	local *dbms.DbmsLocal
	used  int
}

func (e *env) open() {
	if e.db != nil {
		e.db.Close()
	}
	e.db = db19.CreateDb(stor.HeapStor(64 * 1024))
	db19.StartConcur(e.db, 50*time.Millisecond)
	e.local = dbms.NewDbmsLocal(e.db)
	e.th.SetDbms(e.local)
	e.local.Admin("create tmp (k, v) key(k)", nil)
	e.local.Admin("create tmp2 (k, v) key(k)", nil)
	e.used = 0
}

func (e *env) readRow(table string, k int) (int, bool) {
	args := SuObjectOf(SuStr(table))
	args.Set(SuStr("k"), IntVal(k))
	row, hdr, _ := e.local.Get(e.th, args, Only)
	if row == nil {
		return 0, false
	}
	return ToInt(row.GetVal(hdr, "v", e.th, nil)), true
}

func (e *env) nrows(table string) int {
	rt := e.db.NewReadTran()
	defer rt.Complete()
	return rt.GetInfo(table).Nrows
}

func errText(p any) string {
	switch x := p.(type) {
	case *SuExcept:
		return string(x.SuStr)
	case SuStr:
		return string(x)
	case string:
		return x
	case error:
		return x.Error()
	}
	return fmt.Sprint(p)
}

func matchMsg(pattern, got string) bool {
	if strings.HasSuffix(pattern, "*") {
		return strings.HasPrefix(got, pattern[:len(pattern)-1])
	}
	return pattern == got
}

func sameLog(want []string, got []string) bool {
	if len(want) != len(got) {
		return false
	}
	for i := range want {
		w, g := want[i], got[i]
		if strings.HasPrefix(w, "caught:") && strings.HasPrefix(g, "caught:") {
			if !matchMsg(w[7:], g[7:]) {
				return false
			}
		} else if w != g {
			return false
		}
	}
	return true
}

func tableStr(m map[int]int) string {
	keys := make([]int, 0, len(m))
	for k := range m {
		keys = append(keys, k)
	}
	sort.Ints(keys)
	var sb strings.Builder
	for _, k := range keys {
		fmt.Fprintf(&sb, "%d:%d ", k, m[k])
	}
	return sb.String()
}

func TestVerifC42(t *testing.T) {
	rep := vk.NewReport("C42",
		"a case is a generated Suneido function with 1-3 Transaction(update:|read:) calls whose block (trailing block, block: argument, or a function) contains inserts/updates/deletes "+
			"(QueryDo and record.Update/Delete), logs, uncaught throws (throw, throw in a called function, runtime error, database error), throws caught inside the block, return from the enclosing function "+
			"(also from a nested block), loops with break/continue, break/continue of the block itself, explicit Complete/Rollback and a nested transaction on a second table; optionally wrapped in try/catch; "+
			"non-trivial = at least one update transaction with pending writes whose block ended by a throw or by a return from the enclosing function; distinct by source text",
		"expected control flow and database contents come from a separate interpreter of the generated program; contents are read back with DbmsLocal.Get and db19 row counts",
		"for a block left by break/continue only atomicity is demanded (the statement does not say whether that commits)")
	defer rep.Finish()
	th := &Thread{}
	e := &env{rep: rep, th: th}
	e.open()
	defer func() { e.db.Close() }()
	n := vk.N(8000, 200000)
	for i := 0; i < n; i++ {
		if i%16 == 0 {
			rep.Case("case %d", i)
		}
		if e.used >= 2000 {
			e.open()
		}
		e.used++
		runCase(e, i)
	}
}

func runCase(e *env, idx int) {
	rep := e.rep
	r := vk.RandFor(42, idx)
	base := 1000 + e.used*128
	if r.IntN(12) == 0 {
		runConflictCase(e, idx, r, base)
		return
	}
	g := &gen{r: r, base: base, freeKey: map[string]int{"tmp": base + 4, "tmp2": base + 4}}
	prog := g.program()
	em := &emitter{}
	em.sb.WriteString("function (log, holder) {\nthrower = function (m) { throw m }\ntryit = function (b, log) { try { b() } catch (e) { log.Add('caught:' $ e) } }\nSuneido.c42 = Object(log: log, holder: holder, thrower: thrower, tryit: tryit)\nlog.Add('start')\n")
	em.stmts(prog)
	em.sb.WriteString("log.Add('end')\nreturn 'done'\n}\n")
	src := em.sb.String()
	key := fmt.Sprintf("seed=%d shard=%d/%d case=%d", vk.Seed(), vk.Shard(), vk.NShards(), idx)
	violate := func(class string, detail map[string]any) {
		detail["source"] = src
		rep.Violate(class, key, detail)
	}
	var fn Value
	if p, _ := vk.Catch(func() { fn = compile.Constant(src) }); p != nil {
		violate("C42/harness-generated-invalid-program", map[string]any{"error": errText(p)})
		return
	}
	// committed rows before the program runs
	m := &model{tables: map[string]map[int]int{"tmp": {}, "tmp2": {}}}
	ut := e.local.Transaction(true)
	for _, tab := range []string{"tmp", "tmp2"} {
		for j := 0; j < 4; j++ {
			if r.IntN(4) != 0 {
				v := r.IntN(1000)
				ut.Action(e.th, fmt.Sprintf("insert { k: %d, v: %d } into %s", base+j, v, tab))
				m.tables[tab][base+j] = v
			}
		}
	}
	if s := ut.Complete(); s != "" {
		panic("harness: setup commit failed: " + s)
	}
	rowsBefore := map[string]int{"tmp": e.nrows("tmp"), "tmp2": e.nrows("tmp2")}
	sizeBefore := map[string]int{"tmp": len(m.tables["tmp"]), "tmp2": len(m.tables["tmp2"])}

	// model
	m.log = append(m.log, "start")
	res := m.exec(prog, map[string]*mtxn{})
	switch res.sig {
	case sNormal:
		m.log = append(m.log, "end")
	}
	m.outSig, m.outMsg, m.outVal = res.sig, res.msg, res.val

	// real
	log, holder := &SuObject{}, &SuObject{}
	var ret Value
	st := e.th.GetState()
	p, stack := vk.Catch(func() { ret = e.th.Call(fn, log, holder) })
	if p != nil {
		e.th.RestoreState(st)
		if re, ok := p.(runtime.Error); ok {
			violate("C42/go-runtime-error", map[string]any{"error": re.Error(), "stack": vk.Trunc(stack, 3000)})
			return
		}
	}
	gotLog := make([]string, log.ListSize())
	for i := range gotLog {
		gotLog[i] = AsStr(log.ListGet(i))
	}
	nontriv := false
	for _, t := range m.txns {
		if t.update && len(t.pend) > 0 && (t.outcome == "rollback" || t.outcome == "commit-on-return") {
			nontriv = true
		}
	}
	rep.Eval(vk.Hash64(src), nontriv)
	rep.Count("transactions", len(m.txns))
	rep.Count("block_commits", m.commits)
	rep.Count("block_rollbacks_on_throw", m.rollbacks)
	rep.Count("returns_from_enclosing_function", m.blockReturns)
	rep.Count("nested_transactions", m.nested)
	rep.Count("explicit_complete_or_rollback", m.explicit)
	rep.Count("block_break_or_continue", m.breaks)
	for _, t := range m.txns {
		if t.update && len(t.pend) > 0 {
			rep.Count("with_pending_writes_"+t.outcome, 1)
		}
	}
	detail := func() map[string]any {
		outs := []string{}
		for _, t := range m.txns {
			outs = append(outs, fmt.Sprintf("txn%d(%s update=%v pending=%d): %s", t.id, t.table, t.update, len(t.pend), t.outcome))
		}
		return map[string]any{"expected_log": m.log, "log": gotLog, "model_transactions": outs, "result": fmt.Sprint(ret), "exception": fmt.Sprint(p)}
	}

	// 1. control flow: the exception still propagates / the value is returned
	switch m.outSig {
	case sNormal:
		if p != nil {
			violate("C42/unexpected-exception", detail())
			return
		}
		if s, ok := ret.(SuStr); !ok || string(s) != "done" {
			violate("C42/wrong-function-result", detail())
			return
		}
	case sReturn:
		if p != nil {
			violate("C42/return-from-block-raised-exception", detail())
			return
		}
		if i, ok := ret.IfInt(); ret == nil || !ok || i != m.outVal {
			violate("C42/return-from-block-wrong-value", detail())
			return
		}
	case sThrow:
		if p == nil {
			violate("C42/exception-did-not-propagate", detail())
			return
		}
		if !matchMsg(m.outMsg, errText(p)) && !strings.HasPrefix(errText(p), strings.TrimSuffix(m.outMsg, "*")) {
			d := detail()
			d["want_exception"] = m.outMsg
			violate("C42/different-exception-propagated", d)
			return
		}
	}
	if !sameLog(m.log, gotLog) {
		violate("C42/control-flow-differs", detail())
		return
	}
	// 2. every transaction handed to a block is ended, nothing outstanding
	for i := 0; i < holder.ListSize(); i++ {
		if st, ok := holder.ListGet(i).(*SuTran); !ok || !st.Ended() {
			d := detail()
			d["transaction_index"] = i
			violate("C42/transaction-not-ended-after-block", d)
			return
		}
	}
	if holder.ListSize() != len(m.txns) {
		violate("C42/control-flow-differs", detail())
		return
	}
	if out := e.local.Transactions(); out.Size() != 0 {
		d := detail()
		d["outstanding"] = out.String()
		violate("C42/update-transaction-left-outstanding", d)
		return
	}
	// 3. database contents
	keySet := map[int]bool{}
	for j := 0; j < 4; j++ {
		keySet[base+j] = true
	}
	var walk func(l []*node)
	walk = func(l []*node) {
		for _, s := range l {
			if s.k != 0 {
				keySet[s.k] = true
			}
			walk(s.body)
		}
	}
	walk(prog)
	keys := make([]int, 0, len(keySet))
	for k := range keySet {
		keys = append(keys, k)
	}
	sort.Ints(keys)
	check := func(tabs map[string]map[int]int) (string, string) {
		for _, tab := range []string{"tmp", "tmp2"} {
			for _, k := range keys {
				gv, gok := e.readRow(tab, k)
				wv, wok := tabs[tab][k]
				if gok != wok || gv != wv {
					what := "row-present-after-rollback-or-missing-after-commit"
					return what, fmt.Sprintf("%s k=%d: got (%d,%v) want (%d,%v)", tab, k, gv, gok, wv, wok)
				}
			}
			if got, want := e.nrows(tab)-rowsBefore[tab], len(tabs[tab])-sizeBefore[tab]; got != want {
				return "row-count", fmt.Sprintf("%s: row count changed by %d, model %d", tab, got, want)
			}
		}
		return "", ""
	}
	what, msg := check(m.tables)
	if what != "" && m.alt != nil {
		if w2, _ := check(m.alt); w2 == "" {
			what = ""
			rep.Count("break_committed", 1)
		}
	}
	if what != "" {
		d := detail()
		d["difference"] = msg
		d["model_tmp"] = tableStr(m.tables["tmp"])
		d["model_tmp2"] = tableStr(m.tables["tmp2"])
		class := "C42/database-differs/" + what
		// say which way it went for the first transaction with pending writes that matters
		for _, t := range m.txns {
			if t.update && len(t.pend) > 0 {
				for k, pv := range t.pend {
					gv, gok := e.readRow(t.table, k)
					applied := (pv == nil && !gok) || (pv != nil && gok && gv == *pv)
					if t.outcome == "rollback" && applied && (pv != nil || t.snap[k] != 0) {
						if _, had := t.snap[k]; pv != nil || had {
							class = "C42/committed-although-block-threw"
						}
					}
					if (t.outcome == "commit" || t.outcome == "commit-on-return") && !applied {
						class = "C42/not-committed-although-block-completed"
					}
				}
			}
		}
		violate(class, d)
		return
	}
	if rep.WantSample() && nontriv {
		rep.Sample(map[string]any{"case": idx, "source": src, "log": gotLog, "result": fmt.Sprint(ret), "exception": fmt.Sprint(p)})
	}
}

// runConflictCase: the block transaction conflicts with an independent update
// transaction that is started (and completed) inside the block. Which of the two
// loses is not promised; what is promised: if Transaction(...) returned normally the
// block's writes are committed, otherwise an exception came out of it and none of
// its writes are; the same for the inner transaction and its Complete().
func runConflictCase(e *env, idx int, r *rand.Rand, base int) {
	rep := e.rep
	k, k2 := base, base+1
	v0, v02 := r.IntN(1000), r.IntN(1000)
	v1, v3 := 1000+r.IntN(1000), 2000+r.IntN(1000)
	variant := r.IntN(3)
	ut := e.local.Transaction(true)
	ut.Action(e.th, fmt.Sprintf("insert { k: %d, v: %d } into tmp", k, v0))
	ut.Action(e.th, fmt.Sprintf("insert { k: %d, v: %d } into tmp", k2, v02))
	if s := ut.Complete(); s != "" {
		panic("harness: setup commit failed: " + s)
	}
	var sb strings.Builder
	w := func(format string, args ...any) { fmt.Fprintf(&sb, format+"\n", args...) }
	w("function (log, holder) {")
	w("tryit = function (b, log) { try { b() } catch (e) { log.Add('caught:' $ e) } }")
	w("log.Add('start')")
	w("tb1 = {")
	w("r1 = Transaction(update:) {|t| holder.Add(t)")
	outerKey := k
	switch variant {
	case 0: // write-write
		w("t.QueryDo('update tmp where k = %d set v = %d')", k, v1)
	case 1: // the block reads what the inner transaction then changes
		w("x = t.Query1('tmp', k: %d)", k)
		outerKey = k2
	default: // the block reads the whole table
		w("n = 0; t.Query('tmp') {|q| while false isnt q.Next() { ++n } }")
		outerKey = k2
	}
	w("t3 = Transaction(update:)")
	w("holder.Add(t3)")
	w("tb3 = { t3.QueryDo('update tmp where k = %d set v = %d'); t3.Complete(); log.Add('t3-committed'); 0 }", k, v3)
	w("tryit(tb3, log)")
	w("if not t3.Ended?() { t3.Rollback() }")
	if variant != 0 {
		w("t.QueryDo('update tmp where k = %d set v = %d')", outerKey, v1)
	}
	w("log.Add('block-end')")
	w("1001 }")
	w("log.Add('ret1:' $ r1)")
	w("0 }")
	w("tryit(tb1, log)")
	w("log.Add('end')")
	w("return 'done'")
	w("}")
	src := sb.String()
	key := fmt.Sprintf("seed=%d shard=%d/%d case=%d conflict-variant=%d", vk.Seed(), vk.Shard(), vk.NShards(), idx, variant)
	violate := func(class string, detail map[string]any) {
		detail["source"] = src
		rep.Violate(class, key, detail)
	}
	var fn Value
	if p, _ := vk.Catch(func() { fn = compile.Constant(src) }); p != nil {
		violate("C42/harness-generated-invalid-program", map[string]any{"error": errText(p)})
		return
	}
	log, holder := &SuObject{}, &SuObject{}
	var ret Value
	st := e.th.GetState()
	p, stack := vk.Catch(func() { ret = e.th.Call(fn, log, holder) })
	if p != nil {
		e.th.RestoreState(st)
		if re, ok := p.(runtime.Error); ok {
			violate("C42/go-runtime-error", map[string]any{"error": re.Error(), "stack": vk.Trunc(stack, 3000)})
			return
		}
	}
	gotLog := make([]string, log.ListSize())
	outerOK, innerOK, blockEnd, caught := false, false, false, 0
	for i := range gotLog {
		gotLog[i] = AsStr(log.ListGet(i))
		switch {
		case gotLog[i] == "ret1:1001":
			outerOK = true
		case gotLog[i] == "t3-committed":
			innerOK = true
		case gotLog[i] == "block-end":
			blockEnd = true
		case strings.HasPrefix(gotLog[i], "caught:"):
			caught++
		}
	}
	rep.Eval(vk.Hash64(src), true)
	rep.Count("conflict_cases", 1)
	detail := func() map[string]any {
		return map[string]any{"log": gotLog, "result": fmt.Sprint(ret), "exception": fmt.Sprint(p), "variant": variant}
	}
	if p != nil || ret == nil || AsStr(ret) != "done" || len(gotLog) == 0 || gotLog[len(gotLog)-1] != "end" {
		violate("C42/conflict/control-flow", detail())
		return
	}
	// every path that did not report success must have reported an exception
	want := 0
	if !outerOK {
		want++
	}
	if !innerOK {
		want++
	}
	if caught != want {
		violate("C42/conflict/failure-without-exception", detail())
		return
	}
	if blockEnd && !outerOK {
		rep.Count("block_completed_but_commit_failed_with_exception", 1)
	}
	if !innerOK {
		rep.Count("inner_transaction_lost_conflict", 1)
	}
	for i := 0; i < holder.ListSize(); i++ {
		if st, ok := holder.ListGet(i).(*SuTran); !ok || !st.Ended() {
			violate("C42/transaction-not-ended-after-block", detail())
			return
		}
	}
	if out := e.local.Transactions(); out.Size() != 0 {
		violate("C42/update-transaction-left-outstanding", detail())
		return
	}
	// database: exactly the writes of the transactions that reported success
	wantK, wantK2 := v0, v02
	if variant == 0 {
		// both wrote k: if both report success either order is a serial outcome
		gv, _ := e.readRow("tmp", k)
		switch {
		case outerOK && innerOK:
			if gv != v1 && gv != v3 {
				d := detail()
				d["k"] = gv
				violate("C42/conflict/database-differs", d)
			}
			return
		case outerOK:
			wantK = v1
		case innerOK:
			wantK = v3
		}
	} else {
		if innerOK {
			wantK = v3
		}
		if outerOK {
			wantK2 = v1
		}
	}
	gk, okK := e.readRow("tmp", k)
	gk2, okK2 := e.readRow("tmp", k2)
	if !okK || !okK2 || gk != wantK || gk2 != wantK2 {
		d := detail()
		d["rows"] = fmt.Sprintf("k=%d(%v) k2=%d(%v)", gk, okK, gk2, okK2)
		d["want"] = fmt.Sprintf("k=%d k2=%d", wantK, wantK2)
		class := "C42/conflict/database-differs"
		if outerOK && gk2 != wantK2 && variant != 0 || outerOK && variant == 0 && gk != wantK {
			class = "C42/not-committed-although-block-completed"
		} else if !outerOK && ((variant != 0 && gk2 == v1) || (variant == 0 && gk == v1)) {
			class = "C42/committed-although-block-threw"
		}
		violate(class, d)
	}
}
