// C36 Container operations match list and map semantics.
//
// Black-box monitor: random histories of container operations are applied to real
// SuObject / SuRecord values (through the Go Container API and through the builtin
// object methods called from compiled Suneido code) and to an independent model
// (Go slice + Go map, written from the documentation). After every operation the
// complete contents of every live container are compared with its model, so a
// copy-on-write leak into another container is seen as well.
package c36

import (
	"fmt"
	"math/rand/v2"
	"runtime"
	"sort"
	"strconv"
	"strings"
	"testing"

	"github.com/apmckinlay/gsuneido/builtin"
	"github.com/apmckinlay/gsuneido/compile"
	. "github.com/apmckinlay/gsuneido/core"
	"github.com/apmckinlay/gsuneido/core/types"
	"github.com/apmckinlay/gsuneido/util/dnum"
	vk "github.com/apmckinlay/gsuneido/util/verifkit"
)

// ------------------------------------------------------------------ model

type kind int

const (
	kBool kind = iota
	kNum
	kStr
	kObj
)

// mval is the model of a value. Scalars are identified by content,
// containers by identity (c).
type mval struct {
	k    kind
	b    bool
	n, d int64 // number n/d, d is 1 or 2
	s    string
	c    *cont
	real Value
}

type mkey struct {
	canon string
	isInt bool
	i     int
	real  Value
}

type ment struct {
	key mkey
	val mval
}

type model struct {
	list  []mval
	named map[string]ment
	def   *mval
	ro    bool
	rec   bool
}

// cont is a live container: the real one and its model.
// level: a container only ever contains containers of a higher level (no cycles).
type cont struct {
	real  Container
	m     *model
	level int
	id    int
}

func newModel(rec bool) *model {
	m := &model{named: map[string]ment{}, rec: rec}
	if rec {
		m.def = &mval{k: kStr, s: "", real: EmptyStr}
	}
	return m
}

func (m *model) clone() *model {
	c := &model{list: append([]mval(nil), m.list...), named: make(map[string]ment, len(m.named)),
		def: m.def, ro: m.ro, rec: m.rec}
	for k, v := range m.named {
		c.named[k] = v
	}
	return c
}

func intCanon(i int) string { return "i:" + strconv.Itoa(i) }

func (m *model) migrate() int {
	n := 0
	for {
		ck := intCanon(len(m.list))
		e, ok := m.named[ck]
		if !ok {
			return n
		}
		delete(m.named, ck)
		m.list = append(m.list, e.val)
		n++
	}
}

// put: the documented member assignment. Returns the number of migrated members.
func (m *model) put(k mkey, v mval) int {
	if k.isInt {
		if k.i == len(m.list) {
			m.list = append(m.list, v)
			return m.migrate()
		}
		if 0 <= k.i && k.i < len(m.list) {
			m.list[k.i] = v
			return 0
		}
	}
	m.named[k.canon] = ment{k, v}
	return 0
}

func (m *model) add(v mval) int {
	m.list = append(m.list, v)
	return m.migrate()
}

func (m *model) insert(at int, v mval) int {
	if 0 <= at && at <= len(m.list) {
		m.list = append(m.list, mval{})
		copy(m.list[at+1:], m.list[at:])
		m.list[at] = v
		return m.migrate()
	}
	return m.put(intKey(at, false), v) + m.migrate()
}

func (m *model) get(k mkey) (mval, bool) {
	if k.isInt && 0 <= k.i && k.i < len(m.list) {
		return m.list[k.i], true
	}
	e, ok := m.named[k.canon]
	return e.val, ok
}

func (m *model) del(k mkey) bool {
	if k.isInt && 0 <= k.i && k.i < len(m.list) {
		m.list = append(m.list[:k.i:k.i], m.list[k.i+1:]...)
		return true
	}
	if _, ok := m.named[k.canon]; ok {
		delete(m.named, k.canon)
		return true
	}
	return false
}

// erase returns (found, number of list members that became named members)
func (m *model) erase(k mkey) (bool, int) {
	if k.isInt && 0 <= k.i && k.i < len(m.list) {
		n := 0
		for j := k.i + 1; j < len(m.list); j++ {
			m.named[intCanon(j)] = ment{intKey(j, false), m.list[j]}
			n++
		}
		m.list = m.list[:k.i:k.i]
		return true, n
	}
	if _, ok := m.named[k.canon]; ok {
		delete(m.named, k.canon)
		return true, 0
	}
	return false, 0
}

func cmpInt64(a, b int64) int {
	if a < b {
		return -1
	}
	if a > b {
		return 1
	}
	return 0
}

// cmpVal is the documented value ordering restricted to the generated domain:
// booleans < numbers < strings < objects; false < true; numbers numerically;
// strings bytewise; objects by their list (un-named) values, a proper prefix first.
func cmpVal(a, b mval) int {
	if a.k != b.k {
		return cmpInt64(int64(a.k), int64(b.k))
	}
	switch a.k {
	case kBool:
		x, y := 0, 0
		if a.b {
			x = 1
		}
		if b.b {
			y = 1
		}
		return cmpInt64(int64(x), int64(y))
	case kNum:
		return cmpInt64(a.n*b.d, b.n*a.d)
	case kStr:
		return strings.Compare(a.s, b.s)
	default:
		if a.c == b.c {
			return 0
		}
		x, y := a.c.m.list, b.c.m.list
		for i := 0; i < len(x) && i < len(y); i++ {
			if c := cmpVal(x[i], y[i]); c != 0 {
				return c
			}
		}
		return cmpInt64(int64(len(x)), int64(len(y)))
	}
}

// eqVal is the documented equality: numbers by value, strings by content,
// objects/records equal when they have the same values and members.
func eqVal(a, b mval) bool {
	if a.k != b.k {
		return false
	}
	switch a.k {
	case kBool:
		return a.b == b.b
	case kNum:
		return a.n*b.d == b.n*a.d
	case kStr:
		return a.s == b.s
	default:
		if a.c == b.c {
			return true
		}
		x, y := a.c.m, b.c.m
		if len(x.list) != len(y.list) || len(x.named) != len(y.named) {
			return false
		}
		for i := range x.list {
			if !eqVal(x.list[i], y.list[i]) {
				return false
			}
		}
		for k, e := range x.named {
			f, ok := y.named[k]
			if !ok || !eqVal(e.val, f.val) {
				return false
			}
		}
		return true
	}
}

// identical: the same stored value (scalars by content, containers by identity)
func identical(a, b mval) bool {
	if a.k != b.k {
		return false
	}
	if a.k == kObj {
		return a.c == b.c
	}
	return eqVal(a, b)
}

func sameModel(a, b *model) bool {
	if len(a.list) != len(b.list) || len(a.named) != len(b.named) || a.ro != b.ro {
		return false
	}
	for i := range a.list {
		if !identical(a.list[i], b.list[i]) {
			return false
		}
	}
	for k, e := range a.named {
		f, ok := b.named[k]
		if !ok || !identical(e.val, f.val) {
			return false
		}
	}
	if (a.def == nil) != (b.def == nil) {
		return false
	}
	return a.def == nil || identical(*a.def, *b.def)
}

func (v mval) String() string {
	switch v.k {
	case kBool:
		return strconv.FormatBool(v.b)
	case kNum:
		if v.d == 1 {
			return strconv.FormatInt(v.n, 10)
		}
		return fmt.Sprintf("%d/%d", v.n, v.d)
	case kStr:
		return strconv.Quote(v.s)
	default:
		return fmt.Sprintf("<c%d %s>", v.c.id, v.c.m.String())
	}
}

func (m *model) String() string {
	var sb strings.Builder
	if m.rec {
		sb.WriteString("[")
	} else {
		sb.WriteString("(")
	}
	for i, v := range m.list {
		if i > 0 {
			sb.WriteString(", ")
		}
		sb.WriteString(v.String())
	}
	keys := make([]string, 0, len(m.named))
	for k := range m.named {
		keys = append(keys, k)
	}
	sort.Strings(keys)
	sb.WriteString(" |")
	for _, k := range keys {
		sb.WriteString(" " + k + ": " + m.named[k].val.String())
	}
	if m.ro {
		sb.WriteString(" RO")
	}
	if m.rec {
		sb.WriteString("]")
	} else {
		sb.WriteString(")")
	}
	return sb.String()
}

// ------------------------------------------------------------------ reading real values

func isNum(v Value, n, d int64) bool {
	if v == nil || v.Type() != types.Number {
		return false
	}
	if d == 1 {
		if i, ok := v.ToInt(); ok {
			return int64(i) == n
		}
	}
	dn, ok := v.ToDnum()
	if !ok {
		return false
	}
	return dnum.Equal(dnum.Mul(dn, dnum.FromInt(d)), dnum.FromInt(n))
}

func same(v Value, m mval) bool {
	if v == nil {
		return false
	}
	switch m.k {
	case kBool:
		return v == Value(SuBool(m.b))
	case kNum:
		return isNum(v, m.n, m.d)
	case kStr:
		if v.Type() != types.String {
			return false
		}
		s, ok := v.ToStr()
		return ok && s == m.s
	default:
		if t := v.Type(); t != types.Object && t != types.Record {
			return false
		}
		c, ok := v.ToContainer()
		return ok && c == m.c.real
	}
}

// canonKey computes the model identity of a key handed back by the real container.
func canonKey(k Value) string {
	if k == nil {
		return "nil"
	}
	switch k.Type() {
	case types.Boolean:
		return "b:" + k.String()
	case types.Number:
		if i, ok := k.ToInt(); ok {
			return intCanon(i)
		}
		if dn, ok := k.ToDnum(); ok {
			if i, ok := dnum.Mul(dn, dnum.FromInt(2)).ToInt(); ok {
				return "h:" + strconv.Itoa(i)
			}
		}
		return "n?:" + k.String()
	case types.String:
		s, _ := k.ToStr()
		return "s:" + s
	case types.Object:
		c := ToContainer(k)
		var sb strings.Builder
		sb.WriteString("o:")
		for i := 0; i < c.ListSize(); i++ {
			sb.WriteString(canonKey(c.ListGet(i)) + ",")
		}
		return sb.String()
	}
	return "?:" + k.String()
}

func show(v Value) string {
	if v == nil {
		return "nil"
	}
	s := ""
	if p, _ := vk.Catch(func() { s = v.String() }); p != nil {
		return fmt.Sprint("<unprintable: ", p, ">")
	}
	return fmt.Sprintf("%s %s", v.Type(), vk.Trunc(s, 300))
}

// ------------------------------------------------------------------ compiled builtin-method drivers

var fnSrc = map[string]string{
	"add1":       "function (ob, a) { ob.Add(a) }",
	"add2":       "function (ob, a, b) { ob.Add(a, b) }",
	"addEach":    "function (ob, args) { ob.Add(@args) }",
	"addAt1":     "function (ob, a, at) { ob.Add(a, at: at) }",
	"addAt2":     "function (ob, a, b, at) { ob.Add(a, b, at: at) }",
	"put":        "function (ob, k, v) { ob[k] = v }",
	"get":        "function (ob, k) { ob[k] }",
	"getDefault": "function (ob, k, d) { ob.GetDefault(k, d) }",
	"getDefBlk":  "function (ob, k, d) { ob.GetDefault(k) { d } }",
	"member":     "function (ob, k) { ob.Member?(k) }",
	"del1":       "function (ob, k) { ob.Delete(k) }",
	"del2":       "function (ob, k, k2) { ob.Delete(k, k2) }",
	"delAll":     "function (ob) { ob.Delete(all:) }",
	"clear":      "function (ob) { ob.Clear() }",
	"erase1":     "function (ob, k) { ob.Erase(k) }",
	"erase2":     "function (ob, k, k2) { ob.Erase(k, k2) }",
	"find":       "function (ob, v) { ob.Find(v) }",
	"has":        "function (ob, v) { ob.Has?(v) }",
	"sizes":      "function (ob) { Object(ob.Size(), ob.Size(list:), ob.Size(named:), ob.Size(list:, named:)) }",
	"members":    "function (ob) { Object(ob.Members(), ob.Members(list:), ob.Members(named:)) }",
	"values":     "function (ob) { Object(ob.Values(), ob.Values(list:), ob.Values(named:)) }",
	"assocs":     "function (ob) { Object(ob.Assocs(), ob.Assocs(list:), ob.Assocs(named:)) }",
	"sort":       "function (ob) { ob.Sort!() }",
	"sortLt":     "function (ob, lt) { ob.Sort!(lt) }",
	"sortBlk":    "function (ob) { ob.Sort!({|x, y| x > y }) }",
	"unique":     "function (ob) { ob.Unique!() }",
	"reverse":    "function (ob) { ob.Reverse!() }",
	"popFirst":   "function (ob) { ob.PopFirst() }",
	"popLast":    "function (ob) { ob.PopLast() }",
	"rangeTo":    "function (ob, i, j) { ob[i .. j] }",
	"rangeFrom":  "function (ob, i) { ob[i ..] }",
	"rangeUpTo":  "function (ob, j) { ob[.. j] }",
	"rangeLen":   "function (ob, i, n) { ob[i :: n] }",
	"rangeLenTo": "function (ob, i) { ob[i ::] }",
	"copy":       "function (ob) { ob.Copy() }",
	"setRo":      "function (ob) { ob.Set_readonly() }",
	"roQ":        "function (ob) { ob.Readonly?() }",
	"setDef":     "function (ob, d) { ob.Set_default(d) }",
	"unsetDef":   "function (ob) { ob.Set_default() }",
	"plusEq":     "function (ob, k, n) { ob[k] += n }",
	"incr":       "function (ob, k) { ob[k]++ }",
	"cas":        "function (ob, k, nv, old) { ob.CompareAndSet(k, nv, old) }",
	"casNew":     "function (ob, k, nv) { ob.CompareAndSet(k, nv) }",
	"max":        "function (ob) { ob.Max() }",
	"min":        "function (ob) { ob.Min() }",
	"join":       "function (ob, sep) { ob.Join(sep) }",
	"forIn":      "function (ob) { r = Object(); for x in ob r.Add(x); r }",
	"forIn2":     "function (ob) { r = Object(); for m, v in ob r.Add(Object(m, v)); r }",
	"iterNext":   "function (ob) { r = Object(); it = ob.Iter(); while it isnt (x = it.Next()) r.Add(x); r }",
	"bsearch":    "function (ob, v) { ob.BinarySearch(v) }",
	"bsearchLte": "function (ob, v) { ob.BinarySearch(v, {|x, y| x <= y }) }",
	"splat":      "function (ob) { f = function (@args) { args }; f(@ob) }",
	"splat1":     "function (ob) { f = function (@args) { args }; f(@+1 ob) }",
	"mkObject":   "function (@args) { Object(@args) }",
	"mkRecord":   "function (@args) { Record(@args) }",
	// comparison functions for Sort!
	"ltDesc":   "function (x, y) { x > y }",
	"ltByType": "function (x, y) { Type(x) < Type(y) }",
	"ltByLen":  "function (x, y) { (String?(x) ? x.Size() : -1) < (String?(y) ? y.Size() : -1) }",
}

var fns = map[string]Value{}

func init() {
	builtin.DefDef()
}

func compileAll() {
	for name, src := range fnSrc {
		if p, _ := vk.Catch(func() { fns[name] = compile.Constant(src) }); p != nil {
			panic(fmt.Sprint("harness: cannot compile ", name, ": ", p))
		}
	}
}

// ------------------------------------------------------------------ history runner

type hist struct {
	rep    *vk.Report
	r      *rand.Rand
	th     *Thread
	idx    int
	pool   []*cont
	consts []*cont
	nextID int
	trace  []string
	stats  struct {
		muts, migr, roRej, beyond, ties, cow, nested int
	}
	failed bool
}

func (h *hist) key() string {
	return fmt.Sprintf("seed=%d shard=%d/%d case=%d op=%d", vk.Seed(), vk.Shard(), vk.NShards(), h.idx, len(h.trace))
}

func (h *hist) violate(class string, detail map[string]any) {
	h.failed = true
	t := h.trace
	if len(t) > 25 {
		t = t[len(t)-25:]
	}
	detail["history_tail"] = t
	h.rep.Violate(class, h.key()+" "+h.trace[len(h.trace)-1], detail)
}

// su calls a compiled driver; a Suneido error comes back as err (string form),
// a Go runtime error is reported as a violation.
func (h *hist) su(name string, args ...Value) (res Value, err string, failed bool) {
	st := h.th.GetState()
	p, stack := vk.Catch(func() { res = h.th.Call(fns[name], args...) })
	if p == nil {
		return res, "", false
	}
	h.th.RestoreState(st)
	return nil, h.perr(name, p, stack), true
}

func (h *hist) perr(name string, p any, stack string) string {
	if re, ok := p.(runtime.Error); ok {
		h.violate("C36/go-runtime-error/"+name, map[string]any{"error": re.Error(), "stack": vk.Trunc(stack, 3000)})
		return "GO-RUNTIME-ERROR " + re.Error()
	}
	switch e := p.(type) {
	case *SuExcept:
		return string(e.SuStr)
	case SuStr:
		return string(e)
	case string:
		return e
	case error:
		return e.Error()
	}
	return fmt.Sprint(p)
}

// goDo runs a Go-API operation on the real container
func (h *hist) goDo(name string, f func()) (err string, failed bool) {
	st := h.th.GetState()
	p, stack := vk.Catch(f)
	if p == nil {
		return "", false
	}
	h.th.RestoreState(st)
	return h.perr(name, p, stack), true
}

func (h *hist) newCont(rec bool, level int) *cont {
	var real Container
	if rec {
		if h.r.IntN(2) == 0 {
			real = NewSuRecord()
		} else {
			v, _, _ := h.su("mkRecord")
			real = v.(*SuRecord)
		}
	} else {
		if h.r.IntN(2) == 0 {
			real = &SuObject{}
		} else {
			v, _, _ := h.su("mkObject")
			real = v.(*SuObject)
		}
	}
	m := newModel(rec)
	if rec && h.r.IntN(3) == 0 {
		// a record as a query delivers it: backed by a stored row whose fields are unpacked on demand
		names := []string{"a", "b", "c", "ab", "zz"}
		h.r.Shuffle(len(names), func(i, j int) { names[i], names[j] = names[j], names[i] })
		names = names[:1+h.r.IntN(3)]
		var rb RecordBuilder
		for _, nm := range names {
			n := int64(1 + h.r.IntN(9))
			rb.Add(IntVal(int(n)))
			m.named["s:"+nm] = ment{mkey{canon: "s:" + nm, real: SuStr(nm)}, mval{k: kNum, n: n, d: 1, real: IntVal(int(n))}}
		}
		hdr := NewHeader([][]string{names}, names)
		real = SuRecordFromRow(Row{DbRec{Record: rb.Build()}}, hdr, "", nil)
		h.rep.Count("row_backed_records", 1)
	}
	h.nextID++
	return &cont{real: real, m: m, level: level, id: h.nextID}
}

// constant nested values: read-only literals. Some compare equal (Compare looks
// at the list only) while being distinguishable, some are equal but distinct.
func (h *hist) mkConsts() {
	specs := []struct {
		src   string
		list  []int64
		named map[string]int64
	}{
		{"#(1)", []int64{1}, nil},
		{"#(1)", []int64{1}, nil}, // equal twin, different identity
		{"#(1, t: 1)", []int64{1}, map[string]int64{"t": 1}},
		{"#(1, t: 2)", []int64{1}, map[string]int64{"t": 2}},
		{"#(2)", []int64{2}, nil},
		{"#()", nil, nil},
		{"#(1, 2)", []int64{1, 2}, nil},
		{"#(0, t: 1)", []int64{0}, map[string]int64{"t": 1}},
		{"#{1}", []int64{1}, nil}, // a record equal to #(1)
	}
	for _, s := range specs {
		real := ToContainer(compile.Constant(s.src))
		m := newModel(strings.HasPrefix(s.src, "#{"))
		m.ro = true
		for _, n := range s.list {
			m.list = append(m.list, mval{k: kNum, n: n, d: 1, real: IntVal(int(n))})
		}
		for k, n := range s.named {
			m.named["s:"+k] = ment{mkey{canon: "s:" + k, real: SuStr(k)}, mval{k: kNum, n: n, d: 1, real: IntVal(int(n))}}
		}
		h.nextID++
		h.consts = append(h.consts, &cont{real: real, m: m, level: 1000, id: h.nextID})
	}
}

var strDomain = []string{"", "a", "b", "c", "A", "ab", "0", "1", "zz"}

func numVal(n, d int64, asDnum bool) Value {
	if d == 1 {
		if asDnum {
			return SuDnum{Dnum: dnum.FromInt(n)}
		}
		return IntVal(int(n))
	}
	return SuDnum{Dnum: dnum.Div(dnum.FromInt(n), dnum.FromInt(d))}
}

func (h *hist) genScalar() mval {
	r := h.r
	switch x := r.IntN(100); {
	case x < 50:
		n := int64(r.IntN(12) - 2)
		return mval{k: kNum, n: n, d: 1, real: numVal(n, 1, r.IntN(6) == 0)}
	case x < 58:
		n := int64(2*r.IntN(6) - 3) // odd => a half
		return mval{k: kNum, n: n, d: 2, real: numVal(n, 2, true)}
	case x < 92:
		s := strDomain[r.IntN(len(strDomain))]
		return mval{k: kStr, s: s, real: SuStr(s)}
	default:
		b := r.IntN(2) == 0
		return mval{k: kBool, b: b, real: SuBool(b)}
	}
}

// genVal: a value that may be stored in container c
func (h *hist) genVal(c *cont) mval {
	r := h.r
	x := r.IntN(100)
	if x < 14 {
		k := h.consts[r.IntN(len(h.consts))]
		return mval{k: kObj, c: k, real: k.real}
	}
	if x < 22 {
		var cand []*cont
		for _, p := range h.pool {
			if p.level > c.level {
				cand = append(cand, p)
			}
		}
		if len(cand) > 0 {
			p := cand[r.IntN(len(cand))]
			h.stats.nested++
			return mval{k: kObj, c: p, real: p.real}
		}
	}
	return h.genScalar()
}

func intKey(i int, asDnum bool) mkey {
	return mkey{canon: intCanon(i), isInt: true, i: i, real: numVal(int64(i), 1, asDnum)}
}

func strKey(s string) mkey { return mkey{canon: "s:" + s, real: SuStr(s)} }

// genKey: biased to the list boundary of c
func (h *hist) genKey(c *cont) mkey {
	r := h.r
	n := len(c.m.list)
	switch x := r.IntN(100); {
	case x < 22:
		return intKey(n+r.IntN(4), r.IntN(6) == 0) // at and just beyond the list size
	case x < 40:
		if n > 0 {
			return intKey(r.IntN(n), r.IntN(6) == 0)
		}
		return intKey(0, false)
	case x < 46:
		return intKey(-1-r.IntN(2), false)
	case x < 50:
		return intKey(n+4+r.IntN(100000), false)
	case x < 58:
		// an existing named member
		if len(c.m.named) > 0 {
			keys := make([]string, 0, len(c.m.named))
			for k := range c.m.named {
				keys = append(keys, k)
			}
			sort.Strings(keys)
			return c.m.named[keys[r.IntN(len(keys))]].key
		}
		return strKey("a")
	case x < 84:
		return strKey(strDomain[1+r.IntN(len(strDomain)-1)])
	case x < 89:
		hn := 2*r.IntN(4) - 1
		return mkey{canon: "h:" + strconv.Itoa(hn), real: numVal(int64(hn), 2, true)}
	case x < 93:
		b := r.IntN(2) == 0
		return mkey{canon: "b:" + strconv.FormatBool(b), real: SuBool(b)}
	default:
		// object keys: the two #(1) twins are the same key, #(2) is another
		k := h.consts[[]int{0, 1, 4}[r.IntN(3)]]
		return mkey{canon: canonKey(k.real), real: k.real}
	}
}

func (k mkey) String() string { return k.canon }

// ------------------------------------------------------------------ verification of complete contents

func (h *hist) verifyAll(op string, target *cont) {
	for _, c := range h.pool {
		if msg := h.diff(c); msg != "" {
			class := "C36/content-mismatch/" + op
			if c != target {
				class = "C36/other-container-changed/" + op
			}
			h.violate(class, map[string]any{"container": c.id, "is_target": c == target, "difference": msg,
				"model": c.m.String(), "real": show(c.real)})
			return
		}
	}
}

// diff compares the real container with its model through the public read API
func (h *hist) diff(c *cont) (msg string) {
	p, stack := vk.Catch(func() { msg = h.diff2(c) })
	if p != nil {
		if _, ok := p.(runtime.Error); ok {
			return fmt.Sprint("Go runtime error while reading: ", p, "\n", vk.Trunc(stack, 2000))
		}
		return fmt.Sprint("error while reading: ", p)
	}
	return msg
}

func (h *hist) diff2(c *cont) string {
	real, m := c.real, c.m
	if ls := real.ListSize(); ls != len(m.list) {
		return fmt.Sprintf("list size %d, model %d", ls, len(m.list))
	}
	if ns := real.NamedSize(); ns != len(m.named) {
		return fmt.Sprintf("named size %d, model %d", ns, len(m.named))
	}
	for i, mv := range m.list {
		if v := real.ListGet(i); !same(v, mv) {
			return fmt.Sprintf("list[%d] = %s, model %s", i, show(v), mv)
		}
	}
	// iteration: list members first, in order, then each named member once
	it := real.Iter2(true, true)
	seen := map[string]bool{}
	for i := 0; ; i++ {
		k, v := it()
		if k == nil {
			if i != len(m.list)+len(m.named) {
				return fmt.Sprintf("iteration ended after %d members, model has %d", i, len(m.list)+len(m.named))
			}
			break
		}
		if i < len(m.list) {
			if canonKey(k) != intCanon(i) || !same(v, m.list[i]) {
				return fmt.Sprintf("iteration[%d] = (%s, %s), model (%d, %s)", i, show(k), show(v), i, m.list[i])
			}
			continue
		}
		ck := canonKey(k)
		e, ok := m.named[ck]
		if !ok {
			return fmt.Sprintf("iteration yields named member %s (%s) that the model does not have", show(k), ck)
		}
		if seen[ck] {
			return fmt.Sprintf("iteration yields named member %s twice", ck)
		}
		seen[ck] = true
		if !same(v, e.val) {
			return fmt.Sprintf("named %s = %s, model %s", ck, show(v), e.val)
		}
	}
	// keyed access
	for ck, e := range m.named {
		if !real.HasKey(e.key.real) {
			return fmt.Sprintf("HasKey(%s) false for a model member", ck)
		}
		if v := real.GetIfPresent(h.th, e.key.real); !same(v, e.val) {
			return fmt.Sprintf("GetIfPresent(%s) = %s, model %s", ck, show(v), e.val)
		}
	}
	for i, mv := range m.list {
		if !real.HasKey(IntVal(i)) {
			return fmt.Sprintf("HasKey(%d) false for a list member", i)
		}
		if v := real.GetIfPresent(h.th, SuDnum{Dnum: dnum.FromInt(int64(i))}); !same(v, mv) {
			return fmt.Sprintf("GetIfPresent(%d as decimal) = %s, model %s", i, show(v), mv)
		}
	}
	// absent probes
	for _, k := range []mkey{intKey(len(m.list), false), intKey(-1, false), strKey("nope"), intKey(len(m.list)+1, true)} {
		if _, ok := m.named[k.canon]; ok {
			continue
		}
		if real.HasKey(k.real) {
			return fmt.Sprintf("HasKey(%s) true for an absent member", k.canon)
		}
		if v := real.GetIfPresent(h.th, k.real); v != nil {
			return fmt.Sprintf("GetIfPresent(%s) = %s for an absent member", k.canon, show(v))
		}
	}
	if ro := real.IsReadOnly(); ro != m.ro {
		return fmt.Sprintf("IsReadOnly %v, model %v", ro, m.ro)
	}
	return ""
}

// sameList: a fresh result container must hold exactly these values as its list, nothing named
func sameList(v Value, want []mval) string {
	if v == nil {
		return "no result"
	}
	c, ok := v.ToContainer()
	if !ok {
		return "result is not a container: " + show(v)
	}
	if c.ListSize() != len(want) || c.NamedSize() != 0 {
		return fmt.Sprintf("result %s has list size %d named %d, want list size %d named 0", show(v), c.ListSize(), c.NamedSize(), len(want))
	}
	for i, w := range want {
		if !same(c.ListGet(i), w) {
			return fmt.Sprintf("result[%d] = %s, want %s (result %s)", i, show(c.ListGet(i)), w, show(v))
		}
	}
	return ""
}

func sortedKeys(m *model) []string {
	keys := make([]string, 0, len(m.named))
	for k := range m.named {
		keys = append(keys, k)
	}
	sort.Strings(keys)
	return keys
}

// ------------------------------------------------------------------ operations

type outcome struct {
	res    Value
	err    string
	failed bool
}

// mutate runs one mutating operation: exp is what the documentation says the
// container looks like afterwards (computed on a clone by the caller), run
// performs it on the real container.
func (h *hist) mutate(c *cont, name string, exp *model, run func() outcome) (out outcome, applied bool) {
	changed := !sameModel(exp, c.m)
	out = run()
	if out.failed && strings.HasPrefix(out.err, "GO-RUNTIME-ERROR") {
		return out, false
	}
	if c.m.ro {
		// read-only: every mutation must be rejected, nothing may change
		if changed {
			if !out.failed {
				h.violate("C36/readonly-mutation-accepted/"+name, map[string]any{"container": c.id, "model": c.m.String(), "real": show(c.real)})
			} else if !strings.Contains(out.err, "readonly") {
				h.violate("C36/readonly-wrong-error/"+name, map[string]any{"error": out.err})
			} else {
				h.stats.roRej++
				h.rep.Count("readonly_rejections", 1)
			}
		} else if out.failed && !strings.Contains(out.err, "readonly") {
			h.violate("C36/unexpected-error/"+name, map[string]any{"error": out.err, "model": c.m.String()})
		}
		return out, false
	}
	if out.failed {
		h.violate("C36/unexpected-error/"+name, map[string]any{"error": out.err, "model": c.m.String()})
		return out, false
	}
	if changed {
		h.stats.muts++
	}
	c.m = exp
	return out, true
}

func (h *hist) wantThis(c *cont, name string, out outcome) {
	if out.failed || h.failed {
		return
	}
	if out.res == nil || !same(out.res, mval{k: kObj, c: c}) {
		h.violate("C36/result-mismatch/"+name, map[string]any{"want": "this", "got": show(out.res)})
	}
}

func (h *hist) suOut(name string, args ...Value) outcome {
	res, err, failed := h.su(name, args...)
	return outcome{res, err, failed}
}

func (h *hist) goOut(name string, f func() Value) outcome {
	var res Value
	err, failed := h.goDo(name, func() { res = f() })
	return outcome{res, err, failed}
}

func (h *hist) addToPool(c *cont) {
	if len(h.pool) < 5 {
		h.pool = append(h.pool, c)
		return
	}
	// replace one of the later slots (slot 0 stays the main subject)
	h.pool[1+h.r.IntN(len(h.pool)-1)] = c
}

func (h *hist) step() {
	r := h.r
	var c *cont
	if x := r.IntN(10); x < 5 {
		c = h.pool[0]
	} else {
		c = h.pool[r.IntN(len(h.pool))]
	}
	viaGo := r.IntN(2) == 0
	tr := func(format string, args ...any) {
		via := "su"
		if viaGo {
			via = "go"
		}
		h.trace = append(h.trace, fmt.Sprintf("c%d.", c.id)+fmt.Sprintf(format, args...)+" ["+via+"]")
		h.rep.Seen("ops", strings.SplitN(fmt.Sprintf(format, args...), "(", 2)[0])
	}
	m := c.m
	if r.IntN(40) == 0 && len(m.list) < 200 {
		// bulk Add: long lists with many ties (library sorts switch algorithm with the length)
		n := 13 + r.IntN(60)
		vals := make([]mval, n)
		reals := make([]Value, n)
		exp := m.clone()
		mig := 0
		for i := range vals {
			vals[i] = h.genVal(c)
			reals[i] = vals[i].real
			mig += exp.add(vals[i])
		}
		tr("AddMany(n=%d)", n)
		out, ok := h.mutate(c, "AddMany", exp, func() outcome {
			if viaGo {
				return h.goOut("Add", func() Value {
					for _, v := range reals {
						c.real.Add(v)
					}
					return c.real
				})
			}
			return h.suOut("addEach", c.real, NewSuObject(reals))
		})
		if ok {
			h.migrated(mig)
			h.rep.Count("bulk_adds", 1)
		}
		h.wantThis(c, "AddMany", out)
		return
	}
	switch op := r.IntN(100); {
	case op < 9: // Add(v) / Add(v, w)
		v, w := h.genVal(c), h.genVal(c)
		two := r.IntN(3) == 0
		exp := m.clone()
		mig := exp.add(v)
		if two {
			mig += exp.add(w)
		}
		tr("Add(%s, two=%v)", v, two)
		out, ok := h.mutate(c, "Add", exp, func() outcome {
			if viaGo {
				return h.goOut("Add", func() Value {
					c.real.Add(v.real)
					if two {
						c.real.Add(w.real)
					}
					return c.real
				})
			}
			if two {
				if r.IntN(2) == 0 {
					return h.suOut("addEach", c.real, SuObjectOf(v.real, w.real))
				}
				return h.suOut("add2", c.real, v.real, w.real)
			}
			return h.suOut("add1", c.real, v.real)
		})
		if ok {
			h.migrated(mig)
		}
		h.wantThis(c, "Add", out)
	case op < 19: // Add(v [, w], at: i)
		v, w := h.genVal(c), h.genVal(c)
		two := r.IntN(3) == 0
		k := h.genKey(c)
		if !k.isInt {
			// at: name => plain assignment of a single value
			exp := m.clone()
			exp.put(k, v)
			viaGo = false
			tr("AddAtName(%s, at: %s)", v, k)
			out, _ := h.mutate(c, "AddAtName", exp, func() outcome { return h.suOut("addAt1", c.real, v.real, k.real) })
			h.wantThis(c, "AddAtName", out)
			break
		}
		exp := m.clone()
		if k.i >= len(m.list) {
			h.stats.beyond++
		}
		mig := exp.insert(k.i, v)
		if two {
			mig += exp.insert(k.i+1, w)
		}
		tr("AddAt(%s, %s two=%v, at: %d)", v, w, two, k.i)
		out, ok := h.mutate(c, "AddAt", exp, func() outcome {
			if viaGo {
				return h.goOut("Insert", func() Value {
					c.real.Insert(k.i, v.real)
					if two {
						c.real.Insert(k.i+1, w.real)
					}
					return c.real
				})
			}
			if two {
				return h.suOut("addAt2", c.real, v.real, w.real, k.real)
			}
			return h.suOut("addAt1", c.real, v.real, k.real)
		})
		if ok {
			h.migrated(mig)
		}
		h.wantThis(c, "AddAt", out)
	case op < 33: // ob[k] = v
		k, v := h.genKey(c), h.genVal(c)
		exp := m.clone()
		if k.isInt && k.i >= len(m.list) {
			h.stats.beyond++
		}
		mig := exp.put(k, v)
		tr("Put(%s, %s)", k, v)
		_, ok := h.mutate(c, "Put", exp, func() outcome {
			if viaGo {
				return h.goOut("Put", func() Value {
					if ob, isOb := c.real.(*SuObject); isOb && r.IntN(2) == 0 {
						ob.Set(k.real, v.real)
					} else {
						c.real.(interface{ Put(*Thread, Value, Value) }).Put(h.th, k.real, v.real)
					}
					return nil
				})
			}
			return h.suOut("put", c.real, k.real, v.real)
		})
		if ok {
			h.migrated(mig)
		}
	case op < 41: // Delete(k [, k2])
		k, k2 := h.genKey(c), h.genKey(c)
		two := r.IntN(4) == 0
		exp := m.clone()
		exp.del(k)
		if two {
			exp.del(k2)
		}
		tr("Delete(%s, %s two=%v)", k, k2, two)
		out, _ := h.mutate(c, "Delete", exp, func() outcome {
			if viaGo {
				return h.goOut("Delete", func() Value {
					_, want := m.get(k)
					if got := c.real.Delete(h.th, k.real); got != want && !m.ro {
						h.violate("C36/result-mismatch/Delete", map[string]any{"got": got, "want": want})
					}
					if two {
						c.real.Delete(h.th, k2.real)
					}
					return c.real
				})
			}
			if two {
				return h.suOut("del2", c.real, k.real, k2.real)
			}
			return h.suOut("del1", c.real, k.real)
		})
		h.wantThis(c, "Delete", out)
	case op < 48: // Erase(k [, k2])
		k, k2 := h.genKey(c), h.genKey(c)
		two := r.IntN(4) == 0
		exp := m.clone()
		_, mig := exp.erase(k)
		if two {
			_, g := exp.erase(k2)
			mig += g
		}
		tr("Erase(%s, %s two=%v)", k, k2, two)
		out, ok := h.mutate(c, "Erase", exp, func() outcome {
			if viaGo {
				return h.goOut("Erase", func() Value {
					_, want := m.get(k)
					if got := c.real.Erase(h.th, k.real); got != want && !m.ro {
						h.violate("C36/result-mismatch/Erase", map[string]any{"got": got, "want": want})
					}
					if two {
						c.real.Erase(h.th, k2.real)
					}
					return c.real
				})
			}
			if two {
				return h.suOut("erase2", c.real, k.real, k2.real)
			}
			return h.suOut("erase1", c.real, k.real)
		})
		if ok {
			h.migrated(mig)
		}
		h.wantThis(c, "Erase", out)
	case op < 50: // Delete(all:) / Clear
		exp := m.clone()
		exp.list = nil
		exp.named = map[string]ment{}
		name := "DeleteAll"
		if m.rec && r.IntN(2) == 0 {
			name = "Clear"
			viaGo = false
		}
		tr("%s()", name)
		h.mutate(c, name, exp, func() outcome {
			if name == "Clear" {
				return h.suOut("clear", c.real)
			}
			if viaGo {
				return h.goOut("DeleteAll", func() Value { c.real.DeleteAll(); return nil })
			}
			return h.suOut("delAll", c.real)
		})
	case op < 55: // PopFirst / PopLast
		first := r.IntN(2) == 0
		exp := m.clone()
		var want *mval
		if len(exp.list) > 0 {
			if first {
				w := exp.list[0]
				want = &w
				exp.list = append([]mval(nil), exp.list[1:]...)
			} else {
				w := exp.list[len(exp.list)-1]
				want = &w
				exp.list = exp.list[: len(exp.list)-1 : len(exp.list)-1]
			}
		}
		name := "PopLast"
		if first {
			name = "PopFirst"
		}
		tr("%s()", name)
		out, ok := h.mutate(c, name, exp, func() outcome {
			if viaGo {
				return h.goOut(name, func() Value {
					var x Value
					if first {
						x = c.real.ToObject().PopFirst()
					} else {
						x = c.real.ToObject().PopLast()
					}
					if x == nil {
						return c.real // the builtin returns this
					}
					return x
				})
			}
			if first {
				return h.suOut("popFirst", c.real)
			}
			return h.suOut("popLast", c.real)
		})
		if !out.failed && !h.failed && (ok || want == nil) {
			w := mval{k: kObj, c: c}
			if want != nil {
				w = *want
			}
			if !same(out.res, w) {
				h.violate("C36/result-mismatch/"+name, map[string]any{"got": show(out.res), "want": w.String()})
			}
		}
	case op < 63: // Sort!
		h.doSort(c, viaGo, tr)
	case op < 66: // Unique!
		exp := m.clone()
		if len(exp.list) > 1 {
			nl := exp.list[:1:1]
			for _, v := range exp.list[1:] {
				if !eqVal(v, nl[len(nl)-1]) {
					nl = append(nl, v)
				}
			}
			exp.list = nl
		}
		tr("Unique!()")
		out, _ := h.mutate(c, "Unique", exp, func() outcome {
			if viaGo {
				return h.goOut("Unique", func() Value { c.real.ToObject().Unique(); return c.real })
			}
			return h.suOut("unique", c.real)
		})
		h.wantThis(c, "Unique", out)
	case op < 68: // Reverse!
		exp := m.clone()
		for lo, hi := 0, len(exp.list)-1; lo < hi; lo, hi = lo+1, hi-1 {
			exp.list[lo], exp.list[hi] = exp.list[hi], exp.list[lo]
		}
		tr("Reverse!()")
		out, _ := h.mutate(c, "Reverse", exp, func() outcome {
			if viaGo {
				return h.goOut("Reverse", func() Value { c.real.ToObject().Reverse(); return c.real })
			}
			return h.suOut("reverse", c.real)
		})
		h.wantThis(c, "Reverse", out)
	case op < 70: // ob[k] += n, ob[k]++
		k := h.genKey(c)
		cur, ok := m.get(k)
		if !ok || cur.k != kNum || cur.d != 1 {
			tr("skip-incr")
			break
		}
		n := int64(1)
		plus := r.IntN(2) == 0
		if plus {
			n = int64(r.IntN(5) + 1)
		}
		exp := m.clone()
		nv := mval{k: kNum, n: cur.n + n, d: 1, real: IntVal(int(cur.n + n))}
		exp.put(k, nv)
		viaGo = false
		tr("PlusEq(%s, %d)", k, n)
		h.mutate(c, "PlusEq", exp, func() outcome {
			if plus {
				return h.suOut("plusEq", c.real, k.real, IntVal(int(n)))
			}
			return h.suOut("incr", c.real, k.real)
		})
	case op < 72: // Set_default
		exp := m.clone()
		var d *mval
		switch r.IntN(4) {
		case 0: // remove
		case 1:
			k := h.consts[[]int{5, 4, 6}[r.IntN(3)]] // #() or #(2) or #(1,2): container default
			d = &mval{k: kObj, c: k, real: k.real}
		default:
			v := h.genScalar()
			d = &v
		}
		exp.def = d
		tr("Set_default(%v)", d)
		out, _ := h.mutate(c, "Set_default", exp, func() outcome {
			if viaGo {
				return h.goOut("SetDefault", func() Value {
					if d == nil {
						c.real.ToObject().SetDefault(nil)
					} else {
						c.real.ToObject().SetDefault(d.real)
					}
					return c.real
				})
			}
			if d == nil {
				return h.suOut("unsetDef", c.real)
			}
			return h.suOut("setDef", c.real, d.real)
		})
		h.wantThis(c, "Set_default", out)
	case op < 74: // Set_readonly (deep)
		if c == h.pool[0] && len(h.trace) < 25 && r.IntN(3) != 0 {
			tr("skip-readonly")
			break // keep the main subject mutable for a while
		}
		tr("Set_readonly()")
		var out outcome
		if viaGo {
			out = h.goOut("SetReadOnly", func() Value { c.real.SetReadOnly(); return c.real })
		} else {
			out = h.suOut("setRo", c.real)
		}
		if out.failed {
			h.violate("C36/unexpected-error/Set_readonly", map[string]any{"error": out.err})
			break
		}
		h.setRo(c.m, 0)
		h.wantThis(c, "Set_readonly", out)
	case op < 76: // CompareAndSet (only identical simple values: it is documented with `is`)
		k := h.genKey(c)
		nv := h.genScalar()
		cur, ok := m.get(k)
		exp := m.clone()
		var out outcome
		viaGo = false
		want := false
		if !ok {
			exp.put(k, nv)
			want = true
			tr("CompareAndSet(%s, %s)", k, nv)
			out, _ = h.mutate(c, "CompareAndSet", exp, func() outcome { return h.suOut("casNew", c.real, k.real, nv.real) })
		} else if cur.k == kObj || (cur.k == kNum && cur.d != 1) {
			tr("skip-cas")
			break
		} else {
			old := cur
			if r.IntN(3) == 0 {
				old = mval{k: kStr, s: "other", real: SuStr("other")}
			} else {
				old.real = c.real.GetIfPresent(h.th, k.real) // the stored value itself
			}
			if identical(old, cur) {
				exp.put(k, nv)
				want = true
			}
			tr("CompareAndSet(%s, %s, %s)", k, nv, old)
			out, _ = h.mutate(c, "CompareAndSet", exp, func() outcome { return h.suOut("cas", c.real, k.real, nv.real, old.real) })
		}
		if !out.failed && !h.failed && !m.ro && out.res != Value(SuBool(want)) {
			h.violate("C36/result-mismatch/CompareAndSet", map[string]any{"got": show(out.res), "want": want})
		}
	case op < 80: // ob[k] (may create a member when the default is a container)
		h.doGet(c, viaGo, tr)
	case op < 82: // GetDefault
		k := h.genKey(c)
		d := h.genScalar()
		cur, ok := m.get(k)
		want := d
		if ok {
			want = cur
		}
		viaGo = false
		tr("GetDefault(%s, %s)", k, d)
		name := "getDefault"
		if r.IntN(2) == 0 {
			name = "getDefBlk"
		}
		out := h.suOut(name, c.real, k.real, d.real)
		if out.failed {
			h.violate("C36/unexpected-error/GetDefault", map[string]any{"error": out.err})
		} else if !same(out.res, want) {
			h.violate("C36/result-mismatch/GetDefault", map[string]any{"got": show(out.res), "want": want.String()})
		}
	case op < 85: // Member?, Find, Has?
		h.doFind(c, viaGo, tr)
	case op < 88: // sizes, members, values, assocs
		h.doEnumerate(c, tr)
	case op < 92: // ranges
		h.doRange(c, viaGo, tr)
	case op < 95: // Copy / Slice(n)
		h.doCopy(c, viaGo, tr)
	case op < 97: // Max / Min / Join
		h.doMaxMinJoin(c, tr)
	default: // iteration
		h.doIterate(c, tr)
	}
}

func (h *hist) migrated(n int) {
	if n > 0 {
		h.stats.migr += n
		h.rep.Count("migrated_members", n)
	}
}

// setRo: Set_readonly is applied recursively to nested objects and records
func (h *hist) setRo(m *model, depth int) {
	if m.ro {
		return
	}
	m.ro = true
	for _, v := range m.list {
		if v.k == kObj {
			h.setRo(v.c.m, depth+1)
		}
	}
	for _, e := range m.named {
		if e.val.k == kObj {
			h.setRo(e.val.c.m, depth+1)
		}
	}
}

func typeName(v mval) string {
	switch v.k {
	case kBool:
		return "Boolean"
	case kNum:
		return "Number"
	case kStr:
		return "String"
	}
	if v.c.m.rec {
		return "Record"
	}
	return "Object"
}

func (h *hist) doSort(c *cont, viaGo bool, tr func(string, ...any)) {
	r := h.r
	m := c.m
	which := r.IntN(5)
	var less func(a, b mval) bool
	var lt string
	switch which {
	case 0, 1:
		lt = "default"
		less = func(a, b mval) bool { return cmpVal(a, b) < 0 }
	case 2:
		lt = "ltDesc"
		less = func(a, b mval) bool { return cmpVal(a, b) > 0 }
	case 3:
		lt = "ltByType"
		less = func(a, b mval) bool { return typeName(a) < typeName(b) }
	default:
		lt = "ltByLen"
		ln := func(v mval) int {
			if v.k == kStr {
				return len(v.s)
			}
			return -1
		}
		less = func(a, b mval) bool { return ln(a) < ln(b) }
	}
	exp := m.clone()
	// reference: insertion sort (stable by construction), independent of the library sorts
	for i := 1; i < len(exp.list); i++ {
		for j := i; j > 0 && less(exp.list[j], exp.list[j-1]); j-- {
			exp.list[j], exp.list[j-1] = exp.list[j-1], exp.list[j]
		}
	}
	ties := 0
	for i := 1; i < len(exp.list); i++ {
		if !less(exp.list[i-1], exp.list[i]) && !identical(exp.list[i-1], exp.list[i]) {
			ties++
		}
	}
	tr("Sort!(%s) n=%d", lt, len(m.list))
	before := m
	out, ok := h.mutate(c, "Sort", exp, func() outcome {
		if lt == "default" {
			if viaGo {
				return h.goOut("Sort", func() Value { c.real.ToObject().Sort(h.th, False); return c.real })
			}
			return h.suOut("sort", c.real)
		}
		if viaGo {
			return h.goOut("Sort", func() Value { c.real.ToObject().Sort(h.th, fns[lt]); return c.real })
		}
		if lt == "ltDesc" && r.IntN(2) == 0 {
			return h.suOut("sortBlk", c.real)
		}
		return h.suOut("sortLt", c.real, fns[lt])
	})
	h.wantThis(c, "Sort", out)
	if !ok || h.failed {
		return
	}
	if ties > 0 {
		h.stats.ties += ties
		h.rep.Count("sort_tied_pairs", ties)
	}
	h.rep.Count("sorts", 1)
	if len(exp.list) > 12 {
		h.rep.Count("sorts_longer_than_12", 1)
	}
	// classify a wrong result before the generic content comparison does
	real := c.real
	if real.ListSize() != len(exp.list) {
		return
	}
	got := make([]Value, len(exp.list))
	for i := range got {
		got[i] = real.ListGet(i)
	}
	// 1. a permutation of the previous list?
	used := make([]bool, len(before.list))
	perm := make([]mval, len(got))
	for i, g := range got {
		found := false
		for j, b := range before.list {
			if !used[j] && same(g, b) {
				used[j], found = true, true
				perm[i] = b
				break
			}
		}
		if !found {
			h.violate("C36/sort-not-a-permutation", map[string]any{"lt": lt, "before": before.String(), "after": show(real)})
			return
		}
	}
	for i := 1; i < len(perm); i++ {
		if less(perm[i], perm[i-1]) {
			h.violate("C36/sort-not-ordered", map[string]any{"lt": lt, "index": i, "before": before.String(), "after": show(real), "want": exp.String()})
			return
		}
	}
	for i := range got {
		if !same(got[i], exp.list[i]) {
			h.violate("C36/sort-not-stable", map[string]any{"lt": lt, "index": i, "before": before.String(), "after": show(real), "want": exp.String()})
			return
		}
	}
	// BinarySearch on the freshly sorted list (default order only)
	if lt == "default" && !viaGo {
		v := h.genScalar()
		lo, hi := 0, 0
		for _, x := range exp.list {
			if cmpVal(x, v) < 0 {
				lo++
			}
			if cmpVal(x, v) <= 0 {
				hi++
			}
		}
		for _, q := range []struct {
			fn   string
			want int
		}{{"bsearch", lo}, {"bsearchLte", hi}} {
			o := h.suOut(q.fn, c.real, v.real)
			if o.failed {
				h.violate("C36/unexpected-error/BinarySearch", map[string]any{"error": o.err})
			} else if !isNum(o.res, int64(q.want), 1) {
				h.violate("C36/result-mismatch/BinarySearch", map[string]any{"fn": q.fn, "value": v.String(), "got": show(o.res), "want": q.want, "list": exp.String()})
			}
		}
		h.rep.Count("binary_searches", 2)
	}
}

func (h *hist) doGet(c *cont, viaGo bool, tr func(string, ...any)) {
	m := c.m
	k := h.genKey(c)
	cur, ok := m.get(k)
	tr("Get(%s)", k)
	run := func() outcome {
		if viaGo {
			return h.goOut("Get", func() Value { return c.real.(interface{ Get(*Thread, Value) Value }).Get(h.th, k.real) })
		}
		return h.suOut("get", c.real, k.real)
	}
	switch {
	case ok:
		out := run()
		if out.failed {
			h.violate("C36/unexpected-error/Get", map[string]any{"error": out.err})
		} else if !same(out.res, cur) {
			h.violate("C36/result-mismatch/Get", map[string]any{"got": show(out.res), "want": cur.String()})
		}
	case m.def == nil:
		out := run()
		if viaGo {
			// the Go API returns nil for "no value"
			if out.failed || out.res != nil {
				h.violate("C36/result-mismatch/Get", map[string]any{"got": show(out.res), "err": out.err, "want": "nil"})
			}
		} else if !out.failed || !strings.Contains(out.err, "member not found") {
			h.violate("C36/result-mismatch/Get", map[string]any{"got": show(out.res), "err": out.err, "want": "member not found"})
		}
	case m.def.k != kObj:
		out := run()
		if out.failed {
			h.violate("C36/unexpected-error/Get", map[string]any{"error": out.err})
		} else if !same(out.res, *m.def) {
			h.violate("C36/result-mismatch/Get", map[string]any{"got": show(out.res), "want": "default " + m.def.String()})
		}
	default:
		// container default: a copy is returned and (unless read-only) assigned to the member
		out := run()
		if out.failed {
			h.violate("C36/unexpected-error/Get", map[string]any{"error": out.err})
			return
		}
		rc, isC := out.res.ToContainer()
		if !isC || rc == m.def.c.real {
			h.violate("C36/result-mismatch/Get", map[string]any{"got": show(out.res), "want": "a copy of the default " + m.def.String()})
			return
		}
		nc := &cont{real: rc, m: m.def.c.m.clone(), level: 999}
		nc.m.ro = false
		h.nextID++
		nc.id = h.nextID
		if msg := h.diff(nc); msg != "" {
			h.violate("C36/result-mismatch/Get", map[string]any{"difference": msg, "want": "a copy of the default " + m.def.String()})
			return
		}
		if !m.ro {
			exp := m.clone()
			mig := exp.put(k, mval{k: kObj, c: nc, real: rc})
			c.m = exp
			h.migrated(mig)
			h.stats.muts++
		}
	}
}

func (h *hist) doFind(c *cont, viaGo bool, tr func(string, ...any)) {
	r := h.r
	m := c.m
	switch r.IntN(3) {
	case 0:
		k := h.genKey(c)
		_, want := m.get(k)
		tr("Member?(%s)", k)
		out := h.suOut("member", c.real, k.real)
		if out.failed || out.res != Value(SuBool(want)) {
			h.violate("C36/result-mismatch/Member?", map[string]any{"got": show(out.res), "err": out.err, "want": want})
		}
	default:
		v := h.genVal(c)
		if len(m.list) > 0 && r.IntN(2) == 0 {
			v = m.list[r.IntN(len(m.list))]
			if v.k == kNum && v.d == 1 && r.IntN(2) == 0 {
				v.real = numVal(v.n, 1, true) // the same number in the other representation
			}
		} else if len(m.named) > 0 && r.IntN(2) == 0 {
			keys := sortedKeys(m)
			v = m.named[keys[r.IntN(len(keys))]].val
		}
		firstList := -1
		for i, x := range m.list {
			if eqVal(x, v) {
				firstList = i
				break
			}
		}
		tr("Find(%s)", v)
		var out outcome
		if viaGo {
			out = h.goOut("Find", func() Value { return c.real.ToObject().Find(v.real) })
		} else {
			out = h.suOut("find", c.real, v.real)
		}
		if out.failed {
			h.violate("C36/unexpected-error/Find", map[string]any{"error": out.err})
			return
		}
		found := true
		if firstList >= 0 {
			if !isNum(out.res, int64(firstList), 1) {
				h.violate("C36/result-mismatch/Find", map[string]any{"value": v.String(), "got": show(out.res), "want": firstList, "model": m.String()})
			}
		} else {
			anyNamed := false
			for _, e := range m.named {
				if eqVal(e.val, v) {
					anyNamed = true
				}
			}
			if !anyNamed {
				found = false
				if out.res != False {
					h.violate("C36/result-mismatch/Find", map[string]any{"value": v.String(), "got": show(out.res), "want": false, "model": m.String()})
				}
			} else {
				// which of several named members is returned is undefined; a member whose
				// key is the value false is returned as false (the key itself)
				e, ok := m.named[canonKey(out.res)]
				if !ok || !eqVal(e.val, v) {
					h.violate("C36/result-mismatch/Find", map[string]any{"value": v.String(), "got": show(out.res), "want": "a named member holding the value", "model": m.String()})
				}
			}
		}
		o2 := h.suOut("has", c.real, v.real)
		if o2.failed || o2.res != Value(SuBool(found)) {
			class := "C36/result-mismatch/Has?"
			if e, ok := m.named["b:false"]; ok && found && firstList < 0 && o2.res == False && eqVal(e.val, v) {
				// Has? is implemented as Find(value) isnt false
				class = "C36/has-misses-value-under-key-false"
				h.rep.Count("has_under_key_false", 1)
			}
			detail := map[string]any{"value": v.String(), "got": show(o2.res), "err": o2.err, "want": found, "model": m.String()}
			if class == "C36/has-misses-value-under-key-false" {
				// specific, does not end the history
				h.rep.Violate(class, fmt.Sprintf("Object(false: %s).Has?(%s)", v, v), detail)
			} else {
				h.violate(class, detail)
			}
		}
	}
}

// matchMultiset: got (a list container) must hold exactly the wanted values in any order
func matchMultiset(got Container, from int, want []mval) bool {
	if got.ListSize()-from != len(want) {
		return false
	}
	used := make([]bool, len(want))
outer:
	for i := from; i < got.ListSize(); i++ {
		g := got.ListGet(i)
		for j, w := range want {
			if !used[j] && same(g, w) {
				used[j] = true
				continue outer
			}
		}
		return false
	}
	return true
}

func (h *hist) doEnumerate(c *cont, tr func(string, ...any)) {
	m := c.m
	which := h.r.IntN(4)
	names := []string{"sizes", "members", "values", "assocs"}
	name := names[which]
	tr("%s()", name)
	out := h.suOut(name, c.real)
	if out.failed {
		h.violate("C36/unexpected-error/"+name, map[string]any{"error": out.err})
		return
	}
	bad := func(what string) {
		h.violate("C36/result-mismatch/"+name, map[string]any{"what": what, "got": show(out.res), "model": m.String()})
	}
	res := ToContainer(out.res)
	nl, nn := len(m.list), len(m.named)
	if which == 0 {
		for i, w := range []int{nl + nn, nl, nn, nl + nn} {
			if !isNum(res.ListGet(i), int64(w), 1) {
				bad(fmt.Sprintf("size variant %d want %d", i, w))
				return
			}
		}
		return
	}
	namedVals := make([]mval, 0, nn)
	for _, k := range sortedKeys(m) {
		namedVals = append(namedVals, m.named[k].val)
	}
	for variant := 0; variant < 3; variant++ { // all, list:, named:
		seq, ok := res.ListGet(variant).ToContainer() // instantiates the sequence
		if !ok {
			bad("not a sequence")
			return
		}
		wantList, wantNamed := variant != 2, variant != 1
		n := 0
		if wantList {
			n += nl
		}
		if wantNamed {
			n += nn
		}
		if seq.ListSize() != n || seq.NamedSize() != 0 {
			bad(fmt.Sprintf("variant %d has %d members, want %d", variant, seq.ListSize(), n))
			return
		}
		i := 0
		if wantList {
			for ; i < nl; i++ {
				x := seq.ListGet(i)
				switch which {
				case 1:
					if !isNum(x, int64(i), 1) {
						bad(fmt.Sprintf("variant %d member %d", variant, i))
						return
					}
				case 2:
					if !same(x, m.list[i]) {
						bad(fmt.Sprintf("variant %d value %d", variant, i))
						return
					}
				case 3:
					p, ok := x.ToContainer()
					if !ok || p.ListSize() != 2 || p.NamedSize() != 0 || !isNum(p.ListGet(0), int64(i), 1) || !same(p.ListGet(1), m.list[i]) {
						bad(fmt.Sprintf("variant %d assoc %d", variant, i))
						return
					}
				}
			}
		}
		if wantNamed {
			switch which {
			case 1:
				seen := map[string]bool{}
				for ; i < n; i++ {
					ck := canonKey(seq.ListGet(i))
					if _, ok := m.named[ck]; !ok || seen[ck] {
						bad(fmt.Sprintf("variant %d named member %s", variant, ck))
						return
					}
					seen[ck] = true
				}
			case 2:
				if !matchMultiset(seq, i, namedVals) {
					bad(fmt.Sprintf("variant %d named values", variant))
					return
				}
			case 3:
				seen := map[string]bool{}
				for ; i < n; i++ {
					p, ok := seq.ListGet(i).ToContainer()
					if !ok || p.ListSize() != 2 || p.NamedSize() != 0 {
						bad(fmt.Sprintf("variant %d assoc %d", variant, i))
						return
					}
					ck := canonKey(p.ListGet(0))
					e, ok := m.named[ck]
					if !ok || seen[ck] || !same(p.ListGet(1), e.val) {
						bad(fmt.Sprintf("variant %d named assoc %s", variant, ck))
						return
					}
					seen[ck] = true
				}
			}
		}
	}
}

// the documented range rules (Subscript.md)
func rngFrom(from, size int) int {
	if from < 0 {
		from += size
		if from < 0 {
			from = 0
		}
	}
	if from > size {
		from = size
	}
	return from
}

func (h *hist) doRange(c *cont, viaGo bool, tr func(string, ...any)) {
	r := h.r
	m := c.m
	size := len(m.list)
	i := r.IntN(size+5) - 2 - size/2
	j := r.IntN(size+5) - 2 - size/2
	if r.IntN(8) == 0 {
		j = 1 << 40
	}
	kindOf := r.IntN(5)
	var want []mval
	var out outcome
	from := rngFrom(i, size)
	switch kindOf {
	case 0: // [i .. j]
		to := j
		if to < 0 {
			to += size
		}
		if to > size {
			to = size
		}
		if to < from {
			to = from
		}
		want = m.list[from:to]
		tr("Range[%d .. %d]", i, j)
		if viaGo {
			out = h.goOut("RangeTo", func() Value {
				return c.real.(interface{ RangeTo(int, int) Value }).RangeTo(i, j)
			})
		} else {
			out = h.suOut("rangeTo", c.real, IntVal(i), IntVal(j))
		}
	case 1: // [i ..]
		want = m.list[from:]
		tr("Range[%d ..]", i)
		out = h.suOut("rangeFrom", c.real, IntVal(i))
	case 2: // [.. j]
		to := j
		if to < 0 {
			to += size
		}
		if to > size {
			to = size
		}
		if to < 0 {
			to = 0
		}
		want = m.list[:to]
		tr("Range[.. %d]", j)
		out = h.suOut("rangeUpTo", c.real, IntVal(j))
	case 3: // [i :: n]
		n := j
		if n < 0 {
			n = 0
		}
		if n > size-from {
			n = size - from
		}
		want = m.list[from : from+n]
		tr("Range[%d :: %d]", i, j)
		if viaGo {
			out = h.goOut("RangeLen", func() Value {
				return c.real.(interface{ RangeLen(int, int) Value }).RangeLen(i, j)
			})
		} else {
			out = h.suOut("rangeLen", c.real, IntVal(i), IntVal(j))
		}
	default: // [i ::]
		want = m.list[from:]
		tr("Range[%d ::]", i)
		out = h.suOut("rangeLenTo", c.real, IntVal(i))
	}
	if out.failed {
		h.violate("C36/unexpected-error/Range", map[string]any{"error": out.err})
		return
	}
	if msg := sameList(out.res, want); msg != "" {
		h.violate("C36/result-mismatch/Range", map[string]any{"difference": msg, "model": m.String()})
		return
	}
	h.rep.Count("ranges", 1)
	// the result is a new, independent, modifiable object
	nm := newModel(false)
	nm.list = append([]mval(nil), want...)
	h.nextID++
	h.addToPool(&cont{real: ToContainer(out.res), m: nm, level: c.level, id: h.nextID})
}

func (h *hist) doCopy(c *cont, viaGo bool, tr func(string, ...any)) {
	r := h.r
	m := c.m
	nm := m.clone()
	nm.ro = false // a copy of a read-only object is not read-only
	var out outcome
	which := r.IntN(4)
	switch {
	case which < 2:
		tr("Copy()")
		if viaGo {
			out = h.goOut("Copy", func() Value { return c.real.Copy() })
		} else {
			out = h.suOut("copy", c.real)
		}
	case which == 2:
		// Slice(n): what f(@+n ob) hands to f: a copy without the first n list values
		n := r.IntN(len(m.list) + 2)
		if n >= len(nm.list) {
			nm.list = nil
		} else {
			nm.list = append([]mval(nil), nm.list[n:]...)
		}
		tr("Slice(%d)", n)
		if n == 1 && !viaGo {
			out = h.suOut("splat1", c.real)
		} else {
			out = h.goOut("Slice", func() Value { return c.real.Slice(n) })
		}
		if m.rec && !out.failed {
			if _, isRec := out.res.(*SuRecord); !isRec {
				nm.rec = false // @args of a record arrive as an object
			}
		}
	default:
		tr("Splat()")
		out = h.suOut("splat", c.real)
		if m.rec && !out.failed {
			if _, isRec := out.res.(*SuRecord); !isRec {
				nm.rec = false
			}
		}
	}
	if out.failed {
		h.violate("C36/unexpected-error/Copy", map[string]any{"error": out.err})
		return
	}
	rc, ok := out.res.ToContainer()
	if !ok || rc == c.real {
		h.violate("C36/result-mismatch/Copy", map[string]any{"got": show(out.res)})
		return
	}
	if which < 2 {
		if _, isRec := rc.(*SuRecord); isRec != m.rec {
			h.violate("C36/result-mismatch/Copy", map[string]any{"what": "a copy of a record is a record, of an object an object", "got": show(out.res)})
			return
		}
	}
	h.nextID++
	nc := &cont{real: rc, m: nm, level: c.level, id: h.nextID}
	if which >= 2 {
		// the argument object's default value / read-only state are not part of the
		// documented contract: put the default into a known state
		if rc.IsReadOnly() {
			nm.ro = true
		} else {
			rc.ToObject().SetDefault(nil)
		}
		nm.def = nil
	}
	if msg := h.diff(nc); msg != "" {
		h.violate("C36/result-mismatch/Copy", map[string]any{"difference": msg, "model": nm.String()})
		return
	}
	h.stats.cow++
	h.rep.Count("copies", 1)
	if which < 2 || !nm.ro {
		h.addToPool(nc)
	}
}

func (h *hist) doMaxMinJoin(c *cont, tr func(string, ...any)) {
	m := c.m
	switch h.r.IntN(3) {
	case 0, 1:
		isMax := h.r.IntN(2) == 0
		name := "min"
		if isMax {
			name = "max"
		}
		all := append([]mval(nil), m.list...)
		for _, k := range sortedKeys(m) {
			all = append(all, m.named[k].val)
		}
		tr("%s()", name)
		out := h.suOut(name, c.real)
		if len(all) == 0 {
			if !out.failed {
				h.violate("C36/result-mismatch/"+name, map[string]any{"got": show(out.res), "want": "error on an empty object"})
			}
			return
		}
		if out.failed {
			h.violate("C36/unexpected-error/"+name, map[string]any{"error": out.err})
			return
		}
		best := all[0]
		for _, v := range all[1:] {
			if (isMax && cmpVal(v, best) > 0) || (!isMax && cmpVal(v, best) < 0) {
				best = v
			}
		}
		// any member that compares equal to the extreme is a correct answer
		okRes := false
		for _, v := range all {
			if cmpVal(v, best) == 0 && same(out.res, v) {
				okRes = true
			}
		}
		if !okRes {
			h.violate("C36/result-mismatch/"+name, map[string]any{"got": show(out.res), "want": best.String(), "model": m.String()})
		}
	default:
		var sb strings.Builder
		sep := []string{"", ",", "=>"}[h.r.IntN(3)]
		for i, v := range m.list {
			if i > 0 {
				sb.WriteString(sep)
			}
			switch {
			case v.k == kStr:
				sb.WriteString(v.s)
			case v.k == kNum && v.d == 1:
				sb.WriteString(strconv.FormatInt(v.n, 10))
			default:
				tr("skip-join")
				return
			}
		}
		tr("Join(%q)", sep)
		out := h.suOut("join", c.real, SuStr(sep))
		if out.failed {
			h.violate("C36/unexpected-error/Join", map[string]any{"error": out.err})
		} else if !same(out.res, mval{k: kStr, s: sb.String()}) {
			h.violate("C36/result-mismatch/Join", map[string]any{"got": show(out.res), "want": sb.String()})
		}
	}
}

func (h *hist) doIterate(c *cont, tr func(string, ...any)) {
	m := c.m
	namedVals := make([]mval, 0, len(m.named))
	for _, k := range sortedKeys(m) {
		namedVals = append(namedVals, m.named[k].val)
	}
	which := h.r.IntN(4)
	name := []string{"forIn", "iterNext", "forIn2", "splat"}[which]
	tr("%s", name)
	out := h.suOut(name, c.real)
	if out.failed {
		h.violate("C36/unexpected-error/"+name, map[string]any{"error": out.err})
		return
	}
	bad := func(what string) {
		h.violate("C36/result-mismatch/"+name, map[string]any{"what": what, "got": show(out.res), "model": m.String()})
	}
	res, ok := out.res.ToContainer()
	if !ok {
		bad("not a container")
		return
	}
	nl, nn := len(m.list), len(m.named)
	switch which {
	case 0, 1: // values: list in order, then the named values in any order
		if res.ListSize() != nl+nn {
			bad("count")
			return
		}
		for i := 0; i < nl; i++ {
			if !same(res.ListGet(i), m.list[i]) {
				bad(fmt.Sprintf("value %d", i))
				return
			}
		}
		if !matchMultiset(res, nl, namedVals) {
			bad("named values")
		}
	case 2:
		if res.ListSize() != nl+nn {
			bad("count")
			return
		}
		seen := map[string]bool{}
		for i := 0; i < nl+nn; i++ {
			p, ok := res.ListGet(i).ToContainer()
			if !ok || p.ListSize() != 2 {
				bad("pair")
				return
			}
			if i < nl {
				if !isNum(p.ListGet(0), int64(i), 1) || !same(p.ListGet(1), m.list[i]) {
					bad(fmt.Sprintf("pair %d", i))
					return
				}
				continue
			}
			ck := canonKey(p.ListGet(0))
			e, ok := m.named[ck]
			if !ok || seen[ck] || !same(p.ListGet(1), e.val) {
				bad("named pair " + ck)
				return
			}
			seen[ck] = true
		}
	default: // f(@ob): the arguments object has the same list and named members
		nm := m.clone()
		nm.ro = res.IsReadOnly()
		nm.def = nil
		nc := &cont{real: res, m: nm}
		if msg := h.diff(nc); msg != "" {
			bad(msg)
		}
	}
}

func (h *hist) run() {
	r := h.r
	h.mkConsts()
	n0 := 2 + r.IntN(3)
	for i := 0; i < n0; i++ {
		h.pool = append(h.pool, h.newCont(r.IntN(3) == 0, i))
	}
	nops := 30 + r.IntN(40)
	for i := 0; i < nops && !h.failed; i++ {
		before := len(h.trace)
		var target *cont
		p, stack := vk.Catch(func() { h.step() })
		if len(h.trace) == before {
			h.trace = append(h.trace, "?")
		}
		if p != nil {
			h.violate("C36/harness-or-go-panic", map[string]any{"panic": fmt.Sprint(p), "stack": vk.Trunc(stack, 4000)})
			return
		}
		if h.failed {
			return
		}
		last := h.trace[len(h.trace)-1]
		for _, c := range h.pool {
			if strings.HasPrefix(last, fmt.Sprintf("c%d.", c.id)) {
				target = c
			}
		}
		op := strings.SplitN(strings.SplitN(last, ".", 2)[1], "(", 2)[0]
		op = strings.Fields(op)[0]
		h.verifyAll(op, target)
	}
}

func TestVerifC36(t *testing.T) {
	rep := vk.NewReport("C36",
		"a case is a PRNG history of 30-70 operations (Add, Add at:, member assignment, Delete, Erase, PopFirst/PopLast, Sort!, Unique!, Reverse!, += , Set_default, "+
			"Set_readonly, CompareAndSet, lookups, Find/Has?/Member?, Size/Members/Values/Assocs, ranges, Copy/Slice/@args, Max/Min/Join, iteration) over 2-5 live SuObject/SuRecord containers that may nest, "+
			"keys biased to the list size and just beyond it; half the operations go through the Go Container API, half through the builtin methods from compiled Suneido code; "+
			"non-trivial = at least 5 effective mutations and at least one member migrated between the list and the named part; distinct by the operation trace",
		"the model (Go slice + map with migration, ordering bool<number<string<object, objects ordered by their list) is written from suneidoc Object/*.md, Subscript.md, Objects and Records.md",
		"values are restricted to booleans, small integers (SuInt and SuDnum forms), halves, short strings, constant objects and the live containers themselves (acyclic)")
	defer rep.Finish()
	compileAll()
	n := vk.N(30000, 400000)
	th := &Thread{}
	for i := 0; i < n; i++ {
		if i%64 == 0 {
			rep.Case("case %d", i)
		}
		h := &hist{rep: rep, r: vk.RandFor(36, i), th: th, idx: i}
		h.run()
		nontriv := h.stats.muts >= 5 && h.stats.migr >= 1
		rep.Eval(vk.Hash64(strings.Join(h.trace, ";")), nontriv)
		rep.Count("operations", len(h.trace))
		rep.Count("effective_mutations", h.stats.muts)
		rep.Count("keys_at_or_beyond_list_size", h.stats.beyond)
		rep.Count("nested_container_values", h.stats.nested)
		if h.failed {
			rep.Count("failed_histories", 1)
		}
		if rep.WantSample() && nontriv {
			t := h.trace
			if len(t) > 30 {
				t = t[:30]
			}
			rep.Sample(map[string]any{"case": i, "ops": t, "final_c1": h.pool[0].m.String()})
		}
	}
}
