// C31 Displayed constants evaluate back to equal values; unterminated string
// literals are always rejected by the code and query compilers.
//
// Part A (display round trip): values are generated from a Go model tree
// (strings over all 256 bytes, integers, decimals, dates, timestamps, booleans,
// nested objects/records with named and unnamed members). The real value is
// built from the model, displayed with the REAL Display in every quote mode,
// compiled back with the REAL compile.Constant and then judged two ways:
// Equal (both directions, as the statement says) and a structural comparison of
// the compiled value against the Go model (bytes, exact rationals, date parts),
// which does not use Display, the lexer or Equal.
//
// Part B (unterminated literals): an independent scanner of the documented
// literal syntax decides that a generated literal has no closing quote; every
// such literal, placed last in code and query texts, must make the compiler
// throw. The terminated twin of every context is compiled as a control.
package c31

import (
	"fmt"
	"math"
	"math/big"
	"math/rand/v2"
	"runtime"
	"strings"
	"testing"

	"github.com/apmckinlay/gsuneido/compile"
	. "github.com/apmckinlay/gsuneido/core"
	"github.com/apmckinlay/gsuneido/db19"
	"github.com/apmckinlay/gsuneido/db19/stor"
	qry "github.com/apmckinlay/gsuneido/dbms/query"
	"github.com/apmckinlay/gsuneido/util/dnum"
	"github.com/apmckinlay/gsuneido/util/pack"
	vk "github.com/apmckinlay/gsuneido/util/verifkit"
)

// ---------------------------------------------------------------- model

type mkv struct{ k, v *mval }

type mval struct {
	kind  byte // s string, n number, d date, t timestamp, b bool, o object, r record
	s     string
	num   Value    // the real number value (built through constructors, never through parsing)
	rat   *big.Rat // its exact value
	dt    [7]int   // y m d h mi s ms
	extra int
	b     bool
	list  []*mval
	named []mkv
}

var pow10 [400]*big.Int

func init() {
	pow10[0] = big.NewInt(1)
	for i := 1; i < len(pow10); i++ {
		pow10[i] = new(big.Int).Mul(pow10[i-1], big.NewInt(10))
	}
}

// ratOf is the exact value of a numeric Value, from its (sign, coef, exp) fields.
func ratOf(v Value) *big.Rat {
	if i, ok := SuIntToInt(v); ok {
		return new(big.Rat).SetInt64(int64(i))
	}
	d, ok := v.(SuDnum)
	if !ok || d.IsInf() {
		return nil
	}
	if d.IsZero() {
		return new(big.Rat)
	}
	r := new(big.Rat).SetInt(new(big.Int).SetUint64(d.Coef()))
	e := d.Exp() - 16
	if e >= 0 {
		r.Mul(r, new(big.Rat).SetInt(pow10[e]))
	} else {
		r.Quo(r, new(big.Rat).SetInt(pow10[-e]))
	}
	if d.Sign() < 0 {
		r.Neg(r)
	}
	return r
}

func (m *mval) build() Value {
	switch m.kind {
	case 's':
		return SuStr(m.s)
	case 'n':
		return m.num
	case 'd':
		return NewDate(m.dt[0], m.dt[1], m.dt[2], m.dt[3], m.dt[4], m.dt[5], m.dt[6])
	case 't':
		d := NewDate(m.dt[0], m.dt[1], m.dt[2], m.dt[3], m.dt[4], m.dt[5], m.dt[6])
		return UnpackTimestamp(d, pack.NewDecoder(string([]byte{byte(m.extra)})))
	case 'b':
		if m.b {
			return True
		}
		return False
	case 'o':
		ob := &SuObject{}
		for _, x := range m.list {
			ob.Add(x.build())
		}
		for _, kv := range m.named {
			ob.Set(kv.k.build(), kv.v.build())
		}
		return ob
	case 'r':
		r := NewSuRecord()
		for _, x := range m.list {
			r.Add(x.build())
		}
		for _, kv := range m.named {
			r.Set(kv.k.build(), kv.v.build())
		}
		return r
	}
	panic("bad model kind")
}

// differs compares a compiled value with the model; "" when equal, else a
// short description (kind of the first differing node).
func (m *mval) differs(v Value) string {
	if v == nil {
		return "nil"
	}
	switch m.kind {
	case 's':
		s, ok := v.(SuStr)
		if !ok {
			if s2, ok2 := v.ToStr(); ok2 && s2 == m.s {
				return ""
			}
			return "string/type"
		}
		if string(s) != m.s {
			return "string/bytes"
		}
	case 'n':
		r := ratOf(v)
		if r == nil || r.Cmp(m.rat) != 0 {
			return "number/value"
		}
	case 'd':
		d, ok := v.(SuDate)
		if !ok {
			return "date/type"
		}
		if d.Year() != m.dt[0] || d.Month() != m.dt[1] || d.Day() != m.dt[2] || d.Hour() != m.dt[3] ||
			d.Minute() != m.dt[4] || d.Second() != m.dt[5] || d.Millisecond() != m.dt[6] {
			return "date/value"
		}
	case 't':
		t, ok := v.(SuTimestamp)
		if !ok {
			return "timestamp/type"
		}
		if t != m.build().(SuTimestamp) { // Go struct equality
			return "timestamp/value"
		}
	case 'b':
		if (m.b && v != True) || (!m.b && v != False) {
			return "bool"
		}
	case 'o', 'r':
		var ob *SuObject
		switch c := v.(type) {
		case *SuObject:
			ob = c
		case *SuRecord:
			ob = c.ToObject()
		default:
			return "container/type"
		}
		if ob.ListSize() != len(m.list) || ob.NamedSize() != len(m.named) {
			return "container/sizes"
		}
		for i, x := range m.list {
			if d := x.differs(ob.ListGet(i)); d != "" {
				return d
			}
		}
		if len(m.named) == 0 {
			return ""
		}
		type pv struct{ k, v Value }
		var got []pv
		it := ob.Iter2(false, true)
		for k, val := it(); k != nil; k, val = it() {
			got = append(got, pv{k, val})
		}
		used := make([]bool, len(got))
	next:
		for _, kv := range m.named {
			for j, g := range got {
				if !used[j] && kv.k.differs(g.k) == "" {
					used[j] = true
					if d := kv.v.differs(g.v); d != "" {
						return d
					}
					continue next
				}
			}
			return "container/key-missing/" + string(kv.k.kind)
		}
	}
	return ""
}

func (m *mval) kindName() string {
	switch m.kind {
	case 's':
		return "string"
	case 'n':
		return "number"
	case 'd':
		return "date"
	case 't':
		return "timestamp"
	case 'b':
		return "bool"
	case 'o':
		return "object"
	}
	return "record"
}

// ---------------------------------------------------------------- generators

var hostile = []byte{0, 1, 2, 7, 9, 10, 13, 15, 16, 27, 31, ' ', '"', '\'', '`', '\\', 'x', 'n', 't', 'r', '0', '4', '1', 'a', 'f', 'F', 'g', '~', 0x7f, 0x80, 0x9f, 0xa0, 0xfe, 0xff}

func genStr(r *rand.Rand) string {
	n := r.IntN(12)
	if r.IntN(8) == 0 {
		n = r.IntN(60)
	}
	b := make([]byte, n)
	switch r.IntN(5) {
	case 0: // any byte
		for i := range b {
			b[i] = byte(r.IntN(256))
		}
	case 1, 2: // hostile alphabet
		for i := range b {
			b[i] = hostile[r.IntN(len(hostile))]
		}
	case 3: // printable with the three quotes and backslash
		for i := range b {
			if r.IntN(3) == 0 {
				b[i] = "\"'`\\"[r.IntN(4)]
			} else {
				b[i] = byte(' ' + r.IntN(95))
			}
		}
	default: // text that looks like escapes
		var sb strings.Builder
		for sb.Len() < n {
			sb.WriteString([]string{`\n`, `\t`, `\x41`, `\x4`, `\\`, `\"`, `\'`, `\0`, "\n", "\x00", "a", `"`, `'`, "`", `\`}[r.IntN(15)])
		}
		return sb.String()
	}
	return string(b)
}

var keyNames = []string{"a", "b", "name", "x1", "a_b", "Abc", "_x", "q?", "w!", "true", "false", "default", "is", "isnt", "not", "and", "or", "in",
	"class", "function", "if", "for", "return", "this", "super", "new", "inf", "x", "e5", "_", "__", "a?b", "9a", "a b", "", "#x", "a:", "-", "dll", "struct", "callback"}

var intBoundary []int64

func init() {
	add := func(n int64) {
		for d := int64(-2); d <= 2; d++ {
			m := n + d
			if (d > 0 && m < n) || (d < 0 && m > n) {
				continue
			}
			intBoundary = append(intBoundary, m)
		}
	}
	add(0)
	for k := 1; k < 63; k++ {
		add(int64(1) << k)
		add(-(int64(1) << k))
	}
	p := int64(1)
	for k := 1; k <= 18; k++ {
		p *= 10
		add(p)
		add(-p)
	}
	add(math.MaxInt64)
	add(math.MinInt64)
}

func numModel(v Value) *mval {
	r := ratOf(v)
	if r == nil {
		return nil
	}
	return &mval{kind: 'n', num: v, rat: r}
}

func genNum(r *rand.Rand) *mval {
	for {
		var v Value
		switch r.IntN(7) {
		case 0:
			v = IntVal(int(intBoundary[r.IntN(len(intBoundary))]))
		case 1:
			v = IntVal(r.IntN(2001) - 1000)
		case 2:
			v = IntVal(int(int64(r.Uint64()) >> uint(r.IntN(64))))
		case 3: // integer held as a decimal
			v = SuDnum{Dnum: dnum.FromInt(int64(r.Uint64()) >> uint(r.IntN(64)))}
		default:
			nd := 1 + r.IntN(16)
			coef := r.Uint64N(pow10[nd].Uint64())
			if r.IntN(4) == 0 {
				coef = pow10[nd].Uint64() - 1 - r.Uint64N(3)
			} else if r.IntN(5) == 0 {
				coef = pow10[nd-1].Uint64() + r.Uint64N(3)
			}
			exp := r.IntN(60) - 30
			switch r.IntN(6) {
			case 0:
				exp = r.IntN(270) - 135 // whole exponent range and a bit beyond
			case 1:
				exp = []int{-128, -127, -126, 125, 126, 127, 0, 1, -1, 16, 17, -7, -8, -6}[r.IntN(14)]
			}
			sign := int8(1)
			if r.IntN(2) == 0 {
				sign = -1
			}
			v = SuDnum{Dnum: dnum.New(sign, coef, exp)}
		}
		if m := numModel(v); m != nil {
			return m
		}
	}
}

func genDate(r *rand.Rand) *mval {
	for {
		m := &mval{kind: 'd'}
		y := r.IntN(3001)
		switch r.IntN(6) {
		case 0:
			y = []int{0, 1, 99, 100, 999, 1000, 1899, 1900, 1970, 2000, 2024, 2999, 3000}[r.IntN(13)]
		case 1:
			y = 1990 + r.IntN(50)
		}
		m.dt = [7]int{y, 1 + r.IntN(12), 1 + r.IntN(31), 0, 0, 0, 0}
		switch r.IntN(5) {
		case 0: // date only
		case 1: // hhmm
			m.dt[3], m.dt[4] = r.IntN(24), r.IntN(60)
		case 2: // hhmmss
			m.dt[3], m.dt[4], m.dt[5] = r.IntN(24), r.IntN(60), r.IntN(60)
		case 3: // boundary pieces
			pick := func(l []int) int { return l[r.IntN(len(l))] }
			m.dt[3], m.dt[4], m.dt[5], m.dt[6] = pick([]int{0, 1, 10, 20, 23}), pick([]int{0, 1, 10, 50, 59}), pick([]int{0, 1, 10, 50, 59}), pick([]int{0, 1, 10, 100, 500, 999})
		default:
			m.dt[3], m.dt[4], m.dt[5], m.dt[6] = r.IntN(24), r.IntN(60), r.IntN(60), r.IntN(1000)
		}
		if NewDate(m.dt[0], m.dt[1], m.dt[2], m.dt[3], m.dt[4], m.dt[5], m.dt[6]) == NilDate {
			continue
		}
		if r.IntN(5) == 0 {
			m.kind = 't'
			m.extra = 1 + r.IntN(255)
		}
		return m
	}
}

func genLeaf(r *rand.Rand) *mval {
	switch r.IntN(10) {
	case 0, 1, 2, 3:
		return &mval{kind: 's', s: genStr(r)}
	case 4:
		return &mval{kind: 's', s: keyNames[r.IntN(len(keyNames))]}
	case 5, 6, 7:
		return genNum(r)
	case 8:
		return genDate(r)
	}
	return &mval{kind: 'b', b: r.IntN(2) == 0}
}

func genVal(r *rand.Rand, depth int) *mval {
	if depth <= 0 || r.IntN(3) != 0 {
		return genLeaf(r)
	}
	return genContainer(r, depth)
}

func genContainer(r *rand.Rand, depth int) *mval {
	m := &mval{kind: 'o'}
	if r.IntN(3) == 0 {
		m.kind = 'r'
	}
	nl := r.IntN(4)
	if r.IntN(3) == 0 {
		nl = 0
	}
	for i := 0; i < nl; i++ {
		m.list = append(m.list, genVal(r, depth-1))
	}
	nn := r.IntN(5)
	for i := 0; i < nn; i++ {
		var k *mval
		switch x := r.IntN(10); {
		case x < 5:
			k = &mval{kind: 's', s: keyNames[r.IntN(len(keyNames))]}
		case x < 7:
			k = &mval{kind: 's', s: genStr(r)}
		case x < 8:
			k = genNum(r)
			// an integer key that continues the list would be a list member, not a named one
			if k.rat.IsInt() && k.rat.Sign() >= 0 && k.rat.Num().IsInt64() && k.rat.Num().Int64() < int64(nl+nn+1) {
				k = numModel(IntVal(nl + nn + 7 + r.IntN(100)))
			}
		case x < 9:
			k = genDate(r)
		default:
			k = &mval{kind: 'b', b: r.IntN(2) == 0}
		}
		dup := false
		for _, kv := range m.named {
			if kv.k.kind == k.kind && sameLeaf(kv.k, k) {
				dup = true
			}
		}
		if dup {
			continue
		}
		v := genVal(r, depth-1)
		if r.IntN(5) == 0 {
			v = &mval{kind: 'b', b: true} // displayed as "key:"
		}
		m.named = append(m.named, mkv{k, v})
	}
	return m
}

func sameLeaf(a, b *mval) bool {
	switch a.kind {
	case 's':
		return a.s == b.s
	case 'n':
		return a.rat.Cmp(b.rat) == 0
	case 'd', 't':
		return a.dt == b.dt // conservative: timestamps on the same instant count as the same key
	case 'b':
		return a.b == b.b
	}
	return false
}

// ---------------------------------------------------------------- part A

type mode struct {
	name   string
	quote  int
	single bool // DefaultSingleQuotes
	str    bool // use String() instead of Display
}

var modes = []mode{{"display0", 0, false, false}, {"display1", 1, false, false}, {"display2", 2, false, false},
	{"string", 0, false, true}, {"display0-defaultsingle", 0, true, false}}

type failure struct {
	err    string // display-panics, display-not-compilable, equal-panics, roundtrip-not-equal, roundtrip-content-differs
	text   string
	detail map[string]any
	diff   string
}

// leafClass is the part of the violation class that describes a leaf value.
func (m *mval) leafClass() string {
	if m.kind != 'n' {
		return m.kindName()
	}
	d, ok := m.num.(SuDnum)
	switch {
	case !ok:
		return "number/int"
	case d.Exp() == math.MinInt8:
		return "number/dec-exp-min"
	case d.Exp() == math.MaxInt8:
		return "number/dec-exp-max"
	}
	return "number/dec"
}

// try displays the value built from m, compiles the text back and judges it.
func try(m *mval, md mode) (text string, f *failure) {
	v := m.build()
	th := &Thread{}
	th.Quote = md.quote
	DefaultSingleQuotes = md.single
	p, _ := vk.Catch(func() {
		if md.str {
			text = v.String()
		} else {
			text = Display(th, v)
		}
	})
	DefaultSingleQuotes = false
	if p != nil {
		// the only documented refusal is the 64kb display limit, which the generator never reaches
		return "", &failure{err: "display-panics", text: vk.Trunc(fmt.Sprintf("%#v", m.s), 200), detail: map[string]any{"panic": fmt.Sprint(p)}}
	}
	detail := map[string]any{"display": text, "mode": md.name}
	if m.kind == 's' {
		detail["bytes_hex"] = fmt.Sprintf("%x", vk.Trunc(m.s, 200))
	}
	var back Value
	p, _ = vk.Catch(func() { back = compile.Constant(text) })
	if p != nil {
		detail["error"] = fmt.Sprint(p)
		return text, &failure{err: "display-not-compilable", text: text, detail: detail}
	}
	var eq1, eq2 bool
	p, _ = vk.Catch(func() { eq1, eq2 = back.Equal(v), v.Equal(back) })
	if p != nil {
		detail["panic"] = fmt.Sprint(p)
		return text, &failure{err: "equal-panics", text: text, detail: detail}
	}
	d := m.differs(back)
	if eq1 && eq2 && d == "" {
		return text, nil
	}
	detail["back"] = vk.Trunc(fmt.Sprint(back), 300)
	detail["back.Equal(v)"], detail["v.Equal(back)"], detail["model_difference"] = eq1, eq2, d
	if !eq1 || !eq2 {
		if d == "" {
			d = "equal-says-no-but-content-same"
		}
		return text, &failure{err: "roundtrip-not-equal", text: text, detail: detail, diff: d}
	}
	return text, &failure{err: "roundtrip-content-differs", text: text, detail: detail, diff: d}
}

func isContainer(m *mval) bool { return m.kind == 'o' || m.kind == 'r' }

// shrink reduces a failing container to the smallest part that still fails on
// its own and returns the violation class and the failure of that part.
func shrink(m *mval, md mode, f *failure) (string, *failure) {
	if !isContainer(m) {
		return "C31/" + f.err + "/" + m.leafClass(), f
	}
	alone := func(x *mval) (string, *failure) {
		if _, fx := try(x, md); fx != nil {
			return shrink(x, md, fx)
		}
		return "", nil
	}
	for _, x := range m.list {
		if c, fx := alone(x); fx != nil {
			return c, fx
		}
	}
	for _, kv := range m.named {
		if c, fx := alone(kv.v); fx != nil {
			return c, fx
		}
		if c, fx := alone(kv.k); fx != nil {
			return c, fx
		}
		single := &mval{kind: m.kind, named: []mkv{{kv.k, &mval{kind: 'b', b: true}}}}
		if text, fx := try(single, md); fx != nil {
			sub := kv.k.leafClass()
			if kv.k.kind == 's' {
				if i := strings.Index(text, ":"); i == len(text)-2 && !strings.ContainsAny(text[:i], "\"'`") && len(kv.k.s) <= 12 {
					sub += "/unquoted/" + kv.k.s
				} else {
					sub += "/quoted"
				}
			}
			return "C31/" + fx.err + "/container-key/" + sub, fx
		}
		pair := &mval{kind: m.kind, named: []mkv{kv}}
		if _, fx := try(pair, md); fx != nil {
			return "C31/" + fx.err + "/container-member/" + kv.k.leafClass() + "/" + kv.v.kindName(), fx
		}
	}
	if len(m.list) > 1 || len(m.named) > 0 {
		// list alone, named alone
		if _, fx := try(&mval{kind: m.kind, list: m.list}, md); fx != nil && len(m.named) > 0 {
			return "C31/" + fx.err + "/" + m.kindName() + "-list/" + fx.diff, fx
		}
		if _, fx := try(&mval{kind: m.kind, named: m.named}, md); fx != nil && len(m.list) > 0 {
			return "C31/" + fx.err + "/" + m.kindName() + "-named/" + fx.diff, fx
		}
	}
	return "C31/" + f.err + "/" + m.kindName() + "/" + f.diff, f
}

func roundTrip(rep *vk.Report, m *mval, md mode, deep bool) {
	text, f := try(m, md)
	nontrivial := true
	if f == nil || f.err != "display-panics" {
		switch m.kind {
		case 's':
			nontrivial = text != `"`+m.s+`"`
			if strings.Contains(text, `\`) {
				rep.Count("str_with_escapes", 1)
			}
			switch text[0] {
			case '`':
				rep.Count("str_backquoted", 1)
			case '\'':
				rep.Count("str_singlequoted", 1)
			default:
				rep.Count("str_doublequoted", 1)
			}
		case 'n':
			nontrivial = !m.rat.IsInt() || len(text) > 4
			if strings.Contains(text, "e") {
				rep.Count("num_scientific", 1)
			}
			if strings.Contains(text, ".") {
				rep.Count("num_fraction", 1)
			}
		case 'd', 't':
			nontrivial = len(text) > 9
			rep.Count("dates", 1)
		case 'b':
			nontrivial = false
		case 'o', 'r':
			nontrivial = len(m.named) > 0 || deep
			rep.Count("containers", 1)
			rep.Count("container_named_members", len(m.named))
		}
	}
	rep.Eval(vk.Hash64(md.name, text), nontrivial)
	if rep.WantSample() && nontrivial && len(text) > 6 {
		rep.Sample(map[string]any{"mode": md.name, "display": text})
	}
	if f == nil {
		return
	}
	class, fm := shrink(m, md, f)
	if fm != f {
		fm.detail["found_inside"] = vk.Trunc(f.text, 400)
	}
	rep.Violate(class, md.name+" "+vk.Trunc(fm.text, 300), fm.detail)
}

// ---------------------------------------------------------------- part B

// closed is the independent scanner: does the literal body (the text after the
// opening quote q) contain a closing quote? Documented syntax: backquoted
// strings have no escapes; in '...' and "..." a backslash escapes a following
// backslash or quote character.
func closed(body string, q byte) bool {
	for i := 0; i < len(body); i++ {
		c := body[i]
		if c == q {
			return true
		}
		if q != '`' && c == '\\' && i+1 < len(body) && (body[i+1] == '\\' || body[i+1] == '"' || body[i+1] == '\'') {
			i++
		}
	}
	return false
}

func quoteName(q byte) string {
	switch q {
	case '"':
		return "dq"
	case '\'':
		return "sq"
	}
	return "bq"
}

type ctx struct {
	name    string
	prefix  string
	compile func(src string)
	final   bool // the literal may legally be the last token: the terminated twin must compile
}

func genBody(r *rand.Rand, q byte) string {
	pieces := []string{"a", "abc", " ", "\n", "\x00", "\xff", "x", "4", "41", `\n`, `\t`, `\r`, `\\`, `\x41`, `\x4`, `\x`, `\0`, `\q`, "}", ")", "*/", "//", "$"}
	for _, o := range []byte{'"', '\'', '`'} {
		if o != q {
			pieces = append(pieces, string(o), `\`+string(o))
		}
	}
	if q != '`' {
		pieces = append(pieces, `\`+string(q), `\\\`+string(q))
	} else {
		pieces = append(pieces, `\`)
	}
	var sb strings.Builder
	n := r.IntN(7)
	for i := 0; i < n; i++ {
		sb.WriteString(pieces[r.IntN(len(pieces))])
	}
	if q != '`' && r.IntN(4) == 0 {
		sb.WriteString(`\`) // a lone backslash as the very last byte
	}
	return sb.String()
}

func TestVerifC31(t *testing.T) {
	rep := vk.NewReport("C31",
		"A: every 1- and 2-byte string, PRNG strings over all bytes / a hostile alphabet / escape look-alikes, boundary and PRNG integers and decimals over the whole exponent range, "+
			"dates/timestamps, nested objects and records with keys of every leaf type, each displayed in 5 quote modes and compiled back; non-trivial = display needs escaping or a non-default quote (strings), "+
			"non-integer or >4 characters (numbers), has a time part (dates), has named members or nesting (containers); distinct by (mode, display text). "+
			"B: every literal body of length <=3 over a 10-letter alphabet plus PRNG bodies that an independent scanner finds unterminated, per quote kind, appended to code and query contexts; "+
			"non-trivial = the context accepts the terminated twin; distinct by full source text",
		"equality of numbers is exact rational equality of (sign, coef, exp); infinities are not constants and are excluded",
		"a syntax error is any Suneido exception (string panic) from the compiler")
	defer rep.Finish()

	// ---------------- A1: exhaustive 1- and 2-byte strings (sharded by first byte)
	for a := 0; a < 256; a++ {
		if a%vk.NShards() != vk.Shard() {
			continue
		}
		for _, md := range modes {
			roundTrip(rep, &mval{kind: 's', s: string([]byte{byte(a)})}, md, false)
		}
		for b := 0; b < 256; b++ {
			m := &mval{kind: 's', s: string([]byte{byte(a), byte(b)})}
			if vk.Thorough() {
				for _, md := range modes {
					roundTrip(rep, m, md, false)
				}
			} else {
				roundTrip(rep, m, modes[(a+b)%3], false) // the three Display quote modes rotate
				if (a+b)%5 == 0 {
					roundTrip(rep, m, modes[3+(a/5+b)%2], false)
				}
			}
		}
	}
	if vk.Shard() == 0 {
		roundTrip(rep, &mval{kind: 's', s: ""}, modes[0], false)
		for _, k := range keyNames {
			for _, md := range modes {
				roundTrip(rep, &mval{kind: 's', s: k}, md, false)
			}
		}
		for _, n := range intBoundary {
			roundTrip(rep, numModel(IntVal(int(n))), modes[0], false)
			if m := numModel(SuDnum{Dnum: dnum.FromInt(n)}); m != nil {
				roundTrip(rep, m, modes[0], false)
			}
		}
	}
	// ---------------- A2: PRNG values
	n := vk.N(180000, 5000000)
	for i := 0; i < n; i++ {
		r := vk.RandFor(31, i)
		var m *mval
		deep := false
		switch x := r.IntN(10); {
		case x < 4:
			m = &mval{kind: 's', s: genStr(r)}
		case x < 6:
			m = genNum(r)
		case x < 7:
			m = genDate(r)
		default:
			m = genContainer(r, 1+r.IntN(3))
			for _, x := range m.list {
				deep = deep || x.kind == 'o' || x.kind == 'r'
			}
		}
		roundTrip(rep, m, modes[r.IntN(len(modes))], deep)
	}

	// ---------------- B: unterminated literals
	qry.MakeSuTran = func(qt qry.QueryTran) *SuTran { return nil }
	db19.MakeSuTran = func(ut *db19.UpdateTran) *SuTran { return nil }
	db := db19.CreateDb(stor.HeapStor(8192))
	qry.DoAdmin(db, "create tbl (a, b, c) key(a)", nil)
	rt := db.NewReadTran()
	th := &Thread{}
	parseQ := func(src string) { qry.ParseQuery(src, rt, nil) }
	parseA := func(src string) { qry.ParseAction(src, rt, nil) }
	constant := func(src string) { compile.Constant(src) }
	ctxs := []ctx{
		{"code:constant", "", constant, true},
		{"code:constant-after-comment", "/* c */ ", constant, true},
		{"code:named-constant", "", func(src string) { compile.NamedConstant("lib", "Name", src, nil) }, true},
		{"code:checked", "", func(src string) { compile.Checked(th, src) }, true},
		{"code:concat", `"a" $ `, constant, true},
		{"code:object-member", "#(1, ", constant, false},
		{"code:function-body", "function () { x = ", constant, false},
		{"code:class-member", "class { X: ", constant, false},
		{"code:eval-string", "", func(src string) { compile.EvalString(th, src) }, false},
		{"query:where", "tbl where b is ", parseQ, true},
		{"query:where-match", "tbl where b =~ ", parseQ, true},
		{"query:where-concat", "tbl where b is 'x' $ ", parseQ, true},
		{"query:extend", "tbl extend x = ", parseQ, true},
		{"query:where-in", "tbl where b in (1, ", parseQ, false},
		{"action:update-set", "update tbl set b = ", parseA, true},
		{"action:delete-where", "delete tbl where c is ", parseA, true},
		{"action:insert-record", "insert { a: ", parseA, false},
	}
	// controls: the terminated twin must be accepted where the context is final
	for _, c := range ctxs {
		for _, q := range []byte{'"', '\'', '`'} {
			src := c.prefix + string(q) + "abc" + string(q)
			p, _ := vk.Catch(func() { c.compile(src) })
			if p == nil {
				rep.Count("controls_accepted", 1)
			} else if c.final {
				rep.Violate("C31/harness-control-rejected", c.name+" "+src, fmt.Sprint(p))
			}
		}
	}
	checkBody := func(body string, q byte) {
		if closed(body, q) {
			return
		}
		esc := "plain"
		if q != '`' && strings.Contains(body, `\`) {
			esc = "escape"
		}
		lit := string(q) + body
		rep.Case("unterminated literal %q in every context", lit)
		for _, c := range ctxs {
			src := c.prefix + lit
			rep.Eval(vk.Hash64("B", c.name, src), c.final)
			rep.Count("unterminated_cases", 1)
			if c.final {
				rep.Count("unterminated_final_"+quoteName(q)+"_"+esc, 1)
			}
			p, _ := vk.Catch(func() { c.compile(src) })
			if p == nil {
				rep.Count("unterminated_accepted", 1)
				rep.Violate("C31/unterminated-string-accepted/"+quoteName(q)+"/"+esc, c.name+" "+fmt.Sprintf("%q", src),
					map[string]any{"context": c.name, "source": src, "note": "the literal has no closing quote but the compiler returned normally"})
				continue
			}
			if _, isRt := p.(runtime.Error); isRt { // rejected, but by a Go runtime error rather than a syntax error
				rep.Violate("C31/unterminated-string-go-runtime-error/"+quoteName(q), c.name+" "+fmt.Sprintf("%q", src), fmt.Sprint(p))
				continue
			}
			rep.Count("unterminated_rejected", 1)
		}
	}
	// B1: exhaustive small bodies (sharded)
	alpha := []byte{'a', '\\', '"', '\'', '`', 'n', 'x', '4', '\n', 0}
	idx := 0
	var rec func(prefix []byte, left int)
	rec = func(prefix []byte, left int) {
		idx++
		if idx%vk.NShards() == vk.Shard() {
			for _, q := range []byte{'"', '\'', '`'} {
				checkBody(string(prefix), q)
			}
		}
		if left == 0 {
			return
		}
		for _, c := range alpha {
			rec(append(prefix[:len(prefix):len(prefix)], c), left-1)
		}
	}
	rec(nil, 3)
	// B2: PRNG bodies
	nb := vk.N(4000, 300000)
	for i := 0; i < nb; i++ {
		r := vk.RandFor(32, i)
		q := []byte{'"', '\'', '`'}[r.IntN(3)]
		checkBody(genBody(r, q), q)
	}
}
