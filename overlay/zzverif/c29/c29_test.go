// C29 Closures and blocks follow the documented scoping model.
//
// A generator produces programs of nested blocks and functions over a small
// pool of variable names (so that names collide across scopes on purpose):
// parameters that shadow, assignments, updates, loops that call blocks, blocks
// stored, passed, returned and escaping their creator, recursion through a
// shared variable, return / break / continue inside blocks, throw and
// try-catch. Every program records what it observes in Suneido.vlog (a global,
// so that logging itself shares no local variable).
//
// The oracle is a reference interpreter of the DOCUMENTED model
// (docs/Closures.md, docs/Closure_Changes.md, suneidoc Language/Blocks.md),
// written from the text, not from compile/ast/blocks.go:
//   - a name used in a block that is not one of its parameters denotes the
//     variable of the nearest enclosing block/function that uses that name
//     (as a parameter or anywhere in its own statements);
//   - if no enclosing scope uses it, it is private to each call of the block;
//   - variables shared between scopes live once per call of the outermost
//     function (a function literal starts a new outermost function);
//   - a parameter that a nested block shares is copied to the shared storage
//     when its scope is entered;
//   - the value of a block is the value of its last statement, return inside a
//     block returns from the function call that created the block, break and
//     continue inside a block throw "block:break" / "block:continue".
//
// The model has no notion of "closure or plain function", so a behavioural
// difference between the two compilations shows up as a mismatch. Each program
// is also run in a variant in which every block additionally reads a dummy
// variable of its outermost function (which forces every block to be a
// closure); its result must be the same.
package c29

import (
	"fmt"
	"math/rand/v2"
	"os"
	"strings"
	"testing"

	_ "github.com/apmckinlay/gsuneido/builtin"
	"github.com/apmckinlay/gsuneido/compile"
	. "github.com/apmckinlay/gsuneido/core"
	vk "github.com/apmckinlay/gsuneido/util/verifkit"
)

// ---------------------------------------------------------------- program trees

type scope struct {
	parent *scope // nil for a function (functions start a new sharing domain)
	isFunc bool
	params []string
	body   []*stmt
	id     int
	// static analysis (model)
	uses    map[string]bool   // names used by the scope's own statements (not inside nested blocks) plus parameters
	binding map[string]*class // name -> storage class
	nested  []*scope          // blocks written directly in this scope (any depth of statements, not inside other blocks)
	// implicitIt: a block written without a parameter list that uses the name it: the language gives it the
	// implicit parameter it (params is {"it"} for the model, the printer writes no parameter list)
	implicitIt bool
}

// class is one variable: the set of (scope, name) pairs that denote the same storage.
type class struct {
	name    string
	members int
	owner   *scope // topmost scope of the class
	shared  bool
	id      int
}

type expr struct {
	kind string // lit, var, bin, call, block, func
	n    int
	name string
	op   string
	kids []*expr
	sc   *scope // block / func literal
}

type stmt struct {
	kind       string // assign, opassign, inc, log, expr, if, for, forin, break, continue, return, try, throw
	name       string
	op         string
	e          *expr
	body, els  []*stmt
	n          int
	evar, text string
}

// ---------------------------------------------------------------- generator

type gen struct {
	r        *rand.Rand
	nscopes  int
	budget   int // remaining statements
	features map[string]bool
	defined  map[string]bool // names assigned so far in generation order (a heuristic to keep most reads initialised)
	useIt    bool            // this program has an outer variable called it and blocks with the implicit parameter it
}

// readable picks a name to read: mostly one that has been assigned somewhere before.
func (g *gen) readable(pool []string) string {
	if g.r.IntN(10) != 0 {
		var ok []string
		for _, n := range pool {
			if g.defined[n] {
				ok = append(ok, n)
			}
		}
		if len(ok) > 0 {
			return ok[g.r.IntN(len(ok))]
		}
	}
	return pool[g.r.IntN(len(pool))]
}

var intNames = []string{"x", "y", "z", "w"}
var blockNames = []string{"b", "c", "d"}
var funcNames = []string{"f", "g"}

type ctx struct {
	sc        *scope
	depth     int  // block nesting depth
	inLoop    bool // directly inside a loop of this scope
	inTry     bool // inside a try of the same function (nested try is not supported by the language)
	tryInLoop bool // inside a try that is inside a loop of this scope: break / continue would leave the try (not generated)
	inBlock   bool
	canRet    bool   // a return statement is allowed here (function body, or a block that is only called while its creator runs)
	known     []bool // unused
	isRoot    bool
}

func (g *gen) pick(l []string) string { return l[g.r.IntN(len(l))] }

func (g *gen) intExpr(c *ctx, depth int) *expr {
	switch x := g.r.IntN(10); {
	case x < 3 || depth <= 0:
		if g.r.IntN(2) == 0 {
			return &expr{kind: "lit", n: g.r.IntN(10)}
		}
		name := g.readable(intNames)
		if len(c.sc.params) > 0 && g.r.IntN(2) == 0 {
			name = c.sc.params[g.r.IntN(len(c.sc.params))]
		}
		return &expr{kind: "var", name: name}
	case x < 6:
		return &expr{kind: "bin", op: g.pick([]string{"+", "+", "-"}), kids: []*expr{g.intExpr(c, depth-1), g.intExpr(c, depth-1)}}
	case x < 9:
		// call a block variable (value of the block = its last statement)
		g.features["call-block-value"] = true
		if !g.defined["b"] && !g.defined["c"] && !g.defined["d"] {
			return &expr{kind: "lit", n: g.r.IntN(10)}
		}
		return g.callExpr(c, g.readable(blockNames), depth)
	default:
		if !g.defined["f"] {
			return &expr{kind: "lit", n: g.r.IntN(10)}
		}
		g.features["call-function-value"] = true
		return g.callExpr(c, "f", depth)
	}
}

// arity is fixed per callee name so that calls always match: b(1) c(2) d(0) f(1) g(1)
var arity = map[string]int{"b": 1, "c": 2, "d": 0, "f": 1, "g": 1}

func (g *gen) callExpr(c *ctx, callee string, depth int) *expr {
	e := &expr{kind: "call", name: callee}
	for i := 0; i < arity[callee]; i++ {
		e.kids = append(e.kids, g.intExpr(c, depth-1))
	}
	return e
}

func (g *gen) newBlock(c *ctx, name string, allowReturn bool) *expr {
	g.nscopes++
	sc := &scope{parent: c.sc, id: g.nscopes}
	pnames := []string{"x", "y", "p", "q", "z"}
	if g.useIt && arity[name] == 1 && g.nscopes%2 == 0 {
		sc.params, sc.implicitIt = []string{"it"}, true
		g.features["implicit-it-parameter"] = true
	}
	for i := 0; i < arity[name] && !sc.implicitIt; i++ {
		for {
			p := g.pick(pnames)
			dup := false
			for _, q := range sc.params {
				dup = dup || q == p
			}
			if !dup {
				sc.params = append(sc.params, p)
				break
			}
		}
	}
	bc := &ctx{sc: sc, depth: c.depth + 1, inBlock: true, canRet: allowReturn, inTry: c.inTry}
	for _, p := range sc.params {
		g.defined[p] = true
	}
	n := 1 + g.r.IntN(3)
	sc.body = g.stmts(bc, n)
	if allowReturn && g.r.IntN(2) == 0 {
		// a conditional return from the function that created the block
		g.features["return-in-block"] = true
		ret := &stmt{kind: "if", e: &expr{kind: "bin", op: g.pick([]string{"<", "is", ">"}), kids: []*expr{g.intExpr(bc, 1), g.intExpr(bc, 1)}},
			body: []*stmt{{kind: "return", e: g.intExpr(bc, 1)}}}
		at := g.r.IntN(len(sc.body) + 1)
		sc.body = append(sc.body[:at:at], append([]*stmt{ret}, sc.body[at:]...)...)
	}
	// the value of a block is its last statement: always an integer expression
	if sc.implicitIt { // (which uses it, so that the language really gives the block the implicit parameter)
		sc.body = append(sc.body, &stmt{kind: "expr", e: &expr{kind: "bin", op: "+", kids: []*expr{{kind: "var", name: "it"}, g.intExpr(bc, 1)}}})
		return &expr{kind: "block", sc: sc}
	}
	sc.body = append(sc.body, &stmt{kind: "expr", e: g.intExpr(bc, 1)})
	return &expr{kind: "block", sc: sc}
}

func (g *gen) newFunc(c *ctx, name string) *expr {
	g.nscopes++
	sc := &scope{isFunc: true, id: g.nscopes, params: []string{g.pick([]string{"x", "y", "p", "n"})}}
	fc := &ctx{sc: sc, depth: c.depth + 1, canRet: true, inTry: c.inTry} // a try around a function literal also counts as nesting
	g.defined[sc.params[0]] = true
	if name == "g" { // maker: returns a block that uses the function's variables (escaping closure)
		g.features["maker-function"] = true
		sc.body = g.stmts(fc, g.r.IntN(3))
		sc.body = append(sc.body, &stmt{kind: "return", e: g.newBlock(fc, "b", false)})
	} else {
		sc.body = g.stmts(fc, 1+g.r.IntN(3))
		sc.body = append(sc.body, &stmt{kind: "return", e: g.intExpr(fc, 1)})
	}
	return &expr{kind: "func", sc: sc}
}

func (g *gen) stmts(c *ctx, n int) []*stmt {
	var out []*stmt
	for i := 0; i < n && g.budget > 0; i++ {
		g.budget--
		st := g.stmt(c)
		out = append(out, st)
		if st.kind == "assign" && st.name == "g" && g.r.IntN(2) == 0 {
			// use the maker right away: the returned block escapes the call that created it
			g.features["call-maker"] = true
			g.defined["b"] = true
			out = append(out, &stmt{kind: "assign", name: "b", e: g.callExpr(c, "g", 2)})
		}
	}
	return out
}

func (g *gen) stmt(c *ctx) *stmt {
	deep := c.depth >= 3
	for {
		switch x := g.r.IntN(24); {
		case x < 4:
			s := &stmt{kind: "assign", name: g.pick(intNames), e: g.intExpr(c, 2)}
			g.defined[s.name] = true
			return s
		case x < 6:
			g.features["update"] = true
			return &stmt{kind: "opassign", name: g.readable(intNames), op: g.pick([]string{"+=", "-=", "*="}), e: g.intExpr(c, 1)}
		case x < 7:
			g.features["update"] = true
			return &stmt{kind: "inc", name: g.readable(intNames)}
		case x < 10:
			return &stmt{kind: "log", e: g.intExpr(c, 2)}
		case x < 14:
			if deep {
				continue
			}
			g.features["block-in-variable"] = true
			name := g.pick(blockNames)
			s := &stmt{kind: "assign", name: name, e: g.newBlock(c, name, false)}
			g.defined[name] = true
			return s
		case x < 15:
			if deep || c.inBlock && g.r.IntN(2) == 0 {
				continue
			}
			g.features["function-literal"] = true
			name := g.pick(funcNames)
			s := &stmt{kind: "assign", name: name, e: g.newFunc(c, name)}
			g.defined[name] = true
			return s
		case x < 17:
			// call a block for its effects
			if !g.defined["b"] && !g.defined["c"] && !g.defined["d"] {
				continue
			}
			return &stmt{kind: "expr", e: g.callExpr(c, g.readable(blockNames), 2)}
		case x < 18:
			// b = g(n): a block made by a maker function
			if !g.defined["g"] {
				continue
			}
			g.features["call-maker"] = true
			g.defined["b"] = true
			return &stmt{kind: "assign", name: "b", e: g.callExpr(c, "g", 2)}
		case x < 19:
			if deep {
				continue
			}
			g.features["if"] = true
			s := &stmt{kind: "if", e: &expr{kind: "bin", op: g.pick([]string{"<", "is", ">"}), kids: []*expr{g.intExpr(c, 1), g.intExpr(c, 1)}}}
			s.body = g.stmts(c, 1+g.r.IntN(2))
			if g.r.IntN(2) == 0 {
				s.els = g.stmts(c, 1)
			}
			return s
		case x < 20:
			if deep {
				continue
			}
			g.features["loop"] = true
			lc := *c
			lc.inLoop = true
			lc.tryInLoop = false
			kind := "for"
			if g.r.IntN(3) == 0 {
				kind = "forin"
			}
			s := &stmt{kind: kind, name: g.pick([]string{"i", "x"}), n: 1 + g.r.IntN(3)}
			g.defined[s.name] = true
			s.body = g.stmts(&lc, 1+g.r.IntN(2))
			return s
		case x < 21:
			if c.tryInLoop {
				continue
			}
			if c.inLoop {
				g.features["loop-break-continue"] = true
				return &stmt{kind: g.pick([]string{"break", "continue"}), text: "loop"}
			}
			if c.inBlock && g.r.IntN(3) == 0 {
				g.features["block-break-continue"] = true
				return &stmt{kind: g.pick([]string{"break", "continue"}), text: "block"}
			}
			continue
		case x < 22:
			if deep || c.inTry {
				continue
			}
			g.features["try-catch"] = true
			s := &stmt{kind: "try", evar: "e"}
			tc := *c
			tc.inTry = true
			tc.tryInLoop = c.inLoop
			s.body = g.stmts(&tc, 1+g.r.IntN(2))
			s.els = []*stmt{{kind: "log", e: &expr{kind: "var", name: "e"}}}
			return s
		case x < 23:
			if !c.inTry && !c.inBlock && g.r.IntN(4) != 0 {
				continue
			}
			g.features["throw"] = true
			return &stmt{kind: "throw", text: g.pick([]string{"t1", "t2"})}
		default:
			if c.canRet && g.r.IntN(2) == 0 {
				if c.inBlock {
					g.features["return-in-block"] = true
				}
				return &stmt{kind: "return", e: g.intExpr(c, 1)}
			}
			if deep || !c.isRoot {
				continue
			}
			// f(n, {block}): a block literal passed directly; it may return from this function
			g.features["block-as-argument"] = true
			return &stmt{kind: "callwith", name: "each", n: 1 + g.r.IntN(3), e: g.newBlock(c, "b", c.sc.isFunc && g.r.IntN(2) == 0)}
		}
	}
}

// ---------------------------------------------------------------- printer

type printer struct {
	sb      strings.Builder
	forced  bool // every block reads the dummy variable of its function
	liveIfs bool // every if condition is written ((cond) is Suneido.vtrue): no branch can be removed at compile time, everything else stays constant
	noconst bool // literals are written (N + Suneido.vzero) and function variables are assigned twice: nothing is a compile-time constant
}

func (p *printer) expr(e *expr) {
	switch e.kind {
	case "lit":
		if p.noconst {
			fmt.Fprintf(&p.sb, "(%d + Suneido.vzero)", e.n)
		} else {
			fmt.Fprint(&p.sb, e.n)
		}
	case "var":
		p.sb.WriteString(e.name)
	case "bin":
		p.sb.WriteString("(")
		p.expr(e.kids[0])
		p.sb.WriteString(" " + e.op + " ")
		p.expr(e.kids[1])
		p.sb.WriteString(")")
	case "call":
		p.sb.WriteString(e.name + "(")
		for i, k := range e.kids {
			if i > 0 {
				p.sb.WriteString(", ")
			}
			p.expr(k)
		}
		p.sb.WriteString(")")
	case "block":
		p.sb.WriteString("{")
		if len(e.sc.params) > 0 && !e.sc.implicitIt {
			p.sb.WriteString("|" + strings.Join(e.sc.params, ", ") + "|")
		}
		p.sb.WriteString("\n")
		if p.forced {
			p.sb.WriteString("zq\n")
		}
		p.stmts(e.sc.body)
		p.sb.WriteString("}")
	case "func":
		p.sb.WriteString("function (" + strings.Join(e.sc.params, ", ") + ") {\n")
		if p.forced {
			p.sb.WriteString("zq = 0\n")
		}
		p.stmts(e.sc.body)
		p.sb.WriteString("}")
	}
}

func (p *printer) stmts(l []*stmt) {
	for _, s := range l {
		p.stmt(s)
	}
}

func (p *printer) stmt(s *stmt) {
	switch s.kind {
	case "assign":
		p.sb.WriteString(s.name + " = ")
		p.expr(s.e)
		if p.noconst && s.e.kind == "func" {
			p.sb.WriteString("\n" + s.name + " = " + s.name) // a second assignment: not a single-assignment constant
		}
	case "opassign":
		p.sb.WriteString(s.name + " " + s.op + " ")
		p.expr(s.e)
	case "inc":
		p.sb.WriteString("++" + s.name)
	case "log":
		p.sb.WriteString("Suneido.vlog.Add(")
		p.expr(s.e)
		p.sb.WriteString(")")
	case "expr":
		p.expr(s.e)
	case "if":
		p.sb.WriteString("if ")
		if p.liveIfs {
			p.sb.WriteString("(")
			p.expr(s.e)
			p.sb.WriteString(" is Suneido.vtrue)") // not "and": false and x is folded to false
		} else {
			p.expr(s.e)
		}
		p.sb.WriteString("\n{\n")
		p.stmts(s.body)
		p.sb.WriteString("}")
		if s.els != nil {
			p.sb.WriteString("\nelse\n{\n")
			p.stmts(s.els)
			p.sb.WriteString("}")
		}
	case "for":
		fmt.Fprintf(&p.sb, "for (%s = 0; %s < %d; ++%s)\n{\n", s.name, s.name, s.n, s.name)
		p.stmts(s.body)
		p.sb.WriteString("}")
	case "forin":
		fmt.Fprintf(&p.sb, "for %s in 0 .. %d\n{\n", s.name, s.n)
		p.stmts(s.body)
		p.sb.WriteString("}")
	case "break", "continue":
		p.sb.WriteString(s.kind)
	case "return":
		p.sb.WriteString("return ")
		p.expr(s.e)
	case "try":
		p.sb.WriteString("try\n{\n")
		p.stmts(s.body)
		p.sb.WriteString("}\ncatch (" + s.evar + ")\n{\n")
		p.stmts(s.els)
		p.sb.WriteString("}")
	case "throw":
		p.sb.WriteString(`throw "` + s.text + `"`)
	case "callwith":
		fmt.Fprintf(&p.sb, "%s(%d, ", s.name, s.n)
		p.expr(s.e)
		p.sb.WriteString(")")
	}
	p.sb.WriteString("\n")
}

// eachSrc is the helper every program starts with: calls the block n times; handles block:break / block:continue.
const eachSrc = `each = function (n, block) {
for (k = 0; k < n; ++k)
{
try
{
block(k)
}
catch (e, "block:")
{
if e is "block:break"
{
break
}
}
}
return 0
}
`

func source(root *scope, forced bool) string { return source2(root, forced, false) }

func source2(root *scope, forced, noconst bool) string { return source3(root, forced, noconst, false) }

func source3(root *scope, forced, noconst, liveIfs bool) string {
	p := &printer{forced: forced, noconst: noconst, liveIfs: liveIfs}
	p.sb.WriteString("function () {\n")
	if forced {
		p.sb.WriteString("zq = 0\n")
	}
	p.sb.WriteString(eachSrc)
	if noconst {
		p.sb.WriteString("each = each\n")
	}
	p.stmts(root.body)
	p.sb.WriteString("}")
	return p.sb.String()
}

// ---------------------------------------------------------------- static analysis of the documented model

func (sc *scope) analyse(all *[]*scope) {
	sc.uses = map[string]bool{}
	for _, p := range sc.params {
		sc.uses[p] = true
	}
	var walkE func(e *expr)
	var walkS func(l []*stmt)
	walkE = func(e *expr) {
		if e == nil {
			return
		}
		switch e.kind {
		case "var":
			sc.uses[e.name] = true
		case "call":
			sc.uses[e.name] = true
		case "block":
			e.sc.parent = sc
			sc.nested = append(sc.nested, e.sc)
			return
		case "func":
			e.sc.analyseRoot(all)
			return
		}
		for _, k := range e.kids {
			walkE(k)
		}
	}
	walkS = func(l []*stmt) {
		for _, s := range l {
			switch s.kind {
			case "assign", "opassign", "inc", "for", "forin":
				sc.uses[s.name] = true
			case "try":
				sc.uses[s.evar] = true
			case "callwith":
				sc.uses[s.name] = true
			}
			walkE(s.e)
			walkS(s.body)
			walkS(s.els)
		}
	}
	walkS(sc.body)
	*all = append(*all, sc)
	for _, b := range sc.nested {
		b.analyse(all)
	}
}

var classCounter int

// analyseRoot resolves every name of a function and its blocks to a storage class.
func (root *scope) analyseRoot(allRoots *[]*scope) {
	var scopes []*scope
	root.analyse(&scopes)
	for _, s := range scopes {
		s.binding = map[string]*class{}
	}
	// outer scopes first: a block's name joins the class of the nearest enclosing scope that uses the name
	for _, s := range scopes {
		for name := range s.uses {
			isParam := false
			for _, p := range s.params {
				isParam = isParam || p == name
			}
			var found *class
			if !isParam {
				for p := s.parent; p != nil; p = p.parent {
					if p.uses[name] {
						found = p.binding[name]
						break
					}
				}
			}
			if found == nil {
				classCounter++
				found = &class{name: name, owner: s, id: classCounter}
			}
			found.members++
			found.shared = found.members >= 2
			s.binding[name] = found
		}
	}
}

// ---------------------------------------------------------------- the reference interpreter

type value interface{}

type closure struct {
	sc      *scope
	shared  *sharedEnv
	creator *invocation // the FUNCTION invocation that created it (target of return)
}

type function struct{ sc *scope }

type sharedEnv struct{ vals map[*class]value }

type invocation struct {
	sc      *scope
	locals  map[*class]value
	shared  *sharedEnv
	active  bool
	root    *invocation // the function invocation this (block) invocation belongs to
	builtin string
}

type suError struct{ msg string } // a Suneido exception
type blockReturn struct {         // return inside a block
	target *invocation
	val    value
}
type loopCtl struct{ brk bool } // break / continue inside a loop of the same scope

type machine struct {
	log   []string
	steps int
	depth int // nesting of calls: the interpreter has 256 frames, deeper recursion is a resource limit, not scoping
}

type tooLong struct{}

func (m *machine) get(inv *invocation, name string) value {
	c := inv.sc.binding[name]
	var v value
	if c.shared {
		v = inv.shared.vals[c]
	} else {
		v = inv.locals[c]
	}
	if v == nil {
		panic(suError{"uninitialized variable: " + name})
	}
	return v
}

func (m *machine) set(inv *invocation, name string, v value) {
	c := inv.sc.binding[name]
	if c.shared {
		inv.shared.vals[c] = v
	} else {
		inv.locals[c] = v
	}
}

func show(v value) string {
	switch x := v.(type) {
	case int:
		return fmt.Sprint(x)
	case string:
		return x
	}
	return "<callable>"
}

func (m *machine) eval(inv *invocation, e *expr) value {
	m.steps++
	if m.steps > 20000 {
		panic(tooLong{})
	}
	switch e.kind {
	case "lit":
		return e.n
	case "var":
		return m.get(inv, e.name)
	case "bin":
		a := m.eval(inv, e.kids[0])
		b := m.eval(inv, e.kids[1])
		x, okx := a.(int)
		y, oky := b.(int)
		if !okx || !oky {
			panic(suError{"model: non-integer operand"})
		}
		switch e.op {
		case "+":
			return m.num(x + y)
		case "-":
			return m.num(x - y)
		case "*":
			return m.mul(x, y)
		case "<":
			return x < y
		case ">":
			return x > y
		case "is":
			return x == y
		}
	case "block":
		root := inv.root
		return &closure{sc: e.sc, shared: inv.shared, creator: root}
	case "func":
		return &function{sc: e.sc}
	case "call":
		// the arguments are evaluated left to right, then the callee variable is read
		args := make([]value, len(e.kids))
		for i, k := range e.kids {
			args[i] = m.eval(inv, k)
		}
		callee := m.get(inv, e.name)
		return m.call(callee, args)
	}
	panic("model: bad expr " + e.kind)
}

// num refuses programs whose integers leave the range in which arithmetic is exact and displayed plainly.
// mul multiplies without wrapping around (both operands have passed num, so the float product is accurate enough for the bound)
func (m *machine) mul(x, y int) int {
	if f := float64(x) * float64(y); f > 1e12 || f < -1e12 {
		panic(tooLong{})
	}
	return x * y
}

func (m *machine) num(n int) int {
	if n > 1e12 || n < -1e12 {
		panic(tooLong{})
	}
	return n
}

func (m *machine) call(callee value, args []value) value {
	m.depth++
	defer func() { m.depth-- }()
	if m.depth > 100 {
		panic(tooLong{})
	}
	switch f := callee.(type) {
	case *closure:
		inv := &invocation{sc: f.sc, locals: map[*class]value{}, shared: f.shared, active: true, root: f.creator}
		return m.run(inv, args)
	case *function:
		inv := &invocation{sc: f.sc, locals: map[*class]value{}, shared: &sharedEnv{vals: map[*class]value{}}, active: true}
		inv.root = inv
		return m.run(inv, args)
	}
	panic(suError{"model: call of a non-callable"})
}

// run executes a function or block invocation and returns its value.
func (m *machine) run(inv *invocation, args []value) (result value) {
	for i, p := range inv.sc.params {
		m.set(inv, p, args[i]) // a shared parameter is copied to the shared storage on entry
	}
	if inv.sc.isFunc {
		defer func() {
			inv.active = false
			if r := recover(); r != nil {
				if br, ok := r.(blockReturn); ok && br.target == inv {
					result = br.val
					return
				}
				panic(r)
			}
		}()
	}
	var last value
	for _, s := range inv.sc.body {
		last = m.exec(inv, s)
	}
	return last
}

type returned struct{ val value }

// exec runs a statement; the result is the statement's value (for "the value of a block is its last statement").
func (m *machine) exec(inv *invocation, s *stmt) value {
	m.steps++
	if m.steps > 20000 {
		panic(tooLong{})
	}
	switch s.kind {
	case "assign":
		v := m.eval(inv, s.e)
		m.set(inv, s.name, v)
		return v
	case "opassign":
		// Suneido evaluates the right hand side first, then reads the variable
		r := m.eval(inv, s.e).(int)
		cur, ok := m.get(inv, s.name).(int)
		if !ok {
			panic(suError{"model: non-integer update"})
		}
		var v int
		switch s.op {
		case "+=":
			v = m.num(cur + r)
		case "-=":
			v = m.num(cur - r)
		default:
			v = m.mul(cur, r)
		}
		m.set(inv, s.name, v)
		return v
	case "inc":
		cur, ok := m.get(inv, s.name).(int)
		if !ok {
			panic(suError{"model: non-integer update"})
		}
		m.set(inv, s.name, m.num(cur+1))
		return cur + 1
	case "log":
		m.log = append(m.log, show(m.eval(inv, s.e)))
		return nil
	case "expr":
		return m.eval(inv, s.e)
	case "if":
		c, _ := m.eval(inv, s.e).(bool)
		if c {
			m.block(inv, s.body)
		} else {
			m.block(inv, s.els)
		}
		return nil
	case "for":
		// for (v = 0; v < n; ++v): the variable is an ordinary variable, re-read by the test and the increment
		m.set(inv, s.name, 0)
		for {
			cur, ok := m.get(inv, s.name).(int)
			if !ok {
				panic(suError{"model: non-integer loop variable"})
			}
			if !(cur < s.n) {
				break
			}
			if m.loopBody(inv, s.body) {
				break
			}
			cur, ok = m.get(inv, s.name).(int)
			if !ok {
				panic(suError{"model: non-integer loop variable"})
			}
			m.set(inv, s.name, m.num(cur+1))
		}
		return nil
	case "forin":
		// for v in 0 .. n: a hidden counter drives the loop; v is assigned the counter before every test
		// (so it is n after a complete loop), whatever the body does to v
		for i := 0; ; i++ {
			m.set(inv, s.name, i)
			if !(i < s.n) {
				break
			}
			if m.loopBody(inv, s.body) {
				break
			}
		}
		return nil
	case "break", "continue":
		if s.text == "block" { // not inside a loop of this block: thrown as an exception
			panic(suError{"block:" + s.kind})
		}
		panic(loopCtl{brk: s.kind == "break"})
	case "return":
		v := m.eval(inv, s.e)
		if inv.sc.isFunc {
			panic(blockReturn{target: inv, val: v})
		}
		panic(blockReturn{target: inv.root, val: v})
	case "throw":
		panic(suError{s.text})
	case "try":
		func() {
			defer func() {
				if r := recover(); r != nil {
					if se, ok := r.(suError); ok && !strings.HasPrefix(se.msg, "model:") { // model: = outside the model, the run is skipped
						m.set(inv, s.evar, se.msg)
						m.block(inv, s.els)
						return
					}
					panic(r)
				}
			}()
			m.block(inv, s.body)
		}()
		return nil
	case "callwith":
		blk := m.eval(inv, s.e)
		// the helper: for (k = 0; k < n; ++k) try block(k) catch (e, "block:") if e is "block:break" break
		for k := 0; k < s.n; k++ {
			stop := false
			func() {
				defer func() {
					if r := recover(); r != nil {
						if se, ok := r.(suError); ok && strings.HasPrefix(se.msg, "block:") {
							stop = se.msg == "block:break"
							return
						}
						panic(r)
					}
				}()
				m.call(blk, []value{k})
			}()
			if stop {
				break
			}
		}
		return 0
	}
	panic("model: bad stmt " + s.kind)
}

func (m *machine) block(inv *invocation, l []*stmt) {
	for _, s := range l {
		m.exec(inv, s)
	}
}

// loopBody runs one iteration; true = break
func (m *machine) loopBody(inv *invocation, l []*stmt) (brk bool) {
	defer func() {
		if r := recover(); r != nil {
			if lc, ok := r.(loopCtl); ok {
				brk = lc.brk
				return
			}
			panic(r)
		}
	}()
	m.block(inv, l)
	return false
}

type outcome struct {
	log    string
	result string
}

func (o outcome) String() string { return "log [" + o.log + "] => " + o.result }

// model runs the reference interpreter on the program.
func model(root *scope) (out outcome, ok bool) {
	m := &machine{}
	defer func() {
		if r := recover(); r != nil {
			out.log = strings.Join(m.log, ",")
			switch x := r.(type) {
			case suError:
				out.result = "exception: " + x.msg
				ok = !strings.HasPrefix(x.msg, "model:")
			case loopCtl:
				// break / continue at the top of a block body: thrown as block:break / block:continue
				out.result, ok = "?", false
			case blockReturn:
				out.result, ok = "exception: block return", true
			case tooLong:
				ok = false
			default:
				panic(r)
			}
		}
	}()
	v := m.call(&function{sc: root}, nil)
	return outcome{log: strings.Join(m.log, ","), result: "value: " + show(v)}, true
}

// ---------------------------------------------------------------- running the real thing

var theThread = &Thread{}

var resetLog, getLog Value

func real(src string) (outcome, string) {
	var fn Value
	p, _ := vk.Catch(func() { fn = compile.Constant(src) })
	if p != nil {
		return outcome{}, fmt.Sprint(p)
	}
	th := theThread
	th.Call(resetLog)
	var res Value
	p, _ = vk.Catch(func() { res = th.Call(fn) })
	var out outcome
	if p != nil {
		th.Reset()
		msg := fmt.Sprint(p)
		if se, ok := p.(*SuExcept); ok {
			msg = string(se.SuStr)
		} else if sv, ok := p.(Value); ok {
			if str, ok := sv.ToStr(); ok {
				msg = str
			}
		}
		out.result = "exception: " + msg
	} else if res == nil {
		out.result = "value: <nil>"
	} else {
		out.result = "value: " + AsStrOrDisplay(res)
	}
	logv := th.Call(getLog).(*SuObject)
	var parts []string
	for i := 0; i < logv.ListSize(); i++ {
		parts = append(parts, AsStrOrDisplay(logv.ListGet(i)))
	}
	out.log = strings.Join(parts, ",")
	return out, ""
}

func AsStrOrDisplay(v Value) string {
	if s, ok := v.ToStr(); ok {
		return s
	}
	if v.Type().String() == "Number" || v.Type().String() == "Boolean" {
		return v.String()
	}
	return "<callable>"
}

func setup() {
	resetLog = compile.Constant("function () { Suneido.vlog = Object(); Suneido.vzero = 0; Suneido.vtrue = true }")
	getLog = compile.Constant("function () { return Suneido.vlog }")
}

func generate(r *rand.Rand) (*scope, map[string]bool) {
	g := &gen{r: r, budget: 8 + r.IntN(14), features: map[string]bool{}, defined: map[string]bool{}}
	root := &scope{isFunc: true, id: 0}
	c := &ctx{sc: root, canRet: true, isRoot: true}
	for _, v := range intNames { // most integer variables start initialised in the outermost function
		if r.IntN(8) != 0 {
			root.body = append(root.body, &stmt{kind: "assign", name: v, e: &expr{kind: "lit", n: 1 + r.IntN(9)}})
			g.defined[v] = true
		}
	}
	// a third of the programs (chosen without drawing from r): the outermost function has a variable called it,
	// assigned a literal once, and blocks of arity 1 may be written with the implicit parameter it, which hides it
	if g.useIt = (g.budget+len(root.body))%3 == 0; g.useIt {
		root.body = append(root.body, &stmt{kind: "assign", name: "it", e: &expr{kind: "lit", n: 1 + g.budget%9}})
	}
	root.body = append(root.body, g.stmts(c, 3+r.IntN(8))...)
	if g.useIt {
		root.body = append(root.body, &stmt{kind: "log", e: &expr{kind: "var", name: "it"}})
	}
	root.body = append(root.body, &stmt{kind: "return", e: g.intExpr(c, 1)})
	return root, g.features
}

func countScopes(sc *scope, blocks, funcs, shared, private, sharedParams *int) {
	for _, b := range sc.nested {
		*blocks++
		countScopes(b, blocks, funcs, shared, private, sharedParams)
	}
	seen := map[*class]bool{}
	for name, c := range sc.binding {
		if seen[c] || c.owner != sc {
			continue
		}
		seen[c] = true
		if c.shared {
			*shared++
			for _, p := range sc.params {
				if p == name {
					*sharedParams++
				}
			}
		} else if !sc.isFunc {
			*private++
		}
	}
}

func TestVerifC29(t *testing.T) {
	rep := vk.NewReport("C29",
		"PRNG programs: a function body of 4..12 statements over 4 integer, 3 block and 2 function variable names reused in every scope (blocks nested up to depth 3 with 0..2 parameters that shadow, "+
			"assignments, updates, logging, if, for / for-in loops, break / continue in loops and in blocks, try-catch, throw, return in functions and in blocks passed as arguments, function literals, "+
			"maker functions whose returned block escapes, blocks called for their value); non-trivial = at least 2 blocks and at least one variable shared between scopes; distinct by source text",
		"the reference interpreter implements the documented model (nearest enclosing user, parameters hide, private per call, shared once per call of the outermost function); the helper 'each' is modelled directly",
		"programs whose model run exceeds 20000 steps are skipped")
	defer rep.Finish()
	setup()
	n := vk.N(12000, 600000)
	for i := 0; i < n; i++ {
		r := vk.RandFor(29, i)
		root, features := generate(r)
		var roots []*scope
		root.analyseRoot(&roots)
		want, ok := model(root)
		src := source(root, false)
		if !ok {
			rep.Count("skipped_by_model", 1)
			continue
		}
		var blocks, funcs, shared, private, sharedParams int
		countScopes(root, &blocks, &funcs, &shared, &private, &sharedParams)
		rep.Case("case %d", i)
		rep.Eval(vk.Hash64(src), blocks >= 2 && shared >= 1)
		rep.Count("blocks", blocks)
		rep.Count("shared_variables", shared)
		rep.Count("private_block_variables", private)
		rep.Count("shared_parameters", sharedParams)
		for f := range features {
			rep.Count("feature:"+f, 1)
		}
		if strings.HasPrefix(want.result, "exception") {
			rep.Count("model_exception", 1)
			rep.Seen("model_exceptions", vk.Trunc(want.result, 50))
		} else {
			rep.Count("model_value", 1)
		}
		for _, forced := range []bool{false, true} {
			s := src
			variant := "plain"
			if forced {
				s = source(root, true)
				variant = "forced-closures"
			}
			got, cerr := real(s)
			if cerr != "" {
				if strings.Contains(cerr, "possibly uninitialized variable") { // the compiler's static check on single-assignment variables
					rep.Count("static_uninitialized_check", 1)
				} else {
					rep.Violate("C29/harness-program-does-not-compile", s, cerr)
				}
				break
			}
			if got != want {
				what := "result"
				if got.log != want.log {
					what = "log"
				}
				cls := "C29/differs-from-documented-model/" + variant + "/" + what
				detail := map[string]any{"source": s, "model": want.String(), "real": got.String()}
				// root cause probe: the same program with no compile-time constant variables (nothing to propagate, no branch removed)
				if li, cerr3 := real(source3(root, forced, false, true)); cerr3 == "" && li == want {
					// the recorded defect: a branch removed at compile time took the only use of a name in its scope with it
					cls = "C29/scoping-changed-by-dead-branch-removal/" + variant
					detail["note"] = "the program agrees with the model when no if branch can be removed at compile time (conditions written ((cond) is Suneido.vtrue)); constants are still propagated"
				} else if nc, cerr2 := real(source2(root, forced, true)); cerr2 == "" && nc == want {
					cls = "C29/scoping-changed-by-constant-propagation/" + variant
					detail["note"] = "the program agrees with the model when nothing in it is a compile-time constant (literals written (N + Suneido.vzero), function variables assigned twice), but not when only the if branches are kept alive"
				}
				rep.Violate(cls, s, detail)
			}
		}
		if rep.WantSample() && blocks >= 2 && shared >= 1 && i%11 == 0 {
			rep.Sample(map[string]any{"source": src, "outcome": want.String()})
		}
	}
}

// TestVerifC29Debug runs the sources in $C29_DEBUG (programs separated by a line "----"). Development aid only.
func TestVerifC29Debug(t *testing.T) {
	fn := os.Getenv("C29_DEBUG")
	if fn == "" {
		t.Skip()
	}
	setup()
	b, _ := os.ReadFile(fn)
	for _, src := range strings.Split(string(b), "\n----\n") {
		if strings.TrimSpace(src) == "" {
			continue
		}
		got, cerr := real(src)
		fmt.Printf("%s\n  => %s %s\n", src, got, cerr)
	}
}
