// Package verifkit is the shared kit of the /verif runtime monitors.
// It is NOT part of the repository: it is compiled into the repository's
// module through `go test -overlay` (see /verif/bin/check).
//
// A harness (a Go test) creates one Report, logs cases, counts observations,
// reports violations and calls Finish. The driver (bin/check) merges the
// part files of all child processes, matches violations against
// known_findings.jsonl, applies observation floors and writes the evidence file.
package verifkit

import (
	"encoding/binary"
	"encoding/json"
	"fmt"
	"hash/fnv"
	"math/rand/v2"
	"os"
	"path/filepath"
	"runtime/debug"
	"sort"
	"strconv"
	"sync"
	"time"
)

func envInt(name string, def int) int {
	if s := os.Getenv(name); s != "" {
		if n, err := strconv.Atoi(s); err == nil {
			return n
		}
	}
	return def
}

// Seed is VERIF_SEED (default 1).
func Seed() int { return envInt("VERIF_SEED", 1) }

// Shard is the index of this child process, NShards the number of children.
func Shard() int   { return envInt("VERIF_SHARD", 0) }
func NShards() int { return envInt("VERIF_NSHARDS", 1) }

// Thorough reports whether VERIF_TIER=thorough.
func Thorough() bool { return os.Getenv("VERIF_TIER") == "thorough" }

// N returns the case count for this child: the tier's total divided over the shards.
// Case counts are fixed numbers, never time budgets.
func N(quick, thorough int) int {
	n := quick
	if Thorough() {
		n = thorough
	}
	if s := os.Getenv("VERIF_SCALE"); s != "" {
		if f, err := strconv.ParseFloat(s, 64); err == nil {
			n = int(float64(n) * f)
		}
	}
	n = (n + NShards() - 1) / NShards()
	if n < 1 {
		n = 1
	}
	return n
}

// OutDir is where part files, case logs and scratch data go.
func OutDir() string {
	d := os.Getenv("VERIF_OUT")
	if d == "" {
		d = os.TempDir()
	}
	return d
}

// Rand returns a PRNG determined by (seed, shard, stream).
func Rand(stream uint64) *rand.Rand {
	return rand.New(rand.NewPCG(uint64(Seed())*1000003+uint64(Shard()), stream*0x9e3779b97f4a7c15+17))
}

// RandFor returns a PRNG for one case index so a case can be regenerated from
// (seed, shard, stream, index) alone.
func RandFor(stream uint64, index int) *rand.Rand {
	return rand.New(rand.NewPCG(uint64(Seed())*1000003+uint64(Shard()), (stream<<32|uint64(uint32(index)))*0x9e3779b97f4a7c15+17))
}

// Hash64 hashes a case description.
func Hash64(parts ...any) uint64 {
	h := fnv.New64a()
	for _, p := range parts {
		switch v := p.(type) {
		case string:
			h.Write([]byte(v))
		case []byte:
			h.Write(v)
		default:
			fmt.Fprint(h, v)
		}
		h.Write([]byte{0xfe})
	}
	return h.Sum64()
}

type Violation struct {
	Class  string `json:"class"`  // oracle-computed class, e.g. C26/int-overflow-wrap/add
	Key    string `json:"key"`    // the specific failing input / call site / history id
	Detail any    `json:"detail"` // witness: inputs, history, expected/actual
}

type part struct {
	Property    string              `json:"property"`
	Shard       int                 `json:"shard"`
	Seed        int                 `json:"seed"`
	Evaluations int64               `json:"evaluations"`
	Nontrivial  int64               `json:"nontrivial"`
	HashFile    string              `json:"hash_file"`
	Counters    map[string]int64    `json:"counters"`
	Sets        map[string][]string `json:"sets"`
	Samples     []any               `json:"samples"`
	Violations  []Violation         `json:"violations"`
	ClassCounts map[string]int      `json:"class_counts"`
	Rule        string              `json:"rule"`
	Assumptions []string            `json:"assumptions"`
	Exhaustive  bool                `json:"exhaustive"`
	WallS       float64             `json:"wall_s"`
	Finished    bool                `json:"finished"`
}

// Report collects what one child process observed. All methods are goroutine-safe.
type Report struct {
	mu       sync.Mutex
	p        part
	hashes   map[uint64]struct{}
	sets     map[string]map[string]struct{}
	caseLog  *os.File
	trace    *os.File
	start    time.Time
	maxSamp  int
	maxViol  int
	violSeen map[string]int
}

// NewReport starts the report for a property.
func NewReport(property, rule string, assumptions ...string) *Report {
	r := &Report{hashes: map[uint64]struct{}{}, sets: map[string]map[string]struct{}{},
		start: time.Now(), maxSamp: 6, maxViol: 40, violSeen: map[string]int{}}
	r.p.Property = property
	r.p.Shard = Shard()
	r.p.Seed = Seed()
	r.p.Rule = rule
	r.p.Assumptions = assumptions
	r.p.Counters = map[string]int64{}
	os.MkdirAll(OutDir(), 0o755)
	f, err := os.OpenFile(filepath.Join(OutDir(), fmt.Sprintf("cases-%s-%d.log", property, Shard())),
		os.O_CREATE|os.O_WRONLY|os.O_TRUNC, 0o644)
	if err == nil {
		r.caseLog = f
	}
	return r
}

// Case logs a case id BEFORE the case runs, so a process death can be attributed.
// The write goes straight to the file (no buffering).
func (r *Report) Case(format string, args ...any) {
	if r.caseLog == nil {
		return
	}
	r.mu.Lock()
	fmt.Fprintf(r.caseLog, "CASE "+format+"\n", args...)
	r.mu.Unlock()
}

// TraceReset truncates the trace file (call at the start of a case); Trace appends a line to it
// with an unbuffered write, so that after a process death the driver can attach what the dying
// case had done so far to the crash violation.
func (r *Report) TraceReset() {
	r.mu.Lock()
	defer r.mu.Unlock()
	if r.trace != nil {
		r.trace.Close()
	}
	r.trace, _ = os.OpenFile(filepath.Join(OutDir(), fmt.Sprintf("trace-%s-%d.log", r.p.Property, r.p.Shard)),
		os.O_CREATE|os.O_WRONLY|os.O_TRUNC, 0o644)
}

func (r *Report) Trace(format string, args ...any) {
	r.mu.Lock()
	if r.trace != nil {
		fmt.Fprintf(r.trace, format+"\n", args...)
	}
	r.mu.Unlock()
}

// Eval records one evaluated case; hash identifies it, nontrivial says whether it
// passes the check's non-triviality rule.
func (r *Report) Eval(hash uint64, nontrivial bool) {
	r.mu.Lock()
	r.p.Evaluations++
	if nontrivial {
		r.p.Nontrivial++
		r.hashes[hash] = struct{}{}
	}
	r.mu.Unlock()
}

// Count adds n to a named observation counter.
func (r *Report) Count(name string, n int) {
	r.mu.Lock()
	r.p.Counters[name] += int64(n)
	r.mu.Unlock()
}

// Max records the maximum of a named gauge.
func (r *Report) Max(name string, n int) {
	r.mu.Lock()
	if int64(n) > r.p.Counters[name] {
		r.p.Counters[name] = int64(n)
	}
	r.mu.Unlock()
}

// Seen adds a member to a named set (distinct strategies, interleaving signatures ...).
// Sets are capped at 5000 members per child.
func (r *Report) Seen(set, member string) {
	r.mu.Lock()
	m := r.sets[set]
	if m == nil {
		m = map[string]struct{}{}
		r.sets[set] = m
	}
	if len(m) < 5000 {
		m[member] = struct{}{}
	}
	r.mu.Unlock()
}

// Sample stores an actual case (the first few only).
func (r *Report) Sample(v any) {
	r.mu.Lock()
	if len(r.p.Samples) < r.maxSamp {
		r.p.Samples = append(r.p.Samples, v)
	}
	r.mu.Unlock()
}

// WantSample says whether another sample would be kept.
func (r *Report) WantSample() bool {
	r.mu.Lock()
	defer r.mu.Unlock()
	return len(r.p.Samples) < r.maxSamp
}

// Violate records a violation with its class (for known-finding matching), the
// specific failing key and a witness. At most a few witnesses per class are kept.
func (r *Report) Violate(class, key string, detail any) {
	r.mu.Lock()
	defer r.mu.Unlock()
	r.p.Counters["violations_raw"]++
	r.violSeen[class]++
	if r.violSeen[class] > 8 || (len(r.p.Violations) >= r.maxViol && r.violSeen[class] > 2) || len(r.p.Violations) >= 400 {
		return
	}
	r.p.Violations = append(r.p.Violations, Violation{Class: class, Key: key, Detail: detail})
	r.flushLocked(false)
}

// Violations returns how many violations were reported so far.
func (r *Report) Violations() int {
	r.mu.Lock()
	defer r.mu.Unlock()
	return int(r.p.Counters["violations_raw"])
}

func (r *Report) SetExhaustive(b bool) { r.mu.Lock(); r.p.Exhaustive = b; r.mu.Unlock() }

func (r *Report) flushLocked(finished bool) {
	r.p.Finished = finished
	r.p.ClassCounts = r.violSeen
	r.p.WallS = time.Since(r.start).Seconds()
	r.p.Sets = map[string][]string{}
	for k, m := range r.sets {
		l := make([]string, 0, len(m))
		for s := range m {
			l = append(l, s)
		}
		sort.Strings(l)
		r.p.Sets[k] = l
	}
	if finished {
		hf := filepath.Join(OutDir(), fmt.Sprintf("hashes-%s-%d.bin", r.p.Property, r.p.Shard))
		buf := make([]byte, 0, 8*len(r.hashes))
		for h := range r.hashes {
			buf = binary.LittleEndian.AppendUint64(buf, h)
		}
		os.WriteFile(hf, buf, 0o644)
		r.p.HashFile = hf
	}
	b, err := json.Marshal(&r.p)
	if err != nil {
		b, _ = json.Marshal(map[string]any{"property": r.p.Property, "shard": r.p.Shard, "marshal_error": err.Error()})
	}
	fn := filepath.Join(OutDir(), fmt.Sprintf("part-%s-%d.json", r.p.Property, r.p.Shard))
	os.WriteFile(fn+".tmp", b, 0o644)
	os.Rename(fn+".tmp", fn)
}

// Finish writes the part file. Must be called at the end of the harness.
func (r *Report) Finish() {
	r.mu.Lock()
	defer r.mu.Unlock()
	r.flushLocked(true)
	if r.caseLog != nil {
		r.caseLog.Close()
		r.caseLog = nil
	}
}

// Catch runs fn and converts a panic into (value, stack). Used by oracles that
// must distinguish Suneido errors from Go runtime errors.
func Catch(fn func()) (p any, stack string) {
	defer func() {
		if e := recover(); e != nil {
			p = e
			stack = string(debug.Stack())
		}
	}()
	fn()
	return nil, ""
}

// Trunc shortens a string for witnesses.
func Trunc(s string, n int) string {
	if len(s) <= n {
		return s
	}
	return s[:n] + fmt.Sprintf("...(%d bytes)", len(s))
}
