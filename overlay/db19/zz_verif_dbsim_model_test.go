// dbsim model: a plain-Go database (maps + the documented key / unique / foreign key rules).
// It never calls db19 for its answers; it only borrows the index key encoding
// (ixkey.Spec.Key, validated separately by C12) to order rows the way an index does.
package db19

import (
	"fmt"
	"sort"
	"strings"

	"github.com/apmckinlay/gsuneido/core"
	"github.com/apmckinlay/gsuneido/db19/index/ixkey"
	"github.com/apmckinlay/gsuneido/db19/meta/schema"
)

// vfTabDef is the harness's own description of a table (the schema is created from it).
type vfTabDef struct {
	name string
	cols []string
	idxs []vfIdxDef // idxs[0] is the primary key
}

type vfIdxDef struct {
	mode byte // 'k', 'i', 'u'
	cols []string
	// foreign key (only on t2.k)
	fkTable string
	fkCols  []string
	fkMode  byte
}

type vfRow []string // raw (packed) field values, len == len(cols)

func (r vfRow) clone() vfRow { return append(vfRow(nil), r...) }

func (r vfRow) eq(o vfRow) bool {
	if len(r) != len(o) {
		return false
	}
	for i := range r {
		if r[i] != o[i] {
			return false
		}
	}
	return true
}

func (r vfRow) String() string {
	var sb strings.Builder
	sb.WriteString("[")
	for i, f := range r {
		if i > 0 {
			sb.WriteString(" ")
		}
		sb.WriteString(vfShow(f))
	}
	sb.WriteString("]")
	return sb.String()
}

// vfShow renders a packed field for witnesses
func vfShow(f string) string {
	if f == "" {
		return `""`
	}
	var s string
	func() {
		defer func() {
			if e := recover(); e != nil {
				s = fmt.Sprintf("%q", f)
			}
		}()
		s = core.Unpack(f).String()
	}()
	return s
}

func vfRec(row vfRow) core.Record {
	var rb core.RecordBuilder
	for _, f := range row {
		rb.AddRaw(f)
	}
	return rb.Trim().Build() // as SuRecord.ToRecord does: trailing empty fields are not stored
}

func vfRowOf(rec core.Record, ncols int) vfRow {
	row := make(vfRow, ncols)
	for i := range row {
		row[i] = rec.GetRaw(i)
	}
	return row
}

// vfSchema holds per table the definition and the key specs of the base indexes.
type vfSchema struct {
	defs  map[string]*vfTabDef
	specs map[string][]ixkey.Spec // per table, per base index
	order []string
}

func (sc *vfSchema) key(table string, idx int, row vfRow) string {
	return sc.specs[table][idx].Key(vfRec(row))
}

func (sc *vfSchema) colIdx(table, col string) int {
	for i, c := range sc.defs[table].cols {
		if c == col {
			return i
		}
	}
	panic("vf: no column " + col + " in " + table)
}

// vfModel is the database state: table -> primary key -> row
type vfModel struct {
	sc   *vfSchema
	tabs map[string]map[string]vfRow
}

func vfNewModel(sc *vfSchema) *vfModel {
	m := &vfModel{sc: sc, tabs: map[string]map[string]vfRow{}}
	for _, t := range sc.order {
		m.tabs[t] = map[string]vfRow{}
	}
	return m
}

func (m *vfModel) clone() *vfModel {
	c := &vfModel{sc: m.sc, tabs: make(map[string]map[string]vfRow, len(m.tabs))}
	for t, rows := range m.tabs {
		cr := make(map[string]vfRow, len(rows))
		for k, r := range rows {
			cr[k] = r // rows are immutable once stored
		}
		c.tabs[t] = cr
	}
	return c
}

// digest is a canonical serialization of the whole logical database
func (m *vfModel) digest() string {
	var sb strings.Builder
	for _, t := range m.sc.order {
		sb.WriteString(t)
		sb.WriteString("{")
		rows := m.tabs[t]
		keys := make([]string, 0, len(rows))
		for k := range rows {
			keys = append(keys, k)
		}
		sort.Strings(keys)
		for _, k := range keys {
			for _, f := range rows[k] {
				fmt.Fprintf(&sb, "%d:%s,", len(f), f)
			}
			sb.WriteString(";")
		}
		sb.WriteString("}")
	}
	return sb.String()
}

// sorted returns the rows of a table ordered by the key of base index idx
func (m *vfModel) sorted(table string, idx int) (keys []string, rows []vfRow) {
	type kr struct {
		k string
		r vfRow
	}
	list := make([]kr, 0, len(m.tabs[table]))
	for _, r := range m.tabs[table] {
		list = append(list, kr{m.sc.key(table, idx, r), r})
	}
	sort.Slice(list, func(i, j int) bool { return list[i].k < list[j].k })
	for _, x := range list {
		keys = append(keys, x.k)
		rows = append(rows, x.r)
	}
	return
}

func (m *vfModel) lookup(table string, idx int, key string) vfRow {
	if idx == 0 {
		return m.tabs[table][key]
	}
	for _, r := range m.tabs[table] {
		if m.sc.key(table, idx, r) == key {
			return r
		}
	}
	return nil
}

// scan returns the rows with org <= key < end in index order (reversed if rev)
func (m *vfModel) scan(table string, idx int, org, end string, rev bool) []vfRow {
	keys, rows := m.sorted(table, idx)
	var out []vfRow
	for i, k := range keys {
		if org <= k && k < end {
			out = append(out, rows[i])
		}
	}
	if rev {
		for i, j := 0, len(out)-1; i < j; i, j = i+1, j-1 {
			out[i], out[j] = out[j], out[i]
		}
	}
	return out
}

const (
	vfOK       = ""
	vfDup      = "dup"
	vfFkBlock  = "fkblock"
	vfDead     = "dead" // transaction aborted / ended
	vfNotFound = "notfound"
	vfAbort    = "abort" // refused inside a cascade: foreign key error and the transaction is aborted
)

func allEmpty(row vfRow, sc *vfSchema, table string, cols []string) bool {
	for _, c := range cols {
		if row[sc.colIdx(table, c)] != "" {
			return false
		}
	}
	return true
}

func sameCols(a, b vfRow, sc *vfSchema, table string, cols []string) bool {
	for _, c := range cols {
		i := sc.colIdx(table, c)
		if a[i] != b[i] {
			return false
		}
	}
	return true
}

// dupOf reports whether row would duplicate a key / unique value of another row
// (excluding the row stored under exceptPK).
func (m *vfModel) dupOf(table string, row vfRow, exceptPK string) bool {
	def := m.sc.defs[table]
	for _, ix := range def.idxs {
		if ix.mode == 'i' {
			continue
		}
		if ix.mode == 'u' && allEmpty(row, m.sc, table, ix.cols) {
			continue // empty unique values may repeat
		}
		for pk, r := range m.tabs[table] {
			if pk == exceptPK {
				continue
			}
			if sameCols(r, row, m.sc, table, ix.cols) { // for key() (no columns) any other row collides
				return true
			}
		}
	}
	return false
}

// fkMissing reports whether a non-empty foreign key value of row has no target
func (m *vfModel) fkMissing(table string, row vfRow) bool {
	def := m.sc.defs[table]
	for _, ix := range def.idxs {
		if ix.fkTable == "" || allEmpty(row, m.sc, table, ix.cols) {
			continue
		}
		found := false
		for _, tr := range m.tabs[ix.fkTable] {
			match := true
			for j, c := range ix.cols {
				if row[m.sc.colIdx(table, c)] != tr[m.sc.colIdx(ix.fkTable, ix.fkCols[j])] {
					match = false
					break
				}
			}
			if match {
				found = true
				break
			}
		}
		if !found {
			return true
		}
	}
	return false
}

// fkMissingIx: like fkMissing for one foreign key index
func (m *vfModel) fkMissingIx(table string, ix vfIdxDef, row vfRow) bool {
	if ix.fkTable == "" || allEmpty(row, m.sc, table, ix.cols) {
		return false
	}
	for _, tr := range m.tabs[ix.fkTable] {
		match := true
		for j, c := range ix.cols {
			if row[m.sc.colIdx(table, c)] != tr[m.sc.colIdx(ix.fkTable, ix.fkCols[j])] {
				match = false
				break
			}
		}
		if match {
			return false
		}
	}
	return true
}

// referrers returns, for a target row, the referencing (table, index def, primary keys)
type vfRef struct {
	table string
	ix    vfIdxDef
	pks   []string
}

func (m *vfModel) referrers(table string, row vfRow) []vfRef {
	var out []vfRef
	for _, st := range m.sc.order {
		for _, ix := range m.sc.defs[st].idxs {
			if ix.fkTable != table {
				continue
			}
			ref := vfRef{table: st, ix: ix}
			for pk, sr := range m.tabs[st] {
				if allEmpty(sr, m.sc, st, ix.cols) {
					continue
				}
				match := true
				for j, c := range ix.cols {
					if sr[m.sc.colIdx(st, c)] != row[m.sc.colIdx(table, ix.fkCols[j])] {
						match = false
						break
					}
				}
				if match {
					ref.pks = append(ref.pks, pk)
				}
			}
			sort.Strings(ref.pks)
			out = append(out, ref)
		}
	}
	return out
}

// output applies an insert; returns the set of acceptable outcomes (one or more of "", dup, fkblock)
func (m *vfModel) output(table string, row vfRow) []string {
	var fails []string
	if m.dupOf(table, row, "\xff\xffnone") {
		fails = append(fails, vfDup)
	}
	if m.fkMissing(table, row) {
		fails = append(fails, vfFkBlock)
	}
	if len(fails) > 0 {
		return fails
	}
	m.tabs[table][m.sc.key(table, 0, row)] = row.clone()
	return []string{vfOK}
}

func (m *vfModel) fkColsChanged(table string, ix vfIdxDef, oldr, newr vfRow) bool {
	return !sameCols(oldr, newr, m.sc, table, ix.cols)
}

// update applies an update of the row stored under pk.
// Outcomes: "" ok; dup / fkblock: refused, nothing changed, transaction still usable;
// abort: a cascaded (nested) change was refused, the operation fails with a foreign key
// error AND the whole transaction is aborted (its partial work must never be committed).
func (m *vfModel) update(table string, pk string, newr vfRow) []string {
	work := m.clone()
	res := work.updateRec(table, pk, newr, 0)
	if len(res) == 1 && res[0] == vfOK {
		m.tabs = work.tabs
	}
	return res
}

func (m *vfModel) updateRec(table string, pk string, newr vfRow, depth int) []string {
	oldr := m.tabs[table][pk]
	if oldr == nil {
		return []string{vfNotFound}
	}
	if oldr.eq(newr) {
		return []string{vfOK}
	}
	var fails []string
	if m.dupOf(table, newr, pk) {
		fails = append(fails, vfDup)
	}
	// source side: a changed foreign key value needs a target (not re-checked for cascaded rows)
	def := m.sc.defs[table]
	if depth == 0 {
		for _, ix := range def.idxs {
			if ix.fkTable != "" && m.fkColsChanged(table, ix, oldr, newr) {
				if m.fkMissingIx(table, ix, newr) {
					fails = append(fails, vfFkBlock)
					break
				}
			}
		}
	}
	// target side: changing referenced columns is blocked unless the foreign key cascades updates
	var cascades []vfRef
	for _, ref := range m.referrers(table, oldr) {
		changed := false
		for _, c := range ref.ix.fkCols {
			i := m.sc.colIdx(table, c)
			if oldr[i] != newr[i] {
				changed = true
			}
		}
		if !changed || len(ref.pks) == 0 {
			continue
		}
		if ref.ix.fkMode&schema.CascadeUpdates == 0 {
			fails = append(fails, vfFkBlock)
		} else {
			cascades = append(cascades, ref)
		}
	}
	if len(fails) > 0 {
		if depth > 0 {
			return []string{vfAbort}
		}
		return fails
	}
	delete(m.tabs[table], pk)
	m.tabs[table][m.sc.key(table, 0, newr)] = newr.clone()
	for _, ref := range cascades {
		for _, spk := range ref.pks {
			cur := m.tabs[ref.table][spk]
			if cur == nil {
				continue
			}
			sr := cur.clone()
			for j, c := range ref.ix.cols {
				sr[m.sc.colIdx(ref.table, c)] = newr[m.sc.colIdx(table, ref.ix.fkCols[j])]
			}
			if res := m.updateRec(ref.table, spk, sr, depth+1); res[0] != vfOK {
				return []string{vfAbort}
			}
		}
	}
	return []string{vfOK}
}

// delete applies a delete of the row stored under pk (outcomes as for update)
func (m *vfModel) delete(table string, pk string) []string {
	work := m.clone()
	res := work.deleteRec(table, pk, 0)
	if len(res) == 1 && res[0] == vfOK {
		m.tabs = work.tabs
	}
	return res
}

func (m *vfModel) deleteRec(table string, pk string, depth int) []string {
	oldr := m.tabs[table][pk]
	if oldr == nil {
		if depth > 0 {
			return []string{vfOK}
		}
		return []string{vfNotFound}
	}
	var cascades []vfRef
	for _, ref := range m.referrers(table, oldr) {
		if len(ref.pks) == 0 {
			continue
		}
		if ref.ix.fkMode&schema.CascadeDeletes == 0 {
			if depth > 0 {
				return []string{vfAbort}
			}
			return []string{vfFkBlock}
		}
		cascades = append(cascades, ref)
	}
	delete(m.tabs[table], pk)
	for _, ref := range cascades {
		for _, spk := range ref.pks {
			if res := m.deleteRec(ref.table, spk, depth+1); res[0] != vfOK {
				return []string{vfAbort}
			}
		}
	}
	return []string{vfOK}
}

// invariants checks key / unique / foreign key rules of a state; returns descriptions
func (m *vfModel) invariants() (dups, orphans []string) {
	for _, t := range m.sc.order {
		def := m.sc.defs[t]
		for _, ix := range def.idxs {
			if ix.mode == 'i' {
				continue
			}
			seen := map[string]string{}
			for pk, r := range m.tabs[t] {
				if ix.mode == 'u' && allEmpty(r, m.sc, t, ix.cols) {
					continue
				}
				var sb strings.Builder
				for _, c := range ix.cols {
					f := r[m.sc.colIdx(t, c)]
					fmt.Fprintf(&sb, "%d:%s,", len(f), f)
				}
				if other, ok := seen[sb.String()]; ok {
					dups = append(dups, fmt.Sprintf("%s %c(%s): rows %q and %q share the value %s", t, ix.mode, strings.Join(ix.cols, ","), other, pk, r))
				}
				seen[sb.String()] = pk
			}
		}
		for _, r := range m.tabs[t] {
			if m.fkMissing(t, r) {
				orphans = append(orphans, fmt.Sprintf("%s row %s has no foreign key target", t, r))
			}
		}
	}
	return
}
