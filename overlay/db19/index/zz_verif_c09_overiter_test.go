// C09 Index iteration returns exactly the live keys in order.
//
// In-package monitor (needs Overlay{bt,layers,mut}): random layer stacks - a stored btree (Builder, small split
// factors), a base ixbuf, 0-4 transaction ixbufs and a mutable ixbuf - are generated from a model so that every
// layer entry is valid with respect to the layers below. Random programs of Range / SkipScan / Next / Prev /
// Rewind, interleaved with modifications of the mutable layer and with overlay replacement (re-layering through
// Merge and Save, committing the mutable layer, new layers from other transactions), are run on OverIter (and
// on SimpleIter, btree.Iterator and ixbuf.Iterator where the stack allows) and judged by a sorted-slice model.
package index

import (
	"fmt"
	"hash/fnv"
	"math/rand/v2"
	"os"
	"sort"
	"strings"
	"sync/atomic"
	"testing"
	"time"

	"github.com/apmckinlay/gsuneido/db19/index/btree"
	"github.com/apmckinlay/gsuneido/db19/index/iface"
	"github.com/apmckinlay/gsuneido/db19/index/ixbuf"
	"github.com/apmckinlay/gsuneido/db19/stor"
	vk "github.com/apmckinlay/gsuneido/util/verifkit"
)

const vfC09Max = "\xff\xff\xff\xff\xff\xff\xff\xff"
const vfC09Sep = "\x00\x00"

// ---------------------------------------------------------------------------------------------------------------
// the monitor's own key codec (documented format: fields joined by 0,0, 0 -> 0,1, trailing empty fields trimmed)

func vfC09Escape(f string) string {
	if strings.IndexByte(f, 0) < 0 {
		return f
	}
	var sb strings.Builder
	for i := 0; i < len(f); i++ {
		sb.WriteByte(f[i])
		if f[i] == 0 {
			sb.WriteByte(1)
		}
	}
	return sb.String()
}

func vfC09Join(fs []string) string {
	var sb strings.Builder
	for i, f := range fs {
		if i > 0 {
			sb.WriteString(vfC09Sep)
		}
		sb.WriteString(vfC09Escape(f))
	}
	return sb.String()
}

func vfC09Trim(fs []string) []string {
	n := len(fs)
	for n > 0 && fs[n-1] == "" {
		n--
	}
	return fs[:n]
}

// vfC09Parse splits an encoded key into its (still escaped) fields, scanning left to right
func vfC09Parse(key string) []string {
	if key == "" {
		return nil
	}
	var fs []string
	start := 0
	for i := 0; i < len(key); {
		if key[i] == 0 && i+1 < len(key) {
			if key[i+1] == 0 {
				fs = append(fs, key[start:i])
				i += 2
				start = i
				continue
			}
			i += 2 // escaped zero
			continue
		}
		i++
	}
	return append(fs, key[start:])
}

// vfC09PrefixSuffix: the prefix is the first n fields (trailing empty ones trimmed), the suffix the rest
func vfC09PrefixSuffix(key string, n int) (string, string) {
	fs := vfC09Parse(key) // escaped fields
	if len(fs) <= n {
		return strings.Join(vfC09Trim(fs), vfC09Sep), ""
	}
	return strings.Join(vfC09Trim(fs[:n]), vfC09Sep), strings.Join(fs[n:], vfC09Sep)
}

// ---------------------------------------------------------------------------------------------------------------
// world: a layer stack plus its model

type vfC09Tran struct {
	ov    *Overlay
	reads [][2]string
	num   int
}

func (t *vfC09Tran) GetIndexI(string, int) *Overlay { return t.ov }
func (t *vfC09Tran) Read(_ string, _ int, from, to string) {
	t.reads = append(t.reads, [2]string{from, to})
}
func (t *vfC09Tran) Num() int { return t.num }

type vfC09World struct {
	rep       *vk.Report
	r         *rand.Rand
	nf        int
	univ      []string          // key universe, sorted
	live      map[string]uint64 // model: live keys -> offset
	touched   map[string]bool   // keys that have an entry in some layer (or the btree)
	ov        *Overlay
	st        *stor.Stor
	nextOff   uint64
	btreeOnly bool
	nbt       int      // keys bulk-loaded into the btree
	sorted    []string // cache of sorted live keys
	dirty     bool
	h         interface{ Write([]byte) (int, error) }
}

var vfC09Fields = []string{"", "", "a", "a\x00", "b", "c", "\x03\x81", "d"}

func (w *vfC09World) liveSorted() []string {
	if w.dirty || w.sorted == nil {
		w.sorted = w.sorted[:0]
		for k := range w.live {
			w.sorted = append(w.sorted, k)
		}
		sort.Strings(w.sorted)
		w.dirty = false
	}
	return w.sorted
}

// op applies one valid random change to ib and the model
func (w *vfC09World) op(ib *ixbuf.T) string {
	k := w.univ[w.r.IntN(len(w.univ))]
	w.touched[k] = true
	w.dirty = true
	off, isLive := w.live[k]
	var desc string
	switch {
	case !isLive:
		w.nextOff++
		w.live[k] = w.nextOff
		ib.Insert(k, w.nextOff)
		desc = fmt.Sprintf("+%q", k)
	case w.r.IntN(2) == 0:
		w.nextOff++
		w.live[k] = w.nextOff
		ib.Update(k, w.nextOff)
		desc = fmt.Sprintf("=%q", k)
	default:
		delete(w.live, k)
		ib.Delete(k, off)
		desc = fmt.Sprintf("-%q", k)
	}
	fmt.Fprintf(w.h, "%s,", desc)
	return desc
}

func vfC09NewWorld(rep *vk.Report, r *rand.Rand, h interface{ Write([]byte) (int, error) }, btreeOnly bool) *vfC09World {
	w := &vfC09World{rep: rep, r: r, live: map[string]uint64{}, touched: map[string]bool{}, h: h}
	w.nf = 2 + r.IntN(2)
	// universe: a random subset of the tuples over the field pool
	nu := 3 + r.IntN(60)
	seen := map[string]bool{}
	for tries := 0; len(w.univ) < nu && tries < 10*nu; tries++ {
		fs := make([]string, w.nf)
		for i := range fs {
			fs[i] = vfC09Fields[r.IntN(len(vfC09Fields))]
		}
		if r.IntN(6) == 0 { // share the prefix of an existing key
			if len(w.univ) > 0 {
				o := vfC09Parse(w.univ[r.IntN(len(w.univ))])
				for i := 0; i < len(o) && i < w.nf-1; i++ {
					fs[i] = strings.ReplaceAll(o[i], "\x00\x01", "\x00")
				}
			}
		}
		k := vfC09Join(vfC09Trim(fs))
		if !seen[k] {
			seen[k] = true
			w.univ = append(w.univ, k)
		}
	}
	sort.Strings(w.univ)
	fmt.Fprintf(h, "U%q|", w.univ)
	// stored btree from a subset
	w.st = stor.HeapStor(8192)
	w.st.Alloc(1)
	b := btree.NewBuilder(w.st)
	pB := []float64{0, 0.3, 0.6, 1}[r.IntN(4)]
	if btreeOnly {
		pB = []float64{0.5, 1}[r.IntN(2)]
	}
	for _, k := range w.univ {
		if r.Float64() < pB {
			w.nextOff++
			b.Add(k, w.nextOff)
			w.live[k] = w.nextOff
			w.touched[k] = true
			w.nbt++
			fmt.Fprintf(h, "B%q,", k)
		}
	}
	bt := b.Finish()
	w.dirty = true
	if btreeOnly {
		w.btreeOnly = true
		w.ov = &Overlay{bt: bt, layers: []*ixbuf.T{{}}}
		return w
	}
	nl := 1 + r.IntN(5)
	layers := make([]*ixbuf.T, nl)
	for i := range layers {
		layers[i] = &ixbuf.T{}
		n := r.IntN(10)
		if i == 0 && r.IntN(2) == 0 {
			n = r.IntN(40)
		}
		for j := 0; j < n; j++ {
			w.op(layers[i])
		}
		h.Write([]byte{'|'})
	}
	w.ov = &Overlay{bt: bt, layers: layers}
	if r.IntN(4) > 0 {
		w.ov.mut = &ixbuf.T{}
		for j := r.IntN(6); j > 0; j-- {
			w.op(w.ov.mut)
		}
	}
	return w
}

// replace builds a new overlay: same content re-layered (merge / save) or new content (commit mut, foreign layer)
func (w *vfC09World) replace() string {
	ov := w.ov
	r := w.r
	switch r.IntN(5) {
	case 0: // merge the base with the next k layers (as the merger does)
		if len(ov.layers) >= 2 {
			k := 1 + r.IntN(len(ov.layers)-1)
			mr := ixbuf.Merge(ov.layers[:k+1]...)
			layers := append([]*ixbuf.T{mr}, ov.layers[k+1:]...)
			w.ov = &Overlay{bt: ov.bt, layers: layers, mut: ov.mut}
			return fmt.Sprintf("merge%d", k)
		}
	case 1: // save the base layer into the btree (as persist does)
		if ov.layers[0].Len() > 0 {
			bt := ov.bt.MergeAndSave(ov.layers[0].Iter())
			layers := append([]*ixbuf.T{{}}, ov.layers[1:]...)
			w.ov = &Overlay{bt: bt, layers: layers, mut: ov.mut}
			return "save"
		}
	case 2: // commit: the mutable layer becomes a transaction layer, a new transaction starts
		if ov.mut != nil {
			layers := append(append([]*ixbuf.T{}, ov.layers...), ov.mut)
			w.ov = &Overlay{bt: ov.bt, layers: layers}
			if r.IntN(2) == 0 {
				w.ov.mut = &ixbuf.T{}
			}
			return "commit"
		}
	case 3: // another transaction's layer appears (only legal below an empty mutable layer)
		if ov.mut == nil || ov.mut.Len() == 0 {
			nl := &ixbuf.T{}
			for j := 1 + r.IntN(6); j > 0; j-- {
				w.op(nl)
			}
			layers := append(append([]*ixbuf.T{}, ov.layers...), nl)
			w.ov = &Overlay{bt: ov.bt, layers: layers, mut: ov.mut}
			return "foreign-layer"
		}
	}
	// same layers, new Overlay value (a new transaction on an unchanged index)
	w.ov = &Overlay{bt: ov.bt, layers: ov.layers, mut: ov.mut}
	return "same"
}

// ---------------------------------------------------------------------------------------------------------------
// iterator adapters

type vfC09Iter interface {
	Next()
	Prev()
	Rewind()
	Range(Range)
	SkipScan(Range, Range, int)
	Eof() bool
	HasCur() bool
	Cur() (string, uint64)
}

type vfC09Over struct {
	*OverIter
	t *vfC09Tran
}

func (o *vfC09Over) Next() { o.OverIter.Next(o.t) }
func (o *vfC09Over) Prev() { o.OverIter.Prev(o.t) }

type vfC09Simple struct {
	IndexIter
	t *vfC09Tran
}

func (o *vfC09Simple) Next() { o.IndexIter.Next(o.t) }
func (o *vfC09Simple) Prev() { o.IndexIter.Prev(o.t) }

// ---------------------------------------------------------------------------------------------------------------
// model iterator

const (
	vfC09Rewound = iota
	vfC09Within
	vfC09Eof
)

type vfC09Model struct {
	state   int
	cur     string
	skip    int // 0 = plain range
	rng     Range
	sufRng  Range
	lastDir int
}

func (m *vfC09Model) matches(k string) bool {
	if m.skip == 0 {
		return m.rng.Org <= k && k < m.rng.End
	}
	p, s := vfC09PrefixSuffix(k, m.skip)
	return m.rng.Org <= p && p < m.rng.End && m.sufRng.Org <= s && s < m.sufRng.End
}

// step returns the expected (found, key) of a Next (dir=+1) or Prev (dir=-1) over the sorted live keys
func (m *vfC09Model) step(keys []string, dir int) (bool, string) {
	if m.state == vfC09Eof {
		return false, ""
	}
	if dir > 0 {
		i := 0
		if m.state == vfC09Within {
			i = sort.SearchStrings(keys, m.cur)
			if i < len(keys) && keys[i] == m.cur {
				i++
			}
		}
		for ; i < len(keys); i++ {
			if m.matches(keys[i]) {
				return true, keys[i]
			}
		}
		return false, ""
	}
	i := len(keys) - 1
	if m.state == vfC09Within {
		i = sort.SearchStrings(keys, m.cur) - 1
	}
	for ; i >= 0; i-- {
		if m.matches(keys[i]) {
			return true, keys[i]
		}
	}
	return false, ""
}

// ---------------------------------------------------------------------------------------------------------------

func vfC09Bound(w *vfC09World) string {
	r := w.r
	switch r.IntN(8) {
	case 0:
		return ""
	case 1:
		return vfC09Max
	}
	k := w.univ[r.IntN(len(w.univ))]
	switch r.IntN(5) {
	case 0:
		return k + "\x00"
	case 1:
		if len(k) > 0 {
			return k[:len(k)-1]
		}
	case 2:
		return k + "\x00\x00"
	}
	return k
}

// vfC09PartBound makes a skip-scan bound the way the query layer does: the encoding of 0..max field values taken
// from the prefix (or suffix) fields of a key of the universe or from the field pool, optionally followed by
// ixkey.Max as a last component (an inclusive end / exclusive start), trailing empty fields trimmed.
func vfC09PartBound(w *vfC09World, n int, prefix bool) string {
	r := w.r
	switch r.IntN(7) {
	case 0:
		return ""
	case 1:
		return vfC09Max
	}
	maxf := n
	if !prefix {
		maxf = w.nf - n
	}
	src := vfC09Parse(w.univ[r.IntN(len(w.univ))])
	for len(src) < w.nf {
		src = append(src, "")
	}
	if prefix {
		src = src[:n]
	} else {
		src = src[n:]
	}
	nfl := 1 + r.IntN(maxf)
	fs := make([]string, 0, nfl+1)
	for i := 0; i < nfl; i++ {
		if r.IntN(4) == 0 {
			fs = append(fs, vfC09Escape(vfC09Fields[r.IntN(len(vfC09Fields))]))
		} else {
			fs = append(fs, src[i]) // already escaped
		}
	}
	if r.IntN(3) == 0 {
		fs = append(fs, vfC09Max)
	}
	return strings.Join(vfC09Trim(fs), vfC09Sep)
}

// program runs one random iterator program. kind: over / simple / btree / ixbuf
func vfC09Program(w *vfC09World, kind string, pi int, ident string) {
	rep, r := w.rep, w.r
	tran := &vfC09Tran{ov: w.ov}
	var it vfC09Iter
	var oi *OverIter
	var rawIb *ixbuf.T
	switch kind {
	case "over":
		oi = NewOverIter("tbl", 0)
		it = &vfC09Over{oi, tran}
	case "simple":
		si := NewSimpleIter(tran, w.ov)
		if si == nil {
			rep.Violate("C09/simpleiter-not-offered-for-btree-only-overlay", ident, "")
			return
		}
		it = &vfC09Simple{si, tran}
	case "btree":
		it = w.ov.bt.Iterator()
	case "ixbuf": // a single buffer holding exactly the live keys as adds
		rawIb = &ixbuf.T{}
		for k, o := range w.live {
			rawIb.Insert(k, o)
		}
		it = rawIb.Iterator()
	}
	m := &vfC09Model{state: vfC09Rewound, rng: iface.All}
	canModify := kind == "over" && !w.btreeOnly
	nsteps := 10 + r.IntN(40)
	var trace []string
	fail := func(class, what string, detail map[string]any) {
		if detail == nil {
			detail = map[string]any{}
		}
		detail["program"] = strings.Join(trace, " ")
		detail["live_keys"] = fmt.Sprintf("%q", w.liveSorted())
		if kind == "over" || kind == "simple" {
			detail["overlay_layers"] = len(w.ov.layers)
			detail["has_mut"] = w.ov.mut != nil
		}
		rep.Violate(class, ident+" "+what, detail)
	}
	modifiedSince, replacedSince := false, false
	for s := 0; s < nsteps; s++ {
		x := r.IntN(100)
		switch {
		case x < 60: // Next / Prev
			dir := +1
			name := "next"
			// keep going the same way most of the time so that runs (and the fast path) happen
			if (m.lastDir < 0 && r.IntN(4) > 0) || (m.lastDir >= 0 && r.IntN(4) == 0) {
				dir, name = -1, "prev"
			}
			keys := w.liveSorted()
			found, wantKey := m.step(keys, dir)
			trace = append(trace, name)
			// observations
			if m.state == vfC09Within && m.lastDir != 0 && m.lastDir != dir {
				rep.Count("direction_switches", 1)
			}
			if modifiedSince {
				rep.Count("steps_after_mut_modified", 1)
			}
			if replacedSince {
				rep.Count("steps_after_overlay_replaced", 1)
			}
			if oi != nil && oi.overlay == tran.ov && oi.lastDir == vfC09Dir(dir) && oi.fastIdx >= 0 && oi.state == within &&
				!oi.iters[len(oi.iters)-1].Modified() {
				rep.Count("fast_path_steps", 1)
			}
			nreads := len(tran.reads)
			prevState, prevCur := m.state, m.cur
			vfC09Current.Store(ident + " step " + fmt.Sprint(s) + ": " + strings.Join(trace, " ") + " | live " + fmt.Sprintf("%q", keys))
			var p any
			if dir > 0 {
				p, _ = vk.Catch(it.Next)
			} else {
				p, _ = vk.Catch(it.Prev)
			}
			if p != nil {
				fail("C09/"+kind+"/panic-in-"+name, fmt.Sprintf("step %d", s), map[string]any{"panic": fmt.Sprint(p)})
				return
			}
			vfC09Progress.Add(1)
			rep.Count("steps", 1)
			rep.Count("steps_"+kind, 1)
			if m.skip != 0 {
				rep.Count("steps_skipscan", 1)
				if found && m.state != vfC09Eof {
					rep.Count("steps_skipscan_found", 1)
				}
			}
			if found && m.state != vfC09Eof {
				rep.Count("steps_found", 1)
			}
			modifiedSince, replacedSince = false, false
			if m.state != vfC09Eof {
				if found {
					m.state, m.cur = vfC09Within, wantKey
				} else {
					m.state = vfC09Eof
				}
				m.lastDir = dir
			}
			// compare
			gotEof, gotHas := it.Eof(), it.HasCur()
			if gotEof != (m.state == vfC09Eof) || gotHas != (m.state == vfC09Within) {
				cl := "C09/" + kind + "/eof-wrong"
				d := map[string]any{"eof": gotEof, "hascur": gotHas, "want_key": fmt.Sprintf("%q", wantKey), "want_eof": m.state == vfC09Eof}
				if !gotEof {
					k, o := it.Cur()
					d["got_key"], d["got_off"] = fmt.Sprintf("%q", k), o
					cl = "C09/" + kind + "/returns-key-past-the-end"
				} else {
					cl = "C09/" + kind + "/misses-live-key"
				}
				fail(cl, fmt.Sprintf("step %d %s", s, name), d)
				return
			}
			if m.state == vfC09Within {
				var gk string
				var goff uint64
				if p, _ := vk.Catch(func() { gk, goff = it.Cur() }); p != nil {
					fail("C09/"+kind+"/panic-in-cur", fmt.Sprintf("step %d %s", s, name), map[string]any{"panic": fmt.Sprint(p)})
					return
				}
				if gk != m.cur {
					cl := "C09/" + kind + "/wrong-key"
					if _, isLive := w.live[gk]; !isLive {
						cl = "C09/" + kind + "/returns-deleted-or-absent-key"
					} else if !m.matches(gk) {
						cl = "C09/" + kind + "/returns-key-outside-range"
					} else if (dir > 0 && gk > m.cur) || (dir < 0 && gk < m.cur) {
						cl = "C09/" + kind + "/skips-live-key"
					} else {
						cl = "C09/" + kind + "/goes-backwards-or-repeats"
					}
					fail(cl, fmt.Sprintf("step %d %s", s, name), map[string]any{"got": fmt.Sprintf("%q", gk), "want": fmt.Sprintf("%q", m.cur)})
					return
				}
				if goff != w.live[gk] {
					fail("C09/"+kind+"/wrong-offset", fmt.Sprintf("step %d %s key %q", s, name, gk), map[string]any{"got": goff, "want": w.live[gk]})
					return
				}
				// tombstones / shadowed entries passed over
				if prevState == vfC09Within {
					lo, hi := prevCur, m.cur
					if lo > hi {
						lo, hi = hi, lo
					}
					for k := range w.touched {
						if lo < k && k < hi {
							if _, isLive := w.live[k]; !isLive {
								rep.Count("steps_passing_dead_entries", 1)
								break
							}
						}
					}
				}
			}
			if oi != nil {
				if p, _ := vk.Catch(oi.Check); p != nil {
					fail("C09/over/overiter-check-fails", fmt.Sprintf("step %d %s", s, name), map[string]any{"panic": fmt.Sprint(p)})
					return
				}
			}
			// read tracking (plain ranges): the stretch that was passed over must have been reported
			if oi != nil && m.skip == 0 && prevState != vfC09Eof {
				var a, b string
				if dir > 0 {
					a = m.rng.Org
					if prevState == vfC09Within {
						a = prevCur
					}
					b = m.rng.End
					if m.state == vfC09Within {
						b = m.cur
					}
				} else {
					b = m.rng.End
					if prevState == vfC09Within {
						b = prevCur
					}
					a = m.rng.Org
					if m.state == vfC09Within {
						a = m.cur
					}
				}
				covered := a > b
				for _, rd := range tran.reads[nreads:] {
					if rd[0] <= a && b <= rd[1] {
						covered = true
					}
				}
				rep.Count("read_ranges_checked", 1)
				if !covered {
					fail("C09/over/read-range-not-reported", fmt.Sprintf("step %d %s", s, name),
						map[string]any{"passed_from": fmt.Sprintf("%q", a), "passed_to": fmt.Sprintf("%q", b), "reads": fmt.Sprintf("%q", tran.reads[nreads:])})
					return
				}
			}
		case x < 66:
			trace = append(trace, "rewind")
			it.Rewind()
			m.state, m.lastDir = vfC09Rewound, 0
		case x < 74:
			org, end := vfC09Bound(w), vfC09Bound(w)
			if org > end && r.IntN(6) > 0 {
				org, end = end, org
			}
			trace = append(trace, fmt.Sprintf("range[%q,%q)", org, end))
			it.Range(Range{Org: org, End: end})
			m.state, m.lastDir, m.skip, m.rng = vfC09Rewound, 0, 0, Range{Org: org, End: end}
			rep.Count("ranges_set", 1)
		case x < 82:
			n := 1 + r.IntN(w.nf-1)
			pr := iface.All
			if r.IntN(2) == 0 {
				pr = Range{Org: vfC09PartBound(w, n, true), End: vfC09PartBound(w, n, true)}
				if pr.Org > pr.End {
					pr.Org, pr.End = pr.End, pr.Org
				}
				if pr.Org == pr.End { // a point: the group of that prefix
					pr.End = pr.Org + vfC09Sep + vfC09Max
				}
			}
			sr := Range{Org: vfC09PartBound(w, n, false), End: vfC09PartBound(w, n, false)}
			if sr.Org > sr.End {
				sr.Org, sr.End = sr.End, sr.Org
			}
			if sr.Org == sr.End || r.IntN(3) == 0 { // equality on the suffix (the usual use): point converted to a range
				sr.End = sr.Org + vfC09Sep + vfC09Max
			}
			trace = append(trace, fmt.Sprintf("skipscan(%d,[%q,%q),[%q,%q))", n, pr.Org, pr.End, sr.Org, sr.End))
			if p, _ := vk.Catch(func() { it.SkipScan(pr, sr, n) }); p != nil {
				fail("C09/"+kind+"/panic-in-skipscan", fmt.Sprintf("step %d", s), map[string]any{"panic": fmt.Sprint(p)})
				return
			}
			m.state, m.lastDir, m.skip, m.rng, m.sufRng = vfC09Rewound, 0, n, pr, sr
			rep.Count("skipscans_set", 1)
		case x < 92:
			if canModify && w.ov.mut != nil && tran.ov == w.ov {
				var ds []string
				for j := 1 + r.IntN(3); j > 0; j-- {
					ds = append(ds, w.op(w.ov.mut))
				}
				trace = append(trace, "mut{"+strings.Join(ds, " ")+"}")
				modifiedSince = true
				rep.Count("mut_modifications", 1)
			}
		default:
			if canModify {
				what := w.replace()
				tran = &vfC09Tran{ov: w.ov, num: tran.num + 1}
				it.(*vfC09Over).t = tran
				trace = append(trace, "replace:"+what)
				replacedSince = true
				rep.Count("overlay_replacements", 1)
				rep.Seen("replacement_kinds", what)
			}
		}
	}
	if rep.WantSample() && pi == 0 && kind == "over" {
		rep.Sample(map[string]any{"case": ident, "universe": len(w.univ), "live": len(w.live), "program": vk.Trunc(strings.Join(trace, " "), 600)})
	}
}

// progress watchdog: a step normally takes microseconds; if no step finishes for 60 s of real time the iterator
// is looping. Real time is used only to notice that; the verdict is "this step did not terminate".
var vfC09Progress atomic.Int64
var vfC09Current atomic.Value // string: what is running

func vfC09Watchdog(rep *vk.Report) {
	go func() {
		last, since := int64(-1), time.Now()
		for {
			time.Sleep(2 * time.Second)
			if p := vfC09Progress.Load(); p != last {
				last, since = p, time.Now()
			} else if time.Since(since) > 60*time.Second {
				cur, _ := vfC09Current.Load().(string)
				rep.Violate("C09/step-does-not-terminate", vk.Trunc(cur, 1500), "no iterator step finished for 60 s")
				rep.Finish()
				os.Exit(3)
			}
		}
	}()
}

func vfC09Dir(d int) dir {
	if d > 0 {
		return next
	}
	return prev
}

func TestVerifC09(t *testing.T) {
	rep := vk.NewReport("C09",
		"a case = one world: 3-62 composite keys (2-3 fields from {\"\", a, a\\0, b, c, packed int, d}, shared prefixes) split over a stored btree (Builder, split 3-8), a base ixbuf, 0-4 transaction "+
			"ixbufs and (3 of 4) a mutable ixbuf, every layer entry valid w.r.t. the layers below; on it 8 programs of 10-49 steps from {Next/Prev (runs and direction switches), Rewind, Range, "+
			"SkipScan (prefix range or all, suffix range or equality), modify the mutable layer, replace the overlay (merge k layers, save base into the btree, commit the mutable layer, foreign "+
			"layer, same layers)} on OverIter; btree-only worlds also run SimpleIter, btree.Iterator and ixbuf.Iterator programs; non-trivial = the world has at least 2 non-empty layers (btree counts); "+
			"distinct by universe, layer contents and op stream",
		"a case never generates an invalid layer (add over a live key, update/delete of an absent key)",
		"Cur is only read directly after a Next/Prev; skip-scan prefix/suffix are computed by the monitor's own key parser",
		"read tracking is only checked for plain ranges: the stretch passed over by a step must lie inside one reported read range")
	defer rep.Finish()
	vfC09Watchdog(rep)
	n := vk.N(2500, 190000)
	for ci := 0; ci < n; ci++ {
		r := vk.RandFor(9, ci)
		h := fnv.New64a()
		btreeOnly := r.IntN(6) == 0
		split := 3 + r.IntN(6)
		restore := btree.SetSplit(split)
		w := vfC09NewWorld(rep, r, h, btreeOnly)
		ident := fmt.Sprintf("case %d shard %d seed %d", ci, vk.Shard(), vk.Seed())
		rep.Case("%s universe=%d split=%d btreeOnly=%v", ident, len(w.univ), split, btreeOnly)
		nonEmpty := 0
		if w.nbt > 0 {
			nonEmpty++
		}
		for _, l := range w.ov.layers {
			if l.Len() > 0 {
				nonEmpty++
			}
		}
		if w.ov.mut != nil && w.ov.mut.Len() > 0 {
			nonEmpty++
		}
		before := rep.Violations()
		for pi := 0; pi < 8 && rep.Violations() == before; pi++ {
			kind := "over"
			if btreeOnly {
				kind = []string{"simple", "btree", "ixbuf", "over"}[pi%4]
			}
			vfC09Program(w, kind, pi, fmt.Sprintf("%s program %d (%s)", ident, pi, kind))
			rep.Count("programs", 1)
		}
		btree.SetSplit(restore)
		rep.Eval(h.Sum64(), nonEmpty >= 2)
		rep.Count("worlds", 1)
		vfC09Progress.Add(1)
	}
}
