// dbsim: drives a real db19.Database (checker goroutine, merger, merge and persist workers all running)
// with concurrent recorded transactions, observes every state transition through the verif hooks,
// and judges the recorded history offline against the plain-Go model (DESIGN.md 2.1).
package db19

import (
	"slices"
	"fmt"
	"math/rand/v2"
	"os"
	"runtime"
	"sort"
	"strings"
	"sync"
	"sync/atomic"
	"time"

	"github.com/apmckinlay/gsuneido/core"
	"github.com/apmckinlay/gsuneido/db19/index"
	"github.com/apmckinlay/gsuneido/db19/index/ixkey"
	"github.com/apmckinlay/gsuneido/db19/meta"
	"github.com/apmckinlay/gsuneido/db19/meta/schema"
	"github.com/apmckinlay/gsuneido/db19/stor"
	vk "github.com/apmckinlay/gsuneido/util/verifkit"
)

func init() {
	if MakeSuTran == nil {
		MakeSuTran = func(ut *UpdateTran) *core.SuTran { return core.NewSuTran(nil, true) }
	}
}

// ---- recorded history --------------------------------------------------------------------------

type vfOp struct {
	Kind  string // lookup scan output update delete
	Table string
	Index int
	Key   string // lookup key
	Org   string
	End   string
	Rev   bool
	Limit int
	Row   vfRow  // output / update: the new row
	PK    string // update / delete: primary key of the target row
	// observed
	Found vfRow
	Rows  []vfRow
	Eof   bool
	Err   string // "", dup, fkblock, dead, other:<msg>
}

func (o *vfOp) String() string {
	switch o.Kind {
	case "lookup":
		return fmt.Sprintf("lookup %s#%d %q -> %v", o.Table, o.Index, o.Key, o.Found)
	case "scan":
		return fmt.Sprintf("scan %s#%d [%q,%q) rev=%v limit=%d -> %v eof=%v err=%s", o.Table, o.Index, o.Org, o.End, o.Rev, o.Limit, o.Rows, o.Eof, o.Err)
	case "output":
		return fmt.Sprintf("output %s %v -> %q", o.Table, o.Row, o.Err)
	case "update":
		return fmt.Sprintf("update %s pk=%q to %v -> %q", o.Table, o.PK, o.Row, o.Err)
	case "delete":
		return fmt.Sprintf("delete %s pk=%q -> %q", o.Table, o.PK, o.Err)
	}
	return o.Kind
}

type vfTxn struct {
	Worker, Seq int
	Start, End  int // checker sequence numbers (End only valid if Committed)
	Ops         []*vfOp
	Outcome     string // "" committed; otherwise the failure text / "rolledback"
	Committed   bool
	Wrote       bool // at least one successful write op
	ReadOnly    bool // db.NewReadTran (no sequence numbers)
	Big         bool // limit-exceeding transaction, operations not recorded
	// read transactions: number of commits applied before the call / after the return
	c0, c1  int
	mustEnd int      // largest commit sequence number whose Complete() had returned success before this reader started
	Digests []string // full-database digests taken by readers
	ut      *UpdateTran
	refused string // an operation that was refused in a way that must leave the transaction dead
}

func (t *vfTxn) id() string { return fmt.Sprintf("w%d.t%d", t.Worker, t.Seq) }

func (t *vfTxn) dump() []string {
	out := []string{fmt.Sprintf("%s start=%d end=%d committed=%v outcome=%q", t.id(), t.Start, t.End, t.Committed, t.Outcome)}
	for _, o := range t.Ops {
		out = append(out, "  "+o.String())
	}
	return out
}

type vfTransition struct {
	kind    string // commit merge persist other
	digest  string
	tranEnd int // for commits
	gated   int // commits that went through while this merge/persist was held
}

// ---- profile -----------------------------------------------------------------------------------

type vfProfile struct {
	prop      string
	workers   int
	txns      int // per worker
	keys      int // key domain
	fkMode    byte
	persistMs int
	gates     bool
	admin     bool
	faults    bool
	readers   int
	maxOps    int
	abortPct  int
	bigTxn    string // "" / "write" / "read": one transaction that exceeds a limit
	yieldPct  int    // chance to yield/sleep between ops
	file      bool   // file database: close and reopen at the end, compare
	fkFocus   bool   // C08: bias towards the three-level foreign key chain (re-keyed targets, populated third level)
}

// ---- simulator ---------------------------------------------------------------------------------

type vfSim struct {
	p      vfProfile
	rep    *vk.Report
	db     *Database
	sc     *vfSchema
	hist   int
	dbfile string

	mu    sync.Mutex // guards txns, trans
	txns  []*vfTxn
	trans []vfTransition
	byUT  map[*UpdateTran]*vfTxn

	// state mutex domain (only touched inside updateState)
	curKind  string
	curTran  *UpdateTran
	cache    map[*meta.Info]*vfTabContent
	problems []string // structural problems seen at transitions

	diverged  bool         // the model no longer mirrors the real database (after a reported outcome mismatch)
	retMaxEnd atomic.Int64 // largest End of a writer whose Complete() has returned success
	applied   atomic.Int64 // commits applied
	gateRand  *rand.Rand   // merger goroutine only
	gateHeld  atomic.Int64
	gateSeen  atomic.Int64 // gates during which >=1 commit went through
	stopping  atomic.Bool
}

type vfTabContent struct {
	digest   string
	problems []string
}

var vfDefs = func(fkMode byte, prop string) []*vfTabDef {
	defs := []*vfTabDef{
		{name: "t1", cols: []string{"k", "a", "u", "v"}, idxs: []vfIdxDef{
			{mode: 'k', cols: []string{"k"}}, {mode: 'i', cols: []string{"a"}}, {mode: 'u', cols: []string{"u"}}}},
		{name: "t2", cols: []string{"k2", "k", "d", "v"}, idxs: []vfIdxDef{
			{mode: 'k', cols: []string{"k2"}},
			{mode: 'i', cols: []string{"k"}, fkTable: "t1", fkCols: []string{"k"}, fkMode: fkMode},
			{mode: 'k', cols: []string{"k", "k2"}}}},
		{name: "t3", cols: []string{"x", "v"}, idxs: []vfIdxDef{{mode: 'k', cols: []string{}}}},
		{name: "t4", cols: []string{"a", "b", "v"}, idxs: []vfIdxDef{
			{mode: 'k', cols: []string{"a", "b"}}, {mode: 'i', cols: []string{"b"}}}},
		// third level: t5 refers to t2's composite key (k,k2), always blocking, so that a cascade from t1
		// through t2 can be refused part-way (the whole transaction must then abort)
		{name: "t5", cols: []string{"x", "fk", "fk2", "v"}, idxs: []vfIdxDef{
			{mode: 'k', cols: []string{"x"}},
			{mode: 'i', cols: []string{"fk", "fk2"}, fkTable: "t2", fkCols: []string{"k", "k2"}, fkMode: schema.Block}}},
	}
	if prop == "C08" {
		// a second table referring to t1's single-column key, through its own *key* (not an encoded index):
		// the block check of a t1 row has to look into both, each with the key in that index's encoding
		defs = append(defs, &vfTabDef{name: "t7", cols: []string{"k", "v"}, idxs: []vfIdxDef{
			{mode: 'k', cols: []string{"k"}, fkTable: "t1", fkCols: []string{"k"}, fkMode: schema.Block}}})
	}
	if prop == "C07" {
		// overlapping composite keys: two keys that share a column and neither contains the other, plus a unique index
		// that shares a column with a key (the duplicate check of each must be made on its own)
		defs = append(defs, &vfTabDef{name: "t6", cols: []string{"a", "b", "c", "v"}, idxs: []vfIdxDef{
			{mode: 'k', cols: []string{"a", "b"}}, {mode: 'k', cols: []string{"a", "c"}}, {mode: 'u', cols: []string{"b", "c"}}}})
	}
	return defs
}

func vfPackInt(n int) string { return core.Pack(core.IntVal(n)) }
func vfPackStr(s string) string {
	if s == "" {
		return ""
	}
	return core.Pack(core.SuStr(s))
}

func vfNewSim(p vfProfile, rep *vk.Report, hist int) *vfSim {
	s := &vfSim{p: p, rep: rep, hist: hist, byUT: map[*UpdateTran]*vfTxn{}, cache: map[*meta.Info]*vfTabContent{}}
	if p.file {
		s.dbfile = fmt.Sprintf("vfsim-%s-%d.db", p.prop, hist)
		os.Remove(s.dbfile)
		db, err := CreateDatabase(s.dbfile)
		if err != nil {
			panic("vf: cannot create " + s.dbfile + ": " + err.Error())
		}
		s.db = db
	} else {
		s.db = CreateDb(stor.HeapStor(32 * 1024))
	}
	s.sc = &vfSchema{defs: map[string]*vfTabDef{}, specs: map[string][]ixkey.Spec{}}
	for _, d := range vfDefs(p.fkMode, p.prop) {
		sch := &schema.Schema{Table: d.name, Columns: append([]string(nil), d.cols...)}
		for _, ix := range d.idxs {
			si := schema.Index{Mode: ix.mode, Columns: append([]string{}, ix.cols...)}
			if ix.fkTable != "" {
				si.Fk = schema.Fkey{Table: ix.fkTable, Columns: append([]string(nil), ix.fkCols...), Mode: ix.fkMode}
			}
			sch.Indexes = append(sch.Indexes, si)
		}
		s.db.Create(sch)
		s.sc.defs[d.name] = d
		s.sc.order = append(s.sc.order, d.name)
	}
	st := s.db.GetState()
	for _, d := range vfDefs(p.fkMode, p.prop) {
		ts := st.Meta.GetRoSchema(d.name)
		for i := range d.idxs {
			s.sc.specs[d.name] = append(s.sc.specs[d.name], ts.Indexes[i].Ixspec)
		}
	}
	return s
}

// ---- hooks -------------------------------------------------------------------------------------

func (s *vfSim) install(seed uint64) {
	s.gateRand = rand.New(rand.NewPCG(seed, 99))
	onUpdate := func(old, new *DbState) { s.onUpdate(old, new) }
	point := func(name string, arg any) { s.point(name, arg) }
	VerifOnUpdate.Store(&onUpdate)
	VerifPoint.Store(&point)
}

func (s *vfSim) uninstall() {
	VerifOnUpdate.Store(nil)
	VerifPoint.Store(nil)
}

func (s *vfSim) point(name string, arg any) {
	switch name {
	case "commit.apply":
		s.curKind, s.curTran = "commit", arg.(*UpdateTran)
	case "merge.apply":
		s.curKind = "merge"
	case "persist.apply":
		s.curKind = "persist"
	case "commit.checked":
		// widen the window between the conflict check and the publication of the commit
		if s.p.gates {
			runtime.Gosched()
		}
	case "merge.computed", "persist.computed":
		if !s.p.gates || s.stopping.Load() {
			return
		}
		// hold the merger between compute and apply until k further commits were applied
		// (bounded by the checker's channel) or a short real-time grace expired (liveness only)
		k := int64(s.gateRand.IntN(4))
		if k == 0 {
			return
		}
		s.gateHeld.Add(1)
		before := s.applied.Load()
		deadline := time.Now().Add(time.Duration(1+s.gateRand.IntN(3)) * time.Millisecond)
		for s.applied.Load() < before+k && time.Now().Before(deadline) && !s.stopping.Load() {
			runtime.Gosched()
			time.Sleep(20 * time.Microsecond)
		}
		if s.applied.Load() > before {
			s.gateSeen.Add(1)
			s.rep.Count(name+".held_with_commit", 1)
		}
	}
}

// onUpdate runs inside updateState, holding the state mutex.
func (s *vfSim) onUpdate(old, new *DbState) {
	kind, ut := s.curKind, s.curTran
	s.curKind, s.curTran = "", nil
	if new.Meta == old.Meta {
		return
	}
	if kind == "" {
		kind = "other"
	}
	digest := s.contentOf(new)
	tr := vfTransition{kind: kind, digest: digest}
	if kind == "commit" {
		tr.tranEnd = ut.ct.end
		s.applied.Add(1)
	}
	s.mu.Lock()
	s.trans = append(s.trans, tr)
	s.mu.Unlock()
}

type nullReads struct{ *ReadTran }

// contentOf reads the logical content of a state through every index of every table
// (via the public iterator, exactly what a transaction on that state would see), checks
// index/table agreement and the row/size statistics, and returns the canonical digest.
func (s *vfSim) contentOf(st *DbState) string {
	rt := &ReadTran{tran: tran{db: s.db, meta: st.Meta}}
	var sb strings.Builder
	for _, table := range s.sc.order {
		ti := st.Meta.GetRoInfo(table)
		if ti == nil {
			sb.WriteString(table + "{missing}")
			continue
		}
		tc := s.cache[ti]
		if tc == nil {
			tc = s.tableContent(rt, st, table, ti)
			if len(s.cache) > 64 {
				s.cache = map[*meta.Info]*vfTabContent{}
			}
			s.cache[ti] = tc
			for _, pr := range tc.problems {
				s.structural(pr)
			}
		}
		sb.WriteString(tc.digest)
	}
	return sb.String()
}

func (s *vfSim) tableContent(rt *ReadTran, st *DbState, table string, ti *meta.Info) *vfTabContent {
	tc := &vfTabContent{}
	bad := func(f string, a ...any) { tc.problems = append(tc.problems, table+": "+fmt.Sprintf(f, a...)) }
	defer func() {
		if e := recover(); e != nil {
			bad("panic while reading state: %v", e)
		}
	}()
	ts := st.Meta.GetRoSchema(table)
	ncols := len(s.sc.defs[table].cols)
	var offs0 map[uint64]bool
	var sb strings.Builder
	sb.WriteString(table + "{")
	type ent struct {
		key string
		row vfRow
	}
	for i := range ts.Indexes {
		it := index.NewOverIter(table, i)
		offs := map[uint64]bool{}
		prev := ""
		n := 0
		var size int64
		var ents []ent
		for it.Next(rt); !it.Eof(); it.Next(rt) {
			key, off := it.Cur()
			if n > 0 && key <= prev {
				bad("index %d keys not strictly increasing: %q then %q", i, prev, key)
			}
			prev = key
			n++
			if offs[off] {
				bad("index %d yields record offset %d twice", i, off)
			}
			offs[off] = true
			rec := rt.GetRecord(off)
			if want := ts.Indexes[i].Ixspec.Key(rec); want != key {
				bad("index %d entry key %q is not the key %q of its row %v", i, key, want, vfRowOf(rec, ncols))
			}
			if i == 0 {
				size += int64(rec.Len())
				ents = append(ents, ent{key, vfRowOf(rec, ncols)})
			}
			if n > 100000 {
				bad("index %d iteration does not end", i)
				break
			}
		}
		if i == 0 {
			offs0 = offs
			if n != ti.Nrows {
				bad("Nrows=%d but the first index yields %d rows", ti.Nrows, n)
			}
			if size != ti.Size {
				bad("Size=%d but the visible records total %d bytes", ti.Size, size)
			}
			for _, e := range ents {
				for _, f := range e.row {
					fmt.Fprintf(&sb, "%d:%s,", len(f), f)
				}
				sb.WriteString(";")
			}
		} else {
			if len(offs) != len(offs0) {
				bad("index %d has %d entries, index 0 has %d", i, len(offs), len(offs0))
			}
			for off := range offs {
				if !offs0[off] {
					bad("index %d has an entry for offset %d that index 0 does not have", i, off)
					break
				}
			}
		}
		if ti.Indexes[i].Nlayers() != len(ti.Deltas) {
			bad("index %d has %d layers but there are %d deltas", i, ti.Indexes[i].Nlayers(), len(ti.Deltas))
		}
	}
	sumN, sumS := ti.BtreeNrows, ti.BtreeSize
	for _, d := range ti.Deltas {
		sumN += d.Nrows
		sumS += d.Size
	}
	if sumN != ti.Nrows || sumS != ti.Size {
		bad("BtreeNrows+deltas=%d/%d but Nrows/Size=%d/%d", sumN, sumS, ti.Nrows, ti.Size)
	}
	sb.WriteString("}")
	tc.digest = sb.String()
	return tc
}

// ---- running transactions ----------------------------------------------------------------------

// classify maps a panic value of a transaction operation to an outcome class
func vfClassify(e any) string {
	msg := fmt.Sprint(e)
	switch {
	case strings.Contains(msg, "duplicate key"):
		return vfDup
	case strings.Contains(msg, "blocked by foreign key"):
		return vfFkBlock
	case strings.Contains(msg, "transaction aborted"), strings.Contains(msg, "transaction already ended"),
		strings.Contains(msg, "too many writes"), strings.Contains(msg, "too many reads"):
		return vfDead
	case strings.Contains(msg, "update & delete on same record"):
		return "staledel"
	}
	return "other:" + msg
}

func (s *vfSim) do(t *vfTxn, op *vfOp, fn func()) {
	defer func() {
		if e := recover(); e != nil {
			op.Err = vfClassify(e)
			if strings.HasPrefix(op.Err, "other:") {
				if _, isRt := e.(runtime.Error); isRt || !t.ut.ct.Failed() {
					s.rep.Violate(s.p.prop+"/unexpected-panic", fmt.Sprintf("hist %d %s %s", s.hist, t.id(), vk.Trunc(op.Err, 120)),
						map[string]any{"op": op.String(), "txn": t.dump()})
				}
			}
		}
		t.Ops = append(t.Ops, op)
		s.rep.Trace("%s start=%d %s", t.id(), t.Start, op.String())
	}()
	fn()
}

func (s *vfSim) lookup(t *vfTxn, rt interface {
	Lookup(string, int, string) *core.DbRec
}, table string, idx int, key string) (*vfOp, *core.DbRec) {
	op := &vfOp{Kind: "lookup", Table: table, Index: idx, Key: key}
	var rec *core.DbRec
	s.do(t, op, func() {
		rec = rt.Lookup(table, idx, key)
		if rec != nil {
			op.Found = vfRowOf(rec.Record, len(s.sc.defs[table].cols))
		}
	})
	return op, rec
}

type vfIterTran interface {
	GetIndexI(table string, iIndex int) *index.Overlay
	Read(table string, iIndex int, from, to string)
	Num() int
	GetRecord(off uint64) core.Record
}

func (s *vfSim) scan(t *vfTxn, tr vfIterTran, table string, idx int, org, end string, rev bool, limit int) *vfOp {
	op := &vfOp{Kind: "scan", Table: table, Index: idx, Org: org, End: end, Rev: rev, Limit: limit}
	s.do(t, op, func() {
		it := index.NewOverIter(table, idx)
		it.Range(index.Range{Org: org, End: end})
		ncols := len(s.sc.defs[table].cols)
		for n := 0; limit == 0 || n < limit; n++ {
			if rev {
				it.Prev(tr)
			} else {
				it.Next(tr)
			}
			if it.Eof() {
				op.Eof = true
				break
			}
			_, off := it.Cur()
			op.Rows = append(op.Rows, vfRowOf(tr.GetRecord(off), ncols))
		}
	})
	return op
}

func (s *vfSim) digestVia(tr vfIterTran) string {
	var sb strings.Builder
	for _, table := range s.sc.order {
		sb.WriteString(table + "{")
		it := index.NewOverIter(table, 0)
		ncols := len(s.sc.defs[table].cols)
		for it.Next(tr); !it.Eof(); it.Next(tr) {
			_, off := it.Cur()
			for _, f := range vfRowOf(tr.GetRecord(off), ncols) {
				fmt.Fprintf(&sb, "%d:%s,", len(f), f)
			}
			sb.WriteString(";")
		}
		sb.WriteString("}")
	}
	return sb.String()
}

// genRow produces a row for a table; payload identifies the writer
// t1key is a value of t1's key domain: small integers; in the C08 profile also strings with embedded zero bytes
// (a composite or non-unique index stores those escaped, a single-column key stores them as they are)
func (s *vfSim) t1key(r *rand.Rand) string {
	if s.p.prop == "C08" && r.IntN(4) == 0 {
		return vfPackStr([]string{"a\x00", "a\x00\x00b", "\x00", "x\x00y"}[r.IntN(4)])
	}
	return vfPackInt(r.IntN(s.p.keys))
}

func (s *vfSim) genRow(r *rand.Rand, table, payload string) vfRow {
	k := s.p.keys
	switch table {
	case "t1":
		u := ""
		if r.IntN(3) != 0 {
			u = vfPackInt(r.IntN(k/2 + 2))
		}
		return vfRow{s.t1key(r), vfPackInt(r.IntN(4)), u, vfPackStr(payload)}
	case "t7":
		return vfRow{s.t1key(r), vfPackStr(payload)}
	case "t2":
		fk := ""
		if r.IntN(5) != 0 {
			fk = s.t1key(r)
		}
		return vfRow{vfPackInt(r.IntN(k + k/2)), fk, vfPackInt(r.IntN(3)), vfPackStr(payload)}
	case "t3":
		return vfRow{vfPackInt(r.IntN(5)), vfPackStr(payload)}
	case "t6":
		u := func() string {
			if r.IntN(4) == 0 {
				return ""
			}
			return vfPackInt(r.IntN(3))
		}
		return vfRow{vfPackInt(r.IntN(3)), u(), u(), vfPackStr(payload)}
	case "t5":
		fk, fk2 := "", ""
		if r.IntN(6) != 0 {
			fk, fk2 = vfPackInt(r.IntN(k)), vfPackInt(r.IntN(k+k/2))
		}
		return vfRow{vfPackInt(r.IntN(k)), fk, fk2, vfPackStr(payload)}
	default: // t4: strings with embedded zero bytes and empty fields in a composite key
		pool := []string{"", "a", "a\x00", "a\x00\x00b", "b", "\x00", "c"}
		return vfRow{vfPackStr(pool[r.IntN(len(pool))]), vfPackStr(pool[r.IntN(len(pool))]), vfPackStr(payload)}
	}
}

func (s *vfSim) pickTable(r *rand.Rand) string {
	if s.p.prop == "C07" && r.IntN(4) == 0 {
		return "t6"
	}
	if s.p.prop == "C08" && r.IntN(8) == 0 {
		return "t7"
	}
	if s.p.fkFocus {
		switch n := r.IntN(100); {
		case n < 32:
			return "t1"
		case n < 62:
			return "t2"
		case n < 90:
			return "t5"
		case n < 94:
			return "t3"
		}
		return "t4"
	}
	switch n := r.IntN(100); {
	case n < 34:
		return "t1"
	case n < 60:
		return "t2"
	case n < 74:
		if s.p.prop == "C44" {
			return "t2"
		}
		return "t5"
	case n < 81:
		return "t3"
	}
	return "t4"
}

func (s *vfSim) rng5(r *rand.Rand) bool { return r.IntN(2) == 0 }

func (s *vfSim) maybeYield(r *rand.Rand) {
	if s.p.yieldPct > 0 && r.IntN(100) < s.p.yieldPct {
		if r.IntN(4) == 0 {
			time.Sleep(time.Duration(r.IntN(300)) * time.Microsecond)
		} else {
			runtime.Gosched()
		}
	}
}

// runUpdateTxn runs one recorded update transaction
func (s *vfSim) runUpdateTxn(r *rand.Rand, worker, seq int) {
	ut := s.db.NewUpdateTran()
	if ut == nil {
		return
	}
	t := &vfTxn{Worker: worker, Seq: seq, Start: ut.ct.start, ut: ut}
	s.mu.Lock()
	s.txns = append(s.txns, t)
	s.byUT[ut] = t
	s.mu.Unlock()
	nops := 1 + r.IntN(s.p.maxOps)
	readOnlyTxn := r.IntN(8) == 0
	for i := 0; i < nops && !ut.ct.Failed(); i++ {
		s.maybeYield(r)
		table := s.pickTable(r)
		def := s.sc.defs[table]
		payload := fmt.Sprintf("h%d.%s.%d", s.hist, t.id(), i)
		kind := r.IntN(100)
		if readOnlyTxn && kind >= 45 {
			kind = r.IntN(45)
		}
		switch {
		case kind < 20: // lookup by primary key
			probe := s.genRow(r, table, "")
			s.lookup(t, ut, table, 0, s.sc.key(table, 0, probe))
		case kind < 45: // range scan on any base index
			idx := r.IntN(len(def.idxs))
			a, b := s.sc.key(table, idx, s.genRow(r, table, "")), s.sc.key(table, idx, s.genRow(r, table, ""))
			org, end := ixkey.Min, ixkey.Max
			switch r.IntN(4) {
			case 0:
				if a > b {
					a, b = b, a
				}
				org, end = a, b
			case 1:
				org = a
			case 2:
				end = b
			}
			limit := 0
			if r.IntN(2) == 0 {
				limit = 1 + r.IntN(4)
			}
			s.scan(t, ut, table, idx, org, end, r.IntN(3) == 0, limit)
		case kind < 65: // insert
			row := s.genRow(r, table, payload)
			if table == "t5" && r.IntN(4) != 0 {
				// refer to an existing t2 row (seen through a recorded scan) so the third level gets populated
				sc := s.scan(t, ut, "t2", 0, ixkey.Min, ixkey.Max, r.IntN(2) == 0, 1+r.IntN(3))
				if len(sc.Rows) > 0 && sc.Err == "" {
					src := sc.Rows[r.IntN(len(sc.Rows))]
					if s.p.fkFocus { // prefer a t2 row that itself refers to a t1 row (full chain)
						for _, cand := range sc.Rows {
							if cand[1] != "" {
								src = cand
								break
							}
						}
					}
					row[1], row[2] = src[1], src[0]
				}
				if ut.ct.Failed() {
					continue
				}
			}
			op := &vfOp{Kind: "output", Table: table, Row: row}
			s.do(t, op, func() { ut.Output(nil, table, vfRec(row)) })
			if op.Err == "" {
				t.Wrote = true
			}
		case kind < 85: // update a row that was just read
			probe := s.genRow(r, table, "")
			pk := s.sc.key(table, 0, probe)
			_, rec := s.lookup(t, ut, table, 0, pk)
			if rec == nil || ut.ct.Failed() {
				continue
			}
			old := vfRowOf(rec.Record, len(def.cols))
			newr := s.genRow(r, table, payload)
			how := r.IntN(3)
			if s.p.fkFocus && how != 2 && r.IntN(2) == 0 {
				how = 2 // re-key (the case that exercises blocking and cascading updates)
			}
			switch how {
			case 0: // keep the primary key, change the rest
				for _, c := range def.idxs[0].cols {
					j := s.sc.colIdx(table, c)
					newr[j] = old[j]
				}
			case 1: // change only the payload
				copy(newr, old)
				newr[len(newr)-1] = vfPackStr(payload)
			}
			op := &vfOp{Kind: "update", Table: table, PK: pk, Row: newr}
			s.do(t, op, func() { ut.Update(nil, table, rec.Off, vfRec(newr)) })
			if op.Err == "" && !old.eq(newr) {
				t.Wrote = true
				// (only for a row that existed before this transaction: for a row the transaction itself inserted
				// the old offset still finds the row's own add entry and the delete simply removes the row)
				ownRow := strings.Contains(string(old[len(old)-1]), fmt.Sprintf("h%d.%s.", s.hist, t.id()))
				if how != 2 && !ownRow && r.IntN(12) == 0 && !ut.ct.Failed() {
					// misuse that must be refused cleanly: delete through the record's PRE-update offset. The
					// operation fails ("update & delete on same record") and the transaction must be dead; if
					// it stayed alive (do() reports that) its half-applied delete could be committed
					sop := &vfOp{Kind: "staledelete", Table: table, PK: pk}
					s.do(t, sop, func() { ut.Delete(nil, table, rec.Off) })
					s.rep.Count("stale_offset_deletes", 1)
					if sop.Err == "staledel" { // (a foreign key refusal comes before anything is changed and leaves the transaction alive)
						t.refused = sop.String() + " => " + sop.Err
					}
					if sop.Err == "" {
						s.violate("C01 C02 C03 C06 C07 C08 C16 C44", "stale-offset-delete-accepted", fmt.Sprintf("%s op %d", t.id(), len(t.Ops)-1),
							map[string]any{"op": sop.String(), "txn": t.dump()})
					}
					if sop.Err != vfFkBlock {
						i = nops // the transaction is dead (the abort is delivered asynchronously): no further operations
					}
				}
			}
		default: // delete a row that was just read
			probe := s.genRow(r, table, "")
			pk := s.sc.key(table, 0, probe)
			_, rec := s.lookup(t, ut, table, 0, pk)
			if rec == nil || ut.ct.Failed() {
				continue
			}
			op := &vfOp{Kind: "delete", Table: table, PK: pk}
			s.do(t, op, func() { ut.Delete(nil, table, rec.Off) })
			if op.Err == "" {
				t.Wrote = true
			}
		}
	}
	s.maybeYield(r)
	s.finish(r, t)
}

func (s *vfSim) finish(r *rand.Rand, t *vfTxn) {
	ut := t.ut
	if r.IntN(100) < s.p.abortPct {
		ut.Abort()
		t.Outcome = "rolledback"
		s.rep.Count("txn.rolledback", 1)
		return
	}
	res := ut.Complete()
	t.Outcome = res
	if res == "" && t.refused != "" {
		// the abort issued by the refused operation precedes the commit in the transaction's message order
		s.violate("C01 C02 C03 C06 C07 C08 C16 C44", "committed-after-operation-was-refused", t.id(), map[string]any{"refused": t.refused, "txn": t.dump()})
	}
	s.rep.Trace("%s start=%d complete -> %q end=%d", t.id(), t.Start, res, ut.ct.end)
	if res == "" {
		t.Committed = true
		t.End = ut.ct.end
		if t.Wrote {
			for {
				cur := s.retMaxEnd.Load()
				if int64(t.End) <= cur || s.retMaxEnd.CompareAndSwap(cur, int64(t.End)) {
					break
				}
			}
			s.rep.Count("txn.committed_writer", 1)
			if s.p.readers > 0 && r.IntN(3) == 0 {
				// a read transaction started right after success was reported must see this commit
				s.runReader(r, 3000+t.Worker, t.Seq)
			}
		} else {
			s.rep.Count("txn.committed_nowrite", 1)
		}
	} else {
		switch {
		case strings.Contains(res, "conflict"):
			s.rep.Count("txn.abort_conflict", 1)
		case strings.Contains(res, "max age"):
			s.rep.Count("txn.abort_timeout", 1)
		case strings.Contains(res, "too many"):
			s.rep.Count("txn.abort_limit", 1)
		case strings.Contains(res, "exclusive"):
			s.rep.Count("txn.abort_exclusive", 1)
		default:
			s.rep.Count("txn.abort_other", 1)
			s.rep.Seen("abort_reasons", vk.Trunc(res, 80))
		}
	}
}

// runReader runs a read transaction that digests the whole database several times
func (s *vfSim) runReader(r *rand.Rand, worker, seq int) {
	t := &vfTxn{Worker: worker, Seq: seq, ReadOnly: true}
	t.c0 = int(s.applied.Load())
	t.mustEnd = int(s.retMaxEnd.Load())
	rt := s.db.NewReadTran()
	t.c1 = int(s.applied.Load())
	s.mu.Lock()
	s.txns = append(s.txns, t)
	s.mu.Unlock()
	n := 2 + r.IntN(3)
	for i := 0; i < n; i++ {
		before := s.applied.Load()
		var d string
		p, _ := vk.Catch(func() { d = s.digestVia(rt) })
		if p != nil {
			s.rep.Violate(s.p.prop+"/unexpected-panic", fmt.Sprintf("hist %d reader %s: %v", s.hist, t.id(), p), nil)
			return
		}
		t.Digests = append(t.Digests, d)
		if i > 0 && s.applied.Load() > int64(t.c1) {
			s.rep.Count("reader.reread_after_commit", 1)
		}
		_ = before
		time.Sleep(time.Duration(50+r.IntN(400)) * time.Microsecond)
	}
	// also check the statistics of the snapshot against what it shows
	for _, table := range s.sc.order {
		ti := rt.GetInfo(table)
		it := index.NewOverIter(table, 0)
		n, size := 0, int64(0)
		for it.Next(rt); !it.Eof(); it.Next(rt) {
			n++
			size += int64(rt.GetRecord(it.CurOff()).Len())
		}
		if ti.Nrows != n || ti.Size != size {
			s.structural(fmt.Sprintf("%s: read transaction sees Nrows=%d Size=%d but %d rows / %d bytes are visible", table, ti.Nrows, ti.Size, n, size))
		}
	}
}

func (s *vfSim) structural(msg string) {
	s.mu.Lock()
	s.problems = append(s.problems, msg)
	s.mu.Unlock()
}

// ---- one history -------------------------------------------------------------------------------

func (s *vfSim) run(seed uint64) {
	s.rep.TraceReset()
	s.install(seed)
	defer s.uninstall()
	r0 := rand.New(rand.NewPCG(seed, 1))
	// initial content, one transaction, before the pipeline starts being perturbed
	StartConcur(s.db, time.Duration(s.p.persistMs)*time.Millisecond)
	s.seedRows(r0)
	var wg sync.WaitGroup
	for w := 0; w < s.p.workers; w++ {
		r := rand.New(rand.NewPCG(seed, uint64(100+w)))
		wg.Add(1)
		go func(w int) {
			defer wg.Done()
			for i := 0; i < s.p.txns; i++ {
				s.runUpdateTxn(r, w, i)
			}
		}(w)
	}
	for rd := 0; rd < s.p.readers; rd++ {
		r := rand.New(rand.NewPCG(seed, uint64(500+rd)))
		wg.Add(1)
		go func(rd int) {
			defer wg.Done()
			for i := 0; i < s.p.txns/2+1; i++ {
				s.runReader(r, 1000+rd, i)
				time.Sleep(time.Duration(r.IntN(300)) * time.Microsecond)
			}
		}(rd)
	}
	stopSide := make(chan struct{})
	var side sync.WaitGroup
	if s.p.admin {
		side.Add(1)
		go func() {
			defer side.Done()
			s.adminActor(rand.New(rand.NewPCG(seed, 700)), stopSide)
		}()
	}
	if s.p.faults {
		side.Add(1)
		go func() {
			defer side.Done()
			s.tickPump(rand.New(rand.NewPCG(seed, 701)), stopSide)
		}()
	}
	if s.p.bigTxn != "" {
		wg.Add(1)
		go func() {
			defer wg.Done()
			s.runBigTxn(rand.New(rand.NewPCG(seed, 900)))
		}()
	}
	wg.Wait()
	close(stopSide)
	side.Wait()
	s.stopping.Store(true)
	// quiesce: a final persist through the checker, then read the final state
	s.db.Persist()
	final := s.db.NewReadTran()
	finalDigest := s.digestVia(final)
	var ckErr error
	p, _ := vk.Catch(func() { ckErr = s.db.Check(true) })
	if p != nil {
		s.structural(fmt.Sprint("db.Check panicked: ", p))
	} else if ckErr != nil {
		s.structural("db.Check(full): " + ckErr.Error())
	}
	if s.dbfile == "" {
		s.db.ck.Stop()
		s.db.ck = nil
		s.db.Close()
	} else {
		// clean shutdown, reopen: the stored btrees alone must give the same logical content
		s.db.Close()
		p, _ := vk.Catch(func() {
			db2, err := OpenDatabase(s.dbfile)
			if err != nil {
				s.structural("REOPEN: open after clean close failed: " + err.Error())
				return
			}
			defer db2.Close()
			if d := s.digestVia(db2.NewReadTran()); d != finalDigest {
				s.structural(fmt.Sprintf("REOPEN: content after close and reopen differs from the final state: before %q after %q", vk.Trunc(finalDigest, 1500), vk.Trunc(d, 1500)))
			}
			if err := db2.Check(true); err != nil {
				s.structural("REOPEN: full check after reopen: " + err.Error())
			}
			s.rep.Count("reopen_compared", 1)
		})
		if p != nil {
			s.structural(fmt.Sprint("REOPEN: panic: ", p))
		}
		os.Remove(s.dbfile)
		os.Remove(s.dbfile + ".bak")
	}
	s.judge(finalDigest)
}

// runBigTxn runs one transaction that exceeds the write limit (10000 writes) or the read limit
// (20000 tracked reads). It must fail, report the failure, and leave no trace (its rows use keys
// outside the normal domain, so any survivor shows in the final state comparison).
func (s *vfSim) runBigTxn(r *rand.Rand) {
	time.Sleep(time.Duration(r.IntN(2000)) * time.Microsecond)
	ut := s.db.NewUpdateTran()
	if ut == nil {
		return
	}
	t := &vfTxn{Worker: 2000, Seq: 0, Start: ut.ct.start, ut: ut, Big: true}
	s.mu.Lock()
	s.txns = append(s.txns, t)
	s.byUT[ut] = t
	s.mu.Unlock()
	var last any
	n := 0
	p, _ := vk.Catch(func() {
		if s.p.bigTxn == "write" {
			for i := 0; i < 10050; i++ {
				ut.Output(nil, "t2", vfRec(vfRow{vfPackInt(100000 + i), "", vfPackInt(1), vfPackStr("big")}))
				n++
			}
		} else {
			for i := 0; i < 20100; i++ {
				ut.Lookup("t2", 0, vfPackInt(200000+2*i))
				n++
			}
			ut.Output(nil, "t2", vfRec(vfRow{vfPackInt(100000), "", vfPackInt(1), vfPackStr("big")}))
		}
	})
	last = p
	res := ut.Complete()
	t.Outcome = res
	s.rep.Trace("big %s txn: %d operations, panic=%v complete=%q", s.p.bigTxn, n, last, res)
	if res == "" {
		t.Committed, t.End = true, ut.ct.end
		s.structural(fmt.Sprintf("LIMIT: a transaction exceeding the %s limit committed (%d operations, panic=%v)", s.p.bigTxn, n, last))
	} else if strings.Contains(res, "too many") || strings.Contains(fmt.Sprint(last), "too many") {
		s.rep.Count("txn.abort_limit_"+s.p.bigTxn, 1)
	} else {
		s.rep.Count("txn.big_aborted_other", 1)
		s.rep.Seen("big_abort_reasons", vk.Trunc(res, 80))
	}
}

func (s *vfSim) seedRows(r *rand.Rand) {
	ut := s.db.NewUpdateTran()
	t := &vfTxn{Worker: -1, Seq: 0, Start: ut.ct.start, ut: ut}
	s.mu.Lock()
	s.txns = append(s.txns, t)
	s.byUT[ut] = t
	s.mu.Unlock()
	for i := 0; i < s.p.keys; i++ {
		table := s.pickTable(r)
		row := s.genRow(r, table, fmt.Sprintf("h%d.seed.%d", s.hist, i))
		op := &vfOp{Kind: "output", Table: table, Row: row}
		s.do(t, op, func() { ut.Output(nil, table, vfRec(row)) })
		if op.Err == "" {
			t.Wrote = true
		}
	}
	res := ut.Complete()
	t.Outcome = res
	if res == "" {
		t.Committed, t.End = true, ut.ct.end
	}
}

func (s *vfSim) adminActor(r *rand.Rand, stop chan struct{}) {
	// create / drop an extra index on a populated table while writers run (exclusive mode)
	have := map[string]bool{}
	for {
		select {
		case <-stop:
			return
		default:
		}
		time.Sleep(time.Duration(200+r.IntN(1500)) * time.Microsecond)
		table := []string{"t1", "t2", "t4"}[r.IntN(3)]
		sch := &schema.Schema{Table: table, Indexes: []schema.Index{{Mode: 'i', Columns: []string{"v"}}}}
		p, _ := vk.Catch(func() {
			if have[table] {
				if s.db.AlterDrop(sch) {
					have[table] = false
					s.rep.Count("admin.index_dropped", 1)
				}
			} else if r.IntN(2) == 0 {
				s.db.AlterCreate(sch)
				have[table] = true
				s.rep.Count("admin.index_built", 1)
			} else {
				// the same through ensure, which also names the (existing) columns, in another order than they are stored:
				// the positions of the fields in the stored rows must come from the table, not from the request
				cols := slices.Clone(s.sc.defs[table].cols)
				slices.Reverse(cols)
				s.db.Ensure(&schema.Schema{Table: table, Columns: cols, Indexes: sch.Indexes})
				have[table] = true
				s.rep.Count("admin.index_built", 1)
				s.rep.Count("admin.index_built_by_ensure", 1)
			}
		})
		if p != nil {
			s.rep.Count("admin.refused", 1)
			s.rep.Seen("admin_refusals", vk.Trunc(fmt.Sprint(p), 80))
		}
	}
}

func (s *vfSim) tickPump(r *rand.Rand, stop chan struct{}) {
	ck := s.db.ck.(*CheckCo)
	for {
		select {
		case <-stop:
			return
		default:
		}
		time.Sleep(time.Duration(100+r.IntN(400)) * time.Microsecond)
		ck.pq.Put(lowPriority, 0, &ckTick{})
	}
}

// ---- offline judgement -------------------------------------------------------------------------

// violate reports under the running property if the oracle belongs to it
func (s *vfSim) violate(props string, class, key string, detail any) {
	if !strings.Contains(props, s.p.prop) {
		s.rep.Count("other_property_oracle_fired."+class, 1)
		return
	}
	s.rep.Violate(s.p.prop+"/"+class, fmt.Sprintf("hist %d: %s", s.hist, key), detail)
}

type vfEvent struct {
	seq   int
	t     *vfTxn
	start bool
}

func (s *vfSim) judge(finalDigest string) {
	s.mu.Lock()
	defer s.mu.Unlock()
	rep := s.rep
	// structural problems seen online (index/table disagreement, statistics)
	seen := map[string]bool{}
	for _, pr := range s.problems {
		if seen[pr] {
			continue
		}
		seen[pr] = true
		cl := "index-table-disagreement"
		props := "C06 C16 C03"
		if strings.HasPrefix(pr, "LIMIT:") {
			cl, props = "limit-exceeding-transaction-committed", "C03"
		}
		if strings.HasPrefix(pr, "REOPEN:") {
			cl, props = "persisted-state-differs-after-reopen", "C16 C06 C03"
		}
		if strings.Contains(pr, "Nrows") || strings.Contains(pr, "Size") || strings.Contains(pr, "deltas") {
			cl = "statistics-mismatch"
			props = "C03 C16 C06"
		}
		s.violate(props, cl, vk.Trunc(pr, 160), pr)
	}
	// event order: starts and commits share the checker's sequence counter
	var evs []vfEvent
	for _, t := range s.txns {
		if t.ReadOnly {
			continue
		}
		evs = append(evs, vfEvent{seq: t.Start, t: t, start: true})
		if t.Committed && t.Wrote {
			evs = append(evs, vfEvent{seq: t.End, t: t})
		}
	}
	sort.Slice(evs, func(i, j int) bool { return evs[i].seq < evs[j].seq })
	model := vfNewModel(s.sc)
	digests := []string{model.digest()} // digests[j] = state after j committed writers
	ends := []int{0}
	overlapCommitted := 0
	var lastCommitStart, lastCommitEnd int
	for _, ev := range evs {
		t := ev.t
		if s.diverged {
			break
		}
		if ev.start {
			// snapshot semantics (C02): every read of every update transaction equals the start
			// snapshot plus its own earlier changes, whatever happens to the transaction later
			s.replay(t, model.clone(), "snapshot")
			continue
		}
		// commit point (C01): the same observations must hold against the serial state
		if t.Start < lastCommitEnd && lastCommitStart < t.End && lastCommitEnd != 0 {
			overlapCommitted++
		}
		lastCommitStart, lastCommitEnd = t.Start, t.End
		s.replay(t, model, "serial")
		digests = append(digests, model.digest())
		ends = append(ends, t.End)
		if dups, orphans := model.invariants(); len(dups)+len(orphans) > 0 {
			// the model itself only admits valid states, so this would be a model bug
			rep.Violate(s.p.prop+"/harness-model-invalid", fmt.Sprint(s.hist), map[string]any{"dups": dups, "orphans": orphans})
		}
	}
	rep.Count("committed_overlapping_pairs", overlapCommitted)
	if s.diverged {
		// one violation was reported; everything after it would only repeat it
		rep.Count("histories_diverged_after_violation", 1)
		return
	}
	// final state: exactly the committed transactions, nothing of the others (C01 C03 C16)
	if finalDigest != digests[len(digests)-1] {
		s.violate("C01 C03 C16 C06 C07 C08", "final-state-differs-from-serial-model", fmt.Sprintf("%d committed writers", len(digests)-1),
			map[string]any{"real": vk.Trunc(fmt.Sprintf("%q", finalDigest), 3000), "model": vk.Trunc(fmt.Sprintf("%q", digests[len(digests)-1]), 3000), "history": s.dumpAll(60)})
	}
	// transitions (C16 C03 C06): commits produce the successive serial states in order,
	// merges and persists leave the logical content unchanged
	j := 0
	prev := ""
	ntr := map[string]int{}
	for i, tr := range s.trans {
		ntr[tr.kind]++
		switch tr.kind {
		case "commit":
			j++
			if j >= len(digests) || tr.tranEnd != ends[j] {
				s.violate("C16 C03", "commit-applied-out-of-order", fmt.Sprintf("transition %d", i), map[string]any{"tranEnd": tr.tranEnd})
				j = len(digests) // cannot continue
			} else if tr.digest != digests[j] {
				s.violate("C16 C03 C06", "state-after-commit-differs-from-serial-model", fmt.Sprintf("transition %d (commit end=%d)", i, tr.tranEnd),
					map[string]any{"real": vk.Trunc(fmt.Sprintf("%q", tr.digest), 3000), "model": vk.Trunc(fmt.Sprintf("%q", digests[j]), 3000), "history": s.dumpAll(60)})
			}
		case "merge", "persist":
			if prev != "" && tr.digest != prev {
				s.violate("C16 C06 C03", tr.kind+"-changed-logical-content", fmt.Sprintf("transition %d", i),
					map[string]any{"before": vk.Trunc(fmt.Sprintf("%q", prev), 3000), "after": vk.Trunc(fmt.Sprintf("%q", tr.digest), 3000)})
			}
		default: // schema change by the admin actor: rows unchanged
			if prev != "" && tr.digest != prev {
				s.violate("C06 C16", "schema-change-changed-rows", fmt.Sprintf("transition %d", i), nil)
			}
		}
		if j >= len(digests) {
			break
		}
		prev = tr.digest
	}
	for k, n := range ntr {
		rep.Count("transitions."+k, n)
	}
	// invariants in every committed state (C07 C08): the serial model only reaches valid states and
	// every real state was compared with it above; additionally decode the real states directly
	// read transactions (C02 C03): repeated digests identical and equal to a prefix state in their window
	for _, t := range s.txns {
		if !t.ReadOnly || len(t.Digests) == 0 {
			continue
		}
		for i := 1; i < len(t.Digests); i++ {
			if t.Digests[i] != t.Digests[0] {
				s.violate("C02", "read-transaction-snapshot-changed", t.id(), map[string]any{"first": vk.Trunc(fmt.Sprintf("%q", t.Digests[0]), 2000), "later": vk.Trunc(fmt.Sprintf("%q", t.Digests[i]), 2000), "reread": i})
				break
			}
		}
		lo, hi := t.c0-1, t.c1
		if lo < 0 {
			lo = 0
		}
		// real-time order: commits reported successful before the reader started must be visible to it
		must := 0
		for k, e := range ends {
			if e == t.mustEnd {
				must = k
			}
		}
		ok := false
		stale := false
		for k := lo; k <= hi && k < len(digests); k++ {
			if digests[k] == t.Digests[0] {
				if k >= must {
					ok = true
					break
				}
				stale = true
			}
		}
		if !ok && stale {
			// make sure no later prefix state has the same content (then the reader may well have seen that one)
			for k := must; k <= hi && k < len(digests); k++ {
				if digests[k] == t.Digests[0] {
					ok = true
				}
			}
			if !ok {
				s.violate("C03 C02", "read-transaction-misses-commit-reported-before-it-started", t.id(),
					map[string]any{"must_see_commit_end": t.mustEnd, "window": []int{lo, hi}, "seen": vk.Trunc(fmt.Sprintf("%q", t.Digests[0]), 2000)})
				ok = true // reported
			}
		}
		if t.mustEnd != 0 {
			rep.Count("reader.started_after_reported_commit", 1)
		}
		if !ok && hi < len(digests) {
			s.violate("C02 C03", "read-transaction-not-a-committed-prefix-state", t.id(),
				map[string]any{"window": []int{lo, hi}, "seen": vk.Trunc(fmt.Sprintf("%q", t.Digests[0]), 2000), "prefix_lo": vk.Trunc(fmt.Sprintf("%q", digests[lo]), 2000)})
		}
		rep.Count("reader.snapshots_checked", 1)
	}
	rep.Count("gates.held", int(s.gateHeld.Load()))
	rep.Count("gates.held_with_commit", int(s.gateSeen.Load()))
}

func (s *vfSim) dumpAll(max int) []string {
	var out []string
	ts := append([]*vfTxn(nil), s.txns...)
	sort.Slice(ts, func(i, j int) bool { return ts[i].Start < ts[j].Start })
	for _, t := range ts {
		if t.ReadOnly {
			continue
		}
		out = append(out, t.dump()...)
		if len(out) > max*8 {
			out = append(out, "...")
			break
		}
	}
	return out
}

// replay re-executes a transaction's recorded operations on a model state and compares every observation.
// mode "snapshot": m is a private copy of the state at the transaction's start (all transactions).
// mode "serial": m is the serial state at the commit point; the writes stay applied.
func (s *vfSim) replay(t *vfTxn, m *vfModel, mode string) {
	props := "C01"
	if mode == "snapshot" {
		props = "C02"
	}
	for i, op := range t.Ops {
		if s.diverged {
			return
		}
		if op.Err == vfDead || strings.HasPrefix(op.Err, "other:") {
			if mode == "serial" {
				// a committed transaction never had a dead operation
				s.violate("C03 C01", "committed-after-failed-operation", t.id(), t.dump())
			}
			return
		}
		key := fmt.Sprintf("%s op %d (%s)", t.id(), i, mode)
		mism := func(class string, want any) {
			if strings.Contains(class, "outcome") {
				s.diverged = true // the model applied what the real database refused (or the reverse)
			}
			s.violate(props+s.extraProps(op, class), mode+"-"+class, key, map[string]any{"op": op.String(), "model": fmt.Sprint(want), "txn": t.dump(), "history": s.dumpAll(40)})
		}
		switch op.Kind {
		case "lookup":
			want := m.lookup(op.Table, op.Index, op.Key)
			if (want == nil) != (op.Found == nil) || (want != nil && !want.eq(op.Found)) {
				mism("lookup-mismatch", want)
			}
		case "scan":
			want := m.scan(op.Table, op.Index, op.Org, op.End, op.Rev)
			n := len(op.Rows)
			bad := n > len(want) || (op.Eof && n != len(want)) || (!op.Eof && op.Limit != 0 && n != op.Limit && op.Err == "")
			for k := 0; !bad && k < n; k++ {
				if !want[k].eq(op.Rows[k]) {
					bad = true
				}
			}
			if bad {
				mism("scan-mismatch", want)
			}
		case "output":
			res := m.output(op.Table, op.Row)
			if !vfIn(res, op.Err) {
				mism("output-outcome-mismatch", res)
			}
		case "update", "delete":
			var res []string
			if op.Kind == "update" {
				res = m.update(op.Table, op.PK, op.Row)
			} else {
				res = m.delete(op.Table, op.PK)
			}
			if res[0] == vfAbort {
				// refused inside a cascade: the operation reports a foreign key error and the transaction must be dead
				s.rep.Count("cascade_refused_part_way", 1)
				s.rep.Seen("cascade_refused_outcomes", fmt.Sprintf("err=%s committed=%v outcome=%s", op.Err, t.Committed, vk.Trunc(t.Outcome, 60)))
				if op.Err != vfFkBlock && op.Err != vfDead {
					mism(op.Kind+"-outcome-mismatch", res)
				} else if t.Committed {
					s.diverged = true
					s.violate("C03 C08 C01", "committed-after-cascade-was-refused", key, map[string]any{"op": op.String(), "txn": t.dump()})
				}
				return
			}
			if !vfIn(res, op.Err) {
				mism(op.Kind+"-outcome-mismatch", res)
			}
		}
	}
}

// extraProps: outcome mismatches also concern the constraint properties
func (s *vfSim) extraProps(op *vfOp, class string) string {
	if strings.Contains(class, "outcome") {
		return " C07 C08 C03"
	}
	return ""
}

func vfIn(list []string, s string) bool {
	for _, x := range list {
		if x == s {
			return true
		}
	}
	return false
}
