package db19

import (
	"fmt"
	"testing"

	"github.com/apmckinlay/gsuneido/db19/meta/schema"
	vk "github.com/apmckinlay/gsuneido/util/verifkit"
)

// TestVerifChainProbe is a deterministic self-test of the three-level chain (not a registered check).
func TestVerifChainProbe(t *testing.T) {
	rep := vk.NewReport("PROBE", "probe")
	s := vfNewSim(vfProfile{prop: "C03", keys: 8, fkMode: schema.CascadeUpdates}, rep, 0)
	StartConcur(s.db, 1e9)
	ut := s.db.NewUpdateTran()
	ut.Output(nil, "t1", vfRec(vfRow{vfPackInt(1), vfPackInt(0), "", vfPackStr("a")}))
	ut.Output(nil, "t2", vfRec(vfRow{vfPackInt(5), vfPackInt(1), vfPackInt(0), vfPackStr("b")}))
	ut.Output(nil, "t5", vfRec(vfRow{vfPackInt(9), vfPackInt(1), vfPackInt(5), vfPackStr("c")}))
	fmt.Println("setup", ut.Complete())
	ut = s.db.NewUpdateTran()
	rec := ut.Lookup("t1", 0, vfPackInt(1))
	p, _ := vk.Catch(func() {
		ut.Update(nil, "t1", rec.Off, vfRec(vfRow{vfPackInt(2), vfPackInt(0), "", vfPackStr("a2-longer")}))
	})
	fmt.Println("update panic:", p, "failed:", ut.ct.Failed())
	fmt.Printf("complete: %q\n", ut.Complete())
	fmt.Println(s.db.Check(true))
}
