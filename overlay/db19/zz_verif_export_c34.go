//go:build verif

// Accessors for the C34 monitor (/verif). No behaviour change, no call sites in the package.

package db19

import . "github.com/apmckinlay/gsuneido/core"

// VerifSetTimestamp sets the server's next timestamp (under the package's own lock)
// and returns the previous value.
func VerifSetTimestamp(d SuDate) SuDate {
	tsLock.Lock()
	defer tsLock.Unlock()
	prev := timestamp
	timestamp = d
	return prev
}

// VerifGetTimestamp returns the server's next timestamp.
func VerifGetTimestamp() SuDate {
	tsLock.Lock()
	defer tsLock.Unlock()
	return timestamp
}
