// Entry points of the dbsim-based checks (C01 C02 C03 C06 C07 C08 C16).
package db19

import (
	"fmt"
	"testing"

	"github.com/apmckinlay/gsuneido/db19/meta/schema"
	vk "github.com/apmckinlay/gsuneido/util/verifkit"
)

const vfRuleDbsim = "each case is one concurrent history on a fresh heap database (tables t1 key(k) index(a) index unique(u); " +
	"t2 key(k2) index(k) in t1 [block|cascade|cascade update]; t3 key(); t4 key(a,b) index(b) with zero bytes / empty fields) driven by " +
	"PRNG-chosen lookups, forward/backward partial range scans, inserts, updates, deletes, commits and rollbacks from several goroutines " +
	"with the real checker, merger, merge and persist workers running; non-trivial = at least two committed writers and one conflict abort " +
	"or overlapping committed pair; distinct by the hash of the recorded history (operations, observations, commit order)"

func vfRunHistories(t *testing.T, prop string, nQuick, nThorough int, mk func(i int, r func(int) int) vfProfile) {
	rep := vk.NewReport(prop, vfRuleDbsim,
		"index key encoding (ixkey.Spec.Key) is trusted for ordering model rows (checked by C12)",
		"the harness model implements the documented key/unique/foreign-key rules")
	defer rep.Finish()
	MaxAge = 1 << 30
	n := vk.N(nQuick, nThorough)
	for i := 0; i < n; i++ {
		r := vk.RandFor(uint64(len(prop))*131+uint64(prop[2]), i)
		p := mk(i, r.IntN)
		p.prop = prop
		seed := r.Uint64()
		rep.Case("history %d seed %d profile %+v", i, seed, p)
		if p.faults {
			MaxAge = 6 + r.IntN(20)
		} else {
			MaxAge = 1 << 30
		}
		s := vfNewSim(p, rep, i)
		s.run(seed)
		// evidence
		committed, aborted := 0, 0
		h := []any{}
		for _, tx := range s.txns {
			if tx.ReadOnly {
				continue
			}
			if tx.Committed && tx.Wrote {
				committed++
			}
			if !tx.Committed {
				aborted++
			}
			h = append(h, tx.Start, tx.End, tx.Outcome)
			for _, o := range tx.Ops {
				h = append(h, o.String())
			}
		}
		rep.Eval(vk.Hash64(h...), committed >= 2 && aborted >= 1)
		rep.Count("histories", 1)
		rep.Count("transactions", len(s.txns))
		if rep.WantSample() && i%7 == 0 {
			rep.Sample(map[string]any{"history": i, "profile": fmt.Sprintf("%+v", p), "transactions": s.dumpAll(6)})
		}
	}
}

func vfFk(r func(int) int) byte {
	return []byte{schema.Block, schema.Cascade, schema.CascadeUpdates}[r(3)]
}

// C01 serializability: high contention, mixed operations
func TestVerifC01(t *testing.T) {
	vfRunHistories(t, "C01", 240, 6000, func(i int, r func(int) int) vfProfile {
		return vfProfile{workers: 2 + r(9), txns: 6 + r(8), keys: 6 + r(14), fkMode: vfFk(r), persistMs: 1 + r(5),
			gates: r(2) == 0, readers: r(2), maxOps: 3 + r(5), abortPct: 8, yieldPct: 30, admin: i%4 == 1}
	})
}

// C02 stable snapshots: readers re-reading while commits, merges and persists complete
func TestVerifC02(t *testing.T) {
	vfRunHistories(t, "C02", 200, 4000, func(i int, r func(int) int) vfProfile {
		return vfProfile{workers: 2 + r(5), txns: 8 + r(8), keys: 8 + r(12), fkMode: vfFk(r), persistMs: 1 + r(3),
			gates: true, readers: 3 + r(4), maxOps: 3 + r(4), abortPct: 5, yieldPct: 40}
	})
}

// C03 atomic commit and truthful outcome: fault actors on
func TestVerifC03(t *testing.T) {
	vfRunHistories(t, "C03", 240, 5000, func(i int, r func(int) int) vfProfile {
		big := map[int]string{7: "write", 23: "read"}[i%30]
		return vfProfile{workers: 3 + r(6), txns: 6 + r(8), keys: 6 + r(10), fkMode: vfFk(r), persistMs: 1 + r(5),
			gates: r(2) == 0, readers: 2, maxOps: 3 + r(5), abortPct: 20, yieldPct: 50, faults: big == "", // the limit transactions need longer than the forced max age
			bigTxn: big, file: i%4 == 3} // file: the reported counts/sizes must also be right in the persisted state (reopen)
	})
}

// C06 every index agrees with its table: admin actor building indexes, gates
func TestVerifC06(t *testing.T) {
	vfRunHistories(t, "C06", 200, 4000, func(i int, r func(int) int) vfProfile {
		return vfProfile{workers: 2 + r(6), txns: 6 + r(8), keys: 8 + r(16), fkMode: vfFk(r), persistMs: 1 + r(3),
			gates: true, readers: 1, maxOps: 4 + r(5), abortPct: 8, yieldPct: 30, admin: true, file: i%3 == 1}
	})
}

// C07 key and unique constraints: many writers on very few key values
func TestVerifC07(t *testing.T) {
	vfRunHistories(t, "C07", 240, 5000, func(i int, r func(int) int) vfProfile {
		return vfProfile{workers: 4 + r(9), txns: 6 + r(8), keys: 3 + r(4), fkMode: vfFk(r), persistMs: 1 + r(5),
			gates: r(2) == 0, readers: 1, maxOps: 2 + r(4), abortPct: 5, yieldPct: 40, admin: i%3 == 0}
	})
}

// C08 foreign keys: all modes, concurrent source inserts vs target deletes
func TestVerifC08(t *testing.T) {
	vfRunHistories(t, "C08", 360, 6000, func(i int, r func(int) int) vfProfile {
		return vfProfile{workers: 1 + r(8), txns: 6 + r(8), keys: 4 + r(6), fkMode: byte([]byte{schema.Block, schema.Cascade, schema.CascadeUpdates}[i%3]),
			persistMs: 1 + r(5), gates: r(2) == 0, readers: 1, maxOps: 3 + r(5), abortPct: 5, yieldPct: 30, fkFocus: i%2 == 0}
	})
}

// C16 background merge and persist: merger held between compute and apply
func TestVerifC16(t *testing.T) {
	vfRunHistories(t, "C16", 200, 4000, func(i int, r func(int) int) vfProfile {
		return vfProfile{workers: 3 + r(8), txns: 8 + r(10), keys: 8 + r(16), fkMode: vfFk(r), persistMs: 1 + r(2),
			gates: true, readers: 1, maxOps: 3 + r(4), abortPct: 5, yieldPct: 20, admin: i%4 == 0, file: i%2 == 1}
	})
}
