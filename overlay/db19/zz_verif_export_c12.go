//go:build verif

package db19

// VerifC12RangeEnd exposes the unexported rangeEnd (db19/tran.go) to the C12 monitor
// (/verif/overlay/zzverif/c12). Accessor only; no behaviour change.
func VerifC12RangeEnd(key string, n int) string {
	return rangeEnd(key, n)
}
