// C44 Triggers see every row change of their table.
// In-package db19 monitor: the real trigger dispatch (db19/triggers.go, called from tran.go Output/Update/Delete,
// cascades included) with recording Trigger_<table> builtins, compared with the calls the plain-Go model expects.
package db19

import (
	"fmt"
	"sort"
	"strings"
	"sync"
	"testing"

	"github.com/apmckinlay/gsuneido/core"
	"github.com/apmckinlay/gsuneido/db19/meta/schema"
	vk "github.com/apmckinlay/gsuneido/util/verifkit"
)

type vfC44Call struct {
	table    string
	old, new vfRow // nil for false
	ut       *UpdateTran
}

func (c vfC44Call) String() string {
	return fmt.Sprintf("%s(%v -> %v)", c.table, c.old, c.new)
}

type vfC44Rec struct {
	mu     sync.Mutex
	calls  []vfC44Call
	sc     *vfSchema
	suTran map[*core.SuTran]*UpdateTran
}

var vfC44Cur struct {
	sync.Mutex
	rec *vfC44Rec
}

// vfC44Lib stands for the libraries in use: Trigger_<table> is found through core.Libload (as a library record would be)
// and cached by core.Global until it is unloaded, which is what saving or deleting a library record does.
var vfC44Lib struct {
	sync.Mutex
	defs  map[string]core.Value // what the library holds now
	avail map[string]core.Value // the recording functions
}

// vfC44Define saves (on) or deletes (!on) the trigger definition of the table in the library and unloads the name.
func vfC44Define(table string, on bool) {
	name := "Trigger_" + table
	vfC44Lib.Lock()
	if on {
		vfC44Lib.defs[name] = vfC44Lib.avail[name]
	} else {
		delete(vfC44Lib.defs, name)
	}
	vfC44Lib.Unlock()
	core.Global.Unload(name)
}

func vfC44Install() {
	vfC44Lib.defs = map[string]core.Value{}
	vfC44Lib.avail = map[string]core.Value{}
	core.Libload = func(_ *core.Thread, name string) (core.Value, any) {
		vfC44Lib.Lock()
		defer vfC44Lib.Unlock()
		if v, ok := vfC44Lib.defs[name]; ok {
			return v, nil
		}
		return nil, nil
	}
	MakeSuTran = func(ut *UpdateTran) *core.SuTran {
		st := core.NewSuTran(nil, true)
		vfC44Cur.Lock()
		rec := vfC44Cur.rec
		vfC44Cur.Unlock()
		if rec != nil {
			rec.mu.Lock()
			rec.suTran[st] = ut
			rec.mu.Unlock()
		}
		return st
	}
	for _, table := range []string{"t1", "t2", "t4"} { // t3 deliberately has no trigger
		table := table
		fn := &core.SuBuiltin{Fn: func(th *core.Thread, args []core.Value) core.Value {
			vfC44Cur.Lock()
			rec := vfC44Cur.rec
			vfC44Cur.Unlock()
			if rec == nil {
				return nil
			}
			cols := rec.sc.defs[table].cols
			conv := func(v core.Value) vfRow {
				r, ok := v.(*core.SuRecord)
				if !ok {
					return nil
				}
				row := make(vfRow, len(cols))
				for i, c := range cols {
					x := r.Get(th, core.SuStr(c))
					if x == nil || x == core.EmptyStr {
						continue
					}
					row[i] = core.Pack(x.(core.Packable))
				}
				return row
			}
			c := vfC44Call{table: table, old: conv(args[1]), new: conv(args[2])}
			if st, ok := args[0].(*core.SuTran); ok {
				rec.mu.Lock()
				c.ut = rec.suTran[st]
				rec.mu.Unlock()
			}
			rec.mu.Lock()
			rec.calls = append(rec.calls, c)
			rec.mu.Unlock()
			if c.new != nil && strings.Contains(c.new[len(c.new)-1], "BOOM") {
				panic("trigger BOOM " + table)
			}
			return nil
		}, BuiltinParams: core.BuiltinParams{ParamSpec: core.ParamSpec{Nparams: 3, Flags: []core.Flag{0, 0, 0},
			Names: []string{"t", "oldrec", "newrec"}, Name: "Trigger_" + table}}}
		vfC44Lib.avail["Trigger_"+table] = fn
	}
}

func (r *vfC44Rec) take() []vfC44Call {
	r.mu.Lock()
	defer r.mu.Unlock()
	c := r.calls
	r.calls = nil
	return c
}

func vfC44Canon(calls []vfC44Call) []string {
	out := make([]string, len(calls))
	for i, c := range calls {
		out[i] = c.String()
	}
	sort.Strings(out)
	return out
}

func TestVerifC44(t *testing.T) {
	rep := vk.NewReport("C44", "each case is one single-threaded history of 6-14 update transactions (1-6 operations each: insert, update incl. no-op, "+
		"delete, with block / cascade / cascade update foreign keys from t2 to t1 so that cascades fire) on tables with (t1,t2,t4) and without (t3) a trigger, "+
		"with nested DisableTrigger/EnableTrigger and triggers that throw on marked rows; after every operation the recorded trigger calls "+
		"(table, old row, new row, transaction) are compared as a multiset with the calls the model expects; non-trivial = at least one cascade "+
		"and one disabled or throwing trigger in the history; distinct by the hash of the operation list",
		"query-language statements are not exercised here (they reach the same UpdateTran.Output/Update/Delete); the harness model of foreign key cascades is trusted")
	defer rep.Finish()
	vfC44Install()
	defer func() {
		vfC44Cur.Lock()
		vfC44Cur.rec = nil
		vfC44Cur.Unlock()
	}()
	MaxAge = 1 << 30
	th := &core.Thread{}
	n := vk.N(1500, 40000)
	for h := 0; h < n; h++ {
		r := vk.RandFor(44, h)
		fk := []byte{schema.Block, schema.Cascade, schema.CascadeUpdates}[h%3]
		p := vfProfile{prop: "C44", keys: 4 + r.IntN(5), fkMode: fk, maxOps: 6}
		rep.Case("history %d", h)
		s := vfNewSim(p, rep, h)
		StartConcur(s.db, 1e9)
		rec := &vfC44Rec{sc: s.sc, suTran: map[*core.SuTran]*UpdateTran{}}
		vfC44Cur.Lock()
		vfC44Cur.rec = rec
		vfC44Cur.Unlock()
		model := vfNewModel(s.sc)
		disabled := map[string]int{}
		var hist []any
		emptyRows := 0
		cascades, disabledSeen, throws, undefinedSeen := 0, 0, 0, 0
		defined := map[string]bool{}
		lateDefs := 0
		for _, tb := range []string{"t1", "t2", "t4"} {
			defined[tb] = r.IntN(4) != 0 // a quarter start without a definition: the first changes go unobserved, by design
			vfC44Define(tb, defined[tb])
			hist = append(hist, fmt.Sprint("defined ", tb, " ", defined[tb]))
		}
		ntx := 6 + r.IntN(9)
		for tx := 0; tx < ntx; tx++ {
			// the trigger definition is saved to / deleted from the library between transactions
			for _, tb := range []string{"t1", "t2", "t4"} {
				if r.IntN(10) == 0 {
					defined[tb] = !defined[tb]
					vfC44Define(tb, defined[tb])
					hist = append(hist, fmt.Sprint("define ", tb, " ", defined[tb]))
					if defined[tb] {
						lateDefs++
					}
				}
			}
			// nested disable / enable between transactions
			for _, tb := range []string{"t1", "t2", "t4"} {
				switch r.IntN(12) {
				case 0:
					s.db.DisableTrigger(tb)
					disabled[tb]++
					hist = append(hist, "disable "+tb)
				case 1, 2:
					if disabled[tb] > 0 {
						s.db.EnableTrigger(tb)
						disabled[tb]--
						hist = append(hist, "enable "+tb)
					}
				}
			}
			ut := s.db.NewUpdateTran()
			work := model.clone() // the transaction's view; becomes the model if it commits
			failed := false
			nops := 1 + r.IntN(6)
			for i := 0; i < nops && !failed; i++ {
				table := []string{"t1", "t1", "t1", "t1", "t2", "t2", "t2", "t2", "t3", "t4"}[r.IntN(10)]
				def := s.sc.defs[table]
				payload := fmt.Sprintf("h%d.t%d.%d", h, tx, i)
				if r.IntN(14) == 0 {
					payload += ".BOOM"
				}
				var expect []vfC44Call
				add := func(tb string, old, new vfRow) {
					if disabled[tb] > 0 {
						disabledSeen++
						return
					}
					if tb == "t3" || !defined[tb] {
						if tb != "t3" {
							undefinedSeen++
						}
						return // no trigger defined (at the moment)
					}
					expect = append(expect, vfC44Call{table: tb, old: old, new: new})
				}
				var opDesc string
				var run func()
				switch k := r.IntN(10); {
				case k < 4:
					row := s.genRow(r, table, payload)
					if table == "t4" && r.IntN(3) == 0 {
						row = vfRow{"", "", ""} // a row whose fields are all empty is still a row
						emptyRows++
					}
					if table == "t2" && len(work.tabs["t1"]) > 0 && r.IntN(5) != 0 {
						// reference an existing t1 row so that cascades have something to do
						_, t1rows := work.sorted("t1", 0)
						row[1] = t1rows[r.IntN(len(t1rows))][0]
					}
					opDesc = fmt.Sprintf("output %s %v", table, row)
					res := work.clone().output(table, row)
					if res[0] == vfOK {
						work.output(table, row)
						add(table, nil, row)
					}
					run = func() { ut.Output(th, table, vfRec(row)) }
				case k < 8:
					pk := s.sc.key(table, 0, s.genRow(r, table, ""))
					if table == "t4" && len(work.tabs["t4"]) > 0 && r.IntN(2) == 0 {
						_, rows := work.sorted("t4", 0)
						pk = s.sc.key(table, 0, rows[r.IntN(len(rows))])
					}
					old := work.tabs[table][pk]
					if old == nil {
						continue
					}
					newr := s.genRow(r, table, payload)
					if table == "t4" && r.IntN(4) == 0 {
						newr = vfRow{"", "", ""}
					}
					switch r.IntN(4) {
					case 0:
						for _, c := range def.idxs[0].cols {
							j := s.sc.colIdx(table, c)
							newr[j] = old[j]
						}
					case 1:
						copy(newr, old) // exactly the same value: must not call the trigger
					}
					opDesc = fmt.Sprintf("update %s %v -> %v", table, old, newr)
					probe := work.clone()
					refs := probe.referrers(table, old)
					res := probe.update(table, pk, newr)
					if res[0] == vfOK && !old.eq(newr) {
						// cascaded updates of referencing rows come with the operation
						for _, ref := range refs {
							changed := false
							for _, c := range ref.ix.fkCols {
								if old[s.sc.colIdx(table, c)] != newr[s.sc.colIdx(table, c)] {
									changed = true
								}
							}
							if !changed || ref.ix.fkMode&schema.CascadeUpdates == 0 {
								continue
							}
							for _, spk := range ref.pks {
								so := work.tabs[ref.table][spk]
								sn := so.clone()
								for j, c := range ref.ix.cols {
									sn[s.sc.colIdx(ref.table, c)] = newr[s.sc.colIdx(table, ref.ix.fkCols[j])]
								}
								add(ref.table, so, sn)
								cascades++
							}
						}
						work.update(table, pk, newr)
						add(table, old, newr)
					}
					rec0 := ut.Lookup(table, 0, pk)
					if rec0 == nil {
						rep.Violate("C44/harness-lookup-missed-model-row", fmt.Sprintf("hist %d", h), opDesc)
						failed = true
						continue
					}
					run = func() { ut.Update(th, table, rec0.Off, vfRec(newr)) }
				default:
					pk := s.sc.key(table, 0, s.genRow(r, table, ""))
					if table == "t4" && len(work.tabs["t4"]) > 0 && r.IntN(2) == 0 {
						_, rows := work.sorted("t4", 0)
						pk = s.sc.key(table, 0, rows[r.IntN(len(rows))])
					}
					old := work.tabs[table][pk]
					if old == nil {
						continue
					}
					opDesc = fmt.Sprintf("delete %s %v", table, old)
					probe := work.clone()
					refs := probe.referrers(table, old)
					res := probe.delete(table, pk)
					if res[0] == vfOK {
						for _, ref := range refs {
							for _, spk := range ref.pks {
								add(ref.table, work.tabs[ref.table][spk], nil)
								cascades++
							}
						}
						work.delete(table, pk)
						add(table, old, nil)
					}
					rec0 := ut.Lookup(table, 0, pk)
					if rec0 == nil {
						rep.Violate("C44/harness-lookup-missed-model-row", fmt.Sprintf("hist %d", h), opDesc)
						failed = true
						continue
					}
					run = func() { ut.Delete(th, table, rec0.Off) }
				}
				hist = append(hist, opDesc)
				willThrow := false
				for _, e := range expect {
					if e.new != nil && strings.Contains(e.new[len(e.new)-1], "BOOM") {
						willThrow = true
					}
				}
				rec.take()
				st := th.GetState()
				p, _ := vk.Catch(run)
				if p != nil {
					th.RestoreState(st) // what the top level of the interpreter does with an exception that reaches it
				}
				got := rec.take()
				key := fmt.Sprintf("hist %d tx %d op %d: %s", h, tx, i, vk.Trunc(opDesc, 150))
				threw := p != nil && strings.Contains(fmt.Sprint(p), "trigger BOOM")
				if p != nil && !threw {
					cl := vfClassify(p)
					if cl != vfDup && cl != vfFkBlock {
						rep.Violate("C44/unexpected-panic", key, fmt.Sprint(p))
						failed = true
					}
					if len(got) != 0 {
						rep.Violate("C44/trigger-called-for-refused-operation", key, vfC44Canon(got))
					}
					if len(expect) != 0 {
						rep.Violate("C44/harness-model-expected-success", key, map[string]any{"panic": fmt.Sprint(p), "expected": vfC44Canon(expect)})
						failed = true
					}
					continue
				}
				if threw {
					throws++
					// the exception propagates: the operation reports failure; the block form then rolls back
					if !willThrow {
						rep.Violate("C44/trigger-threw-unexpectedly", key, fmt.Sprint(p))
					}
					// every call made before the throw must be an expected one
					exp := map[string]int{}
					for _, e := range vfC44Canon(expect) {
						exp[e]++
					}
					for _, g := range vfC44Canon(got) {
						if exp[g] == 0 {
							rep.Violate("C44/unexpected-trigger-call", key, map[string]any{"got": vfC44Canon(got), "expected": vfC44Canon(expect)})
							break
						}
						exp[g]--
					}
					failed = true
					continue
				}
				if willThrow {
					rep.Violate("C44/throwing-trigger-did-not-stop-operation", key, map[string]any{"got": vfC44Canon(got), "expected": vfC44Canon(expect)})
				}
				g, e := vfC44Canon(got), vfC44Canon(expect)
				if strings.Join(g, "\n") != strings.Join(e, "\n") {
					cl := "C44/trigger-calls-differ"
					switch {
					case len(g) < len(e):
						cl = "C44/missing-trigger-call"
					case len(g) > len(e):
						cl = "C44/extra-trigger-call"
					}
					rep.Violate(cl, key, map[string]any{"got": g, "expected": e, "disabled": fmt.Sprint(disabled)})
				}
				for _, c := range got {
					if c.ut != ut {
						rep.Violate("C44/trigger-ran-in-another-transaction", key, c.String())
					}
				}
				rep.Count("trigger_calls_checked", len(got))
			}
			if failed {
				ut.Abort() // what the block form does when the exception propagates
				rep.Count("txn.rolledback_after_throw_or_failure", 1)
				continue
			}
			if res := ut.Complete(); res != "" {
				rep.Violate("C44/unexpected-commit-failure", fmt.Sprintf("hist %d tx %d", h, tx), res)
				continue
			}
			model = work
			rep.Count("txn.committed", 1)
		}
		// nothing of a transaction whose trigger threw is committed; everything else is
		final := s.db.NewReadTran()
		if d := s.digestVia(final); d != model.digest() {
			rep.Violate("C44/final-state-differs", fmt.Sprintf("hist %d", h), map[string]any{"real": vk.Trunc(fmt.Sprintf("%q", d), 2000), "model": vk.Trunc(fmt.Sprintf("%q", model.digest()), 2000)})
		}
		for tb, nd := range disabled { // leave the global counters balanced
			for ; nd > 0; nd-- {
				s.db.EnableTrigger(tb)
			}
		}
		s.db.ck.Stop()
		s.db.ck = nil
		s.db.Close()
		rep.Eval(vk.Hash64(hist...), cascades > 0 && (disabledSeen > 0 || throws > 0))
		rep.Count("cascaded_row_changes", cascades)
		rep.Count("calls_suppressed_by_disable", disabledSeen)
		rep.Count("trigger_throws", throws)
		rep.Count("changes_while_trigger_not_defined", undefinedSeen)
		rep.Count("trigger_defined_during_history", lateDefs)
		rep.Count("all_empty_rows_output", emptyRows)
		if rep.WantSample() && h%50 == 0 {
			rep.Sample(map[string]any{"history": h, "ops": hist})
		}
	}
}
