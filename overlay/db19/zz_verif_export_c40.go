//go:build verif

// Accessor for the C40 monitor (/verif). No behaviour change, no call sites in the package.

package db19

// VerifSetNextReadTran sets the counter read transaction numbers are taken from (a long-running server has
// handed out arbitrarily many) and returns the previous value. Values are even, as NewReadTran leaves them.
func VerifSetNextReadTran(n int32) int32 {
	return nextReadTran.Swap(n &^ 1)
}
