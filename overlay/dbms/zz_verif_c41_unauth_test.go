// C41 Unauthenticated clients cannot access data or gain access.
//
// In-package monitor (package dbms): the server side is reached exactly like the
// repository's TestClientServer (newServerConn on one end of a net.Pipe, real TLS with the
// fixture certificate). The client side is NOT the repository's mux client: it is a small
// raw implementation of the wire format written for this monitor, so that
//   - any command code can be sent with any arguments on any session id,
//   - a connection that the server closes does not take the process down
//     (mux.ClientConn calls core.Fatal on a lost connection).
//
// Oracle (from the property statement, independent of the code under test):
//   - on an unauthenticated connection only Auth, Nonce, SessionId, LibGet, Libraries and
//     EndSession may be answered with success; every other command must be answered with an
//     error (or the connection is closed);
//   - the logical content of the database (schema + rows, read locally) is the same before
//     and after the unauthenticated requests;
//   - the authenticated connection's session, its open transaction and its connection
//     survive; the server process survives;
//   - the connection stays unauthenticated unless an Auth was justified;
//   - Auth returns true only if the string is user NUL sha1(nonce+passhash) for a row of
//     `users` with the nonce last issued to THAT connection, not yet consumed by an Auth
//     attempt and not expired, or a token returned to an authenticated connection, not yet
//     used and not expired. The model of nonces/tokens/users is kept by the monitor.

//go:build !gui

package dbms

import (
	"crypto/sha1"
	"crypto/tls"
	"encoding/binary"
	"fmt"
	"io"
	"log"
	"math/rand/v2"
	"net"
	"os"
	"sort"
	"strings"
	"sync"
	"sync/atomic"
	"testing"
	"time"

	. "github.com/apmckinlay/gsuneido/core"
	"github.com/apmckinlay/gsuneido/db19"
	"github.com/apmckinlay/gsuneido/db19/stor"
	"github.com/apmckinlay/gsuneido/dbms/commands"
	"github.com/apmckinlay/gsuneido/dbms/mux"
	"github.com/apmckinlay/gsuneido/options"
	vk "github.com/apmckinlay/gsuneido/util/verifkit"
	"golang.org/x/time/rate"
)

// ---------------------------------------------------------------------------------------
// raw wire client (own implementation of the mux framing and of the argument encoding)

type vfC41Msg struct {
	sid  uint32
	data []byte
}

type vfC41Wire struct {
	conn    net.Conn
	msgs    chan vfC41Msg
	pending map[uint32][][]byte
	dead    bool
}

// vfC41ServerDeaths counts panics that escaped newServerConn. In the real server
// (`go newServerConn(...)` in Server) such a panic terminates the server process.
var vfC41ServerDeaths atomic.Int64
var vfC41LastDeath atomic.Value // string

// vfC41FatalCalls counts core.Fatal calls (the real server exits).
var vfC41FatalCalls atomic.Int64

type vfC41FatalUnwind struct{}

// vfC41Dial connects; the hello exchange has a 500 ms deadline which a loaded machine can miss: retry
func vfC41Dial(local *DbmsLocal, scfg *tls.Config) (w *vfC41Wire, err error) {
	for try := 0; try < 40; try++ {
		if w, err = vfC41Dial1(local, scfg); err == nil {
			return w, nil
		}
	}
	return nil, err
}

func vfC41Dial1(local *DbmsLocal, scfg *tls.Config) (*vfC41Wire, error) {
	p1, p2 := net.Pipe()
	go func() {
		defer func() {
			if e := recover(); e != nil {
				if _, ok := e.(vfC41FatalUnwind); !ok {
					vfC41ServerDeaths.Add(1)
					vfC41LastDeath.Store(fmt.Sprint(e))
				}
				p1.Close()
			}
		}()
		newServerConn(local, p1, scfg)
	}()
	if e := checkHello(p2); e != "" {
		p2.Close()
		return nil, fmt.Errorf("hello: %s", e)
	}
	p2.Write(hello())
	tc := tls.Client(p2, &tls.Config{InsecureSkipVerify: true})
	if err := tc.Handshake(); err != nil {
		p2.Close()
		return nil, err
	}
	w := &vfC41Wire{conn: tc, msgs: make(chan vfC41Msg, 64), pending: map[uint32][][]byte{}}
	go w.reader()
	return w, nil
}

func (w *vfC41Wire) reader() {
	defer close(w.msgs)
	partial := map[uint32][]byte{}
	hdr := make([]byte, 9)
	for {
		if _, err := io.ReadFull(w.conn, hdr); err != nil {
			return
		}
		size := binary.BigEndian.Uint32(hdr)
		sid := binary.BigEndian.Uint32(hdr[4:])
		if size > 64<<20 {
			return
		}
		buf := make([]byte, size)
		if _, err := io.ReadFull(w.conn, buf); err != nil {
			return
		}
		partial[sid] = append(partial[sid], buf...)
		if hdr[8] != 0 {
			w.msgs <- vfC41Msg{sid: sid, data: partial[sid]}
			delete(partial, sid)
		}
	}
}

// frame writes one frame
func (w *vfC41Wire) frame(sid uint32, data []byte, final bool) error {
	b := make([]byte, 9+len(data))
	binary.BigEndian.PutUint32(b, uint32(len(data)))
	binary.BigEndian.PutUint32(b[4:], sid)
	if final {
		b[8] = 1
	}
	copy(b[9:], data)
	_, err := w.conn.Write(b)
	if err != nil {
		w.dead = true
	}
	return err
}

// send writes a message, cut into 1..3 frames when r says so
func (w *vfC41Wire) send(sid uint32, data []byte, r *rand.Rand) error {
	if r != nil && len(data) >= 2 && r.IntN(4) == 0 {
		cut := 1 + r.IntN(len(data)-1)
		if err := w.frame(sid, data[:cut], false); err != nil {
			return err
		}
		data = data[cut:]
		if len(data) >= 2 && r.IntN(3) == 0 {
			cut = 1 + r.IntN(len(data)-1)
			if err := w.frame(sid, data[:cut], false); err != nil {
				return err
			}
			data = data[cut:]
		}
	}
	return w.frame(sid, data, true)
}

// recv returns the next complete message for sid; ok=false when the connection is closed.
// There is deliberately no timeout: a hang is left to the driver's watchdog (inconclusive).
func (w *vfC41Wire) recv(sid uint32) ([]byte, bool) {
	if q := w.pending[sid]; len(q) > 0 {
		w.pending[sid] = q[1:]
		return q[0], true
	}
	for m := range w.msgs {
		if m.sid == sid {
			return m.data, true
		}
		w.pending[m.sid] = append(w.pending[m.sid], m.data)
	}
	w.dead = true
	return nil, false
}

func (w *vfC41Wire) close() {
	w.dead = true
	w.conn.Close()
	go func() {
		for range w.msgs {
		}
	}()
}

// request encoding

type vfC41Req struct {
	b    []byte
	desc strings.Builder
}

func vfC41NewReq(cmd byte) *vfC41Req {
	q := &vfC41Req{b: []byte{cmd}}
	if int(cmd) <= int(commands.Asof) {
		q.desc.WriteString(commands.Command(cmd).String())
	} else {
		fmt.Fprintf(&q.desc, "Cmd%d", cmd)
	}
	return q
}

func (q *vfC41Req) note(s string) { q.desc.WriteString(" " + s) }

func (q *vfC41Req) byte_(b byte) *vfC41Req {
	q.b = append(q.b, b)
	fmt.Fprintf(&q.desc, " %q", string(rune(b)))
	return q
}

func (q *vfC41Req) bool_(b byte) *vfC41Req {
	q.b = append(q.b, b)
	fmt.Fprintf(&q.desc, " bool:%d", b)
	return q
}

func vfC41Varint(b []byte, i int64) []byte {
	n := uint64((i << 1) ^ (i >> 63))
	for n > 0x7f {
		b = append(b, byte(n)|0x80)
		n >>= 7
	}
	return append(b, byte(n))
}

func (q *vfC41Req) int_(i int64) *vfC41Req {
	q.b = vfC41Varint(q.b, i)
	fmt.Fprintf(&q.desc, " %d", i)
	return q
}

func (q *vfC41Req) str(s string) *vfC41Req {
	q.b = vfC41Varint(q.b, int64(len(s)))
	q.b = append(q.b, s...)
	fmt.Fprintf(&q.desc, " %s", vfC41Show(s))
	return q
}

func vfC41Show(s string) string {
	if len(s) > 60 {
		return fmt.Sprintf("%q...(%d bytes)", s[:40], len(s))
	}
	return fmt.Sprintf("%q", s)
}

// response decoding

type vfC41Rd struct{ b []byte }

func (r *vfC41Rd) byte_() byte {
	c := r.b[0]
	r.b = r.b[1:]
	return c
}

func (r *vfC41Rd) int_() int64 {
	var n uint64
	var shift uint
	for {
		c := r.byte_()
		n |= uint64(c&0x7f) << shift
		shift += 7
		if c&0x80 == 0 {
			break
		}
	}
	return int64(n>>1) ^ -int64(n&1)
}

func (r *vfC41Rd) str() string {
	n := int(r.int_())
	s := string(r.b[:n])
	r.b = r.b[n:]
	return s
}

// ---------------------------------------------------------------------------------------
// environment: one database + server machinery per process

type vfC41Env struct {
	db    *db19.Database
	local *DbmsLocal
	scfg  *tls.Config
	th    *Thread
	users map[string]string // model of the users table: user -> passhash
	offs  []int64           // real record offsets (an attacker could guess them)
}

func vfC41Setup() *vfC41Env {
	options.BuiltDate = "Dec 29 2020 12:34"
	options.Action = "server" // what a real server process has (mux.limit, DbmsLocal.Kill)
	db := db19.CreateDb(stor.HeapStor(64 * 1024))
	db19.StartConcur(db, 200*time.Millisecond)
	local := NewDbmsLocal(db)
	GetDbms = func() IDbms { return local } // as gsuneido.go does for a server
	DbmsAuth = true
	workers = mux.NewWorkers(doRequest)
	authLimiter = rate.NewLimiter(rate.Inf, 1) // stimulus speed only
	Exit = func(int) {                          // core.Fatal => the real server exits
		vfC41FatalCalls.Add(1)
		panic(vfC41FatalUnwind{})
	}
	cert, err := tls.X509KeyPair(ServerCert, ServerKey)
	if err != nil {
		panic(err)
	}
	env := &vfC41Env{db: db, local: local, th: &Thread{},
		scfg:  &tls.Config{Certificates: []tls.Certificate{cert}},
		users: map[string]string{"admin": "5f4dcc3b5aa765d61d8327deb882cf99", "joe": "joe-pass-hash-0123"}}
	local.Admin("create users (user, passhash) key(user)", nil)
	local.Admin("create data (k, v) key(k)", nil)
	local.Admin("create stdlib (name, group, text) key(name, group)", nil)
	act := func(s string) {
		t := local.Transaction(true)
		t.Action(env.th, s)
		if r := t.Complete(); r != "" {
			panic("setup: " + r)
		}
	}
	for u, ph := range env.users {
		act(fmt.Sprintf("insert { user: %q, passhash: %q } into users", u, ph))
	}
	for k := 1; k <= 5; k++ {
		act(fmt.Sprintf("insert { k: %d, v: 'secret-%d' } into data", k, k))
	}
	act("insert { name: 'VfThing', group: -1, text: 'function () { 123 }' } into stdlib")
	for i := 0; !db.HaveUsers(); i++ { // info is updated by the asynchronous merge
		time.Sleep(time.Millisecond)
	}
	// real offsets
	t := local.Transaction(false)
	for _, tbl := range []string{"users", "data"} {
		q := t.Query(tbl, nil)
		for {
			row, _ := q.Get(env.th, Next)
			if row == nil {
				break
			}
			env.offs = append(env.offs, int64(row[0].Off))
		}
	}
	t.Complete()
	return env
}

// snapshot reads the logical database content locally (schema tables + all rows).
func (env *vfC41Env) snapshot() string {
	t := env.local.Transaction(false)
	defer t.Complete()
	var out []string
	dump := func(query string, cols ...string) []string {
		var vals []string
		q := t.Query(query, nil)
		hdr := q.Header()
		use := hdr.Columns
		if len(cols) > 0 {
			use = cols
		}
		for {
			row, _ := q.Get(env.th, Next)
			if row == nil {
				break
			}
			var sb strings.Builder
			sb.WriteString(query + ":")
			for _, c := range use {
				raw := row.GetRaw(hdr, c)
				fmt.Fprintf(&sb, " %s=%q", c, raw)
			}
			out = append(out, sb.String())
			if len(cols) == 1 {
				vals = append(vals, ToStr(Unpack(row.GetRaw(hdr, cols[0]))))
			}
		}
		return vals
	}
	// nrows/totalsize in `tables` are maintained by the asynchronous merge: leave them out
	tables := dump("tables", "table")
	dump("columns")
	dump("indexes")
	dump("views")
	for _, tbl := range tables {
		switch tbl {
		case "tables", "columns", "indexes", "views":
		default:
			dump(tbl)
		}
	}
	sort.Strings(out)
	return strings.Join(out, "\n")
}

// ---------------------------------------------------------------------------------------
// model of credentials

type vfC41Tok struct {
	byAuth bool // returned to an authenticated connection
	used   bool
	age    int // number of expireTokens() calls since issue
}

type vfC41Nonce struct {
	val      string
	consumed bool // an Auth attempt has been made on the connection since it was issued
	age      int  // number of expireNonces() calls since issue
}

type vfC41Model struct {
	tokens map[string]*vfC41Tok
}

func (m *vfC41Model) expire(conns ...*vfC41U) {
	expireTokens()
	expireNonces()
	for k, t := range m.tokens {
		t.age++
		if t.age > 3 && len(m.tokens) > 200 {
			delete(m.tokens, k)
		}
	}
	for _, u := range conns {
		if u != nil && u.nonce != nil {
			u.nonce.age++
		}
	}
}

func vfC41UserAuth(user, nonce, passhash string) string {
	h := sha1.Sum([]byte(nonce + passhash))
	return user + "\x00" + string(h[:])
}

// vfC41U is one unauthenticated connection with its model state
type vfC41U struct {
	w       *vfC41Wire
	nonce   *vfC41Nonce   // last nonce issued to this connection
	old     []*vfC41Nonce // nonces issued earlier to this connection
	authed  bool          // an Auth returned true on this connection
	tns     []int64       // ids handed to this connection by accepted commands
	qns     []int64
	sessIds []string
}

// justify decides from the model alone whether a successful Auth(data) on u is allowed.
// reason classifies an unjustified success.
func (m *vfC41Model) justify(env *vfC41Env, u *vfC41U, others []*vfC41Nonce, data string) (bool, string) {
	if t, ok := m.tokens[data]; ok {
		switch {
		case !t.byAuth:
			return false, "C41/auth-with-self-minted-token"
		case t.used:
			return false, "C41/auth-with-used-token"
		case t.age >= 2:
			return false, "C41/auth-with-expired-token"
		}
		return true, ""
	}
	user, _, hasNul := strings.Cut(data, "\x00")
	if !hasNul {
		return false, "C41/auth-accepted-bad-credentials"
	}
	ph, exists := env.users[user]
	if exists && u.nonce != nil && data == vfC41UserAuth(user, u.nonce.val, ph) {
		switch {
		case u.nonce.consumed:
			return false, "C41/auth-with-stale-nonce/already-consumed"
		case u.nonce.age >= 2:
			return false, "C41/auth-with-stale-nonce/expired"
		}
		return true, ""
	}
	if exists {
		for _, n := range u.old {
			if data == vfC41UserAuth(user, n.val, ph) {
				return false, "C41/auth-with-stale-nonce/superseded"
			}
		}
		for _, n := range others {
			if data == vfC41UserAuth(user, n.val, ph) {
				return false, "C41/auth-with-stale-nonce/issued-to-other-connection"
			}
		}
		if data == vfC41UserAuth(user, "", ph) {
			return false, "C41/auth-without-nonce"
		}
		return false, "C41/auth-accepted-bad-credentials"
	}
	if u.nonce != nil && data == vfC41UserAuth(user, u.nonce.val, "") {
		return false, "C41/auth-as-nonexistent-user"
	}
	return false, "C41/auth-accepted-bad-credentials"
}

// ---------------------------------------------------------------------------------------
// command table: argument kinds
//   i transaction/query/cursor number   l int64   s string   b bool   c q|c char
//   d direction byte   g GetOne kind char   v packed value   r record

var vfC41Args = [...]string{
	commands.Abort: "i", commands.Admin: "s", commands.Auth: "s", commands.Check: "b",
	commands.Close: "ic", commands.Commit: "i", commands.Connections: "", commands.Cursor: "s",
	commands.Cursors: "", commands.Erase: "isl", commands.Exec: "v", commands.Strategy: "icb",
	commands.Final: "", commands.Get: "dii", commands.GetOne: "giv", commands.Header: "ic",
	commands.Info: "", commands.Keys: "ic", commands.Kill: "s", commands.LibGet: "s",
	commands.Libraries: "", commands.Log: "s", commands.Nonce: "", commands.Order: "ic",
	commands.Output: "ir", commands.Query: "is", commands.ReadCount: "i", commands.Action: "is",
	commands.Rewind: "ic", commands.Run: "s", commands.SessionId: "s", commands.Size: "",
	commands.Timestamp: "", commands.Token: "", commands.Transaction: "b", commands.Transactions: "",
	commands.Update: "islr", commands.WriteCount: "i", commands.EndSession: "", commands.Asof: "il",
}

var vfC41Allowed = map[commands.Command]bool{
	commands.Auth: true, commands.Nonce: true, commands.SessionId: true, commands.LibGet: true,
	commands.Libraries: true, commands.EndSession: true,
}

var vfC41Strs = map[commands.Command][]string{
	commands.Admin: {"create vfc41_x (a) key(a)", "drop data", "drop users", "alter users create (extra)",
		"ensure data (k, v, w) key(k)", "rename data to data2", "view vfv = data", "create users2 (user, passhash) key(user)",
		"alter data rename v to vv", "drop stdlib", ""},
	commands.Cursor: {"data", "users", "tables", "users where user is 'admin'", "data sort k", "nosuch", ""},
	commands.Query:  {"data", "users", "tables", "columns", "users where user is 'admin'", "nosuch", "", "data join users"},
	commands.Action: {"delete users", "delete data", "insert { user: 'eve', passhash: 'x' } into users",
		"update users set passhash = ''", "insert { k: 99, v: 'x' } into data", "update data set v = 0", ""},
	commands.Run: {"1 + 1", "Database('drop users')", "QueryFirst('users')", "Suneido.x = 1", "ServerEval('x')",
		"Date()", "", "function () { }", "Database.Auth('x')", "Database.Token()"},
	commands.LibGet:    {"VfThing", "Init", "Nope", "", "Object", "vfthing"},
	commands.SessionId: {"", "x", "mallory", "127.0.0.1", "pipe"},
	commands.Kill:      {"pipe", "", "nobody", "127.0.0.1", "mallory"},
	commands.Erase:     {"users", "data", "stdlib", "tables", "nosuch", ""},
	commands.Update:    {"users", "data", "stdlib", "tables", "nosuch", ""},
}

func vfC41Rec(r *rand.Rand) string {
	var rb RecordBuilder
	switch r.IntN(4) {
	case 0:
		rb.Add(SuStr("eve")).Add(SuStr("evehash"))
	case 1:
		rb.Add(IntVal(r.IntN(100))).Add(SuStr("overwritten"))
	case 2:
		rb.Add(SuStr("admin")).Add(SuStr(""))
	default:
		for i := r.IntN(4); i > 0; i-- {
			rb.Add(IntVal(r.IntN(1000)))
		}
	}
	return string(rb.Build())
}

func vfC41Val(r *rand.Rand, cmd commands.Command) string {
	ob := &SuObject{}
	if cmd == commands.Exec {
		fns := []string{"Database.Schema", "Database", "QueryFirst", "Database.Dump", "Query1", "Suneido.Set", "Nope", "Database.Auth"}
		ob.Add(SuStr(fns[r.IntN(len(fns))]))
		args := []Value{SuStr("users"), SuStr("drop users"), SuStr("data"), IntVal(1), SuStr("")}
		for i := r.IntN(3); i > 0; i-- {
			ob.Add(args[r.IntN(len(args))])
		}
		return PackValue(ob)
	}
	qs := []string{"users", "data", "tables", "users where user is 'admin'", "stdlib", "nosuch"}
	switch r.IntN(5) {
	case 0:
		return PackValue(SuStr(qs[r.IntN(len(qs))]))
	case 1:
		ob.Add(SuStr(qs[r.IntN(len(qs))]))
		ob.Set(SuStr("user"), SuStr("admin"))
	case 2:
		ob.Set(SuStr("query"), SuStr(qs[r.IntN(len(qs))]))
	case 3:
		ob.Add(SuStr("data"))
		ob.Set(SuStr("k"), IntVal(1+r.IntN(6)))
	default:
		ob.Add(SuStr(qs[r.IntN(len(qs))]))
	}
	return PackValue(ob)
}

// ---------------------------------------------------------------------------------------
// the authenticated actor

type vfC41A struct {
	w        *vfC41Wire
	sid      uint32
	name     string
	openTn   int64 // update transaction left open across the unauthenticated requests
	readTn   int64 // read transaction with a live query
	readQn   int64
	cursor   int64
	gen      int
	nextKey  int
	nTable   int
	tables   []string
	preNonce *vfC41Nonce // nonce that was issued to this connection before it authenticated
	openTran ITran       // server side object of openTn (only to clean up after the connection was killed)
	broken   string      // an authorized, valid request failed
}

// vfC41FindTran finds the server side transaction object of an open transaction.
// It is used only for cleaning up: the server deliberately does not abort the transactions
// of a closed connection (they time out after MaxAge = 20 s), and a leaked update transaction
// makes db19 rate-limit new transactions once 200 committed ones overlap it.
func vfC41FindTran(tn int) ITran {
	serverConnsLock.Lock()
	defer serverConnsLock.Unlock()
	for _, sc := range serverConns {
		sc.sessionsLock.Lock()
		for _, ss := range sc.sessions {
			if t, ok := ss.trans[tn]; ok {
				sc.sessionsLock.Unlock()
				return t
			}
		}
		sc.sessionsLock.Unlock()
	}
	return nil
}

// cleanup aborts the update transaction that a killed connection left behind
func (a *vfC41A) cleanup() {
	if a.openTran != nil {
		vk.Catch(func() { a.openTran.Abort() })
		a.openTran = nil
	}
}

// call sends a request and returns (payload after the ok byte, ok, alive)
func vfC41Call(w *vfC41Wire, sid uint32, q *vfC41Req, r *rand.Rand) (*vfC41Rd, bool, bool) {
	if w.dead {
		return nil, false, false
	}
	if err := w.send(sid, q.b, r); err != nil {
		return nil, false, false
	}
	data, alive := w.recv(sid)
	if !alive {
		return nil, false, false
	}
	if len(data) == 0 {
		return &vfC41Rd{}, false, true
	}
	return &vfC41Rd{b: data[1:]}, data[0] == 1, true
}

func (a *vfC41A) connect(env *vfC41Env, m *vfC41Model, rep *vk.Report) {
	for try := 0; ; try++ {
		w, err := vfC41Dial(env.local, env.scfg)
		if err != nil {
			if try > 20 {
				panic("C41 harness: cannot connect the authenticated client: " + err.Error())
			}
			continue
		}
		a.gen++
		a.cleanup()
		*a = vfC41A{w: w, sid: 1, gen: a.gen, nextKey: a.nextKey, nTable: a.nTable, tables: a.tables}
		a.name = fmt.Sprintf("vfauth-%d-%d", vk.Shard(), a.gen)
		rd, ok, alive := vfC41Call(w, a.sid, vfC41NewReq(byte(commands.Nonce)), nil)
		if !ok || !alive {
			panic("C41 harness: Nonce failed on a fresh connection")
		}
		nonce := rd.str()
		a.preNonce = &vfC41Nonce{val: nonce}
		rd, ok, alive = vfC41Call(w, a.sid, vfC41NewReq(byte(commands.Auth)).str(vfC41UserAuth("admin", nonce, env.users["admin"])), nil)
		if !ok || !alive || rd.byte_() != 1 {
			rep.Count("authenticated_client_login_refused", 1) // floors make this inconclusive, not a violation
			w.close()
			if try > 20 {
				panic("C41 harness: the legitimate user cannot log in")
			}
			continue
		}
		rep.Count("authenticated_client_logins", 1)
		vfC41Call(w, a.sid, vfC41NewReq(byte(commands.SessionId)).str(a.name), nil)
		return
	}
}

// must is for requests of the authenticated client that have to work
func (a *vfC41A) must(q *vfC41Req, r *rand.Rand) *vfC41Rd {
	rd, ok, alive := vfC41Call(a.w, a.sid, q, r)
	if !alive {
		return nil
	}
	if !ok {
		// an authorized request with valid arguments was answered with an error: the session is not
		// what it was (e.g. a response of some other request was delivered to it)
		msg := ""
		vk.Catch(func() { msg = rd.str() })
		a.broken = q.desc.String() + " answered: " + vk.Trunc(msg, 120)
		a.w.close()
		return nil
	}
	return rd
}

// work does one piece of work. It reports whether committed data may have changed.
func (a *vfC41A) work(env *vfC41Env, m *vfC41Model, r *rand.Rand, rep *vk.Report, allowWrites bool) (changed bool) {
	defer func() {
		if a.w.dead {
			changed = true
		}
	}()
	k := r.IntN(10)
	if !allowWrites && k >= 5 {
		k = r.IntN(5)
	}
	switch k {
	case 0, 1: // mint a token
		if rd := a.must(vfC41NewReq(byte(commands.Token)), r); rd != nil {
			m.tokens[rd.str()] = &vfC41Tok{byAuth: true}
			rep.Count("tokens_minted_by_authenticated", 1)
		}
	case 2: // open a read transaction with a live query and a cursor
		if a.readTn == 0 {
			if rd := a.must(vfC41NewReq(byte(commands.Transaction)).bool_(0), r); rd != nil {
				a.readTn = rd.int_()
				if rd = a.must(vfC41NewReq(byte(commands.Query)).int_(a.readTn).str("data"), r); rd != nil {
					a.readQn = rd.int_()
				}
			}
			if rd := a.must(vfC41NewReq(byte(commands.Cursor)).str("users"), r); rd != nil {
				a.cursor = rd.int_()
			}
		} else if rd := a.must(vfC41NewReq(byte(commands.Get)).byte_('+').int_(0).int_(a.readQn), r); rd != nil {
			rep.Count("authenticated_reads", 1)
		}
	case 3:
		a.must(vfC41NewReq(byte(commands.Connections)), r)
	case 4:
		a.must(vfC41NewReq(byte(commands.Kill)).str("nobody-has-this-id"), r)
	case 5, 6: // committed write
		if rd := a.must(vfC41NewReq(byte(commands.Transaction)).bool_(1), r); rd != nil {
			tn := rd.int_()
			a.nextKey++
			a.must(vfC41NewReq(byte(commands.Action)).int_(tn).str(fmt.Sprintf("insert { k: %d, v: 'by-auth' } into data", 1000+a.nextKey*16+vk.Shard())), r)
			if a.nextKey > 12 { // keep the table (and the snapshots) small
				a.must(vfC41NewReq(byte(commands.Action)).int_(tn).str(fmt.Sprintf("delete data where k = %d", 1000+(a.nextKey-12)*16+vk.Shard())), r)
			}
			if rd = a.must(vfC41NewReq(byte(commands.Commit)).int_(tn), r); rd != nil && rd.byte_() == 1 {
				rep.Count("authenticated_commits", 1)
			}
		}
		return true
	case 7: // leave an update transaction open
		if a.openTn == 0 {
			if rd := a.must(vfC41NewReq(byte(commands.Transaction)).bool_(1), r); rd != nil {
				a.openTn = rd.int_()
				a.openTran = vfC41FindTran(int(a.openTn))
				a.nextKey++
				a.must(vfC41NewReq(byte(commands.Action)).int_(a.openTn).str(fmt.Sprintf("insert { k: %d, v: 'pending' } into data", 1000+a.nextKey*16+vk.Shard())), r)
			}
		}
	case 8: // schema change
		if len(a.tables) < 3 {
			a.nTable++
			name := fmt.Sprintf("vfa%d", a.nTable)
			if a.must(vfC41NewReq(byte(commands.Admin)).str("create "+name+" (a, b) key(a)"), r) != nil {
				a.tables = append(a.tables, name)
			}
		} else {
			if a.must(vfC41NewReq(byte(commands.Admin)).str("drop "+a.tables[0]), r) != nil {
				a.tables = a.tables[1:]
			}
		}
		return true
	case 9:
		a.must(vfC41NewReq(byte(commands.Size)), r)
	}
	return false
}

// verify checks that the authenticated session is what it was. It returns a description of
// the damage or "".
func (a *vfC41A) verify(r *rand.Rand, rep *vk.Report, finishOpen bool) string {
	rd, ok, alive := vfC41Call(a.w, a.sid, vfC41NewReq(byte(commands.SessionId)).str(""), nil)
	if !alive {
		return "connection-closed"
	}
	if !ok {
		return "session-broken"
	}
	if got := rd.str(); got != a.name {
		return "session-id-changed to " + got
	}
	if a.readTn != 0 {
		_, ok, alive = vfC41Call(a.w, a.sid, vfC41NewReq(byte(commands.Get)).byte_('+').int_(0).int_(a.readQn), nil)
		if !alive {
			return "connection-closed"
		}
		if !ok {
			return "open-query-lost"
		}
	}
	if finishOpen && a.openTn != 0 {
		rd, ok, alive = vfC41Call(a.w, a.sid, vfC41NewReq(byte(commands.Commit)).int_(a.openTn), nil)
		a.openTn = 0
		if !alive {
			return "connection-closed"
		}
		a.openTran = nil
		if !ok || rd.byte_() != 1 {
			return "open-transaction-lost"
		}
		rep.Count("authenticated_open_tran_survived", 1)
	}
	return ""
}

// ---------------------------------------------------------------------------------------

type vfC41Step struct {
	Sid  uint32 `json:"sid"`
	Req  string `json:"req"`
	Resp string `json:"resp"`
}

func vfC41RespDesc(rd *vfC41Rd, ok, alive bool) string {
	if !alive {
		return "connection closed"
	}
	if ok {
		return fmt.Sprintf("OK %x", rd.b[:min(len(rd.b), 24)])
	}
	msg := "?"
	vk.Catch(func() { c := *rd; msg = c.str() })
	return "ERR " + vk.Trunc(msg, 80)
}

var vfC41RealStderr *os.File

func TestVerifC41(t *testing.T) {
	rep := vk.NewReport("C41",
		"a case is one sequence of about 30 generated requests on a fresh unauthenticated connection (every command code drawn uniformly, "+
			"arguments from hostile pools incl. the authenticated client's live transaction/query/cursor numbers and session id, real record offsets, "+
			"Auth attempts of 16 kinds, 5% malformed encodings), interleaved with work of an authenticated connection; "+
			"non-trivial = the sequence sent >= 8 distinct command codes and >= 1 Auth attempt; distinct by the request list",
		"the raw wire client and the credential model (users, nonces, tokens) written for this monitor are the trusted base",
		"the database content is read locally through DbmsLocal queries (observation, not oracle)",
		"expireTokens()/expireNonces() are called directly as the stimulus for the one-minute background expiry")
	defer rep.Finish()
	log.SetOutput(io.Discard) // the server logs every refused request with a stack
	if devnull, err := os.OpenFile(os.DevNull, os.O_WRONLY, 0); err == nil {
		vfC41RealStderr = os.Stderr // keep it reachable: its finalizer would close fd 2
		os.Stderr = devnull // dbg.PrintStack writes there; runtime crash output still goes to fd 2
	}
	env := vfC41Setup()
	m := &vfC41Model{tokens: map[string]*vfC41Tok{}}
	a := &vfC41A{}
	a.connect(env, m, rep)

	nseq := vk.N(6000, 80000)
	var selfTokens []string
	for seq := 0; seq < nseq; seq++ {
		r := vk.RandFor(41, seq)
		rep.Case("seq %d", seq)
		if a.w.dead {
			a.connect(env, m, rep)
		}
		for i := r.IntN(3); i >= 0 && !a.w.dead; i-- {
			a.work(env, m, r, rep, true)
		}
		if a.w.dead {
			a.connect(env, m, rep)
		}
		w, err := vfC41Dial(env.local, env.scfg)
		if err != nil {
			panic("C41 harness: dial: " + err.Error())
		}
		u := &vfC41U{w: w}
		var v *vfC41U // a second unauthenticated connection (source of foreign nonces)
		otherNonces := func() []*vfC41Nonce {
			l := []*vfC41Nonce{a.preNonce}
			if v != nil && v.nonce != nil {
				l = append(l, v.nonce)
			}
			return l
		}
		var steps []vfC41Step
		cmdsSeen := map[byte]bool{}
		authAttempts := 0
		seqHash := []any{}
		deaths0, fatals0 := vfC41ServerDeaths.Load(), vfC41FatalCalls.Load()
		snap := env.snapshot()
		nreq := 20 + r.IntN(21)
		witness := func() any {
			s := steps
			if len(s) > 40 {
				s = s[len(s)-40:]
			}
			return map[string]any{"seq": seq, "shard": vk.Shard(), "seed": vk.Seed(), "steps": s}
		}
		record := func(sid uint32, q *vfC41Req, rd *vfC41Rd, ok, alive bool) {
			steps = append(steps, vfC41Step{Sid: sid, Req: vk.Trunc(q.desc.String(), 200), Resp: vfC41RespDesc(rd, ok, alive)})
		}
		checkSideEffects := func(q *vfC41Req, cmdName string) {
			if d := vfC41ServerDeaths.Load(); d != deaths0 {
				deaths0 = d
				last, _ := vfC41LastDeath.Load().(string)
				rep.Violate("C41/unauth-request-terminates-server/"+cmdName, q.desc.String(),
					map[string]any{"what": "a panic escaped newServerConn (in Server it runs as a bare goroutine: the server process dies)", "panic": last, "history": witness()})
			}
			if f := vfC41FatalCalls.Load(); f != fatals0 {
				fatals0 = f
				rep.Violate("C41/unauth-request-terminates-server/"+cmdName, q.desc.String(),
					map[string]any{"what": "core.Fatal was called while serving the request (the server process exits)", "history": witness()})
			}
		}

		// gen builds one request for the unauthenticated connection
		// The server handles one request per session at a time (the session object carries the
		// request/response buffers). EndSession has no response, so a request sent right after it on
		// the same session id can overlap it: a session id is retired once EndSession was sent on it.
		// Overlapping requests are a separate, deliberate stimulus (see "overlap" below).
		retired := map[uint32]bool{}
		base := []uint32{1, 2, 3}
		pickSid := func() uint32 {
			for {
				var sid uint32
				if r.IntN(8) == 0 {
					sid = uint32(r.IntN(1000)) + 100
				} else {
					sid = base[r.IntN(3)]
				}
				if !retired[sid] {
					return sid
				}
			}
		}
		nextBase := uint32(2000)
		retire := func(sid uint32) {
			retired[sid] = true
			for i, b := range base {
				if b == sid {
					nextBase++
					base[i] = nextBase
				}
			}
		}

		genInt := func() int64 {
			pool := []int64{0, 0, 1, 2, 3, -1, a.openTn, a.readTn, a.readQn, a.cursor, lastNum.Load(), lastNum.Load() - 1, int64(r.IntN(50))}
			pool = append(pool, u.tns...)
			pool = append(pool, u.qns...)
			return pool[r.IntN(len(pool))]
		}
		genStr := func(cmd commands.Command) string {
			pool := vfC41Strs[cmd]
			switch cmd {
			case commands.Kill, commands.SessionId:
				pool = append(append([]string{a.name, a.name}, pool...), u.sessIds...)
			case commands.Log:
				n := []int{0, 1, 20, 200, 5000, 10239, 10240, 12000}[r.IntN(8)]
				return strings.Repeat("L", n)
			}
			if len(pool) == 0 || r.IntN(12) == 0 {
				b := make([]byte, r.IntN(12))
				for i := range b {
					b[i] = byte(r.IntN(256))
				}
				return string(b)
			}
			return pool[r.IntN(len(pool))]
		}
		gen := func(cmd commands.Command) *vfC41Req {
			q := vfC41NewReq(byte(cmd))
			for _, kind := range vfC41Args[cmd] {
				switch kind {
				case 'i':
					q.int_(genInt())
				case 'l':
					if r.IntN(2) == 0 && len(env.offs) > 0 {
						q.int_(env.offs[r.IntN(len(env.offs))])
					} else {
						q.int_([]int64{0, 1, 64, -1, 1 << 40, int64(r.IntN(100000))}[r.IntN(6)])
					}
				case 's':
					q.str(genStr(cmd))
				case 'b':
					q.bool_(byte(r.IntN(2)))
				case 'c':
					if r.IntN(10) == 0 {
						q.byte_(byte(r.IntN(256)))
					} else {
						q.byte_("qc"[r.IntN(2)])
					}
				case 'd':
					q.byte_("+-+-1@?x"[r.IntN(8)])
				case 'g':
					q.byte_("+-1@?+-1@?z"[r.IntN(11)])
				case 'v':
					if r.IntN(15) == 0 {
						b := make([]byte, 1+r.IntN(20))
						for i := range b {
							b[i] = byte(r.IntN(256))
						}
						q.str(string(b))
					} else {
						q.str(vfC41Val(r, cmd))
					}
				case 'r':
					q.str(vfC41Rec(r))
				}
			}
			return q
		}
		malform := func(q *vfC41Req, cmd commands.Command) {
			switch r.IntN(5) {
			case 0: // truncated
				if len(q.b) > 1 {
					q.b = q.b[:1+r.IntN(len(q.b)-1)]
					q.note("[truncated]")
				}
			case 1: // trailing bytes
				for i := 1 + r.IntN(3); i > 0; i-- {
					q.b = append(q.b, byte(r.IntN(256)))
				}
				q.note("[trailing bytes]")
			case 2: // a length prefix that promises more than there is
				q.b = vfC41Varint(q.b, []int64{5, 1 << 20, 1<<20 + 1, 1 << 40, -1, -1 << 40}[r.IntN(6)])
				q.note("[dangling length]")
			case 3: // boolean that is neither 0 nor 1
				if i := strings.IndexByte(vfC41Args[cmd], 'b'); i >= 0 && i == len(vfC41Args[cmd])-1 {
					q.b[len(q.b)-1] = byte(2 + r.IntN(254))
					q.note(fmt.Sprintf("[bool byte %d]", q.b[len(q.b)-1]))
				} else {
					q.b = append(q.b, byte(2+r.IntN(254)))
					q.note("[trailing bytes]")
				}
			default: // empty message body after the command
				q.b = q.b[:1]
				q.note("[no arguments]")
			}
		}

		// judge handles the response of a non-Auth request
		judge := func(cmd commands.Command, sid uint32, q *vfC41Req, rd *vfC41Rd, ok, alive bool) {
			name := cmd.String()
			record(sid, q, rd, ok, alive)
			rep.Count("requests_unauthenticated", 1)
			checkSideEffects(q, name)
			if u.authed {
				return
			}
			switch {
			case !alive:
				rep.Count("connection_closed_by_server", 1)
				if cmd == commands.Kill {
					rep.Violate("C41/unauth-cmd-accepted/Kill", q.desc.String(),
						map[string]any{"what": "the connection was closed by the Kill request of an unauthenticated client", "history": witness()})
				}
			case !ok:
				rep.Count("refused", 1)
				msg := ""
				vk.Catch(func() { c := *rd; msg = c.str() })
				if strings.Contains(msg, notauth) {
					rep.Count("refused_not_authorized", 1)
				}
			case vfC41Allowed[cmd]:
				rep.Count("allowed_ok", 1)
				rep.Seen("allowed_cmds_ok", name)
			default:
				rep.Seen("accepted_forbidden_cmds", name)
				rep.Violate("C41/unauth-cmd-accepted/"+name, q.desc.String(),
					map[string]any{"response": vfC41RespDesc(rd, ok, alive), "history": witness()})
			}
			if !alive || !ok {
				return
			}
			// learn from accepted responses, like an attacker would
			vk.Catch(func() {
				c := *rd
				switch cmd {
				case commands.Nonce:
					if u.nonce != nil {
						u.old = append(u.old, u.nonce)
					}
					u.nonce = &vfC41Nonce{val: c.str()}
					rep.Count("nonces_issued", 1)
				case commands.Token:
					tok := c.str()
					if _, dup := m.tokens[tok]; !dup {
						m.tokens[tok] = &vfC41Tok{byAuth: false}
						selfTokens = append(selfTokens, tok)
					}
				case commands.Transaction:
					u.tns = append(u.tns, c.int_())
				case commands.Query, commands.Cursor:
					u.qns = append(u.qns, c.int_())
				case commands.Connections:
					if ob, isOb := Unpack(c.str()).(*SuObject); isOb {
						for i := 0; i < ob.ListSize() && i < 8; i++ {
							u.sessIds = append(u.sessIds, ToStr(ob.ListGet(i)))
						}
					}
				}
			})
		}

		// authAttempt builds and judges one Auth request
		authAttempt := func() {
			type cand struct {
				kind string
				data string
			}
			var cs []cand
			add := func(kind, data string) { cs = append(cs, cand{kind, data}) }
			rb := make([]byte, 1+r.IntN(40))
			for i := range rb {
				rb[i] = byte(r.IntN(256))
			}
			add("garbage", string(rb))
			add("garbage", "admin\x00"+string(rb))
			add("password-in-clear", "admin\x00"+env.users["admin"])
			add("no-nonce", vfC41UserAuth("admin", "", env.users["admin"]))
			rt := make([]byte, tokenSize)
			for i := range rt {
				rt[i] = byte(r.IntN(256))
			}
			add("token-random", string(rt))
			if u.nonce != nil {
				for i := 0; i < 2; i++ {
					add("nonce-valid-or-consumed", vfC41UserAuth("admin", u.nonce.val, env.users["admin"]))
					add("nonce-valid-or-consumed", vfC41UserAuth("joe", u.nonce.val, env.users["joe"]))
				}
				add("wrong-passhash", vfC41UserAuth("admin", u.nonce.val, "wrong"))
				add("wrong-user", vfC41UserAuth("joe", u.nonce.val, env.users["admin"]))
				add("nonexistent-user", vfC41UserAuth("ghost", u.nonce.val, ""))
				add("empty-user", vfC41UserAuth("", u.nonce.val, ""))
				add("empty-passhash", vfC41UserAuth("admin", u.nonce.val, ""))
				add("hash-without-user", vfC41UserAuth("admin", u.nonce.val, env.users["admin"])[6:])
			}
			for _, n := range u.old {
				add("nonce-superseded", vfC41UserAuth("admin", n.val, env.users["admin"]))
			}
			for _, n := range otherNonces() {
				add("nonce-of-other-connection", vfC41UserAuth("admin", n.val, env.users["admin"]))
			}
			var valid, used, expired []string
			for tok, t := range m.tokens {
				switch {
				case !t.byAuth:
				case t.used:
					used = append(used, tok)
				case t.age >= 2:
					expired = append(expired, tok)
				default:
					valid = append(valid, tok)
				}
			}
			sort.Strings(valid)
			sort.Strings(used)
			sort.Strings(expired)
			if len(valid) > 0 && r.IntN(3) == 0 {
				add("token-valid", valid[r.IntN(len(valid))])
			}
			if len(valid) > 0 {
				tk := valid[r.IntN(len(valid))]
				add("token-truncated", tk[:len(tk)-1])
				add("token-extended", tk+"\x00")
			}
			if len(used) > 0 {
				add("token-used", used[r.IntN(len(used))])
				add("token-used", used[r.IntN(len(used))])
			}
			if len(expired) > 0 {
				add("token-expired", expired[r.IntN(len(expired))])
				add("token-expired", expired[r.IntN(len(expired))])
			}
			if len(selfTokens) > 0 {
				for i := 0; i < 3; i++ {
					add("token-self-minted", selfTokens[len(selfTokens)-1-r.IntN(min(len(selfTokens), 3))])
				}
			}
			c := cs[r.IntN(len(cs))]
			justified, class := m.justify(env, u, otherNonces(), c.data)
			switch c.kind {
			case "nonexistent-user", "empty-user", "token-self-minted":
				justified = true // for the thinning below only; recomputed after it
			}
			if justified && r.IntN(4) != 0 {
				// attempts that (should or are known to) succeed end the unauthenticated
				// history: keep most sequences going
				c = cs[r.IntN(5)]
			}
			sid := pickSid()
			q := vfC41NewReq(byte(commands.Auth)).str(c.data)
			q.note("[" + c.kind + "]")
			justified, class = m.justify(env, u, otherNonces(), c.data)
			rd, ok, alive := vfC41Call(u.w, sid, q, r)
			record(sid, q, rd, ok, alive)
			authAttempts++
			rep.Seen("cmds_sent", "Auth")
			cmdsSeen[byte(commands.Auth)] = true
			seqHash = append(seqHash, q.desc.String())
			rep.Count("auth_attempts", 1)
			rep.Seen("auth_attempt_kinds", c.kind)
			checkSideEffects(q, "Auth")
			if u.nonce != nil {
				u.nonce.consumed = true
			}
			if !alive || !ok {
				if u.authed {
					rep.Count("auth_on_authorized_connection_refused", 1)
				}
				return
			}
			result := false
			vk.Catch(func() { result = rd.byte_() == 1 })
			if !result {
				rep.Count("auth_refused", 1)
				if justified {
					rep.Count("auth_valid_but_refused", 1)
				}
				return
			}
			u.authed = true
			if t, isTok := m.tokens[c.data]; isTok {
				defer func() { t.used = true }()
			}
			if justified {
				rep.Count("auth_justified_ok", 1)
				rep.Count("auth_justified_ok_"+map[bool]string{true: "token", false: "nonce"}[c.kind == "token-valid"], 1)
				return
			}
			// unjustified success: show what it gives
			det := map[string]any{"attempt": c.kind, "history": witness()}
			q2 := vfC41NewReq(byte(commands.Admin)).str("create vfc41_pwned (a) key(a)")
			if _, ok2, alive2 := vfC41Call(u.w, sid, q2, nil); alive2 && ok2 {
				det["impact"] = "the connection then ran: create vfc41_pwned (a) key(a)"
				env.local.Admin("drop vfc41_pwned", nil)
			}
			rep.Violate(class, q.desc.String(), det)
		}

		for j := 0; j < nreq && !u.w.dead; j++ {
			if u.authed {
				break // the rest of the sequence would not be an unauthenticated history
			}
			x := r.IntN(100)
			switch {
			case x < 3: // background expiry
				m.expire(u, v)
				rep.Count("expiry_rounds", 1)
				seqHash = append(seqHash, "expire")
				continue
			case x < 6: // a second unauthenticated connection gets a nonce
				if v == nil {
					if w2, err := vfC41Dial(env.local, env.scfg); err == nil {
						v = &vfC41U{w: w2}
					}
				}
				if v != nil {
					if rd, ok, alive := vfC41Call(v.w, 1, vfC41NewReq(byte(commands.Nonce)), nil); ok && alive {
						vk.Catch(func() { v.nonce = &vfC41Nonce{val: rd.str()} })
					}
				}
				continue
			case x < 14: // the authenticated client does something in between
				if a.w.dead {
					break
				}
				// a committed change of the authenticated client is not the unauthenticated
				// client's: compare what we have so far, then re-base
				if s := env.snapshot(); s != snap {
					rep.Violate("C41/database-changed", vfC41Diff(snap, s), witness())
					snap = s
				}
				if a.work(env, m, r, rep, true) {
					snap = env.snapshot()
				}
				rep.Count("authenticated_interleaved_steps", 1)
				continue
			case x < 30:
				authAttempt()
				continue
			case x < 40:
				q := vfC41NewReq(byte(commands.Nonce))
				sid := pickSid()
				rd, ok, alive := vfC41Call(u.w, sid, q, r)
				cmdsSeen[byte(commands.Nonce)] = true
				rep.Seen("cmds_sent", "Nonce")
				seqHash = append(seqHash, q.desc.String())
				judge(commands.Nonce, sid, q, rd, ok, alive)
				continue
			case x < 44: // pipelined batch on distinct sessions (no Nonce/Auth/Kill/EndSession inside)
				k := 2 + r.IntN(4)
				type sent struct {
					cmd commands.Command
					sid uint32
					q   *vfC41Req
				}
				var batch []sent
				for i := 0; i < k; i++ {
					cmd := commands.Command(r.IntN(int(commands.Asof) + 1))
					switch cmd {
					case commands.Nonce, commands.Auth, commands.Kill, commands.EndSession, commands.Token:
						continue
					}
					q := gen(cmd)
					s := sent{cmd, uint32(10 + i), q}
					if u.w.send(s.sid, q.b, r) != nil {
						break
					}
					cmdsSeen[byte(cmd)] = true
					seqHash = append(seqHash, q.desc.String())
					rep.Seen("cmds_sent", cmd.String())
					batch = append(batch, s)
				}
				rep.Count("pipelined_requests", len(batch))
				for _, s := range batch {
					data, alive := u.w.recv(s.sid)
					var rd *vfC41Rd
					ok := false
					if alive && len(data) > 0 {
						rd, ok = &vfC41Rd{b: data[1:]}, data[0] == 1
					} else if alive {
						rd = &vfC41Rd{}
					}
					judge(s.cmd, s.sid, s.q, rd, ok, alive)
				}
				continue
			}
			// one request, any command code
			cmd := commands.Command(r.IntN(int(commands.Asof) + 1))
			if cmd == commands.Auth {
				authAttempt()
				continue
			}
			sid := pickSid()
			q := gen(cmd)
			if r.IntN(20) == 0 && cmd != commands.EndSession {
				malform(q, cmd)
				rep.Count("malformed_requests", 1)
			}
			cmdsSeen[byte(cmd)] = true
			seqHash = append(seqHash, q.desc.String())
			rep.Seen("cmds_sent", cmd.String())
			rep.Count("sent_"+cmd.String(), 1)
			if cmd == commands.EndSession { // no response
				if u.w.send(sid, q.b, r) == nil {
					rep.Count("requests_unauthenticated", 1)
					steps = append(steps, vfC41Step{Sid: sid, Req: q.desc.String(), Resp: "(none expected)"})
				}
				retire(sid)
				continue
			}
			if cmd == commands.Kill {
				rep.Case("seq %d: %s", seq, q.desc.String())
			}
			rd, ok, alive := vfC41Call(u.w, sid, q, r)
			judge(cmd, sid, q, rd, ok, alive)
			if cmd == commands.Kill && !a.w.dead {
				if dmg := a.verify(r, rep, false); dmg != "" {
					rep.Violate("C41/other-session-affected/"+strings.SplitN(dmg, " ", 2)[0]+"/by-Kill", q.desc.String(),
						map[string]any{"damage": dmg, "authenticated_session": a.name, "history": witness()})
					a.w.close()
				}
			}
		}
		// occasionally: frames that are not requests at all (framing level hostility)
		if !u.w.dead && !u.authed && r.IntN(25) == 0 {
			q := vfC41NewReq(0)
			q.desc.Reset()
			switch r.IntN(3) {
			case 0:
				q.desc.WriteString("frame{size 0, final} (zero-length message)")
				rep.Case("seq %d: %s", seq, q.desc.String())
				u.w.frame(77, nil, true)
			case 1:
				q.desc.WriteString("frame{command code 200}")
				u.w.frame(77, []byte{200}, true)
			default:
				q.desc.WriteString("frame{final byte 7}")
				b := []byte{0, 0, 0, 1, 0, 0, 0, 77, 7, 0}
				u.w.conn.Write(b)
			}
			rep.Count("hostile_frames", 1)
			u.w.recv(77) // the server answers or closes
			steps = append(steps, vfC41Step{Sid: 77, Req: q.desc.String(), Resp: map[bool]string{true: "connection closed", false: "answered"}[u.w.dead]})
			checkSideEffects(q, "frame")
		}

		// end of the unauthenticated history: everything must be as it was
		nontrivial := len(cmdsSeen) >= 8 && authAttempts >= 1
		rep.Eval(vk.Hash64(seqHash...), nontrivial)
		if !u.authed {
			if !u.w.dead {
				q := vfC41NewReq(byte(commands.Final))
				rd, ok, alive := vfC41Call(u.w, 9001, q, nil)
				record(9001, q, rd, ok, alive)
				if alive && ok {
					rep.Violate("C41/authorized-without-auth", "Final accepted at the end of the sequence", witness())
				} else if alive {
					rep.Count("still_unauthorized_probes", 1)
				}
			}
			if s := env.snapshot(); s != snap {
				rep.Violate("C41/database-changed", vfC41Diff(snap, s), witness())
			} else {
				rep.Count("database_unchanged_checks", 1)
			}
		} else {
			rep.Count("sequences_ended_authenticated", 1)
		}
		if !a.w.dead {
			if dmg := a.verify(r, rep, true); dmg != "" {
				rep.Violate("C41/other-session-affected/"+strings.SplitN(dmg, " ", 2)[0], fmt.Sprintf("seq %d", seq),
					map[string]any{"damage": dmg, "authenticated_session": a.name, "history": witness()})
				a.w.close()
			} else {
				rep.Count("authenticated_session_intact_checks", 1)
			}
		}
		if a.broken != "" {
			rep.Violate("C41/other-session-affected/request-failed", vfC41Digits(a.broken),
				map[string]any{"what": "a valid request of the authenticated connection was answered with an error", "request_and_answer": a.broken,
					"authenticated_session": a.name, "history": witness()})
			a.broken = ""
		}
		if rep.WantSample() && len(steps) > 10 {
			rep.Sample(map[string]any{"seq": seq, "steps": steps[:10]})
		}
		u.w.close()
		if v != nil {
			v.w.close()
		}
		rep.Count("sequences", 1)
	}

	// ---- phase 2: requests that overlap on ONE session id of an unauthenticated connection.
	// The server handles one request per session at a time; a client that does not wait for the
	// response breaks that assumption. Its own responses may then be garbled (not judged). What the
	// statement promises is that OTHER sessions are not affected: the authenticated connection keeps
	// sending requests meanwhile and every one of them must get its own, correct response.
	nov := vk.N(600, 16000)
	refused := []func() *vfC41Req{
		func() *vfC41Req { return vfC41NewReq(byte(commands.Transaction)).bool_(1) },
		func() *vfC41Req { return vfC41NewReq(byte(commands.Size)) },
		func() *vfC41Req { return vfC41NewReq(byte(commands.Info)) },
		func() *vfC41Req { return vfC41NewReq(byte(commands.Check)).bool_(0) },
		func() *vfC41Req { return vfC41NewReq(byte(commands.Cursor)).str("data") },
		func() *vfC41Req { return vfC41NewReq(byte(commands.Run)).str("1 + 1") },
		func() *vfC41Req { return vfC41NewReq(byte(commands.Libraries)) },
		func() *vfC41Req { return vfC41NewReq(byte(commands.LibGet)).str("VfThing") },
		func() *vfC41Req { return vfC41NewReq(byte(commands.EndSession)) },
		func() *vfC41Req { return vfC41NewReq(byte(commands.Abort)).int_(3) },
	}
	for i := 0; i < nov; i++ {
		r := vk.RandFor(4102, i)
		rep.Case("overlap %d", i)
		if a.w.dead {
			a.connect(env, m, rep)
		}
		w, err := vfC41Dial(env.local, env.scfg)
		if err != nil {
			panic("C41 harness: dial: " + err.Error())
		}
		deaths0, fatals0 := vfC41ServerDeaths.Load(), vfC41FatalCalls.Load()
		done := make(chan string, 1)
		nA := 0
		go func() {
			bad := ""
			for k := 0; k < 25 && bad == ""; k++ {
				rd, ok, alive := vfC41Call(a.w, a.sid, vfC41NewReq(byte(commands.SessionId)).str(""), nil)
				nA++
				switch {
				case !alive:
					bad = "connection-closed"
				case !ok:
					msg := ""
					vk.Catch(func() { msg = rd.str() })
					bad = "error-response: " + vk.Trunc(msg, 100)
				default:
					got := "?"
					vk.Catch(func() { got = rd.str() })
					if got != a.name || len(rd.b) != 0 {
						bad = "wrong-response: " + vk.Trunc(fmt.Sprintf("%q +%d bytes", got, len(rd.b)), 100)
					}
				}
			}
			done <- bad
		}()
		var burst []string
		for b := 0; b < 4 && !w.dead; b++ {
			osid := uint32(1 + r.IntN(3))
			for k := 2 + r.IntN(4); k > 0; k-- {
				q := refused[r.IntN(len(refused))]()
				if w.send(osid, q.b, nil) != nil {
					break
				}
				burst = append(burst, fmt.Sprintf("sid %d: %s", osid, q.desc.String()))
				rep.Count("overlapping_requests", 1)
			}
		}
		var bad string
		select {
		case bad = <-done:
		case <-time.After(2 * time.Minute):
			// no answer to a request of the authenticated connection (e.g. its worker died). A time
			// limit must not decide a verdict: the burst is given up and counted, nothing else.
			rep.Count("overlap_bursts_given_up_no_response", 1)
			a.w.close()
			<-done
			w.close()
			continue
		}
		rep.Count("overlap_bursts", 1)
		rep.Count("overlap_authenticated_requests", nA)
		rep.Eval(vk.Hash64("overlap", strings.Join(burst, ";")), len(burst) >= 4)
		if bad != "" {
			kind, _, _ := strings.Cut(bad, ":")
			rep.Violate("C41/other-session-affected/"+kind+"/overlapping-requests", vfC41Digits(bad),
				map[string]any{"what": "while an unauthenticated connection sent several requests on one session id without waiting for the responses, " +
					"a SessionId(\"\") request of the authenticated connection (session " + a.name + ") got: " + bad,
					"unauthenticated_requests": burst, "case": i, "shard": vk.Shard(), "seed": vk.Seed()})
			a.w.close()
		}
		if d := vfC41ServerDeaths.Load(); d != deaths0 {
			last, _ := vfC41LastDeath.Load().(string)
			rep.Violate("C41/unauth-request-terminates-server/overlapping-requests", vfC41Digits(last), map[string]any{"panic": last, "unauthenticated_requests": burst})
		}
		if f := vfC41FatalCalls.Load(); f != fatals0 {
			rep.Violate("C41/unauth-request-terminates-server/overlapping-requests", "core.Fatal", map[string]any{"unauthenticated_requests": burst})
		}
		w.close()
	}

	// phase 3: a one-time token presented by several fresh connections at the same moment, while the attempt
	// limiter makes the attempts queue (the production limiter admits 4 attempts per second; here one per 3 ms so
	// that a round takes milliseconds - the order of events, not the delay, is what is being explored).
	// However the attempts interleave, at most one of them may be accepted, and only that connection may read.
	authLimiter = rate.NewLimiter(rate.Every(3*time.Millisecond), 1)
	defer func() { authLimiter = rate.NewLimiter(rate.Inf, 1) }()
	nrace := vk.N(60, 1500)
	for i := 0; i < nrace; i++ {
		rep.Case("token race %d", i)
		if a.w.dead {
			a.connect(env, m, rep)
		}
		rd := a.must(vfC41NewReq(byte(commands.Token)), nil)
		if rd == nil {
			rep.Count("token_race_rounds_given_up", 1)
			continue
		}
		tok := rd.str()
		m.tokens[tok] = &vfC41Tok{byAuth: true, used: true}
		k := 2 + i%3
		var ws []*vfC41Wire
		for len(ws) < k+1 {
			w, err := vfC41Dial(env.local, env.scfg)
			if err != nil {
				break
			}
			ws = append(ws, w)
		}
		if len(ws) < k+1 {
			for _, w := range ws {
				w.close()
			}
			rep.Count("token_race_rounds_given_up", 1)
			continue
		}
		start := make(chan struct{})
		accepted := make([]bool, k)
		var wg sync.WaitGroup
		wg.Add(k + 1)
		go func() { // decoy: a failing attempt that occupies the limiter
			defer wg.Done()
			<-start
			vfC41Call(ws[k], 1, vfC41NewReq(byte(commands.Auth)).str("nobody\x00not-a-hash"), nil)
		}()
		for j := 0; j < k; j++ {
			go func() {
				defer wg.Done()
				<-start
				rd, ok, alive := vfC41Call(ws[j], 1, vfC41NewReq(byte(commands.Auth)).str(tok), nil)
				accepted[j] = ok && alive && rd.byte_() == 1
			}()
		}
		close(start)
		wg.Wait()
		nAccepted, nReaders := 0, 0
		for j := 0; j < k; j++ {
			if accepted[j] {
				nAccepted++
			}
			if _, ok, alive := vfC41Call(ws[j], 1, vfC41NewReq(byte(commands.Transaction)).bool_(0), nil); ok && alive {
				nReaders++
				if !accepted[j] {
					rep.Violate("C41/connection-can-read-after-its-token-was-refused", fmt.Sprintf("race %d", i), map[string]any{"contenders": k})
				}
			}
		}
		for _, w := range ws {
			w.close()
		}
		rep.Count("token_race_rounds", 1)
		rep.Count("token_race_attempts", k)
		rep.Eval(vk.Hash64("token-race", vk.Shard(), i), true)
		switch {
		case nAccepted > 1 || nReaders > 1:
			rep.Violate("C41/one-time-token-accepted-more-than-once", fmt.Sprintf("race %d", i),
				map[string]any{"what": "the same token was presented by several fresh connections at the same time", "contenders": k, "accepted": nAccepted, "connections_that_can_read": nReaders})
		case nAccepted == 1:
			rep.Count("token_race_rounds_with_one_winner", 1)
		default:
			rep.Count("token_race_rounds_nobody_accepted", 1)
		}
	}
}

func vfC41Digits(s string) string {
	var sb strings.Builder
	prev := false
	for _, c := range s {
		if c >= '0' && c <= '9' {
			if !prev {
				sb.WriteByte('N')
			}
			prev = true
		} else {
			sb.WriteRune(c)
			prev = false
		}
	}
	return sb.String()
}

func vfC41Diff(a, b string) string {
	as, bs := strings.Split(a, "\n"), strings.Split(b, "\n")
	in := func(l []string, s string) bool {
		i := sort.SearchStrings(l, s)
		return i < len(l) && l[i] == s
	}
	var d []string
	for _, s := range as {
		if !in(bs, s) {
			d = append(d, "-"+s)
		}
	}
	for _, s := range bs {
		if !in(as, s) {
			d = append(d, "+"+s)
		}
	}
	return vk.Trunc(strings.Join(d, " | "), 400)
}

var _ sync.Mutex
