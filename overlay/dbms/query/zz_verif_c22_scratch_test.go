package query

import (
	"fmt"
	"testing"

	. "github.com/apmckinlay/gsuneido/core"
	"github.com/apmckinlay/gsuneido/db19"
	"github.com/apmckinlay/gsuneido/db19/stor"
	vk "github.com/apmckinlay/gsuneido/util/verifkit"
)

func vfScratchDB(stmts ...string) *db19.Database {
	st := stor.HeapStor(64 * 1024)
	st.Alloc(1)
	db := db19.CreateDb(st)
	db.CheckerSync()
	for _, s := range stmts {
		if len(s) > 6 && s[:6] == "insert" {
			ut := db.NewUpdateTran()
			DoAction(nil, ut, s)
			db.CommitMerge(ut)
		} else {
			DoAdmin(db, s, nil)
		}
	}
	return db
}

func vfScratchRun(db *db19.Database, qs string) {
	th := &Thread{}
	p, _ := vk.Catch(func() {
		rt := db.NewReadTran()
		q := ParseQuery(qs, rt, nil)
		q, _, _ = Setup(q, ReadMode, rt)
		fmt.Println("Q:", qs, "\n  =>", String(q), " cols", q.Header().Columns)
		for row := q.Get(th, Next); row != nil; row = q.Get(th, Next) {
			fmt.Println("     ", RowStr(q.Header(), row))
		}
	})
	if p != nil {
		fmt.Println("Q:", qs, "\n  PANIC:", p)
	}
}
func TestVerifScratch(t *testing.T) {
	vfInitEngine()
	db := vfScratchDB("create t (k, a, b) key(k) index(b)", "insert { k: 1, a: 1, b: 5 } into t", "insert { k: 2, a: 2, b: 5 } into t", "insert { k: 3, a: 3, b: 6 } into t")
	th := &Thread{}
	for _, mode := range []Mode{ReadMode, CursorMode} {
		for _, cols := range [][]string{{"a", "k"}, {"b", "k"}, {"k", "b", "a"}} {
			p, _ := vk.Catch(func() {
				rt := db.NewReadTran()
				q := ParseQuery("(t where a is 1) union (t where a is 2)", rt, nil)
				q = q.Transform()
				req := UniqueReq(cols, 1)
				f, v := Optimize(q, mode, req)
				fmt.Println(mode, cols, "cost", f, v)
				q = SetApproach(q, req, rt)
				fmt.Println(String(q))
				sels := Sels{}
				for _, c := range cols {
					sels = append(sels, Sel{c, Pack(IntVal(map[string]int{"k": 1, "a": 1, "b": 5}[c]))})
				}
				row := q.Lookup(th, sels)
				fmt.Println("lookup", row)
			})
			fmt.Println("panic", p)
		}
	}
}
