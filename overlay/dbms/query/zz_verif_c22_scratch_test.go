package query

import (
	"fmt"
	"testing"

	. "github.com/apmckinlay/gsuneido/core"
	"github.com/apmckinlay/gsuneido/db19"
	"github.com/apmckinlay/gsuneido/db19/stor"
	vk "github.com/apmckinlay/gsuneido/util/verifkit"
)

func vfScratchDB(stmts ...string) *db19.Database {
	st := stor.HeapStor(64 * 1024)
	st.Alloc(1)
	db := db19.CreateDb(st)
	db.CheckerSync()
	for _, s := range stmts {
		if len(s) > 6 && s[:6] == "insert" {
			ut := db.NewUpdateTran()
			DoAction(nil, ut, s)
			db.CommitMerge(ut)
		} else {
			DoAdmin(db, s, nil)
		}
	}
	return db
}

func vfScratchRun(db *db19.Database, qs string) {
	th := &Thread{}
	p, _ := vk.Catch(func() {
		rt := db.NewReadTran()
		q := ParseQuery(qs, rt, nil)
		q, _, _ = Setup(q, ReadMode, rt)
		fmt.Println("Q:", qs, "\n  =>", String(q), " cols", q.Header().Columns)
		for row := q.Get(th, Next); row != nil; row = q.Get(th, Next) {
			fmt.Println("     ", RowStr(q.Header(), row))
		}
	})
	if p != nil {
		fmt.Println("Q:", qs, "\n  PANIC:", p)
	}
}
func TestVerifScratch(t *testing.T) {
	vfInitEngine()
	db := vfScratchDB("create t (k, a) key(k)", "insert { k: 1, a: 1 } into t", "insert { k: 2, a: 1 } into t")
	ut := db.NewUpdateTran()
	n := 0
	p, _ := vk.Catch(func() { n = DoAction(&Thread{}, ut, "insert (t rename k to k0 extend k = k0 + 10) into t") })
	fmt.Println("count", n, "panic", p)
	db = vfScratchDB("create t1 (g, b, c, h) key(g,h)", "create t2 (a, b, d) key()", "insert { a: 1, b: 2, d: 3 } into t2", "insert { g: 1, b: 2, c: 3, h: 4 } into t1")
	vfScratchRun(db, "(t2 semijoin t1) intersect t2")
	vfScratchRun(db, "t2 intersect t2")
}
